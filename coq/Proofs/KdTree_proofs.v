(** Proofs for Model/KdTree.v: std::partition's contract for the modelled algorithm, the decoder loop
    retracing the encoder's walk (node_ok), and the round trip of EncodePoints / DecodePoints for all
    seven compression levels. *)
From Coq Require Import ZifyBool Permutation.
From Draco Require Import Base.Codec Base.Bits Gen.Constants Model.Varint Model.Ans Model.BitCoders Model.SeqAttr Model.SeqCodec Model.KdTree
  Proofs.Varint_proofs Proofs.BitCoders_proofs Proofs.DirectCoder_proofs Proofs.FoldedCoder_proofs Proofs.C17_final_proofs.
Local Open Scope Z_scope.

(** * vectors *)
Lemma upd_spec {A} (l : list A) : forall i x l', upd l i x = Some l' ->
  length l' = length l /\ nth_error l' i = Some x /\ (forall j, j <> i -> nth_error l' j = nth_error l j).
Proof.
  induction l as [|a l IH]; intros i x l' H; [destruct i; discriminate|].
  destruct i as [|i]; cbn [upd] in H.
  - injection H as <-. split; [reflexivity|]. split; [reflexivity|]. intros [|j] Hj; [congruence|reflexivity].
  - destruct (upd l i x) as [r|] eqn:E; [|discriminate]. injection H as <-.
    destruct (IH _ _ _ E) as (Hl & Hn & Ho). split; [cbn; lia|]. split; [exact Hn|].
    intros [|j] Hj; [reflexivity|]. cbn [nth_error]. apply Ho. congruence.
Qed.
Lemma upd_some {A} (l : list A) : forall i x, (i < length l)%nat -> exists l', upd l i x = Some l'.
Proof.
  induction l as [|a l IH]; intros i x H; [cbn in H; lia|].
  destruct i as [|i]; cbn [upd]; [eexists; reflexivity|].
  destruct (IH i x) as (r & ->); [cbn in H; lia|]. eexists; reflexivity.
Qed.
Lemma nth_error_nth_Z (l : list Z) i : (i < length l)%nat -> nth_error l i = Some (nth i l 0).
Proof. intros H. apply nth_error_nth'. exact H. Qed.
Lemma nth_of_nth_error (l : list Z) i x : nth_error l i = Some x -> nth i l 0 = x /\ (i < length l)%nat.
Proof. intros H. split; [apply nth_error_nth; exact H|]. apply nth_error_Some. congruence. Qed.
Lemma upd_nth (l : list Z) i x l' : upd l i x = Some l' ->
  length l' = length l /\ nth i l' 0 = x /\ (forall j, j <> i -> nth j l' 0 = nth j l 0).
Proof.
  intros H. destruct (upd_spec _ _ _ _ H) as (Hl & Hn & Ho). split; [exact Hl|]. split.
  - apply nth_error_nth. exact Hn.
  - intros j Hj. specialize (Ho j Hj).
    destruct (Nat.lt_ge_cases j (length l)) as [Hlt|Hge].
    + rewrite (nth_error_nth_Z l j Hlt) in Ho. apply nth_error_nth. exact Ho.
    + rewrite !nth_overflow by lia. reflexivity.
Qed.

(** * std::partition: the model meets the contract, and is total *)
Section PartitionProofs.
  Context {A : Type} (f : A -> bool).
  Lemma span_true_spec l : forall a b, span_true f l = (a, b) ->
    l = a ++ b /\ Forall (fun x => f x = true) a /\ (match b with [] => True | x :: _ => f x = false end).
  Proof.
    induction l as [|x l IH]; intros a b H; cbn [span_true] in H.
    - injection H as <- <-. auto.
    - destruct (f x) eqn:E.
      + destruct (span_true f l) as [a' b'] eqn:E'. injection H as <- <-.
        destruct (IH _ _ eq_refl) as (-> & Hf & Hb). split; [reflexivity|]. split; [constructor; assumption|exact Hb].
      + injection H as <- <-. split; [reflexivity|]. split; [constructor|exact E].
  Qed.
  Lemma span_false_spec l : forall a b, span_false f l = (a, b) ->
    l = a ++ b /\ Forall (fun x => f x = false) a /\ (match b with [] => True | x :: _ => f x = true end).
  Proof.
    induction l as [|x l IH]; intros a b H; cbn [span_false] in H.
    - injection H as <- <-. auto.
    - destruct (f x) eqn:E.
      + injection H as <- <-. split; [reflexivity|]. split; [constructor|exact E].
      + destruct (span_false f l) as [a' b'] eqn:E'. injection H as <- <-.
        destruct (IH _ _ eq_refl) as (-> & Hf & Hb). split; [reflexivity|]. split; [constructor; assumption|exact Hb].
  Qed.
  Lemma bidir_partition_spec fuel : forall m a b, bidir_partition f fuel m = Some (a, b) ->
    Permutation m (a ++ b) /\ Forall (fun x => f x = true) a /\ Forall (fun x => f x = false) b.
  Proof.
    induction fuel as [|k IH]; intros m a b H; [discriminate|]. cbn [bidir_partition] in H.
    destruct (span_true f m) as [a0 m1] eqn:E1. destruct (span_true_spec _ _ _ E1) as (-> & Ha0 & Hm1).
    destruct m1 as [|x m2].
    - injection H as <- <-. rewrite app_nil_r. split; [apply Permutation_refl|]. split; [exact Ha0|constructor].
    - destruct (span_false f (rev m2)) as [brev m3rev] eqn:E2.
      destruct (span_false_spec _ _ _ E2) as (Hr & Hbrev & Hm3).
      assert (Hm2: m2 = rev m3rev ++ rev brev).
      { rewrite <- rev_app_distr, <- Hr, rev_involutive. reflexivity. }
      destruct m3rev as [|y m4rev].
      + injection H as <- <-. cbn [rev app] in Hm2. subst m2. split; [apply Permutation_refl|]. split; [exact Ha0|].
        constructor; [exact Hm1|]. apply Forall_rev. exact Hbrev.
      + destruct (bidir_partition f k (rev m4rev)) as [[l r]|] eqn:E3; [|discriminate]. injection H as <- <-.
        destruct (IH _ _ _ E3) as (Hp & Hl & Hr').
        subst m2. cbn [rev]. split.
        * rewrite <- (app_assoc a0). apply Permutation_app_head. cbn [app].
          set (B := rev brev).
          apply Permutation_trans with (x :: ((l ++ r) ++ [y]) ++ B).
          { apply perm_skip. apply Permutation_app_tail. apply Permutation_app_tail. exact Hp. }
          apply Permutation_trans with (x :: (y :: (l ++ r)) ++ B).
          { apply perm_skip. apply Permutation_app_tail. apply Permutation_sym. apply Permutation_cons_append. }
          cbn [app]. apply Permutation_trans with (y :: x :: (l ++ r) ++ B); [apply perm_swap|].
          apply perm_skip. rewrite (app_assoc l r). apply Permutation_middle.
        * split.
          { apply Forall_app. split; [exact Ha0|]. constructor; [exact Hm3|exact Hl]. }
          { apply Forall_app. split; [exact Hr'|]. constructor; [exact Hm1|]. apply Forall_rev. exact Hbrev. }
  Qed.
  Lemma span_true_len l : forall a b, span_true f l = (a, b) -> (length b <= length l)%nat.
  Proof. intros a b H. destruct (span_true_spec _ _ _ H) as (-> & _). rewrite app_length. lia. Qed.
  Lemma bidir_partition_total fuel : forall m, (length m < fuel)%nat -> exists r, bidir_partition f fuel m = Some r.
  Proof.
    induction fuel as [|k IH]; intros m H; [lia|]. cbn [bidir_partition].
    destruct (span_true f m) as [a0 m1] eqn:E1. pose proof (span_true_len _ _ _ E1) as L1.
    destruct m1 as [|x m2]; [eexists; reflexivity|].
    destruct (span_false f (rev m2)) as [brev m3rev] eqn:E2.
    destruct (span_false_spec _ _ _ E2) as (Hr & _ & _).
    assert (L2: (length brev + length m3rev = length m2)%nat).
    { rewrite <- app_length, <- Hr, rev_length. reflexivity. }
    destruct m3rev as [|y m4rev]; [eexists; reflexivity|].
    destruct (IH (rev m4rev)) as ([l r] & ->); [rewrite rev_length; cbn [length] in *; lia|].
    eexists; reflexivity.
  Qed.
  Theorem std_partition_spec m a b : std_partition f m = Some (a, b) ->
    Permutation m (a ++ b) /\ Forall (fun x => f x = true) a /\ Forall (fun x => f x = false) b.
  Proof. apply bidir_partition_spec. Qed.
  Theorem std_partition_total m : exists r, std_partition f m = Some r.
  Proof. apply bidir_partition_total. lia. Qed.
End PartitionProofs.

(** * the DirectBit decoder positioned in front of a list of operations *)
Definition dready (st : direct_st) (ops : list bop) : Prop := exists pad, ds_bits st = flatten ops ++ pad.
Lemma dready_bit st b r : dready st (OBit b :: r) -> exists st', direct_next st = (b, st') /\ dready st' r.
Proof.
  intros (pad & H). unfold direct_next. unfold flatten in H. cbn [map concat bits_of_op app] in H. rewrite H.
  eexists; split; [reflexivity|]. exists pad. reflexivity.
Qed.
Lemma dready_lsb st n v r : dready st (OLsb n v :: r) -> 0 <= v ->
  exists st', direct_lsb n st = Some (v mod 2 ^ Z.of_nat n, st') /\ dready st' r.
Proof.
  intros (pad & H) Hv. unfold direct_lsb. unfold flatten in H. cbn [map concat bits_of_op] in H.
  rewrite H, <- app_assoc.
  replace (length (bits_msb n v ++ concat (map bits_of_op r) ++ pad) <? n)%nat with false.
  2:{ symmetry. apply Nat.ltb_ge. rewrite app_length, bits_msb_length. lia. }
  pose proof (firstn_app_exact (bits_msb n v) (concat (map bits_of_op r) ++ pad)) as F.
  pose proof (skipn_app_exact (bits_msb n v) (concat (map bits_of_op r) ++ pad)) as S.
  rewrite bits_msb_length in F, S. rewrite F, S, val_msb_bits_msb by exact Hv.
  eexists; split; [reflexivity|]. exists pad. reflexivity.
Qed.
Lemma dready_nil_any st : dready st [] .
Proof. exists (ds_bits st). reflexivity. Qed.

(** the direct decoder started on the encoder's block is ready for the operations written *)
Theorem direct_start_ready ops bs rest :
  4 * (Z.of_nat (length (flatten ops)) / 32 + 1) < 2 ^ 32 ->
  direct_encode (flatten ops) = Some bs ->
  exists st, direct_start (bs ++ rest) = Some (st, rest) /\ dready st ops.
Proof.
  set (bits := flatten ops). intros Hsz Henc. unfold direct_encode in Henc.
  set (nw := (length bits / 32 + 1)%nat) in *.
  replace bs with (enc_le 4 (4 * Z.of_nat nw) ++ concat (map (enc_le 4) (direct_words nw bits))) by congruence.
  assert (Hnw: Z.of_nat nw = Z.of_nat (length bits) / 32 + 1).
  { unfold nw. rewrite Nat2Z.inj_add, Nat2Z.inj_div. reflexivity. }
  unfold direct_start. rewrite <- app_assoc.
  rewrite (le_roundtrips 4 (4 * Z.of_nat nw) _ (concat (map (enc_le 4) (direct_words nw bits)) ++ rest)); [| |reflexivity].
  2:{ change (256 ^ Z.of_nat 4) with (2 ^ 32). lia. }
  replace ((4 * Z.of_nat nw =? 0) || negb (Z.land (4 * Z.of_nat nw) 3 =? 0)) with false.
  2:{ symmetry. apply orb_false_iff. split; [lia|]. apply negb_false_iff. apply Z.eqb_eq.
      change 3 with (2 ^ 2 - 1). rewrite land_ones_mod by lia. change (2 ^ 2) with 4.
      rewrite Z.mul_comm. apply Z.mod_mul. lia. }
  replace (4 * Z.of_nat nw >? Z.of_nat (length (concat (map (enc_le 4) (direct_words nw bits)) ++ rest))) with false.
  2:{ rewrite app_length, concat_enc_le_length, direct_words_length. lia. }
  replace (4 * Z.of_nat nw / 4) with (Z.of_nat nw) by (rewrite Z.mul_comm, Z.div_mul; lia).
  rewrite Nat2Z.id.
  pose proof (dec_words_roundtrip (direct_words nw bits) rest (direct_words_range nw bits)) as Hdw.
  rewrite direct_words_length in Hdw. rewrite Hdw.
  eexists; split; [reflexivity|].
  destruct (direct_words_bits nw bits) as (pad & Hp).
  { unfold nw. pose proof (Nat.div_mod (length bits) 32 ltac:(lia)). pose proof (Nat.mod_upper_bound (length bits) 32 ltac:(lia)). lia. }
  exists pad. cbn [ds_bits]. exact Hp.
Qed.

(** * axis choice *)
Lemma skipn_S_tl {A} (l : list A) : forall i, skipn (S i) l = tl (skipn i l).
Proof.
  induction l as [|a l IH]; intros i.
  - destruct i; reflexivity.
  - destruct i as [|i]; [reflexivity|]. change (skipn (S (S i)) (a :: l)) with (skipn (S i) l).
    change (skipn (S i) (a :: l)) with (skipn i l). apply IH.
Qed.
(** the value at the chosen index is minimal; stated on the list [pre ++ l] being scanned *)
Lemma argmin_from_min l : forall (all : list Z) best bestv i,
  (best < i)%nat -> nth_error all best = Some bestv -> i = (length all - length l)%nat -> skipn i all = l ->
  (forall j, (j < i)%nat -> bestv <= nth j all 0) ->
  let r := argmin_from best bestv i l in
  (r < length all)%nat /\ forall j, (j < length all)%nat -> nth r all 0 <= nth j all 0.
Proof.
  induction l as [|x l IH]; intros all best bestv i Hb Hn Hi Hs Hmin r; subst r; cbn [argmin_from].
  - cbn [length] in Hi. assert (Hlen: (best < length all)%nat) by (apply nth_error_Some; congruence).
    split; [exact Hlen|]. intros j Hj. rewrite (nth_error_nth _ _ 0 Hn). apply Hmin. lia.
  - assert (Hil: (i < length all)%nat).
    { destruct (Nat.lt_ge_cases i (length all)); [assumption|]. rewrite skipn_all2 in Hs by lia. discriminate. }
    assert (Hx: nth_error all i = Some x).
    { rewrite <- (firstn_skipn i all) at 1. rewrite nth_error_app2; rewrite firstn_length_le by lia; [|lia].
      rewrite Nat.sub_diag, Hs. reflexivity. }
    assert (Hs': skipn (S i) all = l).
    { rewrite skipn_S_tl, Hs. reflexivity. }
    cbn [length] in Hi.
    destruct (bestv >? x) eqn:E.
    + apply IH; [lia|exact Hx|lia|exact Hs'|].
      intros j Hj. destruct (Nat.eq_dec j i) as [->|Hne]; [rewrite (nth_error_nth _ _ 0 Hx); lia|].
      specialize (Hmin j ltac:(lia)). lia.
    + apply IH; [lia|exact Hn|lia|exact Hs'|].
      intros j Hj. destruct (Nat.eq_dec j i) as [->|Hne]; [rewrite (nth_error_nth _ _ 0 Hx); lia|].
      apply Hmin. lia.
Qed.
Lemma argmin_levels_spec levels : (1 <= length levels)%nat ->
  (argmin_levels levels < length levels)%nat /\
  forall j, (j < length levels)%nat -> nth (argmin_levels levels) levels 0 <= nth j levels 0.
Proof.
  intros H. destruct levels as [|x l]; [cbn in H; lia|]. unfold argmin_levels.
  apply (argmin_from_min l (x :: l) 0%nat x 1%nat); [lia|reflexivity|cbn [length]; lia|reflexivity|].
  intros j Hj. assert (j = 0%nat) by lia. subst j. cbn. lia.
Qed.

Lemma inc_mod_lt i m : (i < m)%nat -> (inc_mod i m < m)%nat.
Proof. intros H. unfold inc_mod. destruct (S i =? m)%nat eqn:E; lia. Qed.

(** * the loop runner *)
Section Run.
  Context {NS : Type}.
  Variable sel : bool. Variable dim : nat. Variable bl : Z.
  Variable num_lsb : nat -> NS -> option (Z * NS). Variable np : Z.
  Notation dst := (@dst NS).
  Notation lstep := (@lstep sel dim bl NS num_lsb np).
  Notation lrun := (@lrun sel dim bl NS num_lsb np).
  Notation dstep := (@dstep sel dim bl NS num_lsb np).
  Fixpoint lrun_nat (n : nat) (s : dst) : @lres NS :=
    match n with
    | O => LMore s
    | S k => match lstep s with LMore s' => lrun_nat k s' | r => r end
    end.
  Lemma lrun_nat_add a : forall b s,
    lrun_nat (a + b) s = match lrun_nat a s with LMore s' => lrun_nat b s' | r => r end.
  Proof.
    induction a as [|a IH]; intros b s; [reflexivity|]. cbn [plus lrun_nat].
    destruct (lstep s); try reflexivity. apply IH.
  Qed.
  Lemma lrun_nat_1 s : lrun_nat 1 s = lstep s.
  Proof. cbn [lrun_nat]. destruct (lstep s); reflexivity. Qed.
  Lemma lrun_is_nat p : forall s, lrun p s = lrun_nat (Pos.to_nat p) s.
  Proof.
    induction p as [p IH|p IH|]; intros s.
    - rewrite Pos2Nat.inj_xI. cbn [KdTree.lrun]. replace (S (2 * Pos.to_nat p)) with (1 + (Pos.to_nat p + Pos.to_nat p))%nat by lia.
      rewrite lrun_nat_add, lrun_nat_1. destruct (lstep s); try reflexivity.
      rewrite lrun_nat_add, IH. destruct (lrun_nat (Pos.to_nat p) s0); try reflexivity. apply IH.
    - rewrite Pos2Nat.inj_xO. cbn [KdTree.lrun]. replace (2 * Pos.to_nat p)%nat with (Pos.to_nat p + Pos.to_nat p)%nat by lia.
      rewrite lrun_nat_add, IH. destruct (lrun_nat (Pos.to_nat p) s); try reflexivity. apply IH.
    - cbn [KdTree.lrun]. change (Pos.to_nat 1) with 1%nat. rewrite lrun_nat_1. reflexivity.
  Qed.
  Lemma lrun_nat_done k : forall s, d_stack s = [] -> lrun_nat (S k) s = LDone s.
  Proof. intros s H. cbn [lrun_nat]. unfold KdTree.lstep. rewrite H. reflexivity. Qed.
  Lemma lrun_nat_finish k s s' m : lrun_nat k s = LMore s' -> d_stack s' = [] -> (k < m)%nat -> lrun_nat m s = LDone s'.
  Proof.
    intros H Hs Hm. replace m with (k + S (m - k - 1))%nat by lia. rewrite lrun_nat_add, H. apply lrun_nat_done. exact Hs.
  Qed.
  Lemma lstep_more s fr stk s' : d_stack s = fr :: stk -> dstep s = Some s' -> lstep s = LMore s'.
  Proof. intros H1 H2. unfold KdTree.lstep. rewrite H1, H2. reflexivity. Qed.
End Run.

Lemma app4_assoc a b c : app4 (app4 a b) c = app4 a (app4 b c).
Proof. unfold app4; cbn. rewrite <- !app_assoc. reflexivity. Qed.
Lemma app4_nil_l a : app4 ops4_nil a = a.
Proof. destruct a; reflexivity. Qed.

Section AxesFrom.
  Variable dim : nat.
  Hypothesis Hdim : (1 <= dim)%nat.
  Lemma inc_mod_mod a : (a < dim)%nat -> inc_mod a dim = ((a + 1) mod dim)%nat.
  Proof.
    intros H. unfold inc_mod. destruct (S a =? dim)%nat eqn:E.
    - apply Nat.eqb_eq in E. replace (a + 1)%nat with dim by lia. rewrite Nat.mod_same by lia. reflexivity.
    - apply Nat.eqb_neq in E. rewrite Nat.mod_small by lia. lia.
  Qed.
  Lemma axes_from_map k : forall a, (a < dim)%nat ->
    axes_from dim a k = map (fun j => ((a + j) mod dim)%nat) (seq 0 k).
  Proof.
    induction k as [|k IH]; intros a Ha; [reflexivity|]. cbn [axes_from seq map].
    f_equal; [rewrite Nat.add_0_r, Nat.mod_small by lia; reflexivity|].
    rewrite IH by (apply inc_mod_lt; exact Ha). rewrite <- seq_shift, map_map. apply map_ext. intros j.
    rewrite inc_mod_mod by exact Ha. rewrite Nat.add_mod_idemp_l by lia. f_equal. lia.
  Qed.
  Lemma axes_from_lt a : (a < dim)%nat -> Forall (fun x => (x < dim)%nat) (axes_from dim a dim).
  Proof.
    intros Ha. rewrite axes_from_map by exact Ha. apply Forall_forall. intros x Hx. apply in_map_iff in Hx.
    destruct Hx as (j & <- & _). apply Nat.mod_upper_bound. lia.
  Qed.
  Lemma axes_from_cover a b : (a < dim)%nat -> (b < dim)%nat -> In b (axes_from dim a dim).
  Proof.
    intros Ha Hb. rewrite axes_from_map by exact Ha. apply in_map_iff.
    exists ((b + dim - a) mod dim)%nat. split; [|apply in_seq; split; [lia|apply Nat.mod_upper_bound; lia]].
    rewrite Nat.add_mod_idemp_r by lia. replace (a + (b + dim - a))%nat with (b + 1 * dim)%nat by lia.
    rewrite Nat.mod_add by lia. apply Nat.mod_small. exact Hb.
  Qed.
End AxesFrom.

Section TreeProofs.
  Variable sel : bool. Variable dim : nat. Variable bl : Z.
  Variable part : (point -> bool) -> list point -> option (list point * list point).
  Context {NS : Type}.
  Variable num_lsb : nat -> NS -> option (Z * NS). Variable np : Z.
  Hypothesis Hdim : (1 <= dim)%nat.
  Hypothesis Hdim16 : sel = true -> (dim <= 16)%nat.
  Hypothesis Hbl : 0 <= bl <= 32.
  Hypothesis Hnp : np < 2 ^ 32.
  Hypothesis part_spec : forall f l a b, part f l = Some (a, b) ->
    Permutation l (a ++ b) /\ Forall (fun p => f p = true) a /\ Forall (fun p => f p = false) b.
  Variable nready : NS -> list bop -> Prop.
  Hypothesis nready_step : forall st n v r, nready st (OLsb n v :: r) -> (n <= 32)%nat -> 0 <= v ->
    exists st', num_lsb n st = Some (v mod 2 ^ Z.of_nat n, st') /\ nready st' r.

  (** round-robin axis choice: after k splits, axes 1..last have been split once more than the others *)
  Definition RR (levels : list Z) (last : nat) : Prop :=
    exists m, forall a, (a < dim)%nat -> nth a levels 0 = m + (if (1 <=? a)%nat && (a <=? last)%nat then 1 else 0).

  Record WF (pts : list point) (base levels : list Z) (last : nat) : Prop := {
    wf_lb : length base = dim;
    wf_ll : length levels = dim;
    wf_lev : forall a, (a < dim)%nat -> 0 <= nth a levels 0 <= bl;
    wf_base : forall a, (a < dim)%nat ->
      0 <= nth a base 0 /\ (nth a base 0) mod 2 ^ (bl - nth a levels 0) = 0 /\ nth a base 0 + 2 ^ (bl - nth a levels 0) <= 2 ^ bl;
    wf_pts : Forall (fun p => length p = dim /\
               forall a, (a < dim)%nat -> nth a base 0 <= nth a p 0 < nth a base 0 + 2 ^ (bl - nth a levels 0)) pts;
    wf_ax : sel = false -> RR levels last;
    wf_last : (last < dim)%nat
  }.

  Lemma RR_axis levels last : RR levels last -> (last < dim)%nat ->
    forall a, (a < dim)%nat -> nth (inc_mod last dim) levels 0 <= nth a levels 0.
  Proof.
    intros (m & H) Hl a Ha. pose proof (inc_mod_lt last dim Hl) as Hi.
    rewrite (H _ Hi), (H _ Ha). unfold inc_mod in *. destruct (S last =? dim)%nat eqn:E.
    - replace ((1 <=? 0)%nat && (0 <=? last)%nat) with false by reflexivity. destruct ((1 <=? a)%nat && (a <=? last)%nat); lia.
    - replace ((1 <=? S last)%nat && (S last <=? last)%nat) with false by lia.
      destruct ((1 <=? a)%nat && (a <=? last)%nat); lia.
  Qed.
  Lemma RR_step levels last levels' : RR levels last -> (last < dim)%nat ->
    upd levels (inc_mod last dim) (nth (inc_mod last dim) levels 0 + 1) = Some levels' ->
    RR levels' (inc_mod last dim).
  Proof.
    intros (m & H) Hl Hu. destruct (upd_nth _ _ _ _ Hu) as (_ & Hx & Ho).
    pose proof (inc_mod_lt last dim Hl) as Hi. unfold inc_mod in *. destruct (S last =? dim)%nat eqn:E.
    - exists (m + 1). intros a Ha. destruct (Nat.eq_dec a 0) as [->|Hne].
      + rewrite Hx, (H _ Hi). replace ((1 <=? 0)%nat && (0 <=? last)%nat) with false by reflexivity.
        replace ((1 <=? 0)%nat && (0 <=? 0)%nat) with false by reflexivity. lia.
      + rewrite (Ho a Hne), (H a Ha).
        replace ((1 <=? a)%nat && (a <=? last)%nat) with true by lia.
        replace ((1 <=? a)%nat && (a <=? 0)%nat) with false by lia. lia.
    - exists m. intros a Ha. destruct (Nat.eq_dec a (S last)) as [->|Hne].
      + rewrite Hx, (H _ Hi). replace ((1 <=? S last)%nat && (S last <=? last)%nat) with false by lia.
        replace ((1 <=? S last)%nat && (S last <=? S last)%nat) with true by lia. lia.
      + rewrite (Ho a Hne), (H a Ha).
        replace ((1 <=? a)%nat && (a <=? S last)%nat) with ((1 <=? a)%nat && (a <=? last)%nat) by lia. reflexivity.
  Qed.

  (** GetAndEncodeAxis with >= 64 points *)
  Lemma axis_dev_pos pts base levels i nrb dev : pts <> [] ->
    axis_dev bl pts base levels i = Some (nrb, dev) -> nth_error levels i = Some (bl - nrb) /\ (0 < nrb -> 1 <= dev).
  Proof.
    intros Hne H. unfold axis_dev in H. destruct (nth_error levels i) as [lv|] eqn:El; [|discriminate].
    destruct (nth_error base i) as [b|]; [|discriminate]. destruct (0 <? bl - lv) eqn:E.
    - injection H as <- <-. split; [f_equal; lia|]. intros _.
      assert (1 <= Z.of_nat (length pts)) by (destruct pts; [congruence|cbn [length]; lia]).
      pose proof (filter_len (fun p : point => coord p i <? (b + 2 ^ (bl - lv - 1)) mod 2 ^ 32) pts). lia.
    - injection H as <- <-. split; [f_equal; lia|lia].
  Qed.
  Lemma best_axis_from_spec pts base levels : pts <> [] -> forall axes maxv best r,
    best_axis_from bl pts base levels axes maxv best = Some r ->
    (r = best /\ forall i, In i axes -> forall lv, nth_error levels i = Some lv -> bl - lv <= 0 \/ maxv >= 1) \/
    (In r axes /\ exists lv, nth_error levels r = Some lv /\ bl - lv <> 0).
  Proof.
    intros Hne. induction axes as [|i axes IH]; intros maxv best r H; cbn [best_axis_from] in H.
    - injection H as <-. left. split; [reflexivity|]. intros i [].
    - destruct (axis_dev bl pts base levels i) as [[nrb dev]|] eqn:Ed; [|discriminate].
      destruct (axis_dev_pos _ _ _ _ _ _ Hne Ed) as (Hlv & Hdev).
      destruct (negb (nrb =? 0) && (maxv <? dev)) eqn:Ec.
      + destruct (IH _ _ _ H) as [(-> & _)|(Hin & Hx)].
        * right. split; [left; reflexivity|]. exists (bl - nrb). split; [exact Hlv|lia].
        * right. split; [right; exact Hin|exact Hx].
      + destruct (IH _ _ _ H) as [(-> & Hall)|(Hin & Hx)].
        * left. split; [reflexivity|]. intros j [<-|Hj] lv Hl; [|apply (Hall j Hj lv Hl)].
          rewrite Hlv in Hl. injection Hl as <-. lia.
        * right. split; [right; exact Hin|exact Hx].
  Qed.

  Notation enc_axis := (enc_axis sel dim bl).
  Notation dec_axis := (dec_axis sel dim).

  Lemma enc_axis_ok pts base levels last axis axops : WF pts base levels last -> pts <> [] ->
    enc_axis pts base levels last = Some (axis, axops) ->
    (axis < dim)%nat /\
    (nth axis levels 0 = bl -> forall a, (a < dim)%nat -> nth a levels 0 = bl) /\
    (forall ax tail, dready ax (axops ++ tail) ->
       exists ax', dec_axis (Z.of_nat (length pts)) levels last ax = (axis, ax') /\ dready ax' tail) /\
    (sel = false -> axis = inc_mod last dim).
  Proof.
    intros W Hne H. unfold KdTree.enc_axis in H. unfold KdTree.dec_axis.
    assert (Hs: sel = true \/ sel = false) by (destruct sel; auto).
    destruct Hs as [Es|Es]; rewrite Es in H |- *; cbn [negb] in *.
    - destruct (Z.of_nat (length pts) <? 64) eqn:E64.
      + injection H as <- <-. destruct (argmin_levels_spec levels) as (Hlt & Hmin); [rewrite (wf_ll _ _ _ _ W); lia|].
        rewrite (wf_ll _ _ _ _ W) in *. split; [exact Hlt|]. split.
        * intros Hb a Ha. pose proof (Hmin a Ha). pose proof (wf_lev _ _ _ _ W a Ha). lia.
        * split; [|intros; discriminate]. intros ax tail Hr. exists ax. split; [reflexivity|exact Hr].
      + destruct (best_axis_from bl pts base levels (seq 0 dim) 0 0) as [r|] eqn:Eb; [|discriminate].
        injection H as <- <-.
        destruct (best_axis_from_spec pts base levels Hne _ _ _ _ Eb) as [(-> & Hall)|(Hin & lv & Hlv & Hnz)].
        * split; [lia|]. split.
          { intros _ a Ha. pose proof (wf_lev _ _ _ _ W a Ha) as Hr.
            destruct (Hall a ltac:(apply in_seq; lia) (nth a levels 0)) as [Hc|Hc]; [|lia|lia].
            apply nth_error_nth_Z. rewrite (wf_ll _ _ _ _ W). exact Ha. }
          split; [|intros; discriminate]. intros ax tail Hr. cbn [app] in Hr.
          destruct (dready_lsb _ _ _ _ Hr ltac:(lia)) as (ax' & Hd & Hr'). rewrite Hd. exists ax'. split; [|exact Hr'].
          reflexivity.
        * apply in_seq in Hin. split; [lia|]. split.
          { intros Hb. destruct (nth_of_nth_error _ _ _ Hlv) as (Hv & _). lia. }
          split; [|intros; discriminate]. intros ax tail Hr. cbn [app] in Hr.
          destruct (dready_lsb _ _ _ _ Hr ltac:(lia)) as (ax' & Hd & Hr'). rewrite Hd. exists ax'. split; [|exact Hr'].
          pose proof (Hdim16 Es) as H16. change (2 ^ Z.of_nat 4) with 16. rewrite Z.mod_small by lia. rewrite Nat2Z.id. reflexivity.
    - injection H as <- <-. pose proof (wf_last _ _ _ _ W) as Hl. split; [apply inc_mod_lt; exact Hl|]. split.
      + intros Hb a Ha. pose proof (RR_axis _ _ (wf_ax _ _ _ _ W Es) Hl a Ha). pose proof (wf_lev _ _ _ _ W a Ha). lia.
      + split; [|intros; reflexivity]. intros ax tail Hr. exists ax. split; [reflexivity|exact Hr].
  Qed.

  (** ** boxes holding one or two points *)
  Lemma lor_box b v k : 0 <= k -> 0 <= b -> b mod 2 ^ k = 0 -> b <= v < b + 2 ^ k -> Z.lor b (v mod 2 ^ k) = v.
  Proof.
    intros Hk Hb Hm Hv. assert (Hp: 0 < 2 ^ k) by (apply Z.pow_pos_nonneg; lia).
    pose proof (Z.div_mod b (2 ^ k) ltac:(lia)) as Hd. rewrite Hm, Z.add_0_r in Hd.
    set (q := b / 2 ^ k) in *. assert (Hvm: v mod 2 ^ k = v - b).
    { replace v with ((v - b) + q * 2 ^ k) at 1 by lia. rewrite Z_mod_plus_full. apply Z.mod_small. lia. }
    rewrite Hvm. replace b with (q * 2 ^ k) at 1 by lia. rewrite lor_mul_add by lia. lia.
  Qed.

  Lemma dec_point_axes_ok pts base levels last p : WF pts base levels last -> In p pts ->
    forall axes, Forall (fun a => (a < dim)%nat) axes -> forall q rem ops tail,
    length q = dim -> rem_ops_point bl levels axes p = Some ops -> dready rem (ops ++ tail) ->
    exists q' rem', dec_point_axes bl axes base levels q rem = Some (q', rem') /\ dready rem' tail /\ length q' = dim /\
      (forall a, In a axes -> nth a q' 0 = nth a p 0) /\ (forall a, ~ In a axes -> nth a q' 0 = nth a q 0).
  Proof.
    intros W Hin. pose proof (proj1 (Forall_forall _ _) (wf_pts _ _ _ _ W) p Hin) as (Hlp & Hbox).
    induction axes as [|a r IH]; intros Hax q rem ops tail Hq Hops Hr.
    - cbn [rem_ops_point] in Hops. injection Hops as <-. exists q, rem. split; [reflexivity|]. split; [exact Hr|]. split; [exact Hq|].
      split; [intros a []|reflexivity].
    - inversion Hax as [|? ? Ha Hax']; subst. cbn [rem_ops_point] in Hops. cbn [dec_point_axes].
      rewrite (nth_error_nth_Z levels a) in * by (rewrite (wf_ll _ _ _ _ W); exact Ha).
      rewrite (nth_error_nth_Z base a) by (rewrite (wf_lb _ _ _ _ W); exact Ha).
      destruct (rem_ops_point bl levels r p) as [ops'|] eqn:Eo; [|discriminate]. injection Hops as <-.
      pose proof (wf_lev _ _ _ _ W a Ha) as Hlev. destruct (wf_base _ _ _ _ W a Ha) as (Hb0 & Hbm & Hbt). specialize (Hbox a Ha).
      set (lv := nth a levels 0) in *. set (b := nth a base 0) in *.
      assert (Hstep: exists v rem1, (if bl - lv =? 0 then Some (0, rem) else direct_lsb (Z.to_nat (bl - lv)) rem) = Some (v, rem1) /\
                dready rem1 (ops' ++ tail) /\ Z.lor b v = nth a p 0).
      { destruct (bl - lv =? 0) eqn:E.
        - exists 0, rem. split; [reflexivity|]. split; [exact Hr|]. rewrite Z.lor_0_r.
          replace (bl - lv) with 0 in Hbox by lia. change (2 ^ 0) with 1 in Hbox. lia.
        - cbn [app] in Hr. destruct (dready_lsb _ _ _ _ Hr ltac:(unfold coord; lia)) as (rem1 & Hd & Hr1).
          exists (coord p a mod 2 ^ Z.of_nat (Z.to_nat (bl - lv))), rem1. split; [exact Hd|]. split; [exact Hr1|].
          rewrite Z2Nat.id by lia. unfold coord. apply lor_box; lia. }
      destruct Hstep as (v & rem1 & -> & Hr1 & Hv).
      destruct (upd_some q a (Z.lor b v)) as (q1 & Hu); [lia|]. rewrite Hu.
      destruct (upd_nth _ _ _ _ Hu) as (Hl1 & Hx1 & Ho1).
      destruct (IH Hax' q1 rem1 ops' tail ltac:(lia) eq_refl Hr1) as (q' & rem' & Hd & Hr' & Hl' & Hin' & Hout').
      exists q', rem'. split; [exact Hd|]. split; [exact Hr'|]. split; [exact Hl'|]. split.
      + intros c [<-|Hc]; [|apply Hin'; exact Hc].
        destruct (in_dec Nat.eq_dec a r) as [Hi|Hni]; [apply Hin'; exact Hi|]. rewrite (Hout' a Hni), Hx1. exact Hv.
      + intros c Hc. rewrite Hout' by (intros X; apply Hc; right; exact X). apply Ho1. intros ->. apply Hc. left; reflexivity.
  Qed.

  Lemma dec_points_rem_ok pts base levels last axis : WF pts base levels last -> (axis < dim)%nat ->
    forall l, (forall p, In p l -> In p pts) -> forall q rem ops tail out,
    length q = dim -> rem_ops bl levels (axes_from dim axis dim) l = Some ops -> dready rem (ops ++ tail) ->
    exists q' rem', dec_points_rem bl (length l) (axes_from dim axis dim) base levels q rem out = Some (q', rem', rev l ++ out) /\
      dready rem' tail /\ length q' = dim.
  Proof.
    intros W Hax. induction l as [|p l IH]; intros Hsub q rem ops tail out Hq Hops Hr.
    - cbn [rem_ops] in Hops. injection Hops as <-. exists q, rem. split; [reflexivity|]. split; [exact Hr|exact Hq].
    - cbn [rem_ops] in Hops. destruct (rem_ops_point bl levels (axes_from dim axis dim) p) as [o1|] eqn:E1; [|discriminate].
      destruct (rem_ops bl levels (axes_from dim axis dim) l) as [o2|] eqn:E2; [|discriminate]. injection Hops as <-.
      rewrite <- app_assoc in Hr.
      destruct (dec_point_axes_ok pts base levels last p W (Hsub p (or_introl eq_refl)) _ (axes_from_lt dim Hdim axis Hax)
                  q rem o1 (o2 ++ tail) Hq E1 Hr) as (q' & rem' & Hd & Hr' & Hl' & Hin' & _).
      assert (Hqp: q' = p).
      { pose proof (proj1 (Forall_forall _ _) (wf_pts _ _ _ _ W) p (Hsub p (or_introl eq_refl))) as (Hlp & _).
        apply (nth_ext _ _ 0 0); [lia|]. intros a Ha. apply Hin'. apply axes_from_cover; [exact Hdim|exact Hax|lia]. }
      subst q'. cbn [length dec_points_rem]. rewrite Hd.
      destruct (IH (fun x Hx => Hsub x (or_intror Hx)) p rem' o2 tail (p :: out) Hl' eq_refl Hr') as (q2 & rem2 & Hd2 & Hr2 & Hl2).
      exists q2, rem2. split; [|split; assumption]. etransitivity; [exact Hd2|]. cbn [rev]. rewrite <- app_assoc. reflexivity.
  Qed.

  (** ** splitting a box *)
  Lemma pow_split k : 0 < k -> 2 ^ k = 2 * 2 ^ (k - 1).
  Proof. intros. replace k with (Z.succ (k - 1)) at 1 by lia. rewrite Z.pow_succ_r by lia. reflexivity. Qed.
  Lemma mod_half b k : 0 < k -> b mod 2 ^ k = 0 -> b mod 2 ^ (k - 1) = 0.
  Proof.
    intros Hk H. assert (0 < 2 ^ (k - 1)) by (apply Z.pow_pos_nonneg; lia).
    apply Z.mod_divide in H; [|rewrite (pow_split k Hk); lia]. apply Z.mod_divide; [lia|].
    eapply Z.divide_trans; [|exact H]. exists 2. apply pow_split. exact Hk.
  Qed.

  Lemma WF_split pts base levels last axis level b new_base levels' lo hi :
    WF pts base levels last -> (axis < dim)%nat -> (sel = false -> axis = inc_mod last dim) ->
    nth_error levels axis = Some level -> bl - level <> 0 -> nth_error base axis = Some b ->
    let nb := (b + 2 ^ (bl - level - 1)) mod 2 ^ 32 in
    upd base axis nb = Some new_base -> upd levels axis (level + 1) = Some levels' ->
    part (fun p => coord p axis <? nb) pts = Some (lo, hi) ->
    nb = b + 2 ^ (bl - level - 1) /\ Permutation pts (lo ++ hi) /\
    WF hi new_base levels' axis /\ WF lo base levels' axis.
  Proof.
    intros W Hax Hrr Hlv Hnz Hb nb Hub Hul Hp.
    destruct (nth_of_nth_error _ _ _ Hlv) as (Hlv' & _). destruct (nth_of_nth_error _ _ _ Hb) as (Hb' & _).
    pose proof (wf_lev _ _ _ _ W axis Hax) as Hlev. rewrite Hlv' in Hlev.
    destruct (wf_base _ _ _ _ W axis Hax) as (Hb0 & Hbm & Hbt). rewrite Hlv', Hb' in *.
    assert (Hk: 0 < bl - level) by lia.
    pose proof (pow_split _ Hk) as Hps. replace (bl - level - 1) with (bl - level - 1) in * by lia.
    assert (Hpp: 0 < 2 ^ (bl - level - 1)) by (apply Z.pow_pos_nonneg; lia).
    assert (Hbl32: 2 ^ bl <= 2 ^ 32) by (apply Z.pow_le_mono_r; lia).
    assert (Hnb: nb = b + 2 ^ (bl - level - 1)) by (unfold nb; apply Z.mod_small; lia).
    destruct (part_spec _ _ _ _ Hp) as (Hperm & Hlo & Hhi).
    destruct (upd_nth _ _ _ _ Hub) as (Hlb & Hbx & Hbo). destruct (upd_nth _ _ _ _ Hul) as (Hll & Hlx & Hlo').
    split; [exact Hnb|]. split; [exact Hperm|].
    assert (Hlev': forall a, (a < dim)%nat -> 0 <= nth a levels' 0 <= bl).
    { intros a Ha. destruct (Nat.eq_dec a axis) as [->|Hne]; [rewrite Hlx; lia|]. rewrite (Hlo' a Hne). apply (wf_lev _ _ _ _ W a Ha). }
    assert (Hrr': sel = false -> RR levels' axis).
    { intros Es. rewrite (Hrr Es) in *. apply (RR_step levels last); [apply (wf_ax _ _ _ _ W Es)|apply (wf_last _ _ _ _ W)|].
      rewrite Hlv'. exact Hul. }
    assert (Hsub: forall p, In p (lo ++ hi) -> In p pts) by (intros p Hi; eapply Permutation_in; [apply Permutation_sym; exact Hperm|exact Hi]).
    split.
    - constructor; [rewrite Hlb; apply (wf_lb _ _ _ _ W)|rewrite Hll; apply (wf_ll _ _ _ _ W)|exact Hlev'| | |exact Hrr'|exact Hax].
      + intros a Ha. destruct (Nat.eq_dec a axis) as [->|Hne].
        * rewrite Hbx, Hlx, Hnb. replace (bl - (level + 1)) with (bl - level - 1) by lia. split; [lia|]. split; [|lia].
          rewrite Z.add_mod, (mod_half b (bl - level) Hk Hbm), Z_mod_same_full by lia. reflexivity.
        * rewrite (Hbo a Hne), (Hlo' a Hne). apply (wf_base _ _ _ _ W a Ha).
      + apply Forall_forall. intros p Hi. pose proof (proj1 (Forall_forall _ _) Hhi p Hi) as Hf. cbn beta in Hf.
        pose proof (proj1 (Forall_forall _ _) (wf_pts _ _ _ _ W) p (Hsub p (in_or_app _ _ _ (or_intror Hi)))) as (Hlp & Hbox).
        split; [exact Hlp|]. intros a Ha. destruct (Nat.eq_dec a axis) as [->|Hne].
        * rewrite Hbx, Hlx. specialize (Hbox axis Hax). rewrite Hlv', Hb' in Hbox. unfold coord in Hf.
          replace (bl - (level + 1)) with (bl - level - 1) by lia. lia.
        * rewrite (Hbo a Hne), (Hlo' a Hne). apply Hbox. exact Ha.
    - constructor; [apply (wf_lb _ _ _ _ W)|rewrite Hll; apply (wf_ll _ _ _ _ W)|exact Hlev'| | |exact Hrr'|exact Hax].
      + intros a Ha. destruct (Nat.eq_dec a axis) as [->|Hne].
        * rewrite Hb', Hlx. replace (bl - (level + 1)) with (bl - level - 1) by lia. split; [lia|]. split; [|lia].
          apply (mod_half b (bl - level) Hk Hbm).
        * rewrite (Hlo' a Hne). apply (wf_base _ _ _ _ W a Ha).
      + apply Forall_forall. intros p Hi. pose proof (proj1 (Forall_forall _ _) Hlo p Hi) as Hf. cbn beta in Hf.
        pose proof (proj1 (Forall_forall _ _) (wf_pts _ _ _ _ W) p (Hsub p (in_or_app _ _ _ (or_introl Hi)))) as (Hlp & Hbox).
        split; [exact Hlp|]. intros a Ha. destruct (Nat.eq_dec a axis) as [->|Hne].
        * rewrite Hlx. specialize (Hbox axis Hax). rewrite Hlv', Hb' in Hbox. rewrite Hb'. unfold coord in Hf.
          replace (bl - (level + 1)) with (bl - level - 1) by lia. lia.
        * rewrite (Hlo' a Hne). apply Hbox. exact Ha.
  Qed.

  (** ** the decoder's loop retraces the encoder's walk *)
  Notation enc_node := (enc_node sel dim bl part).
  Notation dstepN := (@dstep sel dim bl NS num_lsb np).
  Notation lrunN := (@lrun_nat NS sel dim bl num_lsb np).
  Notation dstate := (@dst NS).

  Definition ready (s : dstate) (o : ops4) : Prop :=
    nready (d_num s) (o_num o) /\ dready (d_rem s) (o_rem o) /\ dready (d_axis s) (o_axis o) /\ dready (d_half s) (o_half o).
  Definition M : nat := (32 * dim + 1)%nat.

  Lemma enc_node_S f pts base levels last :
    enc_node (S f) pts base levels last =
      let n := Z.of_nat (length pts) in
      match enc_axis pts base levels last with
      | None => None
      | Some (axis, axops) =>
      match nth_error levels axis with
      | None => None
      | Some level =>
        if bl - level =? 0 then Some (mk_ops4 [] [] axops [], pts)
        else if n <=? 2 then
          match rem_ops bl levels (axes_from dim axis dim) pts with
          | Some ro => Some (mk_ops4 [] ro axops [], pts)
          | None => None
          end
        else
          match nth_error base axis with
          | None => None
          | Some b =>
            let nb := (b + 2 ^ (bl - level - 1)) mod 2 ^ 32 in
            match upd base axis nb, upd levels axis (level + 1), part (fun p => coord p axis <? nb) pts with
            | Some new_base, Some levels', Some (lo, hi) =>
                let fh := Z.of_nat (length lo) in
                let sh := Z.of_nat (length hi) in
                let left := fh <? sh in
                let here := mk_ops4 [OLsb (Z.to_nat (Z.log2 n)) (n / 2 - (if left then fh else sh))] [] axops
                                    (if fh =? sh then [] else [OBit left]) in
                let o_hi := match hi with [] => Some (ops4_nil, []) | _ => enc_node f hi new_base levels' axis end in
                let o_lo := match lo with [] => Some (ops4_nil, []) | _ => enc_node f lo base levels' axis end in
                match o_hi, o_lo with
                | Some (a, oa), Some (c, oc) => Some (app4 here (app4 a c), oa ++ oc)
                | _, _ => None
                end
            | _, _, _ => None
            end
          end
      end
      end.
  Proof. reflexivity. Qed.

  Lemma rev_repeat' {A} (x : A) n : rev (repeat x n) = repeat x n.
  Proof.
    induction n as [|k IHk]; [reflexivity|]. cbn [repeat rev]. rewrite IHk.
    clear. induction k as [|k IHk]; [reflexivity|]. cbn [repeat app]. rewrite IHk. reflexivity.
  Qed.
  Lemma all_base pts base levels last : WF pts base levels last ->
    (forall a, (a < dim)%nat -> nth a levels 0 = bl) -> pts = repeat base (length pts).
  Proof.
    intros W Hall. pose proof (wf_pts _ _ _ _ W) as HF. induction pts as [|p l IH]; [reflexivity|].
    cbn [length repeat]. inversion HF as [|? ? (Hlp & Hbox) HF']; subst.
    f_equal.
    - apply (nth_ext _ _ 0 0); [rewrite (wf_lb _ _ _ _ W); exact Hlp|]. intros a Ha. rewrite Hlp in Ha.
      specialize (Hbox a Ha). rewrite (Hall a Ha), Z.sub_diag in Hbox. change (2 ^ 0) with 1 in Hbox. lia.
    - apply IH; [|exact HF']. destruct W; constructor; try assumption.
  Qed.

  Lemma node_ok : forall f pts base levels last o ord,
    enc_node f pts base levels last = Some (o, ord) -> pts <> [] -> WF pts base levels last ->
    forall (s : dstate) stk pos tail,
      d_stack s = mk_frame (Z.of_nat (length pts)) last pos :: stk ->
      nth_error (d_base s) pos = Some base -> nth_error (d_levels s) pos = Some levels ->
      length (d_base s) = M -> length (d_levels s) = M -> (pos + f <= M)%nat ->
      length (d_p s) = dim -> 0 <= d_ndec s ->
      d_ndec s + Z.of_nat (length pts) <= np ->
      ready s (app4 o tail) ->
      exists k s', lrunN k s = LMore s' /\ (k <= length pts * f)%nat /\
        d_stack s' = stk /\ ready s' tail /\ d_out s' = rev ord ++ d_out s /\ Permutation ord pts /\
        d_ndec s' = d_ndec s + Z.of_nat (length pts) /\
        length (d_base s') = M /\ length (d_levels s') = M /\ length (d_p s') = dim /\
        (forall j, (j < pos)%nat -> nth_error (d_base s') j = nth_error (d_base s) j /\
                                    nth_error (d_levels s') j = nth_error (d_levels s) j).
  Proof.
    induction f as [|f IH]; intros pts base levels last o ord Henc Hne W s stk pos tail Hstk Hbs Hls HMb HMl Hpos Hp Hnd0 Hnd Hrdy;
      [discriminate|].
    rewrite enc_node_S in Henc. cbv zeta in Henc.
    destruct (enc_axis pts base levels last) as [[axis axops]|] eqn:Eax; [|discriminate].
    destruct (enc_axis_ok _ _ _ _ _ _ W Hne Eax) as (Hax & Hfull & Hdax & Hrr).
    destruct (nth_error levels axis) as [level|] eqn:Elev; [|discriminate].
    destruct (nth_of_nth_error _ _ _ Elev) as (Hlv' & _).
    assert (Hn1: 1 <= Z.of_nat (length pts)) by (destruct pts; [congruence|cbn [length]; lia]).
    destruct Hrdy as (Rn & Rr & Ra & Rh).
    destruct (bl - level =? 0) eqn:Efull.
    - (* every axis fully subdivided *)
      injection Henc as <- <-. cbn [app4 o_num o_rem o_axis o_half app] in Rn, Rr, Ra, Rh.
      destruct (Hdax _ _ Ra) as (ax' & Hda & Ra').
      assert (Hstep: dstepN s = Some (mk_dst (d_num s) (d_rem s) ax' (d_half s) (d_p s)
                (repeat base (Z.to_nat (Z.of_nat (length pts))) ++ d_out s) (d_ndec s + Z.of_nat (length pts)) stk (d_base s) (d_levels s))).
      { unfold KdTree.dstep. rewrite Hstk. cbn [f_n f_pos f_last]. rewrite Hbs, Hls.
        replace (Z.of_nat (length pts) >? np) with false by lia. rewrite Hda.
        replace (dim <=? axis)%nat with false by lia. rewrite Elev, Efull. reflexivity. }
      exists 1%nat. eexists. split; [rewrite lrun_nat_1; apply (lstep_more _ _ _ _ _ _ _ _ _ Hstk Hstep)|].
      cbn [d_stack d_out d_ndec d_base d_levels d_p d_num d_rem d_axis d_half].
      split; [destruct pts; [congruence|cbn [length]; lia]|]. split; [reflexivity|]. split; [repeat split; assumption|].
      split.
      { rewrite Nat2Z.id. pose proof (all_base pts base levels last W ltac:(apply Hfull; lia)) as E.
        set (k := length pts) in *. clearbody k. rewrite E, rev_repeat'. reflexivity. }
      split; [apply Permutation_refl|]. repeat split; try assumption; reflexivity.
    - destruct (Z.of_nat (length pts) <=? 2) eqn:En2.
      + (* one or two points: remaining bits *)
        destruct (rem_ops bl levels (axes_from dim axis dim) pts) as [ro|] eqn:Ero; [|discriminate].
        injection Henc as <- <-. cbn [app4 o_num o_rem o_axis o_half app] in Rn, Rr, Ra, Rh.
        destruct (Hdax _ _ Ra) as (ax' & Hda & Ra').
        destruct (dec_points_rem_ok pts base levels last axis W Hax pts (fun p H => H) (d_p s) (d_rem s) ro (o_rem tail) (d_out s) Hp Ero Rr)
          as (q' & rem' & Hd & Rr' & Hq').
        assert (Hstep: dstepN s = Some (mk_dst (d_num s) rem' ax' (d_half s) q' (rev pts ++ d_out s)
                  (d_ndec s + Z.of_nat (length pts)) stk (d_base s) (d_levels s))).
        { unfold KdTree.dstep. rewrite Hstk. cbn [f_n f_pos f_last]. rewrite Hbs, Hls.
          replace (Z.of_nat (length pts) >? np) with false by lia. rewrite Hda.
          replace (dim <=? axis)%nat with false by lia. rewrite Elev, Efull, En2, Nat2Z.id, Hd. reflexivity. }
        exists 1%nat. eexists. split; [rewrite lrun_nat_1; apply (lstep_more _ _ _ _ _ _ _ _ _ Hstk Hstep)|].
        cbn [d_stack d_out d_ndec d_base d_levels d_p d_num d_rem d_axis d_half].
        split; [destruct pts; [congruence|cbn [length]; lia]|]. split; [reflexivity|]. split; [repeat split; assumption|].
        split; [reflexivity|]. split; [apply Permutation_refl|]. repeat split; try assumption; reflexivity.
      + (* split *)
        destruct (nth_error base axis) as [b|] eqn:Eb; [|discriminate].
        set (nb := (b + 2 ^ (bl - level - 1)) mod 2 ^ 32) in *.
        destruct (upd base axis nb) as [new_base|] eqn:Eub; [|discriminate].
        destruct (upd levels axis (level + 1)) as [levels'|] eqn:Eul; [|discriminate].
        destruct (part (fun p => coord p axis <? nb) pts) as [[lo hi]|] eqn:Epart; [|discriminate].
        destruct (WF_split _ _ _ _ _ _ _ _ _ _ _ W Hax Hrr Elev ltac:(lia) Eb Eub Eul Epart) as (Hnb & Hperm & Whi & Wlo).
        set (n := Z.of_nat (length pts)) in *.
        set (fh := Z.of_nat (length lo)) in *. set (sh := Z.of_nat (length hi)) in *.
        assert (Hsum: fh + sh = n).
        { unfold fh, sh, n. rewrite (Permutation_length Hperm), app_length. lia. }
        assert (Hf1: (1 <= f)%nat).
        { destruct f as [|f']; [|lia]. exfalso. destruct hi as [|h hi']; destruct lo as [|l' lo']; cbn [length] in *; try discriminate; try lia.
          all: cbn in Henc; try discriminate. }
        set (small := if fh <? sh then fh else sh) in *.
        set (numop := OLsb (Z.to_nat (Z.log2 n)) (n / 2 - small)) in *.
        set (halfops := if fh =? sh then [] else [OBit (fh <? sh)]) in *.
        destruct (match hi with [] => Some (ops4_nil, []) | _ :: _ => enc_node f hi new_base levels' axis end) as [[ohi ordhi]|] eqn:Ehi; [|discriminate].
        destruct (match lo with [] => Some (ops4_nil, []) | _ :: _ => enc_node f lo base levels' axis end) as [[olo ordlo]|] eqn:Elo; [|discriminate].
        injection Henc as <- <-.
        rewrite !app4_assoc in Rn, Rr, Ra, Rh. cbn [app4 o_num o_rem o_axis o_half app] in Rn, Rr, Ra, Rh.
        destruct (Hdax _ _ Ra) as (ax' & Hda & Ra').
        (* the number *)
        assert (Hlog: 0 <= Z.log2 n) by apply Z.log2_nonneg.
        assert (Hn3: 3 <= n) by lia.
        destruct (Z.log2_spec n ltac:(lia)) as (Hl1 & Hl2). rewrite Z.pow_succ_r in Hl2 by lia.
        assert (Hl32: Z.log2 n < 32).
        { apply Z.log2_lt_pow2; lia. }
        assert (Hsmall: 0 <= small /\ 2 * small <= n) by (unfold small; destruct (fh <? sh) eqn:E; lia).
        assert (Hhalfn: small <= n / 2) by (apply Z.div_le_lower_bound; lia).
        assert (Hn2: n / 2 < 2 ^ Z.log2 n) by (apply Z.div_lt_upper_bound; lia).
        destruct (nready_step _ _ _ _ Rn ltac:(lia) ltac:(lia)) as (ns' & Hnum & Rn').
        rewrite Z2Nat.id, (Z.mod_small (n / 2 - small)) in Hnum by lia.
        (* the half bit *)
        assert (Hhalf: exists half',
          (if n / 2 - (n / 2 - small) =? n - (n / 2 - (n / 2 - small))
           then (n / 2 - (n / 2 - small), n - (n / 2 - (n / 2 - small)), d_half s)
           else let '(bit, h') := direct_next (d_half s) in
                if bit then (n / 2 - (n / 2 - small), n - (n / 2 - (n / 2 - small)), h')
                else (n - (n / 2 - (n / 2 - small)), n / 2 - (n / 2 - small), h')) = (fh, sh, half') /\
          dready half' (o_half ohi ++ o_half olo ++ o_half tail)).
        { replace (n / 2 - (n / 2 - small)) with small by lia. unfold halfops in Rh. destruct (fh =? sh) eqn:Eq.
          - exists (d_half s). replace (small =? n - small) with true by (unfold small in *; destruct (fh <? sh); lia).
            split; [|exact Rh]. f_equal. f_equal; unfold small; destruct (fh <? sh); lia.
          - replace (small =? n - small) with false by (unfold small in *; destruct (fh <? sh); lia).
            cbn [app] in Rh. destruct (dready_bit _ _ _ Rh) as (h' & Hd & Rh'). rewrite Hd. exists h'. split; [|exact Rh'].
            unfold small. destruct (fh <? sh) eqn:El; f_equal; f_equal; lia. }
        destruct Hhalf as (half' & Hhalf & Rh').
        destruct (upd_some (d_base s) (S pos) new_base ltac:(lia)) as (bases' & Eb1).
        destruct (upd_some (d_levels s) pos levels' ltac:(lia)) as (lv1 & El1).
        destruct (upd_spec _ _ _ _ El1) as (Hlv1len & Hlv1x & Hlv1o).
        destruct (upd_some lv1 (S pos) levels' ltac:(lia)) as (lv2 & El2).
        destruct (upd_spec _ _ _ _ El2) as (Hlv2len & Hlv2x & Hlv2o).
        destruct (upd_spec _ _ _ _ Eb1) as (Hb1len & Hb1x & Hb1o).
        set (stk1 := if fh =? 0 then stk else mk_frame fh axis pos :: stk).
        set (stk2 := if sh =? 0 then stk1 else mk_frame sh axis (S pos) :: stk1).
        assert (Hstep: dstepN s = Some (mk_dst ns' (d_rem s) ax' half' (d_p s) (d_out s) (d_ndec s) stk2 bases' lv2)).
        { unfold KdTree.dstep. rewrite Hstk. cbn [f_n f_pos f_last]. rewrite Hbs, Hls.
          replace (n >? np) with false by lia. rewrite Hda.
          replace (dim <=? axis)%nat with false by lia. rewrite Elev, Efull, En2.
          replace (d_ndec s >? np) with false by lia. rewrite Eb. fold nb. rewrite Eub, Eb1, Hnum.
          replace (n / 2 <? n / 2 - small) with false by lia. rewrite Hhalf, Eul, El1, El2. reflexivity. }
        (* a child box, empty or not *)
        assert (Hchild: forall child cbase clevels cpos co cord (s0 : dstate) stk0 tail0,
          (match child with [] => Some (ops4_nil, []) | _ :: _ => enc_node f child cbase clevels axis end) = Some (co, cord) ->
          WF child cbase clevels axis ->
          d_stack s0 = (if Z.of_nat (length child) =? 0 then stk0 else mk_frame (Z.of_nat (length child)) axis cpos :: stk0) ->
          nth_error (d_base s0) cpos = Some cbase -> nth_error (d_levels s0) cpos = Some clevels ->
          length (d_base s0) = M -> length (d_levels s0) = M -> (cpos + f <= M)%nat ->
          length (d_p s0) = dim -> 0 <= d_ndec s0 -> d_ndec s0 + Z.of_nat (length child) <= np ->
          ready s0 (app4 co tail0) ->
          exists k s', lrunN k s0 = LMore s' /\ (k <= length child * f)%nat /\
            d_stack s' = stk0 /\ ready s' tail0 /\ d_out s' = rev cord ++ d_out s0 /\ Permutation cord child /\
            d_ndec s' = d_ndec s0 + Z.of_nat (length child) /\
            length (d_base s') = M /\ length (d_levels s') = M /\ length (d_p s') = dim /\
            (forall j, (j < cpos)%nat -> nth_error (d_base s') j = nth_error (d_base s0) j /\
                                         nth_error (d_levels s') j = nth_error (d_levels s0) j)).
        { intros child cbase clevels cpos co cord s0 stk0 tail0 Hc Wc Hs0 Hb0 Hl0 HM1 HM2 Hcp Hp0 Hn0 Hn0' Hr0.
          destruct child as [|c child'].
          - injection Hc as <- <-. cbn [length] in *. change (Z.of_nat 0 =? 0) with true in Hs0. cbv iota in Hs0.
            exists 0%nat, s0. split; [reflexivity|]. split; [lia|]. split; [exact Hs0|]. rewrite app4_nil_l in Hr0.
            split; [exact Hr0|]. split; [reflexivity|]. split; [apply Permutation_refl|]. split; [cbn; lia|].
            repeat split; try assumption.
          - replace (Z.of_nat (length (c :: child')) =? 0) with false in Hs0 by (cbn [length]; lia).
            apply (IH (c :: child') cbase clevels axis co cord Hc ltac:(discriminate) Wc s0 stk0 cpos tail0); assumption. }
        set (s1 := mk_dst ns' (d_rem s) ax' half' (d_p s) (d_out s) (d_ndec s) stk2 bases' lv2) in *.
        assert (Hposne: pos <> S pos) by lia.
        destruct (Hchild hi new_base levels' (S pos) ohi ordhi s1 stk1 (app4 olo tail) Ehi Whi) as
          (k1 & s2 & Hrun1 & Hk1 & Hst2 & Rdy2 & Hout2 & Hperm2 & Hnd2 & HMb2 & HMl2 & Hp2 & Hpres2).
        { reflexivity. } { exact Hb1x. } { exact Hlv2x. }
        { cbn [s1 d_base]. lia. } { cbn [s1 d_levels]. lia. } { lia. } { exact Hp. } { exact Hnd0. }
        { cbn [s1 d_ndec]. fold sh. lia. }
        { unfold ready. cbn [s1 d_num d_rem d_axis d_half app4 o_num o_rem o_axis o_half]. repeat split; assumption. }
        destruct (Hpres2 pos ltac:(lia)) as (Hpb & Hpl). cbn [s1 d_base d_levels] in Hpb, Hpl.
        destruct (Hchild lo base levels' pos olo ordlo s2 stk tail Elo Wlo) as
          (k2 & s3 & Hrun2 & Hk2 & Hst3 & Rdy3 & Hout3 & Hperm3 & Hnd3 & HMb3 & HMl3 & Hp3 & Hpres3).
        { rewrite Hst2. reflexivity. }
        { rewrite Hpb, (Hb1o pos Hposne). exact Hbs. }
        { rewrite Hpl, (Hlv2o pos Hposne). exact Hlv1x. }
        { exact HMb2. } { exact HMl2. } { lia. } { exact Hp2. } { rewrite Hnd2. cbn [s1 d_ndec]. lia. }
        { rewrite Hnd2. cbn [s1 d_ndec]. fold sh fh. lia. }
        { exact Rdy2. }
        assert (Hlen: length pts = (length hi + length lo)%nat).
        { rewrite (Permutation_length Hperm), app_length. lia. }
        exists (1 + (k1 + k2))%nat, s3. split.
        { rewrite lrun_nat_add, lrun_nat_1, (lstep_more _ _ _ _ _ _ _ _ _ Hstk Hstep).
          rewrite lrun_nat_add. fold s1. rewrite Hrun1. exact Hrun2. }
        split. { rewrite Hlen, Nat.mul_succ_r, Nat.mul_add_distr_r. lia. }
        split; [exact Hst3|]. split; [exact Rdy3|]. split.
        { rewrite Hout3, Hout2. cbn [s1 d_out]. rewrite rev_app_distr, <- app_assoc. reflexivity. }
        split.
        { apply Permutation_trans with (hi ++ lo); [apply Permutation_app; assumption|].
          apply Permutation_trans with (lo ++ hi); [apply Permutation_app_comm|apply Permutation_sym; exact Hperm]. }
        split. { rewrite Hnd3, Hnd2. cbn [s1 d_ndec]. fold n. unfold n. rewrite Hlen. lia. }
        split; [exact HMb3|]. split; [exact HMl3|]. split; [exact Hp3|].
        intros j Hj. destruct (Hpres3 j Hj) as (A1 & A2). destruct (Hpres2 j ltac:(lia)) as (B1 & B2).
        cbn [s1 d_base d_levels] in B1, B2. split.
        { rewrite A1, B1. apply Hb1o. lia. }
        { rewrite A2, B2, (Hlv2o j ltac:(lia)). apply Hlv1o. lia. }
  Qed.

  (** every operation the encoder hands to the bit coders is well-formed (1..32 bits, non-negative value) *)
  Lemma rem_ops_point_ok pts base levels last p : WF pts base levels last -> In p pts ->
    forall axes, Forall (fun a => (a < dim)%nat) axes -> forall ops, rem_ops_point bl levels axes p = Some ops -> ops_ok ops.
  Proof.
    intros W Hin. pose proof (proj1 (Forall_forall _ _) (wf_pts _ _ _ _ W) p Hin) as (Hlp & Hbox).
    induction axes as [|a r IH]; intros Hax ops H; cbn [rem_ops_point] in H.
    - injection H as <-. constructor.
    - inversion Hax as [|? ? Ha Hax']; subst.
      rewrite (nth_error_nth_Z levels a) in H by (rewrite (wf_ll _ _ _ _ W); exact Ha).
      destruct (rem_ops_point bl levels r p) as [ops'|] eqn:E; [|discriminate]. injection H as <-.
      apply Forall_app. split; [|apply IH; [exact Hax'|reflexivity]].
      destruct (bl - nth a levels 0 =? 0); constructor; [|constructor].
      pose proof (wf_lev _ _ _ _ W a Ha). destruct (wf_base _ _ _ _ W a Ha) as (Hb0 & _). specialize (Hbox a Ha).
      unfold coord. split; lia.
  Qed.
  Lemma rem_ops_ok pts base levels last axis : WF pts base levels last -> (axis < dim)%nat ->
    forall l, (forall p, In p l -> In p pts) -> forall ops, rem_ops bl levels (axes_from dim axis dim) l = Some ops -> ops_ok ops.
  Proof.
    intros W Hax. induction l as [|p l IH]; intros Hsub ops H; cbn [rem_ops] in H.
    - injection H as <-. constructor.
    - destruct (rem_ops_point bl levels (axes_from dim axis dim) p) as [o1|] eqn:E1; [|discriminate].
      destruct (rem_ops bl levels (axes_from dim axis dim) l) as [o2|] eqn:E2; [|discriminate]. injection H as <-.
      apply Forall_app. split.
      + apply (rem_ops_point_ok pts base levels last p W (Hsub p (or_introl eq_refl)) _ (axes_from_lt dim Hdim axis Hax) _ E1).
      + apply IH; [intros x Hx; apply Hsub; right; exact Hx|reflexivity].
  Qed.
  Definition ops4_ok (o : ops4) : Prop := ops_ok (o_num o) /\ ops_ok (o_rem o) /\ ops_ok (o_axis o) /\ ops_ok (o_half o).
  Lemma ops4_ok_app a b : ops4_ok a -> ops4_ok b -> ops4_ok (app4 a b).
  Proof. intros (A1 & A2 & A3 & A4) (B1 & B2 & B3 & B4). unfold ops4_ok, app4; cbn. repeat split; apply Forall_app; split; assumption. Qed.
  Lemma enc_axis_ops_ok pts base levels last axis axops : enc_axis pts base levels last = Some (axis, axops) -> ops_ok axops.
  Proof.
    unfold KdTree.enc_axis. destruct (negb sel); [intros H; injection H as <- <-; constructor|].
    destruct (Z.of_nat (length pts) <? 64); [intros H; injection H as <- <-; constructor|].
    destruct (best_axis_from bl pts base levels (seq 0 dim) 0 0); [|discriminate]. intros H; injection H as <- <-.
    constructor; [split; lia|constructor].
  Qed.
  Lemma enc_node_ops_ok : forall f pts base levels last o ord,
    enc_node f pts base levels last = Some (o, ord) -> pts <> [] -> WF pts base levels last ->
    Z.of_nat (length pts) < 2 ^ 32 -> ops4_ok o.
  Proof.
    induction f as [|f IH]; intros pts base levels last o ord Henc Hne W Hlen; [discriminate|].
    rewrite enc_node_S in Henc. cbv zeta in Henc.
    destruct (enc_axis pts base levels last) as [[axis axops]|] eqn:Eax; [|discriminate].
    pose proof (enc_axis_ops_ok _ _ _ _ _ _ Eax) as Hao.
    destruct (enc_axis_ok _ _ _ _ _ _ W Hne Eax) as (Hax & Hfull & Hdax & Hrr).
    destruct (nth_error levels axis) as [level|] eqn:Elev; [|discriminate].
    assert (Hn1: 1 <= Z.of_nat (length pts)) by (destruct pts; [congruence|cbn [length]; lia]).
    destruct (bl - level =? 0) eqn:Efull.
    - injection Henc as <- <-. repeat split; cbn; try constructor. exact Hao.
    - destruct (Z.of_nat (length pts) <=? 2) eqn:En2.
      + destruct (rem_ops bl levels (axes_from dim axis dim) pts) as [ro|] eqn:Ero; [|discriminate].
        injection Henc as <- <-. repeat split; cbn; try constructor; [|exact Hao].
        apply (rem_ops_ok pts base levels last axis W Hax pts (fun p H => H) _ Ero).
      + destruct (nth_error base axis) as [b|] eqn:Eb; [|discriminate].
        set (nb := (b + 2 ^ (bl - level - 1)) mod 2 ^ 32) in *.
        destruct (upd base axis nb) as [new_base|] eqn:Eub; [|discriminate].
        destruct (upd levels axis (level + 1)) as [levels'|] eqn:Eul; [|discriminate].
        destruct (part (fun p => coord p axis <? nb) pts) as [[lo hi]|] eqn:Epart; [|discriminate].
        destruct (WF_split _ _ _ _ _ _ _ _ _ _ _ W Hax Hrr Elev ltac:(lia) Eb Eub Eul Epart) as (Hnb & Hperm & Whi & Wlo).
        set (n := Z.of_nat (length pts)) in *.
        set (fh := Z.of_nat (length lo)) in *. set (sh := Z.of_nat (length hi)) in *.
        assert (Hsum: fh + sh = n).
        { unfold fh, sh, n. rewrite (Permutation_length Hperm), app_length. lia. }
        destruct (match hi with [] => Some (ops4_nil, []) | _ :: _ => enc_node f hi new_base levels' axis end) as [[ohi ordhi]|] eqn:Ehi; [|discriminate].
        destruct (match lo with [] => Some (ops4_nil, []) | _ :: _ => enc_node f lo base levels' axis end) as [[olo ordlo]|] eqn:Elo; [|discriminate].
        injection Henc as <- <-.
        assert (Hchild: forall child cbase clevels co cord,
          (match child with [] => Some (ops4_nil, []) | _ :: _ => enc_node f child cbase clevels axis end) = Some (co, cord) ->
          WF child cbase clevels axis -> Z.of_nat (length child) <= n -> ops4_ok co).
        { intros child cbase clevels co cord Hc Wc Hl. destruct child as [|c child'].
          - injection Hc as <- <-. repeat split; constructor.
          - apply (IH (c :: child') cbase clevels axis co cord Hc ltac:(discriminate) Wc). lia. }
        apply ops4_ok_app; [|apply ops4_ok_app; [apply (Hchild hi new_base levels' ohi ordhi Ehi Whi); lia|apply (Hchild lo base levels' olo ordlo Elo Wlo); lia]].
        repeat split; cbn [o_num o_rem o_axis o_half]; [|constructor|exact Hao|destruct (fh =? sh); repeat constructor].
        constructor; [|constructor]. split.
        * assert (Z.log2 n < 32) by (apply Z.log2_lt_pow2; lia). pose proof (Z.log2_nonneg n). lia.
        * assert (2 * (if fh <? sh then fh else sh) <= n) by (destruct (fh <? sh) eqn:E; lia).
          assert ((if fh <? sh then fh else sh) <= n / 2) by (apply Z.div_le_lower_bound; lia). lia.
  Qed.
End TreeProofs.

(** * the three NumbersDecoder instances *)
Definition nready (st : num_st) (ops : list bop) : Prop :=
  match st with
  | NSD d => dready d ops
  | NSR r => fst (read_ops ransbit_next (map rop_of ops) r) = map value_of ops
  | NSF f => exists f', folded_read ransbit_next (map rop_of ops) f = Some (map value_of ops, f')
  end.
Lemma nready_step st n v r : nready st (OLsb n v :: r) -> (n <= 32)%nat -> 0 <= v ->
  exists st', num_lsb_of n st = Some (v mod 2 ^ Z.of_nat n, st') /\ nready st' r.
Proof.
  intros H Hn Hv. destruct st as [d|rs|f]; cbn [nready num_lsb_of] in *.
  - destruct (dready_lsb _ _ _ _ H Hv) as (d' & Hd & Hr). rewrite Hd. exists (NSD d'). split; [reflexivity|exact Hr].
  - cbn [map rop_of value_of read_ops] in H. destruct (read_n ransbit_next n rs) as [bits r'] eqn:E.
    destruct (read_ops ransbit_next (map rop_of r) r') as [vs st2] eqn:E2. cbn [fst] in H. injection H as H1 H2.
    exists (NSR r'). split; [rewrite H1; reflexivity|]. cbn [nready]. rewrite E2. exact H2.
  - destruct H as (f' & H). cbn [map rop_of value_of folded_read] in H.
    destruct (folded_lsb ransbit_next n 0 0 f) as [[x sts']|] eqn:E; [|discriminate].
    destruct (folded_read ransbit_next (map rop_of r) sts') as [[vs s2]|] eqn:E2; [|discriminate].
    injection H as H1 H2 H3. subst. exists (NSF sts'). split; [reflexivity|]. cbn [nready]. exists f'. exact E2.
Qed.

Definition ops_small (o : ops4) : Prop :=
  Z.of_nat (length (flatten (o_num o))) + 3 < 2 ^ 32 /\ Z.of_nat (length (o_num o)) + 3 < 2 ^ 32 /\
  4 * (Z.of_nat (length (flatten (o_rem o))) / 32 + 1) < 2 ^ 32 /\
  4 * (Z.of_nat (length (flatten (o_axis o))) / 32 + 1) < 2 ^ 32 /\
  4 * (Z.of_nat (length (flatten (o_half o))) / 32 + 1) < 2 ^ 32.

Lemma ops_ok_nonneg ops : ops_ok ops -> ops_nonneg ops.
Proof. unfold ops_ok, ops_nonneg. apply Forall_impl. intros [b|n v]; [auto|]. intros (_ & H). exact H. Qed.

Lemma num_start_ready k ver ops bs rest : 514 <= ver -> ops_ok ops ->
  Z.of_nat (length (flatten ops)) + 3 < 2 ^ 32 -> Z.of_nat (length ops) + 3 < 2 ^ 32 ->
  enc_numbers k ops = Some bs ->
  exists st, num_start k ver (bs ++ rest) = Some (st, rest) /\ nready st ops.
Proof.
  intros Hver Hok Hs1 Hs2 Henc. destruct k; cbn [enc_numbers num_start] in *.
  - assert (Hsz: 4 * (Z.of_nat (length (flatten ops)) / 32 + 1) < 2 ^ 32).
    { assert (Z.of_nat (length (flatten ops)) / 32 <= Z.of_nat (length (flatten ops))) by (apply Z.div_le_upper_bound; lia).
      assert (Z.of_nat (length (flatten ops)) / 32 < 2 ^ 27) by (apply Z.div_lt_upper_bound; lia). lia. }
    destruct (direct_start_ready ops bs rest Hsz Henc) as (st & -> & Hr).
    exists (NSD st). split; [reflexivity|exact Hr].
  - destruct (ransbit_ops_roundtrip ver ops bs rest Hver (ops_ok_nonneg _ Hok) Hs1 Henc) as (st & -> & Hr).
    exists (NSR st). split; [reflexivity|exact Hr].
  - destruct (folded_ransbit_roundtrip ver ops bs rest Hver Hok Hs2 Henc) as (sts & sts' & -> & Hr).
    exists (NSF sts). split; [reflexivity|]. exists sts'. exact Hr.
Qed.

(** * EncodePoints / DecodePoints *)
Definition part_ok (part : (point -> bool) -> list point -> option (list point * list point)) : Prop :=
  forall f l a b, part f l = Some (a, b) ->
    Permutation l (a ++ b) /\ Forall (fun p => f p = true) a /\ Forall (fun p => f p = false) b.
Definition points_ok (dim : nat) (bl : Z) (pts : list point) : Prop :=
  Forall (fun p => length p = dim /\ Forall (fun v => 0 <= v < 2 ^ bl) p) pts.

Lemma WF_root sel dim bl pts : (1 <= dim)%nat -> 0 <= bl -> points_ok dim bl pts ->
  WF sel dim bl pts (repeat 0 dim) (repeat 0 dim) 0.
Proof.
  intros Hdim Hbl Hp.
  assert (Hn: forall a, nth a (repeat 0 dim) 0 = 0) by (intros a; apply nth_repeat).
  constructor.
  - apply repeat_length.
  - apply repeat_length.
  - intros a Ha. rewrite Hn. lia.
  - intros a Ha. rewrite !Hn, Z.sub_0_r. split; [lia|]. split; [apply Z.mod_0_l; apply Z.pow_nonzero; lia|lia].
  - eapply Forall_impl; [|exact Hp]. intros p (Hl & Hv). split; [exact Hl|]. intros a Ha. rewrite !Hn, Z.sub_0_r.
    apply (proj1 (Forall_forall _ _) Hv). apply nth_In. lia.
  - intros _. exists 0. intros a Ha. rewrite Hn. replace ((1 <=? a)%nat && (a <=? 0)%nat) with false by lia. reflexivity.
  - lia.
Qed.

Lemma pos_to_nat_of_Z z : 0 < z -> Pos.to_nat (Z.to_pos z) = Z.to_nat z.
Proof. intros H. destruct z; lia. Qed.

Theorem kd_points_roundtrip_with part level dim bl pts bs rest maxpts :
  part_ok part -> 0 <= level <= 6 -> (1 <= dim)%nat -> (level = 6 -> (dim <= 16)%nat) -> 0 <= bl <= 32 ->
  points_ok dim bl pts -> Z.of_nat (length pts) <= maxpts -> Z.of_nat (length pts) < 2 ^ 32 ->
  (forall o ord, enc_tree (level_sel level) dim bl part pts = Some (o, ord) -> ops_small o) ->
  kd_encode_points_with part level dim bl pts = Some bs ->
  exists out, kd_decode_points 515 level dim maxpts (bs ++ rest) = Some (out, rest) /\ Permutation out pts /\
    (pts <> [] -> exists o, enc_tree (level_sel level) dim bl part pts = Some (o, out)).
Proof.
  intros Hpart Hlevel Hdim Hd16 Hbl Hpts Hmax Hlen Hsmall Henc.
  unfold kd_encode_points_with in Henc. cbv zeta in Henc. unfold kd_decode_points.
  assert (Hle: forall v tl, 0 <= v < 2 ^ 32 -> dec_le 4 (enc_le 4 v ++ tl) = Some (v, tl)).
  { intros v tl Hv. apply (le_roundtrips 4 v _ tl); [change (256 ^ Z.of_nat 4) with (2 ^ 32); lia|reflexivity]. }
  destruct pts as [|p0 pts'].
  - assert (Hbs: bs = enc_le 4 bl ++ enc_le 4 (Z.of_nat (@length point []))) by congruence. rewrite Hbs.
    rewrite <- !app_assoc, Hle by lia. replace (bl >? 32) with false by lia.
    rewrite Hle by (cbn; lia). cbn [length Z.of_nat Z.eqb]. exists []. split; [reflexivity|]. split; [constructor|congruence].
  - set (pts := p0 :: pts') in *.
    destruct (enc_tree (level_sel level) dim bl part pts) as [[o ord]|] eqn:Et; [|discriminate].
    destruct (Hsmall o ord eq_refl) as (S1 & S2 & S3 & S4 & S5).
    destruct (enc_numbers (level_numk level) (o_num o)) as [a|] eqn:Ea; [|discriminate].
    destruct (direct_encode (flatten (o_rem o))) as [b|] eqn:Eb; [|discriminate].
    destruct (direct_encode (flatten (o_axis o))) as [c|] eqn:Ec; [|discriminate].
    destruct (direct_encode (flatten (o_half o))) as [d|] eqn:Ed; [|discriminate].
    assert (Hbs: bs = (enc_le 4 bl ++ enc_le 4 (Z.of_nat (length pts))) ++ a ++ b ++ c ++ d) by congruence. rewrite Hbs.
    rewrite <- !app_assoc, Hle by lia. replace (bl >? 32) with false by lia. rewrite Hle by lia.
    set (n := Z.of_nat (length pts)) in *.
    assert (Hn1: 1 <= n) by (unfold n, pts; cbn [length]; lia).
    replace (n =? 0) with false by lia. replace (n >? maxpts) with false by lia.
    assert (Hsel16: level_sel level = true -> (dim <= 16)%nat) by (unfold level_sel; intros; apply Hd16; lia).
    unfold enc_tree in Et.
    pose proof (WF_root (level_sel level) dim bl pts Hdim ltac:(lia) Hpts) as W.
    destruct (enc_node_ops_ok (level_sel level) dim bl part Hdim Hsel16 Hbl Hpart _ _ _ _ _ _ _ Et ltac:(discriminate) W Hlen)
      as (O1 & O2 & O3 & O4).
    destruct (num_start_ready _ 515 _ _ (b ++ c ++ d ++ rest) ltac:(lia) O1 S1 S2 Ea) as (ns & -> & Rn).
    destruct (direct_start_ready _ _ (c ++ d ++ rest) S3 Eb) as (rem & -> & Rr).
    destruct (direct_start_ready _ _ (d ++ rest) S4 Ec) as (ax & -> & Ra).
    destruct (direct_start_ready _ _ rest S5 Ed) as (hf & -> & Rh).
    set (M0 := (32 * dim + 1)%nat).
    set (s0 := mk_dst ns rem ax hf (repeat 0 dim) [] 0 [mk_frame n 0 0] (repeat (repeat 0 dim) M0) (repeat (repeat 0 dim) M0)).
    destruct (node_ok (level_sel level) dim bl part num_lsb_of n Hdim Hsel16 Hbl Hlen Hpart nready nready_step
                _ _ _ _ _ _ _ Et ltac:(discriminate) W s0 [] 0%nat ops4_nil) as
      (k & s' & Hrun & Hk & Hst & _ & Hout & Hperm & _).
    { reflexivity. }
    { cbn [s0 d_base]. unfold M0. rewrite Nat.add_1_r. reflexivity. }
    { cbn [s0 d_levels]. unfold M0. rewrite Nat.add_1_r. reflexivity. }
    { apply repeat_length. } { apply repeat_length. }
    { unfold M. assert (Z.to_nat bl <= 32)%nat by lia. nia. }
    { apply repeat_length. } { cbn; lia. } { cbn [s0 d_ndec]. fold n. lia. }
    { unfold ready, app4; cbn [s0 d_num d_rem d_axis d_half o_num o_rem o_axis o_half ops4_nil]. rewrite !app_nil_r. repeat split; assumption. }
    rewrite lrun_is_nat, pos_to_nat_of_Z by lia.
    rewrite (lrun_nat_finish _ _ _ _ _ k s0 s' _ Hrun Hst).
    2:{ assert (Z.to_nat bl <= 32)%nat by lia. fold pts in Hk. unfold n. nia. }
    cbn [s0 d_out] in Hout. rewrite app_nil_r in Hout. rewrite Hout, rev_involutive.
    exists ord. split; [reflexivity|]. split; [exact Hperm|]. intros _. exists o. reflexivity.
Qed.

(** * signed integer attributes: value - minimum, and back *)
Lemma kd_back_signed_roundtrip dt bits m :
  kd_dt_signed dt = true -> 0 <= bits < 2 ^ (8 * dt_len dt) ->
  let v := kd_signed_value dt bits in
  - 2 ^ 31 <= m <= v -> v - m < 2 ^ 31 -> v - m < 2 ^ (8 * dt_len dt) ->
  kd_back_signed dt (((v - m) mod 2 ^ 32) mod 2 ^ (8 * dt_len dt)) m = KOk bits.
Proof.
  intros Hs Hb v Hm Hspan Hw. unfold kd_dt_signed in Hs.
  assert (Hdt: dt = DT_INT32_ \/ dt = DT_INT16_ \/ dt = DT_INT8_) by lia.
  assert (Hlen: dt_len dt = 4 \/ dt_len dt = 2 \/ dt_len dt = 1) by (destruct Hdt as [-> | [-> | ->]]; vm_compute; auto).
  unfold kd_back_signed. subst v. unfold kd_signed_value in *.
  set (w := 8 * dt_len dt) in *.
  assert (Hwv: w = 32 \/ w = 16 \/ w = 8) by lia.
  assert (Hp: 2 ^ w = 2 * 2 ^ (w - 1)) by (replace w with (Z.succ (w - 1)) at 1 by lia; rewrite Z.pow_succ_r by lia; reflexivity).
  assert (Hp0: 0 < 2 ^ (w - 1)) by (apply Z.pow_pos_nonneg; lia).
  assert (Hw32: 2 ^ w <= 2 ^ 32) by (apply Z.pow_le_mono_r; lia).
  set (v := if bits <? 2 ^ (w - 1) then bits else bits - 2 ^ w) in *.
  assert (Hv: - 2 ^ (w - 1) <= v < 2 ^ (w - 1)) by (unfold v; destruct (bits <? 2 ^ (w - 1)) eqn:E; lia).
  assert (H31: 2 ^ (w - 1) <= 2 ^ 31) by (apply Z.pow_le_mono_r; lia).
  rewrite (Z.mod_small (v - m)) by lia. rewrite (Z.mod_small (v - m)) by lia.
  replace (v - m >? 2 ^ 31 - 1) with false by lia.
  replace (v - m + m) with v by lia.
  replace ((v <? - 2 ^ 31) || (v >? 2 ^ 31 - 1)) with false by lia.
  f_equal. unfold v. destruct (bits <? 2 ^ (w - 1)) eqn:E.
  - apply Z.mod_small. lia.
  - replace (bits - 2 ^ w) with (bits + (-1) * 2 ^ w) by lia. rewrite Z_mod_plus_full. apply Z.mod_small. lia.
Qed.

(** D9 (fixed in e50b8ba): an int32 component whose values span 2^31 or more used to be written (the subtraction
    wrapped) although no such stream can pass TransformAttributeBackToSignedType's [> INT32_MAX] test; the encoder
    now refuses it. *)
Definition d9_att : kd_att :=
  {| k_desc := {| ad_type := ATT_GENERIC_; ad_dt := DT_INT32_; ad_nc := 1; ad_norm := false; ad_uid := 0 |};
     k_q := -1; k_explicit := None; k_rows := [[2147483648]; [0]; [2147483647]] |}.   (* INT32_MIN, 0, INT32_MAX *)
Lemma d9_refused : kd_enc_pc 5 3 [d9_att] = None.
Proof. vm_compute. reflexivity. Qed.

(** Level 6 writes the chosen axis in 4 bits: with 17 dimensions axis 16 is read back as axis 0.  64 points that differ
    only in coordinate 16 are decoded as 64 copies of the origin (the decoder reports success). *)
Definition pts17 : list point := map (fun i => repeat 0 16 ++ [Z.of_nat (i mod 2)]) (seq 0 64).
Lemma level6_dim17_witness : exists bs out,
  kd_encode_points 6 17 1 pts17 = Some bs /\ kd_decode_points 515 6 17 64 bs = Some (out, []) /\
  out = repeat (repeat 0 17) 64 /\ In (repeat 0 16 ++ [1]) pts17.
Proof. eexists. eexists. split; [vm_compute; reflexivity|]. split; [vm_compute; reflexivity|]. split; [vm_compute; reflexivity|]. vm_compute. right. left. reflexivity. Qed.

(** * framing of a kd-tree stream: header, number of points, the one attributes-decoder descriptor block *)
Lemma kd_width32 : width_ok 32.
Proof. unfold width_ok; tauto. Qed.
Lemma kd_varint32_rt v bs rest : 0 <= v < 2 ^ 32 -> enc_varint_u v = Some bs -> dec_varint_u 32 (bs ++ rest) = Some (v, rest).
Proof. intros. apply (varint_u_roundtrips 32 kd_width32); assumption. Qed.
Lemma kd_varint_nonempty v bs : 0 <= v < 2 ^ 32 -> enc_varint_u v = Some bs -> (1 <= length bs)%nat.
Proof.
  intros Hv He. destruct (enc_varint_u_total 32 v kd_width32 Hv) as (bs' & E & Hl & _).
  rewrite He in E. injection E as <-. lia.
Qed.
Definition kd_desc_ok (d : att_desc) : Prop :=
  0 <= ad_type d < NAMED_ATTRIBUTES_COUNT_ /\ DT_INVALID_ < ad_dt d < DT_TYPES_COUNT_ /\
  1 <= ad_nc d < 256 /\ 0 <= ad_uid d < 2 ^ 32.
Lemma kd_desc_roundtrip d bs rest : kd_desc_ok d -> enc_desc d = Some bs -> dec_desc (bs ++ rest) = Some (d, rest).
Proof.
  intros (Ht & Hdt & Hnc & Hu) He. unfold enc_desc in He.
  destruct (enc_varint_u (ad_uid d)) as [u|] eqn:Eu; [|discriminate]. injection He as <-.
  unfold NAMED_ATTRIBUTES_COUNT_, DT_INVALID_, DT_TYPES_COUNT_ in *.
  cbn [app dec_desc]. rewrite !Z.mod_small by lia.
  unfold NAMED_ATTRIBUTES_COUNT_, DT_INVALID_, DT_TYPES_COUNT_.
  destruct (ad_type d >=? 5) eqn:E1; [lia|].
  destruct ((ad_dt d =? 0) || (ad_dt d >=? 12)) eqn:E2; [lia|].
  destruct (ad_nc d =? 0) eqn:E3; [lia|].
  rewrite (kd_varint32_rt _ _ rest Hu Eu).
  destruct d as [ty dt nc nm uid]. cbn [ad_type ad_dt ad_nc ad_norm ad_uid]. destruct nm; reflexivity.
Qed.
Lemma kd_enc_desc_length d bs : kd_desc_ok d -> enc_desc d = Some bs -> (5 <= length bs)%nat.
Proof.
  intros (_ & _ & _ & Hu) He. unfold enc_desc in He.
  destruct (enc_varint_u (ad_uid d)) as [u|] eqn:Eu; [|discriminate]. injection He as <-.
  pose proof (kd_varint_nonempty _ _ Hu Eu). cbn [app length]. lia.
Qed.
Lemma kd_descs_roundtrip : forall atts bs rest, Forall (fun a => kd_desc_ok (k_desc a)) atts -> kd_enc_descs atts = Some bs ->
  dec_descs (length atts) (bs ++ rest) = Some (map k_desc atts, rest) /\ (5 * length atts <= length bs)%nat.
Proof.
  unfold kd_enc_descs. induction atts as [|a atts IH]; intros bs rest HF He; cbn [ocat] in He.
  - injection He as <-. split; [reflexivity|cbn; lia].
  - apply Forall_cons_iff in HF. destruct HF as [Ha HF].
    destruct (enc_desc (k_desc a)) as [x|] eqn:Ex; [|discriminate].
    destruct (ocat (fun a0 => enc_desc (k_desc a0)) atts) as [y|] eqn:Ey; [|discriminate]. injection He as <-.
    destruct (IH y rest HF eq_refl) as [H1 H2].
    pose proof (kd_enc_desc_length _ _ Ha Ex).
    split; [|rewrite app_length; cbn [length]; lia].
    cbn [length dec_descs map]. rewrite <- app_assoc. rewrite (kd_desc_roundtrip _ _ _ Ha Ex). rewrite H1. reflexivity.
Qed.

Definition kd_header : header :=
  {| h_maj := kDracoPointCloudBitstreamVersionMajor; h_min := kDracoPointCloudBitstreamVersionMinor;
     h_type := POINT_CLOUD_; h_method := POINT_CLOUD_KD_TREE_ENCODING_; h_flags := 0 |}.

(** What the decoder has when it reaches KdTreeAttributesDecoder::DecodeAttributes on the encoder's stream: the header
    passes every gate, num_points and the descriptors are back, and the buffer stands at the attribute encoder's
    output [body] followed by whatever followed the stream. *)
Theorem kd_pc_framing_roundtrip part speed np atts bs rest :
  atts <> [] -> 0 <= np < 2 ^ 31 -> Z.of_nat (length atts) < 2 ^ 32 -> Forall (fun a => kd_desc_ok (k_desc a)) atts ->
  kd_enc_pc_with part speed np atts = Some bs ->
  exists body r0 r2,
    kd_enc_attributes_with part speed (Z.to_nat np) atts = Some body /\
    dec_header (bs ++ rest) = inl (Some (kd_header, r0)) /\
    version_ok kd_header = true /\ h_maj kd_header * 256 + h_min kd_header = kDracoPointCloudBitstreamVersion /\
    dec_le 4 r0 = Some (np, 1 :: r2) /\
    dec_desc_blocks 1 r2 = Some ([map k_desc atts], body ++ rest).
Proof.
  intros Hne Hnp Hna Hd He. unfold kd_enc_pc_with in He. cbv zeta in He.
  destruct atts as [|a0 atts']; [congruence|]. set (atts := a0 :: atts') in *.
  destruct (enc_varint_u (Z.of_nat (length atts))) as [n|] eqn:En; [|discriminate].
  destruct (kd_enc_descs atts) as [ds|] eqn:Eds; [|discriminate].
  destruct (kd_enc_attributes_with part speed (Z.to_nat np) atts) as [body|] eqn:Eb; [|discriminate].
  assert (Hbs: bs = (enc_header POINT_CLOUD_ POINT_CLOUD_KD_TREE_ENCODING_ false ++ enc_le 4 (np mod 2 ^ 32)) ++ [1] ++ n ++ ds ++ body) by congruence.
  exists body, (enc_le 4 (np mod 2 ^ 32) ++ [1] ++ n ++ ds ++ body ++ rest), (n ++ ds ++ body ++ rest).
  split; [reflexivity|]. split; [rewrite Hbs, <- !app_assoc; reflexivity|]. split; [vm_compute; reflexivity|]. split; [reflexivity|].
  split.
  { rewrite Z.mod_small by lia. apply (le_roundtrips 4 np _ ([1] ++ n ++ ds ++ body ++ rest)); [change (256 ^ Z.of_nat 4) with (2 ^ 32); lia|reflexivity]. }
  cbn [dec_desc_blocks]. unfold dec_one_desc_block.
  assert (Hr: 0 <= Z.of_nat (length atts) < 2 ^ 32) by lia.
  rewrite (kd_varint32_rt _ _ (ds ++ body ++ rest) Hr En).
  destruct (kd_descs_roundtrip atts ds (body ++ rest) Hd Eds) as (Hdd & Hlen).
  replace (Z.of_nat (length atts) =? 0) with false by (unfold atts; cbn [length]; lia).
  replace (Z.of_nat (length atts) >? 5 * Z.of_nat (length (ds ++ body ++ rest))) with false by (rewrite app_length; lia).
  rewrite Nat2Z.id, Hdd. reflexivity.
Qed.

(** * the bit length the attribute encoder computes covers every value *)
Lemma kd_bit_length_fold l : forall acc, 0 <= acc <= 32 -> Forall (fun v => 0 <= v < 2 ^ 32) l ->
  let r := fold_left (fun acc v => if v >? 0 then Z.max acc (Z.log2 v + 1) else acc) l acc in
  acc <= r <= 32 /\ Forall (fun v => v < 2 ^ r) l.
Proof.
  induction l as [|v l IH]; intros acc Ha Hl; cbn [fold_left].
  - split; [lia|constructor].
  - inversion Hl as [|? ? Hv Hl']; subst.
    set (acc' := if v >? 0 then Z.max acc (Z.log2 v + 1) else acc).
    assert (Hacc': acc <= acc' <= 32 /\ v < 2 ^ acc').
    { unfold acc'. destruct (v >? 0) eqn:E.
      - assert (Z.log2 v < 32) by (apply Z.log2_lt_pow2; lia). pose proof (Z.log2_nonneg v). split; [lia|].
        destruct (Z.log2_spec v ltac:(lia)) as (_ & H2). eapply Z.lt_le_trans; [exact H2|]. apply Z.pow_le_mono_r; lia.
      - split; [lia|]. assert (v = 0) by lia. subst v. apply Z.pow_pos_nonneg; lia. }
    destruct Hacc' as (Hr & Hvb). destruct (IH acc' ltac:(lia) Hl') as (H1 & H2). split; [lia|].
    constructor; [|exact H2]. eapply Z.lt_le_trans; [exact Hvb|]. apply Z.pow_le_mono_r; lia.
Qed.
Lemma kd_bit_length_spec dim pts : Forall (fun p => length p = dim /\ Forall (fun v => 0 <= v < 2 ^ 32) p) pts ->
  0 <= kd_bit_length pts <= 32 /\ points_ok dim (kd_bit_length pts) pts.
Proof.
  intros H. assert (Hc: Forall (fun v => 0 <= v < 2 ^ 32) (concat pts)).
  { apply Forall_concat. eapply Forall_impl; [|exact H]. intros p (_ & Hp). exact Hp. }
  destruct (kd_bit_length_fold (concat pts) 0 ltac:(lia) Hc) as (Hr & Hall). fold (kd_bit_length pts) in Hr, Hall.
  split; [lia|]. unfold points_ok. apply Forall_forall. intros p Hp.
  pose proof (proj1 (Forall_forall _ _) H p Hp) as (Hl & Hv). split; [exact Hl|]. apply Forall_forall. intros v Hin.
  split; [apply (proj1 (Forall_forall _ _) Hv v Hin)|]. apply (proj1 (Forall_forall _ _) Hall). apply in_concat. exists p. split; assumption.
Qed.

(** * KdTreeAttributesEncoder::EncodeAttributes / the first stage of KdTreeAttributesDecoder::DecodeAttributes:
    the compression-level byte and the tree coder on the point vector gathered from ALL attributes.  The decoded
    point vector is a permutation of the encoder's: one permutation of whole points, hence the same for every attribute. *)
Theorem kd_attributes_points_roundtrip part speed np atts body rest cols :
  part_ok part -> omap kd_portable atts = Some cols ->
  let ncomp := fold_left (fun acc a => acc + ad_nc (k_desc a)) atts 0 in
  let dim := Z.to_nat ncomp in
  let level := kd_level speed ncomp in
  let pts := zip_rows cols np in
  (1 <= dim)%nat -> Forall (fun p => length p = dim /\ Forall (fun v => 0 <= v < 2 ^ 32) p) pts ->
  Z.of_nat np < 2 ^ 32 ->
  (forall o ord, enc_tree (level_sel level) dim (kd_bit_length pts) part pts = Some (o, ord) -> ops_small o) ->
  kd_enc_attributes_with part speed np atts = Some body ->
  exists tree qd md out,
    body = [level] ++ tree ++ qd ++ md /\ 0 <= level <= 6 /\
    ocat kd_transform_data atts = Some qd /\ ocat kd_min_data atts = Some md /\
    kd_decode_points 515 level dim (Z.of_nat np) (tree ++ qd ++ md ++ rest) = Some (out, qd ++ md ++ rest) /\
    Permutation out pts.
Proof.
  intros Hpart Hcols ncomp dim level pts Hdim Hpts Hnp Hsmall He.
  unfold kd_enc_attributes_with in He. rewrite Hcols in He. cbv zeta in He. fold ncomp level in He.
  destruct ((level <? 0) || (level >? 6)) eqn:El; [discriminate|]. fold dim pts in He.
  destruct (kd_encode_points_with part level dim (kd_bit_length pts) pts) as [tree|] eqn:Et; [|discriminate].
  destruct (ocat kd_transform_data atts) as [qd|] eqn:Eq; [|discriminate].
  destruct (ocat kd_min_data atts) as [md|] eqn:Em; [|discriminate].
  exists tree, qd, md.
  destruct (kd_bit_length_spec dim pts Hpts) as (Hbl & Hok).
  assert (Hlen: length pts = np). { unfold pts. clear. revert cols. induction np as [|k IH]; intros cols; [reflexivity|]. cbn [zip_rows length]. rewrite IH. reflexivity. }
  assert (H16: level = 6 -> (dim <= 16)%nat).
  { unfold level, kd_level. cbv zeta. destruct ((Z.min (10 - speed) 6 =? 6) && (ncomp >? 15)) eqn:E; intros H6; [lia|]. unfold dim. lia. }
  assert (Hlv: 0 <= level <= 6) by (clearbody level; lia).
  assert (Hl1: Z.of_nat (length pts) <= Z.of_nat np) by (rewrite Hlen; lia).
  assert (Hl2: Z.of_nat (length pts) < 2 ^ 32) by (rewrite Hlen; lia).
  destruct (kd_points_roundtrip_with part level dim (kd_bit_length pts) pts tree (qd ++ md ++ rest) (Z.of_nat np)
              Hpart Hlv Hdim H16 Hbl Hok Hl1 Hl2 Hsmall Et) as (out & Hd & Hperm & _).
  exists out. split; [congruence|]. split; [exact Hlv|]. split; [reflexivity|]. split; [reflexivity|].
  split; [|exact Hperm]. rewrite <- Hd. f_equal.
Qed.
