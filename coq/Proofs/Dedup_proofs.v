(** C14 — proofs about Model/Dedup.v (value deduplication, point-id deduplication, builders). *)
From Coq Require Import List ZArith Bool Arith Lia FinFun.
From Draco Require Import Model.Dedup.
Import ListNotations.

Lemma veqb_eq a b : veqb a b = true <-> a = b.
Proof.
  revert b; induction a as [|x a IH]; destruct b as [|y b]; cbn; try (split; congruence).
  rewrite andb_true_iff, Z.eqb_eq, IH. split; [intros [-> ->]; reflexivity | intros H; inversion H; auto].
Qed.
Lemma lneqb_eq a b : lneqb a b = true <-> a = b.
Proof.
  revert b; induction a as [|x a IH]; destruct b as [|y b]; cbn; try (split; congruence).
  rewrite andb_true_iff, Nat.eqb_eq, IH. split; [intros [-> ->]; reflexivity | intros H; inversion H; auto].
Qed.

(* ---------------------------------------------------------------- list update / firstn / skipn *)
Lemma upd_length {A} w (y : A) l : length (upd w y l) = length l.
Proof. revert w; induction l; destruct w; cbn; auto. Qed.
Lemma nth_upd_same {A} w (y d : A) l : w < length l -> nth w (upd w y l) d = y.
Proof. revert w; induction l; destruct w; cbn; intros; try lia; auto. apply IHl; lia. Qed.
Lemma nth_upd_other {A} w i (y d : A) l : i <> w -> nth i (upd w y l) d = nth i l d.
Proof. revert w i; induction l; destruct w, i; cbn; intros; try lia; auto. Qed.
Lemma skipn_upd_lt {A} w i (y : A) l : w < i -> skipn i (upd w y l) = skipn i l.
Proof. revert w i; induction l; destruct w, i; cbn; intros; try lia; auto. apply IHl; lia. Qed.
Lemma firstn_upd_ge {A} w i (y : A) l : i <= w -> firstn i (upd w y l) = firstn i l.
Proof. revert w i; induction l; destruct w, i; cbn; intros; try lia; auto. f_equal; apply IHl; lia. Qed.
Lemma firstn_S_upd {A} w (y : A) l : w < length l -> firstn (S w) (upd w y l) = firstn w l ++ [y].
Proof. revert w; induction l; destruct w; cbn; intros; try lia; auto. f_equal. apply IHl; lia. Qed.
Lemma skipn_cons_nth {A} i (d : A) l : i < length l -> skipn i l = nth i l d :: skipn (S i) l.
Proof. revert i; induction l; destruct i; cbn; intros; try lia; auto. apply IHl; lia. Qed.
Lemma upd_nth_id {A} w (d : A) l : upd w (nth w l d) l = l.
Proof. revert w; induction l; destruct w; cbn; auto. f_equal; auto. Qed.

Lemma Forall2_nth {A B} (R : A -> B -> Prop) l1 l2 d1 d2 p :
  Forall2 R l1 l2 -> p < length l1 -> R (nth p l1 d1) (nth p l2 d2).
Proof. intros H; revert p; induction H; intros [|p] Hp; cbn in *; try lia; auto. apply IHForall2; lia. Qed.
Lemma Forall2_length' {A B} (R : A -> B -> Prop) l1 l2 : Forall2 R l1 l2 -> length l1 = length l2.
Proof. induction 1; cbn; auto. Qed.
Lemma nth_error_nth' {A} (l : list A) n d x : nth_error l n = Some x -> nth n l d = x.
Proof. revert n; induction l; destruct n; cbn; intros; try congruence; auto. Qed.
Lemma nth_error_lt {A} (l : list A) n x : nth_error l n = Some x -> n < length l.
Proof. intros H. apply nth_error_Some. congruence. Qed.
Lemma map_seq_nth {A} (f : nat -> A) (s : list A) d n :
  length s = n -> (forall q, q < n -> f q = nth q s d) -> map f (seq 0 n) = s.
Proof.
  intros Hl Hf. apply nth_ext with (d := f 0) (d' := d).
  - rewrite map_length, seq_length; auto.
  - intros q Hq. rewrite map_length, seq_length in Hq.
    rewrite map_nth with (d := 0). rewrite seq_nth by auto. apply Hf; auto.
Qed.

Lemma nth_map_lt {A B} (f : A -> B) l p d d' : p < length l -> nth p (map f l) d' = f (nth p l d).
Proof. revert p; induction l; destruct p; cbn; intros; try lia; auto. apply IHl; lia. Qed.
Lemma NoDup_snoc {A} (l : list A) x : NoDup l -> ~ In x l -> NoDup (l ++ [x]).
Proof.
  induction 1; cbn; intros Hn.
  - constructor; auto. constructor.
  - constructor.
    + rewrite in_app_iff; cbn. intros [Hi | [He | []]]; [auto | subst; apply Hn; left; auto].
    + apply IHNoDup. intros Hi; apply Hn; right; auto.
Qed.

(* ---------------------------------------------- the specification: keep first occurrences, in order *)
Section DD.
  Context {K : Type} (keq : K -> K -> bool) (keq_eq : forall a b, keq a b = true <-> a = b).

  Fixpoint index_of (k : K) (l : list K) : option nat :=
    match l with
    | [] => None
    | x :: r => if keq x k then Some 0 else option_map S (index_of k r)
    end.

  (** [dd_go seen ks]: the unique keys so far are [seen]; returns all unique keys and, for every key of [ks],
      the index of the first key equal to it. *)
  Fixpoint dd_go (seen ks : list K) : list K * list nat :=
    match ks with
    | [] => (seen, [])
    | k :: r =>
      match index_of k seen with
      | Some j => let '(s, m) := dd_go seen r in (s, j :: m)
      | None => let '(s, m) := dd_go (seen ++ [k]) r in (s, length seen :: m)
      end
    end.

  Lemma index_of_some k l j : index_of k l = Some j -> nth_error l j = Some k.
  Proof.
    revert j; induction l as [|x l IH]; cbn; intros j H; try congruence.
    destruct (keq x k) eqn:E.
    - inversion H; subst. apply keq_eq in E. subst; reflexivity.
    - destruct (index_of k l); cbn in H; inversion H; subst. cbn. auto.
  Qed.
  Lemma index_of_none k l : index_of k l = None -> ~ In k l.
  Proof.
    induction l as [|x l IH]; cbn; intros H; auto.
    destruct (keq x k) eqn:E; try congruence.
    destruct (index_of k l) eqn:E2; cbn in H; try congruence.
    intros [-> | Hin]; [| apply IH; auto].
    assert (keq k k = true) by (apply keq_eq; reflexivity). congruence.
  Qed.
  Lemma index_of_app_l k l r j : index_of k l = Some j -> index_of k (l ++ r) = Some j.
  Proof.
    revert j; induction l as [|x l IH]; cbn; intros j H; try congruence.
    destruct (keq x k); auto. destruct (index_of k l) eqn:E; cbn in H; try congruence.
    rewrite (IH _ eq_refl). auto.
  Qed.
  Lemma index_of_app_new k l : index_of k l = None -> index_of k (l ++ [k]) = Some (length l).
  Proof.
    induction l as [|x l IH]; cbn; intros H.
    - assert (keq k k = true) as -> by (apply keq_eq; reflexivity). reflexivity.
    - destruct (keq x k); try congruence. destruct (index_of k l); cbn in H; try congruence.
      rewrite IH by auto. reflexivity.
  Qed.

  Lemma dd_go_ext seen ks : exists ext, fst (dd_go seen ks) = seen ++ ext.
  Proof.
    revert seen; induction ks as [|k r IH]; intros seen; cbn.
    - exists []. rewrite app_nil_r; auto.
    - destruct (index_of k seen).
      + destruct (IH seen) as [e He]. destruct (dd_go seen r); cbn in *. eauto.
      + destruct (IH (seen ++ [k])) as [e He]. destruct (dd_go (seen ++ [k]) r); cbn in *.
        exists ([k] ++ e). rewrite He, <- app_assoc. auto.
  Qed.

  Lemma dd_go_nodup seen ks : NoDup seen -> NoDup (fst (dd_go seen ks)).
  Proof.
    revert seen; induction ks as [|k r IH]; intros seen H; cbn; auto.
    destruct (index_of k seen) eqn:E.
    - specialize (IH seen H). destruct (dd_go seen r); auto.
    - assert (NoDup (seen ++ [k])) as H2.
      { apply NoDup_snoc; auto. eapply index_of_none; eauto. }
      specialize (IH _ H2). destruct (dd_go (seen ++ [k]) r); auto.
  Qed.

  Lemma dd_go_length seen ks : length (snd (dd_go seen ks)) = length ks.
  Proof.
    revert seen; induction ks as [|k r IH]; intros seen; cbn; auto.
    destruct (index_of k seen).
    - specialize (IH seen). destruct (dd_go seen r); cbn in *; auto.
    - specialize (IH (seen ++ [k])). destruct (dd_go (seen ++ [k]) r); cbn in *; auto.
  Qed.

  (** every key is found again, through the returned index, among the unique keys *)
  Lemma dd_go_map seen ks :
    Forall2 (fun k j => nth_error (fst (dd_go seen ks)) j = Some k) ks (snd (dd_go seen ks)).
  Proof.
    revert seen; induction ks as [|k r IH]; intros seen; cbn; [constructor|].
    destruct (index_of k seen) eqn:E.
    - specialize (IH seen). destruct (dd_go_ext seen r) as [e He].
      destruct (dd_go seen r) as [s m]; cbn in *. constructor; auto.
      subst s. apply index_of_some in E. rewrite nth_error_app1; auto. eapply nth_error_lt; eauto.
    - specialize (IH (seen ++ [k])). destruct (dd_go_ext (seen ++ [k]) r) as [e He].
      destruct (dd_go (seen ++ [k]) r) as [s m]; cbn in *. constructor; auto.
      subst s. rewrite <- app_assoc. rewrite nth_error_app2 by lia. rewrite Nat.sub_diag. reflexivity.
  Qed.

  Lemma dd_go_bound seen ks : length (fst (dd_go seen ks)) <= length seen + length ks.
  Proof.
    revert seen; induction ks as [|k r IH]; intros seen; cbn; [lia|].
    destruct (index_of k seen).
    - specialize (IH seen). destruct (dd_go seen r); cbn in *; lia.
    - specialize (IH (seen ++ [k])). destruct (dd_go (seen ++ [k]) r); cbn in *.
      rewrite app_length in IH; cbn in IH; lia.
  Qed.

  (** nothing was merged  <->  the result is the input *)
  Lemma dd_go_full seen ks : length (fst (dd_go seen ks)) = length seen + length ks ->
    dd_go seen ks = (seen ++ ks, seq (length seen) (length ks)).
  Proof.
    revert seen; induction ks as [|k r IH]; intros seen; cbn; intros H.
    - rewrite app_nil_r; auto.
    - destruct (index_of k seen).
      + pose proof (dd_go_bound seen r). destruct (dd_go seen r); cbn in *; lia.
      + specialize (IH (seen ++ [k])). destruct (dd_go (seen ++ [k]) r) as [s m]; cbn in *.
        rewrite app_length in IH; cbn in IH. assert (E : (s, m) = ((seen ++ [k]) ++ r, seq (length seen + 1) (length r))) by (apply IH; lia).
        inversion E; subst. rewrite <- app_assoc. cbn. repeat f_equal. lia.
  Qed.

  Lemma dd_go_fix seen ks : NoDup (seen ++ ks) -> dd_go seen ks = (seen ++ ks, seq (length seen) (length ks)).
  Proof.
    revert seen; induction ks as [|k r IH]; intros seen H; cbn.
    - rewrite app_nil_r; auto.
    - destruct (index_of k seen) eqn:E.
      + exfalso. apply index_of_some in E. apply nth_error_In in E.
        apply NoDup_remove_2 in H. apply H. rewrite in_app_iff; auto.
      + rewrite IH; rewrite <- app_assoc; cbn; auto. rewrite app_length; cbn.
        repeat f_equal. lia.
  Qed.

  Lemma dd_go_incl seen ks x : In x (fst (dd_go seen ks)) -> In x (seen ++ ks).
  Proof.
    revert seen; induction ks as [|k r IH]; intros seen; cbn; [rewrite app_nil_r; auto|].
    destruct (index_of k seen).
    - specialize (IH seen). destruct (dd_go seen r); cbn in *. intros Hi; apply IH in Hi.
      rewrite in_app_iff in *; cbn; tauto.
    - specialize (IH (seen ++ [k])). destruct (dd_go (seen ++ [k]) r); cbn in *. intros Hi; apply IH in Hi.
      rewrite <- app_assoc in Hi; auto.
  Qed.

  (** the hash map holds the unique keys with their positions *)
  Fixpoint tbl_of (l : list K) (s : nat) : hmap :=
    match l with [] => [] | k :: r => (k, s) :: tbl_of r (S s) end.
  Lemma tbl_of_snoc l k s : tbl_of (l ++ [k]) s = hm_add (tbl_of l s) k (s + length l).
  Proof.
    revert s; induction l; intros s; cbn; unfold hm_add in *.
    - rewrite Nat.add_0_r; auto.
    - rewrite IHl. cbn. repeat f_equal. lia.
  Qed.
  Lemma hm_find_tbl_of l s k : hm_find keq (tbl_of l s) k = option_map (Nat.add s) (index_of k l).
  Proof.
    revert s; induction l as [|x l IH]; intros s; cbn; auto.
    destruct (keq x k); cbn. { rewrite Nat.add_0_r; auto. }
    rewrite IH. destruct (index_of k l); cbn; auto.
  Qed.
End DD.

(* ------------------------------------------------- DeduplicateFormattedValues refines the specification *)
Definition vdd := dd_go veqb.

(** The in-place loop computes [dd_go]: the values still to be read ([skipn i buf]) are never overwritten
    (writes go to [u <= i]), the first [u] buffer entries are the unique values, the hash map holds them. *)
Lemma dv_loop_spec todo : forall i buf u seen b u' vm s m,
  length buf = i + todo -> u <= i -> firstn u buf = seen -> length seen = u ->
  dv_loop todo i buf (tbl_of seen 0) u = (b, u', vm) ->
  vdd seen (skipn i buf) = (s, m) ->
  firstn u' b = s /\ u' = length s /\ vm = m /\ length b = length buf.
Proof.
  induction todo as [|t IH]; intros i buf u seen b u' vm s m Hlen Hu Hf Hs H1 H2.
  - cbn in H1. rewrite skipn_all2 in H2 by lia. cbn in H2. inversion H1; inversion H2; subst. auto.
  - cbn [dv_loop] in H1. rewrite (skipn_cons_nth i ([] : value)) in H2 by lia.
    set (v := nth i buf []) in *. unfold vdd in H2. cbn [dd_go] in H2. fold vdd in H2.
    rewrite (hm_find_tbl_of veqb) in H1.
    destruct (index_of veqb v seen) as [j|] eqn:E; cbn [option_map Nat.add] in H1.
    + destruct (dv_loop t (S i) buf (tbl_of seen 0) u) as [[b1 u1] vm1] eqn:E1.
      destruct (vdd seen (skipn (S i) buf)) as [s1 m1] eqn:E2.
      injection H1 as <- <- <-; injection H2 as <- <-.
      destruct (IH (S i) buf u seen b1 u1 vm1 s1 m1) as (A & B & C & D); auto; try lia.
      subst; auto.
    + destruct (dv_loop t (S i) (upd u v buf) (hm_add (tbl_of seen 0) v u) (S u)) as [[b1 u1] vm1] eqn:E1.
      destruct (vdd (seen ++ [v]) (skipn (S i) buf)) as [s1 m1] eqn:E2.
      injection H1 as <- <- <-; injection H2 as <- <-. subst u.
      assert (T : hm_add (tbl_of seen 0) v (length seen) = tbl_of (seen ++ [v]) 0) by (rewrite tbl_of_snoc; auto).
      rewrite T in E1. rewrite <- (skipn_upd_lt (length seen) (S i) v) in E2 by lia.
      destruct (IH (S i) (upd (length seen) v buf) (S (length seen)) (seen ++ [v]) b1 u1 vm1 s1 m1)
        as (A & B & C & D); auto.
      * rewrite upd_length; lia.
      * lia.
      * rewrite firstn_S_upd by lia. rewrite Hf; auto.
      * rewrite app_length; cbn; lia.
      * subst. rewrite upd_length in D. auto.
Qed.

Definition with_vals_map (a : attr) (vals : list value) (ident : bool) (m : list nat) : attr :=
  mkAttr (a_ncomp a) (a_dtype a) vals ident m.

Lemma dedup_formatted_spec a s m : vdd [] (a_vals a) = (s, m) ->
  dedup_formatted a =
  (if Nat.eqb (length s) (length (a_vals a)) then with_vals_map a s (a_ident a) (a_map a)
   else if a_ident a then with_vals_map a s false m
   else with_vals_map a s false (map (fun k => nth k m invalid_index) (a_map a)),
   Z.of_nat (length s)).
Proof.
  intros H. unfold dedup_formatted.
  destruct (dv_loop (length (a_vals a)) 0 (a_vals a) [] 0) as [[b u] vm] eqn:E.
  destruct (dv_loop_spec (length (a_vals a)) 0 (a_vals a) 0 [] b u vm s m) as (A & B & C & D); auto.
  subst u vm. rewrite A. unfold with_vals_map.
  destruct (Nat.eqb (length s) (length (a_vals a))); auto. destruct (a_ident a); auto.
Qed.

Lemma attr_eta a : mkAttr (a_ncomp a) (a_dtype a) (a_vals a) (a_ident a) (a_map a) = a.
Proof. destruct a; reflexivity. Qed.

(** number of points an attribute can be asked about *)
Lemma wf_attr_value_index np a p : wf_attr np a = true -> p < np -> mapped_index a p < length (a_vals a).
Proof.
  unfold wf_attr, mapped_index. destruct (a_ident a).
  - intros H Hp. apply Nat.leb_le in H. lia.
  - rewrite andb_true_iff. intros [H1 H2] Hp. apply Nat.leb_le in H1.
    rewrite forallb_forall in H2. apply Nat.ltb_lt. apply H2. apply nth_In. lia.
Qed.

(** THEOREM dedup_values_preserves: every point keeps its value bytes. *)
Lemma dedup_values_preserves np a p : wf_attr np a = true -> p < np ->
  att_value (fst (dedup_values a)) p = att_value a p.
Proof.
  intros Hwf Hp. pose proof (wf_attr_value_index np a p Hwf Hp) as Hidx.
  unfold dedup_values.
  destruct (negb (dtype_dedup_supported (a_dtype a))); auto.
  destruct (Z.leb 1 (a_ncomp a) && Z.leb (a_ncomp a) 4); auto.
  destruct (vdd [] (a_vals a)) as [s m] eqn:E.
  rewrite (dedup_formatted_spec a s m E). cbn [fst].
  pose proof (dd_go_map veqb veqb_eq [] (a_vals a)) as HM. fold vdd in HM. rewrite E in HM. cbn [fst snd] in HM.
  pose proof (dd_go_length veqb [] (a_vals a)) as HL. fold vdd in HL. rewrite E in HL. cbn [snd] in HL.
  destruct (Nat.eqb (length s) (length (a_vals a))) eqn:En.
  - apply Nat.eqb_eq in En. pose proof (dd_go_full veqb [] (a_vals a)) as HF. fold vdd in HF.
    rewrite E in HF. cbn [fst length Nat.add app] in HF. specialize (HF En). inversion HF; subst.
    unfold att_value, mapped_index, with_vals_map; cbn. reflexivity.
  - unfold att_value, mapped_index in *. unfold wf_attr in Hwf. destruct (a_ident a) eqn:Ei.
    + cbn. apply nth_error_nth'. apply (Forall2_nth _ _ _ [] invalid_index p HM). auto.
    + cbn. apply andb_true_iff in Hwf. destruct Hwf as [H1 H2]. apply Nat.leb_le in H1.
      rewrite (nth_map_lt _ _ _ invalid_index) by lia. apply nth_error_nth'.
      apply (Forall2_nth _ _ _ [] invalid_index (nth p (a_map a) invalid_index) HM). auto.
Qed.

(** THEOREM dedup_values_nodup (under the guard the C++ applies: supported type, 1..4 components) *)
Lemma dedup_values_nodup a : dedup_guard a = true -> NoDup (a_vals (fst (dedup_values a))).
Proof.
  unfold dedup_guard, dedup_values. rewrite !andb_true_iff. intros [[H1 H2] H3].
  rewrite H1, H2, H3. cbn [negb andb].
  destruct (vdd [] (a_vals a)) as [s m] eqn:E.
  rewrite (dedup_formatted_spec a s m E). cbn [fst].
  pose proof (dd_go_nodup veqb veqb_eq [] (a_vals a) (NoDup_nil _)) as H. fold vdd in H. rewrite E in H. cbn in H.
  destruct (Nat.eqb (length s) (length (a_vals a))); [|destruct (a_ident a)]; cbn; auto.
Qed.

(** The other side of the guard (defect D14 and the unsupported 64-bit types): nothing happens, -1 is returned. *)
Lemma dedup_values_guard_false a : dedup_guard a = false -> dedup_values a = (a, (-1)%Z).
Proof.
  unfold dedup_guard, dedup_values. destruct (dtype_dedup_supported (a_dtype a)); cbn; auto.
  intros ->. auto.
Qed.

(** THEOREM dedup_values_idempotent *)
Lemma dedup_values_idempotent a :
  fst (dedup_values (fst (dedup_values a))) = fst (dedup_values a) /\
  (dedup_guard a = true -> snd (dedup_values (fst (dedup_values a))) = snd (dedup_values a)).
Proof.
  destruct (dedup_guard a) eqn:G.
  2:{ rewrite (dedup_values_guard_false a G). cbn [fst]. rewrite (dedup_values_guard_false a G). split; auto; congruence. }
  pose proof (dedup_values_nodup a G) as ND.
  unfold dedup_guard in G. rewrite !andb_true_iff in G. destruct G as [[H1 H2] H3].
  unfold dedup_values in *. rewrite H1, H2, H3 in *. cbn [negb andb] in *.
  destruct (vdd [] (a_vals a)) as [s m] eqn:E.
  rewrite (dedup_formatted_spec a s m E) in *. cbn [fst snd] in *.
  set (a1 := if Nat.eqb (length s) (length (a_vals a)) then with_vals_map a s (a_ident a) (a_map a)
             else if a_ident a then with_vals_map a s false m
             else with_vals_map a s false (map (fun k => nth k m invalid_index) (a_map a))) in *.
  assert (Hv : a_vals a1 = s /\ a_ncomp a1 = a_ncomp a /\ a_dtype a1 = a_dtype a).
  { unfold a1. destruct (Nat.eqb (length s) (length (a_vals a))); [|destruct (a_ident a)]; cbn; auto. }
  destruct Hv as (Hv & Hn & Hd). rewrite Hn, Hd, H1, H2, H3. cbn [negb andb].
  assert (E1 : vdd [] (a_vals a1) = (s, seq 0 (length s))).
  { rewrite Hv in *. unfold vdd. rewrite (dd_go_fix veqb veqb_eq [] s); auto. }
  rewrite (dedup_formatted_spec a1 s _ E1). rewrite Hv, Nat.eqb_refl. cbn [fst snd].
  split; auto. unfold with_vals_map. rewrite <- Hv at 1. apply attr_eta.
Qed.

(* ------------------------------------------------------------- well-formedness is kept; geometry level *)
Lemma dd_index_lt s m (vals : list value) : 
  Forall2 (fun k j => nth_error s j = Some k) vals m -> Forall (fun j => j < length s) m.
Proof. induction 1; constructor; auto. eapply nth_error_lt; eauto. Qed.

Lemma dedup_values_wf np a : wf_attr np a = true -> wf_attr np (fst (dedup_values a)) = true.
Proof.
  intros Hwf. unfold dedup_values.
  destruct (negb (dtype_dedup_supported (a_dtype a))); auto.
  destruct (Z.leb 1 (a_ncomp a) && Z.leb (a_ncomp a) 4); auto.
  destruct (vdd [] (a_vals a)) as [s m] eqn:E.
  rewrite (dedup_formatted_spec a s m E). cbn [fst].
  pose proof (dd_go_map veqb veqb_eq [] (a_vals a)) as HM. fold vdd in HM. rewrite E in HM. cbn [fst snd] in HM.
  pose proof (dd_go_length veqb [] (a_vals a)) as HL. fold vdd in HL. rewrite E in HL. cbn [snd] in HL.
  pose proof (dd_index_lt _ _ _ HM) as HI. rewrite Forall_forall in HI.
  destruct (Nat.eqb (length s) (length (a_vals a))) eqn:En.
  - apply Nat.eqb_eq in En. unfold wf_attr in *. cbn. rewrite En. auto.
  - unfold wf_attr in *. destruct (a_ident a) eqn:Ei; cbn.
    + apply Nat.leb_le in Hwf. apply andb_true_iff; split. { apply Nat.leb_le; lia. }
      apply forallb_forall. intros x Hx. apply Nat.ltb_lt. auto.
    + apply andb_true_iff in Hwf. destruct Hwf as [H1 H2]. rewrite map_length, H1. cbn.
      rewrite forallb_forall in *. intros x Hx. apply in_map_iff in Hx. destruct Hx as (k & <- & Hk).
      apply Nat.ltb_lt. apply HI. apply nth_In. rewrite HL. specialize (H2 _ Hk). apply Nat.ltb_lt in H2. exact H2.
Qed.

Lemma dav_np g : g_np (fst (dedup_attribute_values g)) = g_np g.
Proof. unfold dedup_attribute_values. destruct (Nat.eqb (g_np g) 0); auto. Qed.
Lemma dav_faces g : g_faces (fst (dedup_attribute_values g)) = g_faces g.
Proof. unfold dedup_attribute_values. destruct (Nat.eqb (g_np g) 0); auto. Qed.
Lemma dav_atts g : g_np g <> 0 -> g_atts (fst (dedup_attribute_values g)) = map (fun a => fst (dedup_values a)) (g_atts g).
Proof.
  unfold dedup_attribute_values. intros H. apply Nat.eqb_neq in H. rewrite H. cbn. rewrite map_map. auto.
Qed.

Lemma dav_wf g : wf_geo g = true -> wf_geo (fst (dedup_attribute_values g)) = true.
Proof.
  unfold wf_geo. rewrite !andb_true_iff. intros [H1 H2]. rewrite dav_np, dav_faces. split; auto.
  destruct (Nat.eq_dec (g_np g) 0) as [Z|NZ].
  - unfold dedup_attribute_values. rewrite Z. cbn. rewrite <- Z. auto.
  - rewrite dav_atts by auto. rewrite forallb_forall in *. intros x Hx. apply in_map_iff in Hx.
    destruct Hx as (a & <- & Ha). apply dedup_values_wf; auto.
Qed.

Lemma dav_point_tuple g p : wf_geo g = true -> p < g_np g ->
  point_tuple (g_atts (fst (dedup_attribute_values g))) p = point_tuple (g_atts g) p.
Proof.
  unfold wf_geo. rewrite andb_true_iff. intros [H1 _] Hp. rewrite dav_atts by lia.
  unfold point_tuple. rewrite map_map. apply map_ext_in. intros a Ha.
  rewrite forallb_forall in H1. eapply dedup_values_preserves; eauto.
Qed.

Lemma face_ok_lt np a b c : face_ok np (a, b, c) = true -> a < np /\ b < np /\ c < np.
Proof. unfold face_ok. rewrite !andb_true_iff, !Nat.ltb_lt. tauto. Qed.

(** THEOREM: DeduplicateAttributeValues changes neither the faces' per-corner bytes nor any point's bytes,
    and always reports success. *)
Lemma dav_preserves g : wf_geo g = true ->
  geom (fst (dedup_attribute_values g)) = geom g /\ pc_geom (fst (dedup_attribute_values g)) = pc_geom g
  /\ snd (dedup_attribute_values g) = true.
Proof.
  intros Hwf. split; [|split].
  - unfold geom. rewrite dav_faces. apply map_ext_in. intros [[a b] c] Hf.
    pose proof Hwf as Hwf'. unfold wf_geo in Hwf'. apply andb_true_iff in Hwf'. destruct Hwf' as [_ H2].
    rewrite forallb_forall in H2. specialize (H2 _ Hf). apply face_ok_lt in H2. destruct H2 as (A & B & C).
    cbn. rewrite !dav_point_tuple; auto.
  - unfold pc_geom. rewrite dav_np. apply map_ext_in. intros p Hp. apply in_seq in Hp.
    apply dav_point_tuple; auto. lia.
  - unfold dedup_attribute_values. destruct (Nat.eqb (g_np g) 0); auto. cbn.
    apply forallb_forall. intros r Hr. apply in_map_iff in Hr. destruct Hr as (a & <- & _).
    unfold dedup_values. destruct (negb (dtype_dedup_supported (a_dtype a))); auto.
    destruct (Z.leb 1 (a_ncomp a) && Z.leb (a_ncomp a) 4); auto.
    destruct (dedup_formatted a) as [a' u]. cbn. destruct (Z.eqb u 0) eqn:E; auto. rewrite E; auto.
Qed.

(* --------------------------------------------------------------------------------- DeduplicatePointIds *)
Definition kdd := dd_go lneqb.
Definition keys (atts : list attr) (pts : list nat) := map (pkey atts) pts.

Lemma hm_find_points atts pts s i :
  hm_find (point_eqb atts) (tbl_of pts s) i = option_map (Nat.add s) (index_of lneqb (pkey atts i) (keys atts pts)).
Proof.
  unfold keys. revert s; induction pts as [|x pts IH]; intros s; cbn; auto.
  unfold point_eqb at 1. destruct (lneqb (pkey atts x) (pkey atts i)); cbn. { rewrite Nat.add_0_r; auto. }
  rewrite IH. destruct (index_of lneqb (pkey atts i) (map (pkey atts) pts)); cbn; auto.
Qed.

(** the point loop computes [dd_go] over the points' index tuples; [ups] lists the first occurrences *)
Lemma dp_loop_spec atts todo : forall i pts im ups n' s m,
  dp_loop atts todo i (tbl_of pts 0) (length pts) = (im, ups, n') ->
  kdd (keys atts pts) (keys atts (seq i todo)) = (s, m) ->
  im = m /\ s = keys atts (pts ++ ups) /\ n' = length s.
Proof.
  induction todo as [|t IH]; intros i pts im ups n' s m H1 H2.
  - cbn in *. injection H1 as <- <- <-; injection H2 as <- <-. rewrite app_nil_r. unfold keys; rewrite map_length; auto.
  - cbn [dp_loop] in H1. cbn [seq keys map] in H2. fold (keys atts (seq (S i) t)) in H2.
    unfold kdd in H2. cbn [dd_go] in H2. fold kdd in H2. rewrite hm_find_points in H1.
    destruct (index_of lneqb (pkey atts i) (keys atts pts)) as [j|] eqn:E; cbn [option_map Nat.add] in H1.
    + destruct (dp_loop atts t (S i) (tbl_of pts 0) (length pts)) as [[im1 up1] n1] eqn:E1.
      destruct (kdd (keys atts pts) (keys atts (seq (S i) t))) as [s1 m1] eqn:E2.
      injection H1 as <- <- <-; injection H2 as <- <-.
      destruct (IH _ _ _ _ _ _ _ E1 E2) as (A & B & C). subst; auto.
    + destruct (dp_loop atts t (S i) (hm_add (tbl_of pts 0) i (length pts)) (S (length pts))) as [[im1 up1] n1] eqn:E1.
      destruct (kdd (keys atts pts ++ [pkey atts i]) (keys atts (seq (S i) t))) as [s1 m1] eqn:E2.
      injection H1 as <- <- <-; injection H2 as <- <-.
      assert (T : hm_add (tbl_of pts 0) i (length pts) = tbl_of (pts ++ [i]) 0) by (rewrite tbl_of_snoc; auto).
      rewrite T in E1. replace (S (length pts)) with (length (pts ++ [i])) in E1 by (rewrite app_length; cbn; lia).
      replace (keys atts pts ++ [pkey atts i]) with (keys atts (pts ++ [i])) in E2 by (unfold keys; rewrite map_app; auto).
      destruct (IH _ _ _ _ _ _ _ E1 E2) as (A & B & C). subst. rewrite <- app_assoc. cbn.
      unfold keys. rewrite map_length. auto.
Qed.

(** shape of the list of first occurrences relative to the index map ([i] = offset of [im]) *)
Fixpoint ups_ok (i : nat) (im : list nat) (w : nat) (ups : list nat) : Prop :=
  match ups with
  | [] => True
  | x :: r => nth (x - i) im invalid_index = w /\ i <= x /\ w <= x /\ x < i + length im /\ Forall (lt x) r
              /\ ups_ok i im (S w) r
  end.
Lemma ups_ok_ge i im w ups : ups_ok i im w ups -> Forall (le i) ups.
Proof. revert w; induction ups; cbn; intros w H; constructor; intuition eauto. Qed.
Lemma ups_ok_lift i j im w ups : ups_ok (S i) im w ups -> ups_ok i (j :: im) w ups.
Proof.
  revert w; induction ups as [|x r IH]; cbn; auto. intros w (A & B & C & D & E & F).
  repeat split; auto; try lia. replace (x - i) with (S (x - S i)) by lia. auto.
Qed.
Lemma dp_loop_ups atts todo : forall i tbl nu im ups n', nu <= i ->
  dp_loop atts todo i tbl nu = (im, ups, n') -> ups_ok i im nu ups /\ length im = todo /\ n' = nu + length ups.
Proof.
  induction todo as [|t IH]; intros i tbl nu im ups n' Hn H; cbn in H.
  - injection H as <- <- <-. cbn; auto.
  - destruct (hm_find (point_eqb atts) tbl i).
    + destruct (dp_loop atts t (S i) tbl nu) as [[im1 up1] n1] eqn:E1. injection H as <- <- <-.
      destruct (IH (S i) tbl nu im1 up1 n1 ltac:(lia) E1) as (A & B & C). split; [apply ups_ok_lift; auto | cbn; auto].
    + destruct (dp_loop atts t (S i) (hm_add tbl i nu) (S nu)) as [[im1 up1] n1] eqn:E1. injection H as <- <- <-.
      destruct (IH (S i) (hm_add tbl i nu) (S nu) im1 up1 n1 ltac:(lia) E1) as (A & B & C). split; [|cbn; split; auto; lia].
      cbn. rewrite Nat.sub_diag. repeat split; auto; try lia.
      * apply ups_ok_ge in A. eapply Forall_impl; [|exact A]. cbn; intros; lia.
      * apply ups_ok_lift; auto.
Qed.

(** ApplyPointIdDeduplication, one attribute at a time (the counter evolves independently of the attributes) *)
Fixpoint apd_one (ups im : list nat) (a : attr) (nu : nat) : attr :=
  match ups with
  | [] => a
  | i :: r => let np := nth i im invalid_index in
              if Nat.leb nu np then apd_one r im (set_map_entry np (mapped_index a i) a) (S np) else apd_one r im a nu
  end.
Fixpoint apd_nu (ups im : list nat) (nu : nat) : nat :=
  match ups with
  | [] => nu
  | i :: r => let np := nth i im invalid_index in if Nat.leb nu np then apd_nu r im (S np) else apd_nu r im nu
  end.
Lemma apd_loop_split ups im : forall atts nu,
  apd_loop ups im atts nu = (map (fun a => apd_one ups im a nu) atts, apd_nu ups im nu).
Proof.
  induction ups as [|i r IH]; intros atts nu; cbn. { rewrite map_id; auto. }
  destruct (Nat.leb nu (nth i im invalid_index)); rewrite IH; auto. rewrite map_map. auto.
Qed.

(** the in-place gathering never overwrites an entry that is still to be read *)
Lemma apd_one_spec im : forall ups a w, a_ident a = false -> ups_ok 0 im w ups ->
  Forall (fun x => x < length (a_map a)) ups ->
  let a' := apd_one ups im a w in
  a_ident a' = false /\ a_vals a' = a_vals a /\ a_ncomp a' = a_ncomp a /\ a_dtype a' = a_dtype a /\
  length (a_map a') = length (a_map a) /\
  firstn (w + length ups) (a_map a') = firstn w (a_map a) ++ map (fun x => nth x (a_map a) invalid_index) ups /\
  apd_nu ups im w = w + length ups.
Proof.
  induction ups as [|x r IH]; intros a w Hi Hok Hlt.
  - cbn. rewrite !Nat.add_0_r, app_nil_r. auto 10.
  - cbn [ups_ok] in Hok. destruct Hok as (A & B & C & D & E & F). rewrite Nat.sub_0_r in A.
    cbn [apd_one apd_nu]. rewrite A, Nat.leb_refl.
    pose proof (Forall_inv Hlt) as Hx; cbn beta in Hx; pose proof (Forall_inv_tail Hlt) as Hr.
    set (a1 := set_map_entry w (mapped_index a x) a).
    assert (Hm1 : a_map a1 = upd w (nth x (a_map a) invalid_index) (a_map a)).
    { unfold a1, set_map_entry, mapped_index. rewrite Hi. reflexivity. }
    specialize (IH a1 (S w)). cbn zeta in IH.
    destruct IH as (I1 & I2 & I3 & I4 & I5 & I6 & I7); auto.
    { rewrite Hm1, upd_length. auto. }
    rewrite Hm1, upd_length in I5. rewrite Hm1 in I6.
    repeat split; auto.
    + cbn [length]. replace (w + S (length r)) with (S w + length r) by lia. rewrite I6.
      rewrite firstn_S_upd by lia. rewrite <- app_assoc. cbn [app map]. f_equal. f_equal.
      apply map_ext_in. intros y Hy. rewrite Forall_forall in E. specialize (E _ Hy).
      apply nth_upd_other. lia.
    + rewrite I7. cbn. lia.
Qed.

Lemma ups_ok_nth im : forall ups w, ups_ok 0 im w ups ->
  forall q, q < length ups -> nth q ups 0 < length im /\ nth (nth q ups 0) im invalid_index = w + q.
Proof.
  induction ups as [|x r IH]; cbn; intros w H q Hq; [lia|].
  destruct H as (A & B & C & D & E & F). rewrite Nat.sub_0_r in A. destruct q.
  - split; [lia | rewrite A; lia].
  - destruct (IH (S w) F q ltac:(lia)) as [G1 G2]. split; auto. rewrite G2. lia.
Qed.

Lemma pkey_in atts a p q : In a atts -> pkey atts p = pkey atts q -> mapped_index a p = mapped_index a q.
Proof.
  unfold pkey. induction atts as [|b r IH]; cbn; intros Hin H; [contradiction|].
  destruct Hin as [-> | Hin]; inversion H; auto.
Qed.

Lemma keys_nodup_of_identity atts a l : In a atts -> a_ident a = true -> NoDup l -> NoDup (keys atts l).
Proof.
  intros Hin Hid. unfold keys. apply FinFun.Injective_map_NoDup. intros p q H.
  apply (pkey_in atts a p q Hin) in H. unfold mapped_index in H. rewrite Hid in H. auto.
Qed.

(** what DeduplicatePointIds produces when it does something *)
Definition dpi_result (g : geo) (im ups : list nat) : geo :=
  mkGeo (length ups)
        (map (fun a => mkAttr (a_ncomp a) (a_dtype a) (a_vals a) false (map (mapped_index a) ups)) (g_atts g))
        (map (remap_face im) (g_faces g)).

Lemma geo_eta g : mkGeo (g_np g) (g_atts g) (g_faces g) = g.
Proof. destruct g; auto. Qed.

Lemma dpi_cases g : wf_geo g = true ->
  (dedup_point_ids g = g /\ NoDup (keys (g_atts g) (seq 0 (g_np g)))) \/
  (exists im ups, dedup_point_ids g = dpi_result g im ups /\ length im = g_np g /\
      (forall p, p < g_np g -> nth p im invalid_index < length ups /\
                               pkey (g_atts g) (nth (nth p im invalid_index) ups 0) = pkey (g_atts g) p) /\
      (forall q, q < length ups -> nth q ups 0 < g_np g /\ nth (nth q ups 0) im invalid_index = q) /\
      NoDup (keys (g_atts g) ups)).
Proof.
  intros Hwf. unfold dedup_point_ids.
  destruct (dp_loop (g_atts g) (g_np g) 0 [] 0) as [[im ups] nu] eqn:E1.
  destruct (kdd [] (keys (g_atts g) (seq 0 (g_np g)))) as [s m] eqn:E2.
  destruct (dp_loop_spec (g_atts g) (g_np g) 0 [] im ups nu s m E1 E2) as (A & B & C). cbn [app] in B.
  destruct (dp_loop_ups (g_atts g) (g_np g) 0 [] 0 im ups nu (le_n 0) E1) as (U1 & U2 & U3). cbn in U3.
  pose proof (dd_go_nodup lneqb lneqb_eq [] (keys (g_atts g) (seq 0 (g_np g))) (NoDup_nil _)) as ND.
  fold kdd in ND. rewrite E2 in ND. cbn [fst] in ND.
  destruct (Nat.eqb nu (g_np g)) eqn:En.
  - left. split; auto. apply Nat.eqb_eq in En.
    pose proof (dd_go_full lneqb [] (keys (g_atts g) (seq 0 (g_np g)))) as HF. fold kdd in HF. rewrite E2 in HF.
    cbn [fst length Nat.add app] in HF. unfold keys at 1 in HF. rewrite map_length, seq_length in HF.
    specialize (HF ltac:(lia)). injection HF as H0 H1. rewrite <- H0. auto.
  - right. apply Nat.eqb_neq in En. exists im, ups.
    assert (Hnid : forall a, In a (g_atts g) -> a_ident a = false).
    { intros a Ha. destruct (a_ident a) eqn:Ei; auto. exfalso.
      pose proof (keys_nodup_of_identity (g_atts g) a (seq 0 (g_np g)) Ha Ei (seq_NoDup _ _)) as K.
      unfold kdd in E2. rewrite (dd_go_fix lneqb lneqb_eq [] _ K) in E2. cbn [app length] in E2. injection E2 as H0 H1.
      rewrite <- H0 in C. unfold keys in C. rewrite map_length, seq_length in C. lia. }
    pose proof Hwf as Hwf'. unfold wf_geo in Hwf'. apply andb_true_iff in Hwf'. destruct Hwf' as [W1 W2].
    rewrite forallb_forall in W1.
    pose proof (ups_ok_nth im ups 0 U1) as UN.
    assert (Hlen : length ups = nu) by lia.
    split; [|split; [auto|split; [|split]]].
    + rewrite apd_loop_split. unfold dpi_result. f_equal; auto. rewrite map_map. apply map_ext_in. intros a Ha.
      specialize (Hnid a Ha). specialize (W1 a Ha). unfold wf_attr in W1. rewrite Hnid in W1.
      apply andb_true_iff in W1. destruct W1 as [W1 _]. apply Nat.leb_le in W1.
      destruct (apd_one_spec im ups a 0 Hnid U1) as (I1 & I2 & I3 & I4 & I5 & I6 & I7).
      { apply Forall_forall. intros x Hx. apply In_nth with (d := 0) in Hx. destruct Hx as (q & Hq & <-).
        destruct (UN q Hq). lia. }
      cbn [Nat.add firstn app] in I6, I7. unfold set_explicit. rewrite I2, I3, I4, I7. f_equal.
      unfold resize. rewrite I6, I5. replace (length ups - length (a_map a)) with 0.
      2:{ assert (length ups <= g_np g); [|lia]. rewrite Hlen, C, B. 
          pose proof (dd_go_bound lneqb [] (keys (g_atts g) (seq 0 (g_np g)))) as HB. fold kdd in HB. rewrite E2 in HB.
          cbn in HB. unfold keys in HB. rewrite map_length, seq_length in HB. subst s. unfold keys. auto. }
      cbn. rewrite app_nil_r. apply map_ext. intros x. unfold mapped_index. rewrite Hnid. auto.
    + intros p Hp.
      pose proof (dd_go_map lneqb lneqb_eq [] (keys (g_atts g) (seq 0 (g_np g)))) as HM. fold kdd in HM. rewrite E2 in HM.
      cbn [fst snd] in HM. subst m.
      pose proof (Forall2_nth _ _ _ [] invalid_index p HM) as HP. cbn beta in HP.
      unfold keys at 1 2 in HP. rewrite map_length, seq_length in HP. specialize (HP Hp).
      rewrite (nth_map_lt _ _ _ 0) in HP by (rewrite seq_length; auto). rewrite seq_nth in HP by auto. cbn [Nat.add] in HP.
      pose proof (nth_error_lt _ _ _ HP) as HL. rewrite B in HL. unfold keys in HL. rewrite map_length in HL.
      split; auto. apply nth_error_nth' with (d := []) in HP. rewrite B in HP. unfold keys in HP.
      rewrite (nth_map_lt _ _ _ 0) in HP by auto. auto.
    + intros q Hq. destruct (UN q Hq) as [G1 G2]. split; [lia | auto].
    + rewrite <- B. auto.
Qed.

Lemma point_tuple_of_pkey atts u p : pkey atts u = pkey atts p -> point_tuple atts u = point_tuple atts p.
Proof.
  intros H. unfold point_tuple. apply map_ext_in. intros a Ha. unfold att_value.
  rewrite (pkey_in atts a u p Ha H). auto.
Qed.

Lemma dpi_result_pkey g im ups q : q < length ups ->
  pkey (g_atts (dpi_result g im ups)) q = pkey (g_atts g) (nth q ups 0).
Proof.
  intros Hq. unfold dpi_result, pkey; cbn [g_atts]. rewrite map_map. apply map_ext. intros a.
  unfold mapped_index at 1; cbn [a_ident a_map]. apply nth_map_lt. auto.
Qed.
Lemma dpi_result_tuple g im ups q : q < length ups ->
  point_tuple (g_atts (dpi_result g im ups)) q = point_tuple (g_atts g) (nth q ups 0).
Proof.
  intros Hq. unfold dpi_result, point_tuple; cbn [g_atts]. rewrite map_map. apply map_ext. intros a.
  unfold att_value. cbn [a_vals]. f_equal.
  unfold mapped_index at 1; cbn [a_ident a_map]. apply nth_map_lt. auto.
Qed.

Lemma remap_face_seq np f : face_ok np f = true -> remap_face (seq 0 np) f = f.
Proof.
  destruct f as [[a b] c]. intros H. apply face_ok_lt in H. destruct H as (A & B & C).
  unfold remap_face. rewrite !seq_nth by auto. auto.
Qed.

Lemma wf_geo_parts g : wf_geo g = true ->
  (forall a, In a (g_atts g) -> wf_attr (g_np g) a = true) /\ (forall f, In f (g_faces g) -> face_ok (g_np g) f = true).
Proof. unfold wf_geo. rewrite andb_true_iff, !forallb_forall. auto. Qed.

(** THEOREM dedup_points_preserves *)
Lemma dedup_points_preserves g : wf_geo g = true ->
  geom (dedup_point_ids g) = geom g /\
  exists im, length im = g_np g /\
    (forall p, p < g_np g -> nth p im invalid_index < g_np (dedup_point_ids g) /\
       point_tuple (g_atts (dedup_point_ids g)) (nth p im invalid_index) = point_tuple (g_atts g) p) /\
    (forall q, q < g_np (dedup_point_ids g) -> exists p, p < g_np g /\ nth p im invalid_index = q) /\
    g_faces (dedup_point_ids g) = map (remap_face im) (g_faces g).
Proof.
  intros Hwf. destruct (wf_geo_parts g Hwf) as [WA WF].
  destruct (dpi_cases g Hwf) as [[E _] | (im & ups & E & L & HP & HQ & ND)]; rewrite E.
  - split; auto. exists (seq 0 (g_np g)). rewrite seq_length. split; auto. split; [|split].
    + intros p Hp. rewrite seq_nth by auto. auto.
    + intros q Hq. exists q. rewrite seq_nth by auto. auto.
    + symmetry. rewrite <- (map_id (g_faces g)) at 2. apply map_ext_in. intros f Hf. apply remap_face_seq; auto.
  - assert (HT : forall p, p < g_np g ->
       point_tuple (g_atts (dpi_result g im ups)) (nth p im invalid_index) = point_tuple (g_atts g) p).
    { intros p Hp. destruct (HP p Hp) as [H1 H2]. rewrite dpi_result_tuple by auto. apply point_tuple_of_pkey; auto. }
    split.
    + unfold geom. cbn [g_faces dpi_result]. rewrite map_map. apply map_ext_in. intros [[a b] c] Hf.
      specialize (WF _ Hf). apply face_ok_lt in WF. destruct WF as (A & B & C).
      unfold remap_face, face_geom. rewrite !HT; auto.
    + exists im. split; auto. split; [|split]; auto.
      * intros p Hp. split; auto. cbn. apply HP; auto.
      * intros q Hq. cbn in Hq. destruct (HQ q Hq). eauto.
Qed.

(** THEOREM dedup_points_nodup: no two remaining points have the same tuple of value indices *)
Lemma dedup_points_nodup g : wf_geo g = true ->
  NoDup (keys (g_atts (dedup_point_ids g)) (seq 0 (g_np (dedup_point_ids g)))).
Proof.
  intros Hwf. destruct (dpi_cases g Hwf) as [[E N] | (im & ups & E & L & HP & HQ & ND)]; rewrite E; auto.
  replace (keys (g_atts (dpi_result g im ups)) (seq 0 (g_np (dpi_result g im ups)))) with (keys (g_atts g) ups); auto.
  symmetry. unfold keys at 1. cbn [g_np dpi_result]. apply map_seq_nth with (d := []).
  - unfold keys; rewrite map_length; auto.
  - intros q Hq. unfold keys. rewrite (nth_map_lt _ _ _ 0) by auto.
    fold (dpi_result g im ups). apply dpi_result_pkey; auto.
Qed.

Lemma dpi_wf g : wf_geo g = true -> wf_geo (dedup_point_ids g) = true.
Proof.
  intros Hwf. destruct (wf_geo_parts g Hwf) as [WA WF].
  destruct (dpi_cases g Hwf) as [[E _] | (im & ups & E & L & HP & HQ & ND)]; rewrite E; auto.
  unfold wf_geo, dpi_result. cbn [g_np g_atts g_faces]. apply andb_true_iff; split; apply forallb_forall.
  - intros a' Ha'. apply in_map_iff in Ha'. destruct Ha' as (a & <- & Ha).
    unfold wf_attr. cbn [a_ident a_map a_vals]. rewrite map_length, Nat.leb_refl. cbn [andb].
    apply forallb_forall. intros v Hv. apply in_map_iff in Hv. destruct Hv as (x & <- & Hx).
    apply Nat.ltb_lt. apply In_nth with (d := 0) in Hx. destruct Hx as (q & Hq & <-).
    eapply wf_attr_value_index; [apply WA; auto | apply HQ; auto].
  - intros f' Hf'. apply in_map_iff in Hf'. destruct Hf' as ([[a b] c] & <- & Hf).
    specialize (WF _ Hf). apply face_ok_lt in WF. destruct WF as (A & B & C).
    unfold remap_face, face_ok. rewrite !andb_true_iff, !Nat.ltb_lt.
    repeat split; apply HP; auto.
Qed.

(** THEOREM dedup_points_idempotent *)
Lemma dedup_points_idempotent g : wf_geo g = true ->
  dedup_point_ids (dedup_point_ids g) = dedup_point_ids g.
Proof.
  intros Hwf. pose proof (dedup_points_nodup g Hwf) as ND. pose proof (dpi_wf g Hwf) as Hwf'.
  set (g' := dedup_point_ids g) in *.
  unfold dedup_point_ids.
  destruct (dp_loop (g_atts g') (g_np g') 0 [] 0) as [[im ups] nu] eqn:E1.
  destruct (kdd [] (keys (g_atts g') (seq 0 (g_np g')))) as [s m] eqn:E2.
  destruct (dp_loop_spec (g_atts g') (g_np g') 0 [] im ups nu s m E1 E2) as (A & B & C).
  unfold kdd in E2. rewrite (dd_go_fix lneqb lneqb_eq [] _ ND) in E2. cbn [app] in E2. injection E2 as H0 H1.
  rewrite <- H0 in C. unfold keys in C. rewrite map_length, seq_length in C. subst nu.
  rewrite Nat.eqb_refl. auto.
Qed.

(* ------------------------------------------------------------------------------------------ builders *)
(** the tuple of value bytes the caller gave for point / corner [p] *)
Definition input_tuple (ins : list att_input) (p : nat) : list value := map (fun x => nth p (in_vals x) []) ins.
Definition inputs_ok (n : nat) (ins : list att_input) : Prop := forall x, In x ins -> n <= length (in_vals x).

Lemma input_point_tuple ins p : point_tuple (map input_attr ins) p = input_tuple ins p.
Proof. unfold point_tuple, input_tuple. rewrite map_map. apply map_ext. intros x. reflexivity. Qed.

Lemma soup_start_wf nf ins : inputs_ok (3 * nf) ins -> wf_geo (soup_start nf ins) = true.
Proof.
  intros H. unfold wf_geo, soup_start. cbn [g_np g_atts g_faces]. apply andb_true_iff; split; apply forallb_forall.
  - intros a Ha. apply in_map_iff in Ha. destruct Ha as (x & <- & Hx). unfold wf_attr, input_attr. cbn.
    apply Nat.leb_le. specialize (H x Hx). lia.
  - intros f Hf. unfold soup_faces in Hf. apply in_map_iff in Hf. destruct Hf as (k & <- & Hk). apply in_seq in Hk.
    unfold face_ok. rewrite !andb_true_iff, !Nat.ltb_lt. lia.
Qed.

Lemma soup_start_geom nf ins :
  geom (soup_start nf ins) =
  map (fun f => (input_tuple ins (3 * f), input_tuple ins (3 * f + 1), input_tuple ins (3 * f + 2))) (seq 0 nf).
Proof.
  unfold geom, soup_start, soup_faces. cbn [g_atts g_faces]. rewrite map_map. apply map_ext. intros f.
  unfold face_geom. rewrite !input_point_tuple. auto.
Qed.

(** THEOREM builder_preserves (TriangleSoupMeshBuilder): Finalize succeeds; face f, corner c of the result carries
    exactly the bytes given for (f, c) in every attribute, faces in the given order; the result is well formed and
    has no two points with the same tuple of value indices. *)
Lemma soup_build_preserves nf ins : inputs_ok (3 * nf) ins ->
  exists g, soup_build nf ins = Some g /\
    geom g = map (fun f => (input_tuple ins (3 * f), input_tuple ins (3 * f + 1), input_tuple ins (3 * f + 2))) (seq 0 nf) /\
    wf_geo g = true /\ NoDup (keys (g_atts g) (seq 0 (g_np g))).
Proof.
  intros H. pose proof (soup_start_wf nf ins H) as W0.
  destruct (dav_preserves _ W0) as (G1 & _ & OK). pose proof (dav_wf _ W0) as W1.
  unfold soup_build. destruct (dedup_attribute_values (soup_start nf ins)) as [g1 ok] eqn:E. cbn [fst snd] in *.
  subst ok. eexists; split; [reflexivity|]. split; [|split].
  - destruct (dedup_points_preserves g1 W1) as [G2 _]. rewrite G2, G1. apply soup_start_geom.
  - apply dpi_wf; auto.
  - apply dedup_points_nodup; auto.
Qed.

Lemma pc_start_wf np ins : inputs_ok np ins -> wf_geo (pc_start np ins) = true.
Proof.
  intros H. unfold wf_geo, pc_start. cbn [g_np g_atts g_faces forallb]. rewrite andb_true_r. apply forallb_forall.
  intros a Ha. apply in_map_iff in Ha. destruct Ha as (x & <- & Hx). unfold wf_attr, input_attr. cbn.
  apply Nat.leb_le. apply H; auto.
Qed.

(** THEOREM builder_preserves (PointCloudBuilder): without deduplication point i carries the given bytes; with
    deduplication there is a surjection [im] from the given points onto the result's points that preserves the
    bytes, and no two result points have the same tuple of value indices. *)
Lemma pc_build_preserves np ins : inputs_ok np ins ->
  pc_geom (pc_build np ins false) = map (input_tuple ins) (seq 0 np) /\
  (let g := pc_build np ins true in
   wf_geo g = true /\ NoDup (keys (g_atts g) (seq 0 (g_np g))) /\
   exists im, length im = np /\
     (forall p, p < np -> nth p im invalid_index < g_np g /\
                          point_tuple (g_atts g) (nth p im invalid_index) = input_tuple ins p) /\
     (forall q, q < g_np g -> exists p, p < np /\ nth p im invalid_index = q)).
Proof.
  intros H. pose proof (pc_start_wf np ins H) as W0. split.
  - unfold pc_build, pc_geom, pc_start. cbn [g_np g_atts]. apply map_ext. intros p. apply input_point_tuple.
  - cbn zeta. unfold pc_build. pose proof (dav_wf _ W0) as W1.
    set (g1 := fst (dedup_attribute_values (pc_start np ins))) in *.
    split; [apply dpi_wf; auto | split; [apply dedup_points_nodup; auto|]].
    destruct (dedup_points_preserves g1 W1) as (_ & im & L & HP & HQ & _).
    assert (N1 : g_np g1 = np) by (unfold g1; rewrite dav_np; auto).
    rewrite N1 in *. exists im. split; auto. split; auto.
    intros p Hp. destruct (HP p Hp) as [A B]. split; auto. rewrite B. unfold g1.
    rewrite dav_point_tuple; auto. apply input_point_tuple.
Qed.

(* ------------------------------------------------------------------------- what does NOT hold (D14) *)
(** KNOWN DEFECT D14 (reproduced on the library): outside the guard nothing is deduplicated although the call
    "succeeds": five-component values (and 64-bit types) keep their duplicates. *)
Definition d14_witness : attr := mkAttr 5 DT_UINT8 [[1;2;3;4;5]; [1;2;3;4;5]]%Z true [].
Definition d14_witness64 : attr := mkAttr 1 DT_INT64 [[7;0;0;0;0;0;0;0]; [7;0;0;0;0;0;0;0]]%Z true [].
Lemma dedup_values_gt4_refuted :
  exists a, a_ncomp a = 5%Z /\ dtype_dedup_supported (a_dtype a) = true /\ wf_attr 2 a = true /\
            dedup_values a = (a, (-1)%Z) /\ ~ NoDup (a_vals a).
Proof.
  exists d14_witness. repeat split; try reflexivity. intros H. inversion H as [|? ? H1 H2]. apply H1. left; reflexivity.
Qed.
Lemma dedup_values_64bit_refuted :
  exists a, a_ncomp a = 1%Z /\ a_dtype a = DT_INT64 /\ wf_attr 2 a = true /\
            dedup_values a = (a, (-1)%Z) /\ ~ NoDup (a_vals a).
Proof.
  exists d14_witness64. repeat split; try reflexivity. intros H. inversion H as [|? ? H1 H2]. apply H1. left; reflexivity.
Qed.
