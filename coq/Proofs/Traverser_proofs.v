(** Proofs about Model/Traverser.v (TRAVS, sub-check of C01): the attribute traversal is total on corner tables that
    satisfy the C13 invariants, and delivers the maps the mesh prediction schemes (Model/Predict.v) assume.

    Structure: [tt_ok] = the table invariants (shown to hold of the table [ct_create] returns, and implied by the
    executable [tt_okb] the driver evaluates on every real table); [InvV] / [InvF] = the state invariants of a running
    traversal (entries <-> visited vertices, visited faces have visited vertices, causality); [dfs_step_ok] /
    [mpd_step_ok] = one pass of the loop body; [dfs_loop_ok] / [mpd_loop_ok] = the loops terminate within the fuel
    (measure 4 * unvisited faces + stack sizes) and keep the invariants; then the sequencer and the consequences. *)
From Coq Require Import List Arith Bool PeanoNat ZArith Lia.
From Draco Require Import Model.CornerTable Proofs.CornerTable_proofs Model.Traverser.
Import ListNotations.


(* ------------------------------------------------------------------------------------------ *)

(** * Reading the table through [nth] *)
Definition Vx (t : ttable) (c : nat) : option nat := nth c (tt_c2v t) None.
Definition Ox (t : ttable) (c : nat) : option nat := nth c (tt_opp t) None.
Definition Lx (t : ttable) (v : nat) : option nat := nth v (tt_lmc t) None.
Definition ncor (t : ttable) : nat := length (tt_c2v t).

Record tt_ok (t : ttable) : Prop := {
  ok_len : length (tt_opp t) = length (tt_c2v t);
  ok_nf : length (tt_c2v t) = 3 * tt_num_faces t;
  ok_opp : forall a b, Ox t a = Some b ->
     b < ncor t /\ Ox t b = Some a /\ tt_deg t (a / 3) = false /\
     Vx t (next_c a) = Vx t (prev_c b) /\ Vx t (prev_c a) = Vx t (next_c b);
  ok_vtx : forall c v, Vx t c = Some v -> v < length (tt_lmc t);
  ok_fan : forall c v l, c < ncor t -> tt_deg t (c / 3) = false -> Vx t c = Some v ->
     Lx t v = Some l -> Ox t (next_c l) <> None -> Ox t (next_c c) <> None;
  ok_lmc : forall v l, Lx t v = Some l -> l < ncor t
}.

Lemma rd_nth {A} (l : list A) i d : i < length l -> rd l i = ROk (nth i l d).
Proof. intros H. unfold rd. rewrite (nth_error_nth' l d H). reflexivity. Qed.
Lemma rd_ok_inv {A} (l : list A) i a d : rd l i = ROk a -> i < length l /\ a = nth i l d.
Proof.
  unfold rd. destruct (nth_error l i) eqn:E; [|discriminate]. intros H; inversion H; subst.
  split. { apply nth_error_Some. congruence. } symmetry. apply nth_error_nth. auto.
Qed.
Lemma wr_ok {A} (l : list A) i x : i < length l -> wr l i x = ROk (upd l i x).
Proof. intros H. unfold wr. apply Nat.ltb_lt in H. rewrite H. reflexivity. Qed.

Lemma nth_some_lt {A} (l : list (option A)) i a : nth i l None = Some a -> i < length l.
Proof. intros H. destruct (lt_dec i (length l)); auto. rewrite nth_overflow in H by lia. discriminate. Qed.

Lemma Ox_lt t a b : tt_ok t -> Ox t a = Some b -> a < ncor t.
Proof. intros K H. apply nth_some_lt in H. rewrite (ok_len t K) in H. exact H. Qed.
Lemma Vx_lt t c v : Vx t c = Some v -> c < ncor t.
Proof. apply nth_some_lt. Qed.

Lemma next_lt_nc t c : tt_ok t -> c < ncor t -> next_c c < ncor t.
Proof. intros K H. unfold ncor in *. rewrite (ok_nf t K) in *. apply next_lt; auto. Qed.
Lemma prev_lt_nc t c : tt_ok t -> c < ncor t -> prev_c c < ncor t.
Proof. intros K H. unfold ncor in *. rewrite (ok_nf t K) in *. apply prev_lt; auto. Qed.
Lemma face_lt t c : tt_ok t -> c < ncor t -> c / 3 < tt_num_faces t.
Proof. intros K H. unfold ncor in *. rewrite (ok_nf t K) in H. apply Nat.div_lt_upper_bound; lia. Qed.

Lemma prev_prev c : prev_c (prev_c c) = next_c c.
Proof. rewrite <- (next_prev c) at 2. rewrite next_next. reflexivity. Qed.

(** a non-degenerate face: three valid, pairwise different vertices, seen from any of its corners *)
Lemma nondeg_corner_t t c : tt_deg t (c / 3) = false ->
  exists a b d, Vx t c = Some a /\ Vx t (next_c c) = Some b /\ Vx t (prev_c c) = Some d /\ a <> b /\ a <> d /\ b <> d.
Proof.
  unfold tt_deg. intros H.
  pose proof (corner_cases c) as CC. remember (c / 3) as f eqn:Ef. clear Ef.
  fold (Vx t (3 * f)) in H. fold (Vx t (3 * f + 1)) in H. fold (Vx t (3 * f + 2)) in H.
  destruct (Vx t (3 * f)) as [x|] eqn:E0; [|discriminate].
  destruct (Vx t (3 * f + 1)) as [y|] eqn:E1; [|discriminate].
  destruct (Vx t (3 * f + 2)) as [z|] eqn:E2; [|discriminate].
  apply orb_false_iff in H as [H H3]. apply orb_false_iff in H as [H1 H2].
  apply Nat.eqb_neq in H1, H2, H3.
  destruct CC as [-> | [-> | ->]].
  - rewrite next_0, prev_0, E0, E1, E2. exists x, y, z. repeat split; auto.
  - rewrite next_1, prev_1, E0, E1, E2. exists y, z, x. repeat split; auto.
  - rewrite next_2, prev_2, E0, E1, E2. exists z, x, y. repeat split; auto.
Qed.

Lemma same_face_cases a b : a / 3 = b / 3 -> b = a \/ b = next_c a \/ b = prev_c a.
Proof.
  intros H. pose proof (corner_cases a) as CA. pose proof (corner_cases b) as CB. rewrite <- H in CB.
  remember (a / 3) as f eqn:Ef. clear Ef H.
  destruct CA as [-> | [-> | ->]], CB as [-> | [-> | ->]];
  rewrite ?next_0, ?next_1, ?next_2, ?prev_0, ?prev_1, ?prev_2; auto.
Qed.

Lemma opp_other_face t a b : tt_ok t -> Ox t a = Some b -> a / 3 <> b / 3.
Proof.
  intros K H F. destruct (ok_opp t K a b H) as (_ & _ & D & E1 & E2).
  destruct (nondeg_corner_t t a D) as (x & y & z & Va & Vn & Vp & N1 & N2 & N3).
  destruct (same_face_cases a b F) as [-> | [-> | ->]].
  - rewrite Vn, Vp in E1. congruence.
  - rewrite prev_next, Va in E1. rewrite Vn in E1. congruence.
  - rewrite next_prev, Va in E2. rewrite Vp in E2. congruence.
Qed.


(* ------------------------------------------------------------------------------------------ *)

Lemma nth_error_upd_eq {A} (l : list A) i x : i < length l -> nth_error (upd l i x) i = Some x.
Proof. revert i; induction l; destruct i; simpl; intros; try lia; auto. apply IHl; lia. Qed.
Lemma nth_error_upd_neq {A} (l : list A) i j x : i <> j -> nth_error (upd l i x) j = nth_error l j.
Proof. revert i j; induction l; destruct i, j; simpl; intros; try lia; auto. Qed.
Lemma nth_error_snoc {A} (l : list A) x : nth_error (l ++ [x]) (length l) = Some x.
Proof. rewrite nth_error_app2 by lia. rewrite Nat.sub_diag. reflexivity. Qed.
Lemma nth_error_snoc_inv {A} (l : list A) x d y :
  nth_error (l ++ [x]) d = Some y -> (d < length l /\ nth_error l d = Some y) \/ (d = length l /\ y = x).
Proof.
  intros H. destruct (lt_dec d (length l)).
  - left. rewrite nth_error_app1 in H by auto. auto.
  - right. assert (d < length (l ++ [x])) by (apply nth_error_Some; congruence).
    rewrite app_length in H0; simpl in H0. assert (d = length l) by lia. subst.
    rewrite nth_error_snoc in H. inversion H; auto.
Qed.

Definition fv (s : tstate) f := nth f (ts_fvis s) false.
Definition vv (s : tstate) v := nth v (ts_vvis s) false.
Definition vis (s : tstate) (ov : option nat) : Prop := exists v, ov = Some v /\ vv s v = true.

Definition before (t : ttable) (d2c : list nat) (d x : nat) : Prop :=
  exists e ce v, e < d /\ nth_error d2c e = Some ce /\ Vx t ce = Some v /\ Vx t x = Some v.
Definition start_face (starts : list nat) (c : nat) : Prop := exists st, In st starts /\ st / 3 = c / 3.
Definition causal (t : ttable) (starts d2c : list nat) (d c : nat) : Prop :=
  start_face starts c \/
  exists o, Ox t c = Some o /\ before t d2c d o /\ before t d2c d (next_c o) /\ before t d2c d (prev_c o).

Lemma before_mono t d2c l d x : before t d2c d x -> before t (d2c ++ l) d x.
Proof.
  intros (e & ce & v & H1 & H2 & H3 & H4). exists e, ce, v. repeat split; auto.
  rewrite nth_error_app1; auto. apply nth_error_Some. congruence.
Qed.
Lemma causal_mono t starts d2c l d c : causal t starts d2c d c -> causal t starts (d2c ++ l) d c.
Proof.
  intros [H | (o & H1 & H2 & H3 & H4)]; [left; auto|]. right. exists o. repeat split; auto using before_mono.
Qed.

Section Inv.
Variables (t : ttable) (c2p : list nat) (starts : list nat) (v2d0 : list Z).
Hypothesis K : tt_ok t.
Hypothesis Hc2p : ncor t <= length c2p.

Record InvV (s : tstate) : Prop := {
  iv_vlen : length (ts_vvis s) = tt_num_vertices t;
  iv_dlen : tt_num_vertices t <= length (ts_v2d s);
  iv_dlen0 : length (ts_v2d s) = length v2d0;
  iv_num : ts_num s = length (ts_d2c s);
  iv_pts : ts_pts s = map (fun c => nth c c2p 0) (ts_d2c s);
  iv_vmap : forall v, vv s v = true ->
    exists d c, nth_error (ts_v2d s) v = Some (Z.of_nat d) /\ nth_error (ts_d2c s) d = Some c /\ Vx t c = Some v;
  iv_keep : forall v, vv s v = false -> nth_error (ts_v2d s) v = nth_error v2d0 v;
  iv_dmap : forall d c, nth_error (ts_d2c s) d = Some c ->
    c < ncor t /\ exists v, Vx t c = Some v /\ vv s v = true /\ nth_error (ts_v2d s) v = Some (Z.of_nat d);
  iv_causal : forall d c, nth_error (ts_d2c s) d = Some c -> causal t starts (ts_d2c s) d c
}.
Record InvF (s : tstate) : Prop := {
  if_len : length (ts_fvis s) = tt_num_faces t;
  if_face : forall c, c < ncor t -> fv s (c / 3) = true -> tt_deg t (c / 3) = false /\ vis s (Vx t c)
}.

(** the state after `MarkVertexVisited(v); OnNewVertexVisited(v, c)` *)
Definition nv_state (s : tstate) (v c : nat) : tstate :=
  mk_ts (ts_fvis s) (upd (ts_vvis s) v true) (ts_d2c s ++ [c])
        (upd (ts_v2d s) v (Z.of_nat (ts_num s))) (ts_pts s ++ [nth c c2p 0]) (S (ts_num s)).
(** the state after MarkFaceVisited(f) *)
Definition mf_state (s : tstate) (f : nat) : tstate :=
  mk_ts (upd (ts_fvis s) f true) (ts_vvis s) (ts_d2c s) (ts_v2d s) (ts_pts s) (ts_num s).

Lemma vv_nv s v c x : v < length (ts_vvis s) -> vv (nv_state s v c) x = if x =? v then true else vv s x.
Proof.
  intros H. unfold vv, nv_state; simpl. rewrite nth_upd. apply Nat.ltb_lt in H. rewrite H, andb_true_r. reflexivity.
Qed.

Lemma new_vertex_eq s v c : InvV s -> Vx t c = Some v ->
  new_vertex c2p s v c = ROk (nv_state s v c).
Proof.
  intros I Hv. pose proof (Vx_lt _ _ _ Hv) as Hc. pose proof (ok_vtx t K _ _ Hv) as Hvl.
  unfold new_vertex. rewrite wr_ok by (rewrite (iv_vlen s I); exact Hvl). simpl.
  rewrite (rd_nth c2p c 0) by lia. simpl.
  rewrite wr_ok by (pose proof (iv_dlen s I); unfold tt_num_vertices in *; lia). simpl. reflexivity.
Qed.

Lemma invV_new s v c : InvV s -> Vx t c = Some v -> vv s v = false ->
  causal t starts (ts_d2c s) (length (ts_d2c s)) c -> InvV (nv_state s v c).
Proof.
  intros I Hv Hnv Hca. pose proof (Vx_lt _ _ _ Hv) as Hc. pose proof (ok_vtx t K _ _ Hv) as Hvl.
  assert (Hvl' : v < length (ts_vvis s)) by (rewrite (iv_vlen s I); exact Hvl).
  assert (Hdl : v < length (ts_v2d s)) by (pose proof (iv_dlen s I); unfold tt_num_vertices in *; lia).
  constructor; simpl.
  - rewrite upd_length. apply (iv_vlen s I).
  - rewrite upd_length. apply (iv_dlen s I).
  - rewrite upd_length. apply (iv_dlen0 s I).
  - rewrite app_length; simpl. rewrite (iv_num s I). lia.
  - rewrite map_app; simpl. rewrite (iv_pts s I). reflexivity.
  - intros x Hx. rewrite vv_nv in Hx by auto. destruct (x =? v) eqn:E.
    + apply Nat.eqb_eq in E; subst x. exists (length (ts_d2c s)), c. rewrite (iv_num s I).
      split; [apply nth_error_upd_eq; auto|]. split; [apply nth_error_snoc|auto].
    + apply Nat.eqb_neq in E. destruct (iv_vmap s I x Hx) as (d & c' & H1 & H2 & H3). exists d, c'.
      split; [rewrite nth_error_upd_neq by auto; auto|]. split; auto.
      rewrite nth_error_app1; auto. apply nth_error_Some; congruence.
  - intros x Hx. rewrite vv_nv in Hx by auto. destruct (x =? v) eqn:E; [discriminate|]. apply Nat.eqb_neq in E.
    rewrite nth_error_upd_neq by auto. apply (iv_keep s I); auto.
  - intros d c' H. apply nth_error_snoc_inv in H as [[Hd H] | [Hd ->]].
    + destruct (iv_dmap s I d c' H) as (Hc' & x & H1 & H2 & H3). split; auto. exists x. split; auto.
      assert (x <> v) by congruence. split.
      * rewrite vv_nv by auto. destruct (x =? v) eqn:E; auto.
      * rewrite nth_error_upd_neq by auto. auto.
    + split; auto. exists v. split; auto. split.
      * rewrite vv_nv by auto. rewrite Nat.eqb_refl. reflexivity.
      * subst d. rewrite (iv_num s I). apply nth_error_upd_eq; auto.
  - intros d c' H. apply nth_error_snoc_inv in H as [[Hd H] | [Hd ->]].
    + apply causal_mono. apply (iv_causal s I); auto.
    + subst d. apply causal_mono. auto.
Qed.

Lemma invV_mf s f : InvV s -> InvV (mf_state s f).
Proof. intros I. destruct I. constructor; auto. Qed.

Lemma invF_nv s v c : v < length (ts_vvis s) -> InvF s -> InvF (nv_state s v c).
Proof.
  intros Hv I. constructor; simpl. { apply (if_len s I). }
  intros x Hx Hf. destruct (if_face s I x Hx Hf) as (D & y & H1 & H2). split; auto.
  exists y. split; auto. rewrite vv_nv by auto. destruct (y =? v); auto.
Qed.

Lemma fv_mf s f x : f < length (ts_fvis s) -> fv (mf_state s f) x = if x =? f then true else fv s x.
Proof.
  intros H. unfold fv, mf_state; simpl. rewrite nth_upd. apply Nat.ltb_lt in H. rewrite H, andb_true_r. reflexivity.
Qed.

(** marking the face of corner [c] once its three vertices are visited *)
Lemma invF_mf s c : InvF s -> c < ncor t -> tt_deg t (c / 3) = false ->
  vis s (Vx t c) -> vis s (Vx t (next_c c)) -> vis s (Vx t (prev_c c)) -> InvF (mf_state s (c / 3)).
Proof.
  intros I Hc D V0 V1 V2.
  assert (Hf : c / 3 < length (ts_fvis s)) by (rewrite (if_len s I); apply face_lt; auto).
  constructor. { unfold mf_state; cbn [ts_fvis]. rewrite upd_length. apply (if_len s I). }
  intros x Hx Hfx. rewrite fv_mf in Hfx by auto.
  change (tt_deg t (x / 3) = false /\ vis s (Vx t x)).
  destruct (x / 3 =? c / 3) eqn:E.
  - apply Nat.eqb_eq in E. rewrite E. split; auto.
    destruct (same_face_cases c x (eq_sym E)) as [-> | [-> | ->]]; auto.
  - apply (if_face s I); auto.
Qed.

(** extension of a state: nothing visited is forgotten *)
Definition ext (s s' : tstate) : Prop :=
  (forall f, fv s f = true -> fv s' f = true) /\ (forall v, vv s v = true -> vv s' v = true).
Lemma ext_refl s : ext s s. Proof. split; auto. Qed.
Lemma ext_trans a b c : ext a b -> ext b c -> ext a c.
Proof. intros [A1 A2] [B1 B2]. split; auto. Qed.
Lemma ext_nv s v c : v < length (ts_vvis s) -> ext s (nv_state s v c).
Proof. intros H. split; auto. intros x Hx. rewrite vv_nv by auto. destruct (x =? v); auto. Qed.
Lemma ext_mf s f : f < length (ts_fvis s) -> ext s (mf_state s f).
Proof. intros H. split; auto. intros x Hx. rewrite fv_mf by auto. destruct (x =? f); auto. Qed.
Lemma vis_ext s s' ov : ext s s' -> vis s ov -> vis s' ov.
Proof. intros [_ E] (v & H1 & H2). exists v; auto. Qed.

(** a corner waiting to be processed: its face is entered over an edge whose two vertices are visited, from a
    visited face (or it is a start corner) *)
Definition pend (s : tstate) (c : nat) : Prop :=
  c < ncor t /\ tt_deg t (c / 3) = false /\ vis s (Vx t (next_c c)) /\ vis s (Vx t (prev_c c)) /\
  (start_face starts c \/ exists o, Ox t c = Some o /\ fv s (o / 3) = true).
Lemma pend_ext s s' c : ext s s' -> pend s c -> pend s' c.
Proof.
  intros E (H1 & H2 & H3 & H4 & H5). repeat split; eauto using vis_ext.
  destruct H5 as [H5 | (o & Ho & Hf)]; auto. right. exists o. split; auto. apply E; auto.
Qed.

(** entries exist for the three vertices of a visited face *)
Lemma visited_before s x : InvV s -> vis s (Vx t x) -> before t (ts_d2c s) (length (ts_d2c s)) x.
Proof.
  intros I (v & Hv & Hvis). destruct (iv_vmap s I v Hvis) as (d & c & H1 & H2 & H3).
  exists d, c, v. repeat split; auto. apply nth_error_Some. congruence.
Qed.

Lemma pend_causal s c : InvV s -> InvF s -> pend s c -> causal t starts (ts_d2c s) (length (ts_d2c s)) c.
Proof.
  intros IV IF (Hc & D & V1 & V2 & [H | (o & Ho & Hf)]); [left; auto|]. right. exists o. split; auto.
  destruct (ok_opp t K c o Ho) as (Ho' & _).
  assert (A : forall x, x / 3 = o / 3 -> x < ncor t -> before t (ts_d2c s) (length (ts_d2c s)) x).
  { intros x E Hx. apply visited_before; auto. apply (if_face s IF x Hx). rewrite E. auto. }
  repeat split; apply A; auto using next_face, prev_face, next_lt_nc, prev_lt_nc.
Qed.

(** the corners the traversal moves on to from a visited face *)
Lemma pend_right s c c' : InvF s -> c < ncor t -> fv s (c / 3) = true -> Ox t (next_c c) = Some c' -> pend s c'.
Proof.
  intros IF Hc Hf Ho. destruct (ok_opp t K _ _ Ho) as (Hc' & Ho' & D & E1 & E2).
  destruct (ok_opp t K _ _ Ho') as (_ & _ & D' & _ & _).
  assert (A : forall x, x / 3 = c / 3 -> x < ncor t -> vis s (Vx t x)).
  { intros x E Hx. apply (if_face s IF x Hx). rewrite E. auto. }
  unfold pend. split; auto. split; auto.
  rewrite next_next in E1. rewrite prev_next in E2. rewrite <- E2, <- E1.
  split; [apply A; auto|]. split; [apply A; auto using prev_face, prev_lt_nc|].
  right. exists (next_c c). split; auto. rewrite next_face. auto.
Qed.
Lemma pend_left s c c' : InvF s -> c < ncor t -> fv s (c / 3) = true -> Ox t (prev_c c) = Some c' -> pend s c'.
Proof.
  intros IF Hc Hf Ho. destruct (ok_opp t K _ _ Ho) as (Hc' & Ho' & D & E1 & E2).
  destruct (ok_opp t K _ _ Ho') as (_ & _ & D' & _ & _).
  assert (A : forall x, x / 3 = c / 3 -> x < ncor t -> vis s (Vx t x)).
  { intros x E Hx. apply (if_face s IF x Hx). rewrite E. auto. }
  unfold pend. split; auto. split; auto.
  rewrite next_prev in E1. rewrite prev_prev in E2. rewrite <- E2, <- E1.
  split; [apply A; auto using next_face, next_lt_nc|]. split; [apply A; auto|].
  right. exists (prev_c c). split; auto. rewrite prev_face. auto.
Qed.

End Inv.


(* ------------------------------------------------------------------------------------------ *)

Definition U (s : tstate) : nat := length (ts_fvis s) - cnt (ts_fvis s).

Section Dfs.
Variables (t : ttable) (c2p : list nat) (starts : list nat) (v2d0 : list Z).
Hypothesis K : tt_ok t.
Hypothesis Hc2p : ncor t <= length c2p.
Notation InvV := (InvV t c2p starts v2d0).
Notation InvF := (InvF t).
Notation pend := (pend t starts).
Notation nv_state := (nv_state c2p).

Lemma U_mf s f : f < length (ts_fvis s) -> fv s f = false -> U (mf_state s f) + 1 = U s.
Proof.
  intros H F. unfold U, mf_state; cbn [ts_fvis]. rewrite upd_length, cnt_upd by auto.
  unfold fv in F. rewrite F. pose proof (cnt_le (ts_fvis s)).
  assert (cnt (ts_fvis s) < length (ts_fvis s)).
  { pose proof (cnt_le (upd (ts_fvis s) f true)). rewrite upd_length, cnt_upd in H1 by auto. rewrite F in H1. lia. }
  lia.
Qed.
Lemma U_le s : InvF s -> U s <= tt_num_faces t.
Proof. intros I. unfold U. rewrite (if_len t s I). lia. Qed.

Lemma t_opposite_eq x : x < ncor t -> t_opposite t x = ROk (Ox t x).
Proof. intros H. unfold t_opposite. apply rd_nth. rewrite (ok_len t K). exact H. Qed.
Lemma t_vertex_eq x : x < ncor t -> t_vertex t x = ROk (Vx t x).
Proof. intros H. unfold t_vertex. apply rd_nth. exact H. Qed.

Definition fvo (s : tstate) (o : option nat) : bool := match o with None => true | Some r => fv s (r / 3) end.
Lemma face_visited_eq s o : InvF s -> (forall r, o = Some r -> r < ncor t) -> face_visited s o = ROk (fvo s o).
Proof.
  intros I H. destruct o as [r|]; cbn [face_visited fvo]; auto. apply rd_nth. rewrite (if_len t s I). apply face_lt; auto.
Qed.

Lemma on_boundary_ok v : v < length (tt_lmc t) ->
  exists b, t_on_boundary t v = ROk b /\ (b = false -> exists l, Lx t v = Some l /\ Ox t (next_c l) <> None).
Proof.
  intros H. unfold t_on_boundary. rewrite (rd_nth _ _ None H). cbn [rbind]. fold (Lx t v).
  destruct (Lx t v) as [l|] eqn:E.
  - rewrite t_opposite_eq by (apply next_lt_nc; auto; apply (ok_lmc t K v l E)). cbn [rbind].
    destruct (Ox t (next_c l)) eqn:F.
    + exists false. split; auto. intros _. exists l. split; auto. congruence.
    + exists true. split; auto. discriminate.
  - exists true. split; auto. discriminate.
Qed.

(** the state and decision one pass of the loop body produces, under the invariants *)
Lemma dfs_step_ok s c : InvV s -> InvF s -> pend s c -> fv s (c / 3) = false ->
  exists s2 nx, dfs_step t c2p s c = ROk (s2, nx) /\ InvV s2 /\ InvF s2 /\ ext s s2 /\
    fv s2 (c / 3) = true /\ U s2 + 1 = U s /\
    match nx with
    | DCont c' => pend s2 c' /\ fv s2 (c' / 3) = false
    | DPop => True
    | DSplit r l => pend s2 r /\ pend s2 l
    end.
Proof.
  intros IV IF P F. pose proof P as (Hc & D & V1 & V2 & Hen).
  destruct (nondeg_corner_t t c D) as (v & vn & vp & Ev & Evn & Evp & _).
  assert (Hf : c / 3 < length (ts_fvis s)) by (rewrite (if_len t s IF); apply face_lt; auto).
  pose proof (ok_vtx t K _ _ Ev) as Hvl.
  assert (Hvl' : v < length (ts_vvis s)) by (rewrite (iv_vlen _ _ _ _ s IV); exact Hvl).
  set (s1 := mf_state s (c / 3)).
  assert (IV1 : InvV s1) by (apply invV_mf; auto).
  (* the state after the vertex part *)
  set (s2 := if vv s v then s1 else nv_state s1 v c).
  assert (IV2 : InvV s2).
  { unfold s2. destruct (vv s v) eqn:Evv; auto. apply invV_new; auto.
    change (causal t starts (ts_d2c s) (length (ts_d2c s)) c). eapply pend_causal; eauto. }
  assert (E2 : ext s s2).
  { unfold s2. destruct (vv s v); [apply ext_mf; auto|].
    eapply ext_trans; [apply ext_mf; eauto|]. apply ext_nv. exact Hvl'. }
  assert (IF2 : InvF s2).
  { unfold s2. destruct (vv s v) eqn:Evv.
    - apply invF_mf; auto. exists v; auto.
    - change (InvF (mf_state (nv_state s v c) (c / 3))).
      assert (EE : ext s (nv_state s v c)) by (apply ext_nv; auto).
      apply invF_mf; auto using invF_nv; eauto using vis_ext.
      exists v. split; auto. rewrite vv_nv by auto. rewrite Nat.eqb_refl. reflexivity. }
  assert (F2 : fv s2 (c / 3) = true).
  { unfold s2. destruct (vv s v); [|change (fv s1 (c / 3) = true)]; unfold s1; rewrite fv_mf by auto; rewrite Nat.eqb_refl; auto. }
  assert (FO : forall f, f <> c / 3 -> fv s2 f = fv s f).
  { intros f Hne. unfold s2. destruct (vv s v); [|change (fv s1 f = fv s f)]; unfold s1; rewrite fv_mf by auto;
    destruct (f =? c / 3) eqn:E; auto; apply Nat.eqb_eq in E; congruence. }
  assert (U2 : U s2 + 1 = U s).
  { unfold s2. destruct (vv s v); [|change (U s1 + 1 = U s)]; apply U_mf; auto. }
  (* the reads of the navigation part *)
  pose proof (next_lt_nc t c K Hc) as Hn. pose proof (prev_lt_nc t c K Hc) as Hp.
  assert (Rr : forall r, Ox t (next_c c) = Some r -> r < ncor t) by (intros r H; apply (ok_opp t K _ _ H)).
  assert (Rl : forall r, Ox t (prev_c c) = Some r -> r < ncor t) by (intros r H; apply (ok_opp t K _ _ H)).
  (* the tail of the body, after the vertex part produced (s2, None) *)
  assert (TAIL : exists nx,
     (rc <- t_right t c ;; lc <- t_left t c ;; rv <- face_visited s2 rc ;; lv <- face_visited s2 lc ;;
      if rv then if lv then ROk (s2, DPop) else match lc with Some c' => ROk (s2, DCont c') | None => RErr end
      else if lv then match rc with Some c' => ROk (s2, DCont c') | None => RErr end
           else match lc, rc with Some l, Some r' => ROk (s2, DSplit r' l) | _, _ => RErr end) = ROk (s2, nx) /\
     match nx with
     | DCont c' => pend s2 c' /\ fv s2 (c' / 3) = false
     | DPop => True
     | DSplit r l => pend s2 r /\ pend s2 l
     end).
  { unfold t_right, t_left. rewrite !t_opposite_eq by auto. cbn [rbind].
    rewrite (face_visited_eq s2 (Ox t (next_c c))) by auto. cbn [rbind].
    rewrite (face_visited_eq s2 (Ox t (prev_c c))) by auto. cbn [rbind].
    destruct (Ox t (next_c c)) as [r|] eqn:Er, (Ox t (prev_c c)) as [l|] eqn:El; cbn [fvo].
    - destruct (fv s2 (r / 3)) eqn:Fr, (fv s2 (l / 3)) eqn:Fl.
      + exists DPop; split; [reflexivity | exact I].
      + exists (DCont l). split; [reflexivity|]. split; auto. eapply (pend_left t starts K s2 c); eauto.
      + exists (DCont r). split; [reflexivity|]. split; auto. eapply (pend_right t starts K s2 c); eauto.
      + exists (DSplit r l). split; [reflexivity|]. split; [eapply (pend_right t starts K s2 c)|eapply (pend_left t starts K s2 c)]; eauto.
    - destruct (fv s2 (r / 3)) eqn:Fr.
      + exists DPop; split; [reflexivity | exact I].
      + exists (DCont r). split; [reflexivity|]. split; auto. eapply (pend_right t starts K s2 c); eauto.
    - destruct (fv s2 (l / 3)) eqn:Fl.
      + exists DPop; split; [reflexivity | exact I].
      + exists (DCont l). split; [reflexivity|]. split; auto. eapply (pend_left t starts K s2 c); eauto.
    - exists DPop; split; [reflexivity | exact I]. }
  unfold dfs_step.
  unfold mark_face. rewrite wr_ok by auto. cbn [rbind]. fold (mf_state s (c / 3)). fold s1.
  unfold vertex_or_false. rewrite t_vertex_eq by auto. cbn [rbind]. rewrite Ev. cbn [rbind].
  rewrite (rd_nth (ts_vvis s1) v false) by exact Hvl'. cbn [rbind]. change (nth v (ts_vvis s1) false) with (vv s v).
  destruct (vv s v) eqn:Evv.
  - (* vertex already visited *)
    cbn [rbind]. destruct TAIL as (nx & T1 & T2). exists s2, nx. split; [exact T1|]. split; [exact IV2|]. split; [exact IF2|]. split; [exact E2|]. split; [exact F2|]. split; [exact U2|exact T2].
  - destruct (on_boundary_ok v Hvl) as (b & Hb & Hb'). rewrite Hb. cbn [rbind].
    rewrite (new_vertex_eq t c2p starts v2d0 K Hc2p s1 v c IV1 Ev). cbn [rbind].
    destruct b.
    + cbn [rbind]. destruct TAIL as (nx & T1 & T2). exists s2, nx. split; [exact T1|]. split; [exact IV2|]. split; [exact IF2|]. split; [exact E2|]. split; [exact F2|]. split; [exact U2|exact T2].
    + (* interior vertex met for the first time: the right face exists and is unvisited *)
      destruct (Hb' eq_refl) as (l & Hl & Hol).
      pose proof (ok_fan t K c v l Hc D Ev Hl Hol) as Hr.
      unfold t_right. rewrite t_opposite_eq by auto. cbn [rbind].
      destruct (Ox t (next_c c)) as [c'|] eqn:Er; [|congruence]. cbn [rbind].
      exists s2, (DCont c').
      split; [reflexivity|]. split; [exact IV2|]. split; [exact IF2|]. split; [exact E2|]. split; [exact F2|]. split; [exact U2|].
      split.
      * eapply (pend_right t starts K s2 c); eauto.
      * destruct (ok_opp t K _ _ Er) as (Hc' & Ho' & _ & Q1 & Q2).
        pose proof (opp_other_face t _ _ K Er) as Hof. rewrite next_face in Hof.
        rewrite FO by auto. destruct (fv s (c' / 3)) eqn:Fc'; auto. exfalso.
        destruct (if_face t s IF (next_c c') (next_lt_nc t c' K Hc')) as (_ & x & Hx & Hvx).
        { rewrite next_face. auto. }
        rewrite prev_next in Q2. rewrite <- Q2, Ev in Hx. inversion Hx; subst x. congruence.
Qed.

Definition phi (s : tstate) (stack : list nat) (cur : option nat) : nat :=
  4 * U s + 2 * length stack + match cur with None => 1 | Some _ => 0 end.

Definition cur_ok (s : tstate) (stack : list nat) (cur : option nat) : Prop :=
  match cur with
  | None => True
  | Some c => pend s c /\ fv s (c / 3) = false /\
              exists c0 rest, stack = c0 :: rest /\ (c0 = c \/ fv s (c0 / 3) = true)
  end.

Lemma dfs_loop_ok : forall fuel s stack cur,
  InvV s -> InvF s -> Forall (pend s) stack -> cur_ok s stack cur -> phi s stack cur <= fuel ->
  exists s', dfs_loop fuel t c2p s stack cur = ROk s' /\ InvV s' /\ InvF s' /\ ext s s' /\
    (forall x, In x stack -> fv s' (x / 3) = true) /\ (forall c, cur = Some c -> fv s' (c / 3) = true).
Proof.
  induction fuel as [|k IH]; intros s stack cur IV IF PS CO PH.
  - exfalso. unfold phi in PH. destruct cur as [c|]; [|lia].
    destruct CO as (_ & _ & c0 & rest & -> & _). simpl in PH. lia.
  - destruct cur as [c|].
    + (* inside while (true) *)
      destruct CO as (P & F & c0 & rest & -> & HC0).
      destruct (dfs_step_ok s c IV IF P F) as (s2 & nx & ST & IV2 & IF2 & E2 & F2 & U2 & NX).
      cbn [dfs_loop]. rewrite ST. cbn [rbind].
      assert (PS2 : Forall (pend s2) (c0 :: rest)) by (eapply Forall_impl; [|exact PS]; intros; eapply pend_ext; eauto).
      assert (FC0 : fv s2 (c0 / 3) = true) by (destruct HC0 as [-> | H]; auto; apply E2; auto).
      unfold phi in PH. cbn [length] in PH.
      destruct nx as [c' | | r l].
      * destruct NX as (P' & F').
        destruct (IH s2 (c0 :: rest) (Some c')) as (s' & R & IV' & IF' & E' & A & B); auto.
        { unfold cur_ok. split; [exact P'|]. split; [exact F'|]. exists c0, rest. split; auto. }
        { unfold phi. cbn [length]. lia. }
        exists s'. split; [exact R|]. split; [exact IV'|]. split; [exact IF'|].
        split; [eapply ext_trans; eauto|]. split; [exact A|].
        intros x Hx. inversion Hx; subst. apply E'. exact F2.
      * inversion PS2; subst. cbn [tl].
        destruct (IH s2 rest None) as (s' & R & IV' & IF' & E' & A & B); auto.
        { unfold phi. lia. }
        exists s'. split; [exact R|]. split; [exact IV'|]. split; [exact IF'|].
        split; [eapply ext_trans; eauto|]. split.
        -- intros x [<- | Hx]; [apply E'; exact FC0 | apply A; auto].
        -- intros x Hx. inversion Hx; subst. apply E'. exact F2.
      * destruct NX as (Pr & Pl). inversion PS2; subst. cbn [tl].
        destruct (IH s2 (r :: l :: rest) None) as (s' & R & IV' & IF' & E' & A & B); auto.
        { repeat constructor; auto. }
        { unfold phi. cbn [length]. lia. }
        exists s'. split; [exact R|]. split; [exact IV'|]. split; [exact IF'|].
        split; [eapply ext_trans; eauto|]. split.
        -- intros x [<- | Hx]; [apply E'; exact FC0 | apply A; simpl; auto].
        -- intros x Hx. inversion Hx; subst. apply E'. exact F2.
    + (* head of the outer loop *)
      destruct stack as [|c rest].
      * exists s. split; [reflexivity|]. split; [exact IV|]. split; [exact IF|]. split; [apply ext_refl|].
        split; [intros x []|discriminate].
      * inversion PS as [|? ? P PR]; subst.
        cbn [dfs_loop]. rewrite (face_visited_eq s (Some c)) by (auto; intros r Hr; inversion Hr; subst; apply P).
        cbn [rbind fvo]. unfold phi in PH. cbn [length] in PH.
        destruct (fv s (c / 3)) eqn:F.
        -- destruct (IH s rest None) as (s' & R & IV' & IF' & E' & A & B); auto.
           { unfold phi. lia. }
           exists s'. split; [exact R|]. split; [exact IV'|]. split; [exact IF'|]. split; [exact E'|].
           split; [|discriminate]. intros x [<- | Hx]; [apply E'; exact F | apply A; auto].
        -- destruct (IH s (c :: rest) (Some c)) as (s' & R & IV' & IF' & E' & A & B); auto.
           { unfold cur_ok. split; [exact P|]. split; [exact F|]. exists c, rest. split; auto. }
           { unfold phi. cbn [length]. lia. }
           exists s'. split; [exact R|]. split; [exact IV'|]. split; [exact IF'|]. split; [exact E'|].
           split; [exact A|discriminate].
Qed.

End Dfs.


(* ------------------------------------------------------------------------------------------ *)

Lemma nth_repeat {A} (x : A) n i : nth i (repeat x n) x = x.
Proof. revert i; induction n; destruct i; simpl; auto. Qed.

Section DfsRun.
Variables (t : ttable) (c2p : list nat) (starts : list nat) (v2d0 : list Z).
Hypothesis K : tt_ok t.
Hypothesis Hc2p : ncor t <= length c2p.
Notation InvV := (InvV t c2p starts v2d0).
Notation InvF := (InvF t).
Notation pend := (pend t starts).

(** `if (!IsVertexVisited(v)) { MarkVertexVisited(v); OnNewVertexVisited(v, c); }` for a vertex of a start face *)
Lemma visit_vertex_ok s v c : InvV s -> InvF s -> Vx t c = Some v -> start_face starts c ->
  exists s', visit_vertex c2p s v c = ROk s' /\ InvV s' /\ InvF s' /\ ext s s' /\ vv s' v = true /\
             ts_fvis s' = ts_fvis s.
Proof.
  intros IV IF Ev SF. pose proof (ok_vtx t K _ _ Ev) as Hvl.
  assert (Hvl' : v < length (ts_vvis s)) by (rewrite (iv_vlen _ _ _ _ s IV); exact Hvl).
  unfold visit_vertex. rewrite (rd_nth _ _ false Hvl'). cbn [rbind]. change (nth v (ts_vvis s) false) with (vv s v).
  destruct (vv s v) eqn:E.
  - exists s. split; [reflexivity|]. split; [exact IV|]. split; [exact IF|]. split; [apply ext_refl|]. split; [exact E|reflexivity].
  - rewrite (new_vertex_eq t c2p starts v2d0 K Hc2p s v c IV Ev). exists (nv_state c2p s v c).
    split; [reflexivity|]. split; [apply invV_new; auto; left; auto|]. split; [apply invF_nv; auto|].
    split; [apply ext_nv; auto|]. split; [|reflexivity]. rewrite vv_nv by auto. rewrite Nat.eqb_refl. reflexivity.
Qed.

Lemma dfs_traverse_from_ok s c : InvV s -> InvF s -> c < ncor t -> tt_deg t (c / 3) = false -> In c starts ->
  exists s', dfs_traverse_from t c2p s c = ROk s' /\ InvV s' /\ InvF s' /\ ext s s' /\ fv s' (c / 3) = true.
Proof.
  intros IV IF Hc D HIn. unfold dfs_traverse_from.
  rewrite (face_visited_eq t K s (Some c)) by (auto; intros r Hr; inversion Hr; subst; auto). cbn [rbind fvo].
  destruct (fv s (c / 3)) eqn:F.
  { exists s. split; [reflexivity|]. split; [exact IV|]. split; [exact IF|]. split; [apply ext_refl|exact F]. }
  destruct (nondeg_corner_t t c D) as (v & vn & vp & Ev & Evn & Evp & _).
  rewrite !(t_vertex_eq t) by auto using next_lt_nc, prev_lt_nc. cbn [rbind]. rewrite Evn, Evp.
  assert (SFn : start_face starts (next_c c)) by (exists c; split; auto; rewrite next_face; auto).
  assert (SFp : start_face starts (prev_c c)) by (exists c; split; auto; rewrite prev_face; auto).
  destruct (visit_vertex_ok s vn (next_c c) IV IF Evn SFn) as (s1 & R1 & IV1 & IF1 & E1 & V1 & FV1).
  rewrite R1. cbn [rbind].
  destruct (visit_vertex_ok s1 vp (prev_c c) IV1 IF1 Evp SFp) as (s2 & R2 & IV2 & IF2 & E2 & V2 & FV2).
  rewrite R2. cbn [rbind].
  assert (P : pend s2 c).
  { split; auto. split; auto. split; [exists vn; split; auto; apply E2; auto|]. split; [exists vp; auto|].
    left. exists c. auto. }
  destruct (dfs_loop_ok t c2p starts v2d0 K Hc2p (dfs_fuel t) s2 [c] None IV2 IF2) as (s' & R & IV' & IF' & E' & A & _).
  { constructor; auto. }
  { exact I. }
  { unfold phi, dfs_fuel. cbn [length]. pose proof (U_le t c2p Hc2p s2 IF2). lia. }
  exists s'. split; [exact R|]. split; [exact IV'|]. split; [exact IF'|].
  split; [eapply ext_trans; [eapply ext_trans|]; eauto|]. apply A. left; auto.
Qed.

Lemma dfs_run_ok : forall cs s, InvV s -> InvF s ->
  (forall c, In c cs -> c < ncor t /\ tt_deg t (c / 3) = false /\ In c starts) ->
  exists s', dfs_run t c2p s cs = ROk s' /\ InvV s' /\ InvF s' /\ ext s s' /\
             forall c, In c cs -> fv s' (c / 3) = true.
Proof.
  induction cs as [|c cs IH]; intros s IV IF H.
  - exists s. split; [reflexivity|]. split; [exact IV|]. split; [exact IF|]. split; [apply ext_refl|]. intros c [].
  - destruct (H c (or_introl eq_refl)) as (Hc & D & HIn).
    destruct (dfs_traverse_from_ok s c IV IF Hc D HIn) as (s1 & R1 & IV1 & IF1 & E1 & F1).
    destruct (IH s1 IV1 IF1) as (s' & R & IV' & IF' & E' & A). { intros x Hx. apply H. right; auto. }
    exists s'. cbn [dfs_run]. rewrite R1. cbn [rbind]. split; [exact R|]. split; [exact IV'|]. split; [exact IF'|].
    split; [eapply ext_trans; eauto|]. intros x [<- | Hx]; [apply E'; auto|apply A; auto].
Qed.

Lemma init_invV : tt_num_vertices t <= length v2d0 -> InvV (init_state t v2d0).
Proof.
  intros H. constructor; cbn [init_state ts_vvis ts_v2d ts_num ts_d2c ts_pts]; auto.
  - apply repeat_length.
  - intros v Hv. unfold vv in Hv. cbn [init_state ts_vvis] in Hv. rewrite nth_repeat in Hv. discriminate.
  - intros d c Hd. destruct d; discriminate.
  - intros d c Hd. destruct d; discriminate.
Qed.
Lemma init_invF : InvF (init_state t v2d0).
Proof.
  constructor; cbn [init_state ts_fvis]. { apply repeat_length. }
  intros c Hc F. unfold fv in F. cbn [init_state ts_fvis] in F. rewrite nth_repeat in F. discriminate.
Qed.

End DfsRun.

(** DepthFirst sequencer: total, and the final state satisfies the invariants; every start face is visited *)
Theorem dfs_sequence_ok t c2p v2d0 order :
  tt_ok t -> ncor t <= length c2p -> tt_num_vertices t <= length v2d0 ->
  (forall c, In c (seq_corners t order) -> c < ncor t /\ tt_deg t (c / 3) = false) ->
  exists s, dfs_sequence t c2p v2d0 order = ROk s /\
            InvV t c2p (seq_corners t order) v2d0 s /\ InvF t s /\
            forall c, In c (seq_corners t order) -> fv s (c / 3) = true.
Proof.
  intros K Hc Hv H. unfold dfs_sequence.
  destruct (dfs_run_ok t c2p (seq_corners t order) v2d0 K Hc (seq_corners t order) (init_state t v2d0))
    as (s & R & IV & IF & _ & A).
  - apply init_invV; auto.
  - apply init_invF.
  - intros c Hin. destruct (H c Hin). auto.
  - exists s. auto.
Qed.


(* ------------------------------------------------------------------------------------------ *)

Definition stacks (m : mstate) : list nat := ms_s0 m ++ ms_s1 m ++ ms_s2 m.
Definition best_ok (m : mstate) : Prop :=
  match ms_best m with
  | 0 => True
  | 1 => ms_s0 m = []
  | 2 => ms_s0 m = [] /\ ms_s1 m = []
  | _ => False
  end.

Lemma mpd_pop_none m m' : best_ok m -> mpd_pop m = (None, m') -> m' = m /\ stacks m = [].
Proof.
  unfold best_ok, mpd_pop, stacks. destruct m as [ts s0 s1 s2 best deg]; cbn [ms_best ms_s0 ms_s1 ms_s2 ms_ts ms_deg].
  destruct best as [|[|[|b]]]; intros B H.
  - destruct s0; [|discriminate]. destruct s1; [|discriminate]. destruct s2; [|discriminate]. inversion H; auto.
  - subst s0. destruct s1; [|discriminate]. destruct s2; [|discriminate]. inversion H; auto.
  - destruct B; subst. destruct s2; [|discriminate]. inversion H; auto.
  - contradiction.
Qed.
Lemma mpd_pop_some m c m' : best_ok m -> mpd_pop m = (Some c, m') ->
  ms_ts m' = ms_ts m /\ ms_deg m' = ms_deg m /\ best_ok m' /\
  exists l1 l2, stacks m = l1 ++ c :: l2 /\ stacks m' = l1 ++ l2.
Proof.
  unfold best_ok, mpd_pop, stacks. destruct m as [ts s0 s1 s2 best deg]; cbn [ms_best ms_s0 ms_s1 ms_s2 ms_ts ms_deg].
  destruct best as [|[|[|b]]]; intros B H.
  - destruct s0 as [|x s0].
    + destruct s1 as [|x s1].
      * destruct s2 as [|x s2]; [discriminate|]. inversion H; subst. cbn. repeat split; auto. exists [], s2; auto.
      * inversion H; subst. cbn. repeat split; auto. exists [], (s1 ++ s2); auto.
    + inversion H; subst. cbn. repeat split; auto. exists [], (s0 ++ s1 ++ s2); auto.
  - subst s0. destruct s1 as [|x s1].
    + destruct s2 as [|x s2]; [discriminate|]. inversion H; subst. cbn. repeat split; auto. exists [], s2; auto.
    + inversion H; subst. cbn. repeat split; auto. exists [], (s1 ++ s2); auto.
  - destruct B; subst. destruct s2 as [|x s2]; [discriminate|]. inversion H; subst. cbn. repeat split; auto. exists [], s2; auto.
  - contradiction.
Qed.

Lemma mpd_add_spec m c p : p <= 2 -> best_ok m ->
  ms_ts (mpd_add m c p) = ms_ts m /\ ms_deg (mpd_add m c p) = ms_deg m /\ best_ok (mpd_add m c p) /\
  exists l1 l2, stacks m = l1 ++ l2 /\ stacks (mpd_add m c p) = l1 ++ c :: l2.
Proof.
  unfold best_ok, mpd_add, stacks. destruct m as [ts s0 s1 s2 best deg]; cbn [ms_best ms_s0 ms_s1 ms_s2 ms_ts ms_deg].
  intros Hp B. destruct p as [|[|[|p]]]; try lia; cbn [ms_best ms_s0 ms_s1 ms_s2 ms_ts ms_deg].
  - split; [reflexivity|]. split; [reflexivity|]. split. { destruct best; cbn; auto. }
    exists [], (s0 ++ s1 ++ s2); split; reflexivity.
  - split; [reflexivity|]. split; [reflexivity|]. split.
    { destruct best as [|[|[|b]]]; cbn in *; intuition. }
    exists s0, (s1 ++ s2); split; reflexivity.
  - split; [reflexivity|]. split; [reflexivity|]. split.
    { destruct best as [|[|[|b]]]; cbn in *; intuition. }
    exists (s0 ++ s1), s2. rewrite <- !app_assoc. split; reflexivity.
Qed.

Section Mpd.
Variables (t : ttable) (c2p : list nat) (starts : list nat) (v2d0 : list Z).
Hypothesis K : tt_ok t.
Hypothesis Hc2p : ncor t <= length c2p.
Notation InvV := (InvV t c2p starts v2d0).
Notation InvF := (InvF t).
Notation pend := (pend t starts).

Record Minv (m : mstate) : Prop := {
  mi_v : InvV (ms_ts m);
  mi_f : InvF (ms_ts m);
  mi_p : Forall (pend (ms_ts m)) (stacks m);
  mi_d : length (ms_deg m) = tt_num_vertices t;
  mi_b : best_ok m
}.

Lemma mpd_priority_ok m c v : Minv m -> c < ncor t -> Vx t c = Some v ->
  exists p m', mpd_priority t m c = ROk (p, m') /\ p <= 2 /\ ms_ts m' = ms_ts m /\ ms_s0 m' = ms_s0 m /\
    ms_s1 m' = ms_s1 m /\ ms_s2 m' = ms_s2 m /\ ms_best m' = ms_best m /\ length (ms_deg m') = length (ms_deg m).
Proof.
  intros M Hc Ev. pose proof (ok_vtx t K _ _ Ev) as Hvl.
  unfold mpd_priority. rewrite t_vertex_eq by auto. cbn [rbind]. rewrite Ev.
  rewrite (rd_nth _ _ false) by (rewrite (iv_vlen _ _ _ _ _ (mi_v m M)); exact Hvl). cbn [rbind].
  destruct (nth v (ts_vvis (ms_ts m)) false).
  - exists 0, m. repeat split; auto.
  - rewrite (rd_nth _ _ 0) by (rewrite (mi_d m M); exact Hvl). cbn [rbind].
    rewrite wr_ok by (rewrite (mi_d m M); exact Hvl). cbn [rbind].
    eexists _, _. split; [reflexivity|]. cbn [ms_ts ms_s0 ms_s1 ms_s2 ms_best ms_deg].
    split; [destruct (1 <? S (nth v (ms_deg m) 0)); lia|]. repeat split; auto. apply upd_length.
Qed.

Lemma Minv_same m m' : Minv m -> ms_ts m' = ms_ts m -> ms_s0 m' = ms_s0 m -> ms_s1 m' = ms_s1 m -> ms_s2 m' = ms_s2 m ->
  ms_best m' = ms_best m -> length (ms_deg m') = length (ms_deg m) -> Minv m'.
Proof.
  intros M E0 E1 E2 E3 E4 E5. destruct M. constructor; unfold stacks, best_ok in *; rewrite ?E0, ?E1, ?E2, ?E3, ?E4, ?E5; auto.
Qed.

Lemma Minv_add m c p : Minv m -> p <= 2 -> pend (ms_ts m) c -> Minv (mpd_add m c p).
Proof.
  intros M Hp P. destruct (mpd_add_spec m c p Hp (mi_b m M)) as (E1 & E2 & B & l1 & l2 & S1 & S2).
  constructor; rewrite ?E1, ?E2; auto; try apply M.
  rewrite S2. pose proof (mi_p m M) as F. rewrite S1 in F. apply Forall_app in F as [F1 F2].
  apply Forall_app. split; auto.
Qed.

Definition ssize (m : mstate) : nat := length (stacks m).

(** one pass of the loop body *)
Lemma mpd_step_ok m c : Minv m -> pend (ms_ts m) c -> fv (ms_ts m) (c / 3) = false ->
  exists m2 nx, mpd_step t c2p m c = ROk (m2, nx) /\ Minv m2 /\ ext (ms_ts m) (ms_ts m2) /\
    fv (ms_ts m2) (c / 3) = true /\ U (ms_ts m2) + 1 = U (ms_ts m) /\
    (forall x, In x (stacks m) -> In x (stacks m2)) /\
    match nx with
    | Some c' => pend (ms_ts m2) c' /\ fv (ms_ts m2) (c' / 3) = false /\ ssize m2 <= ssize m + 1
    | None => ssize m2 <= ssize m + 2
    end.
Proof.
  intros M P F. pose proof (mi_v m M) as IV. pose proof (mi_f m M) as IF.
  set (s := ms_ts m) in *. pose proof P as (Hc & D & V1 & V2 & Hen).
  destruct (nondeg_corner_t t c D) as (v & vn & vp & Ev & Evn & Evp & _).
  assert (Hf : c / 3 < length (ts_fvis s)) by (rewrite (if_len t s IF); apply face_lt; auto).
  pose proof (ok_vtx t K _ _ Ev) as Hvl.
  assert (Hvl' : v < length (ts_vvis s)) by (rewrite (iv_vlen _ _ _ _ s IV); exact Hvl).
  set (s1 := mf_state s (c / 3)).
  assert (IV1 : InvV s1) by (apply invV_mf; auto).
  set (s2 := if vv s v then s1 else nv_state c2p s1 v c).
  assert (IV2 : InvV s2).
  { unfold s2. destruct (vv s v) eqn:Evv; auto. apply invV_new; auto.
    change (causal t starts (ts_d2c s) (length (ts_d2c s)) c). eapply pend_causal; eauto. }
  assert (E2 : ext s s2).
  { unfold s2. destruct (vv s v); [apply ext_mf; auto|].
    eapply ext_trans; [apply ext_mf; eauto|]. apply ext_nv. exact Hvl'. }
  assert (IF2 : InvF s2).
  { unfold s2. destruct (vv s v) eqn:Evv.
    - apply invF_mf; auto. exists v; auto.
    - change (InvF (mf_state (nv_state c2p s v c) (c / 3))).
      assert (EE : ext s (nv_state c2p s v c)) by (apply ext_nv; auto).
      apply invF_mf; auto using invF_nv; eauto using vis_ext.
      exists v. split; auto. rewrite vv_nv by auto. rewrite Nat.eqb_refl. reflexivity. }
  assert (F2 : fv s2 (c / 3) = true).
  { unfold s2. destruct (vv s v); [|change (fv s1 (c / 3) = true)]; unfold s1; rewrite fv_mf by auto; rewrite Nat.eqb_refl; auto. }
  assert (U2 : U s2 + 1 = U s).
  { unfold s2. destruct (vv s v); [|change (U s1 + 1 = U s)]; apply (U_mf t c2p Hc2p); auto. }
  pose proof (next_lt_nc t c K Hc) as Hn. pose proof (prev_lt_nc t c K Hc) as Hp.
  assert (Rr : forall r, Ox t (next_c c) = Some r -> r < ncor t) by (intros r H; apply (ok_opp t K _ _ H)).
  assert (Rl : forall r, Ox t (prev_c c) = Some r -> r < ncor t) by (intros r H; apply (ok_opp t K _ _ H)).
  set (m2 := ms_set_ts m s2).
  assert (M2 : Minv m2).
  { constructor; unfold m2, ms_set_ts, stacks, best_ok; cbn [ms_ts ms_s0 ms_s1 ms_s2 ms_best ms_deg]; auto; try apply M.
    eapply Forall_impl; [|apply (mi_p m M)]. intros x Hx. eapply pend_ext; eauto. }
  assert (VIS : mpd_visit t c2p s1 c = ROk s2).
  { unfold mpd_visit. rewrite t_vertex_eq by auto. cbn [rbind]. rewrite Ev. unfold visit_vertex.
    rewrite (rd_nth (ts_vvis s1) v false) by exact Hvl'. cbn [rbind]. change (nth v (ts_vvis s1) false) with (vv s v).
    unfold s2. destruct (vv s v); auto. apply (new_vertex_eq t c2p starts v2d0 K Hc2p s1 v c IV1 Ev). }
  unfold mpd_step. fold s.
  unfold mark_face. rewrite wr_ok by auto. cbn [rbind]. fold (mf_state s (c / 3)). fold s1.
  rewrite VIS. cbn [rbind]. fold m2.
  unfold t_right, t_left. rewrite !(t_opposite_eq t K) by auto. cbn [rbind].
  rewrite (face_visited_eq t K s2 (Ox t (next_c c))) by auto. cbn [rbind].
  rewrite (face_visited_eq t K s2 (Ox t (prev_c c))) by auto. cbn [rbind].
  (* the right-hand branch, from any state m3 that extends m2 only in stacks / degrees *)
  assert (RIGHT : forall m3, Minv m3 -> ms_ts m3 = s2 -> forall r, Ox t (next_c c) = Some r -> fv s2 (r / 3) = false ->
     exists m4 nx,
       (pm <- mpd_priority t m3 r ;; let '(p, m4) := pm in
        if p <=? ms_best m4 then ROk (m4, Some r) else ROk (mpd_add m4 r p, None)) = ROk (m4, nx) /\
       Minv m4 /\ ms_ts m4 = s2 /\ (forall x, In x (stacks m3) -> In x (stacks m4)) /\
       match nx with Some c' => pend s2 c' /\ fv s2 (c' / 3) = false /\ ssize m4 = ssize m3 | None => ssize m4 = ssize m3 + 1 end).
  { intros m3 M3 T3 r Er Fr.
    assert (Pr : pend s2 r) by (eapply (pend_right t starts K s2 c); eauto).
    destruct Pr as (Hr & Dr & _). destruct (nondeg_corner_t t r Dr) as (vr & _ & _ & Evr & _).
    destruct (mpd_priority_ok m3 r vr M3 Hr Evr) as (p & m4 & R & Hp2 & A0 & A1 & A2 & A3 & A4 & A5).
    rewrite R. cbn [rbind].
    assert (M4 : Minv m4) by (eapply Minv_same; eauto).
    assert (S4 : stacks m4 = stacks m3) by (unfold stacks; rewrite A1, A2, A3; auto).
    assert (Pr : pend (ms_ts m4) r) by (rewrite A0, T3; eapply (pend_right t starts K s2 c); eauto).
    destruct (p <=? ms_best m4).
    - exists m4, (Some r). split; [reflexivity|]. split; auto. split; [congruence|]. split; [rewrite S4; auto|].
      split; [rewrite <- T3, <- A0; auto|]. split; auto. unfold ssize. rewrite S4. auto.
    - destruct (mpd_add_spec m4 r p Hp2 (mi_b m4 M4)) as (B1 & B2 & B3 & l1 & l2 & S1 & S2).
      exists (mpd_add m4 r p), None. split; [reflexivity|]. split; [apply Minv_add; auto|]. split; [congruence|].
      split. { intros x Hx. rewrite S2. rewrite <- S4, S1 in Hx. apply in_app_iff in Hx. apply in_app_iff. simpl. tauto. }
      unfold ssize. rewrite S2, <- S4, S1. rewrite !app_length. simpl. lia. }
  destruct (Ox t (prev_c c)) as [l|] eqn:El; cbn [fvo].
  - destruct (fv s2 (l / 3)) eqn:Fl.
    + (* left visited *)
      cbn [rbind]. destruct (Ox t (next_c c)) as [r|] eqn:Er; cbn [fvo].
      * destruct (fv s2 (r / 3)) eqn:Fr.
        -- exists m2, None. split; [reflexivity|]. split; auto. split; auto. split; auto. split; auto. split; auto.
           unfold ssize, m2, ms_set_ts, stacks; cbn [ms_s0 ms_s1 ms_s2]. lia.
        -- destruct (RIGHT m2 M2 eq_refl r eq_refl Fr) as (m4 & nx & R & M4 & T4 & I4 & N4). rewrite R.
           exists m4, nx. split; [reflexivity|]. split; auto. rewrite T4. split; auto. split; auto. split; auto.
           split; [intros x Hx; apply I4; exact Hx|].
           assert (ssize m2 = ssize m) by reflexivity.
           destruct nx; [destruct N4 as (? & ? & ?); split; [assumption|]; split; [assumption|]; lia | lia].
      * exists m2, None. split; [reflexivity|]. split; auto. split; auto. split; auto. split; auto. split; auto.
        unfold ssize, m2, ms_set_ts, stacks; cbn [ms_s0 ms_s1 ms_s2]. lia.
    + (* left unvisited *)
      assert (Pl : pend s2 l) by (eapply (pend_left t starts K s2 c); eauto).
      pose proof Pl as (Hl & Dl & _). destruct (nondeg_corner_t t l Dl) as (vl & _ & _ & Evl & _).
      destruct (mpd_priority_ok m2 l vl M2 Hl Evl) as (p & m3 & R & Hp2 & A0 & A1 & A2 & A3 & A4 & A5).
      rewrite R. cbn [rbind].
      assert (M3 : Minv m3) by (eapply Minv_same; eauto).
      assert (S3 : stacks m3 = stacks m2) by (unfold stacks; rewrite A1, A2, A3; auto).
      assert (T3 : ms_ts m3 = s2) by (rewrite A0; reflexivity).
      assert (SZ : ssize m2 = ssize m) by reflexivity.
      destruct (fvo s2 (Ox t (next_c c))) eqn:Frv.
      * (* right visited *)
        cbn [andb]. destruct (p <=? ms_best m3).
        -- cbn [rbind]. exists m3, (Some l). split; [reflexivity|]. split; auto. rewrite T3. split; auto. split; auto. split; auto.
           split; [rewrite S3; auto|]. split; auto. split; auto. unfold ssize in *. rewrite S3. lia.
        -- cbn [rbind]. destruct (mpd_add_spec m3 l p Hp2 (mi_b m3 M3)) as (B1 & B2 & B3 & l1 & l2 & S1 & S2).
           exists (mpd_add m3 l p), None. split; [reflexivity|]. split; [apply Minv_add; auto; rewrite T3; auto|].
           rewrite B1, T3. split; auto. split; auto. split; auto.
           split. { intros x Hx. rewrite S2. change (stacks m) with (stacks m2) in Hx. rewrite <- S3, S1 in Hx.
                    apply in_app_iff in Hx. apply in_app_iff. simpl. tauto. }
           unfold ssize in *. rewrite S2. rewrite <- SZ, <- S3, S1. rewrite !app_length. simpl. lia.
      * (* right unvisited: the left corner is pushed, then the right-hand branch *)
        cbn [andb rbind].
        destruct (Ox t (next_c c)) as [r|] eqn:Er; [|discriminate]. cbn [fvo] in Frv.
        destruct (mpd_add_spec m3 l p Hp2 (mi_b m3 M3)) as (B1 & B2 & B3 & l1 & l2 & S1 & S2).
        assert (M3' : Minv (mpd_add m3 l p)) by (apply Minv_add; auto; rewrite T3; auto).
        destruct (RIGHT (mpd_add m3 l p) M3' (eq_trans B1 T3) r eq_refl Frv) as (m4 & nx & R4 & M4 & T4 & I4 & N4).
        rewrite R4. exists m4, nx. split; [reflexivity|]. split; auto. rewrite T4. split; auto. split; auto. split; auto.
        assert (SZ3 : ssize (mpd_add m3 l p) = ssize m + 1).
        { unfold ssize in *. rewrite S2. rewrite <- SZ, <- S3, S1. rewrite !app_length. simpl. lia. }
        split. { intros x Hx. apply I4. rewrite S2. change (stacks m) with (stacks m2) in Hx. rewrite <- S3, S1 in Hx.
                 apply in_app_iff in Hx. apply in_app_iff. simpl. tauto. }
        destruct nx; [destruct N4 as (? & ? & ?); split; [assumption|]; split; [assumption|]; lia | lia].
  - (* no left corner *)
    cbn [rbind]. destruct (Ox t (next_c c)) as [r|] eqn:Er; cbn [fvo].
    + destruct (fv s2 (r / 3)) eqn:Fr.
      * exists m2, None. split; [reflexivity|]. split; auto. split; auto. split; auto. split; auto. split; auto.
        unfold ssize, m2, ms_set_ts, stacks; cbn [ms_s0 ms_s1 ms_s2]. lia.
      * destruct (RIGHT m2 M2 eq_refl r eq_refl Fr) as (m4 & nx & R & M4 & T4 & I4 & N4). rewrite R.
        exists m4, nx. split; [reflexivity|]. split; auto. rewrite T4. split; auto. split; auto. split; auto.
        split; [intros x Hx; apply I4; exact Hx|].
        assert (ssize m2 = ssize m) by reflexivity.
        destruct nx; [destruct N4 as (? & ? & ?); split; [assumption|]; split; [assumption|]; lia | lia].
    + exists m2, None. split; [reflexivity|]. split; auto. split; auto. split; auto. split; auto. split; auto.
      unfold ssize, m2, ms_set_ts, stacks; cbn [ms_s0 ms_s1 ms_s2]. lia.
Qed.

End Mpd.


(* ------------------------------------------------------------------------------------------ *)

Section MpdRun.
Variables (t : ttable) (c2p : list nat) (starts : list nat) (v2d0 : list Z).
Hypothesis K : tt_ok t.
Hypothesis Hc2p : ncor t <= length c2p.
Notation InvV := (InvV t c2p starts v2d0).
Notation InvF := (InvF t).
Notation pend := (pend t starts).
Notation Minv := (Minv t c2p starts v2d0).

Definition phim (m : mstate) (cur : option nat) : nat :=
  4 * U (ms_ts m) + ssize m + match cur with None => 1 | Some _ => 0 end.
Definition cur_okm (m : mstate) (cur : option nat) : Prop :=
  match cur with None => True | Some c => pend (ms_ts m) c /\ fv (ms_ts m) (c / 3) = false end.

Lemma U_pos s f : f < length (ts_fvis s) -> fv s f = false -> 1 <= U s.
Proof. intros H F. pose proof (U_mf t c2p Hc2p s f H F). lia. Qed.

Lemma mpd_loop_ok : forall fuel m cur, Minv m -> cur_okm m cur -> phim m cur <= fuel ->
  exists m', mpd_loop fuel t c2p m cur = ROk m' /\ Minv m' /\ ext (ms_ts m) (ms_ts m') /\ stacks m' = [] /\
    (forall x, In x (stacks m) -> fv (ms_ts m') (x / 3) = true) /\
    (forall c, cur = Some c -> fv (ms_ts m') (c / 3) = true).
Proof.
  induction fuel as [|k IH]; intros m cur M CO PH.
  - exfalso. unfold phim in PH. destruct cur as [c|]; [|lia]. destruct CO as (P & F).
    assert (1 <= U (ms_ts m)); [|lia]. apply (U_pos _ (c / 3)); auto.
    rewrite (if_len t _ (mi_f _ _ _ _ m M)). apply face_lt; auto. apply P.
  - destruct cur as [c|].
    + destruct CO as (P & F).
      destruct (mpd_step_ok t c2p starts v2d0 K Hc2p m c M P F) as (m2 & nx & ST & M2 & E2 & F2 & U2 & I2 & NX).
      cbn [mpd_loop]. rewrite ST. cbn [rbind fst snd]. unfold phim in PH.
      destruct (IH m2 nx M2) as (m' & R & M' & E' & S' & A & B).
      { destruct nx; [|exact I]. destruct NX as (? & ? & ?). split; auto. }
      { unfold phim. destruct nx; [destruct NX as (? & ? & ?)|]; lia. }
      exists m'. split; [exact R|]. split; [exact M'|]. split; [eapply ext_trans; eauto|]. split; [exact S'|].
      split; [intros x Hx; apply A; apply I2; exact Hx|]. intros x Hx. inversion Hx; subst. apply E'. exact F2.
    + cbn [mpd_loop]. destruct (mpd_pop m) as [[c|] m1] eqn:EP.
      * destruct (mpd_pop_some m c m1 (mi_b _ _ _ _ m M) EP) as (T1 & D1 & B1 & l1 & l2 & S1 & S2).
        pose proof (mi_p _ _ _ _ m M) as FP. rewrite S1 in FP. apply Forall_app in FP as [FP1 FP2].
        inversion FP2 as [|? ? Pc FP3]; subst.
        assert (M1 : Minv m1).
        { constructor; rewrite ?T1, ?D1; auto; try apply M. rewrite S2. apply Forall_app; auto. }
        assert (SZ : ssize m = S (ssize m1)).
        { unfold ssize. rewrite S1, S2, !app_length. simpl. lia. }
        rewrite (face_visited_eq t K (ms_ts m1) (Some c) (mi_f _ _ _ _ m1 M1)) by (intros r Hr; inversion Hr; subst; apply Pc).
        cbn [rbind fvo]. unfold phim in PH.
        destruct (fv (ms_ts m1) (c / 3)) eqn:F.
        -- destruct (IH m1 None M1 I) as (m' & R & M' & E' & S' & A & B). { unfold phim. rewrite T1. lia. }
           exists m'. split; [exact R|]. split; [exact M'|]. split; [rewrite <- T1; exact E'|]. split; [exact S'|].
           split; [|discriminate]. intros x Hx. rewrite S1 in Hx. apply in_app_iff in Hx. destruct Hx as [Hx | [<- | Hx]].
           ++ apply A. rewrite S2. apply in_app_iff; auto.
           ++ apply E'. exact F.
           ++ apply A. rewrite S2. apply in_app_iff; auto.
        -- destruct (IH m1 (Some c) M1) as (m' & R & M' & E' & S' & A & B).
           { split; [rewrite T1; exact Pc | exact F]. } { unfold phim. rewrite T1. lia. }
           exists m'. split; [exact R|]. split; [exact M'|]. split; [rewrite <- T1; exact E'|]. split; [exact S'|].
           split; [|discriminate]. intros x Hx. rewrite S1 in Hx. apply in_app_iff in Hx. destruct Hx as [Hx | [<- | Hx]].
           ++ apply A. rewrite S2. apply in_app_iff; auto.
           ++ apply B. reflexivity.
           ++ apply A. rewrite S2. apply in_app_iff; auto.
      * destruct (mpd_pop_none m m1 (mi_b _ _ _ _ m M) EP) as (-> & S0).
        exists m. split; [reflexivity|]. split; [exact M|]. split; [apply ext_refl|]. split; [exact S0|].
        split; [rewrite S0; intros x []|discriminate].
Qed.

Lemma mpd_visit_ok s c : InvV s -> InvF s -> c < ncor t -> tt_deg t (c / 3) = false -> start_face starts c ->
  exists s' v, mpd_visit t c2p s c = ROk s' /\ Vx t c = Some v /\ InvV s' /\ InvF s' /\ ext s s' /\ vv s' v = true /\
               ts_fvis s' = ts_fvis s.
Proof.
  intros IV IF Hc D SF. destruct (nondeg_corner_t t c D) as (v & _ & _ & Ev & _).
  unfold mpd_visit. rewrite t_vertex_eq by auto. cbn [rbind]. rewrite Ev.
  destruct (visit_vertex_ok t c2p starts v2d0 K Hc2p s v c IV IF Ev SF) as (s' & R & ? & ? & ? & ? & ?).
  exists s', v. auto 10.
Qed.

Lemma mpd_traverse_from_ok m c : Minv m -> c < ncor t -> tt_deg t (c / 3) = false -> In c starts ->
  exists m', mpd_traverse_from t c2p m c = ROk m' /\ Minv m' /\ ext (ms_ts m) (ms_ts m') /\
             fv (ms_ts m') (c / 3) = true /\ stacks m' = [].
Proof.
  intros M Hc D HIn. unfold mpd_traverse_from.
  destruct (nondeg_corner_t t c D) as (v & vn & vp & Ev & Evn & Evp & _).
  destruct (ms_deg m) as [|d0 dr] eqn:ED.
  { exfalso. pose proof (mi_d _ _ _ _ m M) as L. rewrite ED in L. pose proof (ok_vtx t K _ _ Ev). unfold tt_num_vertices in L. simpl in L. lia. }
  rewrite <- ED. cbn [ms_ts].
  assert (SF : forall x, x / 3 = c / 3 -> start_face starts x) by (intros x E; exists c; auto).
  pose proof (next_lt_nc t c K Hc) as Hn. pose proof (prev_lt_nc t c K Hc) as Hp.
  destruct (mpd_visit_ok (ms_ts m) (next_c c) (mi_v _ _ _ _ m M) (mi_f _ _ _ _ m M) Hn) as (s1 & v1 & R1 & Q1 & IV1 & IF1 & E1 & W1 & G1).
  { rewrite next_face; auto. } { apply SF, next_face. }
  rewrite R1. cbn [rbind].
  destruct (mpd_visit_ok s1 (prev_c c) IV1 IF1 Hp) as (s2 & v2 & R2 & Q2 & IV2 & IF2 & E2 & W2 & G2).
  { rewrite prev_face; auto. } { apply SF, prev_face. }
  rewrite R2. cbn [rbind].
  destruct (mpd_visit_ok s2 c IV2 IF2 Hc D (SF c eq_refl)) as (s3 & v3 & R3 & Q3 & IV3 & IF3 & E3 & W3 & G3).
  rewrite R3. cbn [rbind].
  assert (E03 : ext (ms_ts m) s3) by (eapply ext_trans; [eapply ext_trans|]; eauto).
  set (m2 := ms_set_ts _ s3).
  assert (M2 : Minv m2).
  { constructor; unfold m2, ms_set_ts, best_ok, stacks; cbn [ms_ts ms_s0 ms_s1 ms_s2 ms_best ms_deg]; auto; [|apply M].
    change ((c :: ms_s0 m) ++ ms_s1 m ++ ms_s2 m) with (c :: stacks m). constructor.
    - split; auto. split; auto. split; [exists v1; split; auto; apply E3, E2; auto|]. split; [exists v2; split; auto; apply E3; auto|].
      left. apply SF; auto.
    - eapply Forall_impl; [|apply (mi_p _ _ _ _ m M)]. intros x Hx. eapply pend_ext; eauto. }
  destruct (mpd_loop_ok (mpd_fuel t m2) m2 None M2 I) as (m' & R & M' & E' & S' & A & _).
  { unfold phim, mpd_fuel, ssize, stacks. rewrite !app_length. pose proof (U_le t c2p Hc2p (ms_ts m2) (mi_f _ _ _ _ m2 M2)). lia. }
  exists m'. split; [exact R|]. split; [exact M'|]. split; [eapply ext_trans; eauto|]. split; [|exact S'].
  apply A. unfold m2, ms_set_ts, stacks; cbn [ms_s0]. left; auto.
Qed.

Lemma mpd_run_ok : forall cs m, Minv m ->
  (forall c, In c cs -> c < ncor t /\ tt_deg t (c / 3) = false /\ In c starts) ->
  exists m', mpd_run t c2p m cs = ROk m' /\ Minv m' /\ ext (ms_ts m) (ms_ts m') /\
             forall c, In c cs -> fv (ms_ts m') (c / 3) = true.
Proof.
  induction cs as [|c cs IH]; intros m M H.
  - exists m. split; [reflexivity|]. split; [exact M|]. split; [apply ext_refl|]. intros c [].
  - destruct (H c (or_introl eq_refl)) as (Hc & D & HIn).
    destruct (mpd_traverse_from_ok m c M Hc D HIn) as (m1 & R1 & M1 & E1 & F1 & _).
    destruct (IH m1 M1) as (m' & R & M' & E' & A). { intros x Hx. apply H. right; auto. }
    exists m'. cbn [mpd_run]. rewrite R1. cbn [rbind]. split; [exact R|]. split; [exact M'|].
    split; [eapply ext_trans; eauto|]. intros x [<- | Hx]; [apply E'; auto|apply A; auto].
Qed.

End MpdRun.

Theorem mpd_sequence_ok t c2p v2d0 order :
  tt_ok t -> ncor t <= length c2p -> tt_num_vertices t <= length v2d0 ->
  (forall c, In c (seq_corners t order) -> c < ncor t /\ tt_deg t (c / 3) = false) ->
  exists s, mpd_sequence t c2p v2d0 order = ROk s /\
            InvV t c2p (seq_corners t order) v2d0 s /\ InvF t s /\
            forall c, In c (seq_corners t order) -> fv s (c / 3) = true.
Proof.
  intros K Hc Hv H. unfold mpd_sequence.
  destruct (mpd_run_ok t c2p (seq_corners t order) v2d0 K Hc (seq_corners t order)
              (mk_ms (init_state t v2d0) [] [] [] 0 (repeat 0 (tt_num_vertices t)))) as (m & R & M & _ & A).
  - constructor; cbn [ms_ts ms_deg]; auto using init_invV, init_invF, repeat_length. constructor. exact I.
  - intros c Hin. destruct (H c Hin). auto.
  - rewrite R. cbn [rbind]. exists (ms_ts m). split; auto. split; [apply M|]. split; [apply M|]. exact A.
Qed.


(* ------------------------------------------------------------------------------------------ *)

(** * The executable check implies the invariants *)
Lemma ovtx_eqb_eq a b : ovtx_eqb a b = true -> a = b.
Proof. destruct a, b; simpl; intros H; try discriminate; auto. apply Nat.eqb_eq in H. congruence. Qed.

Theorem tt_okb_sound t : tt_okb t = true -> tt_ok t.
Proof.
  unfold tt_okb. intros H.
  apply andb_true_iff in H as [H H4]. apply andb_true_iff in H as [H H3]. apply andb_true_iff in H as [H1 H2].
  apply Nat.eqb_eq in H1, H2. rewrite forallb_forall in H3, H4.
  assert (NF : length (tt_c2v t) = 3 * tt_num_faces t).
  { unfold tt_num_faces. pose proof (Nat.div_mod (length (tt_c2v t)) 3). lia. }
  assert (C : forall c, c < ncor t -> tt_ok_corner t c = true) by (intros c Hc; apply H3, in_seq; unfold ncor in Hc; lia).
  constructor; auto.
  - intros a b Hab. assert (Ha : a < ncor t) by (apply nth_some_lt in Hab; unfold ncor; lia).
    pose proof (C a Ha) as Q. unfold tt_ok_corner in Q. apply andb_true_iff in Q as [Q _].
    unfold Ox in Hab. rewrite Hab in Q.
    apply andb_true_iff in Q as [Q Q5]. apply andb_true_iff in Q as [Q Q4]. apply andb_true_iff in Q as [Q Q3].
    apply andb_true_iff in Q as [Q1 Q2]. apply Nat.ltb_lt in Q1. apply negb_true_iff in Q2.
    split; [exact Q1|]. split.
    { unfold Ox. destruct (nth b (tt_opp t) None); [|discriminate]. apply Nat.eqb_eq in Q3. congruence. }
    split; [exact Q2|]. split; apply ovtx_eqb_eq; auto.
  - intros c v Hv. pose proof (C c (Vx_lt _ _ _ Hv)) as Q. unfold tt_ok_corner in Q. apply andb_true_iff in Q as [_ Q].
    unfold Vx in Hv. rewrite Hv in Q. apply andb_true_iff in Q as [Q _]. apply Nat.ltb_lt in Q. exact Q.
  - intros c v l Hc D Hv Hl Hol. pose proof (C c Hc) as Q. unfold tt_ok_corner in Q. apply andb_true_iff in Q as [_ Q].
    unfold Vx in Hv. rewrite Hv in Q. apply andb_true_iff in Q as [_ Q]. rewrite D in Q. cbn [orb] in Q.
    unfold Lx in Hl. rewrite Hl in Q. unfold Ox in *.
    destruct (nth (next_c l) (tt_opp t) None); [|congruence].
    destruct (nth (next_c c) (tt_opp t) None); [discriminate|discriminate].
  - intros v l Hl. assert (In (Some l) (tt_lmc t)).
    { unfold Lx in Hl. rewrite <- Hl. apply nth_In. apply nth_some_lt in Hl. exact Hl. }
    apply H4 in H. apply Nat.ltb_lt in H. exact H.
Qed.

(** * The table CornerTable::Create returns satisfies them (from the C13 theorems) *)
Lemma Vx_of_ct ct c : c < length (ct_c2v ct) -> Vx (tt_of_ct ct) c = Some (vtx (ct_c2v ct) c).
Proof.
  intros H. unfold Vx, tt_of_ct, vtx; cbn [tt_c2v].
  rewrite (nth_indep _ None (Some 0)) by (rewrite map_length; exact H). rewrite (map_nth Some). reflexivity.
Qed.

Lemma tt_deg_of_ct ct f : 3 * f + 2 < length (ct_c2v ct) -> tt_deg (tt_of_ct ct) f = is_degenerated (ct_c2v ct) f.
Proof.
  intros H. unfold tt_deg. fold (Vx (tt_of_ct ct) (3 * f)). fold (Vx (tt_of_ct ct) (3 * f + 1)). fold (Vx (tt_of_ct ct) (3 * f + 2)).
  rewrite !Vx_of_ct by lia. reflexivity.
Qed.

Section Create.
Variables (faces : list (nat * nat * nat)) (ct : ctable).
Hypothesis HC : ct_create faces = Some ct.
Let c2v0 := c2v_of_faces faces.

Lemma ct_len : length (ct_c2v ct) = 3 * length faces.
Proof.
  destruct (ct_create_vc_inv _ _ HC) as (s & I & E & _). rewrite E, (vi_len_c _ _ _ I). apply c2v_of_faces_length.
Qed.
Lemma ct_deg_same f : is_degenerated (ct_c2v ct) f = is_degenerated c2v0 f.
Proof.
  destruct (ct_create_vc_inv _ _ HC) as (s & I & E & _). rewrite E.
  eapply vc_deg_same; [apply c2v_of_faces_length | apply num_vertices_of_spec | exact I].
Qed.

(** [tt_deg] of the built table is CornerTable::IsDegenerated of the input face *)
Theorem ct_tt_deg f : f < length faces -> tt_deg (tt_of_ct ct) f = is_degenerated c2v0 f.
Proof. intros H. rewrite tt_deg_of_ct by (rewrite ct_len; lia). apply ct_deg_same. Qed.

Theorem ct_create_tt_ok : tt_ok (tt_of_ct ct).
Proof.
  pose proof ct_len as L. pose proof (ct_create_opp_ok _ _ HC) as [OL OK].
  destruct (single_fan _ _ HC) as [SF1 SF2].
  assert (NC : ncor (tt_of_ct ct) = 3 * length faces) by (unfold ncor, tt_of_ct; cbn [tt_c2v]; rewrite map_length; exact L).
  assert (NF : tt_num_faces (tt_of_ct ct) = length faces).
  { unfold tt_num_faces. fold (ncor (tt_of_ct ct)). rewrite NC. rewrite Nat.mul_comm. apply Nat.div_mul. lia. }
  constructor.
  - unfold tt_of_ct; cbn [tt_opp tt_c2v]. rewrite map_length, OL, L. apply c2v_of_faces_length.
  - fold (ncor (tt_of_ct ct)). rewrite NC, NF. reflexivity.
  - intros a b Hab. change (opp_at (ct_opp ct) a = Some b) in Hab.
    destruct (opp_symmetric _ _ _ _ HC Hab) as (Hba & _ & Ha & Hb).
    destruct (opp_shared_edge_final _ _ _ _ HC Hab) as (E1 & E2 & _).
    rewrite NC. split; [exact Hb|]. split; [exact Hba|]. split.
    + rewrite ct_tt_deg by (apply Nat.div_lt_upper_bound; lia).
      destruct (is_degenerated c2v0 (a / 3)) eqn:D; auto.
      destruct (degenerate_unlinked _ _ a HC D) as (N & _). congruence.
    + rewrite !Vx_of_ct by (rewrite L; auto using next_lt, prev_lt). split; congruence.
  - intros c v Hv. pose proof (Vx_lt _ _ _ Hv) as Hc. rewrite NC in Hc. rewrite Vx_of_ct in Hv by lia.
    inversion Hv; subst. unfold tt_of_ct; cbn [tt_lmc].
    destruct (vertex_parent_maps_back _ _ c HC Hc) as (_ & R & _). exact R.
  - intros c v l Hc D Hv Hl Hol. rewrite NC in Hc. rewrite Vx_of_ct in Hv by lia. inversion Hv; subst v. clear Hv.
    rewrite ct_tt_deg in D by (apply Nat.div_lt_upper_bound; lia).
    change (nth (vtx (ct_c2v ct) c) (ct_vcorn ct) None = Some l) in Hl.
    change (opp_at (ct_opp ct) (next_c l) <> None) in Hol. change (opp_at (ct_opp ct) (next_c c) <> None).
    destruct (SF1 c Hc D) as (l' & Hl' & [j Hj]). rewrite Hl in Hl'. inversion Hl'; subst l'. clear Hl'.
    destruct j as [|j].
    + cbn [oiter] in Hj. inversion Hj; subst. exact Hol.
    + cbn [oiter] in Hj. destruct (oiter (swing_right (ct_opp ct)) j (Some l)) as [x|] eqn:Ex; [|discriminate].
      pose proof (sr_sl c2v0 (ct_opp ct) (length faces) (c2v_of_faces_length faces) (conj OL OK) x c Hj) as SL.
      unfold swing_left in SL. destruct (opp_at (ct_opp ct) (next_c c)); [discriminate|discriminate].
  - intros v l Hl. rewrite NC. change (nth v (ct_vcorn ct) None = Some l) in Hl.
    destruct (SF2 v l Hl) as (_ & R & _). exact R.
Qed.

End Create.


(* ------------------------------------------------------------------------------------------ *)
From Draco Require Import Model.Predict.

(** * What a finished traversal delivers, in plain terms *)
Section Post.
Variables (t : ttable) (c2p : list nat) (starts : list nat) (v2d0 : list Z) (s : tstate).
Hypothesis K : tt_ok t.
Hypothesis IV : InvV t c2p starts v2d0 s.
Hypothesis IF : InvF t s.
Hypothesis SV : forall c, In c starts -> fv s (c / 3) = true.

Lemma post_counts : ts_num s = length (ts_d2c s) /\ length (ts_pts s) = length (ts_d2c s) /\
                    length (ts_v2d s) = length v2d0.
Proof.
  split; [apply (iv_num _ _ _ _ _ IV)|]. split; [|apply (iv_dlen0 _ _ _ _ _ IV)].
  rewrite (iv_pts _ _ _ _ _ IV). apply map_length.
Qed.

(** entry d was made from corner c: c is a corner of the table, its vertex has entry d, the d-th point is c's point *)
Lemma post_entry d c : nth_error (ts_d2c s) d = Some c ->
  c < ncor t /\ exists v, Vx t c = Some v /\ nth_error (ts_v2d s) v = Some (Z.of_nat d) /\
                          nth_error (ts_pts s) d = Some (nth c c2p 0).
Proof.
  intros H. destruct (iv_dmap _ _ _ _ _ IV d c H) as (Hc & v & Hv & _ & Hd). split; auto. exists v. split; auto. split; auto.
  rewrite (iv_pts _ _ _ _ _ IV). rewrite nth_error_map, H. reflexivity.
Qed.

(** one entry per vertex *)
Lemma post_inj d1 d2 c1 c2 : nth_error (ts_d2c s) d1 = Some c1 -> nth_error (ts_d2c s) d2 = Some c2 ->
  Vx t c1 = Vx t c2 -> d1 = d2.
Proof.
  intros H1 H2 E. destruct (post_entry _ _ H1) as (_ & v1 & V1 & D1 & _). destruct (post_entry _ _ H2) as (_ & v2 & V2 & D2 & _).
  assert (v1 = v2) by congruence. subst. rewrite D1 in D2. inversion D2. lia.
Qed.

Lemma post_nodup : NoDup (ts_d2c s).
Proof.
  apply NoDup_nth_error. intros i j Hi E. destruct (nth_error (ts_d2c s) i) as [c|] eqn:Ei.
  - symmetry in E. eapply post_inj; eauto.
  - apply nth_error_None in Ei. lia.
Qed.

Lemma post_le_corners : length (ts_d2c s) <= ncor t.
Proof.
  rewrite <- (seq_length (ncor t) 0). apply NoDup_incl_length; [apply post_nodup|].
  intros c Hc. apply In_nth_error in Hc as [d Hd]. apply in_seq. destruct (post_entry _ _ Hd). lia.
Qed.

Lemma post_le_vertices : length (ts_d2c s) <= tt_num_vertices t.
Proof.
  assert (N : NoDup (map (Vx t) (ts_d2c s))).
  { apply NoDup_nth_error. intros i j Hi E. rewrite !nth_error_map in E. rewrite map_length in Hi.
    destruct (nth_error (ts_d2c s) i) as [ci|] eqn:Ei; [|apply nth_error_None in Ei; lia].
    destruct (nth_error (ts_d2c s) j) as [cj|] eqn:Ej; [|discriminate]. cbn in E. inversion E. eapply post_inj; eauto. }
  assert (Q : length (map (Vx t) (ts_d2c s)) <= length (map (@Some nat) (seq 0 (tt_num_vertices t)))).
  { apply NoDup_incl_length; auto. intros ov Hov. apply in_map_iff in Hov as (c & <- & Hc).
    apply In_nth_error in Hc as [d Hd]. destruct (post_entry _ _ Hd) as (_ & v & Hv & _). rewrite Hv.
    apply in_map, in_seq. pose proof (ok_vtx t K _ _ Hv). unfold tt_num_vertices. lia. }
  rewrite !map_length, seq_length in Q. exact Q.
Qed.

(** every corner of a visited face — in particular of every start face — has an entry *)
Lemma post_face_entries x : x < ncor t -> fv s (x / 3) = true ->
  exists v d c, Vx t x = Some v /\ nth_error (ts_v2d s) v = Some (Z.of_nat d) /\
                nth_error (ts_d2c s) d = Some c /\ Vx t c = Some v.
Proof.
  intros Hx F. destruct (if_face _ _ IF x Hx F) as (_ & v & Hv & Hvis).
  destruct (iv_vmap _ _ _ _ _ IV v Hvis) as (d & c & H1 & H2 & H3). exists v, d, c. auto.
Qed.

(** a vertex without entry keeps what the coder put into the map (-1 encoder, 0 decoder) *)
Lemma post_keep v : (exists d c, nth_error (ts_d2c s) d = Some c /\ Vx t c = Some v) \/
                    nth_error (ts_v2d s) v = nth_error v2d0 v.
Proof.
  destruct (vv s v) eqn:E.
  - left. destruct (iv_vmap _ _ _ _ _ IV v E) as (d & c & _ & H2 & H3). eauto.
  - right. apply (iv_keep _ _ _ _ _ IV); auto.
Qed.

(** causality in terms of the final vertex_to_data map: entry d either belongs to the first face of a traversal, or
    the face across the edge opposite its corner is complete with smaller entries (the parallelogram is available) *)
Definition entry_lt (d x : nat) : Prop :=
  exists v e, Vx t x = Some v /\ nth_error (ts_v2d s) v = Some (Z.of_nat e) /\ e < d.
Lemma post_causal d c : nth_error (ts_d2c s) d = Some c ->
  start_face starts c \/
  exists o, Ox t c = Some o /\ entry_lt d o /\ entry_lt d (next_c o) /\ entry_lt d (prev_c o).
Proof.
  intros H. destruct (iv_causal _ _ _ _ _ IV d c H) as [SF | (o & Ho & B1 & B2 & B3)]; [left; auto|]. right. exists o. split; auto.
  assert (A : forall x, before t (ts_d2c s) d x -> entry_lt d x).
  { intros x (e & ce & v & He & Hce & Vce & Vx_). destruct (post_entry _ _ Hce) as (_ & v' & V' & D' & _).
    exists v, e. split; auto. split; auto. congruence. }
  auto.
Qed.
(** on a start face: the other two corners of a later-made entry on that face already have entries (first the next,
    then the previous, then the tip corner) — nothing else is guaranteed there *)

End Post.

(** * PRED's hypotheses: md_wf and the decoders' `> num_corners` guards *)
Definition md_of (c2v : list nat) (t : ttable) (s : tstate) : mesh_data :=
  mk_md c2v (tt_opp t) (ts_d2c s) (ts_v2d s).

Section Pred.
Variables (t : ttable) (c2v : list nat) (c2p : list nat) (starts : list nat) (v2d0 : list Z) (s : tstate).
Hypothesis K : tt_ok t.
Hypothesis HV : tt_c2v t = map Some c2v.      (* no kInvalidVertexIndex in the table *)
Hypothesis IV : InvV t c2p starts v2d0 s.
Hypothesis IF : InvF t s.
Hypothesis SV : forall c, In c starts -> fv s (c / 3) = true.
(** every face of the table is a start face (the decoder: all faces; the encoder: all non-degenerate faces) *)
Hypothesis COVER : forall c, c < ncor t -> start_face starts c.

Lemma len_c2v : length c2v = ncor t.
Proof. unfold ncor. rewrite HV, map_length. reflexivity. Qed.

Theorem travs_md_wf : md_wf (md_of c2v t s) (ts_num s).
Proof.
  unfold md_wf, md_of; cbn [md_opp md_c2v md_v2d md_d2c]. pose proof len_c2v as L.
  split; [rewrite (ok_len t K), L; reflexivity|].
  split; [exists (tt_num_faces t); rewrite L; apply (ok_nf t K)|].
  split.
  { apply Forall_forall. intros o Ho. destruct o as [b|]; auto. apply In_nth with (d := None) in Ho as (a & Ha & E).
    rewrite L. apply (ok_opp t K a b E). }
  split.
  { apply Forall_forall. intros v Hv. apply In_nth with (d := 0) in Hv as (c & Hc & E). rewrite L in Hc.
    destruct (COVER c Hc) as (st & Hst & Ef).
    destruct (post_face_entries t c2p starts v2d0 s IV IF c Hc) as (v' & d & _ & Hv' & Hd & _).
    { rewrite <- Ef. apply SV; auto. }
    assert (v' = v).
    { unfold Vx in Hv'. rewrite HV in Hv'. rewrite (nth_indep _ None (Some 0)) in Hv' by (rewrite map_length; lia).
      rewrite (map_nth Some) in Hv'. inversion Hv'. congruence. }
    subst v'. exists (Z.of_nat d). split; auto. lia. }
  split.
  { apply Forall_forall. intros c Hc. apply In_nth_error in Hc as [d Hd]. rewrite L.
    apply (post_entry t c2p starts v2d0 s IV d c Hd). }
  symmetry. apply (iv_num _ _ _ _ _ IV).
Qed.

(** the guard `num_orientations > num_corners` (tex coords) / the premise [length data <= num_corners] of PRED:
    there is one data entry per traversal entry *)
Theorem travs_entries_le_corners : (Z.of_nat (ts_num s) <= md_num_corners (md_of c2v t s))%Z.
Proof.
  unfold md_num_corners, md_of; cbn [md_c2v]. rewrite len_c2v, (iv_num _ _ _ _ _ IV).
  pose proof (post_le_corners t c2p starts v2d0 s IV). lia.
Qed.

End Pred.

(* ------------------------------------------------------------------------------------------ *)
(** * The statements Properties_TRAVS.v restates *)

(** what the theorems assume of the table, the mesh's corner -> point table, the prepared vertex map and the start
    corners: the C13 invariants, array sizes, and start corners on non-degenerate faces of the table *)
Definition trav_pre (t : ttable) (c2p : list nat) (v2d0 : list Z) (order : option (list nat)) : Prop :=
  tt_ok t /\ ncor t <= length c2p /\ tt_num_vertices t <= length v2d0 /\
  forall c, In c (seq_corners t order) -> c < ncor t /\ tt_deg t (c / 3) = false.

(** what a finished sequencer run delivers (state invariants + every start face visited) *)
Definition trav_post (t : ttable) (c2p starts : list nat) (v2d0 : list Z) (s : tstate) : Prop :=
  InvV t c2p starts v2d0 s /\ InvF t s /\ forall c, In c starts -> fv s (c / 3) = true.

Theorem travs_dfs_total t c2p v2d0 order : trav_pre t c2p v2d0 order ->
  exists s, dfs_sequence t c2p v2d0 order = ROk s /\ trav_post t c2p (seq_corners t order) v2d0 s.
Proof. intros (K & A & B & C). destruct (dfs_sequence_ok t c2p v2d0 order K A B C) as (s & R & P). exists s. split; auto. Qed.
Theorem travs_mpd_total t c2p v2d0 order : trav_pre t c2p v2d0 order ->
  exists s, mpd_sequence t c2p v2d0 order = ROk s /\ trav_post t c2p (seq_corners t order) v2d0 s.
Proof. intros (K & A & B & C). destruct (mpd_sequence_ok t c2p v2d0 order K A B C) as (s & R & P). exists s. split; auto. Qed.

(** (b) in plain terms *)
Theorem travs_entries t c2p starts v2d0 s : tt_ok t -> trav_post t c2p starts v2d0 s ->
  (ts_num s = length (ts_d2c s) /\ length (ts_pts s) = length (ts_d2c s) /\ length (ts_v2d s) = length v2d0) /\
  (forall d c, nth_error (ts_d2c s) d = Some c ->
     c < ncor t /\ exists v, Vx t c = Some v /\ nth_error (ts_v2d s) v = Some (Z.of_nat d) /\
                             nth_error (ts_pts s) d = Some (nth c c2p 0)) /\
  (forall d1 d2 c1 c2, nth_error (ts_d2c s) d1 = Some c1 -> nth_error (ts_d2c s) d2 = Some c2 ->
     Vx t c1 = Vx t c2 -> d1 = d2) /\
  (forall x, x < ncor t -> (fv s (x / 3) = true \/ start_face starts x) ->
     exists v d c, Vx t x = Some v /\ nth_error (ts_v2d s) v = Some (Z.of_nat d) /\
                   nth_error (ts_d2c s) d = Some c /\ Vx t c = Some v) /\
  (forall v, (exists d c, nth_error (ts_d2c s) d = Some c /\ Vx t c = Some v) \/
             nth_error (ts_v2d s) v = nth_error v2d0 v) /\
  ts_num s <= tt_num_vertices t /\ ts_num s <= ncor t.
Proof.
  intros K (IV & IF & SV).
  split; [eapply post_counts; eauto|].
  split; [eapply post_entry; eauto|].
  split; [eapply post_inj; eauto|].
  split. { intros x Hx [F | (st & Hst & E)]; eapply post_face_entries; eauto. }
  split; [eapply post_keep; eauto|].
  rewrite (iv_num _ _ _ _ _ IV).
  split; [eapply post_le_vertices; eauto | eapply post_le_corners; eauto].
Qed.

(** (c) *)
Theorem travs_causal t c2p starts v2d0 s d c : trav_post t c2p starts v2d0 s ->
  nth_error (ts_d2c s) d = Some c ->
  start_face starts c \/
  exists o, Ox t c = Some o /\ entry_lt t s d o /\ entry_lt t s d (next_c o) /\ entry_lt t s d (prev_c o).
Proof. intros (IV & IF & SV). eapply post_causal; eauto. Qed.

(** PRED's premises *)
Definition covers (t : ttable) (starts : list nat) : Prop := forall c, c < ncor t -> start_face starts c.

Theorem travs_md_wf_post t c2v c2p starts v2d0 s :
  tt_ok t -> tt_c2v t = map Some c2v -> trav_post t c2p starts v2d0 s -> covers t starts ->
  md_wf (md_of c2v t s) (ts_num s).
Proof. intros K HV (IV & IF & SV) C. eapply travs_md_wf; eauto. Qed.

Theorem travs_len_guard t c2v c2p starts v2d0 s (data : list row) :
  tt_ok t -> tt_c2v t = map Some c2v -> trav_post t c2p starts v2d0 s -> length data = ts_num s ->
  (Z.of_nat (length data) <= md_num_corners (md_of c2v t s))%Z /\ length (md_d2c (md_of c2v t s)) = length data.
Proof.
  intros K HV (IV & IF & SV) L. rewrite L. split; [eapply travs_entries_le_corners; eauto|].
  unfold md_of; cbn [md_d2c]. symmetry. apply (iv_num _ _ _ _ _ IV).
Qed.

(** no corner order (the decoder): every face is a start face *)
Lemma covers_none t : tt_ok t -> covers t (seq_corners t None).
Proof.
  intros K c Hc. exists (3 * (c / 3)). split.
  - unfold seq_corners. apply in_map_iff. exists (c / 3). split; auto. apply in_seq. pose proof (face_lt t c K Hc). lia.
  - rewrite Nat.mul_comm. apply Nat.div_mul. lia.
Qed.

(** composition: what the prediction schemes are given by a real traversal satisfies PRED's hypotheses *)
Theorem travs_pred_premises t c2v c2p v2d0 order (mpd : bool) :
  trav_pre t c2p v2d0 order -> tt_c2v t = map Some c2v -> covers t (seq_corners t order) ->
  exists s, (if mpd then mpd_sequence else dfs_sequence) t c2p v2d0 order = ROk s /\
    md_wf (md_of c2v t s) (ts_num s) /\
    (Z.of_nat (ts_num s) <= md_num_corners (md_of c2v t s))%Z /\
    (Z.of_nat (ts_num s) <= Z.of_nat (tt_num_vertices t))%Z.
Proof.
  intros P HV C. pose proof P as (K & _).
  assert (E : exists s, (if mpd then mpd_sequence else dfs_sequence) t c2p v2d0 order = ROk s /\
                        trav_post t c2p (seq_corners t order) v2d0 s).
  { destruct mpd; [apply travs_mpd_total | apply travs_dfs_total]; auto. }
  destruct E as (s & R & Q). exists s. split; auto.
  split; [eapply travs_md_wf_post; eauto|].
  split. { destruct Q as (IV & IF & SV). eapply travs_entries_le_corners; eauto. }
  destruct (travs_entries t c2p _ v2d0 s K Q) as (_ & _ & _ & _ & _ & B & _). lia.
Qed.

(** the table Create returns *)
Theorem travs_ct_ok faces ct : ct_create faces = Some ct ->
  tt_ok (tt_of_ct ct) /\ tt_c2v (tt_of_ct ct) = map Some (ct_c2v ct) /\
  forall f, f < length faces -> tt_deg (tt_of_ct ct) f = is_degenerated (c2v_of_faces faces) f.
Proof. intros H. split; [eapply ct_create_tt_ok; eauto|]. split; [reflexivity|]. intros f Hf. eapply ct_tt_deg; eauto. Qed.

(** (d) determinism: equal arrays, equal corner lists => equal results (both methods); and the two orders correspond *)
Theorem travs_agreement t t' c2p v2d0 o o' :
  tt_c2v t = tt_c2v t' -> tt_opp t = tt_opp t' -> tt_lmc t = tt_lmc t' -> seq_corners t o = seq_corners t' o' ->
  dfs_sequence t c2p v2d0 o = dfs_sequence t' c2p v2d0 o' /\ mpd_sequence t c2p v2d0 o = mpd_sequence t' c2p v2d0 o'.
Proof.
  destruct t, t'; simpl. intros -> -> -> E. unfold dfs_sequence, mpd_sequence. rewrite E. auto.
Qed.

Lemma map_nth_error_seq {A} (l pre : list A) :
  map (nth_error (pre ++ l)) (seq (length pre) (length l)) = map Some l.
Proof.
  revert pre; induction l as [|a l IH]; intros pre; cbn [length seq map]; auto. f_equal.
  - rewrite nth_error_app2 by lia. rewrite Nat.sub_diag. reflexivity.
  - replace (pre ++ a :: l) with ((pre ++ [a]) ++ l) by (rewrite <- app_assoc; reflexivity).
    replace (S (length pre)) with (length (pre ++ [a])) by (rewrite app_length; simpl; lia). apply IH.
Qed.

(** the decoder's start corners 3 * i correspond, under [eb_corner_map], exactly to the encoder's corner order, and
    the correspondence commutes with Next / Previous *)
Theorem travs_orders_correspond order :
  map (eb_corner_map order) (eb_decoder_order (length order)) = map Some order /\
  forall i e, nth_error order i = Some e ->
    eb_corner_map order (3 * i) = Some e /\ eb_corner_map order (next_c (3 * i)) = Some (next_c e) /\
    eb_corner_map order (prev_c (3 * i)) = Some (prev_c e).
Proof.
  assert (D : forall i k, k < 3 -> (3 * i + k) / 3 = i /\ (3 * i + k) mod 3 = k).
  { intros i k Hk. split.
    - rewrite Nat.mul_comm, Nat.div_add_l by lia. rewrite Nat.div_small by lia. lia.
    - rewrite Nat.add_comm, Nat.mul_comm, Nat.mod_add by lia. apply Nat.mod_small; lia. }
  assert (Z0 : forall i, eb_corner_map order (3 * i) = nth_error order i).
  { intros i. unfold eb_corner_map. destruct (D i 0) as [A B]; [lia|]. rewrite Nat.add_0_r in A, B. rewrite A, B.
    destruct (nth_error order i); reflexivity. }
  split.
  - unfold eb_decoder_order. rewrite map_map. rewrite (map_ext _ (nth_error order) Z0).
    apply (map_nth_error_seq order []).
  - intros i e H. split; [rewrite Z0; exact H|]. rewrite next_0, prev_0. unfold eb_corner_map.
    destruct (D i 1) as [A1 B1]; [lia|]. destruct (D i 2) as [A2 B2]; [lia|]. rewrite A1, B1, A2, B2, H. split; reflexivity.
Qed.

(** * The non-degenerate-start hypothesis is necessary, and the hypotheses are satisfiable *)
Theorem travs_degenerate_start_refuted :
  exists ct, ct_create [(0,1,1); (0,1,2); (0,2,3); (0,3,1)] = Some ct /\ tt_ok (tt_of_ct ct) /\
    dfs_sequence (tt_of_ct ct) [0;1;1;0;1;2;0;2;3;0;3;1] (enc_v2d0 4) None = RErr.
Proof.
  destruct (ct_create_total [(0,1,1); (0,1,2); (0,2,3); (0,3,1)]) as (ct & H). exists ct. split; auto.
  split; [eapply ct_create_tt_ok; eauto|].
  vm_compute in H. inversion H. subst ct. vm_compute. reflexivity.
Qed.

Theorem travs_example_pre :
  let t := match ct_create [(0,1,2); (2,1,3); (2,3,4)] with Some ct => tt_of_ct ct | None => mk_tt [] [] [] end in
  trav_pre t [0;1;2;2;1;3;2;3;4] (enc_v2d0 5) None /\ covers t (seq_corners t None).
Proof.
  cbv zeta.
  assert (K : tt_ok (match ct_create [(0,1,2); (2,1,3); (2,3,4)] with Some ct => tt_of_ct ct | None => mk_tt [] [] [] end)).
  { apply tt_okb_sound. vm_compute. reflexivity. }
  split; [|apply covers_none; exact K].
  split; [exact K|]. split; [vm_compute; lia|]. split; [vm_compute; lia|].
  intros c Hc. vm_compute in Hc. destruct Hc as [<- | [<- | [<- | []]]]; split; try (vm_compute; lia); vm_compute; reflexivity.
Qed.
