From Coq Require Import ZifyBool.
From Draco Require Import Base.Codec Base.Bits Model.Varint Model.BitCoders Proofs.BitCoders_proofs Proofs.DirectCoder_proofs.
Local Open Scope Z_scope.

Lemma nth_error_firstn' {A} (l : list A) : forall i j, (j < i)%nat -> nth_error (firstn i l) j = nth_error l j.
Proof.
  induction l as [|x l IH]; intros i j H; [destruct i, j; reflexivity|].
  destruct i; [lia|]. destruct j; [reflexivity|]. cbn [firstn nth_error]. apply IH. lia.
Qed.
Lemma nth_error_skipn' {A} (l : list A) : forall i j, nth_error (skipn i l) j = nth_error l (i + j).
Proof.
  induction l as [|x l IH]; intros i j; [destruct i, j; reflexivity|].
  destruct i; [reflexivity|]. cbn [skipn Nat.add nth_error]. apply IH.
Qed.
Lemma nth_error_seq' len : forall start i, (i < len)%nat -> nth_error (seq start len) i = Some (start + i)%nat.
Proof.
  induction len as [|len IH]; intros start i H; [lia|].
  destruct i; cbn [seq nth_error]; [f_equal; lia|]. rewrite IH by lia. f_equal. lia.
Qed.

(** * FoldedBit32Encoder/Decoder over any inner coder that satisfies the bit-coder law *)
Section FoldedProofs.
  Context {St : Type}.
  Variable inner_enc : list bool -> option bytes.
  Variable inner_start : bytes -> option (St * bytes).
  Variable inner_next : St -> bool * St.
  Hypothesis inner_law : forall bits bs rest, inner_enc bits = Some bs ->
    exists st, inner_start (bs ++ rest) = Some (st, rest) /\
               fst (read_n inner_next (length bits) st) = bits.

  Definition produces (st : St) (s : list bool) : Prop := fst (read_n inner_next (length s) st) = s.

  Lemma produces_step st b s : produces st (b :: s) ->
    fst (inner_next st) = b /\ produces (snd (inner_next st)) s.
  Proof.
    unfold produces. cbn [length read_n]. destruct (inner_next st) as [b' st'].
    destruct (read_n inner_next (length s) st') as [x s2] eqn:E. cbn [fst snd]. intros H. injection H as H1 H2. subst. split; [reflexivity|]. rewrite E. reflexivity.
  Qed.

  (** list update facts *)
  Lemma upd_same {A} (l : list A) i x y : nth_error l i = Some y ->
    nth_error (firstn i l ++ x :: skipn (S i) l) i = Some x.
  Proof.
    intros H. assert (Hl: (i < length l)%nat) by (apply nth_error_Some; congruence).
    rewrite nth_error_app2; rewrite firstn_length_le by lia; [|lia]. rewrite Nat.sub_diag. reflexivity.
  Qed.
  Lemma upd_other {A} (l : list A) i j x y : nth_error l i = Some y -> j <> i ->
    nth_error (firstn i l ++ x :: skipn (S i) l) j = nth_error l j.
  Proof.
    intros H Hne. assert (Hl: (i < length l)%nat) by (apply nth_error_Some; congruence).
    destruct (Nat.lt_ge_cases j i) as [Hlt|Hge].
    - rewrite nth_error_app1 by (rewrite firstn_length_le; lia). apply nth_error_firstn'; lia.
    - rewrite nth_error_app2; rewrite firstn_length_le by lia; [|lia].
      destruct (j - i)%nat as [|d] eqn:E; [lia|]. cbn [nth_error].
      rewrite nth_error_skipn'. f_equal. lia.
  Qed.

  Definition Inv (sts : list St) (ops : list bop) : Prop :=
    forall i, (i < 33)%nat -> exists st, nth_error sts i = Some st /\ produces st (folded_stream i ops).

  Definition ops_ok (ops : list bop) : Prop :=
    Forall (fun o => match o with OLsb n v => (n <= 32)%nat /\ 0 <= v | OBit _ => True end) ops.

  Lemma stream_cons i o ops :
    folded_stream i (o :: ops) =
      (match o with
       | OBit b => if (i =? 32)%nat then [b] else []
       | OLsb n v => if (i <? n)%nat then [Z.testbit v (Z.of_nat (n - 1 - i))] else []
       end) ++ folded_stream i ops.
  Proof. reflexivity. Qed.

  (** reading the n bits of one integer from streams i, i+1, … *)
  Lemma folded_lsb_correct n v ops : (n <= 32)%nat -> forall k i acc sts,
    (i + k = n)%nat ->
    (forall j, (j < 33)%nat -> exists st, nth_error sts j = Some st /\
        produces st (if (j <? i)%nat then folded_stream j ops else folded_stream j (OLsb n v :: ops))) ->
    exists sts', folded_lsb inner_next k i acc sts = Some (acc * 2 ^ Z.of_nat k + val_msb (bits_msb k v), sts') /\
                 Inv sts' ops.
  Proof.
    intros Hn. induction k as [|k IH]; intros i acc sts Hik Hinv.
    - cbn [folded_lsb bits_msb]. exists sts. split; [f_equal; f_equal; unfold val_msb; cbn; lia|].
      intros j Hj. destruct (Hinv j Hj) as (st & Hst & Hp). exists st. split; [exact Hst|].
      destruct (j <? i)%nat eqn:E; [exact Hp|].
      rewrite stream_cons in Hp. replace (j <? n)%nat with false in Hp by (symmetry; apply Nat.ltb_ge; apply Nat.ltb_ge in E; lia).
      exact Hp.
    - cbn [folded_lsb]. unfold folded_bit.
      destruct (Hinv i ltac:(lia)) as (st & Hst & Hp). rewrite Hst.
      rewrite Nat.ltb_irrefl in Hp. rewrite stream_cons in Hp.
      replace (i <? n)%nat with true in Hp by (symmetry; apply Nat.ltb_lt; lia). cbn [app] in Hp.
      apply produces_step in Hp. destruct Hp as [Hb Hp']. destruct (inner_next st) as [b st'] eqn:En.
      cbn [fst snd] in Hb, Hp'. subst b.
      replace (n - 1 - i)%nat with k by lia.
      destruct (IH (S i) (2 * acc + (if Z.testbit v (Z.of_nat k) then 1 else 0))
                   (firstn i sts ++ st' :: skipn (S i) sts) ltac:(lia)) as (sts' & Hl & Hi').
      { intros j Hj. destruct (Nat.eq_dec j i) as [->|Hne].
        - exists st'. split; [eapply upd_same; exact Hst|].
          replace (i <? S i)%nat with true by (symmetry; apply Nat.ltb_lt; lia). exact Hp'.
        - destruct (Hinv j Hj) as (sj & Hsj & Hpj). exists sj.
          split; [rewrite (upd_other _ _ _ _ _ Hst Hne); exact Hsj|].
          destruct (j <? S i)%nat eqn:E1; destruct (j <? i)%nat eqn:E2; try exact Hpj.
          + apply Nat.ltb_lt in E1. apply Nat.ltb_ge in E2. lia.
          + apply Nat.ltb_ge in E1. apply Nat.ltb_lt in E2. lia. }
      exists sts'. split; [|exact Hi']. rewrite Hl. f_equal. f_equal.
      cbn [bits_msb].
      assert (Hc: val_msb (Z.testbit v (Z.of_nat k) :: bits_msb k v) =
                  (if Z.testbit v (Z.of_nat k) then 1 else 0) * 2 ^ Z.of_nat k + val_msb (bits_msb k v)).
      { change (?b :: ?l) with ([b] ++ l). rewrite val_msb_app, bits_msb_length.
        assert (Hv: forall b : bool, val_msb [b] = if b then 1 else 0) by (intros []; reflexivity).
        rewrite Hv. reflexivity. }
      rewrite Hc. rewrite Nat2Z.inj_succ, Z.pow_succ_r by lia. ring.
  Qed.

  Theorem folded_read_correct ops : ops_ok ops -> forall sts, Inv sts ops ->
    exists sts', folded_read inner_next (map rop_of ops) sts = Some (map value_of ops, sts').
  Proof.
    induction ops as [|o ops IH]; intros Hok sts Hinv.
    - exists sts. reflexivity.
    - inversion Hok as [|? ? Ho Hok']; subst. destruct o as [b|n v]; cbn [map rop_of value_of folded_read].
      + unfold folded_bit. destruct (Hinv 32%nat ltac:(lia)) as (st & Hst & Hp). rewrite Hst.
        rewrite stream_cons in Hp. cbn [Nat.eqb app] in Hp.
        apply produces_step in Hp. destruct Hp as [Hb Hp']. destruct (inner_next st) as [b' st'].
        cbn [fst snd] in Hb, Hp'. subst b'.
        destruct (IH Hok' (firstn 32 sts ++ st' :: skipn 33 sts)) as (sts' & Hr).
        { intros j Hj. destruct (Nat.eq_dec j 32) as [->|Hne].
          - exists st'. split; [eapply upd_same; exact Hst|exact Hp'].
          - destruct (Hinv j Hj) as (sj & Hsj & Hpj). exists sj.
            split; [rewrite (upd_other _ _ _ _ _ Hst Hne); exact Hsj|].
            rewrite stream_cons in Hpj.
            replace (j =? 32)%nat with false in Hpj by (symmetry; apply Nat.eqb_neq; exact Hne). exact Hpj. }
        rewrite Hr. eexists; reflexivity.
      + destruct Ho as [Hn Hv].
        destruct (folded_lsb_correct n v ops Hn n 0%nat 0 sts ltac:(lia)) as (sts1 & Hl & Hi1).
        { intros j Hj. destruct (Hinv j Hj) as (sj & Hsj & Hpj). exists sj. split; [exact Hsj|].
          cbn [Nat.ltb Nat.leb]. exact Hpj. }
        rewrite Hl. destruct (IH Hok' sts1 Hi1) as (sts' & Hr). rewrite Hr.
        rewrite Z.mul_0_l, Z.add_0_l, val_msb_bits_msb by exact Hv. eexists; reflexivity.
  Qed.

  (** starting the 33 inner decoders on the encoder's output establishes the invariant *)
  Lemma start_streams_correct ss : forall bs rest, enc_streams inner_enc ss = Some bs ->
    exists sts, start_streams inner_start (length ss) (bs ++ rest) = Some (sts, rest) /\
      length sts = length ss /\
      forall i s, nth_error ss i = Some s -> exists st, nth_error sts i = Some st /\ produces st s.
  Proof.
    induction ss as [|s ss IH]; intros bs rest Henc.
    - injection Henc as <-. exists []. split; [reflexivity|]. split; [reflexivity|].
      intros i s H. destruct i; discriminate.
    - cbn [enc_streams] in Henc.
      destruct (inner_enc s) as [a|] eqn:Ea; [|discriminate].
      destruct (enc_streams inner_enc ss) as [b|] eqn:Eb; [|discriminate].
      injection Henc as <-. cbn [length start_streams]. rewrite <- app_assoc.
      destruct (inner_law s a (b ++ rest) Ea) as (st & Hst & Hp). rewrite Hst.
      destruct (IH b rest eq_refl) as (sts & Hs & Hlen & Hall). rewrite Hs.
      exists (st :: sts). split; [reflexivity|]. split; [cbn; lia|].
      intros i s' H. destruct i as [|i]; cbn [nth_error] in *.
      + injection H as <-. exists st. split; [reflexivity|exact Hp].
      + apply Hall. exact H.
  Qed.

  Theorem folded_roundtrip ops bs rest : ops_ok ops ->
    folded_encode inner_enc ops = Some bs ->
    exists sts sts', folded_start inner_start (bs ++ rest) = Some (sts, rest) /\
      folded_read inner_next (map rop_of ops) sts = Some (map value_of ops, sts').
  Proof.
    intros Hok Henc. unfold folded_encode in Henc.
    destruct (start_streams_correct _ bs rest Henc) as (sts & Hs & Hlen & Hall).
    rewrite map_length, seq_length in Hs, Hlen.
    assert (Hinv: Inv sts ops).
    { intros i Hi. apply Hall. rewrite nth_error_map, nth_error_seq' by lia. reflexivity. }
    destruct (folded_read_correct ops Hok sts Hinv) as (sts' & Hr).
    exists sts, sts'. split; [exact Hs|exact Hr].
  Qed.
End FoldedProofs.
