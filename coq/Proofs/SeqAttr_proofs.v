(** Proofs about Model/SeqAttr.v: the sequential attribute coders (raw values, integer blocks with the
    delta/wrap prediction, zig-zag, entropy-coded or raw symbols) are lossless and self-delimiting.
    Every statement is unbounded (inductions over the lists).  The symbol coder is a parameter; only
    its round-trip law [sym_law] is assumed (Section hypotheses, discharged at instantiation). *)
From Coq Require Import ZifyBool.
From Draco Require Import Base.Codec Base.Bits Base.Float32 Gen.Constants Model.Varint Model.Wrap Model.Quantize
  Model.Octahedron Model.SeqAttr Proofs.Varint_proofs Proofs.Wrap_proofs Proofs.Octahedron_proofs.
Local Open Scope Z_scope.

(** * generic list facts *)

Lemma Some_inj' {A} (a b : A) : Some a = Some b -> a = b.
Proof. congruence. Qed.

Lemma Forall_concat {A} (P : A -> Prop) (ll : list (list A)) :
  Forall (Forall P) ll -> Forall P (concat ll).
Proof. induction 1; cbn [concat]; [constructor|]. apply Forall_app; split; assumption. Qed.

Lemma length_concat_const {A} (nc : nat) (rows : list (list A)) :
  Forall (fun r => length r = nc) rows -> length (concat rows) = (length rows * nc)%nat.
Proof.
  induction 1 as [|r rs Hr _ IH]; [reflexivity|].
  cbn [concat length]. rewrite app_length, IH, Hr. lia.
Qed.

Lemma map2_length {A B C} (f : A -> B -> C) a b : length (map2 f a b) = Nat.min (length a) (length b).
Proof. revert b; induction a as [|x a IH]; intros [|y b]; cbn [map2 length]; try reflexivity. rewrite IH. reflexivity. Qed.

(** * 1a. rows / chunk *)

Lemma chunk_concat (nc : nat) : (0 < nc)%nat -> forall rows fuel,
  Forall (fun r => length r = nc) rows -> (length rows <= fuel)%nat ->
  chunk fuel nc (concat rows) = rows.
Proof.
  intros Hnc. induction rows as [|r rs IH]; intros fuel HF Hfuel.
  - destruct fuel; reflexivity.
  - apply Forall_cons_iff in HF. destruct HF as [Hr HF'].
    destruct fuel as [|fuel]; [cbn in Hfuel; lia|]. cbn [length] in Hfuel.
    destruct r as [|x r']; [cbn in Hr; lia|].
    cbn [concat]. change ((x :: r') ++ concat rs) with (x :: (r' ++ concat rs)).
    cbn [chunk]. change (x :: (r' ++ concat rs)) with ((x :: r') ++ concat rs).
    rewrite <- Hr.
    rewrite firstn_app, Nat.sub_diag, firstn_all, firstn_O, app_nil_r.
    rewrite skipn_app, Nat.sub_diag, skipn_all. cbn [skipn app].
    rewrite Hr. rewrite IH by (assumption || lia). reflexivity.
Qed.

Theorem rows_of_concat (nc : nat) rows : (0 < nc)%nat ->
  Forall (fun r => length r = nc) rows -> rows_of nc (concat rows) = rows.
Proof.
  intros Hnc HF. unfold rows_of. apply chunk_concat; [assumption|assumption|].
  rewrite (length_concat_const nc) by assumption. nia.
Qed.

(** every row [chunk] produces out of a list whose length is a multiple of nc has nc entries; in
    general (arbitrary lists) all rows but the last do; we only need the exact-multiple case. *)
Lemma chunk_rows_length (nc : nat) : (0 < nc)%nat -> forall fuel k l,
  length l = (k * nc)%nat -> (k <= fuel)%nat ->
  length (chunk fuel nc l) = k /\ Forall (fun r => length r = nc) (chunk fuel nc l).
Proof.
  intros Hnc. induction fuel as [|fuel IH]; intros k l Hl Hk.
  - assert (k = 0)%nat by lia. subst. cbn. split; [reflexivity|constructor].
  - cbn [chunk]. destruct l as [|x l'].
    + cbn in Hl. assert (k = 0)%nat by nia. subst. split; [reflexivity|constructor].
    + destruct k as [|k]; [cbn in Hl; lia|].
      destruct (IH k (skipn nc (x :: l'))) as [H1 H2].
      { rewrite skipn_length, Hl. lia. }
      { lia. }
      split; [cbn [length]; rewrite H1; reflexivity|].
      constructor; [|exact H2]. rewrite firstn_length, Hl. lia.
Qed.

Lemma rows_of_shape (nc k : nat) l : (0 < nc)%nat -> length l = (k * nc)%nat ->
  length (rows_of nc l) = k /\ Forall (fun r => length r = nc) (rows_of nc l).
Proof. intros Hnc Hl. unfold rows_of. apply chunk_rows_length; [assumption|assumption|]. rewrite Hl. nia. Qed.

(** * 1b. zig-zag on lists *)

Lemma i32_zz v : i32 v <-> - 2 ^ (32 - 1) <= v < 2 ^ (32 - 1).
Proof. unfold i32. change (2 ^ (32 - 1)) with 2147483648. lia. Qed.

Theorem zigzag_list_inverse l : Forall i32 l -> map (zigzag_dec 32) (map (zigzag_enc 32) l) = l.
Proof.
  induction 1 as [|v l Hv _ IH]; [reflexivity|]. cbn [map]. rewrite IH.
  rewrite zigzag_inverse by (try lia; apply i32_zz; exact Hv). reflexivity.
Qed.

Theorem zigzag_list_range l : Forall i32 l -> Forall (fun s => 0 <= s < 2 ^ 32) (map (zigzag_enc 32) l).
Proof.
  induction 1 as [|v l Hv _ IH]; cbn [map]; constructor; [|exact IH].
  apply zigzag_range; [lia|apply i32_zz; exact Hv].
Qed.

(** * 1c. flat_min_max *)

Definition mm_step (mm : Z * Z) (x : Z) : Z * Z :=
  (if x <? fst mm then x else fst mm, if x <? fst mm then snd mm else if x >? snd mm then x else snd mm).

Lemma mm_fold_inv r : forall a b, a <= b ->
  let mm := fold_left mm_step r (a, b) in
  fst mm <= a /\ b <= snd mm /\ (forall v, In v r -> fst mm <= v <= snd mm) /\
  In (fst mm) (a :: r) /\ In (snd mm) (b :: r).
Proof.
  induction r as [|x r IH]; intros a b Hab; cbv zeta; cbn [fold_left].
  - cbn. split; [lia|]. split; [lia|]. split; [intros v []|]. tauto.
  - assert (Hs : mm_step (a, b) x = if x <? a then (x, b) else if x >? b then (a, x) else (a, b)).
    { unfold mm_step; cbn [fst snd]. destruct (x <? a), (x >? b); reflexivity. }
    rewrite Hs. clear Hs. destruct (x <? a) eqn:E1.
    + pose proof (IH x b ltac:(lia)) as IH'. cbv zeta in IH'. destruct IH' as (H1 & H2 & H3 & H4 & H5).
      split; [lia|]. split; [lia|]. split; [|split].
      * intros v [ <- | Hv ]; [lia|]. apply H3, Hv.
      * destruct H4 as [H4|H4]; [right; left; exact H4|right; right; exact H4].
      * destruct H5 as [H5|H5]; [left; exact H5|right; right; exact H5].
    + destruct (x >? b) eqn:E2.
      * pose proof (IH a x ltac:(lia)) as IH'. cbv zeta in IH'. destruct IH' as (H1 & H2 & H3 & H4 & H5).
        split; [lia|]. split; [lia|]. split; [|split].
        -- intros v [ <- | Hv ]; [lia|]. apply H3, Hv.
        -- destruct H4 as [H4|H4]; [left; exact H4|right; right; exact H4].
        -- destruct H5 as [H5|H5]; [right; left; exact H5|right; right; exact H5].
      * pose proof (IH a b Hab) as IH'. cbv zeta in IH'. destruct IH' as (H1 & H2 & H3 & H4 & H5).
        split; [lia|]. split; [lia|]. split; [|split].
        -- intros v [ <- | Hv ]; [lia|]. apply H3, Hv.
        -- destruct H4 as [H4|H4]; [left; exact H4|right; right; exact H4].
        -- destruct H5 as [H5|H5]; [left; exact H5|right; right; exact H5].
Qed.

Theorem flat_min_max_bounds vals mn mx : flat_min_max vals = (mn, mx) ->
  forall v, In v vals -> mn <= v <= mx.
Proof.
  destruct vals as [|v0 r]; [intros _ v []|].
  unfold flat_min_max. fold mm_step. intros E v Hv.
  pose proof (mm_fold_inv r v0 v0 ltac:(lia)) as H. cbv zeta in H. rewrite E in H. cbn [fst snd] in H.
  destruct H as (H1 & H2 & H3 & _). destruct Hv as [ <- | Hv ]; [lia|]. apply H3, Hv.
Qed.

Theorem flat_min_max_in vals mn mx : vals <> [] -> flat_min_max vals = (mn, mx) ->
  In mn vals /\ In mx vals /\ mn <= mx.
Proof.
  destruct vals as [|v0 r]; [congruence|]. intros _.
  unfold flat_min_max. fold mm_step. intros E.
  pose proof (mm_fold_inv r v0 v0 ltac:(lia)) as H. cbv zeta in H. rewrite E in H. cbn [fst snd] in H.
  destruct H as (H1 & H2 & _ & H4 & H5). repeat split; try assumption. lia.
Qed.

Theorem flat_min_max_i32 vals mn mx : Forall i32 vals -> flat_min_max vals = (mn, mx) -> i32 mn /\ i32 mx.
Proof.
  intros HF E. destruct vals as [|v0 r].
  - cbn in E. injection E as <- <-. unfold i32; lia.
  - destruct (flat_min_max_in (v0 :: r) mn mx ltac:(congruence) E) as (H1 & H2 & _).
    rewrite Forall_forall in HF. split; apply HF; assumption.
Qed.

(** * 1d. delta prediction with the wrap transform *)

Lemma wrap_enc_i32 b o p : i32 (wrap_enc b o p).
Proof.
  unfold wrap_enc. destruct (_ <? _); [apply to_i32_range|]. destruct (_ >? _); apply to_i32_range.
Qed.

Section Delta.
  Variables (mn mx : Z) (b : wrap_bounds).
  Hypothesis Hmn : i32 mn.
  Hypothesis Hmx : i32 mx.
  Hypothesis Hd : 0 <= mx - mn < 2147483647.
  Hypothesis Hb : wrap_init mn mx = Some b.

  Definition in_range (v : Z) : Prop := mn <= v <= mx.

  Lemma in_range_i32 v : in_range v -> i32 v.
  Proof. unfold in_range, i32 in *. lia. Qed.

  Lemma wrap_dec_enc orig pred : in_range orig -> i32 pred -> wrap_dec b pred (wrap_enc b orig pred) = orig.
  Proof.
    intros Ho Hp. destruct (wrap_roundtrip mn mx orig pred Hmn Hmx Hd Ho Hp) as (b' & E & _ & H & _).
    rewrite Hb in E. injection E as <-. exact H.
  Qed.

  Lemma row_roundtrip : forall r prev, Forall in_range r -> Forall i32 prev -> length prev = length r ->
    map2 (wrap_dec b) prev (map2 (wrap_enc b) r prev) = r.
  Proof.
    induction r as [|x r IH]; intros prev Hr Hp Hl.
    - destruct prev; reflexivity.
    - destruct prev as [|p prev]; [cbn in Hl; lia|].
      inversion Hr; inversion Hp; subst. cbn [map2].
      rewrite wrap_dec_enc by assumption. rewrite IH; [reflexivity|assumption|assumption|].
      cbn in Hl. lia.
  Qed.

  Theorem delta_roundtrip (nc : nat) : forall rows prev,
    Forall (fun r => length r = nc /\ Forall in_range r) rows -> length prev = nc -> Forall i32 prev ->
    delta_orig b prev (delta_corr b prev rows) = rows.
  Proof.
    induction rows as [|r rows IH]; intros prev HF Hl Hp; [reflexivity|].
    apply Forall_cons_iff in HF. destruct HF as [[Hlr Hr] HF']. cbn [delta_corr delta_orig].
    rewrite row_roundtrip by (assumption || lia).
    rewrite IH; [reflexivity|assumption|assumption|].
    eapply Forall_impl; [|exact Hr]. apply in_range_i32.
  Qed.
End Delta.

Lemma Forall_repeat {A} (P : A -> Prop) x n : P x -> Forall P (repeat x n).
Proof. intros; induction n; cbn; constructor; assumption. Qed.

Lemma delta_corr_shape b (nc : nat) : forall rows prev,
  Forall (fun r => length r = nc) rows -> length prev = nc ->
  Forall (fun r => length r = nc) (delta_corr b prev rows) /\ length (delta_corr b prev rows) = length rows.
Proof.
  induction rows as [|r rows IH]; intros prev HF Hp; cbn [delta_corr]; [split; [constructor|reflexivity]|].
  apply Forall_cons_iff in HF. destruct HF as [Hr HF']. destruct (IH r) as [H1 H2]; [assumption|assumption|].
  split; [|cbn [length]; rewrite H2; reflexivity].
  constructor; [|exact H1]. rewrite map2_length. lia.
Qed.

Lemma map2_wrap_enc_i32 b : forall r prev, Forall i32 (map2 (wrap_enc b) r prev).
Proof. induction r as [|x r IH]; intros [|p prev]; cbn [map2]; constructor; [apply wrap_enc_i32|apply IH]. Qed.

Theorem delta_corr_i32 b : forall rows prev, Forall (Forall i32) (delta_corr b prev rows).
Proof. induction rows as [|r rows IH]; intros prev; cbn [delta_corr]; constructor; [apply map2_wrap_enc_i32|apply IH]. Qed.

(** * 1e. raw integers *)

Section Raw.

  Theorem raw_vals_roundtrip (nb : nat) : forall syms rest,
    Forall (fun s => 0 <= s < 256 ^ Z.of_nat nb) syms ->
    dec_raw_vals (length syms) nb (concat (map (enc_le nb) syms) ++ rest) = Some (syms, rest).
  Proof.
    induction syms as [|s syms IH]; intros rest HF; [reflexivity|].
    inversion HF; subst. cbn [length map concat dec_raw_vals]. rewrite <- app_assoc.
    rewrite (le_roundtrips nb s (enc_le nb s) _ ltac:(assumption) eq_refl).
    rewrite IH by assumption. reflexivity.
  Qed.

  Lemma enc_le_length nb v : length (enc_le nb v) = nb.
  Proof. revert v; induction nb; intros; cbn [enc_le length]; [reflexivity|]. rewrite IHnb. reflexivity. Qed.

  Lemma raw_bytes_length nb syms : length (concat (map (enc_le nb) syms)) = (length syms * nb)%nat.
  Proof.
    rewrite (length_concat_const nb), map_length; [reflexivity|]. apply Forall_forall. intros r Hr. apply in_map_iff in Hr.
    destruct Hr as (v & <- & _). apply enc_le_length.
  Qed.

  Lemma lor_fold_inv : forall syms acc, 0 <= acc -> Forall (fun s => 0 <= s) syms ->
    let m := fold_left Z.lor syms acc in
    0 <= m /\ Z.log2 acc <= Z.log2 m /\ Forall (fun s => Z.log2 s <= Z.log2 m) syms.
  Proof.
    induction syms as [|s syms IH]; intros acc Ha HF; cbn [fold_left].
    - cbv zeta. repeat split; try lia. constructor.
    - apply Forall_cons_iff in HF. destruct HF as [Hs HF'].
      assert (H0 : 0 <= Z.lor acc s) by (apply Z.lor_nonneg; lia).
      pose proof (IH (Z.lor acc s) H0 HF') as IH'. cbv zeta in IH'. destruct IH' as (H1 & H2 & H3). cbv zeta.
      rewrite Z.log2_lor in H2 by lia.
      repeat split; [assumption|lia|]. constructor; [lia|assumption].
  Qed.

  Lemma lor_lt_pow2 a c k : 0 <= a < 2 ^ k -> 0 <= c < 2 ^ k -> 0 <= k -> Z.lor a c < 2 ^ k.
  Proof.
    intros Ha Hc Hk.
    destruct (Z.eq_dec (Z.lor a c) 0) as [E|E]; [rewrite E; lia|].
    assert (0 <= Z.lor a c) by (apply Z.lor_nonneg; lia).
    apply Z.log2_lt_pow2; [lia|]. rewrite Z.log2_lor by lia.
    destruct (Z.eq_dec a 0) as [->|Ea]; destruct (Z.eq_dec c 0) as [->|Ec].
    - cbn in E. congruence.
    - change (Z.log2 0) with 0. pose proof (Z.log2_nonneg c).
      assert (Z.log2 c < k) by (apply Z.log2_lt_pow2; lia). lia.
    - change (Z.log2 0) with 0. pose proof (Z.log2_nonneg a).
      assert (Z.log2 a < k) by (apply Z.log2_lt_pow2; lia). lia.
    - assert (Z.log2 a < k) by (apply Z.log2_lt_pow2; lia).
      assert (Z.log2 c < k) by (apply Z.log2_lt_pow2; lia). lia.
  Qed.

  Lemma lor_fold_lt k : 0 <= k -> forall syms acc, 0 <= acc < 2 ^ k -> Forall (fun s => 0 <= s < 2 ^ k) syms ->
    0 <= fold_left Z.lor syms acc < 2 ^ k.
  Proof.
    intros Hk. induction syms as [|s syms IH]; intros acc Ha HF; cbn [fold_left]; [exact Ha|].
    inversion HF; subst. apply IH; [|assumption]. split; [apply Z.lor_nonneg; lia|apply lor_lt_pow2; lia].
  Qed.

  Local Ltac Zify.zify_post_hook ::= Z.div_mod_to_equations.

  (** the byte count EncodeValues picks is in 1..4 and large enough for every symbol *)
  Theorem raw_num_bytes_ok syms : Forall (fun s => 0 <= s < 2 ^ 32) syms ->
    1 <= raw_num_bytes syms <= 4 /\
    Forall (fun s => 0 <= s < 256 ^ Z.of_nat (Z.to_nat (raw_num_bytes syms))) syms.
  Proof.
    intros HF. unfold raw_num_bytes. set (m := fold_left Z.lor syms 0).
    assert (Hm : 0 <= m < 2 ^ 32) by (apply lor_fold_lt; [lia|lia|exact HF]).
    assert (HF0 : Forall (fun s => 0 <= s) syms) by (eapply Forall_impl; [|exact HF]; cbv beta; lia).
    destruct (lor_fold_inv syms 0 ltac:(lia) HF0) as (_ & _ & Hlog). fold m in Hlog.
    set (L := if m =? 0 then 0 else Z.log2 m).
    assert (HL : 0 <= L <= 31).
    { unfold L. destruct (m =? 0) eqn:E; [lia|].
      pose proof (Z.log2_nonneg m). assert (Z.log2 m < 32) by (apply Z.log2_lt_pow2; lia). lia. }
    assert (HLm : L = Z.log2 m).
    { unfold L. destruct (m =? 0) eqn:E; [|reflexivity]. assert (m = 0) by lia. subst m. rewrite H. reflexivity. }
    split; [lia|].
    rewrite Z2Nat.id by lia.
    rewrite Forall_forall in *. intros s Hin. pose proof (HF s Hin) as Hs. pose proof (Hlog s Hin) as Hls.
    cbv beta in *. split; [lia|].
    change 256 with (2 ^ 8). rewrite <- Z.pow_mul_r by lia.
    destruct (Z.eq_dec s 0) as [->|Es]; [apply Z.pow_pos_nonneg; lia|].
    apply Z.lt_le_trans with (2 ^ (Z.log2 s + 1)).
    - apply Z.log2_spec. lia.
    - apply Z.pow_le_mono_r; [lia|]. rewrite <- HLm in Hls. lia.
  Qed.
End Raw.

(** * 1f. integer blocks *)

Lemma i32_of_u32_mod v : i32 v -> i32_of_u32 (v mod 2 ^ 32) = v.
Proof.
  unfold i32, i32_of_u32. intros Hv. change (2 ^ 32) with 4294967296. change (2 ^ 31) with 2147483648.
  destruct (Z_lt_ge_dec v 0).
  - replace (v mod 4294967296) with (v + 4294967296).
    2:{ apply Z.mod_unique with (-1); lia. }
    destruct (_ <? _) eqn:E; lia.
  - rewrite Z.mod_small by lia. destruct (_ <? _) eqn:E; lia.
Qed.

Lemma i32_of_u32_i32 w : 0 <= w < 2 ^ 32 -> i32 (i32_of_u32 w).
Proof. unfold i32, i32_of_u32. change (2 ^ 32) with 4294967296. change (2 ^ 31) with 2147483648. destruct (_ <? _) eqn:E; lia. Qed.

Lemma u32_range v : 0 <= v mod 2 ^ 32 < 256 ^ Z.of_nat 4.
Proof. change (256 ^ Z.of_nat 4) with (2 ^ 32). apply Z.mod_pos_bound. lia. Qed.

(** the wrap bounds of a block (an arbitrary default where InitCorrectionBounds fails: the encoder then
    fails as a whole, see [int_block_encodable]) *)
Definition block_bounds (rows : list (list Z)) : wrap_bounds :=
  match wrap_bounds_enc (concat rows) with Some b => b | None => mk_wrap_bounds 0 0 0 0 0 end.
(** the encoder refuses a delta-coded block whose value range is >= 2^31-1 (the fix of defect D7) *)
Definition int_block_encodable (o : int_opts) (rows : list (list Z)) : bool :=
  match io_pred o with
  | PNone => true
  | PDelta => match wrap_bounds_enc (concat rows) with Some _ => true | None => false end
  end.
(** what the encoder feeds to the symbol coder (or writes raw) *)
Definition int_block_src (o : int_opts) (nc : nat) (rows : list (list Z)) : list Z :=
  match io_pred o with
  | PNone => concat rows
  | PDelta => concat (delta_corr (block_bounds rows) (repeat 0 nc) rows)
  end.
Definition int_block_syms (o : int_opts) (nc : nat) (rows : list (list Z)) : list Z :=
  map (zigzag_enc 32) (int_block_src o nc rows).
Definition int_block_hdr (o : int_opts) : bytes :=
  match io_pred o with PNone => [254] | PDelta => [0; 1] end.
Definition int_block_tail (o : int_opts) (rows : list (list Z)) : bytes :=
  match io_pred o with
  | PNone => []
  | PDelta => let b := block_bounds rows in enc_le 4 (wb_min b mod 2 ^ 32) ++ enc_le 4 (wb_max b mod 2 ^ 32)
  end.
(** the delta range condition of InitCorrectionBounds: no longer a hypothesis of the theorems — a successful
    encode implies it ([int_block_enc_ok]) and its failure makes the encode fail ([int_block_range_rejected]) *)
Definition int_block_ok (o : int_opts) (rows : list (list Z)) : Prop :=
  match io_pred o with
  | PNone => True
  | PDelta => snd (flat_min_max (concat rows)) - fst (flat_min_max (concat rows)) < 2147483647
  end.
(** the weakest guard the callers can always establish for the symbols of an integer block *)
Definition sym_guard_basic (nc : Z) (syms : list Z) : Prop :=
  1 <= nc /\ syms <> [] /\ (exists k, length syms = (k * Z.to_nat nc)%nat) /\ Forall (fun s => 0 <= s < 2 ^ 32) syms.

Section IntBlock.
  Variable enc_syms : Z -> Z -> Z -> list Z -> option bytes.
  Variable dec_syms : nat -> nat -> bytes -> option (list Z * bytes).
  Variable sym_guard' : Z -> list Z -> Prop.
  Hypothesis sym_law : forall method lvl nc syms bs rest, sym_guard' nc syms ->
    enc_syms method lvl nc syms = Some bs -> dec_syms (length syms) (Z.to_nat nc) (bs ++ rest) = Some (syms, rest).

  (** the encoder in closed form *)
  Lemma enc_int_block_eq o nc rows : rows <> [] ->
    enc_int_block enc_syms o nc rows =
      let syms := int_block_syms o nc rows in
      if negb (int_block_encodable o rows) then None else
      if io_builtin o then
        match enc_syms (io_method o) (io_level o) (Z.of_nat nc) syms with
        | Some body => Some (int_block_hdr o ++ [1] ++ body ++ int_block_tail o rows)
        | None => None
        end
      else Some (int_block_hdr o ++ [0; raw_num_bytes syms]
                 ++ concat (map (enc_le (Z.to_nat (raw_num_bytes syms))) syms) ++ int_block_tail o rows).
  Proof.
    intros Hne. destruct rows as [|r0 rows']; [congruence|].
    unfold enc_int_block, int_block_syms, int_block_src, int_block_hdr, int_block_tail, int_block_encodable, block_bounds.
    destruct (io_pred o); [reflexivity|]. destruct (wrap_bounds_enc (concat (r0 :: rows'))); reflexivity.
  Qed.

  Theorem int_block_empty o nc : enc_int_block enc_syms o nc [] = Some [].
  Proof. reflexivity. Qed.

  (** the decoder, stage by stage *)
  Definition dec_body (nv nc : nat) (r1 : bytes) : option (list Z * bytes) := dec_sym_body dec_syms nv nc r1.
  Definition dec_tail (delta : bool) (nc : nat) (vals : list Z) (r4 : bytes) : option (list (list Z) * bytes) :=
    if delta then
      match dec_le 4 r4 with
      | None => None
      | Some (mnu, r5) =>
        match dec_le 4 r5 with
        | None => None
        | Some (mxu, r6) =>
          match wrap_dec_init (i32_of_u32 mnu) (i32_of_u32 mxu) with
          | None => None
          | Some b => Some (delta_orig b (repeat 0 nc) (rows_of nc vals), r6)
          end
        end
      end
    else Some (rows_of nc vals, r4).
  Definition dec_rest (delta : bool) (nc n : nat) (r1 : bytes) : option (list (list Z) * bytes) :=
    if (nc =? 0)%nat then None else if (n =? 0)%nat then None else
    match dec_body (n * nc) nc r1 with
    | None => None
    | Some (syms, r4) => dec_tail delta nc (map (zigzag_dec 32) syms) r4
    end.

  Lemma dec_rest_eq delta nc n r1 :
    dec_rest delta nc n r1 =
      if (nc =? 0)%nat then None else if (n =? 0)%nat then None else
      match r1 with
      | [] => None
      | comp :: r2 =>
        let body :=
          if comp >? 0 then dec_syms (n * nc) nc r2
          else match r2 with
               | [] => None
               | nb :: r3 =>
                 if nb =? 4 then dec_raw_vals (n * nc) 4 r3
                 else if 4 * Z.of_nat (n * nc) <? nb * Z.of_nat (n * nc) then None
                 else if Z.of_nat (length r3) <? nb * Z.of_nat (n * nc) then None
                 else dec_raw_vals (n * nc) (Z.to_nat nb) r3
               end in
        match body with
        | None => None
        | Some (syms, r4) => dec_tail delta nc (map (zigzag_dec 32) syms) r4
        end
      end.
  Proof.
    unfold dec_rest, dec_body, dec_sym_body. destruct (nc =? 0)%nat; [reflexivity|]. destruct (n =? 0)%nat; [reflexivity|].
    destruct r1; reflexivity.
  Qed.

  Lemma dec_int_block_none nc n r1 : dec_int_block dec_syms nc n (254 :: r1) = dec_rest false nc n r1.
  Proof. rewrite dec_rest_eq. reflexivity. Qed.

  Lemma dec_int_block_delta nc n r1 : dec_int_block dec_syms nc n (0 :: 1 :: r1) = dec_rest true nc n r1.
  Proof. rewrite dec_rest_eq. reflexivity. Qed.

  (** any other transform byte with a prediction method: the values are taken as they are *)
  Lemma dec_int_block_other nc n pmb ttb r1 :
    i8_of_byte pmb <> PREDICTION_NONE_ ->
    PREDICTION_NONE_ <= i8_of_byte pmb < NUM_PREDICTION_SCHEMES_ ->
    PREDICTION_TRANSFORM_NONE_ <= i8_of_byte ttb < NUM_PREDICTION_SCHEME_TRANSFORM_TYPES_ ->
    dec_int_block dec_syms nc n (pmb :: ttb :: r1) = dec_rest (i8_of_byte ttb =? PREDICTION_TRANSFORM_WRAP_) nc n r1.
  Proof.
    intros H1 H2 H3. rewrite dec_rest_eq. unfold dec_int_block.
    destruct ((i8_of_byte pmb <? PREDICTION_NONE_) || (i8_of_byte pmb >=? NUM_PREDICTION_SCHEMES_)) eqn:E1; [lia|].
    destruct (i8_of_byte pmb =? PREDICTION_NONE_) eqn:E2; [lia|].
    destruct ((i8_of_byte ttb <? PREDICTION_TRANSFORM_NONE_) || (i8_of_byte ttb >=? NUM_PREDICTION_SCHEME_TRANSFORM_TYPES_)) eqn:E3; [lia|].
    reflexivity.
  Qed.

  (** body *)
  Lemma dec_body_builtin nc syms body rest method lvl : (0 < nc)%nat ->
    sym_guard' (Z.of_nat nc) syms -> enc_syms method lvl (Z.of_nat nc) syms = Some body ->
    dec_body (length syms) nc ([1] ++ body ++ rest) = Some (syms, rest).
  Proof.
    intros Hnc Hg He. unfold dec_body. cbn [app dec_sym_body]. change (1 >? 0) with true. cbv iota.
    pose proof (sym_law method lvl (Z.of_nat nc) syms body rest Hg He) as H.
    rewrite Nat2Z.id in H. exact H.
  Qed.

  Lemma dec_body_raw nc syms rest : Forall (fun s => 0 <= s < 2 ^ 32) syms ->
    dec_body (length syms) nc ([0; raw_num_bytes syms]
       ++ concat (map (enc_le (Z.to_nat (raw_num_bytes syms))) syms) ++ rest) = Some (syms, rest).
  Proof.
    intros HF. destruct (raw_num_bytes_ok syms HF) as [Hnb Hfit].
    set (nb := raw_num_bytes syms) in *. clearbody nb.
    unfold dec_body. cbn [app dec_sym_body]. change (0 >? 0) with false. cbv iota.
    destruct (nb =? 4) eqn:E4.
    - assert (nb = 4) by lia. subst nb. change (Z.to_nat 4) with 4%nat in *.
      apply raw_vals_roundtrip. exact Hfit.
    - destruct (4 * Z.of_nat (length syms) <? nb * Z.of_nat (length syms)) eqn:E5; [nia|].
      rewrite app_length, raw_bytes_length.
      destruct (Z.of_nat (length syms * Z.to_nat nb + length rest) <? nb * Z.of_nat (length syms)) eqn:E6; [nia|].
      apply raw_vals_roundtrip. exact Hfit.
  Qed.

  (** tail *)
  Lemma dec_tail_none nc rows rest : (0 < nc)%nat -> Forall (fun r => length r = nc) rows ->
    dec_tail false nc (concat rows) rest = Some (rows, rest).
  Proof. intros. unfold dec_tail. rewrite rows_of_concat by assumption. reflexivity. Qed.

  Lemma wrap_bounds_enc_range vals b : wrap_bounds_enc vals = Some b ->
    0 <= snd (flat_min_max vals) - fst (flat_min_max vals) < 2147483647.
  Proof.
    unfold wrap_bounds_enc. destruct (flat_min_max vals) as [mn mx]. cbn [fst snd]. unfold wrap_init.
    destruct ((mx - mn <? 0) || (mx - mn >=? 2147483647)) eqn:E; [discriminate|]. intros _. lia.
  Qed.

  Lemma wrap_bounds_enc_ok vals b : vals <> [] -> Forall i32 vals -> wrap_bounds_enc vals = Some b ->
    i32 (wb_min b) /\ i32 (wb_max b) /\ 0 <= wb_max b - wb_min b < 2147483647 /\
    wrap_init (wb_min b) (wb_max b) = Some b /\ wrap_dec_init (wb_min b) (wb_max b) = Some b /\
    Forall (fun v => wb_min b <= v <= wb_max b) vals.
  Proof.
    intros Hne HF Hb. pose proof (wrap_bounds_enc_range vals b Hb) as Hd. unfold wrap_bounds_enc in Hb.
    destruct (flat_min_max vals) as [mn mx] eqn:E. cbn [fst snd] in Hd.
    destruct (flat_min_max_i32 vals mn mx HF E) as [Hmn Hmx].
    destruct (wrap_init_spec mn mx Hmn Hmx Hd) as (b' & Eb & Hbmn & Hbmx & _).
    rewrite Hb in Eb. injection Eb as <-. rewrite Hbmn, Hbmx.
    split; [assumption|]. split; [assumption|]. split; [lia|]. split; [assumption|].
    split.
    - unfold wrap_dec_init. destruct (mn >? mx) eqn:E1; [lia|assumption].
    - apply Forall_forall. intros v Hv. apply (flat_min_max_bounds vals mn mx E v Hv).
  Qed.

  Lemma dec_tail_delta nc rows rest : (0 < nc)%nat -> rows <> [] ->
    Forall (fun r => length r = nc /\ Forall i32 r) rows ->
    forall b, wrap_bounds_enc (concat rows) = Some b ->
    dec_tail true nc (concat (delta_corr b (repeat 0 nc) rows))
      ((enc_le 4 (wb_min b mod 2 ^ 32) ++ enc_le 4 (wb_max b mod 2 ^ 32)) ++ rest) = Some (rows, rest).
  Proof.
    intros Hnc Hne HF b Hd.
    assert (Hlen : Forall (fun r => length r = nc) rows) by (eapply Forall_impl; [|exact HF]; cbv beta; tauto).
    assert (Hi : Forall i32 (concat rows)).
    { apply Forall_concat. eapply Forall_impl; [|exact HF]. cbv beta; tauto. }
    assert (Hcne : concat rows <> []).
    { destruct rows as [|r0 rs]; [congruence|]. apply Forall_cons_iff in HF. destruct HF as [[Hl _] _].
      destruct r0; [cbn in Hl; lia|]. cbn. congruence. }
    pose proof (wrap_bounds_enc_ok (concat rows) b Hcne Hi Hd) as Hb.
    destruct Hb as (Hmn & Hmx & Hdd & Hinit & Hdinit & Hrange).
    unfold dec_tail. rewrite <- app_assoc.
    rewrite (le_roundtrips 4 (wb_min b mod 2 ^ 32) _ _ (u32_range _) eq_refl).
    rewrite (le_roundtrips 4 (wb_max b mod 2 ^ 32) _ _ (u32_range _) eq_refl).
    rewrite !i32_of_u32_mod by assumption. rewrite Hdinit.
    destruct (delta_corr_shape b nc rows (repeat 0 nc) Hlen (repeat_length 0 nc)) as [Hsh _].
    rewrite rows_of_concat by assumption.
    rewrite (delta_roundtrip (wb_min b) (wb_max b) b Hmn Hmx Hdd Hinit nc); [reflexivity| |apply repeat_length|].
    - apply Forall_forall. intros r Hr. split; [exact (proj1 (Forall_forall _ _) Hlen r Hr)|].
      apply Forall_forall. intros v Hv. unfold in_range.
      apply (proj1 (Forall_forall _ _) Hrange v). apply in_concat. exists r. split; assumption.
    - apply Forall_repeat. unfold i32; lia.
  Qed.

  (** facts about the symbols of a block *)
  Lemma int_block_src_i32 o nc rows : Forall (Forall i32) rows -> Forall i32 (int_block_src o nc rows).
  Proof.
    intros HF. unfold int_block_src. destruct (io_pred o); apply Forall_concat; [exact HF|apply delta_corr_i32].
  Qed.
  Lemma int_block_src_length o nc rows : Forall (fun r => length r = nc) rows ->
    length (int_block_src o nc rows) = (length rows * nc)%nat.
  Proof.
    intros HF. unfold int_block_src. destruct (io_pred o).
    - apply length_concat_const. exact HF.
    - destruct (delta_corr_shape (block_bounds rows) nc rows (repeat 0 nc) HF (repeat_length 0 nc)) as [H1 H2].
      rewrite (length_concat_const nc) by exact H1. rewrite H2. reflexivity.
  Qed.

  Theorem int_block_syms_basic o nc rows : (1 <= nc)%nat -> rows <> [] ->
    Forall (fun r => length r = nc /\ Forall i32 r) rows ->
    sym_guard_basic (Z.of_nat nc) (int_block_syms o nc rows).
  Proof.
    intros Hnc Hne HF.
    assert (Hlen : Forall (fun r => length r = nc) rows) by (eapply Forall_impl; [|exact HF]; cbv beta; tauto).
    assert (Hi : Forall (Forall i32) rows) by (eapply Forall_impl; [|exact HF]; cbv beta; tauto).
    assert (Hl : length (int_block_syms o nc rows) = (length rows * nc)%nat).
    { unfold int_block_syms. rewrite map_length. apply int_block_src_length. exact Hlen. }
    unfold sym_guard_basic. split; [lia|]. split; [|split].
    - intros E. rewrite E in Hl. cbn in Hl. destruct rows; [congruence|]. cbn in Hl. lia.
    - exists (length rows). rewrite Nat2Z.id. exact Hl.
    - apply zigzag_list_range. apply int_block_src_i32. exact Hi.
  Qed.

  (** THE integer-block theorem *)
  Theorem int_block_roundtrip o nc rows bs rest : (1 <= nc)%nat -> rows <> [] ->
    Forall (fun r => length r = nc /\ Forall i32 r) rows ->
    (io_builtin o = true -> sym_guard' (Z.of_nat nc) (int_block_syms o nc rows)) ->
    enc_int_block enc_syms o nc rows = Some bs ->
    dec_int_block dec_syms nc (length rows) (bs ++ rest) = Some (rows, rest).
  Proof.
    intros Hnc Hne HF Hg He.
    rewrite enc_int_block_eq in He by exact Hne. cbv zeta in He.
    destruct (int_block_encodable o rows) eqn:Henc; [|discriminate]. cbn [negb] in He.
    assert (Hlen : Forall (fun r => length r = nc) rows) by (eapply Forall_impl; [|exact HF]; cbv beta; tauto).
    assert (Hi : Forall (Forall i32) rows) by (eapply Forall_impl; [|exact HF]; cbv beta; tauto).
    assert (Hl : length (int_block_syms o nc rows) = (length rows * nc)%nat).
    { unfold int_block_syms. rewrite map_length. apply int_block_src_length. exact Hlen. }
    assert (Hzz : map (zigzag_dec 32) (int_block_syms o nc rows) = int_block_src o nc rows).
    { unfold int_block_syms. apply zigzag_list_inverse. apply int_block_src_i32. exact Hi. }
    assert (Hn0 : length rows <> 0%nat) by (destruct rows; [congruence|cbn; lia]).
    (* the tail stage, for both prediction kinds *)
    assert (Htail : dec_tail (match io_pred o with PNone => false | PDelta => true end) nc
                      (int_block_src o nc rows) (int_block_tail o rows ++ rest) = Some (rows, rest)).
    { unfold int_block_src, int_block_tail, int_block_encodable, block_bounds in *. destruct (io_pred o).
      - apply dec_tail_none; [lia|exact Hlen].
      - destruct (wrap_bounds_enc (concat rows)) as [b|] eqn:Ewb; [|discriminate].
        apply dec_tail_delta; [lia|exact Hne|exact HF|exact Ewb]. }
    (* the body stage *)
    assert (Hbody : forall body, bs = int_block_hdr o ++ body ->
              dec_body (length rows * nc) nc (body ++ rest) = Some (int_block_syms o nc rows, int_block_tail o rows ++ rest) ->
              dec_int_block dec_syms nc (length rows) (bs ++ rest) = Some (rows, rest)).
    { intros body -> Hb. unfold int_block_hdr in *.
      assert (Hr : dec_rest (match io_pred o with PNone => false | PDelta => true end) nc (length rows) (body ++ rest)
                   = Some (rows, rest)).
      { unfold dec_rest. destruct (nc =? 0)%nat eqn:E1; [apply Nat.eqb_eq in E1; lia|].
        destruct (length rows =? 0)%nat eqn:E2; [apply Nat.eqb_eq in E2; lia|].
        rewrite Hb, Hzz. exact Htail. }
      destruct (io_pred o); cbn [app]; [rewrite dec_int_block_none|rewrite dec_int_block_delta]; exact Hr. }
    destruct (io_builtin o) eqn:Eb.
    - destruct (enc_syms (io_method o) (io_level o) (Z.of_nat nc) (int_block_syms o nc rows)) as [body|] eqn:Es; [|discriminate].
      injection He as <-. eapply Hbody; [reflexivity|].
      rewrite <- Hl. cbn [app]. rewrite <- app_assoc.
      apply (dec_body_builtin nc _ body _ (io_method o) (io_level o)); [lia|apply Hg; reflexivity|exact Es].
    - injection He as <-. eapply Hbody; [reflexivity|].
      rewrite <- Hl. cbn [app]. rewrite <- app_assoc.
      apply dec_body_raw. unfold int_block_syms. apply zigzag_list_range. apply int_block_src_i32. exact Hi.
  Qed.

  (** the fix of D7, both ways: a successful encode implies the range condition of InitCorrectionBounds, and a
      delta-coded block whose range is >= 2^31-1 is refused (before the fix it produced an undecodable stream) *)
  Theorem int_block_enc_ok o nc rows bs : rows <> [] -> enc_int_block enc_syms o nc rows = Some bs -> int_block_ok o rows.
  Proof.
    intros Hne He. rewrite enc_int_block_eq in He by exact Hne. cbv zeta in He.
    unfold int_block_encodable, int_block_ok in *. destruct (io_pred o); [exact I|].
    destruct (wrap_bounds_enc (concat rows)) as [b|] eqn:Ewb; [|discriminate].
    pose proof (wrap_bounds_enc_range _ _ Ewb). lia.
  Qed.

  Theorem int_block_range_rejected o nc rows : rows <> [] -> io_pred o = PDelta ->
    snd (flat_min_max (concat rows)) - fst (flat_min_max (concat rows)) >= 2147483647 ->
    enc_int_block enc_syms o nc rows = None.
  Proof.
    intros Hne Hp Hr. destruct (enc_int_block enc_syms o nc rows) as [bs|] eqn:He; [|reflexivity].
    pose proof (int_block_enc_ok o nc rows bs Hne He) as Hok. unfold int_block_ok in Hok. rewrite Hp in Hok. lia.
  Qed.

  (** D11: an attribute without entries writes nothing, and the decoder rejects what follows
      (GetPortableAttributeData() is null) — the empty block does not round-trip. *)
  Theorem int_block_empty_refuted o nc rest :
    enc_int_block enc_syms o nc [] = Some [] /\
    (forall pmb r, rest = pmb :: r -> i8_of_byte pmb = PREDICTION_NONE_ -> dec_int_block dec_syms nc 0 ([] ++ rest) = None) /\
    dec_int_block dec_syms nc 0 ([] ++ []) = None.
  Proof.
    split; [reflexivity|]. split; [|reflexivity].
    intros pmb r -> Hp. cbn [app]. unfold dec_int_block. rewrite Hp.
    change ((PREDICTION_NONE_ <? PREDICTION_NONE_) || (PREDICTION_NONE_ >=? NUM_PREDICTION_SCHEMES_)) with false.
    change (PREDICTION_NONE_ =? PREDICTION_NONE_) with true. cbv iota.
    destruct (nc =? 0)%nat; reflexivity.
  Qed.
End IntBlock.

(** * 1g. generic (raw) attribute values *)

Theorem row_roundtrip_generic (w : nat) : forall row rest, Forall (fun v => 0 <= v < 256 ^ Z.of_nat w) row ->
  dec_row w (length row) (concat (map (enc_le w) row) ++ rest) = Some (row, rest).
Proof.
  induction row as [|v row IH]; intros rest HF; [reflexivity|].
  apply Forall_cons_iff in HF. destruct HF as [Hv HF].
  cbn [length map concat dec_row]. rewrite <- app_assoc.
  rewrite (le_roundtrips w v (enc_le w v) _ Hv eq_refl). rewrite IH by assumption. reflexivity.
Qed.

Theorem generic_roundtrip (w nc : nat) : forall rows rest,
  Forall (fun r => length r = nc /\ Forall (fun v => 0 <= v < 256 ^ Z.of_nat w) r) rows ->
  dec_generic w nc (length rows) (enc_generic w rows ++ rest) = Some (rows, rest).
Proof.
  induction rows as [|r rows IH]; intros rest HF; [reflexivity|].
  apply Forall_cons_iff in HF. destruct HF as [[Hl Hr] HF].
  unfold enc_generic in *. cbn [length map concat dec_generic]. rewrite <- app_assoc.
  rewrite <- Hl at 1. rewrite row_roundtrip_generic by assumption. rewrite IH by assumption. reflexivity.
Qed.

(** * 1h. value conversions *)

Definition int_dt (dt : Z) : Prop :=
  dt = DT_INT8_ \/ dt = DT_UINT8_ \/ dt = DT_INT16_ \/ dt = DT_UINT16_ \/ dt = DT_INT32_ \/ dt = DT_UINT32_.

Lemma dt_is_int_spec dt : dt_is_int dt = true <-> int_dt dt.
Proof. unfold dt_is_int, int_dt. lia. Qed.

Theorem int32_value_roundtrip dt bits v : int_dt dt -> 0 <= bits < 2 ^ (8 * dt_len dt) ->
  to_int32_value dt bits = Some v -> of_int32_value dt v = bits /\ i32 v.
Proof.
  intros Hdt Hb H. unfold to_int32_value, of_int32_value in *.
  assert (Hw : 1 <= 8 * dt_len dt) by (destruct Hdt as [ -> | [ -> | [ -> | [ -> | [ -> | -> ]]]]]; vm_compute; congruence).
  set (w := 8 * dt_len dt) in *. clearbody w.
  assert (Hp : 2 ^ w = 2 * 2 ^ (w - 1)).
  { replace w with (1 + (w - 1)) at 1 by lia. rewrite Z.pow_add_r by lia. reflexivity. }
  assert (Hpos : 0 < 2 ^ (w - 1)) by (apply Z.pow_pos_nonneg; lia).
  set (h := 2 ^ (w - 1)) in *. set (W := 2 ^ w) in *. clearbody h W.
  change (2 ^ 31) with 2147483648 in H.
  destruct (dt_signed dt).
  - destruct (bits <? h) eqn:E.
    + match type of H with (if ?c then _ else _) = _ => destruct c eqn:E2 end; [discriminate|]. injection H as <-.
      split; [apply Z.mod_small; lia|unfold i32; lia].
    + match type of H with (if ?c then _ else _) = _ => destruct c eqn:E2 end; [discriminate|]. injection H as <-.
      split; [|unfold i32; lia]. symmetry. apply Z.mod_unique with (-1); lia.
  - match type of H with (if ?c then _ else _) = _ => destruct c eqn:E2 end; [discriminate|]. injection H as <-.
    split; [apply Z.mod_small; lia|unfold i32; lia].
Qed.

Lemma omap_Forall2 {A B} (f : A -> option B) : forall l l', omap f l = Some l' -> Forall2 (fun a b => f a = Some b) l l'.
Proof.
  induction l as [|a l IH]; intros l' H; cbn [omap] in H.
  - injection H as <-. constructor.
  - destruct (f a) as [b|] eqn:E; [|discriminate]. destruct (omap f l) as [bs|] eqn:E2; [|discriminate].
    injection H as <-. constructor; [exact E|apply IH; reflexivity].
Qed.

Theorem int32_row_roundtrip dt : int_dt dt -> forall row row',
  Forall (fun v => 0 <= v < 2 ^ (8 * dt_len dt)) row -> omap (to_int32_value dt) row = Some row' ->
  map (of_int32_value dt) row' = row /\ Forall i32 row' /\ length row' = length row.
Proof.
  intros Hdt. induction row as [|v row IH]; intros row' HF H; cbn [omap] in H.
  - injection H as <-. repeat split; constructor.
  - apply Forall_cons_iff in HF. destruct HF as [Hv HF].
    destruct (to_int32_value dt v) as [x|] eqn:E; [|discriminate].
    destruct (omap (to_int32_value dt) row) as [xs|] eqn:E2; [|discriminate]. injection H as <-.
    destruct (int32_value_roundtrip dt v x Hdt Hv E) as [H1 H2].
    destruct (IH xs HF eq_refl) as (H3 & H4 & H5).
    cbn [map length]. rewrite H1, H3, H5. repeat split; [constructor; assumption].
Qed.

Theorem int32_rows_roundtrip dt (nc : nat) : int_dt dt -> forall rows rows',
  Forall (fun r => length r = nc /\ Forall (fun v => 0 <= v < 2 ^ (8 * dt_len dt)) r) rows ->
  omap (omap (to_int32_value dt)) rows = Some rows' ->
  map (map (of_int32_value dt)) rows' = rows /\ Forall (fun r => length r = nc /\ Forall i32 r) rows' /\
  length rows' = length rows.
Proof.
  intros Hdt. induction rows as [|r rows IH]; intros rows' HF H; cbn [omap] in H.
  - injection H as <-. repeat split; constructor.
  - apply Forall_cons_iff in HF. destruct HF as [[Hl Hr] HF].
    destruct (omap (to_int32_value dt) r) as [x|] eqn:E; [|discriminate].
    destruct (omap (omap (to_int32_value dt)) rows) as [xs|] eqn:E2; [|discriminate]. injection H as <-.
    destruct (int32_row_roundtrip dt Hdt r x Hr E) as (H1 & H2 & H2').
    destruct (IH xs HF eq_refl) as (H3 & H4 & H5).
    cbn [map length]. rewrite H1, H3, H5. split; [reflexivity|]. split; [|reflexivity].
    constructor; [split; [lia|assumption]|assumption].
Qed.

(** * Shape of what the decoders return on ARBITRARY bytes (used for C03) *)

Lemma dec_raw_vals_len : forall n nb bs vs r, dec_raw_vals n nb bs = Some (vs, r) -> length vs = n.
Proof.
  induction n as [|n IH]; intros nb bs vs r H; cbn [dec_raw_vals] in H.
  - injection H as <- _. reflexivity.
  - destruct (dec_le nb bs) as [[v r1]|]; [|discriminate].
    destruct (dec_raw_vals n nb r1) as [[vs' r']|] eqn:E; [|discriminate].
    injection H as <- _. cbn [length]. rewrite (IH _ _ _ _ E). reflexivity.
Qed.

Lemma delta_orig_shape b (nc : nat) : forall corrs prev, Forall (fun r => length r = nc) corrs -> length prev = nc ->
  Forall (fun r => length r = nc) (delta_orig b prev corrs) /\ length (delta_orig b prev corrs) = length corrs.
Proof.
  induction corrs as [|c corrs IH]; intros prev HF Hp; cbn [delta_orig]; [split; [constructor|reflexivity]|].
  apply Forall_cons_iff in HF. destruct HF as [Hc HF].
  assert (Hl : length (map2 (wrap_dec b) prev c) = nc) by (rewrite map2_length; lia).
  destruct (IH _ HF Hl) as [H1 H2]. split; [constructor; assumption|cbn [length]; rewrite H2; reflexivity].
Qed.

Lemma dec_row_len : forall nc w bs row r, dec_row w nc bs = Some (row, r) -> length row = nc.
Proof.
  induction nc as [|nc IH]; intros w bs row r H; cbn [dec_row] in H.
  - injection H as <- _. reflexivity.
  - destruct (dec_le w bs) as [[v r1]|]; [|discriminate].
    destruct (dec_row w nc r1) as [[vs' r']|] eqn:E; [|discriminate].
    injection H as <- _. cbn [length]. rewrite (IH _ _ _ _ E). reflexivity.
Qed.

Theorem dec_generic_shape w nc : forall n bs rows r, dec_generic w nc n bs = Some (rows, r) ->
  length rows = n /\ Forall (fun row => length row = nc) rows.
Proof.
  induction n as [|n IH]; intros bs rows r H; cbn [dec_generic] in H.
  - injection H as <- _. split; [reflexivity|constructor].
  - destruct (dec_row w nc bs) as [[row r1]|] eqn:Er; [|discriminate].
    destruct (dec_generic w nc n r1) as [[rows' r']|] eqn:E; [|discriminate].
    injection H as <- _. destruct (IH _ _ _ E) as [H1 H2].
    split; [cbn [length]; rewrite H1; reflexivity|]. constructor; [apply (dec_row_len _ _ _ _ _ Er)|exact H2].
Qed.

Section IntBlockShape.
  Variable dec_syms : nat -> nat -> bytes -> option (list Z * bytes).
  (** the symbol decoder returns as many symbols as it was asked for *)
  Hypothesis sym_len : forall n nc bs syms r, (1 <= nc)%nat -> (exists k, n = (k * nc)%nat) ->
    dec_syms n nc bs = Some (syms, r) -> length syms = n.

  Lemma dec_body_len nv nc r1 syms r4 : (1 <= nc)%nat -> (exists k, nv = (k * nc)%nat) ->
    dec_body dec_syms nv nc r1 = Some (syms, r4) -> length syms = nv.
  Proof.
    intros Hnc Hk. unfold dec_body, dec_sym_body. destruct r1 as [|comp r2]; [discriminate|].
    destruct (comp >? 0); [apply sym_len; assumption|].
    destruct r2 as [|nb r3]; [discriminate|].
    destruct (nb =? 4); [apply dec_raw_vals_len|].
    destruct (_ <? _); [discriminate|]. destruct (_ <? _); [discriminate|]. apply dec_raw_vals_len.
  Qed.

  Lemma dec_tail_shape delta (nc k : nat) vals r4 rows r : (0 < nc)%nat -> length vals = (k * nc)%nat ->
    dec_tail delta nc vals r4 = Some (rows, r) -> length rows = k /\ Forall (fun row => length row = nc) rows.
  Proof.
    intros Hnc Hl H. destruct (rows_of_shape nc k vals Hnc Hl) as [H1 H2]. unfold dec_tail in H.
    destruct delta.
    - destruct (dec_le 4 r4) as [[mnu r5]|]; [|discriminate].
      destruct (dec_le 4 r5) as [[mxu r6]|]; [|discriminate].
      destruct (wrap_dec_init _ _) as [b|]; [|discriminate]. injection H as <- _.
      destruct (delta_orig_shape b nc (rows_of nc vals) (repeat 0 nc) H2 (repeat_length 0 nc)) as [H3 H4].
      split; [lia|exact H3].
    - injection H as <- _. split; assumption.
  Qed.

  Lemma dec_rest_shape delta nc n r1 rows r : dec_rest dec_syms delta nc n r1 = Some (rows, r) ->
    length rows = n /\ Forall (fun row => length row = nc) rows.
  Proof.
    unfold dec_rest. destruct (nc =? 0)%nat eqn:E1; [discriminate|]. destruct (n =? 0)%nat; [discriminate|].
    destruct (dec_body dec_syms (n * nc) nc r1) as [[syms r4]|] eqn:Eb; [|discriminate].
    apply dec_tail_shape; [apply Nat.eqb_neq in E1; lia|].
    apply Nat.eqb_neq in E1. assert (Hnc : (1 <= nc)%nat) by lia.
    rewrite map_length. apply (dec_body_len _ _ _ _ _ Hnc (ex_intro _ n eq_refl) Eb).
  Qed.

  Lemma dec_int_block_cases nc n bs res : dec_int_block dec_syms nc n bs = Some res ->
    exists delta r1, dec_rest dec_syms delta nc n r1 = Some res.
  Proof.
    intros H. unfold dec_int_block in H. destruct bs as [|pmb r0]; [discriminate|].
    destruct ((i8_of_byte pmb <? PREDICTION_NONE_) || (i8_of_byte pmb >=? NUM_PREDICTION_SCHEMES_)); [discriminate|].
    destruct (i8_of_byte pmb =? PREDICTION_NONE_).
    - exists false, r0. rewrite dec_rest_eq. exact H.
    - destruct r0 as [|ttb r1]; [discriminate|].
      destruct ((i8_of_byte ttb <? PREDICTION_TRANSFORM_NONE_) || (i8_of_byte ttb >=? NUM_PREDICTION_SCHEME_TRANSFORM_TYPES_)); [discriminate|].
      exists (i8_of_byte ttb =? PREDICTION_TRANSFORM_WRAP_), r1. rewrite dec_rest_eq. exact H.
  Qed.

  Theorem dec_int_block_shape nc n bs rows r : dec_int_block dec_syms nc n bs = Some (rows, r) ->
    length rows = n /\ Forall (fun row => length row = nc) rows.
  Proof. intros H. destruct (dec_int_block_cases _ _ _ _ H) as (delta & r1 & H'). apply (dec_rest_shape _ _ _ _ _ _ H'). Qed.
End IntBlockShape.

(** * Quantized normals: the 2-component block with the canonicalized octahedral delta transform *)

Lemma pairs_flat pts : pairs (flat_pts pts) = pts.
Proof.
  induction pts as [|[s t] pts IH]; [reflexivity|].
  unfold flat_pts in *. cbn [map concat fst snd app pairs]. rewrite IH. reflexivity.
Qed.

Lemma flat_pts_length pts : length (flat_pts pts) = (length pts * 2)%nat.
Proof. induction pts as [|p pts IH]; [reflexivity|]. unfold flat_pts in *. cbn [map concat app length]. rewrite IH. lia. Qed.

Lemma pairs_length : forall k l, length l = (k * 2)%nat -> length (pairs l) = k.
Proof.
  induction k as [|k IH]; intros l Hl.
  - destruct l; [reflexivity|cbn in Hl; lia].
  - destruct l as [|a [|b l]]; try (cbn in Hl; lia). cbn [pairs length]. rewrite IH; [reflexivity|cbn in Hl; lia].
Qed.

Lemma oct_delta_orig_length step : forall corrs prev, length (oct_delta_orig step prev corrs) = length corrs.
Proof. induction corrs as [|c corrs IH]; intros prev; [reflexivity|]. cbn [oct_delta_orig length]. rewrite IH. reflexivity. Qed.

Lemma Forall_flat_pts (P : Z -> Prop) pts : Forall (fun p => P (fst p) /\ P (snd p)) pts -> Forall P (flat_pts pts).
Proof.
  induction 1 as [|p pts [H1 H2] _ IH]; [constructor|]. unfold flat_pts in *. cbn [map concat app].
  constructor; [exact H1|]. constructor; [exact H2|exact IH].
Qed.

(** the decoder's DecodeTransformData recovers the tool box of the encoder from max_quantized_value
    (finite domain q = 2..30, checked by computation; the bound is set_quantization_bits' own) *)
Definition obox_eqb (a b : obox) : bool :=
  (ob_q a =? ob_q b) && (ob_mqv a =? ob_mqv b) && (ob_maxv a =? ob_maxv b) && (ob_center a =? ob_center b).
Lemma obox_eqb_eq a b : obox_eqb a b = true -> a = b.
Proof. destruct a as [a1 a2 a3 a4], b as [b1 b2 b3 b4]. unfold obox_eqb. cbn [ob_q ob_mqv ob_maxv ob_center]. intros H. f_equal; lia. Qed.

Lemma set_qb_dec_init q b : set_quantization_bits q = Some b ->
  oct_canon_dec_init (ob_mqv b) = Some b /\ 0 <= ob_mqv b < 2 ^ 31 /\ 0 <= ob_center b < 2 ^ 31.
Proof.
  intros Hb.
  assert (Hq : 2 <= q <= 30).
  { unfold set_quantization_bits in Hb. destruct ((q <? 2) || (q >? 30)) eqn:E; [discriminate|lia]. }
  pose (f := fun q => match set_quantization_bits (q + 2) with
                      | Some b => match oct_canon_dec_init (ob_mqv b) with Some b' => obox_eqb b' b | None => false end
                                  && (0 <=? ob_mqv b) && (ob_mqv b <? 2 ^ 31) && (0 <=? ob_center b) && (ob_center b <? 2 ^ 31)
                      | None => false end).
  assert (H : f (q - 2) = true).
  { apply (range_forallb f 29); [vm_compute; reflexivity | lia]. }
  unfold f in H. clear f. cbv beta in H. replace (q - 2 + 2) with q in H by lia. rewrite Hb in H.
  destruct (oct_canon_dec_init (ob_mqv b)) as [b'|]; [|discriminate].
  destruct (obox_eqb b' b) eqn:E; [|discriminate]. apply obox_eqb_eq in E. subst b'.
  split; [reflexivity|]. change (2 ^ 31) with 2147483648 in *. lia.
Qed.

Lemma in_square_i32 c p : 1 <= c <= cmax -> in_square c p -> i32 (fst p) /\ i32 (snd p).
Proof. unfold in_square, cmax, i32. intros. lia. Qed.

Section NormBlock.
  Variable enc_syms : Z -> Z -> Z -> list Z -> option bytes.
  Variable dec_syms : nat -> nat -> bytes -> option (list Z * bytes).
  Variable sym_guard' : Z -> list Z -> Prop.
  Hypothesis sym_law : forall method lvl nc syms bs rest, sym_guard' nc syms ->
    enc_syms method lvl nc syms = Some bs -> dec_syms (length syms) (Z.to_nat nc) (bs ++ rest) = Some (syms, rest).

  (** the delta predictor with the canonicalized octahedral transform: every original the encoder feeds is canonical
      (C07), every prediction is the previous decoded point, hence in the square; the first prediction is (0,0) *)
  Lemma oct_delta_roundtrip q b : set_quantization_bits q = Some b -> forall pts prev,
    Forall (canonical (ob_center b)) pts -> in_square (ob_center b) prev ->
    oct_delta_orig (oct_dec_step b) prev (oct_delta_corr b prev pts) = pts /\
    Forall (in_square (ob_center b)) (oct_delta_corr b prev pts).
  Proof.
    intros Hb.
    assert (Hq : 2 <= q <= 30).
    { unfold set_quantization_bits in Hb. destruct ((q <? 2) || (q >? 30)) eqn:E; [discriminate|lia]. }
    pose proof (center_bounds q Hq) as Hc.
    assert (Eb : b = obox_of_center (2 ^ (q - 1) - 1)).
    { rewrite (set_quantization_bits_center q Hq) in Hb. injection Hb as <-. reflexivity. }
    induction pts as [|p pts IH]; intros prev HF Hp; cbn [oct_delta_corr oct_delta_orig]; [split; [reflexivity|constructor]|].
    apply Forall_cons_iff in HF. destruct HF as [Hcan HF].
    destruct (oct_canon_roundtrip_q q b p prev Hb Hcan Hp) as [Hrt Hsq].
    assert (Hstep : oct_dec_step b prev (oct_canon_enc b p prev) = p).
    { unfold oct_dec_step. rewrite Eb in *. cbn [ob_center obox_of_center] in *.
      destruct (in_square_i32 _ _ Hc Hsq) as [H1 H2].
      rewrite (oct_canon_dec_no_overflow_hostile _ prev _ Hc Hp H1 H2). exact Hrt. }
    rewrite Hstep. destruct (IH p HF (proj1 Hcan)) as [H1 H2]. rewrite H1.
    split; [reflexivity|constructor; assumption].
  Qed.

  Lemma origin_in_square c : 0 <= c -> in_square c (0, 0).
  Proof. unfold in_square. cbn [fst snd]. lia. Qed.

  (** symbols handed to the symbol coder (or written raw) by the normal block *)
  Definition norm_block_syms (o : int_opts) (q : Z) (pts : list pt) : list Z :=
    match set_quantization_bits q with
    | Some b => match io_pred o with
                | PNone => map (zigzag_enc 32) (flat_pts pts)
                | PDelta => map (fun v => v mod 2 ^ 32) (flat_pts (oct_delta_corr b (0, 0) pts))
                end
    | None => []
    end.

  (** compressed-or-raw symbol part *)
  Lemma sym_body_roundtrip o (nc : nat) syms body rest : (0 < nc)%nat -> Forall (fun s => 0 <= s < 2 ^ 32) syms ->
    (io_builtin o = true -> sym_guard' (Z.of_nat nc) syms) ->
    enc_sym_body enc_syms o nc syms = Some body ->
    dec_sym_body dec_syms (length syms) nc (body ++ rest) = Some (syms, rest).
  Proof.
    intros Hnc HF Hg He. unfold enc_sym_body in He. destruct (io_builtin o).
    - destruct (enc_syms (io_method o) (io_level o) (Z.of_nat nc) syms) as [bd|] eqn:Es; [|discriminate].
      apply Some_inj' in He. subst body. rewrite <- app_assoc.
      exact (dec_body_builtin enc_syms dec_syms sym_guard' sym_law nc syms bd rest _ _ Hnc (Hg eq_refl) Es).
    - apply Some_inj' in He. subst body. rewrite <- app_assoc.
      exact (dec_body_raw dec_syms nc syms rest HF).
  Qed.

  (** the decoder on the two headers the encoder writes *)
  Lemma dec_norm_block_none ver n r1 :
    dec_norm_block dec_syms ver n (254 :: r1) =
      if (n =? 0)%nat then None else
      match dec_sym_body dec_syms (n * 2) 2 r1 with
      | None => None
      | Some (syms, r4) => Some (pairs (map (zigzag_dec 32) syms), r4)
      end.
  Proof. reflexivity. Qed.

  Lemma dec_norm_block_canon ver n r1 :
    dec_norm_block dec_syms ver n (0 :: 3 :: r1) =
      if (n =? 0)%nat then None else
      match dec_sym_body dec_syms (n * 2) 2 r1 with
      | None => None
      | Some (syms, r4) =>
        match dec_le 4 r4 with
        | None => None
        | Some (mqv, r5) =>
          match dec_le 4 r5 with
          | None => None
          | Some (_, r6) =>
            match oct_canon_dec_init (i32_of_u32 mqv) with
            | None => None
            | Some b => Some (oct_delta_orig (oct_dec_step b) (0, 0) (pairs (map i32_of_u32 syms)), r6)
            end
          end
        end
      end.
  Proof. reflexivity. Qed.

  Lemma map_id_on {A} (f : A -> A) l : Forall (fun x => f x = x) l -> map f l = l.
  Proof. induction 1 as [|x l Hx _ IH]; [reflexivity|]. cbn [map]. rewrite Hx, IH. reflexivity. Qed.

  (** THE normal-block theorem *)
  Theorem norm_block_roundtrip ver o q b pts bs rest : pts <> [] -> set_quantization_bits q = Some b ->
    Forall (canonical (ob_center b)) pts ->
    (io_builtin o = true -> sym_guard' 2 (norm_block_syms o q pts)) ->
    enc_norm_block enc_syms o q pts = Some bs ->
    dec_norm_block dec_syms ver (length pts) (bs ++ rest) = Some (pts, rest).
  Proof.
    intros Hne Hb Hcan Hg He.
    assert (Hq : 2 <= q <= 30).
    { unfold set_quantization_bits in Hb. destruct ((q <? 2) || (q >? 30)) eqn:E; [discriminate|lia]. }
    pose proof (center_bounds q Hq) as Hc.
    assert (Ec : ob_center b = 2 ^ (q - 1) - 1).
    { rewrite (set_quantization_bits_center q Hq) in Hb. injection Hb as <-. reflexivity. }
    rewrite <- Ec in Hc.
    assert (Hn0 : (length pts =? 0)%nat = false) by (destruct pts; [congruence|reflexivity]).
    assert (He' : enc_norm_block enc_syms o q pts =
              match enc_sym_body enc_syms o 2 (norm_block_syms o q pts) with
              | Some body => Some ((match io_pred o with PNone => [254] | PDelta => [0; 3] end) ++ body ++
                                   (match io_pred o with PNone => [] | PDelta => enc_le 4 (ob_mqv b mod 2 ^ 32) ++ enc_le 4 (ob_center b mod 2 ^ 32) end))
              | None => None
              end).
    { unfold enc_norm_block, norm_block_syms. destruct pts as [|p0 pts']; [congruence|]. rewrite Hb.
      destruct (io_pred o); reflexivity. }
    rewrite He' in He. clear He'.
    destruct (enc_sym_body enc_syms o 2 (norm_block_syms o q pts)) as [body|] eqn:Eb; [|discriminate].
    apply Some_inj' in He. subst bs.
    unfold norm_block_syms in *. rewrite Hb in *.
    destruct (io_pred o).
    - (* no prediction: zig-zag of the points *)
      assert (Hi : Forall i32 (flat_pts pts)).
      { apply Forall_flat_pts. eapply Forall_impl; [|exact Hcan]. cbv beta. intros p [Hp _]. apply (in_square_i32 _ _ Hc Hp). }
      cbn [app]. rewrite dec_norm_block_none, Hn0. rewrite app_nil_r.
      replace (length pts * 2)%nat with (length (map (zigzag_enc 32) (flat_pts pts))) by (rewrite map_length; apply flat_pts_length).
      rewrite (sym_body_roundtrip o 2 _ body rest ltac:(lia) (zigzag_list_range _ Hi) Hg Eb).
      rewrite (zigzag_list_inverse _ Hi), pairs_flat. reflexivity.
    - (* delta with the canonicalized octahedral transform *)
      assert (H0c : 0 <= ob_center b) by lia.
      destruct (oct_delta_roundtrip q b Hb pts (0, 0) Hcan (origin_in_square _ H0c)) as [Hrt Hsq].
      set (corrs := oct_delta_corr b (0, 0) pts) in *.
      assert (Hr : Forall (fun v => 0 <= v < 2 ^ 31) (flat_pts corrs)).
      { apply Forall_flat_pts. eapply Forall_impl; [|exact Hsq]. cbv beta. intros p Hp.
        unfold in_square, cmax in *. change (2 ^ 31) with 2147483648. lia. }
      assert (Hmod : map (fun v => v mod 2 ^ 32) (flat_pts corrs) = flat_pts corrs).
      { apply map_id_on. eapply Forall_impl; [|exact Hr]. cbv beta. intros v Hv. apply Z.mod_small.
        change (2 ^ 31) with 2147483648 in Hv. change (2 ^ 32) with 4294967296. lia. }
      rewrite Hmod in *.
      assert (H32 : Forall (fun s => 0 <= s < 2 ^ 32) (flat_pts corrs)).
      { eapply Forall_impl; [|exact Hr]. cbv beta. change (2 ^ 31) with 2147483648. change (2 ^ 32) with 4294967296. lia. }
      assert (Hid : map i32_of_u32 (flat_pts corrs) = flat_pts corrs).
      { apply map_id_on. eapply Forall_impl; [|exact Hr]. cbv beta. intros v Hv. unfold i32_of_u32.
        destruct (v <? 2 ^ 31) eqn:E; [reflexivity|lia]. }
      destruct (set_qb_dec_init q b Hb) as (Hinit & Hm & Hcc).
      cbn [app]. rewrite dec_norm_block_canon, Hn0. rewrite <- !app_assoc.
      replace (length pts * 2)%nat with (length (flat_pts corrs)).
      2:{ rewrite flat_pts_length. unfold corrs. f_equal.
          clear. generalize (0, 0). induction pts as [|p pts IH]; intros pv; [reflexivity|]. cbn [oct_delta_corr length]. rewrite IH. reflexivity. }
      rewrite (sym_body_roundtrip o 2 _ body _ ltac:(lia) H32 Hg Eb).
      rewrite (le_roundtrips 4 (ob_mqv b mod 2 ^ 32) _ _ (u32_range _) eq_refl).
      rewrite (le_roundtrips 4 (ob_center b mod 2 ^ 32) _ _ (u32_range _) eq_refl).
      rewrite i32_of_u32_mod by (unfold i32; change (2 ^ 31) with 2147483648 in Hm; lia).
      rewrite Hinit, Hid, pairs_flat, Hrt. reflexivity.
  Qed.

  (** basic facts about the symbols of a normal block *)
  Theorem norm_block_syms_basic o q b pts : pts <> [] -> set_quantization_bits q = Some b ->
    Forall (canonical (ob_center b)) pts -> sym_guard_basic 2 (norm_block_syms o q pts).
  Proof.
    intros Hne Hb Hcan.
    assert (Hq : 2 <= q <= 30).
    { unfold set_quantization_bits in Hb. destruct ((q <? 2) || (q >? 30)) eqn:E; [discriminate|lia]. }
    pose proof (center_bounds q Hq) as Hc.
    assert (Ec : ob_center b = 2 ^ (q - 1) - 1).
    { rewrite (set_quantization_bits_center q Hq) in Hb. injection Hb as <-. reflexivity. }
    rewrite <- Ec in Hc.
    assert (Hlen : length (norm_block_syms o q pts) = (length pts * 2)%nat).
    { unfold norm_block_syms. rewrite Hb. destruct (io_pred o); rewrite map_length, flat_pts_length; [reflexivity|].
      f_equal. generalize (0, 0). clear. induction pts as [|p pts IH]; intros pv; [reflexivity|]. cbn [oct_delta_corr length]. rewrite IH. reflexivity. }
    unfold sym_guard_basic. split; [lia|]. split; [|split].
    - intros E. rewrite E in Hlen. destruct pts; [congruence|cbn in Hlen; lia].
    - exists (length pts). change (Z.to_nat 2) with 2%nat. exact Hlen.
    - unfold norm_block_syms. rewrite Hb. destruct (io_pred o).
      + apply zigzag_list_range. apply Forall_flat_pts. eapply Forall_impl; [|exact Hcan]. cbv beta.
        intros p [Hp _]. apply (in_square_i32 _ _ Hc Hp).
      + apply Forall_forall. intros s Hs. apply in_map_iff in Hs. destruct Hs as (v & <- & _). apply Z.mod_pos_bound. lia.
  Qed.
End NormBlock.

(** shape on arbitrary bytes (C03) *)
Section NormBlockShape.
  Variable dec_syms : nat -> nat -> bytes -> option (list Z * bytes).
  Hypothesis sym_len : forall n nc bs syms r, (1 <= nc)%nat -> (exists k, n = (k * nc)%nat) ->
    dec_syms n nc bs = Some (syms, r) -> length syms = n.

  Theorem dec_norm_block_len ver n bs pts r : dec_norm_block dec_syms ver n bs = Some (pts, r) -> length pts = n.
  Proof.
    unfold dec_norm_block. destruct bs as [|pmb r0]; [discriminate|].
    destruct ((i8_of_byte pmb <? PREDICTION_NONE_) || (i8_of_byte pmb >=? NUM_PREDICTION_SCHEMES_)); [discriminate|].
    match goal with |- match ?h with _ => _ end = _ -> _ => destruct h as [[trt r1]|]; [|discriminate] end.
    destruct (n =? 0)%nat; [discriminate|].
    destruct (dec_sym_body dec_syms (n * 2) 2 r1) as [[syms r4]|] eqn:Eb; [|discriminate].
    assert (Hl : length syms = (n * 2)%nat).
    { apply (dec_body_len dec_syms sym_len (n * 2) 2 r1 syms r4); [lia|exists n; reflexivity|exact Eb]. }
    destruct (trt =? PREDICTION_TRANSFORM_NORMAL_OCTAHEDRON_CANONICALIZED_).
    { destruct (dec_le 4 r4) as [[mqv r5]|]; [|discriminate]. destruct (dec_le 4 r5) as [[cv r6]|]; [|discriminate].
      destruct (oct_canon_dec_init _) as [b|]; [|discriminate]. intros H. injection H as <- _.
      rewrite oct_delta_orig_length. apply pairs_length. rewrite map_length. exact Hl. }
    destruct (trt =? PREDICTION_TRANSFORM_NORMAL_OCTAHEDRON_).
    { destruct (dec_le 4 r4) as [[mqv r5]|]; [|discriminate].
      match goal with |- match ?h with _ => _ end = _ -> _ => destruct h as [r6|]; [|discriminate] end.
      destruct (set_max_quantized_value _) as [b|]; [|discriminate]. intros H. injection H as <- _.
      rewrite oct_delta_orig_length. apply pairs_length. rewrite map_length. exact Hl. }
    intros H. injection H as <- _. apply pairs_length. rewrite map_length. exact Hl.
  Qed.
End NormBlockShape.
