(** Proofs about Model/SeqCodec.v: the sequential point-cloud and mesh codecs round-trip end to end
    (C01 for the sequential methods, C06 exact consumption), the sequential decoders only return
    structurally valid geometry on arbitrary bytes (C03), and skipping attribute transforms only
    changes the skipped attributes (C10).  The symbol coder and the metadata coder are parameters; only
    their round-trip laws (and, for C03, that the symbol decoder returns the announced count) are assumed. *)
From Coq Require Import ZifyBool Znumtheory.
From Draco Require Import Base.Codec Base.Bits Base.Float32 Gen.Constants Model.Varint Model.Wrap Model.Quantize
  Model.Octahedron Model.Normals Model.SeqAttr Model.SeqCodec Proofs.Varint_proofs Proofs.Wrap_proofs Proofs.Quantize_proofs
  Proofs.Octahedron_proofs Proofs.Normals_proofs Proofs.SeqAttr_proofs.
Local Open Scope Z_scope.

Lemma Some_inj {A} (a b : A) : Some a = Some b -> a = b.
Proof. congruence. Qed.

Lemma width32 : width_ok 32.
Proof. unfold width_ok; tauto. Qed.

Lemma varint32_rt v bs rest : 0 <= v < 2 ^ 32 -> enc_varint_u v = Some bs -> dec_varint_u 32 (bs ++ rest) = Some (v, rest).
Proof. intros. apply (varint_u_roundtrips 32 width32); assumption. Qed.

Lemma varint_nonempty v bs : 0 <= v < 2 ^ 32 -> enc_varint_u v = Some bs -> (1 <= length bs)%nat.
Proof.
  intros Hv He. destruct (enc_varint_u_total 32 v width32 Hv) as (bs' & E & Hl & _).
  rewrite He in E. injection E as <-. lia.
Qed.

(** * 2a. header *)

Definition pc_header (has_md : bool) : header :=
  {| h_maj := kDracoPointCloudBitstreamVersionMajor; h_min := kDracoPointCloudBitstreamVersionMinor;
     h_type := POINT_CLOUD_; h_method := POINT_CLOUD_SEQUENTIAL_ENCODING_;
     h_flags := if has_md then METADATA_FLAG_MASK_ else 0 |}.
Definition mesh_header (has_md : bool) : header :=
  {| h_maj := kDracoMeshBitstreamVersionMajor; h_min := kDracoMeshBitstreamVersionMinor;
     h_type := TRIANGULAR_MESH_; h_method := MESH_SEQUENTIAL_ENCODING_;
     h_flags := if has_md then METADATA_FLAG_MASK_ else 0 |}.

Theorem header_roundtrip_pc has_md rest :
  dec_header (enc_header POINT_CLOUD_ POINT_CLOUD_SEQUENTIAL_ENCODING_ has_md ++ rest) = inl (Some (pc_header has_md, rest)).
Proof. destruct has_md; reflexivity. Qed.

Theorem header_roundtrip_mesh has_md rest :
  dec_header (enc_header TRIANGULAR_MESH_ MESH_SEQUENTIAL_ENCODING_ has_md ++ rest) = inl (Some (mesh_header has_md, rest)).
Proof. destruct has_md; reflexivity. Qed.

(** the header the encoders write passes the decoder's version gates and announces the metadata flag *)
Theorem pc_header_accepted has_md :
  version_ok (pc_header has_md) = true /\
  (h_maj (pc_header has_md) * 256 + h_min (pc_header has_md) <? bitstream_version_2_0) = false /\
  (0 <? Z.land (h_flags (pc_header has_md)) METADATA_FLAG_MASK_) = has_md.
Proof. destruct has_md; vm_compute; repeat split; reflexivity. Qed.

Theorem mesh_header_accepted has_md :
  version_ok (mesh_header has_md) = true /\
  (h_maj (mesh_header has_md) * 256 + h_min (mesh_header has_md) <? bitstream_version_2_2) = false /\
  (0 <? Z.land (h_flags (mesh_header has_md)) METADATA_FLAG_MASK_) = has_md.
Proof. destruct has_md; vm_compute; repeat split; reflexivity. Qed.

(** * 2a. attribute descriptors *)

Definition desc_ok (d : att_desc) : Prop :=
  0 <= ad_type d < NAMED_ATTRIBUTES_COUNT_ /\ DT_INVALID_ < ad_dt d < DT_TYPES_COUNT_ /\
  1 <= ad_nc d < 256 /\ 0 <= ad_uid d < 2 ^ 32.

Theorem desc_roundtrip d bs rest : desc_ok d -> enc_desc d = Some bs -> dec_desc (bs ++ rest) = Some (d, rest).
Proof.
  intros (Ht & Hdt & Hnc & Hu) He. unfold enc_desc in He.
  destruct (enc_varint_u (ad_uid d)) as [u|] eqn:Eu; [|discriminate]. injection He as <-.
  unfold NAMED_ATTRIBUTES_COUNT_, DT_INVALID_, DT_TYPES_COUNT_ in *.
  cbn [app dec_desc]. rewrite !Z.mod_small by lia.
  unfold NAMED_ATTRIBUTES_COUNT_, DT_INVALID_, DT_TYPES_COUNT_.
  destruct (ad_type d >=? 5) eqn:E1; [lia|].
  destruct ((ad_dt d =? 0) || (ad_dt d >=? 12)) eqn:E2; [lia|].
  destruct (ad_nc d =? 0) eqn:E3; [lia|].
  rewrite (varint32_rt _ _ rest Hu Eu).
  destruct d as [ty dt nc nm uid]. cbn [ad_type ad_dt ad_nc ad_norm ad_uid]. destruct nm; reflexivity.
Qed.

Lemma enc_desc_length d bs : desc_ok d -> enc_desc d = Some bs -> (5 <= length bs)%nat.
Proof.
  intros (_ & _ & _ & Hu) He. unfold enc_desc in He.
  destruct (enc_varint_u (ad_uid d)) as [u|] eqn:Eu; [|discriminate]. injection He as <-.
  pose proof (varint_nonempty _ _ Hu Eu). cbn [app length]. lia.
Qed.

Theorem descs_roundtrip : forall atts bs rest, Forall (fun a => desc_ok (a_desc a)) atts -> enc_descs atts = Some bs ->
  dec_descs (length atts) (bs ++ rest) = Some (map a_desc atts, rest) /\ (5 * length atts <= length bs)%nat.
Proof.
  induction atts as [|a atts IH]; intros bs rest HF He; cbn [enc_descs] in He.
  - injection He as <-. split; [reflexivity|cbn; lia].
  - apply Forall_cons_iff in HF. destruct HF as [Ha HF].
    destruct (enc_desc (a_desc a)) as [x|] eqn:Ex; [|discriminate].
    destruct (enc_descs atts) as [y|] eqn:Ey; [|discriminate]. injection He as <-.
    destruct (IH y rest HF eq_refl) as [H1 H2].
    pose proof (enc_desc_length _ _ Ha Ex).
    split; [|rewrite app_length; cbn [length]; lia].
    cbn [length dec_descs map]. rewrite <- app_assoc. rewrite (desc_roundtrip _ _ _ Ha Ex). rewrite H1. reflexivity.
Qed.

Lemma take_bytes_app : forall l rest, take_bytes (length l) (l ++ rest) = Some (l, rest).
Proof. induction l as [|b l IH]; intros rest; [reflexivity|]. cbn [length app take_bytes]. rewrite IH. reflexivity. Qed.

Lemma take_bytes_length : forall n bs l r, take_bytes n bs = Some (l, r) -> length l = n /\ bs = l ++ r.
Proof.
  induction n as [|n IH]; intros bs l r H; cbn [take_bytes] in H.
  - injection H as <- <-. split; reflexivity.
  - destruct bs as [|b bs]; [discriminate|]. destruct (take_bytes n bs) as [[l' r']|] eqn:E; [|discriminate].
    injection H as <- <-. destruct (IH _ _ _ E) as [H1 H2]. subst bs. split; [cbn; lia|reflexivity].
Qed.

Lemma dec_descs_length : forall n bs ds r, dec_descs n bs = Some (ds, r) -> length ds = n.
Proof.
  induction n as [|n IH]; intros bs ds r H; cbn [dec_descs] in H.
  - injection H as <- _. reflexivity.
  - destruct (dec_desc bs) as [[d r1]|]; [|discriminate]. destruct (dec_descs n r1) as [[ds' r']|] eqn:E; [|discriminate].
    injection H as <- _. cbn. rewrite (IH _ _ _ E). reflexivity.
Qed.

(** * 2d. connectivity *)

Definition flat_faces (faces : list (Z * Z * Z)) : list Z := flat_map (fun f => let '(a, b, c) := f in [a; b; c]) faces.

Lemma triples_flat faces : triples (flat_faces faces) = faces.
Proof. induction faces as [|[[a b] c] faces IH]; [reflexivity|]. cbn [flat_faces flat_map app triples]. fold (flat_faces faces). rewrite IH. reflexivity. Qed.

Lemma flat_faces_length faces : length (flat_faces faces) = (length faces * 3)%nat.
Proof. induction faces as [|[[a b] c] faces IH]; [reflexivity|]. cbn [flat_faces flat_map app length]. fold (flat_faces faces). rewrite IH. lia. Qed.

Definition face_ok (np : Z) (f : Z * Z * Z) : Prop :=
  let '(a, b, c) := f in 0 <= a < np /\ 0 <= b < np /\ 0 <= c < np.

Lemma flat_faces_ok np faces : Forall (face_ok np) faces -> Forall (fun i => 0 <= i < np) (flat_faces faces).
Proof.
  induction 1 as [|[[a b] c] faces (Ha & Hb & Hc) _ IH]; [constructor|].
  cbn [flat_faces flat_map app]. constructor; [assumption|]. constructor; [assumption|]. constructor; [assumption|]. exact IH.
Qed.

(** entropy-coded index differences *)
Lemma odd_2k1 d : Z.odd (d * 2 + 1) = true.
Proof. replace (d * 2 + 1) with (1 + 2 * d) by lia. rewrite Z.odd_add_mul_2. reflexivity. Qed.
Lemma odd_2k d : Z.odd (d * 2 + 0) = false.
Proof. replace (d * 2 + 0) with (0 + 2 * d) by lia. rewrite Z.odd_add_mul_2. reflexivity. Qed.
Lemma div_2k1 d : (d * 2 + 1) / 2 = d.
Proof. replace (d * 2 + 1) with (1 + d * 2) by lia. rewrite Z.div_add by lia. reflexivity. Qed.
Lemma div_2k d : (d * 2 + 0) / 2 = d.
Proof. replace (d * 2 + 0) with (0 + d * 2) by lia. rewrite Z.div_add by lia. reflexivity. Qed.

Theorem undo_index_diffs : forall idx last, 0 <= last < 2 ^ 31 -> Forall (fun i => 0 <= i < 2 ^ 31) idx ->
  undo_diffs last (index_diffs last idx) = Some idx.
Proof.
  induction idx as [|i idx IH]; intros last Hl HF; [reflexivity|].
  apply Forall_cons_iff in HF. destruct HF as [Hi HF].
  cbn [index_diffs undo_diffs]. change (2 ^ 31) with 2147483648 in *.
  destruct (i - last <? 0) eqn:E.
  - rewrite odd_2k1, div_2k1.
    destruct (Z.abs (i - last) >? last) eqn:E2; [lia|].
    replace (last - Z.abs (i - last)) with i by lia. rewrite IH by assumption. reflexivity.
  - rewrite odd_2k, div_2k.
    destruct (Z.abs (i - last) >? 2147483648 - 1 - last) eqn:E2; [lia|].
    replace (last + Z.abs (i - last)) with i by lia. rewrite IH by assumption. reflexivity.
Qed.

Lemma index_diffs_length : forall idx last, length (index_diffs last idx) = length idx.
Proof. induction idx as [|i idx IH]; intros; [reflexivity|]. cbn [index_diffs length]. rewrite IH. reflexivity. Qed.

Lemma index_diffs_range : forall idx last, 0 <= last < 2 ^ 31 -> Forall (fun i => 0 <= i < 2 ^ 31) idx ->
  Forall (fun s => 0 <= s < 2 ^ 32) (index_diffs last idx).
Proof.
  induction idx as [|i idx IH]; intros last Hl HF; [constructor|].
  apply Forall_cons_iff in HF. destruct HF as [Hi HF]. cbn [index_diffs].
  constructor; [|apply IH; assumption].
  change (2 ^ 31) with 2147483648 in *. change (2 ^ 32) with 4294967296. destruct (i - last <? 0) eqn:E; lia.
Qed.

(** raw indices: one of four widths chosen from the number of points *)
Lemma index_roundtrip np i bs rest k : 0 <= i < np -> np < 2 ^ 32 -> enc_index np i = Some bs ->
  dec_indices np (S k) (bs ++ rest) =
    match dec_indices np k rest with Some (l, r') => Some (i :: l, r') | None => None end /\ (1 <= length bs)%nat.
Proof.
  intros Hi Hnp He. unfold enc_index, index_width in He. cbn [dec_indices].
  change (2 ^ 16) with 65536 in *. change (2 ^ 21) with 2097152 in *. change (2 ^ 32) with 4294967296 in *.
  destruct (np <? 256) eqn:E1.
  - change (1 =? 0) with false in He. cbv iota in He. change (Z.to_nat 1) with 1%nat in He. injection He as <-.
    assert (Hr : 0 <= i < 256 ^ Z.of_nat 1) by (change (256 ^ Z.of_nat 1) with 256; lia).
      pose proof (le_roundtrips 1 i _ rest Hr eq_refl) as Hle. cbn [enc_le] in Hle |- *. rewrite Hle. split; [reflexivity|cbn; lia].
  - destruct (np <? 65536) eqn:E2.
    + change (2 =? 0) with false in He. cbv iota in He. change (Z.to_nat 2) with 2%nat in He. injection He as <-.
      assert (Hr : 0 <= i < 256 ^ Z.of_nat 2) by (change (256 ^ Z.of_nat 2) with 65536; lia).
      pose proof (le_roundtrips 2 i _ rest Hr eq_refl) as Hle. cbn [enc_le] in Hle |- *. rewrite Hle. split; [reflexivity|cbn; lia].
    + destruct (np <? 2097152) eqn:E3.
      * change (0 =? 0) with true in He. cbv iota in He.
        assert (Hr : 0 <= i < 2 ^ 32) by (change (2 ^ 32) with 4294967296; lia).
        rewrite (varint32_rt i bs rest Hr He).
        split; [reflexivity|]. apply (varint_nonempty i); [exact Hr|exact He].
      * change (4 =? 0) with false in He. cbv iota in He. change (Z.to_nat 4) with 4%nat in He. injection He as <-.
        assert (Hr : 0 <= i < 256 ^ Z.of_nat 4) by (change (256 ^ Z.of_nat 4) with 4294967296; lia).
      pose proof (le_roundtrips 4 i _ rest Hr eq_refl) as Hle. cbn [enc_le] in Hle |- *. rewrite Hle. split; [reflexivity|cbn; lia].
Qed.

Theorem indices_roundtrip np : np < 2 ^ 32 -> forall idx bs rest, Forall (fun i => 0 <= i < np) idx ->
  ocat (enc_index np) idx = Some bs ->
  dec_indices np (length idx) (bs ++ rest) = Some (idx, rest) /\ (length idx <= length bs)%nat.
Proof.
  intros Hnp. induction idx as [|i idx IH]; intros bs rest HF He; cbn [ocat] in He.
  - injection He as <-. split; [reflexivity|cbn; lia].
  - apply Forall_cons_iff in HF. destruct HF as [Hi HF].
    destruct (enc_index np i) as [x|] eqn:Ex; [|discriminate].
    destruct (ocat (enc_index np) idx) as [y|] eqn:Ey; [|discriminate]. injection He as <-.
    destruct (IH y rest HF eq_refl) as [H1 H2].
    destruct (index_roundtrip np i x (y ++ rest) (length idx) Hi Hnp Ex) as [H3 H4].
    cbn [length]. rewrite <- app_assoc, H3, H1. split; [reflexivity|]. rewrite app_length. lia.
Qed.

(** the well-formedness the mesh theorems need: every index names a point; the counts fit the stream fields *)
Definition faces_ok (np : Z) (faces : list (Z * Z * Z)) : Prop :=
  0 <= np < 2 ^ 32 /\ Z.of_nat (length faces) <= (2 ^ 32 - 1) / 3 /\ Forall (face_ok np) faces.

Lemma forallb_lt np l : Forall (fun i => 0 <= i < np) l -> forallb (fun i => i <? np) l = true.
Proof. intros H. apply forallb_forall. intros i Hi. rewrite Forall_forall in H. specialize (H i Hi). lia. Qed.

Section ConnectivityRaw.
  Variable enc_syms : Z -> Z -> Z -> list Z -> option bytes.
  Variable dec_syms : nat -> nat -> bytes -> option (list Z * bytes).

  Local Ltac Zify.zify_post_hook ::= Z.div_mod_to_equations.

  (** raw indices: the decoder's size guard (nf <= remaining / 3) always passes *)
  Theorem connectivity_roundtrip_raw np faces bs rest : faces_ok np faces ->
    enc_connectivity enc_syms np None faces = Some bs ->
    dec_connectivity dec_syms (bs ++ rest) = Some (np, faces, rest).
  Proof.
    intros (Hnp & Hnf & HF) He. unfold enc_connectivity in He. fold (flat_faces faces) in He.
    destruct (enc_varint_u (Z.of_nat (length faces))) as [nfb|] eqn:Enf; [|discriminate].
    destruct (enc_varint_u np) as [npb|] eqn:Enp; [|discriminate].
    destruct (ocat (enc_index np) (flat_faces faces)) as [body|] eqn:Eb; [|discriminate]. injection He as <-.
    assert (Hnf32 : 0 <= Z.of_nat (length faces) < 2 ^ 32) by (change (2 ^ 32) with 4294967296 in *; lia).
    unfold dec_connectivity. rewrite <- !app_assoc.
    rewrite (varint32_rt _ _ _ Hnf32 Enf). rewrite (varint32_rt _ _ _ Hnp Enp).
    destruct (Z.of_nat (length faces) >? (2 ^ 32 - 1) / 3) eqn:E1; [lia|].
    destruct (indices_roundtrip np (proj2 Hnp) (flat_faces faces) body rest (flat_faces_ok np faces HF) Eb) as [Hd Hlen].
    rewrite flat_faces_length in Hd, Hlen.
    match goal with |- context [Z.of_nat (length faces) >? Z.of_nat ?b / 3] =>
      destruct (Z.of_nat (length faces) >? Z.of_nat b / 3) eqn:E2 end.
    { exfalso. cbn [app length] in E2. rewrite app_length in E2. lia. }
    cbn [app]. change (1 =? 0) with false. cbv iota.
    replace (Z.to_nat (Z.of_nat (length faces) * 3)) with (length faces * 3)%nat by lia.
    rewrite Hd. rewrite forallb_lt by (apply flat_faces_ok; exact HF). rewrite triples_flat. reflexivity.
  Qed.

End ConnectivityRaw.

Section Connectivity.
  Variable enc_syms : Z -> Z -> Z -> list Z -> option bytes.
  Variable dec_syms : nat -> nat -> bytes -> option (list Z * bytes).
  Variable sym_guard' : Z -> list Z -> Prop.
  Hypothesis sym_law : forall method lvl nc syms bs rest, sym_guard' nc syms ->
    enc_syms method lvl nc syms = Some bs -> dec_syms (length syms) (Z.to_nat nc) (bs ++ rest) = Some (syms, rest).

  Local Ltac Zify.zify_post_hook ::= Z.div_mod_to_equations.

  (** entropy-coded differences: the size guard can reject what the encoder wrote (defect D10: a compressed
      body may be shorter than 3 bytes per face), so its passing is a hypothesis: the last premise is exactly
      the decoder's test [num_faces <= remaining_size / 3] on the bytes that follow the two counts
      (the method byte, the symbol block, and whatever follows the connectivity: [rest]). *)
  Theorem connectivity_roundtrip_compressed np method faces bs rest : faces_ok np faces -> np <= 2 ^ 31 ->
    sym_guard' 1 (index_diffs 0 (flat_faces faces)) ->
    enc_connectivity enc_syms np (Some method) faces = Some bs ->
    (forall body, enc_syms method 7 1 (index_diffs 0 (flat_faces faces)) = Some body ->
       3 * Z.of_nat (length faces) <= 1 + Z.of_nat (length body) + Z.of_nat (length rest)) ->
    dec_connectivity dec_syms (bs ++ rest) = Some (np, faces, rest).
  Proof.
    intros (Hnp & Hnf & HF) Hnp31 Hg He Hguard. unfold enc_connectivity in He. fold (flat_faces faces) in He.
    destruct (enc_varint_u (Z.of_nat (length faces))) as [nfb|] eqn:Enf; [|discriminate].
    destruct (enc_varint_u np) as [npb|] eqn:Enp; [|discriminate].
    destruct (enc_syms method 7 1 (index_diffs 0 (flat_faces faces))) as [body|] eqn:Eb; [|discriminate]. injection He as <-.
    specialize (Hguard body eq_refl).
    assert (Hnf32 : 0 <= Z.of_nat (length faces) < 2 ^ 32) by (change (2 ^ 32) with 4294967296 in *; lia).
    unfold dec_connectivity. rewrite <- !app_assoc.
    rewrite (varint32_rt _ _ _ Hnf32 Enf). rewrite (varint32_rt _ _ _ Hnp Enp).
    destruct (Z.of_nat (length faces) >? (2 ^ 32 - 1) / 3) eqn:E1; [lia|].
    cbn [app].
    destruct (Z.of_nat (length faces) >? Z.of_nat (length (0 :: body ++ rest)) / 3) eqn:E2.
    { exfalso. cbn [length] in E2. rewrite app_length in E2. lia. }
    change (0 =? 0) with true. cbv iota.
    replace (Z.to_nat (Z.of_nat (length faces) * 3)) with (length (index_diffs 0 (flat_faces faces)))
      by (rewrite index_diffs_length, flat_faces_length; lia).
    pose proof (sym_law method 7 1 _ body rest Hg Eb) as Hs. change (Z.to_nat 1) with 1%nat in Hs. rewrite Hs.
    assert (Hidx : Forall (fun i => 0 <= i < 2 ^ 31) (flat_faces faces)).
    { eapply Forall_impl; [|exact (flat_faces_ok np faces HF)]. cbv beta. intros; lia. }
    rewrite undo_index_diffs by (assumption || (change (2 ^ 31) with 2147483648; lia)).
    rewrite forallb_lt by (apply flat_faces_ok; exact HF). rewrite triples_flat. reflexivity.
  Qed.

  (** the symbols of the compressed connectivity satisfy the basic guard *)
  Lemma connectivity_syms_basic np faces : faces <> [] -> Forall (face_ok np) faces -> np <= 2 ^ 31 ->
    sym_guard_basic 1 (index_diffs 0 (flat_faces faces)).
  Proof.
    intros Hne HF Hnp. unfold sym_guard_basic. split; [lia|]. split; [|split].
    - intros E. apply (f_equal (@length Z)) in E. rewrite index_diffs_length, flat_faces_length in E.
      destruct faces; [congruence|cbn in E; lia].
    - exists (length (flat_faces faces)). rewrite index_diffs_length. change (Z.to_nat 1) with 1%nat. lia.
    - apply index_diffs_range; [change (2 ^ 31) with 2147483648; lia|].
      eapply Forall_impl; [|exact (flat_faces_ok np faces HF)]. cbv beta. intros; lia.
  Qed.
End Connectivity.

(** * 2b. attributes *)

Lemma dt_len_range dt : DT_INVALID_ < dt < DT_TYPES_COUNT_ -> 1 <= dt_len dt <= 8.
Proof.
  unfold DT_INVALID_, DT_TYPES_COUNT_. intros H.
  assert (Hc : dt = 1 \/ dt = 2 \/ dt = 3 \/ dt = 4 \/ dt = 5 \/ dt = 6 \/ dt = 7 \/ dt = 8 \/ dt = 9 \/ dt = 10 \/ dt = 11) by lia.
  destruct Hc as [ -> | [ -> | [ -> | [ -> | [ -> | [ -> | [ -> | [ -> | [ -> | [ -> | -> ]]]]]]]]]]; vm_compute; split; congruence.
Qed.

Lemma pow256 n : 0 <= n -> 256 ^ Z.of_nat (Z.to_nat n) = 2 ^ (8 * n).
Proof. intros. rewrite Z2Nat.id by lia. change 256 with (2 ^ 8). rewrite <- Z.pow_mul_r by lia. reflexivity. Qed.

Definition att_nc (a : attribute) : nat := Z.to_nat (ad_nc (a_desc a)).
Definition att_opts (a : attribute) : option int_opts :=
  match a_kind a with KGeneric => None | KInteger o => Some o | KQuant _ _ o => Some o | KNormal _ o => Some o end.

(** the octahedral (s,t) points the normal encoder hands to the integer coder (PrepareValues) *)
Definition normal_pts (a : attribute) : option (list pt) :=
  match a_kind a with
  | KNormal q _ =>
      if negb (ad_nc (a_desc a) =? 3) then None else
      match oct_generate_portable q (map vec3_of_row (a_rows a)) with Ok pts => Some pts | _ => None end
  | _ => None
  end.

(** the int32 rows the encoder hands to the integer coder (EncodePortableAttribute) *)
Definition portable_rows (a : attribute) : option (list (list Z)) :=
  match a_kind a with
  | KGeneric => None
  | KInteger _ => omap (omap (to_int32_value (ad_dt (a_desc a)))) (a_rows a)
  | KQuant _ _ _ =>
      match quant_params a with
      | Some p => match generate_portable p (map (map f32_of_bits) (a_rows a)) with
                  | Ok words => Some (map (map i32_of_u32) words)
                  | _ => None
                  end
      | None => None
      end
  | KNormal _ _ => match normal_pts a with Some pts => Some (map row_of_pt pts) | None => None end
  end.

(** what DecodePortableAttribute leaves for the attribute *)
Definition dec_rows (a : attribute) : list (list Z) :=
  match a_kind a with
  | KGeneric => a_rows a
  | _ => match portable_rows a with Some r => r | None => [] end
  end.

(** the decoded attribute (no transform skipped).  Generic and integer attributes: the same description and
    the same values.  Quantized attributes: the same description; the values are the bit patterns of
    InverseTransformAttribute on the words GeneratePortableAttribute produced with the parameters the encoder
    computed (how close they are to the input is property C04, not this file's concern). *)
Definition expected_rows (a : attribute) : list (list Z) :=
  match a_kind a with
  | KQuant _ _ _ =>
      match quant_params a with
      | Some p => match generate_portable p (map (map f32_of_bits) (a_rows a)) with
                  | Ok words => match inverse_transform p words with
                                | Ok fr => map (map bits_of_f32) fr
                                | _ => []
                                end
                  | _ => []
                  end
      | None => []
      end
  | KNormal q _ =>
      match normal_pts a with
      | Some pts => match oct_inverse_transform q pts with Ok vs => map vec3_bits vs | _ => [] end
      | None => []
      end
  | _ => a_rows a
  end.
Definition expected_att (a : attribute) : dec_att :=
  {| da_desc := a_desc a; da_kind_id := kind_id (a_kind a); da_rows := expected_rows a; da_tdata := None; da_oct := None |}.

(** shape of an attribute with [np] points *)
Definition att_ok (np : nat) (a : attribute) : Prop :=
  desc_ok (a_desc a) /\ kind_matches (a_desc a) (a_kind a) = true /\ length (a_rows a) = np /\
  Forall (fun r => length r = att_nc a /\ Forall (fun v => 0 <= v < 2 ^ (8 * dt_len (ad_dt (a_desc a)))) r) (a_rows a) /\
  match a_kind a with
  | KQuant _ (Some (org, _)) _ => length org = att_nc a
  | KNormal _ _ => Forall (fun r => fin3 (vec3_of_row r)) (a_rows a)   (* finite input: C07's domain (an Inf makes the conversion undefined) *)
  | _ => True
  end.

(** quantization helper facts *)
Lemma Forall2_len {A B} (P : A -> B -> Prop) l l' : Forall2 P l l' -> length l = length l'.
Proof. induction 1; cbn; congruence. Qed.
Lemma Forall2_imp {A B} (P Q : A -> B -> Prop) l l' : (forall a b, P a b -> Q a b) -> Forall2 P l l' -> Forall2 Q l l'.
Proof. intros H. induction 1; constructor; auto. Qed.

Lemma rmap_Forall2 {A B} (f : A -> res B) : forall l l', rmap f l = Ok l' -> Forall2 (fun a b => f a = Ok b) l l'.
Proof.
  induction l as [|a l IH]; intros l' H; cbn [rmap] in H.
  - injection H as <-. constructor.
  - destruct (f a) as [b| |] eqn:Fa; cbn [rbind] in H; try discriminate.
    destruct (rmap f l) as [bs| |] eqn:Fl; cbn [rbind] in H; try discriminate.
    injection H as <-. constructor; [exact Fa|apply IH; reflexivity].
Qed.

Lemma quantize_row_len inv : forall row mins ks, quantize_row inv mins row = Ok ks ->
  length ks = length row /\ (length row <= length mins)%nat.
Proof.
  induction row as [|v row IH]; intros mins ks H; cbn [quantize_row] in H.
  - injection H as <-. split; [reflexivity|cbn; lia].
  - destruct mins as [|mn mins]; [discriminate|].
    destruct (quantize_float inv (fsub v mn)) as [k| |]; cbn [rbind] in H; try discriminate.
    destruct (quantize_row inv mins row) as [ks'| |] eqn:E; cbn [rbind] in H; try discriminate.
    injection H as <-. destruct (IH _ _ E). cbn [length]. lia.
Qed.

Lemma dequantize_row_ok read delta : forall ws mins, (length ws <= length mins)%nat ->
  exists vs, dequantize_row read delta mins ws = Ok vs /\ length vs = length ws.
Proof.
  induction ws as [|w ws IH]; intros mins H; cbn [dequantize_row].
  - exists []. split; reflexivity.
  - destruct mins as [|mn mins]; [cbn in H; lia|]. cbn [length] in H.
    destruct (IH mins ltac:(lia)) as (vs & E & Hl). rewrite E. cbn [rbind]. eexists; split; [reflexivity|cbn; lia].
Qed.

Lemma rmap_ok {A B} (f : A -> res B) (P : A -> B -> Prop) : forall l, Forall (fun a => exists b, f a = Ok b /\ P a b) l ->
  exists l', rmap f l = Ok l' /\ Forall2 P l l'.
Proof.
  induction l as [|a l IH]; intros H; cbn [rmap].
  - exists []. split; [reflexivity|constructor].
  - apply Forall_cons_iff in H. destruct H as [(b & Eb & Pb) H]. destruct (IH H) as (l' & E & HP).
    rewrite Eb, E. cbn [rbind]. eexists; split; [reflexivity|constructor; assumption].
Qed.

Lemma u32_word k : 0 <= u32 k < 2 ^ 32.
Proof. unfold u32. apply Z.mod_pos_bound. lia. Qed.

(** GeneratePortableAttribute keeps the shape, produces 32-bit words, and InverseTransformAttribute accepts them *)
Lemma generate_portable_shape p rows words : generate_portable p rows = Ok words ->
  Forall2 (fun r w => length w = length r /\ (length r <= length (qp_min p))%nat /\ Forall (fun x => 0 <= x < 2 ^ 32) w) rows words.
Proof.
  unfold generate_portable. destruct (gen_max_q (qp_bits p)) as [mq| |]; cbn [rbind]; try discriminate.
  intros H. apply rmap_Forall2 in H. eapply Forall2_imp; [|exact H]. cbv beta. intros r w Hr.
  destruct (quantize_row _ (qp_min p) r) as [ks| |] eqn:E; cbn [rbind] in Hr; try discriminate. injection Hr as <-.
  destruct (quantize_row_len _ _ _ _ E) as [H1 H2]. rewrite map_length. split; [assumption|]. split; [assumption|].
  apply Forall_forall. intros x Hx. apply in_map_iff in Hx. destruct Hx as (k & <- & _). apply u32_word.
Qed.

Lemma Forall2_right {A B} (P : A -> B -> Prop) (Q : B -> Prop) l l' : (forall a b, P a b -> Q b) -> Forall2 P l l' -> Forall Q l'.
Proof. intros H. induction 1; constructor; eauto. Qed.

Lemma generate_portable_words p rows words : generate_portable p rows = Ok words ->
  Forall (Forall (fun x => 0 <= x < 2 ^ 32)) words.
Proof.
  intros G. eapply Forall2_right; [|exact (generate_portable_shape _ _ _ G)]. cbv beta. tauto.
Qed.

Lemma inverse_transform_ok p rows words : quantization_valid (qp_bits p) = true ->
  generate_portable p rows = Ok words ->
  exists fr, inverse_transform p words = Ok fr /\ Forall2 (fun w f => length f = length w) words fr.
Proof.
  intros V G. destruct (valid_max_q _ V) as (_ & I & Hm).
  pose proof (generate_portable_shape _ _ _ G) as Hs.
  unfold inverse_transform, inverse_with. rewrite I. cbn [rbind].
  unfold dequantizer_init. replace (2 ^ qp_bits p - 1 <=? 0) with false by lia. cbn [rbind].
  apply rmap_ok. clear G. induction Hs as [|r w rows words (H1 & H2 & _) _ IH]; constructor; [|exact IH].
  apply dequantize_row_ok. lia.
Qed.

Lemma i32_of_u32_back w : 0 <= w < 2 ^ 32 -> i32_of_u32 w mod 2 ^ 32 = w.
Proof.
  unfold i32_of_u32. change (2 ^ 32) with 4294967296. change (2 ^ 31) with 2147483648. intros H.
  destruct (w <? 2147483648) eqn:E; [apply Z.mod_small; lia|]. symmetry. apply Z.mod_unique with (-1); lia.
Qed.

Lemma words_back words : Forall (Forall (fun x => 0 <= x < 2 ^ 32)) words ->
  map (map (fun v => v mod 2 ^ 32)) (map (map i32_of_u32) words) = words.
Proof.
  induction 1 as [|w words Hw _ IH]; [reflexivity|]. cbn [map]. rewrite IH. f_equal.
  induction Hw as [|x w Hx _ IHw]; [reflexivity|]. cbn [map]. rewrite IHw, i32_of_u32_back by assumption. reflexivity.
Qed.

(** ComputeParameters / SetParameters: validity of the bit count and one minimum per component *)
Lemma scan_row_len : forall mins maxs row a b, scan_row mins maxs row = Ok (a, b) ->
  length mins = length row -> length maxs = length row -> length a = length row /\ length b = length row.
Proof.
  induction mins as [|mn mins IH]; intros maxs row a b H Hl1 Hl2.
  - destruct row; [|cbn in Hl1; lia]. cbn in H. injection H as <- <-. split; reflexivity.
  - destruct maxs as [|mx maxs]; [cbn in Hl1, Hl2; lia|]. destruct row as [|v row]; [cbn in Hl1; lia|].
    cbn [scan_row] in H. destruct (f_isnan v); [discriminate|].
    destruct (scan_row mins maxs row) as [[a' b']| |] eqn:E; cbn [rbind] in H; try discriminate.
    injection H as <- <-. cbn [length] in *. destruct (IH maxs row a' b' E ltac:(lia) ltac:(lia)). lia.
Qed.

Lemma scan_rows_len (nc : nat) : forall rows mins maxs a b, scan_rows mins maxs rows = Ok (a, b) ->
  length mins = nc -> length maxs = nc -> Forall (fun r => length r = nc) rows -> length a = nc.
Proof.
  induction rows as [|r rows IH]; intros mins maxs a b H H1 H2 HF; cbn [scan_rows] in H.
  - injection H as <- <-. exact H1.
  - apply Forall_cons_iff in HF. destruct HF as [Hr HF].
    destruct (scan_row mins maxs r) as [[mn mx]| |] eqn:E; cbn [rbind] in H; try discriminate.
    destruct (scan_row_len _ _ _ _ _ E ltac:(lia) ltac:(lia)) as [H3 H4].
    apply (IH mn mx a b H); [lia|lia|exact HF].
Qed.

Lemma quant_params_ok np a p : att_ok np a -> quant_params a = Some p ->
  quantization_valid (qp_bits p) = true /\ length (qp_min p) = att_nc a.
Proof.
  intros (_ & _ & _ & Hrows & Hex) H. unfold quant_params in H.
  destruct (a_kind a) as [|o|q [[org rg]|] o|q o]; try discriminate.
  - unfold set_parameters in H. destruct (quantization_valid q) eqn:V; [|discriminate]. injection H as <-.
    cbn [qp_bits qp_min]. rewrite map_length. split; [exact V|exact Hex].
  - unfold compute_parameters in H. destruct (quantization_valid q) eqn:V; [|discriminate].
    destruct (map (map f32_of_bits) (a_rows a)) as [|r0 rest] eqn:Er; [discriminate|].
    destruct (scan_rows r0 r0 rest) as [[mins maxs]| |] eqn:Es; cbn [rbind] in H; try discriminate.
    destruct (range_of f_zero mins maxs) as [range| |]; cbn [rbind] in H; try discriminate.
    injection H as <-. cbn [qp_bits qp_min]. split; [exact V|].
    assert (HF : Forall (fun r => length r = att_nc a) (r0 :: rest)).
    { rewrite <- Er. apply Forall_forall. intros r Hr. apply in_map_iff in Hr. destruct Hr as (r' & <- & Hr').
      rewrite map_length. rewrite Forall_forall in Hrows. apply (Hrows r' Hr'). }
    apply Forall_cons_iff in HF. destruct HF as [H0 HF].
    apply (scan_rows_len (att_nc a) rest r0 r0 mins maxs Es H0 H0 HF).
Qed.

Lemma ocat_each {A} (f : A -> option bytes) : forall l bs, ocat f l = Some bs -> Forall (fun a => exists x, f a = Some x) l.
Proof.
  induction l as [|a l IH]; intros bs H; cbn [ocat] in H; [constructor|].
  destruct (f a) as [x|] eqn:E; [|discriminate]. destruct (ocat f l) as [y|] eqn:E2; [|discriminate].
  constructor; [exists x; exact E|apply (IH y); reflexivity].
Qed.

(** quantized normals: what PrepareValues produces for finite input (C07) *)
Lemma pt_row_id p : pt_of_row (row_of_pt p) = p.
Proof. destruct p; reflexivity. Qed.

Lemma generate_portable_canonical q rows pts : Forall fin3 rows -> oct_generate_portable q rows = Ok pts ->
  exists b, set_quantization_bits q = Some b /\ length pts = length rows /\ Forall (canonical (ob_center b)) pts.
Proof.
  unfold oct_generate_portable. intros HF H. destruct (set_quantization_bits q) as [b|] eqn:Hb; [|discriminate].
  exists b. split; [reflexivity|]. apply rmap_Forall2 in H. split; [symmetry; apply (Forall2_len _ _ _ H)|].
  induction H as [|v p rows pts Hvp _ IH]; [constructor|].
  apply Forall_cons_iff in HF. destruct HF as [Hv HF]. constructor; [|apply IH; exact HF].
  destruct (encoder_total q b v Hb Hv) as (p' & Ep & Hc). rewrite Hvp in Ep. injection Ep as <-. exact Hc.
Qed.

Lemma normal_pts_ok np a pts : att_ok np a -> normal_pts a = Some pts ->
  exists q o b, a_kind a = KNormal q o /\ ad_nc (a_desc a) = 3 /\ ad_dt (a_desc a) = DT_FLOAT32_ /\
    oct_generate_portable q (map vec3_of_row (a_rows a)) = Ok pts /\
    set_quantization_bits q = Some b /\ length pts = np /\ Forall (canonical (ob_center b)) pts.
Proof.
  intros (Hd & Hk & Hn & Hrows & Hex) H. unfold normal_pts in H.
  destruct (a_kind a) as [|o|q ex o|q o] eqn:Ek; try discriminate.
  destruct (ad_nc (a_desc a) =? 3) eqn:Enc; [|discriminate]. cbn [negb] in H.
  destruct (oct_generate_portable q _) as [pts'| |] eqn:Eg; try discriminate. injection H as <-.
  assert (HF : Forall fin3 (map vec3_of_row (a_rows a))).
  { apply Forall_forall. intros v Hv. apply in_map_iff in Hv. destruct Hv as (r & <- & Hr).
    rewrite Forall_forall in Hex. apply (Hex r Hr). }
  destruct (generate_portable_canonical q _ _ HF Eg) as (b & Hb & Hl & Hc).
  exists q, o, b. cbn [kind_matches] in Hk. rewrite map_length in Hl.
  split; [reflexivity|]. split; [lia|]. split; [lia|]. split; [exact Eg|]. split; [exact Hb|]. split; [lia|exact Hc].
Qed.

Section Atts.
  Variable ver : Z.     (* bitstream version the decoder runs with: the round trips hold for every one *)
  Variable enc_syms : Z -> Z -> Z -> list Z -> option bytes.
  Variable dec_syms : nat -> nat -> bytes -> option (list Z * bytes).
  Variable sym_guard' : Z -> list Z -> Prop.
  Hypothesis sym_law : forall method lvl nc syms bs rest, sym_guard' nc syms ->
    enc_syms method lvl nc syms = Some bs -> dec_syms (length syms) (Z.to_nat nc) (bs ++ rest) = Some (syms, rest).

  (** what the integer coder needs of the portable rows: the guard of the symbol coder on the symbols actually
      passed to it (only when the entropy coder is used).  The delta range condition is not needed: since the
      fix of D7 a successful encode implies it. *)
  Definition att_int_ok (a : attribute) : Prop :=
    match a_kind a with
    | KNormal q o => forall pts, normal_pts a = Some pts -> io_builtin o = true -> sym_guard' 2 (norm_block_syms o q pts)
    | _ => forall o rows, att_opts a = Some o -> portable_rows a = Some rows -> io_builtin o = true ->
             sym_guard' (Z.of_nat (att_nc a)) (int_block_syms o (att_nc a) rows)
    end.

  Lemma enc_values_eq a :
    enc_values enc_syms a =
      match a_kind a with
      | KGeneric => Some (enc_generic (Z.to_nat (dt_len (ad_dt (a_desc a)))) (a_rows a))
      | KNormal q o => match normal_pts a with Some pts => enc_norm_block enc_syms o q pts | None => None end
      | _ => match att_opts a, portable_rows a with
             | Some o, Some rows => enc_int_block enc_syms o (att_nc a) rows
             | _, _ => None
             end
      end.
  Proof.
    unfold enc_values, att_opts, portable_rows, normal_pts, att_nc. destruct (a_kind a) as [|o|q ex o|q o]; [reflexivity| | |].
    - destruct (omap _ (a_rows a)); reflexivity.
    - destruct (quant_params a); [|reflexivity]. destruct (generate_portable _ _); reflexivity.
    - destruct (negb _); [reflexivity|]. destruct (oct_generate_portable _ _); reflexivity.
  Qed.

  (** the portable rows are int32 and keep the shape *)
  Lemma portable_rows_shape np a rows : att_ok np a -> (forall q o, a_kind a <> KNormal q o) -> portable_rows a = Some rows ->
    length rows = np /\ Forall (fun r => length r = att_nc a /\ Forall i32 r) rows.
  Proof.
    intros Hok Hnn H. pose proof Hok as (Hd & Hk & Hn & Hrows & Hex). unfold portable_rows in H.
    destruct (a_kind a) as [|o|q ex o|q o] eqn:Ek; [discriminate| | |exfalso; apply (Hnn q o); reflexivity].
    - cbn [kind_matches] in Hk. apply dt_is_int_spec in Hk.
      destruct (int32_rows_roundtrip _ (att_nc a) Hk _ _ Hrows H) as (_ & H2 & H3). split; [lia|exact H2].
    - destruct (quant_params a) as [p|] eqn:Ep; [|discriminate].
      destruct (generate_portable p _) as [words| |] eqn:Eg; try discriminate. injection H as <-.
      pose proof (generate_portable_shape _ _ _ Eg) as Hs. rewrite map_length.
      split; [rewrite <- (Forall2_len _ _ _ Hs), map_length; exact Hn|].
      assert (Hr' : Forall (fun r => length r = att_nc a) (map (map f32_of_bits) (a_rows a))).
      { apply Forall_forall. intros r Hr. apply in_map_iff in Hr. destruct Hr as (r' & <- & Hr').
        rewrite map_length. rewrite Forall_forall in Hrows. apply (Hrows r' Hr'). }
      clear Eg. induction Hs as [|r w rs ws (H1 & _ & H3) _ IH]; [constructor|].
      apply Forall_cons_iff in Hr'. destruct Hr' as [Hr0 Hr']. cbn [map]. constructor; [|apply IH; exact Hr'].
      rewrite map_length. split; [lia|].
      apply Forall_forall. intros x Hx. apply in_map_iff in Hx. destruct Hx as (y & <- & Hy).
      apply i32_of_u32_i32. rewrite Forall_forall in H3. apply H3, Hy.
  Qed.

  (** value block of one attribute *)
  Theorem values_roundtrip np a bs rest : att_ok np a -> ((0 < np)%nat \/ a_kind a = KGeneric) -> att_int_ok a ->
    enc_values enc_syms a = Some bs ->
    dec_values dec_syms ver np (a_desc a) (kind_id (a_kind a)) (bs ++ rest) = Some (dec_rows a, rest).
  Proof.
    intros Hok Hnp Hint He. pose proof Hok as (Hd & Hk & Hn & Hrows & Hex).
    pose proof Hd as (_ & Hdt & Hnc & _).
    rewrite enc_values_eq in He. unfold dec_values, dec_rows. fold (att_nc a).
    destruct (a_kind a) as [|o|q ex o|q o] eqn:Ek.
    - injection He as <-. change (kind_id KGeneric =? SEQUENTIAL_ATTRIBUTE_ENCODER_GENERIC_) with true. cbv iota.
      rewrite <- Hn. apply generic_roundtrip.
      rewrite pow256 by (pose proof (dt_len_range _ Hdt); lia). exact Hrows.
    - change (kind_id (KInteger o) =? SEQUENTIAL_ATTRIBUTE_ENCODER_GENERIC_) with false.
      change (kind_id (KInteger o) =? SEQUENTIAL_ATTRIBUTE_ENCODER_INTEGER_) with true. cbv iota.
      unfold att_opts in He, Hint. unfold att_int_ok, att_opts in Hint. rewrite Ek in He, Hint.
      destruct (portable_rows a) as [rows|] eqn:Ep; [|discriminate].
      assert (Hnn : forall q' o', a_kind a <> KNormal q' o') by (intros q' o' E; rewrite Ek in E; discriminate).
      destruct (portable_rows_shape np a rows Hok Hnn Ep) as [Hl Hsh].
      pose proof (Hint o rows eq_refl eq_refl) as Hg.
      rewrite <- Hl. apply (int_block_roundtrip enc_syms dec_syms sym_guard' sym_law o (att_nc a) rows bs rest);
        try assumption.
      + unfold att_nc. lia.
      + destruct Hnp as [Hnp|Hnp]; [|congruence]. destruct rows; [cbn in Hl; lia|congruence].
    - change (kind_id (KQuant q ex o) =? SEQUENTIAL_ATTRIBUTE_ENCODER_GENERIC_) with false.
      change (kind_id (KQuant q ex o) =? SEQUENTIAL_ATTRIBUTE_ENCODER_INTEGER_) with false.
      change (kind_id (KQuant q ex o) =? SEQUENTIAL_ATTRIBUTE_ENCODER_QUANTIZATION_) with true. cbv iota.
      cbn [kind_matches] in Hk. destruct (ad_dt (a_desc a) =? DT_FLOAT32_) eqn:Edt; [|cbn in Hk; discriminate].
      unfold att_int_ok, att_opts in Hint. unfold att_opts in He. rewrite Ek in He, Hint.
      destruct (portable_rows a) as [rows|] eqn:Ep; [|discriminate].
      assert (Hnn : forall q' o', a_kind a <> KNormal q' o') by (intros q' o' E; rewrite Ek in E; discriminate).
      destruct (portable_rows_shape np a rows Hok Hnn Ep) as [Hl Hsh].
      pose proof (Hint o rows eq_refl eq_refl) as Hg.
      rewrite <- Hl. apply (int_block_roundtrip enc_syms dec_syms sym_guard' sym_law o (att_nc a) rows bs rest);
        try assumption.
      + unfold att_nc. lia.
      + destruct Hnp as [Hnp|Hnp]; [|congruence]. destruct rows; [cbn in Hl; lia|congruence].
    - (* quantized normals *)
      change (kind_id (KNormal q o) =? SEQUENTIAL_ATTRIBUTE_ENCODER_GENERIC_) with false.
      change (kind_id (KNormal q o) =? SEQUENTIAL_ATTRIBUTE_ENCODER_INTEGER_) with false.
      change (kind_id (KNormal q o) =? SEQUENTIAL_ATTRIBUTE_ENCODER_QUANTIZATION_) with false.
      change (kind_id (KNormal q o) =? SEQUENTIAL_ATTRIBUTE_ENCODER_NORMALS_) with true. cbv iota.
      unfold att_int_ok in Hint. rewrite Ek in Hint.
      destruct (normal_pts a) as [pts|] eqn:Ep; [|discriminate].
      destruct (normal_pts_ok np a pts Hok Ep) as (q' & o' & b & Ek' & Hnc3 & Hdt32 & Eg & Hb & Hl & Hcan).
      rewrite Ek in Ek'. injection Ek' as <- <-.
      rewrite Hnc3, Hdt32. change ((3 =? 3) && (DT_FLOAT32_ =? DT_FLOAT32_)) with true. cbv iota.
      unfold portable_rows. rewrite Ek, Ep.
      rewrite <- Hl.
      rewrite (norm_block_roundtrip enc_syms dec_syms sym_guard' sym_law ver o q b pts bs rest); try assumption; [reflexivity| |].
      + destruct Hnp as [Hnp|Hnp]; [|congruence]. destruct pts; [cbn in Hl; lia|congruence].
      + apply Hint. reflexivity.
  Qed.

  (** transform block + conversion to the original format, nothing skipped *)
  Theorem finish_roundtrip np a vb ts rest : att_ok np a -> enc_values enc_syms a = Some vb ->
    enc_transform_data a = Some ts ->
    finish_att (fun _ => false) (a_desc a) (kind_id (a_kind a)) (dec_rows a) (ts ++ rest) = Some (expected_att a, rest).
  Proof.
    intros Hok Hv He. pose proof Hok as (Hd & Hk & Hn & Hrows & Hex).
    rewrite enc_values_eq in Hv.
    unfold finish_att, enc_transform_data, expected_att, expected_rows, dec_rows, att_opts in *. cbv beta.
    destruct (a_kind a) as [|o|q ex o|q o] eqn:Ek.
    - injection He as <-. reflexivity.
    - injection He as <-.
      change (kind_id (KInteger o) =? SEQUENTIAL_ATTRIBUTE_ENCODER_GENERIC_) with false.
      change (kind_id (KInteger o) =? SEQUENTIAL_ATTRIBUTE_ENCODER_INTEGER_) with true. cbv iota.
      cbn [kind_matches] in Hk. rewrite Hk. apply dt_is_int_spec in Hk.
      destruct (portable_rows a) as [rows|] eqn:Ep; [|discriminate].
      unfold portable_rows in Ep. rewrite Ek in Ep.
      destruct (int32_rows_roundtrip _ (att_nc a) Hk _ _ Hrows Ep) as (H1 & _). rewrite H1. reflexivity.
    - change (kind_id (KQuant q ex o) =? SEQUENTIAL_ATTRIBUTE_ENCODER_GENERIC_) with false.
      change (kind_id (KQuant q ex o) =? SEQUENTIAL_ATTRIBUTE_ENCODER_INTEGER_) with false.
      change (kind_id (KQuant q ex o) =? SEQUENTIAL_ATTRIBUTE_ENCODER_NORMALS_) with false. cbv iota.
      unfold portable_rows in *. rewrite Ek in *.
      destruct (quant_params a) as [p|] eqn:Eq; [|discriminate].
      destruct (quant_params_ok np a p Hok Eq) as [V Hlen].
      destruct (generate_portable p _) as [words| |] eqn:Eg; try discriminate.
      fold (att_nc a). rewrite <- Hlen. rewrite (params_roundtrip p ts rest V He).
      rewrite words_back by (apply (generate_portable_words _ _ _ Eg)).
      destruct (inverse_transform_ok p _ words V Eg) as (fr & Ei & _). rewrite Ei. reflexivity.
    - (* quantized normals: one byte of quantization bits, then InverseTransformAttribute on the (s,t) points *)
      change (kind_id (KNormal q o) =? SEQUENTIAL_ATTRIBUTE_ENCODER_GENERIC_) with false.
      change (kind_id (KNormal q o) =? SEQUENTIAL_ATTRIBUTE_ENCODER_INTEGER_) with false.
      change (kind_id (KNormal q o) =? SEQUENTIAL_ATTRIBUTE_ENCODER_NORMALS_) with true. cbv iota.
      destruct (normal_pts a) as [pts|] eqn:Ep; [|discriminate].
      destruct (normal_pts_ok np a pts Hok Ep) as (q' & o' & b & Ek' & Hnc3 & Hdt32 & Eg & Hb & Hl & Hcan).
      rewrite Ek in Ek'. injection Ek' as <- <-.
      assert (Hq : 2 <= q <= 30).
      { unfold set_quantization_bits in Hb. destruct ((q <? 2) || (q >? 30)) eqn:E; [discriminate|lia]. }
      unfold oct_encode_parameters in He. destruct (q =? -1) eqn:Eq1; [lia|]. apply Some_inj in He. subst ts.
      rewrite (Z.mod_small q 256) by lia. cbn [app oct_decode_parameters].
      unfold portable_rows. rewrite Ek, Ep.
      rewrite map_map. rewrite (map_ext _ (fun p => p) pt_row_id), map_id.
      unfold oct_inverse_transform. rewrite Hb. reflexivity.
  Qed.

  (** when the symbol coder's guard is implied by the basic facts (at least one component, a non-empty
      array of uint32 symbols whose length is a multiple of the component count), nothing remains to be shown
      of an attribute with at least one point *)
  Lemma att_int_ok_basic np a : (forall nc syms, sym_guard_basic nc syms -> sym_guard' nc syms) ->
    att_ok np a -> (0 < np)%nat -> att_int_ok a.
  Proof.
    intros Hb Hok Hnp. unfold att_int_ok.
    assert (Hgen : (forall q o, a_kind a <> KNormal q o) -> forall o rows, att_opts a = Some o -> portable_rows a = Some rows ->
              io_builtin o = true -> sym_guard' (Z.of_nat (att_nc a)) (int_block_syms o (att_nc a) rows)).
    { intros Hnn o rows Ho Hp _. apply Hb.
      destruct (portable_rows_shape np a rows Hok Hnn Hp) as [Hl Hsh].
      pose proof Hok as ((_ & _ & Hnc & _) & _).
      apply int_block_syms_basic; [unfold att_nc; lia| |exact Hsh].
      destruct rows; [cbn in Hl; lia|congruence]. }
    destruct (a_kind a) as [|o|q ex o|q o] eqn:Ek; try (apply Hgen; congruence).
    intros pts Hp _. apply Hb.
    destruct (normal_pts_ok np a pts Hok Hp) as (q' & o' & b & Ek' & _ & _ & _ & Hbq & Hl & Hcan).
    rewrite Ek in Ek'. injection Ek' as <- <-.
    apply (norm_block_syms_basic o q b pts); [|exact Hbq|exact Hcan].
    destruct pts; [cbn in Hl; lia|congruence].
  Qed.

  Definition desc_kinds (atts : list attribute) : list (att_desc * Z) :=
    combine (map a_desc atts) (map (fun a => kind_id (a_kind a)) atts).

  Lemma desc_kinds_cons a atts : desc_kinds (a :: atts) = (a_desc a, kind_id (a_kind a)) :: desc_kinds atts.
  Proof. reflexivity. Qed.

  (** phase 1: all value blocks *)
  Theorem all_values_roundtrip np : forall atts vs tail, Forall (att_ok np) atts ->
    ((0 < np)%nat \/ Forall (fun a => a_kind a = KGeneric) atts) -> Forall att_int_ok atts ->
    ocat (enc_values enc_syms) atts = Some vs ->
    dec_all_values dec_syms ver np (desc_kinds atts) (vs ++ tail) = Some (map dec_rows atts, tail).
  Proof.
    induction atts as [|a atts IH]; intros vs tail Hok Hnp Hint He; cbn [ocat] in He.
    - injection He as <-. reflexivity.
    - apply Forall_cons_iff in Hok. destruct Hok as [Ha Hok]. apply Forall_cons_iff in Hint. destruct Hint as [Hi Hint].
      destruct (enc_values enc_syms a) as [x|] eqn:Ex; [|discriminate].
      destruct (ocat (enc_values enc_syms) atts) as [y|] eqn:Ey; [|discriminate]. injection He as <-.
      rewrite desc_kinds_cons. cbn [dec_all_values map]. rewrite <- app_assoc.
      rewrite (values_roundtrip np a x (y ++ tail) Ha); [|destruct Hnp as [Hnp|Hnp]; [left; exact Hnp|right; apply (Forall_inv Hnp)]|exact Hi|exact Ex].
      rewrite (IH y tail Hok); [reflexivity| |exact Hint|reflexivity].
      destruct Hnp as [Hnp|Hnp]; [left; exact Hnp|right; apply (Forall_inv_tail Hnp)].
  Qed.

  (** phase 2: all transform blocks *)
  Theorem finish_all_roundtrip np : forall atts ts rest, Forall (att_ok np) atts ->
    Forall (fun a => exists vb, enc_values enc_syms a = Some vb) atts ->
    ocat enc_transform_data atts = Some ts ->
    finish_all (fun _ => false) (desc_kinds atts) (map dec_rows atts) (ts ++ rest) = Some (map expected_att atts, rest).
  Proof.
    induction atts as [|a atts IH]; intros ts rest Hok Hv He; cbn [ocat] in He.
    - injection He as <-. reflexivity.
    - apply Forall_cons_iff in Hok. destruct Hok as [Ha Hok]. apply Forall_cons_iff in Hv. destruct Hv as [[vb Hvb] Hv].
      destruct (enc_transform_data a) as [x|] eqn:Ex; [|discriminate].
      destruct (ocat enc_transform_data atts) as [y|] eqn:Ey; [|discriminate]. injection He as <-.
      rewrite desc_kinds_cons. cbn [finish_all map]. rewrite <- app_assoc.
      rewrite (finish_roundtrip np a vb x (y ++ rest) Ha Hvb Ex).
      rewrite (IH y rest Hok Hv eq_refl). reflexivity.
  Qed.

  (** the attribute section of a stream *)
  Definition atts_ok (np : nat) (atts : list attribute) : Prop :=
    Z.of_nat (length atts) < 2 ^ 32 /\ Forall (att_ok np) atts /\ Forall att_int_ok atts /\
    ((0 < np)%nat \/ Forall (fun a => a_kind a = KGeneric) atts).

  Lemma kinds_valid atts :
    forallb (fun k => (k =? SEQUENTIAL_ATTRIBUTE_ENCODER_GENERIC_) || (k =? SEQUENTIAL_ATTRIBUTE_ENCODER_INTEGER_)
                      || (k =? SEQUENTIAL_ATTRIBUTE_ENCODER_QUANTIZATION_) || (k =? SEQUENTIAL_ATTRIBUTE_ENCODER_NORMALS_))
            (map (fun a => kind_id (a_kind a)) atts) = true.
  Proof. induction atts as [|a atts IH]; [reflexivity|]. cbn [map forallb]. rewrite IH. destruct (a_kind a); reflexivity. Qed.

  Theorem attributes_roundtrip np atts bs rest : atts_ok np atts -> enc_attributes enc_syms atts = Some bs ->
    dec_attributes dec_syms (fun _ => false) ver np (bs ++ rest) = Some (map expected_att atts, rest).
  Proof.
    intros (Hn & Hok & Hint & Hnp) He. unfold enc_attributes in He.
    destruct atts as [|a0 atts0].
    - injection He as <-. reflexivity.
    - cbv iota in He. assert (Hlen : length (a0 :: atts0) <> 0%nat) by (cbn; lia).
      remember (a0 :: atts0) as atts eqn:Eatts. clear Eatts a0 atts0.
      destruct (negb (forallb _ atts)); [discriminate|].
      destruct (enc_varint_u (Z.of_nat (length atts))) as [n|] eqn:En; [|discriminate].
      destruct (enc_descs atts) as [ds|] eqn:Eds; [|discriminate].
      destruct (ocat (enc_values enc_syms) atts) as [vs|] eqn:Evs; [|discriminate].
      destruct (ocat enc_transform_data atts) as [ts|] eqn:Ets; [|discriminate]. injection He as <-.
      assert (Hdesc : Forall (fun a => desc_ok (a_desc a)) atts).
      { eapply Forall_impl; [|exact Hok]. cbv beta. unfold att_ok. tauto. }
      set (kinds := map (fun a => kind_id (a_kind a)) atts).
      assert (Hone : dec_one_decoder_data (n ++ ds ++ kinds ++ vs ++ ts ++ rest) = Some (desc_kinds atts, vs ++ ts ++ rest)).
      { unfold dec_one_decoder_data.
        assert (Hn32 : 0 <= Z.of_nat (length atts) < 2 ^ 32) by lia.
        rewrite (varint32_rt _ _ _ Hn32 En).
        destruct (Z.of_nat (length atts) =? 0) eqn:E0; [lia|].
        destruct (descs_roundtrip atts ds (kinds ++ vs ++ ts ++ rest) Hdesc Eds) as [Hdd Hl5].
        destruct (Z.of_nat (length atts) >? 5 * Z.of_nat (length (ds ++ kinds ++ vs ++ ts ++ rest))) eqn:E1.
        { rewrite app_length in E1. lia. }
        rewrite Nat2Z.id, Hdd.
        replace (length atts) with (length kinds) by (unfold kinds; apply map_length).
        rewrite take_bytes_app. unfold kinds. rewrite kinds_valid. reflexivity. }
      unfold dec_attributes. cbn [app]. change (Z.to_nat 1) with 1%nat. cbn [dec_decoders_data].
      rewrite <- !app_assoc. rewrite Hone. cbn [dec_decoders_atts].
      rewrite (all_values_roundtrip np atts vs (ts ++ rest) Hok Hnp Hint Evs).
      rewrite (finish_all_roundtrip np atts ts rest Hok (ocat_each _ _ _ Evs) Ets).
      rewrite app_nil_r. reflexivity.
  Qed.
End Atts.

(** * 2c, 2e, 2g. the whole streams *)

Section Streams.
  Variable enc_syms : Z -> Z -> Z -> list Z -> option bytes.
  Variable dec_syms : nat -> nat -> bytes -> option (list Z * bytes).
  Variable sym_guard' : Z -> list Z -> Prop.
  Hypothesis sym_law : forall method lvl nc syms bs rest, sym_guard' nc syms ->
    enc_syms method lvl nc syms = Some bs -> dec_syms (length syms) (Z.to_nat nc) (bs ++ rest) = Some (syms, rest).
  Context {MD : Type}.
  Variable enc_md : MD -> option bytes.
  Variable dec_md : bytes -> option (MD * bytes).
  Variable md_ok : MD -> Prop.
  Hypothesis md_law : forall m bs rest, md_ok m -> enc_md m = Some bs -> dec_md (bs ++ rest) = Some (m, rest).

  Definition md_opt_ok (md : option MD) : Prop := match md with Some m => md_ok m | None => True end.
  Definition has_md (md : option MD) : bool := match md with Some _ => true | None => false end.

  Lemma md_opt_roundtrip md mb rest : md_opt_ok md -> enc_md_opt enc_md md = Some mb ->
    (if has_md md then match dec_md (mb ++ rest) with Some (m, r) => Some (Some m, r) | None => None end
     else Some (None, mb ++ rest)) = Some (md, rest).
  Proof.
    intros Hok He. destruct md as [m|]; cbn [has_md enc_md_opt] in *.
    - rewrite (md_law m mb rest Hok He). reflexivity.
    - injection He as <-. reflexivity.
  Qed.

  (** [pc_ok]: the point count fits its 32-bit field; the metadata satisfy the metadata coder's domain;
      the attributes are well shaped for that many points (see [atts_ok], [att_ok], [att_int_ok]). *)
  Definition pc_ok (np : Z) (md : option MD) (atts : list attribute) : Prop :=
    0 <= np < 2 ^ 32 /\ md_opt_ok md /\ atts_ok sym_guard' (Z.to_nat np) atts.

  Theorem seq_pc_roundtrips np md atts bs rest : pc_ok np md atts ->
    enc_pc_seq enc_syms enc_md np md atts = Some bs ->
    dec_pc_seq dec_syms dec_md (fun _ => false) (bs ++ rest)
      = Some ({| dp_npoints := np; dp_md := md; dp_atts := map expected_att atts |}, rest).
  Proof.
    intros (Hnp & Hmd & Hatts) He. unfold enc_pc_seq in He.
    destruct (enc_md_opt enc_md md) as [mb|] eqn:Em; [|discriminate].
    destruct (enc_attributes enc_syms atts) as [ab|] eqn:Ea; [|discriminate]. apply Some_inj in He. subst bs.
    fold (has_md md). unfold dec_pc_seq. rewrite <- !app_assoc. rewrite header_roundtrip_pc.
    destruct (pc_header_accepted (has_md md)) as (H1 & H2 & H3).
    change (negb (h_type (pc_header (has_md md)) =? POINT_CLOUD_)) with false.
    change (negb (h_method (pc_header (has_md md)) =? POINT_CLOUD_SEQUENTIAL_ENCODING_)) with false.
    rewrite H1, H2, H3. cbn [negb]. cbv iota.
    rewrite (md_opt_roundtrip md mb _ Hmd Em).
    rewrite (le_roundtrips 4 (np mod 2 ^ 32) _ _ (u32_range np) eq_refl).
    rewrite (Z.mod_small np) by lia.
    rewrite (attributes_roundtrip _ enc_syms dec_syms sym_guard' sym_law (Z.to_nat np) atts ab rest Hatts Ea).
    reflexivity.
  Qed.

  (** [mesh_ok]: as [pc_ok], plus [faces_ok]; for entropy-coded connectivity the symbol coder's guard on the
      index differences, np <= 2^31 (the differences are computed in int32), and the explicit premise that the
      decoder's size guard passes (defect D10), measured on the real stream: method byte + symbol block +
      attribute section + what follows. *)
  Definition mesh_ok (np : Z) (md : option MD) (conn : option Z) (faces : list (Z * Z * Z)) (atts : list attribute)
                     (rest : bytes) : Prop :=
    faces_ok np faces /\ md_opt_ok md /\ atts_ok sym_guard' (Z.to_nat np) atts /\
    match conn with
    | None => True
    | Some method =>
        np <= 2 ^ 31 /\ sym_guard' 1 (index_diffs 0 (flat_faces faces)) /\
        forall body ab, enc_syms method 7 1 (index_diffs 0 (flat_faces faces)) = Some body ->
          enc_attributes enc_syms atts = Some ab ->
          3 * Z.of_nat (length faces) <= 1 + Z.of_nat (length body) + Z.of_nat (length ab) + Z.of_nat (length rest)
    end.

  Theorem seq_mesh_roundtrips np md conn faces atts bs rest : mesh_ok np md conn faces atts rest ->
    enc_mesh_seq enc_syms enc_md np md conn faces atts = Some bs ->
    dec_mesh_seq dec_syms dec_md (fun _ => false) (bs ++ rest)
      = Some ({| dm_npoints := np; dm_md := md; dm_faces := faces; dm_atts := map expected_att atts |}, rest).
  Proof.
    intros (Hf & Hmd & Hatts & Hconn) He. unfold enc_mesh_seq in He.
    destruct (enc_md_opt enc_md md) as [mb|] eqn:Em; [|discriminate].
    destruct (enc_connectivity enc_syms np conn faces) as [cb|] eqn:Ec; [|discriminate].
    destruct (enc_attributes enc_syms atts) as [ab|] eqn:Ea; [|discriminate]. apply Some_inj in He. subst bs.
    fold (has_md md). unfold dec_mesh_seq. rewrite <- !app_assoc. rewrite header_roundtrip_mesh.
    destruct (mesh_header_accepted (has_md md)) as (H1 & H2 & H3).
    change (negb (h_type (mesh_header (has_md md)) =? TRIANGULAR_MESH_)) with false.
    change (negb (h_method (mesh_header (has_md md)) =? MESH_SEQUENTIAL_ENCODING_)) with false.
    rewrite H1, H2, H3. cbn [negb]. cbv iota.
    rewrite (md_opt_roundtrip md mb _ Hmd Em).
    assert (Hc : dec_connectivity dec_syms (cb ++ ab ++ rest) = Some (np, faces, ab ++ rest)).
    { destruct conn as [method|].
      - destruct Hconn as (Hnp31 & Hg & Hguard).
        apply (connectivity_roundtrip_compressed enc_syms dec_syms sym_guard' sym_law np method faces cb); try assumption.
        intros body Hb. specialize (Hguard body ab Hb eq_refl). rewrite app_length. lia.
      - apply (connectivity_roundtrip_raw enc_syms dec_syms np faces cb); assumption. }
    rewrite Hc.
    rewrite (attributes_roundtrip _ enc_syms dec_syms sym_guard' sym_law (Z.to_nat np) atts ab rest Hatts Ea).
    reflexivity.
  Qed.

  (** 2g (C06): the decoders consume exactly the encoder's bytes — nothing of what follows, and on the
      stream alone they stop at its end *)
  Corollary seq_pc_exact_consumption np md atts bs junk : pc_ok np md atts ->
    enc_pc_seq enc_syms enc_md np md atts = Some bs ->
    (exists g, dec_pc_seq dec_syms dec_md (fun _ => false) (bs ++ junk) = Some (g, junk)) /\
    (exists g, dec_pc_seq dec_syms dec_md (fun _ => false) bs = Some (g, [])).
  Proof.
    intros Hok He. split.
    - eexists. eapply seq_pc_roundtrips; eassumption.
    - eexists. rewrite <- (app_nil_r bs) at 1. eapply seq_pc_roundtrips; eassumption.
  Qed.

  Corollary seq_mesh_exact_consumption np md conn faces atts bs junk : mesh_ok np md conn faces atts junk ->
    enc_mesh_seq enc_syms enc_md np md conn faces atts = Some bs ->
    exists g, dec_mesh_seq dec_syms dec_md (fun _ => false) (bs ++ junk) = Some (g, junk).
  Proof. intros Hok He. eexists. eapply seq_mesh_roundtrips; eassumption. Qed.

  Corollary seq_mesh_exact_consumption_nil np md conn faces atts bs : mesh_ok np md conn faces atts [] ->
    enc_mesh_seq enc_syms enc_md np md conn faces atts = Some bs ->
    exists g, dec_mesh_seq dec_syms dec_md (fun _ => false) bs = Some (g, []).
  Proof. intros Hok He. eexists. rewrite <- (app_nil_r bs) at 1. eapply seq_mesh_roundtrips; eassumption. Qed.

  (** the decoded geometry does not depend on what follows the stream *)
  Corollary seq_pc_junk_independent np md atts bs junk1 junk2 g1 g2 r1 r2 : pc_ok np md atts ->
    enc_pc_seq enc_syms enc_md np md atts = Some bs ->
    dec_pc_seq dec_syms dec_md (fun _ => false) (bs ++ junk1) = Some (g1, r1) ->
    dec_pc_seq dec_syms dec_md (fun _ => false) (bs ++ junk2) = Some (g2, r2) ->
    g1 = g2 /\ r1 = junk1 /\ r2 = junk2.
  Proof.
    intros Hok He H1 H2.
    rewrite (seq_pc_roundtrips np md atts bs junk1 Hok He) in H1.
    rewrite (seq_pc_roundtrips np md atts bs junk2 Hok He) in H2.
    injection H1 as <- <-. injection H2 as <- <-. repeat split; reflexivity.
  Qed.
End Streams.

(** * 2f. structural validity of whatever the sequential decoders return (C03), arbitrary bytes *)

Definition rows_shape (n nc : nat) (rows : list (list Z)) : Prop :=
  length rows = n /\ Forall (fun r => length r = nc) rows.
(** a decoded attribute holds one value per point, each with the announced number of components *)
Definition att_valid (np : nat) (a : dec_att) : Prop := rows_shape np (Z.to_nat (ad_nc (da_desc a))) (da_rows a).

Lemma rows_shape_map n nc (f : Z -> Z) rows : rows_shape n nc rows -> rows_shape n nc (map (map f) rows).
Proof.
  intros [H1 H2]. split; [rewrite map_length; exact H1|].
  apply Forall_forall. intros r Hr. apply in_map_iff in Hr. destruct Hr as (r' & <- & Hr').
  rewrite map_length. rewrite Forall_forall in H2. apply H2, Hr'.
Qed.

Lemma dequantize_row_len read delta : forall ws mins vs, dequantize_row read delta mins ws = Ok vs -> length vs = length ws.
Proof.
  induction ws as [|w ws IH]; intros mins vs H; cbn [dequantize_row] in H.
  - injection H as <-. reflexivity.
  - destruct mins as [|mn mins]; [discriminate|].
    destruct (dequantize_row read delta mins ws) as [vs'| |] eqn:E; cbn [rbind] in H; try discriminate.
    injection H as <-. cbn [length]. rewrite (IH _ _ E). reflexivity.
Qed.

Lemma inverse_transform_shape p words fr : inverse_transform p words = Ok fr ->
  Forall2 (fun w f => length f = length w) words fr.
Proof.
  unfold inverse_transform, inverse_with.
  destruct (inv_max_q (qp_bits p)) as [mq| |]; cbn [rbind]; try discriminate.
  destruct (dequantizer_init (qp_range p) mq) as [delta| |]; cbn [rbind]; try discriminate.
  intros H. apply rmap_Forall2 in H. eapply Forall2_imp; [|exact H]. cbv beta. intros w f Hf.
  apply (dequantize_row_len _ _ _ _ _ Hf).
Qed.

Lemma rows_shape_floats n nc words fr : rows_shape n nc words -> Forall2 (fun (w : list Z) (f : list f32) => length f = length w) words fr ->
  rows_shape n nc (map (map bits_of_f32) fr).
Proof.
  intros [H1 H2] HF. split; [rewrite map_length, <- (Forall2_len _ _ _ HF); exact H1|].
  clear H1. induction HF as [|w f ws fs Hwf _ IH]; [constructor|].
  apply Forall_cons_iff in H2. destruct H2 as [Hw H2]. cbn [map]. constructor; [rewrite map_length; lia|apply IH; exact H2].
Qed.

Lemma triples_in : forall n l, (length l <= n)%nat -> forall a b c, In (a, b, c) (triples l) -> In a l /\ In b l /\ In c l.
Proof.
  induction n as [|n IH]; intros l Hl a b c Hin.
  - destruct l; [contradiction|cbn in Hl; lia].
  - destruct l as [|x [|y [|z l']]]; cbn [triples] in Hin; try contradiction.
    destruct Hin as [E|Hin].
    + injection E as <- <- <-. cbn; tauto.
    + destruct (IH l' ltac:(cbn [length] in Hl; lia) a b c Hin) as (H1 & H2 & H3). cbn; tauto.
Qed.

Section Valid.
  Variable dec_syms : nat -> nat -> bytes -> option (list Z * bytes).
  (** the symbol decoder returns the announced count, for counts that are a multiple of the component count
      (what the attribute decoders pass; without divisibility the real coder can return more) *)
  Hypothesis sym_len : forall n nc bs syms r, (1 <= nc)%nat -> (exists k, n = (k * nc)%nat) ->
    dec_syms n nc bs = Some (syms, r) -> length syms = n.
  Variable skip : Z -> bool.

  (** the shape of the portable rows of one attribute: [np] rows of the attribute's component count — of 2
      octahedral coordinates for quantized normals (whose decoder insists on a 3-component attribute) *)
  Definition portable_shape (np : nat) (d : att_desc) (kid : Z) (rows : list (list Z)) : Prop :=
    if kid =? SEQUENTIAL_ATTRIBUTE_ENCODER_NORMALS_ then rows_shape np 2 rows /\ ad_nc d = 3
    else rows_shape np (Z.to_nat (ad_nc d)) rows.

  Lemma dec_values_shape ver np d kid bs rows r : dec_values dec_syms ver np d kid bs = Some (rows, r) ->
    portable_shape np d kid rows.
  Proof.
    unfold dec_values, portable_shape, rows_shape. intros H.
    destruct (kid =? SEQUENTIAL_ATTRIBUTE_ENCODER_GENERIC_) eqn:E0.
    { replace (kid =? SEQUENTIAL_ATTRIBUTE_ENCODER_NORMALS_) with false by (unfold SEQUENTIAL_ATTRIBUTE_ENCODER_GENERIC_, SEQUENTIAL_ATTRIBUTE_ENCODER_NORMALS_ in *; lia).
      apply (dec_generic_shape _ _ _ _ _ _ H). }
    destruct (kid =? SEQUENTIAL_ATTRIBUTE_ENCODER_INTEGER_) eqn:E1.
    { replace (kid =? SEQUENTIAL_ATTRIBUTE_ENCODER_NORMALS_) with false by (unfold SEQUENTIAL_ATTRIBUTE_ENCODER_INTEGER_, SEQUENTIAL_ATTRIBUTE_ENCODER_NORMALS_ in *; lia).
      apply (dec_int_block_shape dec_syms sym_len _ _ _ _ _ H). }
    destruct (kid =? SEQUENTIAL_ATTRIBUTE_ENCODER_QUANTIZATION_) eqn:E2.
    { replace (kid =? SEQUENTIAL_ATTRIBUTE_ENCODER_NORMALS_) with false by (unfold SEQUENTIAL_ATTRIBUTE_ENCODER_QUANTIZATION_, SEQUENTIAL_ATTRIBUTE_ENCODER_NORMALS_ in *; lia).
      destruct (ad_dt d =? DT_FLOAT32_); [|discriminate]. apply (dec_int_block_shape dec_syms sym_len _ _ _ _ _ H). }
    destruct (kid =? SEQUENTIAL_ATTRIBUTE_ENCODER_NORMALS_); [|discriminate].
    destruct ((ad_nc d =? 3) && (ad_dt d =? DT_FLOAT32_)) eqn:E3; [|discriminate].
    destruct (dec_norm_block dec_syms ver np bs) as [[pts r']|] eqn:En; [|discriminate]. injection H as <- _.
    split; [|lia]. split; [rewrite map_length; apply (dec_norm_block_len dec_syms sym_len _ _ _ _ _ En)|].
    apply Forall_forall. intros row Hr. apply in_map_iff in Hr. destruct Hr as (p & <- & _). reflexivity.
  Qed.

  Lemma finish_att_valid np d kid rows bs a r : portable_shape np d kid rows ->
    finish_att skip d kid rows bs = Some (a, r) -> att_valid np a.
  Proof.
    intros Hs H. unfold finish_att in H. unfold att_valid. unfold portable_shape in Hs.
    destruct (kid =? SEQUENTIAL_ATTRIBUTE_ENCODER_GENERIC_) eqn:E0.
    { replace (kid =? SEQUENTIAL_ATTRIBUTE_ENCODER_NORMALS_) with false in Hs by (unfold SEQUENTIAL_ATTRIBUTE_ENCODER_GENERIC_, SEQUENTIAL_ATTRIBUTE_ENCODER_NORMALS_ in *; lia).
      injection H as <- _. exact Hs. }
    destruct (kid =? SEQUENTIAL_ATTRIBUTE_ENCODER_INTEGER_) eqn:E1.
    { replace (kid =? SEQUENTIAL_ATTRIBUTE_ENCODER_NORMALS_) with false in Hs by (unfold SEQUENTIAL_ATTRIBUTE_ENCODER_INTEGER_, SEQUENTIAL_ATTRIBUTE_ENCODER_NORMALS_ in *; lia).
      destruct (skip (ad_type d)).
      - injection H as <- _. cbn [da_desc da_rows ad_nc]. apply rows_shape_map. exact Hs.
      - destruct (dt_is_int (ad_dt d)); [|discriminate]. injection H as <- _. cbn [da_desc da_rows]. apply rows_shape_map. exact Hs. }
    destruct (kid =? SEQUENTIAL_ATTRIBUTE_ENCODER_NORMALS_).
    { destruct Hs as [Hs Hnc]. destruct (oct_decode_parameters bs) as [[q r']|]; [|discriminate].
      destruct (skip (ad_type d)).
      - injection H as <- _. cbn [da_desc da_rows ad_nc]. change (Z.to_nat 2) with 2%nat. apply rows_shape_map. exact Hs.
      - destruct (oct_inverse_transform q _) as [vs| |] eqn:Ei; try discriminate. injection H as <- _. cbn [da_desc da_rows].
        rewrite Hnc. change (Z.to_nat 3) with 3%nat. unfold oct_inverse_transform in Ei.
        destruct (set_quantization_bits q) as [b|]; [|discriminate]. injection Ei as <-.
        destruct Hs as [Hl _]. split; [rewrite !map_length; exact Hl|].
        apply Forall_forall. intros row Hr. apply in_map_iff in Hr. destruct Hr as (v & <- & _).
        destruct v as [[x y] z]. reflexivity. }
    destruct (decode_parameters _ bs) as [[p r']|]; [|discriminate].
    destruct (skip (ad_type d)).
    - injection H as <- _. cbn [da_desc da_rows ad_nc]. apply rows_shape_map. exact Hs.
    - destruct (inverse_transform p _) as [fr| |] eqn:Ei; try discriminate. injection H as <- _. cbn [da_desc da_rows].
      apply (rows_shape_floats _ _ _ _ (rows_shape_map _ _ _ _ Hs) (inverse_transform_shape _ _ _ Ei)).
  Qed.

  Lemma dec_all_values_shape ver np : forall ds bs rowss r, dec_all_values dec_syms ver np ds bs = Some (rowss, r) ->
    Forall2 (fun dk rows => portable_shape np (fst dk) (snd dk) rows) ds rowss.
  Proof.
    induction ds as [|[d kid] ds IH]; intros bs rowss r H; cbn [dec_all_values] in H.
    - injection H as <- _. constructor.
    - destruct (dec_values dec_syms ver np d kid bs) as [[rows r1]|] eqn:Ev; [|discriminate].
      destruct (dec_all_values dec_syms ver np ds r1) as [[l r2]|] eqn:Ea; [|discriminate].
      injection H as <- _. constructor; [apply (dec_values_shape _ _ _ _ _ _ _ Ev)|apply (IH _ _ _ Ea)].
  Qed.

  Lemma finish_all_valid np : forall ds rowss, Forall2 (fun dk rows => portable_shape np (fst dk) (snd dk) rows) ds rowss ->
    forall bs atts r, finish_all skip ds rowss bs = Some (atts, r) -> Forall (att_valid np) atts.
  Proof.
    induction 1 as [|[d kid] rows ds rowss Hs _ IH]; intros bs atts r H; cbn [finish_all] in H.
    - injection H as <- _. constructor.
    - destruct (finish_att skip d kid rows bs) as [[a r1]|] eqn:Ef; [|discriminate].
      destruct (finish_all skip ds rowss r1) as [[l r2]|] eqn:Ea; [|discriminate].
      injection H as <- _. constructor; [apply (finish_att_valid _ _ _ _ _ _ _ Hs Ef)|apply (IH _ _ _ Ea)].
  Qed.

  Lemma dec_decoders_atts_valid ver np : forall dds bs atts r, dec_decoders_atts dec_syms skip ver np dds bs = Some (atts, r) ->
    Forall (att_valid np) atts.
  Proof.
    induction dds as [|ds dds IH]; intros bs atts r H; cbn [dec_decoders_atts] in H.
    - injection H as <- _. constructor.
    - destruct (dec_all_values dec_syms ver np ds bs) as [[rowss r1]|] eqn:Ev; [|discriminate].
      destruct (finish_all skip ds rowss r1) as [[atts1 r2]|] eqn:Ef; [|discriminate].
      destruct (dec_decoders_atts dec_syms skip ver np dds r2) as [[l r3]|] eqn:Ed; [|discriminate].
      injection H as <- _. apply Forall_app. split; [|apply (IH _ _ _ Ed)].
      apply (finish_all_valid np ds rowss (dec_all_values_shape _ _ _ _ _ _ Ev) _ _ _ Ef).
  Qed.

  Theorem dec_attributes_valid ver np bs atts r : dec_attributes dec_syms skip ver np bs = Some (atts, r) -> Forall (att_valid np) atts.
  Proof.
    unfold dec_attributes. destruct bs as [|nd r0]; [discriminate|].
    destruct (dec_decoders_data _ r0) as [[dds r1]|]; [|discriminate]. apply dec_decoders_atts_valid.
  Qed.

  Theorem dec_connectivity_valid bs np faces r : dec_connectivity dec_syms bs = Some (np, faces, r) ->
    forall a b c, In (a, b, c) faces -> a < np /\ b < np /\ c < np.
  Proof.
    unfold dec_connectivity. intros H.
    destruct (dec_varint_u 32 bs) as [[nf r0]|]; [|discriminate].
    destruct (dec_varint_u 32 r0) as [[np' r1]|]; [|discriminate].
    destruct (nf >? _); [discriminate|]. destruct (nf >? _); [discriminate|].
    destruct r1 as [|cm r2]; [discriminate|].
    match type of H with match ?x with _ => _ end = _ => destruct x as [[l r3]|]; [|discriminate] end.
    destruct (forallb (fun i => i <? np') l) eqn:Ef; [|discriminate]. injection H as <- <- _.
    intros a b c Hin. destruct (triples_in (length l) l (le_n _) a b c Hin) as (Ha & Hb & Hc).
    rewrite forallb_forall in Ef. pose proof (Ef a Ha). pose proof (Ef b Hb). pose proof (Ef c Hc). lia.
  Qed.

  Context {MD : Type}.
  Variable dec_md : bytes -> option (MD * bytes).

  (** C03 for the sequential point-cloud decoder *)
  Theorem seq_pc_decode_valid bs g rest : dec_pc_seq dec_syms dec_md skip bs = Some (g, rest) ->
    Forall (att_valid (Z.to_nat (dp_npoints g))) (dp_atts g).
  Proof.
    unfold dec_pc_seq. intros H. destruct (dec_header bs) as [[[h r0]|]|]; try discriminate.
    do 4 (match type of H with (if ?c then None else _) = _ => destruct c; [discriminate|] end).
    match type of H with match ?x with _ => _ end = _ => destruct x as [[md r1]|]; [|discriminate] end.
    destruct (dec_le 4 r1) as [[np r2]|]; [|discriminate].
    destruct (dec_attributes dec_syms skip _ (Z.to_nat np) r2) as [[atts r3]|] eqn:Ea; [|discriminate].
    injection H as <- _. cbn [dp_npoints dp_atts]. apply (dec_attributes_valid _ _ _ _ _ Ea).
  Qed.

  (** C03 for the sequential mesh decoder: every face index names a decoded point, every attribute is well shaped *)
  Theorem seq_mesh_decode_valid bs g rest : dec_mesh_seq dec_syms dec_md skip bs = Some (g, rest) ->
    (forall a b c, In (a, b, c) (dm_faces g) -> a < dm_npoints g /\ b < dm_npoints g /\ c < dm_npoints g) /\
    Forall (att_valid (Z.to_nat (dm_npoints g))) (dm_atts g).
  Proof.
    unfold dec_mesh_seq. intros H. destruct (dec_header bs) as [[[h r0]|]|]; try discriminate.
    do 4 (match type of H with (if ?c then None else _) = _ => destruct c; [discriminate|] end).
    match type of H with match ?x with _ => _ end = _ => destruct x as [[md r1]|]; [|discriminate] end.
    destruct (dec_connectivity dec_syms r1) as [[[np faces] r2]|] eqn:Ec; [|discriminate].
    destruct (dec_attributes dec_syms skip _ (Z.to_nat np) r2) as [[atts r3]|] eqn:Ea; [|discriminate].
    injection H as <- _. cbn [dm_npoints dm_atts dm_faces].
    split; [apply (dec_connectivity_valid _ _ _ _ Ec)|apply (dec_attributes_valid _ _ _ _ _ Ea)].
  Qed.
End Valid.

(** * 2h. skipping attribute transforms (C10), arbitrary bytes *)

Definition portable_desc (d : att_desc) : att_desc :=
  {| ad_type := ad_type d; ad_dt := DT_INT32_; ad_nc := ad_nc d; ad_norm := false; ad_uid := ad_uid d |}.

(** [att_refines skip a0 a]: [a0] is an attribute of the normal decode, [a] the same attribute decoded with
    the option.  Generic attributes and attributes whose type is not skipped are identical.  A skipped integer
    attribute is the int32 portable attribute, whose conversion gives exactly the normal values.  A skipped
    quantized attribute holds the quantized words and the transform parameters, and InverseTransformAttribute
    of those gives exactly the normal values. *)
Definition portable_desc_n (d : att_desc) : att_desc :=
  {| ad_type := ad_type d; ad_dt := DT_INT32_; ad_nc := 2; ad_norm := false; ad_uid := ad_uid d |}.

Definition att_refines (skip : Z -> bool) (a0 a : dec_att) : Prop :=
  da_kind_id a = da_kind_id a0 /\
  if (da_kind_id a0 =? SEQUENTIAL_ATTRIBUTE_ENCODER_GENERIC_) || negb (skip (ad_type (da_desc a0))) then a = a0
  else if da_kind_id a0 =? SEQUENTIAL_ATTRIBUTE_ENCODER_NORMALS_ then
    (* a skipped normal attribute: the 2-component int32 portable attribute (its memory words) holding the octahedral
       (s,t) points, and the quantization bits; InverseTransformAttribute of those points gives exactly the normal decode *)
    da_desc a = portable_desc_n (da_desc a0) /\ da_tdata a = None /\ da_oct a0 = None /\
    exists q rows0 vs, da_oct a = Some q /\ da_rows a = map (map (fun v => v mod 2 ^ 32)) rows0 /\
                       oct_inverse_transform q (map pt_of_row rows0) = Ok vs /\ da_rows a0 = map vec3_bits vs
  else
    da_desc a = portable_desc (da_desc a0) /\ da_tdata a0 = None /\
    if da_kind_id a0 =? SEQUENTIAL_ATTRIBUTE_ENCODER_INTEGER_ then
      da_tdata a = None /\ map (map (of_int32_value (ad_dt (da_desc a0)))) (da_rows a) = da_rows a0
    else exists p fr, da_tdata a = Some p /\ inverse_transform p (da_rows a) = Ok fr /\
                      da_rows a0 = map (map bits_of_f32) fr.

Lemma of_int32_mod dt v : dt_is_int dt = true -> of_int32_value dt (v mod 2 ^ 32) = of_int32_value dt v.
Proof.
  intros H. apply dt_is_int_spec in H. unfold of_int32_value. symmetry.
  destruct H as [ -> | [ -> | [ -> | [ -> | [ -> | -> ]]]]];
    (apply Zmod_div_mod; [reflexivity|reflexivity|]);
    [exists (2 ^ 24)|exists (2 ^ 24)|exists (2 ^ 16)|exists (2 ^ 16)|exists 1|exists 1]; reflexivity.
Qed.

Lemma map_map_ext (f g : Z -> Z) rows : (forall v, f v = g v) -> map (map f) rows = map (map g) rows.
Proof. intros H. apply map_ext. intros r. apply map_ext. exact H. Qed.

Section Skip.
  Variable dec_syms : nat -> nat -> bytes -> option (list Z * bytes).
  Variable skip : Z -> bool.

  Lemma finish_att_refines d kid rows bs a0 r : finish_att (fun _ => false) d kid rows bs = Some (a0, r) ->
    exists a, finish_att skip d kid rows bs = Some (a, r) /\ att_refines skip a0 a.
  Proof.
    unfold finish_att. cbv beta. fold (portable_desc d). fold (portable_desc_n d).
    destruct (kid =? SEQUENTIAL_ATTRIBUTE_ENCODER_GENERIC_) eqn:E0.
    { intros H. injection H as <- <-. eexists; split; [reflexivity|].
      unfold att_refines. cbn [da_kind_id da_desc]. rewrite E0. cbn [orb]. split; reflexivity. }
    destruct (kid =? SEQUENTIAL_ATTRIBUTE_ENCODER_INTEGER_) eqn:E1.
    { assert (E3 : (kid =? SEQUENTIAL_ATTRIBUTE_ENCODER_NORMALS_) = false)
        by (unfold SEQUENTIAL_ATTRIBUTE_ENCODER_INTEGER_, SEQUENTIAL_ATTRIBUTE_ENCODER_NORMALS_ in *; lia).
      destruct (dt_is_int (ad_dt d)) eqn:Ei; [|intros; discriminate]. intros H. injection H as <- <-.
      destruct (skip (ad_type d)) eqn:Es; (eexists; split; [reflexivity|]);
        unfold att_refines; cbn [da_kind_id da_desc da_rows da_tdata]; rewrite E0, Es; cbn [orb negb].
      - rewrite E3, E1. split; [reflexivity|]. split; [reflexivity|]. split; [reflexivity|]. split; [reflexivity|].
        rewrite map_map. apply map_ext. intros row. rewrite map_map. apply map_ext. intros v. apply of_int32_mod. exact Ei.
      - split; reflexivity. }
    destruct (kid =? SEQUENTIAL_ATTRIBUTE_ENCODER_NORMALS_) eqn:E3.
    { destruct (oct_decode_parameters bs) as [[q r']|]; [|intros; discriminate].
      destruct (oct_inverse_transform q _) as [vs| |] eqn:Einv; try (intros; discriminate).
      intros H. injection H as <- <-.
      destruct (skip (ad_type d)) eqn:Es; (eexists; split; [reflexivity|]);
        unfold att_refines; cbn [da_kind_id da_desc da_rows da_tdata da_oct]; rewrite E0, Es; cbn [orb negb].
      - rewrite E3. split; [reflexivity|]. split; [reflexivity|]. split; [reflexivity|]. split; [reflexivity|].
        exists q, rows, vs. split; [reflexivity|]. split; [reflexivity|]. split; [exact Einv|reflexivity].
      - split; reflexivity. }
    destruct (decode_parameters _ bs) as [[p r']|]; [|intros; discriminate].
    destruct (inverse_transform p _) as [fr| |] eqn:Einv; try (intros; discriminate).
    intros H. injection H as <- <-.
    destruct (skip (ad_type d)) eqn:Es; (eexists; split; [reflexivity|]);
      unfold att_refines; cbn [da_kind_id da_desc da_rows da_tdata]; rewrite E0, Es; cbn [orb negb].
    - rewrite E3, E1. split; [reflexivity|]. split; [reflexivity|]. split; [reflexivity|].
      exists p, fr. split; [reflexivity|]. split; [exact Einv|reflexivity].
    - split; reflexivity.
  Qed.

  Lemma finish_all_refines : forall ds rowss bs atts0 r, finish_all (fun _ => false) ds rowss bs = Some (atts0, r) ->
    exists atts, finish_all skip ds rowss bs = Some (atts, r) /\ Forall2 (att_refines skip) atts0 atts.
  Proof.
    induction ds as [|[d kid] ds IH]; intros rowss bs atts0 r H; cbn [finish_all] in *.
    - injection H as <- <-. exists []. split; [reflexivity|constructor].
    - destruct rowss as [|rows rr]; [discriminate|].
      destruct (finish_att (fun _ => false) d kid rows bs) as [[a0 r1]|] eqn:Ef; [|discriminate].
      destruct (finish_all (fun _ => false) ds rr r1) as [[l0 r2]|] eqn:Ea; [|discriminate].
      injection H as <- <-.
      destruct (finish_att_refines _ _ _ _ _ _ Ef) as (a & Ea' & Ha). destruct (IH _ _ _ _ Ea) as (l & El & Hl).
      rewrite Ea', El. eexists; split; [reflexivity|constructor; assumption].
  Qed.

  Lemma dec_decoders_atts_refines ver np : forall dds bs atts0 r,
    dec_decoders_atts dec_syms (fun _ => false) ver np dds bs = Some (atts0, r) ->
    exists atts, dec_decoders_atts dec_syms skip ver np dds bs = Some (atts, r) /\ Forall2 (att_refines skip) atts0 atts.
  Proof.
    induction dds as [|ds dds IH]; intros bs atts0 r H; cbn [dec_decoders_atts] in *.
    - injection H as <- <-. exists []. split; [reflexivity|constructor].
    - destruct (dec_all_values dec_syms ver np ds bs) as [[rowss r1]|]; [|discriminate].
      destruct (finish_all (fun _ => false) ds rowss r1) as [[a0 r2]|] eqn:Ef; [|discriminate].
      destruct (dec_decoders_atts dec_syms (fun _ => false) ver np dds r2) as [[l0 r3]|] eqn:Ed; [|discriminate].
      injection H as <- <-.
      destruct (finish_all_refines _ _ _ _ _ Ef) as (a & Ea & Ha). destruct (IH _ _ _ Ed) as (l & El & Hl).
      rewrite Ea, El. eexists; split; [reflexivity|apply Forall2_app; assumption].
  Qed.

  Lemma dec_attributes_refines ver np bs atts0 r : dec_attributes dec_syms (fun _ => false) ver np bs = Some (atts0, r) ->
    exists atts, dec_attributes dec_syms skip ver np bs = Some (atts, r) /\ Forall2 (att_refines skip) atts0 atts.
  Proof.
    unfold dec_attributes. destruct bs as [|nd r0]; [discriminate|].
    destruct (dec_decoders_data _ r0) as [[dds r1]|]; [|discriminate]. apply dec_decoders_atts_refines.
  Qed.

  Context {MD : Type}.
  Variable dec_md : bytes -> option (MD * bytes).

  (** C10, point clouds: whenever the normal decode succeeds, the decode with the option succeeds on the same
      bytes, stops at the same place, and differs only in the skipped attributes, as [att_refines] says. *)
  Theorem skip_refines_pc bs g0 r : dec_pc_seq dec_syms dec_md (fun _ => false) bs = Some (g0, r) ->
    exists g, dec_pc_seq dec_syms dec_md skip bs = Some (g, r) /\
      dp_npoints g = dp_npoints g0 /\ dp_md g = dp_md g0 /\ Forall2 (att_refines skip) (dp_atts g0) (dp_atts g).
  Proof.
    unfold dec_pc_seq. destruct (dec_header bs) as [[[h r0]|]|]; try (intros; discriminate).
    do 4 (match goal with |- (if ?c then None else _) = _ -> _ => destruct c; [intros; discriminate|] end).
    match goal with |- match ?x with _ => _ end = _ -> _ => destruct x as [[md r1]|]; [|intros; discriminate] end.
    destruct (dec_le 4 r1) as [[np r2]|]; [|intros; discriminate].
    destruct (dec_attributes dec_syms (fun _ => false) _ (Z.to_nat np) r2) as [[atts0 r3]|] eqn:Ea; [|intros; discriminate].
    intros H. injection H as <- <-.
    destruct (dec_attributes_refines _ _ _ _ _ Ea) as (atts & E & HR). rewrite E.
    eexists; split; [reflexivity|]. cbn [dp_npoints dp_md dp_atts]. repeat split; [exact HR].
  Qed.

  (** C10, meshes: additionally the connectivity is the same *)
  Theorem skip_refines_mesh bs g0 r : dec_mesh_seq dec_syms dec_md (fun _ => false) bs = Some (g0, r) ->
    exists g, dec_mesh_seq dec_syms dec_md skip bs = Some (g, r) /\
      dm_npoints g = dm_npoints g0 /\ dm_md g = dm_md g0 /\ dm_faces g = dm_faces g0 /\
      Forall2 (att_refines skip) (dm_atts g0) (dm_atts g).
  Proof.
    unfold dec_mesh_seq. destruct (dec_header bs) as [[[h r0]|]|]; try (intros; discriminate).
    do 4 (match goal with |- (if ?c then None else _) = _ -> _ => destruct c; [intros; discriminate|] end).
    match goal with |- match ?x with _ => _ end = _ -> _ => destruct x as [[md r1]|]; [|intros; discriminate] end.
    destruct (dec_connectivity dec_syms r1) as [[[np faces] r2]|]; [|intros; discriminate].
    destruct (dec_attributes dec_syms (fun _ => false) _ (Z.to_nat np) r2) as [[atts0 r3]|] eqn:Ea; [|intros; discriminate].
    intros H. injection H as <- <-.
    destruct (dec_attributes_refines _ _ _ _ _ Ea) as (atts & E & HR). rewrite E.
    eexists; split; [reflexivity|]. cbn [dm_npoints dm_md dm_faces dm_atts]. repeat split; [exact HR].
  Qed.

  (** the converse direction does not hold: with the option a stream can decode that the normal decode rejects
      (an integer-coded attribute of a non-integer type: StoreValues fails only when the conversion runs) *)
  Theorem skip_converse_refuted :
    exists d rows, finish_att (fun _ => true) d SEQUENTIAL_ATTRIBUTE_ENCODER_INTEGER_ rows [] <> None /\
                   finish_att (fun _ => false) d SEQUENTIAL_ATTRIBUTE_ENCODER_INTEGER_ rows [] = None.
  Proof.
    exists {| ad_type := 0; ad_dt := DT_FLOAT32_; ad_nc := 1; ad_norm := false; ad_uid := 0 |}, [[0]].
    split; [discriminate|reflexivity].
  Qed.
End Skip.

(** * Quantized normals, spelled out *)

(** what [expected_rows] is for a normal attribute that encodes: the bit patterns of InverseTransformAttribute on the
    octahedral points GeneratePortableAttribute produced (how close they are to the input is property C07) *)
Theorem expected_rows_normal np a q o : att_ok np a -> a_kind a = KNormal q o -> normal_pts a <> None ->
  exists pts vs, oct_generate_portable q (map vec3_of_row (a_rows a)) = Ok pts /\
                 oct_inverse_transform q pts = Ok vs /\ length vs = np /\ expected_rows a = map vec3_bits vs.
Proof.
  intros Hok Ek Hne. destruct (normal_pts a) as [pts|] eqn:Ep; [|congruence].
  destruct (normal_pts_ok np a pts Hok Ep) as (q' & o' & b & Ek' & _ & _ & Eg & Hb & Hl & _).
  rewrite Ek in Ek'. injection Ek' as <- <-.
  exists pts, (map (fun p => quantized_oct_to_unit_vector b (fst p) (snd p)) pts).
  split; [exact Eg|]. unfold expected_rows. rewrite Ek, Ep. unfold oct_inverse_transform. rewrite Hb.
  split; [reflexivity|]. split; [rewrite map_length; exact Hl|reflexivity].
Qed.

(** what [att_refines] says for a skipped normal attribute *)
Theorem skipped_normal_reproduces skip a0 a : att_refines skip a0 a ->
  da_kind_id a0 = SEQUENTIAL_ATTRIBUTE_ENCODER_NORMALS_ -> skip (ad_type (da_desc a0)) = true ->
  ad_uid (da_desc a) = ad_uid (da_desc a0) /\ ad_type (da_desc a) = ad_type (da_desc a0) /\ ad_nc (da_desc a) = 2 /\
  exists q rows0 vs, da_oct a = Some q /\ da_rows a = map (map (fun v => v mod 2 ^ 32)) rows0 /\
                     oct_inverse_transform q (map pt_of_row rows0) = Ok vs /\ da_rows a0 = map vec3_bits vs.
Proof.
  intros [Hk H] Hq Hs. rewrite Hq, Hs in H. cbn in H. destruct H as (Hd & _ & _ & H).
  rewrite Hd. repeat split; exact H.
Qed.
