(** The invariants J1, J3, J5, J6 of EbTraceInv_proofs for the trace of ANY encoding (any number of runs): they only need the
    weak step relation [EbTraceStepM_proofs.WSTEP] (SPEC + agreement on the event-relevant members), which also holds across
    run boundaries.  Consequence: the recorded split events of EVERY encoding, exactly ([J5M_all]). *)
From Coq Require Import List Arith Bool PeanoNat ZArith Lia.
Import ListNotations.
From Draco Require Import Model.CornerTable Model.EbEncoder Model.EbTrace Proofs.CornerTable_proofs Proofs.EbTrace_proofs Proofs.EbTraceStep_proofs
  Proofs.EbTraceInv_proofs Proofs.EbTraceStepM_proofs.

Section InvM.
Variable opp : list (option nat).
Variable tr : list cfg.   (* encoding order *)
Let N := length tr.
Variables (yL : Z) (sL : est).
Local Notation cfN := (cfN tr).
Local Notation ci := (ci tr).
Local Notation sti := (sti tr).
Local Notation ysym := (ysym tr yL).
Local Notation EVAT := (EVAT opp tr yL).
Local Notation J3 := (J3 tr yL).
Local Notation J5 := (J5 opp tr yL).

Definition aftW (i : nat) (s1 : est) : Prop :=
  SPEC opp (sti i) (ci i) (ysym i) s1 /\ (S i < N -> REL s1 (sti (S i))) /\ (S i = N -> s1 = sL).

Hypothesis StepsW : forall i, S i < N -> WSTEP opp (cfN i) (cfN (S i)).
Hypothesis Last : 0 < N -> SPEC opp (sti (N - 1)) (ci (N - 1)) yL sL.
Hypothesis FirstW : 0 < N -> syms (sti 0) = [] /\ evs (sti 0) = [] /\ f2s (sti 0) = [] /\ last_id (sti 0) = (-1)%Z.
Hypothesis FND : forall m m', m < N -> m' < N -> ci m / 3 = ci m' / 3 -> m = m'.

Lemma aftW_ex i : i < N -> exists s1, aftW i s1.
Proof.
  intros Hi. unfold aftW, EbTraceInv_proofs.ysym. fold N. destruct (Nat.eq_dec (S i) N) as [E|E].
  - replace (S i <? N) with false by (symmetry; apply Nat.ltb_ge; lia). exists sL. replace i with (N - 1) by lia. split; [apply Last; lia|]. split; [lia|auto].
  - assert (L : S i < N) by lia. replace (S i <? N) with true by (symmetry; apply Nat.ltb_lt; lia).
    destruct (StepsW i L) as (y & s1 & Sp & Re). exists s1.
    assert (Ey : hd 0%Z (syms (sti (S i))) = y).
    { destruct Sp as (Sy & _). destruct Re as (R1 & _). unfold EbTraceInv_proofs.sti. rewrite R1, Sy. reflexivity. }
    rewrite Ey. split; [exact Sp|]. split; [intros _; exact Re|lia].
Qed.

Lemma alongW (P : nat -> est -> Prop) :
  (0 < N -> P 0 (sti 0)) ->
  (forall i s1, i < N -> P i (sti i) -> aftW i s1 -> P (S i) s1) ->
  (forall i s s', P i s -> REL s s' -> P i s') ->
  (forall i, i < N -> P i (sti i)) /\ (0 < N -> P N sL).
Proof.
  intros P0 Ps Pw.
  assert (A : forall i, i < N -> P i (sti i)).
  { induction i as [|i IH]; intros Hi; [apply P0; lia|].
    destruct (aftW_ex i ltac:(lia)) as (s1 & Af). pose proof (Ps i s1 ltac:(lia) (IH ltac:(lia)) Af) as X.
    destruct Af as (_ & E & _). apply (Pw _ _ _ X (E Hi)). }
  split; auto. intros HN. destruct (aftW_ex (N - 1) ltac:(lia)) as (s1 & Af).
  pose proof (Ps (N - 1) s1 ltac:(lia) (A (N - 1) ltac:(lia)) Af) as X. destruct Af as (_ & _ & E).
  replace (S (N - 1)) with N in * by lia. rewrite <- (E eq_refl). exact X.
Qed.

Lemma J1M_all : (forall i, i < N -> J1 i (sti i)) /\ (0 < N -> J1 N sL).
Proof.
  apply alongW.
  - intros H. destruct (FirstW H) as (A & _ & _ & B). split; [rewrite B; reflexivity|rewrite A; reflexivity].
  - intros i s1 Hi (A & B) ((Sy & _ & _ & _ & Li & _) & _). split; [rewrite Li, A; lia|rewrite Sy; cbn [length]; lia].
  - intros i s s' (A & B) (R1 & _ & _ & _ & R5 & _). split; congruence.
Qed.

Lemma J3M_all : (forall i, i < N -> J3 i (sti i)) /\ (0 < N -> J3 N sL).
Proof.
  destruct J1M_all as (J1a & _).
  apply alongW.
  - intros H f id. destruct (FirstW H) as (_ & _ & B & _). rewrite B. cbn. split; [discriminate|]. intros (m & Hm & _). lia.
  - intros i s1 Hi A ((_ & _ & _ & _ & Li & Cs) & _). cbv zeta in Cs. destruct (J1a i Hi) as (Lid & _).
    assert (Same : f2s s1 = f2s (sti i) -> ysym i <> 1%Z -> J3 (S i) s1).
    { intros E Ny f id. rewrite E, (A f id). split; intros (m & Hm & X); exists m; (split; [|exact X]); try lia.
      destruct (Nat.eq_dec m i) as [->|]; [|lia]. destruct X as (_ & X & _). congruence. }
    destruct Cs as [(Y & _ & _ & F)|[(Y & _ & _ & _ & _ & F)|[(Y & _ & _ & _ & _ & F)|[(Y & _ & _ & _ & _ & _ & F)|(Y & _ & _ & _ & _ & _ & F)]]]];
      try (apply Same; [exact F|rewrite Y; discriminate]).
    intros f id. rewrite F. cbn [split_symbol_on_face]. destruct (ci i / 3 =? f) eqn:E.
    + apply Nat.eqb_eq in E. split.
      * intros X. inversion X. exists i. split; [lia|]. split; [lia|]. split; auto.
      * intros (m & Hm & Ei & Ym & Fm). assert (m = i) by (apply FND; try lia; congruence). subst m. f_equal. lia.
    + apply Nat.eqb_neq in E. rewrite (A f id). split; intros (m & Hm & X); exists m; (split; [|exact X]); try lia.
      destruct (Nat.eq_dec m i) as [->|]; [|lia]. destruct X as (_ & _ & X). congruence.
  - intros i s s' H (_ & _ & _ & R4 & _) f id. rewrite R4. apply H.
Qed.

Lemma J5M_all : (forall i, i < N -> J5 i (sti i)) /\ (0 < N -> J5 N sL).
Proof.
  destruct J1M_all as (J1a & _). destruct J3M_all as (J3a & _).
  apply alongW.
  - intros H src spl ed. destruct (FirstW H) as (_ & B & _). rewrite B. cbn. split; [tauto|]. intros (m & Hm & _). lia.
  - intros i s1 Hi A ((_ & _ & _ & _ & Li & Cs) & _). cbv zeta in Cs. destruct (J1a i Hi) as (Lid & _).
    assert (Lid1 : last_id s1 = Z.of_nat i) by lia.
    assert (Old : forall src spl ed, (exists m, m < i /\ src = Z.of_nat m /\ EVAT m spl ed) ->
              exists m, m < S i /\ src = Z.of_nat m /\ EVAT m spl ed).
    { intros src spl ed (m & Hm & X). exists m. split; [lia|exact X]. }
    assert (New : forall src spl ed, (exists m, m < S i /\ src = Z.of_nat m /\ EVAT m spl ed) ->
              (exists m, m < i /\ src = Z.of_nat m /\ EVAT m spl ed) \/ (src = Z.of_nat i /\ EVAT i spl ed)).
    { intros src spl ed (m & Hm & X & Y). destruct (Nat.eq_dec m i) as [->|]; [right; auto|left; exists m; split; [lia|auto]]. }
    assert (F2 : forall x sp, split_symbol_on_face (f2s (sti i)) (x / 3) = Some sp <->
              exists sg, sp = Z.of_nat sg /\ sg < i /\ ysym sg = 1%Z /\ ci sg / 3 = x / 3).
    { intros x sp. pose proof (J3a i Hi (x / 3) sp) as X. split.
      - intros H. apply X in H. destruct H as (m & A1 & A2 & A3 & A4). exists m. auto.
      - intros (sg & A1 & A2 & A3 & A4). apply X. exists sg. auto. }
    assert (NoNew : evs s1 = evs (sti i) -> (forall spl ed, ~ EVAT i spl ed) -> J5 (S i) s1).
    { intros E Nn src spl ed. rewrite E, (A src spl ed). split; [apply Old|]. intros X. destruct (New _ _ _ X) as [Y|(_ & Y)]; [exact Y|destruct (Nn _ _ Y)]. }
    destruct Cs as [(Y & _ & Ev & _)|[(Y & _ & _ & _ & Ev & _)|[(Y & _ & _ & _ & Ev & _)|[(Y & _ & _ & _ & _ & Ev & _)|(Y & _ & _ & _ & _ & Ev & _)]]]].
    + apply NoNew; auto. intros spl ed (x & sg & _ & _ & _ & _ & [(_ & [Z|Z] & _)|(_ & [Z|Z] & _)]); congruence.
    + (* R *)
      intros src spl ed. rewrite Ev, chk_ev_in, (A src spl ed), Lid1. split.
      * intros [X|(x & sp & Eo & Es & Ee)]; [apply Old; exact X|]. inversion Ee; subst src spl ed.
        apply F2 in Es. destruct Es as (sg & -> & Hs & Ys & Fs). exists i. split; [lia|]. split; [reflexivity|].
        exists x, sg. split; [reflexivity|]. split; [exact Hs|]. split; [exact Ys|]. split; [exact Fs|].
        left. split; [reflexivity|]. split; [left; exact Y|exact Eo].
      * intros X. destruct (New _ _ _ X) as [Z|(-> & x & sg & -> & Hs & Ys & Fs & [(-> & _ & Eo)|(_ & [Z|Z] & _)])]; [left; exact Z| |congruence|congruence].
        right. exists x, (Z.of_nat sg). split; auto. split; [|reflexivity]. apply F2. exists sg. auto.
    + (* L *)
      intros src spl ed. rewrite Ev, chk_ev_in, (A src spl ed), Lid1. split.
      * intros [X|(x & sp & Eo & Es & Ee)]; [apply Old; exact X|]. inversion Ee; subst src spl ed.
        apply F2 in Es. destruct Es as (sg & -> & Hs & Ys & Fs). exists i. split; [lia|]. split; [reflexivity|].
        exists x, sg. split; [reflexivity|]. split; [exact Hs|]. split; [exact Ys|]. split; [exact Fs|].
        right. split; [reflexivity|]. split; [left; exact Y|exact Eo].
      * intros X. destruct (New _ _ _ X) as [Z|(-> & x & sg & -> & Hs & Ys & Fs & [(_ & [Z|Z] & _)|(-> & _ & Eo)])]; [left; exact Z|congruence|congruence|].
        right. exists x, (Z.of_nat sg). split; auto. split; [|reflexivity]. apply F2. exists sg. auto.
    + (* E *)
      intros src spl ed. rewrite Ev, !chk_ev_in, (A src spl ed), Lid1. split.
      * intros [[X|(x & sp & Eo & Es & Ee)]|(x & sp & Eo & Es & Ee)]; [apply Old; exact X| |]; inversion Ee; subst src spl ed;
          apply F2 in Es; destruct Es as (sg & -> & Hs & Ys & Fs); exists i; (split; [lia|]); (split; [reflexivity|]);
          exists x, sg; (split; [reflexivity|]); (split; [exact Hs|]); (split; [exact Ys|]); (split; [exact Fs|]);
          [left|right]; (split; [reflexivity|]); (split; [right; exact Y|exact Eo]).
      * intros X. destruct (New _ _ _ X) as [Z|(-> & x & sg & -> & Hs & Ys & Fs & [(-> & _ & Eo)|(-> & _ & Eo)])]; [left; left; exact Z| |].
        -- left. right. exists x, (Z.of_nat sg). split; auto. split; [|reflexivity]. apply F2. exists sg. auto.
        -- right. exists x, (Z.of_nat sg). split; auto. split; [|reflexivity]. apply F2. exists sg. auto.
    + apply NoNew; auto. intros spl ed (x & sg & _ & _ & _ & _ & [(_ & [Z|Z] & _)|(_ & [Z|Z] & _)]); congruence.
  - intros i s s' H (_ & _ & R3 & _) src spl ed. rewrite R3. apply H.
Qed.

Lemma J6M_all : (forall i, i < N -> J6 i (sti i)) /\ (0 < N -> J6 N sL).
Proof.
  destruct J1M_all as (J1a & _). destruct J5M_all as (J5a & _).
  apply alongW.
  - intros H. destruct (FirstW H) as (_ & B & _). unfold J6. rewrite B. constructor.
  - intros i s1 Hi A ((_ & _ & _ & _ & Li & Cs) & _). cbv zeta in Cs. destruct (J1a i Hi) as (Lid & _).
    assert (Lid1 : last_id s1 = Z.of_nat i) by lia. unfold J6 in *.
    assert (Fresh : forall spl ed, ~ In (Z.of_nat i, spl, ed) (evs (sti i))).
    { intros spl ed Hin. apply (J5a i Hi) in Hin. destruct Hin as (m & Hm & Em & _). lia. }
    destruct Cs as [(Y & _ & Ev & _)|[(Y & _ & _ & _ & Ev & _)|[(Y & _ & _ & _ & Ev & _)|[(Y & _ & _ & _ & _ & Ev & _)|(Y & _ & _ & _ & _ & Ev & _)]]]].
    + rewrite Ev. exact A.
    + rewrite Ev, Lid1. apply chk_ev_nodup; auto.
    + rewrite Ev, Lid1. apply chk_ev_nodup; auto.
    + rewrite Ev, Lid1. apply chk_ev_nodup; [apply chk_ev_nodup; auto|].
      intros spl Hin. apply chk_ev_in in Hin. destruct Hin as [Hin|(x & sp & _ & _ & Ee)]; [exact (Fresh _ _ Hin)|]. inversion Ee.
    + rewrite Ev. exact A.
  - intros i s s' H (_ & _ & R3 & _). unfold J6 in *. rewrite R3. exact H.
Qed.

End InvM.

(** * the corner stack along the whole trace (any number of runs), from [EbTraceStepM_proofs.MSTEP] *)
Section InvS.
Variable opp : list (option nat).
Variable tr : list cfg.
Let N := length tr.
Variables (yL : Z) (sL : est).
Local Notation cfN := (cfN tr).
Local Notation ci := (ci tr).
Local Notation sti := (sti tr).
Local Notation ysym := (ysym tr yL).

Hypothesis StepsM : forall i, S i < N -> MSTEP opp (cfN i) (cfN (S i)).
Hypothesis Last : 0 < N -> SPEC opp (sti (N - 1)) (ci (N - 1)) yL sL.
Hypothesis First : 0 < N -> syms (sti 0) = [] /\ evs (sti 0) = [] /\ f2s (sti 0) = [] /\ last_id (sti 0) = (-1)%Z /\ stack (sti 0) = [Some (ci 0)].
Hypothesis FND : forall m m', m < N -> m' < N -> ci m / 3 = ci m' / 3 -> m = m'.
Hypothesis OPPINV : forall a b, oat opp a = Some b -> oat opp b = Some a.

Lemma StepsW_of : forall i, S i < N -> WSTEP opp (cfN i) (cfN (S i)).
Proof. intros i H. apply MSTEP_WSTEP. apply StepsM. exact H. Qed.
Lemma FirstW_of : 0 < N -> syms (sti 0) = [] /\ evs (sti 0) = [] /\ f2s (sti 0) = [] /\ last_id (sti 0) = (-1)%Z.
Proof. intros H. destruct (First H) as (A & B & C & D & _). auto. Qed.

(** the step i -> i+1 is inside a run *)
Definition SS (i : nat) : Prop := SSTEP opp (cfN i) (cfN (S i)).
Definition NB (j0 j : nat) : Prop := forall p, j0 <= p -> p < j -> SS p.

Lemma ysym_of i y s1 : S i < N -> SPEC opp (sti i) (ci i) y s1 -> REL s1 (sti (S i)) -> ysym i = y.
Proof.
  intros L (Sy & _) (R1 & _). unfold EbTraceInv_proofs.ysym. fold N. replace (S i <? N) with true by (symmetry; apply Nat.ltb_lt; lia).
  rewrite R1, Sy. reflexivity.
Qed.

(** what a step inside a run does to the stack (as [EbTraceInv_proofs.step_stack]) *)
Lemma step_stack_S i : S i < N -> SS i ->
  ((ysym i = 0%Z \/ ysym i = 3%Z) /\ stack (sti (S i)) = stack (sti i) /\ oat opp (next_c (ci i)) = Some (ci (S i)) /\ vf (sti (S i)) = upd (vf (sti i)) (ci i / 3) true)
  \/ (ysym i = 5%Z /\ stack (sti (S i)) = stack (sti i) /\ oat opp (prev_c (ci i)) = Some (ci (S i)) /\ vf (sti (S i)) = upd (vf (sti i)) (ci i / 3) true)
  \/ (ysym i = 7%Z /\ stack (sti i) <> [] /\ (exists dead rest, tl (stack (sti i)) = dead ++ Some (ci (S i)) :: rest /\
        stack (sti (S i)) = Some (ci (S i)) :: rest /\ Forall (dead_at (vf (sti (S i)))) dead /\
        nth (ci (S i) / 3) (vf (sti (S i))) false = false) /\ vf (sti (S i)) = upd (vf (sti i)) (ci i / 3) true)
  \/ (ysym i = 1%Z /\ stack (sti i) <> [] /\ oat opp (next_c (ci i)) = Some (ci (S i)) /\
        (exists l, oat opp (prev_c (ci i)) = Some l /\ nth (l / 3) (vf (sti (S i))) false = false /\
          stack (sti (S i)) = Some (ci (S i)) :: Some l :: tl (stack (sti i))) /\ vf (sti (S i)) = upd (vf (sti i)) (ci i / 3) true).
Proof.
  intros L (y & s1 & Sp & Cs). fold (sti i) (ci i) in Sp. fold (ci i) (ci (S i)) in Cs.
  assert (Ey : ysym i = y /\ vf (sti (S i)) = vf s1).
  { unfold EbTraceInv_proofs.ysym. fold N. replace (S i <? N) with true by (symmetry; apply Nat.ltb_lt; lia).
    destruct Sp as (Sy & _). unfold EbTraceInv_proofs.sti. destruct Cs as [(_ & E1 & _)|[(_ & E1 & _)|(_ & dead & rest & _ & E1 & _)]]; rewrite E1; cbn [with_stack syms vf]; rewrite ?Sy; auto. }
  destruct Ey as (Ey & Ev). rewrite Ey, Ev.
  destruct Sp as (Sy & Pc & Vf & Lv & Li & D). cbv zeta in D.
  destruct Cs as [([Y0|Y0] & E1 & En)|[(Y0 & E1 & En)|([Y0|Y0] & dead & rest & St1 & E1 & Un & Dd)]];
    destruct D as [(Y & D)|[(Y & D)|[(Y & D)|[(Y & D)|(Y & D)]]]]; try congruence.
  - left. destruct D as (D1 & _). split; auto. unfold EbTraceInv_proofs.sti at 1. rewrite E1. auto.
  - left. destruct D as (_ & _ & D1 & _). split; auto. unfold EbTraceInv_proofs.sti at 1. rewrite E1. auto.
  - right. left. destruct D as (_ & _ & D1 & _). split; auto. unfold EbTraceInv_proofs.sti at 1. rewrite E1. auto.
  - right. right. left. destruct D as (_ & _ & Dn & D1 & _). split; auto. split; auto. split; auto. exists dead, rest.
    rewrite <- D1. split; auto. unfold EbTraceInv_proofs.sti at 1. rewrite E1. cbn [with_stack stack]. auto.
  - right. right. right. destruct D as ((r & Er & Ur) & (l & El & Ul) & Dn & D1 & _). split; auto. split; auto.
    rewrite D1, Er, El in St1.
    destruct dead as [|e d'].
    + cbn [app] in St1. inversion St1 as [[Q1 Q2]]. subst r rest. split; auto. split; auto. exists l. split; auto. split; auto.
      unfold EbTraceInv_proofs.sti at 1. rewrite E1. cbn [with_stack stack]. reflexivity.
    + exfalso. cbn [app] in St1. inversion St1 as [[Q1 Q2]]. subst e. inversion Dd as [|? ? Dr _]; subst. cbn [dead_at] in Dr. congruence.
Qed.

(** a run boundary: the older configuration emits E, every entry left is dead; the new stack has one entry *)
Lemma step_stack_R i : S i < N -> RSTEP opp (cfN i) (cfN (S i)) ->
  ysym i = 7%Z /\ stack (sti (S i)) = [Some (ci (S i))] /\
  exists s1, SPEC opp (sti i) (ci i) 7%Z s1 /\ stack s1 = tl (stack (sti i)) /\ Forall (dead_at (vf s1)) (tl (stack (sti i))) /\ REL s1 (sti (S i)).
Proof.
  intros L (y & s1 & Sp & Yy & Dd & Re & St). fold (sti i) (ci i) in Sp. fold (sti (S i)) in Re, St. fold (ci (S i)) in St.
  pose proof (ysym_of i y s1 L Sp Re) as Ey.
  assert (Y7 : y = 7%Z).
  { destruct Yy as [Y|Y]; auto. exfalso. destruct Sp as (_ & _ & _ & _ & _ & D). cbv zeta in D.
    destruct D as [(Y0 & _)|[(Y0 & _)|[(Y0 & _)|[(Y0 & _)|(_ & (r & Er & Ur) & _ & _ & St1 & _)]]]]; try congruence.
    rewrite St1, Er in Dd. inversion Dd as [|? ? Dr _]. cbn [dead_at] in Dr. congruence. }
  rewrite Y7 in *. clear Y7 Yy. split; auto. split; auto. exists s1. split; auto.
  pose proof Sp as Sp'. destruct Sp' as (_ & _ & _ & _ & _ & D). cbv zeta in D.
  destruct D as [(Y0 & _)|[(Y0 & _)|[(Y0 & _)|[(_ & _ & _ & _ & St1 & _)|(Y0 & _)]]]]; try discriminate.
  rewrite St1 in Dd. auto.
Qed.

(** visited_faces_ between two configurations of one run *)
Lemma vf_NB j0 : forall j, j0 <= j -> j < N -> NB j0 j ->
  forall f, nth f (vf (sti j)) false = true <-> (nth f (vf (sti j0)) false = true \/ exists m, j0 <= m /\ m < j /\ ci m / 3 = f).
Proof.
  induction j as [|j IH]; intros L Hj Nb f.
  - assert (j0 = 0) by lia. subst j0. split; [auto|]. intros [X|(m & _ & Hm & _)]; [auto|lia].
  - destruct (Nat.eq_dec j0 (S j)) as [->|Nj]. { split; [auto|]. intros [X|(m & A & B & _)]; [auto|lia]. }
    assert (Nb' : NB j0 j) by (intros p A B; apply Nb; lia).
    pose proof (IH ltac:(lia) ltac:(lia) Nb' f) as IHf.
    assert (Vf : vf (sti (S j)) = upd (vf (sti j)) (ci j / 3) true).
    { destruct (step_stack_S j Hj (Nb j ltac:(lia) ltac:(lia))) as [(_ & _ & _ & V)|[(_ & _ & _ & V)|[(_ & _ & _ & V)|(_ & _ & _ & _ & V)]]]; exact V. }
    rewrite Vf, nth_upd. destruct ((f =? ci j / 3) && (ci j / 3 <? length (vf (sti j)))) eqn:E.
    + apply andb_prop in E. destruct E as [E _]. apply Nat.eqb_eq in E. split; auto. intros _. right. exists j. split; [lia|]. split; [lia|auto].
    + rewrite IHf. split.
      * intros [X|(m & A & B & C)]; [auto|right; exists m; split; [lia|split; [lia|auto]]].
      * intros [X|(m & A & B & C)]; [auto|]. destruct (Nat.eq_dec m j) as [->|Nm]; [|right; exists m; split; [lia|split; [lia|auto]]].
        exfalso. apply andb_false_iff in E. destruct E as [E|E]; [apply Nat.eqb_neq in E; congruence|].
        apply Nat.ltb_ge in E.
        destruct (Nb j ltac:(lia) ltac:(lia)) as (y & s1 & (_ & _ & _ & Lv & _) & _). fold (sti j) (ci j) in Lv. lia.
Qed.

(** a processed face stays visited *)
Lemma visited_later m : forall j, m < j -> j < N -> nth (ci m / 3) (vf (sti j)) false = true.
Proof.
  induction j as [|j IH]; intros Hm Hj; [lia|].
  destruct (StepsW_of j Hj) as (y & s1 & (_ & _ & Vf & Lv & _) & (_ & _ & _ & _ & _ & _ & Mono)). fold (sti j) (ci j) in Vf, Lv. fold (sti (S j)) in Mono.
  apply Mono. rewrite Vf, nth_upd. destruct (Nat.eq_dec m j) as [->|Nm].
  - rewrite Nat.eqb_refl. cbn [andb]. replace (ci j / 3 <? length (vf (sti j))) with true by (symmetry; apply Nat.ltb_lt; exact Lv). reflexivity.
  - destruct ((ci m / 3 =? ci j / 3) && (ci j / 3 <? length (vf (sti j)))); auto. apply IH; lia.
Qed.

Lemma next_ne_prevM c : next_c c <> prev_c c.
Proof.
  intro X. destruct (corner_cases c) as [E|[E|E]]; rewrite E in X; rewrite ?next_0, ?next_1, ?next_2, ?prev_0, ?prev_1, ?prev_2 in X; lia.
Qed.

Definition lcm (m : nat) : option nat := oat opp (prev_c (ci m)).
Lemma lcm_inj m m' l : m < N -> m' < N -> lcm m = Some l -> lcm m' = Some l -> m = m'.
Proof.
  intros Hm Hm' A B. apply OPPINV in A, B. rewrite A in B. inversion B as [X]. apply FND; auto.
  rewrite <- (prev_face (ci m)), <- (prev_face (ci m')), X. reflexivity.
Qed.

(** every entry below the top is the left corner pushed by an earlier S OF THE SAME RUN; no entry occurs twice *)
Definition J4M (i : nat) : Prop :=
  NoDup (tl (stack (sti i))) /\
  forall e, In e (tl (stack (sti i))) -> exists m l, m < i /\ ysym m = 1%Z /\ e = Some l /\ lcm m = Some l /\ NB m i.
Lemma J4M_all : forall i, i < N -> J4M i.
Proof.
  induction i as [|i IH]; intros Hi.
  - destruct (First Hi) as (_ & _ & _ & _ & St). unfold J4M. rewrite St. cbn [tl]. split; [constructor|intros e []].
  - destruct (IH ltac:(lia)) as (ND & Pv). unfold J4M.
    destruct (StepsM i Hi) as [Hs|Hr].
    2: { destruct (step_stack_R i Hi Hr) as (_ & St & _). rewrite St. cbn [tl]. split; [constructor|intros e []]. }
    assert (Pv' : forall e, In e (tl (stack (sti i))) -> exists m l, m < S i /\ ysym m = 1%Z /\ e = Some l /\ lcm m = Some l /\ NB m (S i)).
    { intros e He. destruct (Pv e He) as (m & l & A & B & C & D & Nb). exists m, l. split; [lia|]. split; auto. split; auto. split; auto.
      intros p P1 P2. destruct (Nat.eq_dec p i) as [->|]; [exact Hs|apply Nb; lia]. }
    destruct (step_stack_S i Hi Hs) as [(_ & E & _)|[(_ & E & _)|[(_ & _ & (dead & rest & E0 & E & _) & _)|(Y & _ & _ & (l & El & Ul & E) & _)]]].
    + rewrite E. auto.
    + rewrite E. auto.
    + rewrite E. cbn [tl]. rewrite E0 in ND, Pv'. split.
      * apply NoDup_app_r in ND. inversion ND; auto.
      * intros e He. apply Pv'. apply in_or_app. right. right. exact He.
    + rewrite E. cbn [tl]. split.
      * constructor; auto. intros Hin. destruct (Pv _ Hin) as (m & l' & A & _ & B & C & _). inversion B; subst l'.
        assert (m = i) by (apply (lcm_inj m i l); auto; lia). lia.
      * intros e [<-|He]; [|apply Pv'; exact He]. exists i, l. split; [lia|]. split; auto. split; auto. split; auto.
        intros p P1 P2. assert (p = i) by lia. subst p. exact Hs.
Qed.

(** the entries below the top at a later time of the same run were there before, or were pushed in between *)
Lemma stack_futureM j0 : forall j, j0 <= j -> j < N -> NB j0 j -> forall e, In e (tl (stack (sti j))) ->
  In e (tl (stack (sti j0))) \/ exists m, j0 <= m /\ m < j /\ e = lcm m.
Proof.
  induction j as [|j IH]; intros L Hj Nb e He.
  - assert (j0 = 0) by lia. subst j0. auto.
  - destruct (Nat.eq_dec j0 (S j)) as [->|Nj]; [auto|].
    assert (Nb' : NB j0 j) by (intros p A B; apply Nb; lia).
    assert (IH' : forall e, In e (tl (stack (sti j))) -> In e (tl (stack (sti j0))) \/ exists m, j0 <= m /\ m < S j /\ e = lcm m).
    { intros e0 H0. destruct (IH ltac:(lia) ltac:(lia) Nb' e0 H0) as [X|(m & A & B & C)]; [auto|right; exists m; split; [lia|split; [lia|auto]]]. }
    destruct (step_stack_S j Hj (Nb j ltac:(lia) ltac:(lia))) as [(_ & E & _)|[(_ & E & _)|[(_ & _ & (dead & rest & E0 & E & _) & _)|(Y & _ & _ & (l & El & Ul & E) & _)]]].
    + rewrite E in He. auto.
    + rewrite E in He. auto.
    + rewrite E in He. cbn [tl] in He. apply IH'. rewrite E0. apply in_or_app. right. right. exact He.
    + rewrite E in He. cbn [tl] in He. destruct He as [<-|He]; [|auto]. right. exists j. split; [lia|]. split; [lia|]. unfold lcm. auto.
Qed.

(** an entry below the top whose face is visited after symbol i (state [s1] after the step) is NOT a corner at which its face is processed *)
Lemma dead_not_aliveM i l s1 : i < N -> In (Some l) (tl (stack (sti i))) -> vf s1 = upd (vf (sti i)) (ci i / 3) true ->
  nth (l / 3) (vf s1) false = true -> forall m2, m2 < N -> ci m2 <> l.
Proof.
  intros Hi Hin Evf Vis m2 Hm2 Ec.
  destruct (J4M_all i Hi) as (_ & Pv). destruct (Pv _ Hin) as (m & l' & Hm & Ym & El & Lm & Nb). inversion El; subst l'. clear El.
  assert (HSm : S m < N) by lia.
  assert (Hsm : SS m) by (apply Nb; lia).
  assert (Unv : nth (l / 3) (vf (sti (S m))) false = false).
  { destruct (step_stack_S m HSm Hsm) as [([Y|Y] & _)|[(Y & _)|[(Y & _)|(_ & _ & _ & (l0 & El0 & Ul & _) & _)]]]; try congruence.
    unfold lcm in Lm. rewrite El0 in Lm. inversion Lm; subst l0. exact Ul. }
  assert (L1 : S m <= m2).
  { destruct (le_lt_dec (S m) m2); auto. exfalso. pose proof (visited_later m2 (S m) ltac:(lia) HSm) as X. rewrite Ec in X. congruence. }
  assert (Nb1 : NB (S m) i) by (intros p A B; apply Nb; lia).
  assert (L2 : m2 <= i).
  { rewrite Evf, nth_upd in Vis. destruct ((l / 3 =? ci i / 3) && (ci i / 3 <? length (vf (sti i)))) eqn:E.
    - apply andb_prop in E. destruct E as [E _]. apply Nat.eqb_eq in E. assert (m2 = i) by (apply FND; try lia; rewrite Ec; exact E). lia.
    - apply (vf_NB (S m) i ltac:(lia) Hi Nb1) in Vis. destruct Vis as [X|(m' & A & B & C)]; [congruence|].
      assert (m' = m2) by (apply FND; try lia; rewrite Ec; exact C). lia. }
  destruct m2 as [|p]; [lia|].
  assert (Side : forall sd, oat opp sd = Some (ci (S p)) -> sd / 3 = ci p / 3 -> p = m /\ sd = prev_c (ci m)).
  { intros sd Es Fs. rewrite Ec in Es. apply OPPINV in Es. unfold lcm in Lm. apply OPPINV in Lm. rewrite Lm in Es. inversion Es as [X].
    split; auto. apply FND; try lia. rewrite <- Fs, <- X. apply prev_face. }
  assert (Hsp : SS p) by (apply Nb; lia).
  destruct (step_stack_S p Hm2 Hsp) as [([Y|Y] & _ & En & _)|[(Y & _ & En & _)|[(Y & _ & (dead & rest & E0 & E & _) & _)|(Y & _ & En & _)]]].
  - destruct (Side _ En (next_face _)) as (-> & _). congruence.
  - destruct (Side _ En (next_face _)) as (-> & _). congruence.
  - destruct (Side _ En (prev_face _)) as (-> & _). congruence.
  - destruct (J4M_all p ltac:(lia)) as (NDp & _). rewrite E0 in NDp. rewrite Ec in *.
    assert (Nr : ~ In (Some l) rest).
    { apply NoDup_app_r in NDp. inversion NDp; auto. }
    assert (Nb2 : NB (S p) i) by (intros q A B; apply Nb; lia).
    destruct (stack_futureM (S p) i L2 Hi Nb2 _ Hin) as [X|(m'' & A & B & C)].
    + rewrite E in X. cbn [tl] in X. exact (Nr X).
    + assert (m = m'') by (apply (lcm_inj m m'' l); auto; lia). lia.
  - destruct (Side _ En (next_face _)) as (-> & X). exact (next_ne_prevM _ X).
Qed.
End InvS.
