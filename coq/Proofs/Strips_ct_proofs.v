(** C14 strip clause, closed over the corner table: the well-formedness [opp_wf] that the strip theorems need is
    delivered by C13 for the table [CornerTable::Create] builds ([ct_create], Model/CornerTable.v) from ANY triangle
    list — here the faces written in POSITION value indices ([CreateCornerTableFromPositionAttribute]), which has as
    many faces as the mesh has.  So for every mesh the two streams decode to the mesh's faces, no hypothesis left. *)
From Coq Require Import List Arith Permutation.
From Draco Require Import Model.Dedup Model.Cleanup Model.Strips Model.CornerTable
                          Proofs.Cleanup_proofs Proofs.Strips_proofs Proofs.CornerTable_proofs.
Import ListNotations.

Lemma corner_table_opp_wf posfaces t faces :
  ct_create posfaces = Some t -> length faces = length posfaces -> opp_wf faces (ct_opp t).
Proof.
  intros Hc Hl a b Hab. change (opposite (ct_opp t) a) with (opp_at (ct_opp t) a) in Hab.
  destruct (opp_symmetric posfaces t a b Hc Hab) as (H1 & _ & _ & H2). rewrite Hl. split; [exact H1|exact H2].
Qed.

Theorem strips_restart_on_corner_table faces posfaces : length faces = length posfaces ->
  exists t s l, ct_create posfaces = Some t /\ strips_restart faces (ct_opp t) = Some s /\
    Permutation l (seq 0 (length faces)) /\
    Forall2 rot_equiv (map (fun f => nth f faces (0, 0, 0)) l) (decode_restart s).
Proof.
  intros Hl. destruct (ct_create_total posfaces) as (t & Ht).
  destruct (strips_restart_preserve faces (ct_opp t) (corner_table_opp_wf _ _ _ Ht Hl)) as (s & l & H).
  exists t, s, l. tauto.
Qed.

Theorem strips_degenerate_on_corner_table faces posfaces : length faces = length posfaces ->
  exists t s l, ct_create posfaces = Some t /\ strips_degenerate faces (ct_opp t) = Some s /\
    Permutation l (seq 0 (length faces)) /\
    Forall2 rot_equiv (filter tri_nondeg (map (fun f => nth f faces (0, 0, 0)) l)) (decode_degenerate s).
Proof.
  intros Hl. destruct (ct_create_total posfaces) as (t & Ht).
  destruct (strips_degenerate_preserve faces (ct_opp t) (corner_table_opp_wf _ _ _ Ht Hl)) as (s & l & H).
  exists t, s, l. tauto.
Qed.
