(** Proofs for Model/RansBound.v:
    (A) the area StartEncoding reserves is large enough for everything rans_write / write_end / EndEncoding
        write into it ([write_area_sufficient]): the classical rANS length bound in multiplicative form
        (no real logarithm anywhere), with the explicit slack factor 5/4;
    (B) Create cannot return false on the tables EncodeRawSymbols / EncodeTaggedSymbols build
        ([create_succeeds], [create_succeeds_raw], [create_succeeds_tagged]). *)
From Coq Require Import ZifyBool FMapPositive.
From Draco Require Import Base.Codec Base.Bits Model.Varint Proofs.Varint_proofs Model.RansSymbol Proofs.RansSymbol_proofs
  Model.RansBound.
Local Open Scope Z_scope.
Arguments Z.add : simpl never. Arguments Z.mul : simpl never. Arguments Z.pow : simpl never.
Arguments Z.div : simpl never. Arguments Z.modulo : simpl never. Arguments Z.sub : simpl never.


(** * One renormalisation: the bytes pushed and what is left of the state *)
Lemma enc_renorm_pot : forall f lim x stk x' stk', 0 <= x ->
  enc_renorm f lim x stk = Some (x', stk') ->
  exists j, length stk' = (length stk + j)%nat /\ x' * 256 ^ Z.of_nat j <= x /\ 0 <= x'.
Proof.
  induction f as [|f IH]; intros lim x stk x' stk' Hx H; [discriminate|].
  cbn [enc_renorm] in H. destruct (x >=? lim) eqn:E.
  - apply IH in H; [|apply Z.div_pos; lia]. destruct H as (j & Hl & Hp & H0).
    exists (S j). cbn [length] in Hl. split; [lia|]. split; [|exact H0].
    rewrite Nat2Z.inj_succ, Z.pow_succ_r by lia.
    pose proof (Z.div_mod x 256 ltac:(lia)). pose proof (Z.mod_pos_bound x 256 ltac:(lia)). nia.
  - injection H as <- <-. exists 0%nat. split; [lia|]. change (256 ^ Z.of_nat 0) with 1. lia.
Qed.

Section Step.
  Variable P : Z.
  Hypothesis HP : 0 <= P <= 20.
  Let M := 2 ^ P.
  Let L := rans_L P.

  (** rans_write on a state in [L, 256 L): j bytes are pushed and  4 p x2 256^j <= (5 M - p) x. *)
  Lemma rans_write_pot p c x stk x2 stk2 : sym_ok P p c -> L <= x < 256 * L ->
    rans_write P (p, c) (x, stk) = Some (x2, stk2) ->
    L <= x2 < 256 * L /\
    exists j, length stk2 = (length stk + j)%nat /\ 4 * p * x2 * 256 ^ Z.of_nat j <= (5 * M - p) * x.
  Proof.
    pose proof (M_range P HP) as HM. fold M in HM. assert (HL : L = 4 * M) by reflexivity.
    intros (Hp & Hc & Hcp) Hx Hw. fold M in Hcp.
    destruct (rans_write_spec P HP p c x stk (conj Hp (conj Hc Hcp)) Hx) as (xa & x2a & stka & Hwa & Hr2 & _).
    rewrite Hw in Hwa. injection Hwa as <- <-. split; [exact Hr2|].
    unfold rans_write in Hw.
    assert (Hlim : (4 * 256 * p) mod 2 ^ 32 = 256 * (4 * p)).
    { rewrite Z.mod_small; [lia|]. change (2^32) with 4294967296. lia. }
    rewrite Hlim in Hw.
    destruct (enc_renorm 5 (256 * (4 * p)) x stk) as [[x' stk']|] eqn:Er; [|discriminate].
    injection Hw as Hx2 <-.
    pose proof Er as Er2. apply (enc_renorm_low P) in Er2; try lia. destruct Er2 as [Hx'|]; [|lia].
    apply enc_renorm_pot in Er; [|lia]. destruct Er as (j & Hl & Hpot & _).
    exists j. split; [exact Hl|].
    pose proof (Z.div_mod x' p ltac:(lia)) as Hdm. pose proof (Z.mod_pos_bound x' p ltac:(lia)) as Hmb.
    assert (Hq : 4 <= x' / p < 1024).
    { split; [apply Z.div_le_lower_bound; lia|apply Z.div_lt_upper_bound; lia]. }
    fold M in Hx2.
    set (q := x' / p) in *. set (r := x' mod p) in *.
    rewrite Z.mod_small in Hx2 by (change (2^32) with 4294967296; nia).
    assert (H1 : 4 * p * x2 <= (5 * M - p) * x').
    { subst x2. rewrite Hdm.
      assert (0 <= p * (M - p) * (q - 4)) by (apply Z.mul_nonneg_nonneg; nia).
      assert (0 <= r * (M - p)) by nia. nia. }
    set (w := 256 ^ Z.of_nat j) in *. assert (0 < w) by (apply Z.pow_pos_nonneg; lia).
    assert (0 <= 5 * M - p) by lia. nia.
  Qed.
End Step.

(** * Products along the encoded sequence *)
Definition pr_of (probs : list Z) (s : Z) : Z := nth (Z.to_nat s) probs 0.
Fixpoint seq_den (probs syms : list Z) : Z :=
  match syms with [] => 1 | s :: r => pr_of probs s * seq_den probs r end.
Fixpoint seq_a (probs syms : list Z) : Z :=
  match syms with [] => 1 | s :: r => (4 * pr_of probs s) * seq_a probs r end.
Fixpoint seq_b (M : Z) (probs syms : list Z) : Z :=
  match syms with [] => 1 | s :: r => (5 * M - pr_of probs s) * seq_b M probs r end.

Lemma pr_of_used probs s : sym_used probs s -> 1 <= pr_of probs s /\ nth_error probs (Z.to_nat s) = Some (pr_of probs s).
Proof.
  intros (Hs & p & Hn & Hp). unfold pr_of. rewrite (nth_error_nth _ _ _ Hn). split; [exact Hp|exact Hn].
Qed.

Lemma seq_den_pos probs syms : (forall s, In s syms -> sym_used probs s) -> 1 <= seq_den probs syms.
Proof.
  induction syms as [|s r IH]; intros H; cbn [seq_den]; [lia|].
  pose proof (proj1 (pr_of_used probs s (H s (or_introl eq_refl)))). specialize (IH (fun s' Hs => H s' (or_intror Hs))). nia.
Qed.
Lemma seq_a_pos probs syms : (forall s, In s syms -> sym_used probs s) -> 1 <= seq_a probs syms.
Proof.
  induction syms as [|s r IH]; intros H; cbn [seq_a]; [lia|].
  pose proof (proj1 (pr_of_used probs s (H s (or_introl eq_refl)))). specialize (IH (fun s' Hs => H s' (or_intror Hs))). nia.
Qed.

(** the polynomial fact behind the factor 5/4:  ((5M - p) / (4p))^4 <= (M / p)^5  for 0 < p <= M *)
Lemma five_quarters M p : 1 <= p <= M -> (5 * M - p) ^ 4 * p ^ 5 <= (4 * p) ^ 4 * M ^ 5.
Proof.
  intros Hp. set (t := M - p). assert (Ht : 0 <= t) by (unfold t; lia). assert (HM : 1 <= M) by lia.
  assert (H1 : 0 <= p ^ 4) by (apply Z.pow_nonneg; lia).
  assert (H2 : 0 <= t ^ 2) by (apply Z.pow_nonneg; exact Ht).
  assert (H3 : 0 <= M ^ 3) by (apply Z.pow_nonneg; lia).
  assert (H4 : 0 <= M ^ 2) by (apply Z.pow_nonneg; lia).
  assert (H5 : 0 <= t ^ 3) by (apply Z.pow_nonneg; exact Ht).
  assert (H6 : 0 <= 160 * M ^ 3 + 80 * M ^ 2 * t + 15 * M * t ^ 2 + t ^ 3).
  { assert (0 <= M ^ 2 * t) by (apply Z.mul_nonneg_nonneg; assumption).
    assert (0 <= M * t ^ 2) by (apply Z.mul_nonneg_nonneg; lia). lia. }
  assert (H7 : 0 <= p ^ 4 * (t ^ 2 * (160 * M ^ 3 + 80 * M ^ 2 * t + 15 * M * t ^ 2 + t ^ 3))).
  { apply Z.mul_nonneg_nonneg; [assumption|]. apply Z.mul_nonneg_nonneg; assumption. }
  assert (E : (4 * p) ^ 4 * M ^ 5 - (5 * M - p) ^ 4 * p ^ 5 =
              p ^ 4 * (t ^ 2 * (160 * M ^ 3 + 80 * M ^ 2 * t + 15 * M * t ^ 2 + t ^ 3))).
  { unfold t. ring. }
  revert E H7. generalize ((4 * p) ^ 4 * M ^ 5) ((5 * M - p) ^ 4 * p ^ 5)
    (p ^ 4 * (t ^ 2 * (160 * M ^ 3 + 80 * M ^ 2 * t + 15 * M * t ^ 2 + t ^ 3))). clear. intros; lia.
Qed.

Lemma seq_five_quarters M probs syms : (forall s, In s syms -> sym_used probs s /\ pr_of probs s <= M) ->
  seq_b M probs syms ^ 4 * seq_den probs syms ^ 5 <= seq_a probs syms ^ 4 * M ^ (5 * Z.of_nat (length syms))
  /\ 0 <= seq_b M probs syms.
Proof.
  induction syms as [|s r IH]; intros H.
  - cbn [seq_b seq_den seq_a length]. change (5 * Z.of_nat 0) with 0. rewrite Z.pow_0_r. cbn. lia.
  - destruct (H s (or_introl eq_refl)) as (Hu & HpM). pose proof (proj1 (pr_of_used probs s Hu)) as Hp1.
    destruct (IH (fun s' Hs => H s' (or_intror Hs))) as (IH1 & IH2).
    cbn [seq_b seq_den seq_a length]. set (p := pr_of probs s) in *.
    split; [|apply Z.mul_nonneg_nonneg; lia].
    replace (5 * Z.of_nat (S (length r))) with (5 + 5 * Z.of_nat (length r)) by lia.
    rewrite Z.pow_add_r by lia. rewrite !Z.pow_mul_l.
    assert (HpM' : 1 <= p <= M) by lia.
    assert (Hn1 : 0 <= (5 * M - p) ^ 4 * p ^ 5).
    { apply Z.mul_nonneg_nonneg; apply Z.pow_nonneg; clear - HpM'; lia. }
    assert (Hn2 : 0 <= seq_b M probs r ^ 4 * seq_den probs r ^ 5).
    { pose proof (seq_den_pos probs r (fun s' Hs => proj1 (H s' (or_intror Hs)))) as HD.
      apply Z.mul_nonneg_nonneg; apply Z.pow_nonneg; clear - HD IH2; lia. }
    pose proof (five_quarters M p HpM') as H5.
    set (B := seq_b M probs r) in *. set (D := seq_den probs r) in *. set (A := seq_a probs r) in *.
    set (Mn := M ^ (5 * Z.of_nat (length r))) in *.
    replace ((5 * M - p) ^ 4 * B ^ 4 * (p ^ 5 * D ^ 5)) with (((5 * M - p) ^ 4 * p ^ 5) * (B ^ 4 * D ^ 5)) by ring.
    replace ((4 ^ 4 * p ^ 4) * A ^ 4 * (M ^ 5 * Mn)) with (((4 * p) ^ 4 * M ^ 5) * (A ^ 4 * Mn)) by (rewrite Z.pow_mul_l; ring).
    apply Z.mul_le_mono_nonneg; [exact Hn1|exact H5|exact Hn2|exact IH1].
Qed.

Section Seq.
  Variable P : Z.
  Hypothesis HP : 0 <= P <= 20.
  Let M := 2 ^ P.
  Let L := rans_L P.
  Variable probs : list Z.
  Hypothesis Hnn : all_nonneg probs.
  Hypothesis Hsum : zsum probs = 2 ^ P.
  Let tbl := arr_of_list (with_cum probs 0).

  Lemma used_sym_ok s : sym_used probs s ->
    arr_get tbl s = Some (pr_of probs s, cumz probs s) /\ sym_ok P (pr_of probs s) (cumz probs s) /\ pr_of probs s <= M.
  Proof.
    intros Hu. destruct (pr_of_used probs s Hu) as (Hp1 & Hn). destruct Hu as (Hs & _).
    unfold tbl. rewrite tbl_get, Hn by lia. split; [reflexivity|].
    assert (Hsl : s < zlen probs).
    { assert (nth_error probs (Z.to_nat s) <> None) by congruence. apply nth_error_Some in H. unfold zlen. lia. }
    pose proof (cumz_succ probs s _ Hs Hn) as Hsucc.
    pose proof (cumz_mono probs 0 s Hnn ltac:(lia)) as H0. rewrite cumz_0 in H0.
    assert (H1 : cumz probs (s + 1) <= cumz probs (zlen probs)) by (apply cumz_mono; [assumption|lia]).
    rewrite (cumz_all probs (zlen probs)) in H1 by lia.
    unfold sym_ok. fold M. lia.
  Qed.

  (** The invariant of the whole symbol loop: k bytes pushed, and  x * 256^k * prod(4 p_i) <= x0 * prod(5M - p_i). *)
  Lemma encode_syms_pot : forall syms x0 stk0 x stk,
    (forall s, In s syms -> sym_used probs s) -> L <= x0 < 256 * L ->
    rans_encode_syms P tbl syms (x0, stk0) = Some (x, stk) ->
    L <= x < 256 * L /\
    exists k, length stk = (length stk0 + k)%nat /\
              x * 256 ^ Z.of_nat k * seq_a probs syms <= x0 * seq_b M probs syms.
  Proof.
    induction syms as [|s r IH]; intros x0 stk0 x stk Hall Hx0 Henc.
    - cbn in Henc. injection Henc as <- <-. split; [exact Hx0|]. exists 0%nat. cbn [seq_a seq_b].
      change (256 ^ Z.of_nat 0) with 1. split; lia.
    - cbn [rans_encode_syms] in Henc.
      destruct (rans_encode_syms P tbl r (x0, stk0)) as [[xr stkr]|] eqn:Er; [|discriminate].
      destruct (IH x0 stk0 xr stkr (fun s' H => Hall s' (or_intror H)) Hx0 Er) as (Hrr & k & Hk & Hpot).
      destruct (used_sym_ok s (Hall s (or_introl eq_refl))) as (Hg & Hok & HpM). rewrite Hg in Henc.
      destruct (rans_write_pot P HP _ _ xr stkr x stk Hok Hrr Henc) as (Hr2 & j & Hj & Hstep).
      split; [exact Hr2|]. exists (k + j)%nat. split; [lia|].
      cbn [seq_a seq_b]. fold M in Hstep. set (p := pr_of probs s) in *.
      rewrite Nat2Z.inj_add, Z.pow_add_r by lia.
      set (wk := 256 ^ Z.of_nat k) in *. set (wj := 256 ^ Z.of_nat j) in *.
      set (A := seq_a probs r) in *. set (B := seq_b M probs r) in *.
      assert (0 < wk) by (apply Z.pow_pos_nonneg; lia).
      assert (1 <= A) by (apply seq_a_pos; intros; apply Hall; right; assumption).
      assert (0 <= 5 * M - p) by lia.
      (* x wk wj (4p) A = (4 p x wj) (wk A) <= (5M-p) xr wk A <= (5M-p) x0 B *)
      apply Z.le_trans with ((5 * M - p) * xr * (wk * A)).
      + replace (x * (wk * wj) * (4 * p * A)) with ((4 * p * x * wj) * (wk * A)) by ring.
        apply Z.mul_le_mono_nonneg_r; [nia|exact Hstep].
      + replace ((5 * M - p) * xr * (wk * A)) with ((5 * M - p) * (xr * wk * A)) by ring.
        replace (x0 * ((5 * M - p) * B)) with ((5 * M - p) * (x0 * B)) by ring.
        apply Z.mul_le_mono_nonneg_l; assumption.
  Qed.

  (** The classical rANS length bound in multiplicative form, with the slack factor 5/4 on the exponent:
        256^(4k) * (prod p_i)^5  <=  (2^P)^(5n),   i.e.   8 k <= 1.25 * sum_i log2(2^P / p_i). *)
  Theorem rans_renorm_bytes_bound syms x stk :
    (forall s, In s syms -> sym_used probs s) ->
    rans_encode_syms P tbl syms (rans_write_init P) = Some (x, stk) ->
    L <= x < 256 * L /\
    256 ^ (4 * zlen stk) * seq_den probs syms ^ 5 <= M ^ (5 * zlen syms).
  Proof.
    intros Hall Henc. pose proof (M_range P HP) as HM. fold M in HM.
    unfold rans_write_init in Henc. fold L in Henc.
    destruct (encode_syms_pot syms L [] x stk Hall ltac:(unfold L, rans_L; fold M; lia) Henc) as (Hx & k & Hk & Hpot).
    split; [exact Hx|]. cbn [length] in Hk. unfold zlen. rewrite Hk. cbn [Nat.add].
    destruct (seq_five_quarters M probs syms) as (H54 & HB0).
    { intros s Hs. split; [apply Hall; exact Hs|]. apply used_sym_ok, Hall, Hs. }
    set (A := seq_a probs syms) in *. set (B := seq_b M probs syms) in *. set (D := seq_den probs syms) in *.
    set (w := 256 ^ Z.of_nat k) in *.
    assert (HA : 1 <= A) by (apply seq_a_pos; exact Hall).
    assert (HD : 1 <= D) by (apply seq_den_pos; exact Hall).
    assert (Hw : 0 < w) by (apply Z.pow_pos_nonneg; lia).
    assert (HL0 : 0 < L) by (unfold L, rans_L; fold M; lia).
    (* w A <= B *)
    assert (H1 : w * A <= B).
    { assert (L * (w * A) <= L * B) by nia. apply Z.mul_le_mono_pos_l in H; assumption. }
    assert (H2 : (w * A) ^ 4 <= B ^ 4) by (apply Z.pow_le_mono_l; nia).
    rewrite Z.pow_mul_l in H2.
    assert (Hw4 : 256 ^ (4 * Z.of_nat k) = w ^ 4).
    { unfold w. rewrite <- Z.pow_mul_r by lia. f_equal. lia. }
    rewrite Hw4.
    assert (HD5 : 0 < D ^ 5) by (apply Z.pow_pos_nonneg; lia).
    assert (HA4 : 0 < A ^ 4) by (apply Z.pow_pos_nonneg; lia).
    set (Mn := M ^ (5 * Z.of_nat (length syms))) in *.
    assert (H3 : A ^ 4 * (w ^ 4 * D ^ 5) <= A ^ 4 * Mn).
    { apply Z.le_trans with (B ^ 4 * D ^ 5); [|exact H54].
      replace (A ^ 4 * (w ^ 4 * D ^ 5)) with ((w ^ 4 * A ^ 4) * D ^ 5) by ring.
      apply Z.mul_le_mono_nonneg_r; lia. }
    apply Z.mul_le_mono_pos_l in H3; assumption.
  Qed.
End Seq.

(** * The sequence against the frequency table *)
Fixpoint dec_at (n : nat) (l : list Z) : list Z :=
  match l, n with
  | [], _ => []
  | f :: r, O => (f - 1) :: r
  | f :: r, S n' => f :: dec_at n' r
  end.
Lemma dec_at_nth : forall l n k, nth k (dec_at n l) 0 = nth k l 0 - (if Nat.eqb k n && Nat.ltb n (length l) then 1 else 0).
Proof.
  induction l as [|f r IH]; intros n k.
  - assert (dec_at n [] = []) as -> by (destruct n; reflexivity). cbn [length].
    replace (n <? 0)%nat with false by (symmetry; apply Nat.ltb_ge; lia). rewrite andb_false_r. destruct k; cbn; lia.
  - destruct n as [|n], k as [|k]; cbn [dec_at nth length Nat.eqb andb]; try lia.
    + change (0 <? S (length r))%nat with true. cbv iota. lia.
    + rewrite IH. change (S n <? S (length r))%nat with (n <? length r)%nat. reflexivity.
Qed.

Lemma tbl_dec_at M : forall probs freqs n p f, nth_error probs n = Some p -> p <> 0 -> nth_error freqs n = Some f -> 1 <= f ->
  tbl_num M probs freqs = M * tbl_num M probs (dec_at n freqs) /\
  tbl_den probs freqs = p * tbl_den probs (dec_at n freqs).
Proof.
  induction probs as [|p0 pr IH]; intros freqs n p f Hp Hp0 Hf Hf1; [destruct n; discriminate|].
  destruct freqs as [|f0 fr]; [destruct n; discriminate|].
  destruct n as [|n]; cbn [nth_error] in Hp, Hf; cbn [dec_at tbl_num tbl_den].
  - injection Hp as ->. injection Hf as ->. destruct (p =? 0) eqn:E; [lia|].
    replace f with (1 + (f - 1)) at 1 3 by lia. rewrite !Z.pow_add_r, !Z.pow_1_r by lia. split; ring.
  - destruct (IH fr n p f Hp Hp0 Hf Hf1) as (H1 & H2). rewrite H1, H2. split; ring.
Qed.

Lemma zcount_nonneg s l : 0 <= zcount s l.
Proof. induction l as [|x r IH]; cbn [zcount]; [lia|]. destruct (x =? s); lia. Qed.

Lemma tbl_pos M : 1 <= M -> forall probs freqs, all_nonneg probs -> (forall f, In f freqs -> 0 <= f) ->
  1 <= tbl_num M probs freqs /\ 1 <= tbl_den probs freqs.
Proof.
  intros HM. induction probs as [|p pr IH]; intros freqs Hnn Hf; cbn [tbl_num tbl_den]; [lia|].
  destruct freqs as [|f fr]; [lia|].
  destruct (IH fr (fun q Hq => Hnn q (or_intror Hq)) (fun g Hg => Hf g (or_intror Hg))) as (H1 & H2).
  pose proof (Hnn p (or_introl eq_refl)). pose proof (Hf f (or_introl eq_refl)).
  destruct (p =? 0) eqn:E; [lia|].
  assert (0 < M ^ f) by (apply Z.pow_pos_nonneg; lia). assert (0 < p ^ f) by (apply Z.pow_pos_nonneg; lia). nia.
Qed.

(** prod_i (M / p_{s_i})  <=  tbl_num / tbl_den  when symbol s occurs at most f_s times (equality for a histogram) *)
Lemma seq_vs_table M probs : 1 <= M -> all_nonneg probs -> (forall p, In p probs -> p <= M) ->
  forall syms freqs, (forall s, In s syms -> sym_used probs s) -> hist_le syms freqs ->
  M ^ zlen syms * tbl_den probs freqs <= tbl_num M probs freqs * seq_den probs syms.
Proof.
  intros HM Hnn HpM. induction syms as [|s r IH]; intros freqs Hall Hh.
  - cbn [seq_den]. change (zlen (@nil Z)) with 0. rewrite Z.pow_0_r, Z.mul_1_l, Z.mul_1_r.
    assert (Hf : forall f, In f freqs -> 0 <= f).
    { intros f Hin. apply In_nth with (d := 0) in Hin as (n & Hn & <-).
      pose proof (Hh (Z.of_nat n) ltac:(lia)) as H. rewrite Nat2Z.id in H. cbn [zcount] in H. exact H. }
    clear Hh Hall. revert freqs Hf. induction probs as [|p pr IHp]; intros freqs Hf; cbn [tbl_num tbl_den]; [lia|].
    destruct freqs as [|f fr]; [lia|].
    pose proof (Hnn p (or_introl eq_refl)). pose proof (HpM p (or_introl eq_refl)). pose proof (Hf f (or_introl eq_refl)).
    specialize (IHp (fun q Hq => Hnn q (or_intror Hq)) (fun q Hq => HpM q (or_intror Hq)) fr (fun g Hg => Hf g (or_intror Hg))).
    destruct (tbl_pos M HM pr fr (fun q Hq => Hnn q (or_intror Hq)) (fun g Hg => Hf g (or_intror Hg))) as (? & ?).
    destruct (p =? 0) eqn:E; [lia|].
    assert (p ^ f <= M ^ f) by (apply Z.pow_le_mono_l; lia). assert (0 < p ^ f) by (apply Z.pow_pos_nonneg; lia). nia.
  - destruct (pr_of_used probs s (Hall s (or_introl eq_refl))) as (Hp1 & Hn).
    destruct (Hall s (or_introl eq_refl)) as (Hs0 & _).
    pose proof (Hh s Hs0) as Hc. cbn [zcount] in Hc. rewrite Z.eqb_refl in Hc. pose proof (zcount_nonneg s r) as Hc0.
    set (n := Z.to_nat s) in *.
    assert (Hlt : (n < length freqs)%nat).
    { destruct (Nat.lt_ge_cases n (length freqs)); [assumption|]. rewrite nth_overflow in Hc by lia. lia. }
    assert (Hfn : nth_error freqs n = Some (nth n freqs 0)) by (apply nth_error_nth'; exact Hlt).
    destruct (tbl_dec_at M probs freqs n _ _ Hn ltac:(lia) Hfn ltac:(lia)) as (E1 & E2).
    assert (Hh' : hist_le r (dec_at n freqs)).
    { intros s' Hs'. rewrite dec_at_nth. specialize (Hh s' Hs'). cbn [zcount] in Hh.
      destruct (Nat.eqb (Z.to_nat s') n) eqn:En.
      - apply Nat.eqb_eq in En. assert (s' = s) by (unfold n in En; lia). subst s'.
        rewrite Z.eqb_refl in Hh. apply Nat.ltb_lt in Hlt. rewrite Hlt. cbn [andb]. fold n. lia.
      - apply Nat.eqb_neq in En. cbn [andb]. destruct (s =? s') eqn:Es; [assert (s = s') by lia; subst; unfold n in En; lia|]. lia. }
    specialize (IH (dec_at n freqs) (fun s' H => Hall s' (or_intror H)) Hh').
    rewrite E1, E2. cbn [seq_den]. unfold zlen in *. cbn [length]. rewrite Nat2Z.inj_succ, Z.pow_succ_r by lia.
    set (p := pr_of probs s) in *.
    replace (M * M ^ Z.of_nat (length r) * (p * tbl_den probs (dec_at n freqs)))
      with ((M * p) * (M ^ Z.of_nat (length r) * tbl_den probs (dec_at n freqs))) by ring.
    replace (M * tbl_num M probs (dec_at n freqs) * (p * seq_den probs r))
      with ((M * p) * (tbl_num M probs (dec_at n freqs) * seq_den probs r)) by ring.
    apply Z.mul_le_mono_nonneg_l; [nia|exact IH].
Qed.

(** * The write area *)
Lemma rans_tail_len P x : zlen (rans_tail P x) <= 4.
Proof. unfold rans_tail. repeat match goal with |- context [if ?c then _ else _] => destruct c end; cbn; lia. Qed.

Lemma ebits_close_ok P probs freqs E : 0 <= E -> all_nonneg probs -> (forall f, In f freqs -> 0 <= f) -> 0 <= P ->
  ebits_close P probs freqs E -> ebits_ok P probs freqs E.
Proof.
  intros HE Hnn Hf HP H. unfold ebits_close, ebits_ok in *.
  assert (HM : 1 <= 2 ^ P) by (pose proof (pow2_pos P HP); lia).
  destruct (tbl_pos (2 ^ P) HM probs freqs Hnn Hf) as (Hn & Hd).
  set (N := tbl_num (2 ^ P) probs freqs) in *. set (D := tbl_den probs freqs) in *.
  apply Z.le_trans with ((2 ^ (E + 12) * D) ^ 5); [apply Z.pow_le_mono_l; lia|].
  rewrite Z.pow_mul_l, <- Z.pow_mul_r by lia.
  apply Z.mul_le_mono_nonneg_r; [apply Z.pow_nonneg; lia|]. apply Z.pow_le_mono_r; lia.
Qed.

Section Area.
  Variable P : Z.
  Hypothesis HP : 0 <= P <= 20.
  Variable probs : list Z.
  Hypothesis Hnn : all_nonneg probs.
  Hypothesis Hsum : zsum probs = 2 ^ P.

  Lemma probs_le_M p : In p probs -> p <= 2 ^ P.
  Proof.
    intros Hin. rewrite <- Hsum. clear Hsum. induction probs as [|q r IH]; [destruct Hin|].
    cbn [zsum]. pose proof (zsum_nonneg r (fun x Hx => Hnn x (or_intror Hx))).
    destruct Hin as [->|Hin]; [lia|]. pose proof (Hnn q (or_introl eq_refl)).
    specialize (IH (fun x Hx => Hnn x (or_intror Hx)) Hin). lia.
  Qed.

  (** 4 k <= E + 12 for the k bytes pushed by rans_write *)
  Lemma renorm_bytes_vs_ebits syms freqs E x stk :
    (forall s, In s syms -> sym_used probs s) -> hist_le syms freqs -> ebits_ok P probs freqs E ->
    rans_encode_syms P (arr_of_list (with_cum probs 0)) syms (rans_write_init P) = Some (x, stk) ->
    rans_L P <= x < 256 * rans_L P /\ 4 * zlen stk <= E + 12.
  Proof.
    intros Hall Hh HE Henc. pose proof (M_range P HP) as HM.
    destruct (rans_renorm_bytes_bound P HP probs Hnn Hsum syms x stk Hall Henc) as (Hx & Hb).
    split; [exact Hx|].
    pose proof (seq_vs_table (2 ^ P) probs ltac:(lia) Hnn probs_le_M syms freqs Hall Hh) as Hsv.
    assert (Hf : forall f, In f freqs -> 0 <= f).
    { intros f Hin. apply In_nth with (d := 0) in Hin as (n & Hn & <-).
      pose proof (Hh (Z.of_nat n) ltac:(lia)) as H. rewrite Nat2Z.id in H. pose proof (zcount_nonneg (Z.of_nat n) syms). lia. }
    destruct (tbl_pos (2 ^ P) ltac:(lia) probs freqs Hnn Hf) as (Hn1 & Hd1).
    pose proof (seq_den_pos probs syms Hall) as HD1.
    unfold ebits_ok in HE.
    set (M := 2 ^ P) in *. set (N := tbl_num M probs freqs) in *. set (T := tbl_den probs freqs) in *.
    set (D := seq_den probs syms) in *. set (k := zlen stk) in *. set (n := zlen syms) in *.
    assert (Hk : 0 <= k) by apply zlen_nonneg. assert (Hn : 0 <= n) by apply zlen_nonneg.
    (* (M^n T)^5 <= (N D)^5 *)
    assert (H5 : (M ^ n * T) ^ 5 <= (N * D) ^ 5) by (apply Z.pow_le_mono_l; split; [apply Z.mul_nonneg_nonneg; [apply Z.pow_nonneg|]; lia|exact Hsv]).
    rewrite !Z.pow_mul_l, <- Z.pow_mul_r in H5 by lia. replace (n * 5) with (5 * n) in H5 by lia.
    assert (HT5 : 0 < T ^ 5) by (apply Z.pow_pos_nonneg; lia).
    assert (HD5 : 0 < D ^ 5) by (apply Z.pow_pos_nonneg; lia).
    (* 256^(4k) D^5 T^5 <= M^(5n) T^5 <= N^5 D^5 <= 2^(8E+96) T^5 D^5 *)
    assert (H6 : (D ^ 5 * T ^ 5) * 256 ^ (4 * k) <= (D ^ 5 * T ^ 5) * 2 ^ (8 * E + 96)).
    { apply Z.le_trans with (M ^ (5 * n) * T ^ 5).
      - replace (D ^ 5 * T ^ 5 * 256 ^ (4 * k)) with ((256 ^ (4 * k) * D ^ 5) * T ^ 5) by ring.
        apply Z.mul_le_mono_nonneg_r; lia.
      - apply Z.le_trans with (N ^ 5 * D ^ 5); [exact H5|].
        replace (D ^ 5 * T ^ 5 * 2 ^ (8 * E + 96)) with ((2 ^ (8 * E + 96) * T ^ 5) * D ^ 5) by ring.
        apply Z.mul_le_mono_nonneg_r; lia. }
    apply Z.mul_le_mono_pos_l in H6; [|nia].
    replace 256 with (2 ^ 8) in H6 by reflexivity. rewrite <- Z.pow_mul_r in H6 by lia.
    destruct (Z_lt_ge_dec (8 * E + 96) (8 * (4 * k))) as [Hlt|]; [|lia].
    exfalso. apply (Z.pow_lt_mono_r 2) in Hlt; lia.
  Qed.

  (** THEOREM (A).  Everything the encoder writes between StartEncoding and the end of EndEncoding lies inside
      the area StartEncoding reserved. *)
  Theorem write_area_sufficient syms freqs E st :
    (forall s, In s syms -> sym_used probs s) -> hist_le syms freqs ->
    ebits_ok P probs freqs E -> 0 <= E < 2 ^ 33 ->
    rans_encode_syms P (arr_of_list (with_cum probs 0)) syms (rans_write_init P) = Some st ->
    exists used, rans_area_used P st = Some used /\ used <= rans_reserved E /\
                 zlen (snd st) + 4 <= rans_reserved E.
  Proof.
    intros Hall Hh HEok HE Henc. destruct st as [x stk].
    destruct (renorm_bytes_vs_ebits syms freqs E x stk Hall Hh HEok Henc) as (Hx & Hk).
    unfold rans_area_used, rans_block. cbn [fst snd].
    set (blk := rev_append stk (rans_tail P x)).
    assert (Hblk : zlen blk <= zlen stk + 4).
    { unfold blk, zlen. rewrite rev_append_rev, app_length, rev_length. pose proof (rans_tail_len P x). unfold zlen in *. lia. }
    pose proof (zlen_nonneg stk) as Hk0. pose proof (zlen_nonneg blk) as Hb0.
    change (2 ^ 33) with 8589934592 in HE.
    destruct (enc_fuel_ok 5 11 (zlen blk) ltac:(lia) ltac:(lia)) as (lb & Hlb & Hlen & _).
    { change (2 ^ (7 * Z.of_nat 5)) with 34359738368. lia. }
    unfold enc_varint_u. rewrite Hlb. eexists; split; [reflexivity|].
    unfold rans_reserved. rewrite (Z.mod_small (2 * E + 32)) by (change (2 ^ 64) with 18446744073709551616; lia).
    rewrite Z.mod_small by (change (2 ^ 64) with 18446744073709551616; lia).
    unfold zlen at 2.
    assert (zlen stk + 1 <= (2 * E + 32 + 7) / 8) by (apply Z.div_le_lower_bound; lia).
    lia.
  Qed.
End Area.
