(** Proofs for Model/RansBound.v:
    (A) the area StartEncoding reserves is large enough for everything rans_write / write_end / EndEncoding
        write into it ([write_area_sufficient], [write_area_sufficient_hist]): the classical rANS length bound in
        multiplicative form (integer powers only, no real logarithm), with the explicit slack factor 5/4
        ([rans_renorm_bytes_bound]: 256^(4k) * (prod p_i)^5 <= (2^P)^(5n));
    (B) Create cannot return false on the tables EncodeRawSymbols / EncodeTaggedSymbols build
        ([create_succeeds], [create_succeeds_raw], [create_succeeds_tagged]); on the way: the merge sort of Create
        sorts and permutes ([sorted_desc_spec]), a repair pass keeps the probabilities ordered, the most frequent
        symbol keeps probability >= 2 while an error is left. *)
From Coq Require Import ZifyBool FMapPositive FMapFacts Sorted Permutation.
From Draco Require Import Base.Codec Base.Bits Model.Varint Proofs.Varint_proofs Model.RansSymbol Proofs.RansSymbol_proofs
  Model.RansFloat Model.SymbolCoding Proofs.SymbolCoding_proofs Model.RansBound.
Local Open Scope Z_scope.
Arguments Z.add : simpl never. Arguments Z.mul : simpl never. Arguments Z.pow : simpl never.
Arguments Z.div : simpl never. Arguments Z.modulo : simpl never. Arguments Z.sub : simpl never.


(** * One renormalisation: the bytes pushed and what is left of the state *)
Lemma enc_renorm_pot : forall f lim x stk x' stk', 0 <= x ->
  enc_renorm f lim x stk = Some (x', stk') ->
  exists j, length stk' = (length stk + j)%nat /\ x' * 256 ^ Z.of_nat j <= x /\ 0 <= x'.
Proof.
  induction f as [|f IH]; intros lim x stk x' stk' Hx H; [discriminate|].
  cbn [enc_renorm] in H. destruct (x >=? lim) eqn:E.
  - apply IH in H; [|apply Z.div_pos; lia]. destruct H as (j & Hl & Hp & H0).
    exists (S j). cbn [length] in Hl. split; [lia|]. split; [|exact H0].
    rewrite Nat2Z.inj_succ, Z.pow_succ_r by lia.
    pose proof (Z.div_mod x 256 ltac:(lia)). pose proof (Z.mod_pos_bound x 256 ltac:(lia)). nia.
  - injection H as <- <-. exists 0%nat. split; [lia|]. change (256 ^ Z.of_nat 0) with 1. lia.
Qed.

Section Step.
  Variable P : Z.
  Hypothesis HP : 0 <= P <= 20.
  Let M := 2 ^ P.
  Let L := rans_L P.

  (** rans_write on a state in [L, 256 L): j bytes are pushed and  4 p x2 256^j <= (5 M - p) x. *)
  Lemma rans_write_pot p c x stk x2 stk2 : sym_ok P p c -> L <= x < 256 * L ->
    rans_write P (p, c) (x, stk) = Some (x2, stk2) ->
    L <= x2 < 256 * L /\
    exists j, length stk2 = (length stk + j)%nat /\ 4 * p * x2 * 256 ^ Z.of_nat j <= (5 * M - p) * x.
  Proof.
    pose proof (M_range P HP) as HM. fold M in HM. assert (HL : L = 4 * M) by reflexivity.
    intros (Hp & Hc & Hcp) Hx Hw. fold M in Hcp.
    destruct (rans_write_spec P HP p c x stk (conj Hp (conj Hc Hcp)) Hx) as (xa & x2a & stka & Hwa & Hr2 & _).
    rewrite Hw in Hwa. injection Hwa as <- <-. split; [exact Hr2|].
    unfold rans_write in Hw.
    assert (Hlim : (4 * 256 * p) mod 2 ^ 32 = 256 * (4 * p)).
    { rewrite Z.mod_small; [lia|]. change (2^32) with 4294967296. lia. }
    rewrite Hlim in Hw.
    destruct (enc_renorm 5 (256 * (4 * p)) x stk) as [[x' stk']|] eqn:Er; [|discriminate].
    injection Hw as Hx2 <-.
    pose proof Er as Er2. apply (enc_renorm_low P) in Er2; try lia. destruct Er2 as [Hx'|]; [|lia].
    apply enc_renorm_pot in Er; [|lia]. destruct Er as (j & Hl & Hpot & _).
    exists j. split; [exact Hl|].
    pose proof (Z.div_mod x' p ltac:(lia)) as Hdm. pose proof (Z.mod_pos_bound x' p ltac:(lia)) as Hmb.
    assert (Hq : 4 <= x' / p < 1024).
    { split; [apply Z.div_le_lower_bound; lia|apply Z.div_lt_upper_bound; lia]. }
    fold M in Hx2.
    set (q := x' / p) in *. set (r := x' mod p) in *.
    rewrite Z.mod_small in Hx2 by (change (2^32) with 4294967296; nia).
    assert (H1 : 4 * p * x2 <= (5 * M - p) * x').
    { subst x2. rewrite Hdm.
      assert (0 <= p * (M - p) * (q - 4)) by (apply Z.mul_nonneg_nonneg; nia).
      assert (0 <= r * (M - p)) by nia. nia. }
    set (w := 256 ^ Z.of_nat j) in *. assert (0 < w) by (apply Z.pow_pos_nonneg; lia).
    assert (0 <= 5 * M - p) by lia. nia.
  Qed.
End Step.

(** * Products along the encoded sequence *)
Definition pr_of (probs : list Z) (s : Z) : Z := nth (Z.to_nat s) probs 0.
Fixpoint seq_den (probs syms : list Z) : Z :=
  match syms with [] => 1 | s :: r => pr_of probs s * seq_den probs r end.
Fixpoint seq_a (probs syms : list Z) : Z :=
  match syms with [] => 1 | s :: r => (4 * pr_of probs s) * seq_a probs r end.
Fixpoint seq_b (M : Z) (probs syms : list Z) : Z :=
  match syms with [] => 1 | s :: r => (5 * M - pr_of probs s) * seq_b M probs r end.

Lemma pr_of_used probs s : sym_used probs s -> 1 <= pr_of probs s /\ nth_error probs (Z.to_nat s) = Some (pr_of probs s).
Proof.
  intros (Hs & p & Hn & Hp). unfold pr_of. rewrite (nth_error_nth _ _ _ Hn). split; [exact Hp|exact Hn].
Qed.

Lemma seq_den_pos probs syms : (forall s, In s syms -> sym_used probs s) -> 1 <= seq_den probs syms.
Proof.
  induction syms as [|s r IH]; intros H; cbn [seq_den]; [lia|].
  pose proof (proj1 (pr_of_used probs s (H s (or_introl eq_refl)))). specialize (IH (fun s' Hs => H s' (or_intror Hs))). nia.
Qed.
Lemma seq_a_pos probs syms : (forall s, In s syms -> sym_used probs s) -> 1 <= seq_a probs syms.
Proof.
  induction syms as [|s r IH]; intros H; cbn [seq_a]; [lia|].
  pose proof (proj1 (pr_of_used probs s (H s (or_introl eq_refl)))). specialize (IH (fun s' Hs => H s' (or_intror Hs))). nia.
Qed.

(** the polynomial fact behind the factor 5/4:  ((5M - p) / (4p))^4 <= (M / p)^5  for 0 < p <= M *)
Lemma five_quarters M p : 1 <= p <= M -> (5 * M - p) ^ 4 * p ^ 5 <= (4 * p) ^ 4 * M ^ 5.
Proof.
  intros Hp. set (t := M - p). assert (Ht : 0 <= t) by (unfold t; lia). assert (HM : 1 <= M) by lia.
  assert (H1 : 0 <= p ^ 4) by (apply Z.pow_nonneg; lia).
  assert (H2 : 0 <= t ^ 2) by (apply Z.pow_nonneg; exact Ht).
  assert (H3 : 0 <= M ^ 3) by (apply Z.pow_nonneg; lia).
  assert (H4 : 0 <= M ^ 2) by (apply Z.pow_nonneg; lia).
  assert (H5 : 0 <= t ^ 3) by (apply Z.pow_nonneg; exact Ht).
  assert (H6 : 0 <= 160 * M ^ 3 + 80 * M ^ 2 * t + 15 * M * t ^ 2 + t ^ 3).
  { assert (0 <= M ^ 2 * t) by (apply Z.mul_nonneg_nonneg; assumption).
    assert (0 <= M * t ^ 2) by (apply Z.mul_nonneg_nonneg; lia). lia. }
  assert (H7 : 0 <= p ^ 4 * (t ^ 2 * (160 * M ^ 3 + 80 * M ^ 2 * t + 15 * M * t ^ 2 + t ^ 3))).
  { apply Z.mul_nonneg_nonneg; [assumption|]. apply Z.mul_nonneg_nonneg; assumption. }
  assert (E : (4 * p) ^ 4 * M ^ 5 - (5 * M - p) ^ 4 * p ^ 5 =
              p ^ 4 * (t ^ 2 * (160 * M ^ 3 + 80 * M ^ 2 * t + 15 * M * t ^ 2 + t ^ 3))).
  { unfold t. ring. }
  revert E H7. generalize ((4 * p) ^ 4 * M ^ 5) ((5 * M - p) ^ 4 * p ^ 5)
    (p ^ 4 * (t ^ 2 * (160 * M ^ 3 + 80 * M ^ 2 * t + 15 * M * t ^ 2 + t ^ 3))). clear. intros; lia.
Qed.

Lemma seq_five_quarters M probs syms : (forall s, In s syms -> sym_used probs s /\ pr_of probs s <= M) ->
  seq_b M probs syms ^ 4 * seq_den probs syms ^ 5 <= seq_a probs syms ^ 4 * M ^ (5 * Z.of_nat (length syms))
  /\ 0 <= seq_b M probs syms.
Proof.
  induction syms as [|s r IH]; intros H.
  - cbn [seq_b seq_den seq_a length]. change (5 * Z.of_nat 0) with 0. rewrite Z.pow_0_r. cbn. lia.
  - destruct (H s (or_introl eq_refl)) as (Hu & HpM). pose proof (proj1 (pr_of_used probs s Hu)) as Hp1.
    destruct (IH (fun s' Hs => H s' (or_intror Hs))) as (IH1 & IH2).
    cbn [seq_b seq_den seq_a length]. set (p := pr_of probs s) in *.
    split; [|apply Z.mul_nonneg_nonneg; lia].
    replace (5 * Z.of_nat (S (length r))) with (5 + 5 * Z.of_nat (length r)) by lia.
    rewrite Z.pow_add_r by lia. rewrite !Z.pow_mul_l.
    assert (HpM' : 1 <= p <= M) by lia.
    assert (Hn1 : 0 <= (5 * M - p) ^ 4 * p ^ 5).
    { apply Z.mul_nonneg_nonneg; apply Z.pow_nonneg; clear - HpM'; lia. }
    assert (Hn2 : 0 <= seq_b M probs r ^ 4 * seq_den probs r ^ 5).
    { pose proof (seq_den_pos probs r (fun s' Hs => proj1 (H s' (or_intror Hs)))) as HD.
      apply Z.mul_nonneg_nonneg; apply Z.pow_nonneg; clear - HD IH2; lia. }
    pose proof (five_quarters M p HpM') as H5.
    set (B := seq_b M probs r) in *. set (D := seq_den probs r) in *. set (A := seq_a probs r) in *.
    set (Mn := M ^ (5 * Z.of_nat (length r))) in *.
    replace ((5 * M - p) ^ 4 * B ^ 4 * (p ^ 5 * D ^ 5)) with (((5 * M - p) ^ 4 * p ^ 5) * (B ^ 4 * D ^ 5)) by ring.
    replace ((4 ^ 4 * p ^ 4) * A ^ 4 * (M ^ 5 * Mn)) with (((4 * p) ^ 4 * M ^ 5) * (A ^ 4 * Mn)) by (rewrite Z.pow_mul_l; ring).
    apply Z.mul_le_mono_nonneg; [exact Hn1|exact H5|exact Hn2|exact IH1].
Qed.

Section Seq.
  Variable P : Z.
  Hypothesis HP : 0 <= P <= 20.
  Let M := 2 ^ P.
  Let L := rans_L P.
  Variable probs : list Z.
  Hypothesis Hnn : all_nonneg probs.
  Hypothesis Hsum : zsum probs = 2 ^ P.
  Let tbl := arr_of_list (with_cum probs 0).

  Lemma used_sym_ok s : sym_used probs s ->
    arr_get tbl s = Some (pr_of probs s, cumz probs s) /\ sym_ok P (pr_of probs s) (cumz probs s) /\ pr_of probs s <= M.
  Proof.
    intros Hu. destruct (pr_of_used probs s Hu) as (Hp1 & Hn). destruct Hu as (Hs & _).
    unfold tbl. rewrite tbl_get, Hn by lia. split; [reflexivity|].
    assert (Hsl : s < zlen probs).
    { assert (nth_error probs (Z.to_nat s) <> None) by congruence. apply nth_error_Some in H. unfold zlen. lia. }
    pose proof (cumz_succ probs s _ Hs Hn) as Hsucc.
    pose proof (cumz_mono probs 0 s Hnn ltac:(lia)) as H0. rewrite cumz_0 in H0.
    assert (H1 : cumz probs (s + 1) <= cumz probs (zlen probs)) by (apply cumz_mono; [assumption|lia]).
    rewrite (cumz_all probs (zlen probs)) in H1 by lia.
    unfold sym_ok. fold M. lia.
  Qed.

  (** The invariant of the whole symbol loop: k bytes pushed, and  x * 256^k * prod(4 p_i) <= x0 * prod(5M - p_i). *)
  Lemma encode_syms_pot : forall syms x0 stk0 x stk,
    (forall s, In s syms -> sym_used probs s) -> L <= x0 < 256 * L ->
    rans_encode_syms P tbl syms (x0, stk0) = Some (x, stk) ->
    L <= x < 256 * L /\
    exists k, length stk = (length stk0 + k)%nat /\
              x * 256 ^ Z.of_nat k * seq_a probs syms <= x0 * seq_b M probs syms.
  Proof.
    induction syms as [|s r IH]; intros x0 stk0 x stk Hall Hx0 Henc.
    - cbn in Henc. injection Henc as <- <-. split; [exact Hx0|]. exists 0%nat. cbn [seq_a seq_b].
      change (256 ^ Z.of_nat 0) with 1. split; lia.
    - cbn [rans_encode_syms] in Henc.
      destruct (rans_encode_syms P tbl r (x0, stk0)) as [[xr stkr]|] eqn:Er; [|discriminate].
      destruct (IH x0 stk0 xr stkr (fun s' H => Hall s' (or_intror H)) Hx0 Er) as (Hrr & k & Hk & Hpot).
      destruct (used_sym_ok s (Hall s (or_introl eq_refl))) as (Hg & Hok & HpM). rewrite Hg in Henc.
      destruct (rans_write_pot P HP _ _ xr stkr x stk Hok Hrr Henc) as (Hr2 & j & Hj & Hstep).
      split; [exact Hr2|]. exists (k + j)%nat. split; [lia|].
      cbn [seq_a seq_b]. fold M in Hstep. set (p := pr_of probs s) in *.
      rewrite Nat2Z.inj_add, Z.pow_add_r by lia.
      set (wk := 256 ^ Z.of_nat k) in *. set (wj := 256 ^ Z.of_nat j) in *.
      set (A := seq_a probs r) in *. set (B := seq_b M probs r) in *.
      assert (0 < wk) by (apply Z.pow_pos_nonneg; lia).
      assert (1 <= A) by (apply seq_a_pos; intros; apply Hall; right; assumption).
      assert (0 <= 5 * M - p) by lia.
      (* x wk wj (4p) A = (4 p x wj) (wk A) <= (5M-p) xr wk A <= (5M-p) x0 B *)
      apply Z.le_trans with ((5 * M - p) * xr * (wk * A)).
      + replace (x * (wk * wj) * (4 * p * A)) with ((4 * p * x * wj) * (wk * A)) by ring.
        apply Z.mul_le_mono_nonneg_r; [nia|exact Hstep].
      + replace ((5 * M - p) * xr * (wk * A)) with ((5 * M - p) * (xr * wk * A)) by ring.
        replace (x0 * ((5 * M - p) * B)) with ((5 * M - p) * (x0 * B)) by ring.
        apply Z.mul_le_mono_nonneg_l; assumption.
  Qed.

  (** The classical rANS length bound in multiplicative form, with the slack factor 5/4 on the exponent:
        256^(4k) * (prod p_i)^5  <=  (2^P)^(5n),   i.e.   8 k <= 1.25 * sum_i log2(2^P / p_i). *)
  Theorem rans_renorm_bytes_bound syms x stk :
    (forall s, In s syms -> sym_used probs s) ->
    rans_encode_syms P tbl syms (rans_write_init P) = Some (x, stk) ->
    L <= x < 256 * L /\
    256 ^ (4 * zlen stk) * seq_den probs syms ^ 5 <= M ^ (5 * zlen syms).
  Proof.
    intros Hall Henc. pose proof (M_range P HP) as HM. fold M in HM.
    unfold rans_write_init in Henc. fold L in Henc.
    destruct (encode_syms_pot syms L [] x stk Hall ltac:(unfold L, rans_L; fold M; lia) Henc) as (Hx & k & Hk & Hpot).
    split; [exact Hx|]. cbn [length] in Hk. unfold zlen. rewrite Hk. cbn [Nat.add].
    destruct (seq_five_quarters M probs syms) as (H54 & HB0).
    { intros s Hs. split; [apply Hall; exact Hs|]. apply used_sym_ok, Hall, Hs. }
    set (A := seq_a probs syms) in *. set (B := seq_b M probs syms) in *. set (D := seq_den probs syms) in *.
    set (w := 256 ^ Z.of_nat k) in *.
    assert (HA : 1 <= A) by (apply seq_a_pos; exact Hall).
    assert (HD : 1 <= D) by (apply seq_den_pos; exact Hall).
    assert (Hw : 0 < w) by (apply Z.pow_pos_nonneg; lia).
    assert (HL0 : 0 < L) by (unfold L, rans_L; fold M; lia).
    (* w A <= B *)
    assert (H1 : w * A <= B).
    { assert (L * (w * A) <= L * B) by nia. apply Z.mul_le_mono_pos_l in H; assumption. }
    assert (H2 : (w * A) ^ 4 <= B ^ 4) by (apply Z.pow_le_mono_l; nia).
    rewrite Z.pow_mul_l in H2.
    assert (Hw4 : 256 ^ (4 * Z.of_nat k) = w ^ 4).
    { unfold w. rewrite <- Z.pow_mul_r by lia. f_equal. lia. }
    rewrite Hw4.
    assert (HD5 : 0 < D ^ 5) by (apply Z.pow_pos_nonneg; lia).
    assert (HA4 : 0 < A ^ 4) by (apply Z.pow_pos_nonneg; lia).
    set (Mn := M ^ (5 * Z.of_nat (length syms))) in *.
    assert (H3 : A ^ 4 * (w ^ 4 * D ^ 5) <= A ^ 4 * Mn).
    { apply Z.le_trans with (B ^ 4 * D ^ 5); [|exact H54].
      replace (A ^ 4 * (w ^ 4 * D ^ 5)) with ((w ^ 4 * A ^ 4) * D ^ 5) by ring.
      apply Z.mul_le_mono_nonneg_r; lia. }
    apply Z.mul_le_mono_pos_l in H3; assumption.
  Qed.
End Seq.

(** * The sequence against the frequency table *)
Fixpoint dec_at (n : nat) (l : list Z) : list Z :=
  match l, n with
  | [], _ => []
  | f :: r, O => (f - 1) :: r
  | f :: r, S n' => f :: dec_at n' r
  end.
Lemma dec_at_nth : forall l n k, nth k (dec_at n l) 0 = nth k l 0 - (if Nat.eqb k n && Nat.ltb n (length l) then 1 else 0).
Proof.
  induction l as [|f r IH]; intros n k.
  - assert (dec_at n [] = []) as -> by (destruct n; reflexivity). cbn [length].
    replace (n <? 0)%nat with false by (symmetry; apply Nat.ltb_ge; lia). rewrite andb_false_r. destruct k; cbn; lia.
  - destruct n as [|n], k as [|k]; cbn [dec_at nth length Nat.eqb andb]; try lia.
    + change (0 <? S (length r))%nat with true. cbv iota. lia.
    + rewrite IH. change (S n <? S (length r))%nat with (n <? length r)%nat. reflexivity.
Qed.

Lemma tbl_dec_at M : forall probs freqs n p f, nth_error probs n = Some p -> p <> 0 -> nth_error freqs n = Some f -> 1 <= f ->
  tbl_num M probs freqs = M * tbl_num M probs (dec_at n freqs) /\
  tbl_den probs freqs = p * tbl_den probs (dec_at n freqs).
Proof.
  induction probs as [|p0 pr IH]; intros freqs n p f Hp Hp0 Hf Hf1; [destruct n; discriminate|].
  destruct freqs as [|f0 fr]; [destruct n; discriminate|].
  destruct n as [|n]; cbn [nth_error] in Hp, Hf; cbn [dec_at tbl_num tbl_den].
  - injection Hp as ->. injection Hf as ->. destruct (p =? 0) eqn:E; [lia|].
    replace f with (1 + (f - 1)) at 1 3 by lia. rewrite !Z.pow_add_r, !Z.pow_1_r by lia. split; ring.
  - destruct (IH fr n p f Hp Hp0 Hf Hf1) as (H1 & H2). rewrite H1, H2. split; ring.
Qed.

Lemma zcount_nonneg s l : 0 <= zcount s l.
Proof. induction l as [|x r IH]; cbn [zcount]; [lia|]. destruct (x =? s); lia. Qed.

Lemma tbl_pos M : 1 <= M -> forall probs freqs, all_nonneg probs -> (forall f, In f freqs -> 0 <= f) ->
  1 <= tbl_num M probs freqs /\ 1 <= tbl_den probs freqs.
Proof.
  intros HM. induction probs as [|p pr IH]; intros freqs Hnn Hf; cbn [tbl_num tbl_den]; [lia|].
  destruct freqs as [|f fr]; [lia|].
  destruct (IH fr (fun q Hq => Hnn q (or_intror Hq)) (fun g Hg => Hf g (or_intror Hg))) as (H1 & H2).
  pose proof (Hnn p (or_introl eq_refl)). pose proof (Hf f (or_introl eq_refl)).
  destruct (p =? 0) eqn:E; [lia|].
  assert (0 < M ^ f) by (apply Z.pow_pos_nonneg; lia). assert (0 < p ^ f) by (apply Z.pow_pos_nonneg; lia). nia.
Qed.

(** prod_i (M / p_{s_i})  <=  tbl_num / tbl_den  when symbol s occurs at most f_s times (equality for a histogram) *)
Lemma seq_vs_table M probs : 1 <= M -> all_nonneg probs -> (forall p, In p probs -> p <= M) ->
  forall syms freqs, (forall s, In s syms -> sym_used probs s) -> hist_le syms freqs ->
  M ^ zlen syms * tbl_den probs freqs <= tbl_num M probs freqs * seq_den probs syms.
Proof.
  intros HM Hnn HpM. induction syms as [|s r IH]; intros freqs Hall Hh.
  - cbn [seq_den]. change (zlen (@nil Z)) with 0. rewrite Z.pow_0_r, Z.mul_1_l, Z.mul_1_r.
    assert (Hf : forall f, In f freqs -> 0 <= f).
    { intros f Hin. apply In_nth with (d := 0) in Hin as (n & Hn & <-).
      pose proof (Hh (Z.of_nat n) ltac:(lia)) as H. rewrite Nat2Z.id in H. cbn [zcount] in H. exact H. }
    clear Hh Hall. revert freqs Hf. induction probs as [|p pr IHp]; intros freqs Hf; cbn [tbl_num tbl_den]; [lia|].
    destruct freqs as [|f fr]; [lia|].
    pose proof (Hnn p (or_introl eq_refl)). pose proof (HpM p (or_introl eq_refl)). pose proof (Hf f (or_introl eq_refl)).
    specialize (IHp (fun q Hq => Hnn q (or_intror Hq)) (fun q Hq => HpM q (or_intror Hq)) fr (fun g Hg => Hf g (or_intror Hg))).
    destruct (tbl_pos M HM pr fr (fun q Hq => Hnn q (or_intror Hq)) (fun g Hg => Hf g (or_intror Hg))) as (? & ?).
    destruct (p =? 0) eqn:E; [lia|].
    assert (p ^ f <= M ^ f) by (apply Z.pow_le_mono_l; lia). assert (0 < p ^ f) by (apply Z.pow_pos_nonneg; lia). nia.
  - destruct (pr_of_used probs s (Hall s (or_introl eq_refl))) as (Hp1 & Hn).
    destruct (Hall s (or_introl eq_refl)) as (Hs0 & _).
    pose proof (Hh s Hs0) as Hc. cbn [zcount] in Hc. rewrite Z.eqb_refl in Hc. pose proof (zcount_nonneg s r) as Hc0.
    set (n := Z.to_nat s) in *.
    assert (Hlt : (n < length freqs)%nat).
    { destruct (Nat.lt_ge_cases n (length freqs)); [assumption|]. rewrite nth_overflow in Hc by lia. lia. }
    assert (Hfn : nth_error freqs n = Some (nth n freqs 0)) by (apply nth_error_nth'; exact Hlt).
    destruct (tbl_dec_at M probs freqs n _ _ Hn ltac:(lia) Hfn ltac:(lia)) as (E1 & E2).
    assert (Hh' : hist_le r (dec_at n freqs)).
    { intros s' Hs'. rewrite dec_at_nth. specialize (Hh s' Hs'). cbn [zcount] in Hh.
      destruct (Nat.eqb (Z.to_nat s') n) eqn:En.
      - apply Nat.eqb_eq in En. assert (s' = s) by (unfold n in En; lia). subst s'.
        rewrite Z.eqb_refl in Hh. apply Nat.ltb_lt in Hlt. rewrite Hlt. cbn [andb]. fold n. lia.
      - apply Nat.eqb_neq in En. cbn [andb]. destruct (s =? s') eqn:Es; [assert (s = s') by lia; subst; unfold n in En; lia|]. lia. }
    specialize (IH (dec_at n freqs) (fun s' H => Hall s' (or_intror H)) Hh').
    rewrite E1, E2. cbn [seq_den]. unfold zlen in *. cbn [length]. rewrite Nat2Z.inj_succ, Z.pow_succ_r by lia.
    set (p := pr_of probs s) in *.
    replace (M * M ^ Z.of_nat (length r) * (p * tbl_den probs (dec_at n freqs)))
      with ((M * p) * (M ^ Z.of_nat (length r) * tbl_den probs (dec_at n freqs))) by ring.
    replace (M * tbl_num M probs (dec_at n freqs) * (p * seq_den probs r))
      with ((M * p) * (tbl_num M probs (dec_at n freqs) * seq_den probs r)) by ring.
    apply Z.mul_le_mono_nonneg_l; [nia|exact IH].
Qed.

(** * The write area *)
Lemma rans_tail_len P x : zlen (rans_tail P x) <= 4.
Proof. unfold rans_tail. repeat match goal with |- context [if ?c then _ else _] => destruct c end; cbn; lia. Qed.

Lemma ebits_close_ok P probs freqs E : 0 <= E -> all_nonneg probs -> (forall f, In f freqs -> 0 <= f) -> 0 <= P ->
  ebits_close P probs freqs E -> ebits_ok P probs freqs E.
Proof.
  intros HE Hnn Hf HP H. unfold ebits_close, ebits_ok in *.
  assert (HM : 1 <= 2 ^ P) by (pose proof (pow2_pos P HP); lia).
  destruct (tbl_pos (2 ^ P) HM probs freqs Hnn Hf) as (Hn & Hd).
  set (N := tbl_num (2 ^ P) probs freqs) in *. set (D := tbl_den probs freqs) in *.
  apply Z.le_trans with ((2 ^ (E + 12) * D) ^ 5); [apply Z.pow_le_mono_l; lia|].
  rewrite Z.pow_mul_l, <- Z.pow_mul_r by lia.
  apply Z.mul_le_mono_nonneg_r; [apply Z.pow_nonneg; lia|]. apply Z.pow_le_mono_r; lia.
Qed.

Section Area.
  Variable P : Z.
  Hypothesis HP : 0 <= P <= 20.
  Variable probs : list Z.
  Hypothesis Hnn : all_nonneg probs.
  Hypothesis Hsum : zsum probs = 2 ^ P.

  Lemma probs_le_M p : In p probs -> p <= 2 ^ P.
  Proof.
    intros Hin. rewrite <- Hsum. clear Hsum. induction probs as [|q r IH]; [destruct Hin|].
    cbn [zsum]. pose proof (zsum_nonneg r (fun x Hx => Hnn x (or_intror Hx))).
    destruct Hin as [->|Hin]; [lia|]. pose proof (Hnn q (or_introl eq_refl)).
    specialize (IH (fun x Hx => Hnn x (or_intror Hx)) Hin). lia.
  Qed.

  (** 4 k <= E + 12 for the k bytes pushed by rans_write *)
  Lemma renorm_bytes_vs_ebits syms freqs E x stk :
    (forall s, In s syms -> sym_used probs s) -> hist_le syms freqs -> ebits_ok P probs freqs E ->
    rans_encode_syms P (arr_of_list (with_cum probs 0)) syms (rans_write_init P) = Some (x, stk) ->
    rans_L P <= x < 256 * rans_L P /\ 4 * zlen stk <= E + 12.
  Proof.
    intros Hall Hh HE Henc. pose proof (M_range P HP) as HM.
    destruct (rans_renorm_bytes_bound P HP probs Hnn Hsum syms x stk Hall Henc) as (Hx & Hb).
    split; [exact Hx|].
    pose proof (seq_vs_table (2 ^ P) probs ltac:(lia) Hnn probs_le_M syms freqs Hall Hh) as Hsv.
    assert (Hf : forall f, In f freqs -> 0 <= f).
    { intros f Hin. apply In_nth with (d := 0) in Hin as (n & Hn & <-).
      pose proof (Hh (Z.of_nat n) ltac:(lia)) as H. rewrite Nat2Z.id in H. pose proof (zcount_nonneg (Z.of_nat n) syms). lia. }
    destruct (tbl_pos (2 ^ P) ltac:(lia) probs freqs Hnn Hf) as (Hn1 & Hd1).
    pose proof (seq_den_pos probs syms Hall) as HD1.
    unfold ebits_ok in HE.
    set (M := 2 ^ P) in *. set (N := tbl_num M probs freqs) in *. set (T := tbl_den probs freqs) in *.
    set (D := seq_den probs syms) in *. set (k := zlen stk) in *. set (n := zlen syms) in *.
    assert (Hk : 0 <= k) by apply zlen_nonneg. assert (Hn : 0 <= n) by apply zlen_nonneg.
    (* (M^n T)^5 <= (N D)^5 *)
    assert (H5 : (M ^ n * T) ^ 5 <= (N * D) ^ 5) by (apply Z.pow_le_mono_l; split; [apply Z.mul_nonneg_nonneg; [apply Z.pow_nonneg|]; lia|exact Hsv]).
    rewrite !Z.pow_mul_l, <- Z.pow_mul_r in H5 by lia. replace (n * 5) with (5 * n) in H5 by lia.
    assert (HT5 : 0 < T ^ 5) by (apply Z.pow_pos_nonneg; lia).
    assert (HD5 : 0 < D ^ 5) by (apply Z.pow_pos_nonneg; lia).
    (* 256^(4k) D^5 T^5 <= M^(5n) T^5 <= N^5 D^5 <= 2^(8E+96) T^5 D^5 *)
    assert (H6 : (D ^ 5 * T ^ 5) * 256 ^ (4 * k) <= (D ^ 5 * T ^ 5) * 2 ^ (8 * E + 96)).
    { apply Z.le_trans with (M ^ (5 * n) * T ^ 5).
      - replace (D ^ 5 * T ^ 5 * 256 ^ (4 * k)) with ((256 ^ (4 * k) * D ^ 5) * T ^ 5) by ring.
        apply Z.mul_le_mono_nonneg_r; lia.
      - apply Z.le_trans with (N ^ 5 * D ^ 5); [exact H5|].
        replace (D ^ 5 * T ^ 5 * 2 ^ (8 * E + 96)) with ((2 ^ (8 * E + 96) * T ^ 5) * D ^ 5) by ring.
        apply Z.mul_le_mono_nonneg_r; lia. }
    apply Z.mul_le_mono_pos_l in H6; [|nia].
    replace 256 with (2 ^ 8) in H6 by reflexivity. rewrite <- Z.pow_mul_r in H6 by lia.
    destruct (Z_lt_ge_dec (8 * E + 96) (8 * (4 * k))) as [Hlt|]; [|lia].
    exfalso. apply (Z.pow_lt_mono_r 2) in Hlt; lia.
  Qed.

  (** THEOREM (A).  Everything the encoder writes between StartEncoding and the end of EndEncoding lies inside
      the area StartEncoding reserved. *)
  Theorem write_area_sufficient syms freqs E st :
    (forall s, In s syms -> sym_used probs s) -> hist_le syms freqs ->
    ebits_ok P probs freqs E -> 0 <= E < 2 ^ 33 ->
    rans_encode_syms P (arr_of_list (with_cum probs 0)) syms (rans_write_init P) = Some st ->
    exists used, rans_area_used P st = Some used /\ used <= rans_reserved E /\
                 zlen (snd st) + 4 <= rans_reserved E.
  Proof.
    intros Hall Hh HEok HE Henc. destruct st as [x stk].
    destruct (renorm_bytes_vs_ebits syms freqs E x stk Hall Hh HEok Henc) as (Hx & Hk).
    unfold rans_area_used, rans_block. cbn [fst snd].
    set (blk := rev_append stk (rans_tail P x)).
    assert (Hblk : zlen blk <= zlen stk + 4).
    { unfold blk, zlen. rewrite rev_append_rev, app_length, rev_length. pose proof (rans_tail_len P x). unfold zlen in *. lia. }
    pose proof (zlen_nonneg stk) as Hk0. pose proof (zlen_nonneg blk) as Hb0.
    change (2 ^ 33) with 8589934592 in HE.
    destruct (enc_fuel_ok 5 11 (zlen blk) ltac:(lia) ltac:(lia)) as (lb & Hlb & Hlen & _).
    { change (2 ^ (7 * Z.of_nat 5)) with 34359738368. lia. }
    unfold enc_varint_u. rewrite Hlb. eexists; split; [reflexivity|].
    unfold rans_reserved. rewrite (Z.mod_small (2 * E + 32)) by (change (2 ^ 64) with 18446744073709551616; lia).
    rewrite Z.mod_small by (change (2 ^ 64) with 18446744073709551616; lia).
    unfold zlen at 2.
    assert (zlen stk + 1 <= (2 * E + 32 + 7) / 8) by (apply Z.div_le_lower_bound; lia).
    lia.
  Qed.
End Area.

(** * The merge sort of Create (sorted_desc) sorts and permutes *)
Definition pge (a b : Z * Z) : Prop := pair_ge a b = true.
Lemma pge_total a b : pair_ge a b = false -> pge b a.
Proof. unfold pge, pair_ge. destruct a, b; cbn [fst snd]. lia. Qed.
Lemma pge_trans a b c : pge a b -> pge b c -> pge a c.
Proof. unfold pge, pair_ge. destruct a, b, c; cbn [fst snd]. lia. Qed.
Lemma pge_fst a b : pge a b -> fst b <= fst a.
Proof. unfold pge, pair_ge. destruct a, b; cbn [fst snd]. lia. Qed.

Lemma merge_desc_perm : forall l1 l2, Permutation (merge_desc l1 l2) (l1 ++ l2).
Proof.
  induction l1 as [|a r1 IH]; intros l2.
  - destruct l2; reflexivity.
  - induction l2 as [|b r2 IH2]; [cbn; rewrite app_nil_r; reflexivity|].
    cbn [merge_desc]. destruct (pair_ge a b).
    + cbn [app]. constructor. apply IH.
    + cbn [merge_desc] in IH2. rewrite IH2. apply (Permutation_middle (a :: r1) r2 b).
Qed.

Lemma merge_desc_hd : forall l1 l2 x, HdRel pge x l1 -> HdRel pge x l2 -> HdRel pge x (merge_desc l1 l2).
Proof.
  intros l1 l2 x H1 H2. destruct l1 as [|a r1]; [destruct l2; exact H2|].
  destruct l2 as [|b r2]; [exact H1|]. cbn [merge_desc]. inversion H1; inversion H2; subst.
  destruct (pair_ge a b); constructor; assumption.
Qed.

Lemma merge_desc_sorted : forall l1 l2, Sorted pge l1 -> Sorted pge l2 -> Sorted pge (merge_desc l1 l2).
Proof.
  induction l1 as [|a r1 IH]; intros l2 H1 H2.
  - destruct l2; exact H2.
  - induction l2 as [|b r2 IH2]; [exact H1|].
    cbn [merge_desc]. inversion H1 as [|? ? Hs1 Hh1]; inversion H2 as [|? ? Hs2 Hh2]; subst.
    destruct (pair_ge a b) eqn:E.
    + constructor; [apply IH; assumption|]. apply merge_desc_hd; [exact Hh1|]. constructor. exact E.
    + constructor; [apply (IH2 Hs2)|].
      change ((fix inner (l2 : list (Z * Z)) : list (Z * Z) := match l2 with
              | [] => a :: r1 | b0 :: r3 => if pair_ge a b0 then a :: merge_desc r1 l2 else b0 :: inner r3 end) r2)
        with (merge_desc (a :: r1) r2).
      apply merge_desc_hd; [|exact Hh2]. constructor. apply pge_total. exact E.
Qed.

Fixpoint runs_flat (st : list (option (list (Z * Z)))) : list (Z * Z) :=
  match st with [] => [] | None :: s => runs_flat s | Some r :: s => r ++ runs_flat s end.
Definition runs_sorted (st : list (option (list (Z * Z)))) : Prop :=
  forall r, In (Some r) st -> Sorted pge r.

Lemma push_run_ok : forall st run, runs_sorted st -> Sorted pge run ->
  runs_sorted (push_run run st) /\ Permutation (runs_flat (push_run run st)) (run ++ runs_flat st).
Proof.
  induction st as [|[r|] s IH]; intros run Hst Hrun; cbn [push_run runs_flat].
  - split; [|rewrite app_nil_r; reflexivity]. intros r [H|[]]. injection H as <-. exact Hrun.
  - destruct (IH (merge_desc r run)) as (H1 & H2).
    { intros r' Hr'. apply Hst. right. exact Hr'. }
    { apply merge_desc_sorted; [apply Hst; left; reflexivity|exact Hrun]. }
    split.
    + intros r' [H|H]; [discriminate|]. apply H1. exact H.
    + rewrite H2, merge_desc_perm. rewrite <- app_assoc. rewrite app_assoc. rewrite (Permutation_app_comm r run).
      rewrite <- app_assoc. reflexivity.
  - split.
    + intros r' [H|H]; [injection H as <-; exact Hrun|]. apply Hst. right. exact H.
    + reflexivity.
Qed.

Lemma flush_runs_ok : forall st acc, runs_sorted st -> Sorted pge acc ->
  Sorted pge (flush_runs st acc) /\ Permutation (flush_runs st acc) (runs_flat st ++ acc).
Proof.
  induction st as [|[r|] s IH]; intros acc Hst Hacc; cbn [flush_runs runs_flat].
  - split; [exact Hacc|reflexivity].
  - destruct (IH (merge_desc r acc)) as (H1 & H2).
    { intros r' Hr'. apply Hst. right. exact Hr'. }
    { apply merge_desc_sorted; [apply Hst; left; reflexivity|exact Hacc]. }
    split; [exact H1|]. rewrite H2, merge_desc_perm. rewrite <- !app_assoc.
    rewrite app_assoc. rewrite (Permutation_app_comm (runs_flat s) r). rewrite <- app_assoc. reflexivity.
  - apply IH; [|exact Hacc]. intros r' Hr'. apply Hst. right. exact Hr'.
Qed.

Lemma sort_runs_ok : forall l st, runs_sorted st ->
  Sorted pge (sort_runs l st) /\ Permutation (sort_runs l st) (l ++ runs_flat st).
Proof.
  induction l as [|a r IH]; intros st Hst; cbn [sort_runs].
  - destruct (flush_runs_ok st [] Hst ltac:(constructor)) as (H1 & H2). split; [exact H1|].
    rewrite H2, app_nil_r. reflexivity.
  - destruct (push_run_ok st [a] Hst ltac:(repeat constructor)) as (H1 & H2).
    destruct (IH _ H1) as (H3 & H4). split; [exact H3|]. rewrite H4, H2. cbn [app].
    symmetry. apply Permutation_middle.
Qed.

Lemma index_from_spec : forall l i p j, In (p, j) (index_from i l) <-> (i <= j /\ nth_error l (Z.to_nat (j - i)) = Some p).
Proof.
  induction l as [|x r IH]; intros i p j; cbn [index_from In].
  - split; [intros []|]. intros (_ & H). destruct (Z.to_nat (j - i)); discriminate.
  - rewrite IH. split.
    + intros [H|(H1 & H2)].
      * injection H as -> ->. split; [lia|]. rewrite Z.sub_diag. reflexivity.
      * split; [lia|]. replace (Z.to_nat (j - i)) with (S (Z.to_nat (j - (i + 1)))) by lia. exact H2.
    + intros (H1 & H2). destruct (Z.eq_dec j i) as [->|Hne].
      * left. rewrite Z.sub_diag in H2. cbn in H2. congruence.
      * right. split; [lia|]. replace (Z.to_nat (j - i)) with (S (Z.to_nat (j - (i + 1)))) in H2 by lia. exact H2.
Qed.
Lemma index_from_snd : forall l i, map snd (index_from i l) = map (fun k => i + Z.of_nat k) (seq 0 (length l)).
Proof.
  induction l as [|x r IH]; intros i; cbn [index_from map length seq snd]; [reflexivity|].
  rewrite IH. f_equal; [lia|]. rewrite <- seq_shift, map_map. apply map_ext. intros; lia.
Qed.

(** What Create needs of the sorted ids: a duplicate-free enumeration of the indices 0..n-1 along which the
    probabilities do not increase. *)
Definition pval (probs : list Z) (i : Z) : Z := nth (Z.to_nat i) probs 0.
Lemma sorted_desc_spec probs :
  NoDup (sorted_desc probs) /\
  (forall i, In i (sorted_desc probs) <-> 0 <= i < zlen probs) /\
  StronglySorted (fun i j => pval probs j <= pval probs i) (sorted_desc probs).
Proof.
  unfold sorted_desc. destruct (sort_runs_ok (index_from 0 probs) [] ltac:(intros r [])) as (Hs & Hp).
  cbn [runs_flat] in Hp. rewrite app_nil_r in Hp.
  set (srt := sort_runs (index_from 0 probs) []) in *.
  assert (Hids : Permutation (map snd srt) (map (fun k => 0 + Z.of_nat k) (seq 0 (length probs)))).
  { rewrite <- index_from_snd. apply Permutation_map. exact Hp. }
  split; [|split].
  - eapply Permutation_NoDup; [symmetry; exact Hids|]. apply FinFun.Injective_map_NoDup; [intros a b; lia|apply seq_NoDup].
  - intros i. split.
    + intros Hin. eapply Permutation_in in Hin; [|exact Hids]. apply in_map_iff in Hin as (k & <- & Hk). apply in_seq in Hk. unfold zlen; lia.
    + intros Hi. eapply Permutation_in; [symmetry; exact Hids|]. apply in_map_iff. exists (Z.to_nat i). split; [lia|]. apply in_seq. unfold zlen in Hi. lia.
  - apply Sorted_StronglySorted in Hs; [|intros a b c; apply pge_trans].
    assert (Hall : forall q, In q srt -> fst q = pval probs (snd q)).
    { intros [p j] Hin. eapply Permutation_in in Hin; [|exact Hp]. apply index_from_spec in Hin as (Hj & Hn).
      cbn [fst snd]. unfold pval. rewrite Z.sub_0_r in Hn. rewrite (nth_error_nth _ _ _ Hn). reflexivity. }
    clear Hp Hids. induction Hs as [|q l Hs IH Hf]; cbn [map]; constructor.
    + apply IH. intros q' Hq'. apply Hall. right. exact Hq'.
    + rewrite Forall_forall in *. intros j Hj. apply in_map_iff in Hj as (q' & <- & Hq').
      rewrite <- (Hall q (or_introl eq_refl)), <- (Hall q' (or_intror Hq')). apply pge_fst. apply Hf. exact Hq'.
Qed.

(** * Sums over index ranges, arrays *)
Fixpoint fsum (g : Z -> Z) (i : Z) (n : nat) : Z := match n with O => 0 | S k => g i + fsum g (i + 1) k end.
Lemma fsum_le g h : forall n i, (forall j, i <= j < i + Z.of_nat n -> g j <= h j) -> fsum g i n <= fsum h i n.
Proof.
  induction n as [|n IH]; intros i H; cbn [fsum]; [lia|].
  specialize (IH (i + 1) (fun j Hj => H j ltac:(lia))). specialize (H i ltac:(lia)). lia.
Qed.
Lemma fsum_ext g h n i : (forall j, i <= j < i + Z.of_nat n -> g j = h j) -> fsum g i n = fsum h i n.
Proof.
  intros H. apply Z.le_antisymm; apply fsum_le; intros j Hj; rewrite (H j Hj); lia.
Qed.
Lemma fsum_const c : forall n i, fsum (fun _ => c) i n = c * Z.of_nat n.
Proof. induction n as [|n IH]; intros i; cbn [fsum]; [lia|]. rewrite IH. lia. Qed.
Lemma fsum_upd h l c : forall n i,
  fsum (fun j => if j =? l then c else h j) i n = fsum h i n + (if (i <=? l) && (l <? i + Z.of_nat n) then c - h l else 0).
Proof.
  induction n as [|n IH]; intros i; cbn [fsum].
  - destruct ((i <=? l) && (l <? i + Z.of_nat 0)) eqn:E; lia.
  - rewrite IH. destruct (i =? l) eqn:E1.
    + assert (i = l) by lia. subst. destruct ((l + 1 <=? l) && (l <? l + 1 + Z.of_nat n)) eqn:E2; [lia|].
      destruct ((l <=? l) && (l <? l + Z.of_nat (S n))) eqn:E3; lia.
    + destruct ((i + 1 <=? l) && (l <? i + 1 + Z.of_nat n)) eqn:E2;
      destruct ((i <=? l) && (l <? i + Z.of_nat (S n))) eqn:E3; lia.
Qed.
Lemma fsum_list (h : Z -> Z) : forall l i g, (forall k, (k < length l)%nat -> g (i + Z.of_nat k) = h (nth k l 0)) ->
  fsum g i (length l) = zsum (map h l).
Proof.
  induction l as [|x r IH]; intros i g H; cbn [length fsum map zsum]; [reflexivity|].
  rewrite (IH (i + 1) g).
  - specialize (H 0%nat ltac:(cbn; lia)). cbn [nth] in H. replace (i + Z.of_nat 0) with i in H by lia. lia.
  - intros k Hk. specialize (H (S k) ltac:(cbn [length]; lia)). cbn [nth] in H.
    replace (i + 1 + Z.of_nat k) with (i + Z.of_nat (S k)) by lia. exact H.
Qed.

Definition aval (a : arr Z) (i : Z) : Z := match arr_get a i with Some v => v | None => 0 end.
Definition asum (a : arr Z) (n : nat) : Z := fsum (aval a) 0 n.
Definition afull (a : arr Z) (n : Z) : Prop := forall i, 0 <= i < n -> arr_get a i <> None.

Lemma aval_gss a i v : 0 <= i -> aval (arr_set a i v) i = v.
Proof. intros. unfold aval. rewrite arr_gss by lia. reflexivity. Qed.
Lemma aval_gso a i j v : 0 <= i -> 0 <= j -> i <> j -> aval (arr_set a i v) j = aval a j.
Proof. intros. unfold aval. rewrite arr_gso by lia. reflexivity. Qed.
Lemma afull_set a n i v : afull a n -> 0 <= i -> afull (arr_set a i v) n.
Proof.
  intros H Hi j Hj. destruct (Z.eq_dec j i) as [->|]; [rewrite arr_gss by lia; discriminate|].
  rewrite arr_gso by lia. apply H. exact Hj.
Qed.
Lemma asum_set a n id v : 0 <= id < Z.of_nat n -> asum (arr_set a id v) n = asum a n + (v - aval a id).
Proof.
  intros Hid. unfold asum.
  rewrite (fsum_ext (aval (arr_set a id v)) (fun j => if j =? id then v else aval a j)).
  - rewrite fsum_upd. destruct ((0 <=? id) && (id <? 0 + Z.of_nat n)) eqn:E; lia.
  - intros j Hj. destruct (j =? id) eqn:E; [assert (j = id) by lia; subst; apply aval_gss; lia|apply aval_gso; lia].
Qed.
Lemma aval_of_list l i : 0 <= i -> aval (arr_of_list l) i = pval l i.
Proof.
  intros. unfold aval, pval. rewrite arr_of_list_get by lia.
  destruct (nth_error l (Z.to_nat i)) eqn:E; [symmetry; apply nth_error_nth; exact E|].
  apply nth_error_None in E. symmetry. apply nth_overflow. exact E.
Qed.
Lemma afull_of_list l : afull (arr_of_list l) (zlen l).
Proof. intros i Hi. rewrite arr_of_list_get by lia. apply nth_error_Some. unfold zlen in Hi. lia. Qed.
Lemma asum_of_list l : asum (arr_of_list l) (length l) = zsum l.
Proof.
  unfold asum. rewrite (fsum_list (fun x => x) l 0 (aval (arr_of_list l))); [rewrite map_id; reflexivity|].
  intros k Hk. rewrite aval_of_list by lia. unfold pval. f_equal. lia.
Qed.

Lemma read_back_full : forall l a i0, 0 <= i0 -> (forall i, i0 <= i < i0 + zlen l -> arr_get a i <> None) ->
  exists probs, read_back a i0 l = Some probs /\ zsum probs = fsum (aval a) i0 (length l).
Proof.
  induction l as [|x r IH]; intros a i0 Hi H; cbn [read_back length fsum].
  - exists []. split; reflexivity.
  - unfold zlen in H. cbn [length] in H.
    destruct (arr_get a i0) as [p|] eqn:Ep; [|exfalso; apply (H i0); [lia|exact Ep]].
    destruct (IH a (i0 + 1) ltac:(lia)) as (t & Ht & Hs).
    { intros i Hi'. apply H. unfold zlen in Hi'. lia. }
    rewrite Ht. exists (p :: t). split; [reflexivity|]. cbn [zsum]. rewrite Hs. unfold aval at 2. rewrite Ep. reflexivity.
Qed.

(** * One adjustment of the repair loop *)
Section Shrink.
  Variable F : Type.
  Variable scalef : F -> Z -> Z.
  Definition shrink (act : F) (p : Z) : Z :=
    let np := scalef act p in
    let fix0 := p - np in
    let fix1 := if fix0 =? 0 then 1 else fix0 in
    let fix2 := if fix1 >=? p then p - 1 else fix1 in
    p - fix2.
  Variable act : F.
  Hypothesis scale_range : forall p, 2 <= p -> 0 <= scalef act p <= p.
  Hypothesis scale_mono : forall p q, 2 <= p <= q -> scalef act p <= scalef act q.

  Lemma shrink_range p : 2 <= p -> 1 <= shrink act p <= p - 1.
  Proof.
    intros Hp. unfold shrink. pose proof (scale_range p Hp). set (np := scalef act p) in *.
    destruct (p - np =? 0) eqn:E1; [destruct (1 >=? p) eqn:E2; lia|]. destruct (p - np >=? p) eqn:E2; lia.
  Qed.
  Lemma shrink_mono p q : 2 <= p <= q -> shrink act p <= shrink act q.
  Proof.
    intros Hp. unfold shrink. pose proof (scale_range p ltac:(lia)). pose proof (scale_range q ltac:(lia)).
    pose proof (scale_mono p q ltac:(lia)).
    set (np := scalef act p) in *. set (nq := scalef act q) in *.
    destruct (p - np =? 0) eqn:E1; destruct (q - nq =? 0) eqn:E3.
    - destruct (1 >=? p) eqn:E2; destruct (1 >=? q) eqn:E4; lia.
    - destruct (1 >=? p) eqn:E2; destruct (q - nq >=? q) eqn:E4; lia.
    - destruct (p - np >=? p) eqn:E2; destruct (1 >=? q) eqn:E4; lia.
    - destruct (p - np >=? p) eqn:E2; destruct (q - nq >=? q) eqn:E4; lia.
  Qed.
End Shrink.

Definition chain (a : arr Z) (ids : list Z) : Prop := StronglySorted (fun i j => aval a j <= aval a i) ids.
Lemma chain_ext a b ids : (forall j, In j ids -> aval b j = aval a j) -> chain a ids -> chain b ids.
Proof.
  intros H Hc. induction Hc as [|i l Hs IH Hf]; constructor.
  - apply IH. intros j Hj. apply H. right. exact Hj.
  - rewrite Forall_forall in *. intros j Hj. rewrite (H i (or_introl eq_refl)), (H j (or_intror Hj)). apply Hf. exact Hj.
Qed.

Section Pass.
  Variable F : Type.
  Variable scalef : F -> Z -> Z.
  Variable P : Z.
  Variable n : nat.
  Variable act : F.
  Hypothesis scale_range : forall p, 2 <= p -> 0 <= scalef act p <= p.
  Hypothesis scale_mono : forall p q, 2 <= p <= q -> scalef act p <= scalef act q.
  Definition ids_ok (ids : list Z) : Prop := forall id, In id ids -> 0 <= id < Z.of_nat n.

  (** a pass whose first symbol has probability >= 2 continues, keeps the sum/total/error bookkeeping, and only
      lowers entries (never below 1) *)
  Lemma pass_basic : forall ids first a total err, ids_ok ids -> afull a (Z.of_nat n) -> 0 <= err ->
    (first = true -> match ids with id :: _ => 2 <= aval a id | [] => True end) ->
    exists a' t' e', repair_pass F scalef P act ids first a total err = PCont a' t' e' /\
      afull a' (Z.of_nat n) /\ asum a' n - t' = asum a n - total /\ t' - e' = total - err /\ 0 <= e' <= err /\
      (forall j, ~ In j ids -> arr_get a' j = arr_get a j) /\
      (forall j, 0 <= j -> Z.min 1 (aval a j) <= aval a' j <= Z.max (aval a j) (Z.min 1 (aval a j))).
  Proof.
    induction ids as [|id r IH]; intros first a total err Hids Hfull Herr Hfirst; cbn [repair_pass].
    - exists a, total, err. repeat split; try assumption; try lia.
    - destruct (Hids id (or_introl eq_refl)) as (Hid0 & Hidn).
      destruct (arr_get a id) as [p|] eqn:Eg; [|exfalso; apply (Hfull id); [lia|exact Eg]].
      assert (Hav : aval a id = p) by (unfold aval; rewrite Eg; reflexivity).
      destruct (p <=? 1) eqn:Ep.
      { destruct first; [specialize (Hfirst eq_refl); lia|].
        exists a, total, err. repeat split; try assumption; try lia. }
      pose proof (scale_range p ltac:(lia)) as Hsr.
      destruct ((scalef act p <? 0) || (scalef act p >? p)) eqn:Eo; [lia|].
      set (np := scalef act p) in *.
      set (fix0 := p - np) in *.
      set (fix1 := if fix0 =? 0 then 1 else fix0) in *.
      set (fix2 := if fix1 >=? p then p - 1 else fix1) in *.
      set (fix3 := if fix2 >? err then err else fix2) in *.
      assert (Hf1 : 1 <= fix1) by (unfold fix1, fix0; destruct (p - np =? 0) eqn:E; lia).
      assert (Hf2 : 1 <= fix2 <= p - 1) by (unfold fix2; destruct (fix1 >=? p) eqn:E; lia).
      assert (Hf3 : 0 <= fix3 <= err /\ fix3 <= p - 1) by (unfold fix3; destruct (fix2 >? err) eqn:E; lia).
      set (a1 := arr_set a id (p - fix3)).
      assert (Hfull1 : afull a1 (Z.of_nat n)) by (apply afull_set; [exact Hfull|lia]).
      assert (Hsum1 : asum a1 n = asum a n - fix3) by (unfold a1; rewrite asum_set by lia; lia).
      assert (Hpt : forall j, 0 <= j -> Z.min 1 (aval a j) <= aval a1 j <= Z.max (aval a j) (Z.min 1 (aval a j))).
      { intros j Hj. destruct (Z.eq_dec j id) as [->|Hne].
        - unfold a1. rewrite aval_gss by lia. lia.
        - unfold a1. rewrite aval_gso by lia. lia. }
      assert (Hout : forall j, ~ In j (id :: r) -> arr_get a1 j = arr_get a j).
      { intros j Hj. destruct (Z_lt_ge_dec j 0); [rewrite !arr_get_neg by lia; reflexivity|].
        unfold a1. apply arr_gso; try lia. intros ->. apply Hj. left. reflexivity. }
      destruct (total - fix3 =? 2 ^ P) eqn:Et.
      + exists a1, (total - fix3), (err - fix3). repeat split; try assumption; try lia; apply Hpt; assumption.
      + destruct (IH false a1 (total - fix3) (err - fix3) (fun i Hi => Hids i (or_intror Hi)) Hfull1 ltac:(lia) ltac:(discriminate))
          as (a' & t' & e' & Hr & Hfa & Hs & Ht & He & Ho & Hp).
        exists a', t', e'. split; [exact Hr|]. repeat split; try assumption; try lia.
        * intros j Hj. rewrite Ho by (intros Hin; apply Hj; right; exact Hin). apply Hout. exact Hj.
        * specialize (Hp j H). specialize (Hpt j H). lia.
        * specialize (Hp j H). specialize (Hpt j H). lia.
  Qed.

  (** what a pass that leaves an error does to the entries it runs over *)
  Definition pass_rel (a a' : arr Z) (j : Z) : Prop :=
    (aval a j <= 1 /\ aval a' j = aval a j) \/ (2 <= aval a j /\ aval a' j = shrink F scalef act (aval a j)).

  Lemma pass_char : forall ids first a total err a' t' e', ids_ok ids -> NoDup ids -> chain a ids ->
    total = 2 ^ P + err ->
    repair_pass F scalef P act ids first a total err = PCont a' t' e' -> 0 < e' ->
    forall j, In j ids -> pass_rel a a' j.
  Proof.
    induction ids as [|id r IH]; intros first a total err a' t' e' Hids Hnd Hch Htot H He j Hj; [destruct Hj|].
    cbn [repair_pass] in H.
    destruct (Hids id (or_introl eq_refl)) as (Hid0 & Hidn).
    apply NoDup_cons_iff in Hnd as (Hnin & Hnd'). apply StronglySorted_inv in Hch as (Hch' & Hfa). rewrite Forall_forall in Hfa.
    destruct (arr_get a id) as [p|] eqn:Eg; [|discriminate].
    assert (Hav : aval a id = p) by (unfold aval; rewrite Eg; reflexivity).
    destruct (p <=? 1) eqn:Ep.
    { destruct first; [discriminate|]. injection H as <- _ _. left. split; [|reflexivity].
      destruct Hj as [<-|Hj]; [lia|]. specialize (Hfa j Hj). lia. }
    destruct ((scalef act p <? 0) || (scalef act p >? p)) eqn:Eo; [discriminate|].
    pose proof (scale_range p ltac:(lia)) as Hsr.
    assert (Hshr : shrink F scalef act p = p - (if (if p - scalef act p =? 0 then 1 else p - scalef act p) >=? p then p - 1
                                                 else (if p - scalef act p =? 0 then 1 else p - scalef act p))) by reflexivity.
    set (np := scalef act p) in *.
    set (fix0 := p - np) in *.
    set (fix1 := if fix0 =? 0 then 1 else fix0) in *.
    set (fix2 := if fix1 >=? p then p - 1 else fix1) in *.
    set (fix3 := if fix2 >? err then err else fix2) in *.
    set (a1 := arr_set a id (p - fix3)) in *.
    destruct (total - fix3 =? 2 ^ P) eqn:Et.
    { injection H as _ _ <-. lia. }
    assert (Hf3 : fix3 = fix2) by (unfold fix3 in *; destruct (fix2 >? err) eqn:E; lia).
    assert (Ha1 : forall i, In i r -> aval a1 i = aval a i).
    { intros i Hi. destruct (Hids i (or_intror Hi)). unfold a1. apply aval_gso; try lia. intros ->. apply Hnin. exact Hi. }
    assert (Hch1 : chain a1 r) by (apply (chain_ext a); assumption).
    assert (Hfull_ids : ids_ok r) by (intros i Hi; apply Hids; right; exact Hi).
    destruct Hj as [<-|Hj].
    - right. split; [lia|].
      (* id is not touched by the rest of the pass *)
      assert (Hk : forall ids2 act2 f2 b tt ee b' t2 e2, ~ In id ids2 ->
                 repair_pass F scalef P act2 ids2 f2 b tt ee = PCont b' t2 e2 -> arr_get b' id = arr_get b id).
      { induction ids2 as [|i2 r2 IH2]; intros act2 f2 b tt ee b' t2 e2 Hn Hr; cbn [repair_pass] in Hr.
        - injection Hr as <- _ _. reflexivity.
        - destruct (arr_get b i2) as [q|] eqn:Eq; [|discriminate].
          destruct (q <=? 1); [destruct f2; [discriminate|injection Hr as <- _ _; reflexivity]|].
          destruct ((scalef act2 q <? 0) || (scalef act2 q >? q)); [discriminate|].
          match type of Hr with context [arr_set b i2 ?v] => set (vv := v) in * end.
          assert (Hne : i2 <> id) by (intros ->; apply Hn; left; reflexivity).
          assert (Hb1 : arr_get (arr_set b i2 vv) id = arr_get b id).
          { destruct (Z_lt_ge_dec i2 0); [|apply arr_gso; lia].
            rewrite arr_get_neg in Eq by lia. discriminate. }
          match type of Hr with (if ?c then _ else _) = _ => destruct c end.
          + injection Hr as <- _ _. exact Hb1.
          + rewrite (IH2 _ _ _ _ _ _ _ _ (fun Hin => Hn (or_intror Hin)) Hr). exact Hb1. }
      unfold aval at 1. rewrite (Hk _ _ _ _ _ _ _ _ _ Hnin H). fold (aval a1 id). unfold a1. rewrite aval_gss by lia.
      rewrite Hav, Hshr. fold fix0 fix1 fix2. lia.
    - pose proof (IH false a1 (total - fix3) (err - fix3) a' t' e' Hfull_ids Hnd' Hch1 ltac:(lia) H He j Hj) as Hrel.
      unfold pass_rel in *. rewrite (Ha1 j Hj) in Hrel. exact Hrel.
  Qed.

  Lemma chain_pass a a' ids : chain a ids -> (forall j, In j ids -> pass_rel a a' j) -> chain a' ids.
  Proof.
    intros Hc. induction Hc as [|i l Hs IH Hf]; intros H; constructor.
    - apply IH. intros j Hj. apply H. right. exact Hj.
    - rewrite Forall_forall in *. intros j Hj. specialize (Hf j Hj).
      destruct (H i (or_introl eq_refl)) as [(Hi1 & Hi2)|(Hi1 & Hi2)]; destruct (H j (or_intror Hj)) as [(Hj1 & Hj2)|(Hj1 & Hj2)]; try lia.
      + rewrite Hi2, Hj2. pose proof (shrink_range F scalef act scale_range (aval a i) Hi1). lia.
      + rewrite Hi2, Hj2. apply (shrink_mono F scalef act scale_range scale_mono). lia.
  Qed.
End Pass.


Lemma ss_app_chain l : forall ids last, StronglySorted (fun i j => pval l j <= pval l i) (ids ++ [last]) ->
  (forall k, In k ids -> 0 <= k) ->
  chain (arr_of_list l) ids /\ forall j, In j ids -> pval l last <= pval l j.
Proof.
  induction ids as [|i r IH]; intros last Hss Hpos.
  - split; [constructor|intros j []].
  - cbn [app] in Hss. apply StronglySorted_inv in Hss as (Hs & Hf). rewrite Forall_forall in Hf.
    destruct (IH last Hs (fun k Hk => Hpos k (or_intror Hk))) as (H1 & H2). split.
    + constructor; [exact H1|]. rewrite Forall_forall. intros j Hj.
      pose proof (Hpos i (or_introl eq_refl)). pose proof (Hpos j (or_intror Hj)).
      rewrite !aval_of_list by lia. apply Hf. apply in_or_app. left. exact Hj.
    + intros j [<-|Hj]; [apply Hf; apply in_or_app; right; left; reflexivity|apply H2; exact Hj].
Qed.

(** * The repair loop never gives up when there are fewer used symbols than probability slots *)
Section Loop.
  Variable F : Type.
  Variable relf : Z -> F.
  Variable scalef : F -> Z -> Z.
  Variable P : Z.
  Hypothesis scale_range : forall total p, 2 ^ P < total -> 2 <= p -> 0 <= scalef (relf total) p <= p.
  Hypothesis scale_mono : forall total p q, 2 ^ P < total -> 2 <= p <= q -> scalef (relf total) p <= scalef (relf total) q.
  Variable probs0 : list Z.
  Let n := length probs0.
  Let M := 2 ^ P.
  Variable ids : list Z.
  Variable last : Z.
  Hypothesis Hsorted : sorted_desc probs0 = ids ++ [last].
  Hypothesis Hnn : forall p, In p probs0 -> 0 <= p.
  Let u := zsum (map (Z.min 1) probs0).
  Hypothesis Hu : u < M.
  Hypothesis Htotal0 : zsum probs0 <= M + u.

  Lemma ids_facts : NoDup ids /\ ~ In last ids /\ ids_ok n ids /\ 0 <= last < Z.of_nat n /\
    (forall j, 0 <= j < Z.of_nat n -> In j ids \/ j = last) /\
    chain (arr_of_list probs0) ids /\ (forall j, 0 <= j < Z.of_nat n -> pval probs0 last <= pval probs0 j).
  Proof.
    destruct (sorted_desc_spec probs0) as (Hnd & Hin & Hss). rewrite Hsorted in *. fold n in Hin. unfold zlen in Hin.
    apply NoDup_remove in Hnd as (Hnd & Hnl). rewrite app_nil_r in Hnd, Hnl.
    assert (Hlast : 0 <= last < Z.of_nat n) by (apply Hin, in_or_app; right; left; reflexivity).
    assert (Hids : ids_ok n ids) by (intros i Hi; apply Hin, in_or_app; left; exact Hi).
    assert (Hcov : forall j, 0 <= j < Z.of_nat n -> In j ids \/ j = last).
    { intros j Hj. apply Hin in Hj. apply in_app_or in Hj as [H|[H|[]]]; [left; exact H|right; symmetry; exact H]. }
    destruct (ss_app_chain probs0 ids last Hss (fun k Hk => proj1 (Hids k Hk))) as (Hc & Hm).
    refine (conj Hnd (conj Hnl (conj Hids (conj Hlast (conj Hcov (conj Hc _)))))).
    intros j Hj. destruct (Hcov j Hj) as [Hi| ->]; [apply Hm; exact Hi|lia].
  Qed.

  Definition Inv (a : arr Z) (total err : Z) : Prop :=
    afull a (Z.of_nat n) /\ asum a n = total /\ total = M + err /\ 0 <= err /\
    (0 < err -> chain a ids /\ aval a last = pval probs0 last /\ forall j, 0 <= j < Z.of_nat n -> 0 <= aval a j <= pval probs0 j).

  Lemma pval_nonneg j : 0 <= pval probs0 j.
  Proof.
    unfold pval. destruct (nth_in_or_default (Z.to_nat j) probs0 0) as [H|H]; [apply Hnn; exact H|rewrite H; lia].
  Qed.

  Lemma head_ge2 a total err top r : Inv a total err -> 0 < err -> ids = top :: r -> 2 <= aval a top.
  Proof.
    intros (Hfull & Hsum & Htot & He0 & Hrest) He Hids. destruct (Hrest He) as (Hch & Hlast & Hb).
    destruct ids_facts as (Hnd & Hnl & Hok & Hl & Hcov & _ & Hmin).
    destruct (Z_lt_ge_dec (aval a top) 2) as [Hlt|]; [exfalso|lia].
    set (m0 := pval probs0 last) in *.
    assert (Hle1 : forall j, In j ids -> aval a j <= 1).
    { intros j Hj. rewrite Hids in Hch, Hj. apply StronglySorted_inv in Hch as (_ & Hf). rewrite Forall_forall in Hf.
      destruct Hj as [<-|Hj]; [lia|]. specialize (Hf j Hj). lia. }
    set (g := fun j => if j =? last then m0 else Z.min 1 (pval probs0 j)).
    assert (H1 : asum a n <= fsum g 0 n).
    { apply fsum_le. intros j Hj. unfold g. destruct (j =? last) eqn:E; [assert (j = last) by lia; subst; lia|].
      destruct (Hcov j ltac:(lia)) as [Hi|]; [|lia]. specialize (Hle1 j Hi). specialize (Hb j ltac:(lia)). lia. }
    unfold g in H1. rewrite fsum_upd in H1.
    assert (Hu' : fsum (fun j => Z.min 1 (pval probs0 j)) 0 n = u).
    { unfold u, n. apply fsum_list. intros k Hk. unfold pval. do 2 f_equal. lia. }
    rewrite Hu' in H1.
    assert (Hr : (0 <=? last) && (last <? 0 + Z.of_nat n) = true) by lia. rewrite Hr in H1.
    change (pval probs0 last) with m0 in H1.
    assert (Hm0 : 0 <= m0) by apply pval_nonneg.
    assert (H2 : m0 * Z.of_nat n <= zsum probs0).
    { assert (Hz : fsum (pval probs0) 0 n = zsum probs0).
      { unfold n. rewrite (fsum_list (fun x => x) probs0 0 (pval probs0)); [rewrite map_id; reflexivity|].
        intros k Hk. unfold pval. f_equal. lia. }
      rewrite <- Hz, <- (fsum_const m0 n 0). apply fsum_le. intros j Hj. apply Hmin. lia. }
    assert (Hn2 : 2 <= Z.of_nat n).
    { pose proof (f_equal (@length Z) Hsorted) as Hlen. rewrite sorted_desc_length, app_length, Hids in Hlen. cbn [length] in Hlen. fold n in Hlen. lia. }
    destruct (Z.eq_dec m0 0) as [Hz|Hnz].
    - rewrite Hz in H1. change (Z.min 1 0) with 0 in H1. lia.
    - assert (Hun : u = Z.of_nat n).
      { rewrite <- Hu'. rewrite <- (Z.mul_1_l (Z.of_nat n)), <- (fsum_const 1 n 0). apply fsum_ext.
        intros j Hj. specialize (Hmin j ltac:(lia)). lia. }
      assert (Z.min 1 m0 = 1) by lia.
      assert (0 <= (Z.of_nat n - 2) * (M - 1 - Z.of_nat n)) by (apply Z.mul_nonneg_nonneg; lia).
      nia.
  Qed.

  Lemma loop_ok : forall fuel a total err, Inv a total err ->
    exists a' t' e', repair_loop F relf scalef P fuel ids a total err = PCont a' t' e' /\
      afull a' (Z.of_nat n) /\ asum a' n = t' /\ t' = M + e' /\ 0 <= e'.
  Proof.
    destruct ids_facts as (Hnd & Hnl & Hok & Hl & Hcov & _ & Hmin).
    induction fuel as [|fuel IH]; intros a total err HI; pose proof HI as (Hfull & Hsum & Htot & He0 & Hrest); cbn [repair_loop].
    - destruct (err <=? 0); exists a, total, err; repeat split; assumption.
    - destruct (err <=? 0) eqn:Ee; [exists a, total, err; repeat split; assumption|].
      assert (He : 0 < err) by lia. destruct (Hrest He) as (Hch & Hlast & Hb).
      assert (Htl : 2 ^ P < total) by (unfold M in Htot; lia).
      destruct (pass_basic F scalef P n (relf total) (fun p Hp => scale_range total p Htl Hp) ids true a total err Hok Hfull He0) as
        (a1 & t1 & e1 & Hp & Hf1 & Hs1 & Ht1 & He1 & Ho1 & Hpt1).
      { intros _. pose proof (fun top r => head_ge2 a total err top r HI He) as Hh. clear - Hh.
        destruct ids as [|top r]; [exact I|]. exact (Hh top r eq_refl). }
      rewrite Hp. apply IH. split; [exact Hf1|]. split; [lia|]. split; [unfold M in *; lia|]. split; [lia|].
      intros He1'. split; [|split].
      + apply (chain_pass F scalef (relf total) (fun p Hp => scale_range total p Htl Hp) (fun p q Hp => scale_mono total p q Htl Hp) a); [exact Hch|].
        apply (pass_char F scalef P n (relf total) (fun p Hp => scale_range total p Htl Hp) ids true a total err a1 t1 e1 Hok Hnd Hch ltac:(unfold M in Htot; exact Htot) Hp He1').
      + unfold aval. rewrite (Ho1 last Hnl). exact Hlast.
      + intros j Hj. specialize (Hpt1 j ltac:(lia)). specialize (Hb j Hj).
        assert (0 <= Z.min 1 (aval a j)) by (apply Z.min_glb; lia).
        rewrite (Z.max_l (aval a j) (Z.min 1 (aval a j))) in Hpt1 by apply Z.le_min_r. lia.
  Qed.
End Loop.

(** * Create *)

Lemma zsum_repeat0 k : zsum (repeat 0 k) = 0.
Proof. induction k; cbn [repeat zsum]; lia. Qed.
Lemma nused_app a b : nused (a ++ b) = nused a + nused b.
Proof. unfold nused. rewrite map_app, zsum_app. reflexivity. Qed.
Lemma nused_repeat0 k : nused (repeat 0 k) = 0.
Proof. unfold nused. induction k as [|k IH]; cbn [repeat map zsum]; [reflexivity|]. rewrite IH. reflexivity. Qed.

Lemma trim_freqs_facts l : 0 < zsum l ->
  zsum (trim_freqs l) = zsum l /\ nused (trim_freqs l) = nused l /\ (forall f, In f (trim_freqs l) -> In f l).
Proof.
  intros Hpos. unfold trim_freqs. rewrite !rev'_rev. destruct (trim_freqs_split l) as (k & Hs).
  set (t := rev (drop_zeros (rev l))) in *.
  assert (Ht : t <> []).
  { intros E. rewrite E in Hs. cbn [app] in Hs. rewrite Hs, zsum_repeat0 in Hpos. lia. }
  assert (Hm : match t with [] => firstn 1 l | z :: l0 => z :: l0 end = t) by (destruct t; [congruence|reflexivity]).
  rewrite Hm. split; [|split].
  - replace (zsum l) with (zsum (t ++ repeat 0 k)) by (rewrite <- Hs; reflexivity). rewrite zsum_app, zsum_repeat0. lia.
  - replace (nused l) with (nused (t ++ repeat 0 k)) by (rewrite <- Hs; reflexivity). rewrite nused_app, nused_repeat0. lia.
  - intros f Hf. rewrite Hs. apply in_or_app. left. exact Hf.
Qed.

Lemma zsum_in_le l : (forall f, In f l -> 0 <= f) -> forall f, In f l -> f <= zsum l.
Proof.
  induction l as [|x r IH]; intros Hnn f Hf; [destruct Hf|]. cbn [zsum].
  pose proof (zsum_nonneg r (fun y Hy => Hnn y (or_intror Hy))). pose proof (Hnn x (or_introl eq_refl)).
  destruct Hf as [->|Hf]; [lia|]. specialize (IH (fun y Hy => Hnn y (or_intror Hy)) f Hf). lia.
Qed.

Lemma last_max_range : forall l i best bi, 0 <= i -> 0 <= bi ->
  0 <= last_max l i best bi /\ (last_max l i best bi < i + zlen l \/ last_max l i best bi = bi).
Proof.
  induction l as [|p r IH]; intros i best bi Hi Hb; cbn [last_max]; [split; [lia|right; reflexivity]|].
  unfold zlen in *. cbn [length]. rewrite Nat2Z.inj_succ.
  destruct (p >=? best).
  - destruct (IH (i + 1) p i ltac:(lia) Hi) as (H1 & [H2|H2]); split; try lia.
  - destruct (IH (i + 1) best bi ltac:(lia) Hb) as (H1 & [H2|H2]); split; try lia.
Qed.

Section CreateOk.
  Variable F : Type.
  Variable rnd : Z -> Z -> Z.
  Variable relf : Z -> F.
  Variable scalef : F -> Z -> Z.
  Variable P : Z.
  Hypothesis HP : 0 <= P <= 20.
  (** What is assumed of the three double-precision steps (everything else about them is free):
      O1  the rounded share of a symbol is not negative and exceeds the exact share f/t * 2^P by at most 1;
      O4  f/f * 2^P rounds to at most 2^P (in IEEE arithmetic f/f = 1 exactly);
      O2  floor(rel * p) lies in [0, p] for rel = 2^P / total with total > 2^P (so rel < 1) and p >= 2;
      O3  floor(rel * p) is monotone in p there (rounding is monotone). *)
  Hypothesis rnd_ok : forall t f, 0 < t -> 0 < f <= t -> 0 <= rnd t f /\ rnd t f * t <= f * 2 ^ P + t.
  Hypothesis rnd_one : forall t, 0 < t -> rnd t t <= 2 ^ P.
  Hypothesis scale_range : forall total p, 2 ^ P < total -> 2 <= p -> 0 <= scalef (relf total) p <= p.
  Hypothesis scale_mono : forall total p q, 2 ^ P < total -> 2 <= p <= q -> scalef (relf total) p <= scalef (relf total) q.

  Theorem create_succeeds freqs : (forall f, In f freqs -> 0 <= f) -> 0 < zsum freqs < 2 ^ 64 ->
    nused freqs < 2 ^ P ->
    exists probs, rans_create F rnd relf scalef P freqs = COk probs.
  Proof.
    intros Hnn HT Hused. pose proof (M_range P HP) as HM.
    pose proof (create_terminates F rnd relf scalef P freqs) as Hterm.
    unfold rans_create in *. set (fr := trim_freqs freqs) in *.
    rewrite (Z.mod_small (zsum freqs)) in * by lia. set (T := zsum freqs) in *.
    set (rt := rnd T) in *.
    set (g := fun f : Z => let r := if f =? 0 then 0 else rt f in if (r =? 0) && (0 <? f) then 1 else r) in *.
    set (probs0 := map g fr) in *.
    destruct (trim_freqs_facts freqs ltac:(lia)) as (Hsum_fr & Hnu_fr & Hin_fr). fold fr in Hsum_fr, Hnu_fr, Hin_fr.
    assert (Hfr : forall f, In f fr -> 0 <= f <= T).
    { intros f Hf. apply Hin_fr in Hf. split; [apply Hnn; exact Hf|apply zsum_in_le; assumption]. }
    (* the entries of the first table *)
    assert (Hg : forall f, 0 <= f <= T -> 0 <= g f /\ Z.min 1 (g f) = Z.min 1 f /\ g f * T <= f * 2 ^ P + T * Z.min 1 f).
    { intros f Hf. unfold g. cbv zeta. destruct (f =? 0) eqn:Ef.
      - assert (f = 0) by lia. subst f. cbn. lia.
      - destruct (rnd_ok T f ltac:(lia) ltac:(lia)) as (H0 & H1). fold rt in H0, H1.
        destruct ((rt f =? 0) && (0 <? f)) eqn:Eb.
        + split; [lia|]. split; [rewrite !Z.min_l by lia; reflexivity|]. rewrite (Z.min_l 1 f) by lia. nia.
        + split; [lia|]. split; [rewrite !Z.min_l by lia; reflexivity|]. rewrite (Z.min_l 1 f) by lia. lia. }
    assert (Hnn0 : forall p, In p probs0 -> 0 <= p).
    { intros p Hp. apply in_map_iff in Hp as (f & <- & Hf). apply Hg, Hfr, Hf. }
    assert (Hu0 : zsum (map (Z.min 1) probs0) = nused freqs).
    { rewrite <- Hnu_fr. unfold nused, probs0. rewrite map_map. clear - Hg Hfr.
      induction fr as [|f r IH]; cbn [map zsum]; [reflexivity|].
      rewrite IH by (intros; apply Hfr; right; assumption). f_equal. apply Hg, Hfr. left. reflexivity. }
    assert (Htot0 : zsum probs0 <= 2 ^ P + nused freqs).
    { assert (H : zsum probs0 * T <= zsum fr * 2 ^ P + T * nused fr).
      { unfold probs0, nused. clear - Hg Hfr. induction fr as [|f r IH]; cbn [map zsum]; [lia|].
        specialize (IH (fun x Hx => Hfr x (or_intror Hx))). destruct (Hg f (Hfr f (or_introl eq_refl))) as (_ & _ & H). lia. }
      rewrite Hsum_fr, Hnu_fr in H. fold T in H. nia. }
    assert (Hlen0 : length probs0 = length fr) by apply map_length.
    assert (Hfr_ne : fr <> []).
    { intros E. rewrite E in Hsum_fr. cbn in Hsum_fr. lia. }
    (* range checks *)
    assert (Hall : forallb (fun r => (0 <=? r) && (r <? 2 ^ 32)) probs0 = true).
    { apply forallb_forall. intros p Hp. pose proof (Hnn0 p Hp).
      assert (p <= zsum probs0) by (apply zsum_in_le; assumption). change (2 ^ 32) with 4294967296. lia. }
    rewrite Hall. cbn [negb].
    destruct (zsum probs0 >=? 2 ^ 31) eqn:E31; [change (2 ^ 31) with 2147483648 in E31; lia|].
    assert (Hfin : forall l, zsum l = 2 ^ P ->
              (if (zsum l <? 0) || (zsum l >=? 2 ^ 32) then CUnmod else if zsum l =? 2 ^ P then COk l else CFalse) = COk l).
    { intros l Hl. rewrite Hl. destruct ((2 ^ P <? 0) || (2 ^ P >=? 2 ^ 32)) eqn:E; [change (2 ^ 32) with 4294967296 in E; lia|].
      rewrite Z.eqb_refl. reflexivity. }
    set (a0 := arr_of_list probs0).
    assert (Hfull0 : afull a0 (Z.of_nat (length probs0))) by apply afull_of_list.
    assert (Hasum0 : asum a0 (length probs0) = zsum probs0) by apply asum_of_list.
    assert (Hrb : forall a, afull a (Z.of_nat (length probs0)) -> exists probs, read_back a 0 probs0 = Some probs /\ zsum probs = asum a (length probs0)).
    { intros a Ha. apply read_back_full; [lia|]. intros i Hi. apply Ha. unfold zlen in Hi. lia. }
    destruct (zsum probs0 =? 2 ^ P) eqn:Eeq.
    { exists probs0. pose proof (Hfin probs0 ltac:(lia)) as H. rewrite Eeq in H. exact H. }
    destruct (zsum probs0 <? 2 ^ P) eqn:Elt.
    - (* under-allocated: the surplus goes to the most frequent symbol *)
      set (imax := last_max probs0 0 (-1) 0).
      assert (Him : 0 <= imax < Z.of_nat (length probs0)).
      { destruct (last_max_range probs0 0 (-1) 0 ltac:(lia) ltac:(lia)) as (H1 & H2). fold imax in H1, H2.
        assert (0 < Z.of_nat (length probs0)) by (destruct probs0; [destruct fr; [congruence|discriminate]|cbn [length]; lia]).
        unfold zlen in H2. lia. }
      fold a0. destruct (arr_get a0 imax) as [p|] eqn:Eg; [|exfalso; apply (Hfull0 imax Him Eg)].
      destruct (Hrb (arr_set a0 imax (p + (2 ^ P - zsum probs0))) ltac:(apply afull_set; [exact Hfull0|lia])) as (probs & Hr & Hs).
      rewrite Hr. exists probs. apply Hfin. rewrite Hs, asum_set by lia. unfold aval. rewrite Eg. lia.
    - (* over-allocated: the repair loop *)
      assert (Hsd : sorted_desc probs0 <> []).
      { intros E. pose proof (sorted_desc_length probs0) as Hl. rewrite E in Hl. cbn in Hl. destruct probs0; [destruct fr; [congruence|discriminate]|discriminate]. }
      pose proof (app_removelast_last 0 Hsd) as Hsplit.
      set (ids := removelast (sorted_desc probs0)) in *. set (lst := List.last (sorted_desc probs0) 0) in *.
      set (err := zsum probs0 - 2 ^ P) in *.
      destruct (loop_ok F relf scalef P scale_range scale_mono probs0 ids lst Hsplit Hnn0 ltac:(rewrite Hu0; exact Hused)
                  ltac:(rewrite Hu0; exact Htot0) (S (Z.to_nat err)) a0 (zsum probs0) err) as (a & t & e & Hloop & Hfa & Hsa & Hta & He0).
      { split; [exact Hfull0|]. split; [exact Hasum0|]. split; [unfold err; lia|]. split; [unfold err; lia|].
        intros _. destruct (ids_facts P probs0 ids lst Hsplit) as (_ & _ & Hok & Hl & _ & Hch & _).
        split; [exact Hch|]. split; [unfold a0; apply aval_of_list; lia|].
        intros j Hj. unfold a0. rewrite aval_of_list by lia. split; [|lia].
        unfold pval. destruct (nth_in_or_default (Z.to_nat j) probs0 0) as [H|H]; [apply Hnn0; exact H|rewrite H; lia]. }
      fold a0 in Hterm. rewrite Hloop in *.
      assert (He : e = 0).
      { destruct (0 <? e) eqn:E; [|lia]. exfalso.
        rewrite Hall in Hterm. cbn [negb] in Hterm. apply Hterm; [|lia|reflexivity].
        (* a table of one entry cannot be over-allocated *)
        destruct (Nat.le_gt_cases 2 (length fr)) as [H2|H1]; [left; exact H2|exfalso].
        destruct fr as [|f [|f2 r]] eqn:Efr; [congruence| |cbn [length] in H1; lia].
        cbn [zsum] in Hsum_fr. assert (f = T) by lia. subst f.
        unfold probs0 in Elt, Eeq. cbn [map zsum] in Elt, Eeq. unfold g in Elt, Eeq. cbv zeta in Elt, Eeq.
        pose proof (rnd_one T ltac:(lia)) as Hr1. fold rt in Hr1.
        destruct (T =? 0) eqn:Ez; [lia|]. destruct ((rt T =? 0) && (0 <? T)); lia. }
      subst e. cbn [Z.ltb Z.compare].
      destruct (Hrb a Hfa) as (probs & Hr & Hs). rewrite Hr. exists probs. apply Hfin. lia.
  Qed.
End CreateOk.

(** * The histograms of EncodeRawSymbolsInternal / EncodeTaggedSymbols *)
Module PMP := FMapFacts.Properties PositiveMap.
Module PMF := FMapFacts.Facts PositiveMap.

Lemma dense_fsum (h : Z -> Z) : forall n a i, zsum (map h (dense a i n)) = fsum (fun j => h (arr_count a j)) i n.
Proof. induction n as [|n IH]; intros a i; cbn [dense map zsum fsum]; [reflexivity|]. rewrite IH. reflexivity. Qed.

Lemma cardinal_add_new {A} (m : PositiveMap.t A) k v : PositiveMap.find k m = None ->
  PositiveMap.cardinal (PositiveMap.add k v m) = S (PositiveMap.cardinal m).
Proof.
  intros H. apply (PMP.cardinal_2 (x := k) (e := v)); [|intros y; reflexivity].
  intros Hin. apply PMF.in_find_iff in Hin. congruence.
Qed.
Lemma cardinal_add_old {A} (m : PositiveMap.t A) k v c : PositiveMap.find k m = Some c ->
  PositiveMap.cardinal (PositiveMap.add k v m) = PositiveMap.cardinal m.
Proof.
  intros H. set (m0 := PositiveMap.remove k m).
  assert (Hn : ~ PositiveMap.In k m0) by (unfold m0; rewrite PMF.remove_in_iff; intros (Hc & _); congruence).
  rewrite (PMP.cardinal_2 (m := m0) (x := k) (e := v) Hn).
  - rewrite (PMP.cardinal_2 (m := m0) (m' := m) (x := k) (e := c) Hn); [reflexivity|].
    intros y. unfold m0. rewrite PMF.add_o, PMF.remove_o. destruct (PositiveMap.E.eq_dec k y) as [<-|]; [exact H|reflexivity].
  - intros y. unfold m0. rewrite !PMF.add_o, PMF.remove_o. destruct (PositiveMap.E.eq_dec k y); reflexivity.
Qed.

Definition cnt_inv (a : arr Z) : Prop := forall s, 0 <= s -> arr_get a s <> None -> 1 <= arr_count a s.

Lemma count_syms_hist n : forall l a, (forall s, In s l -> 0 <= s < Z.of_nat n) -> cnt_inv a ->
  cnt_inv (count_syms l a) /\
  (forall s, 0 <= s -> arr_count (count_syms l a) s = arr_count a s + zcount s l) /\
  fsum (arr_count (count_syms l a)) 0 n = fsum (arr_count a) 0 n + zlen l /\
  Z.of_nat (PositiveMap.cardinal (count_syms l a)) - fsum (fun j => Z.min 1 (arr_count (count_syms l a) j)) 0 n =
  Z.of_nat (PositiveMap.cardinal a) - fsum (fun j => Z.min 1 (arr_count a j)) 0 n.
Proof.
  induction l as [|x r IH]; intros a Hl Ha; cbn [count_syms zcount].
  - split; [exact Ha|]. split; [intros; lia|]. split; [unfold zlen; cbn; lia|reflexivity].
  - destruct (Hl x (or_introl eq_refl)) as (Hx0 & Hxn).
    set (v := 1 + arr_count a x). set (a1 := arr_set a x v).
    assert (Hc0 : 0 <= arr_count a x).
    { unfold arr_count. destruct (arr_get a x) eqn:E; [|lia]. pose proof (Ha x Hx0 ltac:(congruence)) as H. unfold arr_count in H. rewrite E in H. lia. }
    assert (Ha1 : cnt_inv a1).
    { intros s Hs Hne. unfold a1 in *. rewrite arr_count_set by lia. destruct (s =? x) eqn:E; [unfold v; lia|].
      rewrite arr_gso in Hne by lia. apply Ha; assumption. }
    destruct (IH a1 (fun s Hs => Hl s (or_intror Hs)) Ha1) as (H1 & H2 & H3 & H4).
    split; [exact H1|]. split; [|split].
    + intros s Hs. rewrite (H2 s Hs). unfold a1. rewrite arr_count_set by lia.
      destruct (s =? x) eqn:E1; destruct (x =? s) eqn:E2; try lia. assert (s = x) by lia. subst. unfold v. lia.
    + rewrite H3. rewrite (fsum_ext (arr_count a1) (fun j => if j =? x then v else arr_count a j)).
      2:{ intros j Hj. unfold a1. apply arr_count_set; lia. }
      rewrite fsum_upd. assert ((0 <=? x) && (x <? 0 + Z.of_nat n) = true) as -> by lia.
      unfold zlen. cbn [length]. unfold v. lia.
    + rewrite H4. rewrite (fsum_ext (fun j => Z.min 1 (arr_count a1 j)) (fun j => if j =? x then Z.min 1 v else Z.min 1 (arr_count a j))).
      2:{ intros j Hj. unfold a1. rewrite arr_count_set by lia. destruct (j =? x); reflexivity. }
      rewrite (fsum_upd (fun j => Z.min 1 (arr_count a j))). assert ((0 <=? x) && (x <? 0 + Z.of_nat n) = true) as -> by lia.
      assert (Hv : Z.min 1 v = 1) by (unfold v; apply Z.min_l; lia). rewrite Hv.
      unfold a1, arr_set. destruct (arr_get a x) as [c|] eqn:E.
      * pose proof (Ha x Hx0 ltac:(congruence)) as Hc1.
        unfold arr_get in E. destruct (x <? 0) eqn:Ex; [lia|].
        rewrite (cardinal_add_old _ _ _ c E). rewrite (Z.min_l 1 (arr_count a x)) by lia. lia.
      * assert (Hz : arr_count a x = 0) by (unfold arr_count; rewrite E; reflexivity).
        unfold arr_get in E. destruct (x <? 0) eqn:Ex; [lia|].
        rewrite (cardinal_add_new _ _ _ E). rewrite Hz. change (Z.min 1 0) with 0. lia.
Qed.

Lemma cnt_inv_empty : cnt_inv (PositiveMap.empty Z).
Proof. intros s Hs H. rewrite arr_get_empty in H. congruence. Qed.

(** the frequency table the callers hand to Create: its total, its number of used symbols, and [hist_eq] *)
Lemma hist_table n syms : (forall s, In s syms -> 0 <= s < Z.of_nat n) ->
  let cnt := count_syms syms (PositiveMap.empty Z) in
  let freqs := dense cnt 0 n in
  zsum freqs = zlen syms /\ nused freqs = Z.of_nat (PositiveMap.cardinal cnt) /\ hist_eq syms freqs /\
  (forall f, In f freqs -> 0 <= f).
Proof.
  intros Hs cnt freqs.
  destruct (count_syms_hist n syms (PositiveMap.empty Z) Hs cnt_inv_empty) as (H1 & H2 & H3 & H4). fold cnt in H1, H2, H3, H4.
  assert (Hz : forall g, g 0 = 0 -> fsum (fun j => g (arr_count (PositiveMap.empty Z) j)) 0 n = 0).
  { intros g Hg. rewrite (fsum_ext _ (fun _ => 0)); [rewrite fsum_const; lia|]. intros j _. rewrite arr_count_empty. exact Hg. }
  split; [|split; [|split]].
  - assert (Hz1 : fsum (arr_count (PositiveMap.empty Z)) 0 n = 0) by (exact (Hz (fun x => x) eq_refl)).
    assert (Hd : zsum (dense cnt 0 n) = fsum (arr_count cnt) 0 n).
    { rewrite <- (map_id (dense cnt 0 n)). exact (dense_fsum (fun x => x) n cnt 0). }
    unfold freqs. rewrite Hd, H3, Hz1. lia.
  - unfold nused, freqs. rewrite dense_fsum. rewrite (Hz (Z.min 1) eq_refl) in H4. cbn in H4. lia.
  - intros s Hs0. unfold freqs. destruct (Z_lt_ge_dec s (Z.of_nat n)) as [Hlt|Hge].
    + rewrite (nth_error_nth _ _ 0 (dense_nth n cnt 0 (Z.to_nat s) ltac:(lia))).
      rewrite Z.add_0_l, Z2Nat.id by lia. rewrite (H2 s Hs0), arr_count_empty. lia.
    + rewrite nth_overflow by (rewrite dense_length; lia).
      clear - Hs Hge. induction syms as [|x r IH]; cbn [zcount]; [reflexivity|].
      pose proof (Hs x (or_introl eq_refl)). destruct (x =? s) eqn:E; [lia|]. apply IH. intros y Hy. apply Hs. right. exact Hy.
  - intros f Hf. apply In_nth_error in Hf as (k & Hk). unfold freqs in Hk.
    assert (k < n)%nat by (rewrite <- (dense_length n cnt 0); apply nth_error_Some; congruence).
    rewrite dense_nth in Hk by lia. injection Hk as <-.
    unfold arr_count. destruct (arr_get cnt (0 + Z.of_nat k)) eqn:E; [|lia].
    pose proof (H1 (0 + Z.of_nat k) ltac:(lia) ltac:(congruence)) as Hc. unfold arr_count in Hc. rewrite E in Hc. lia.
Qed.

Lemma nused_le_len l : nused l <= zlen l.
Proof.
  unfold nused, zlen. induction l as [|x r IH]; cbn [map zsum length]; [lia|]. rewrite Nat2Z.inj_succ.
  pose proof (Z.le_min_l 1 x). lia.
Qed.

Lemma raw_bit_length_clamp nu lvl : raw_bit_length nu lvl = raw_bit_length nu (Z.max 0 (Z.min lvl 10)).
Proof.
  unfold raw_bit_length.
  destruct (lvl <? 4) eqn:E1; destruct (Z.max 0 (Z.min lvl 10) <? 4) eqn:F1; try lia;
  destruct (lvl <? 6) eqn:E2; destruct (Z.max 0 (Z.min lvl 10) <? 6) eqn:F2; try lia;
  destruct (lvl >? 9) eqn:E3; destruct (Z.max 0 (Z.min lvl 10) >? 9) eqn:F3; try lia;
  destruct (lvl >? 7) eqn:E4; destruct (Z.max 0 (Z.min lvl 10) >? 7) eqn:F4; try lia.
Qed.

Section Callers.
  Variable F : Type.
  Variable rnd : Z -> Z -> Z.
  Variable relf : Z -> F.
  Variable scalef : F -> Z -> Z.
  Variable P : Z.
  Hypothesis rnd_ok : forall t f, 0 < t -> 0 < f <= t -> 0 <= rnd t f /\ rnd t f * t <= f * 2 ^ P + t.
  Hypothesis rnd_one : forall t, 0 < t -> rnd t t <= 2 ^ P.
  Hypothesis scale_range : forall total p, 2 ^ P < total -> 2 <= p -> 0 <= scalef (relf total) p <= p.
  Hypothesis scale_mono : forall total p q, 2 ^ P < total -> 2 <= p <= q -> scalef (relf total) p <= scalef (relf total) q.

  (** EncodeRawSymbols -> EncodeRawSymbolsInternal<RAnsSymbolEncoder<bit length>>::Create: the precision is derived
      from the TRUE number of unique symbols of the array (what ComputeShannonEntropy counted), any level. *)
  Theorem create_succeeds_raw lvl syms : syms <> [] -> (forall s, In s syms -> 0 <= s) -> zlen syms < 2 ^ 64 ->
    let cnt := count_syms syms (PositiveMap.empty Z) in
    let nu := Z.of_nat (PositiveMap.cardinal cnt) in
    (if 0 <? nu then Z.log2 nu else 0) + 1 <= 18 ->
    P = rans_precision_bits (raw_bit_length nu lvl) ->
    exists probs, rans_create F rnd relf scalef P (dense cnt 0 (Z.to_nat (zmax_list syms + 1))) = COk probs.
  Proof.
    intros Hne Hs Hlen cnt nu Hb HP.
    set (n := Z.to_nat (zmax_list syms + 1)).
    pose proof (zmax_list_nonneg syms) as Hm0.
    destruct (hist_table n syms) as (Hz & Hnu & _ & Hnn).
    { intros s Hin. pose proof (zmax_list_ge syms s Hin). pose proof (Hs s Hin). unfold n. lia. }
    fold cnt in Hz, Hnu, Hnn. fold nu in Hnu.
    pose proof (precision_range (raw_bit_length nu lvl)) as HPr. rewrite <- HP in HPr.
    apply create_succeeds; try assumption; try lia.
    - rewrite Hz. unfold zlen in *. destruct syms; [congruence|cbn [length] in *; lia].
    - rewrite Hnu.
      assert (Hnu1 : 1 <= nu).
      { rewrite <- Hnu. destruct syms as [|x r]; [congruence|]. clear - Hz Hnn.
        (* a table whose total is positive has a used symbol *)
        assert (0 < zsum (dense cnt 0 n)) by (rewrite Hz; unfold zlen; cbn [length]; lia).
        revert H Hnn. generalize (dense cnt 0 n). intros l. unfold nused. induction l as [|f t IH]; cbn [zsum map]; [lia|].
        intros Hpos Hnn. pose proof (Hnn f (or_introl eq_refl)).
        destruct (Z.eq_dec f 0) as [->|].
        - specialize (IH ltac:(lia) (fun g Hg => Hnn g (or_intror Hg))). change (Z.min 1 0) with 0. lia.
        - assert (0 <= zsum (map (Z.min 1) t)).
          { apply zsum_nonneg. intros q Hq. apply in_map_iff in Hq as (g & <- & Hg). pose proof (Hnn g (or_intror Hg)). apply Z.min_glb; lia. }
          rewrite (Z.min_l 1 f) by lia. lia. }
      assert (0 <? nu = true) as Hpos by lia. rewrite Hpos in Hb.
      set (b := Z.log2 nu + 1) in *.
      assert (Hrange : 2 ^ (b - 1) <= nu < 2 ^ b).
      { unfold b. replace (Z.log2 nu + 1 - 1) with (Z.log2 nu) by lia. pose proof (Z.log2_spec nu ltac:(lia)). 
        replace (Z.log2 nu + 1) with (Z.succ (Z.log2 nu)) by lia. lia. }
      rewrite HP, raw_bit_length_clamp.
      pose proof (precision_sufficient b (Z.max 0 (Z.min lvl 10)) nu ltac:(pose proof (Z.log2_nonneg nu); lia) ltac:(lia) Hrange). lia.
  Qed.

  (** EncodeTaggedSymbols -> RAnsSymbolEncoder<5>::Create on the 32 bit-length frequencies. *)
  Theorem create_succeeds_tagged tags : tags <> [] -> (forall t, In t tags -> 0 <= t < 32) -> zlen tags < 2 ^ 64 ->
    P = rans_precision_bits 5 ->
    exists probs, rans_create F rnd relf scalef P (dense (count_syms tags (PositiveMap.empty Z)) 0 32) = COk probs.
  Proof.
    intros Hne Ht Hlen HP. assert (HP12 : P = 12) by (rewrite HP; reflexivity).
    destruct (hist_table 32 tags Ht) as (Hz & Hnu & _ & Hnn).
    apply create_succeeds; try assumption; try lia.
    - rewrite Hz. unfold zlen in *. destruct tags; [congruence|cbn [length] in *; lia].
    - pose proof (nused_le_len (dense (count_syms tags (PositiveMap.empty Z)) 0 32)) as H. unfold zlen in H. rewrite dense_length in H.
      rewrite HP12. change (2 ^ 12) with 4096. lia.
  Qed.
End Callers.

(** * (A) for the library's callers: the table comes from Create on the histogram of the encoded sequence *)
Theorem write_area_sufficient_hist (F : Type) rnd (relf : Z -> F) scalef P n syms probs E st :
  0 <= P <= 20 -> (forall s, In s syms -> 0 <= s < Z.of_nat n) ->
  let freqs := dense (count_syms syms (PositiveMap.empty Z)) 0 n in
  rans_create F rnd relf scalef P freqs = COk probs ->
  ebits_ok P probs freqs E -> 0 <= E < 2 ^ 33 ->
  rans_encode_syms P (arr_of_list (with_cum probs 0)) syms (rans_write_init P) = Some st ->
  exists used, rans_area_used P st = Some used /\ used <= rans_reserved E /\ zlen (snd st) + 4 <= rans_reserved E.
Proof.
  intros HP Hs freqs Hc HE HEr Henc.
  apply create_table_valid in Hc as (Hsum & Hl & Hnn & Hused).
  destruct (hist_table n syms Hs) as (_ & _ & Hh & _). fold freqs in Hh.
  apply (write_area_sufficient P HP probs Hnn Hsum syms freqs E st); try assumption.
  - intros s Hin. destruct (Hs s Hin) as (Hs0 & Hsn). split; [exact Hs0|].
    set (cnt := count_syms syms (PositiveMap.empty Z)) in *.
    assert (Hc : 1 <= arr_count cnt s).
    { destruct (count_syms_ge syms (PositiveMap.empty Z) s (fun x Hx => proj1 (Hs x Hx)) Hs0) as (_ & H2).
      specialize (H2 Hin). rewrite arr_count_empty in H2. exact H2. }
    assert (Hd : nth_error freqs (Z.to_nat s) = Some (arr_count cnt s)).
    { unfold freqs. rewrite dense_nth by lia. do 2 f_equal. lia. }
    apply trim_freqs_nth in Hd; [|lia].
    destruct (Hused _ _ Hd ltac:(lia)) as (p & Hp & Hp1). exists p. split; assumption.
  - intros s Hs0. rewrite (Hh s Hs0). lia.
Qed.
