(** Proofs about Model/Wrap.v: the wrap transform round-trips every original of the range
    for EVERY int32 prediction, on every legal range, without signed overflow. *)
From Coq Require Import ZArith Lia Bool ZifyBool.
From Draco Require Import Base.Bits Model.Wrap.
Local Open Scope Z_scope.

Definition i32 (x : Z) : Prop := -2147483648 <= x <= 2147483647.

Lemma to_i32_id x : i32 x -> to_i32 x = x.
Proof. unfold i32, to_i32. intros. rewrite Z.mod_small by lia. lia. Qed.

Lemma to_i32_range x : i32 (to_i32 x).
Proof. unfold i32, to_i32. pose proof (Z.mod_pos_bound (x + 2147483648) 4294967296). lia. Qed.

Lemma in_i32_true x : in_i32 x = true <-> i32 x.
Proof. unfold in_i32, i32. lia. Qed.

(** InitCorrectionBounds succeeds exactly on the ranges the property names, and its results
    have the closed form below ([k] = max_dif / 2). *)
Lemma wrap_init_spec mn mx :
  i32 mn -> i32 mx -> 0 <= mx - mn < 2147483647 ->
  exists b, wrap_init mn mx = Some b /\
    wb_min b = mn /\ wb_max b = mx /\ wb_max_dif b = mx - mn + 1 /\
    wb_min_corr b = - (wb_max_dif b / 2) /\
    wb_max_corr b = (if (wb_max_dif b) mod 2 =? 0 then wb_max_dif b / 2 - 1 else wb_max_dif b / 2).
Proof.
  intros Hmn Hmx Hd. unfold wrap_init.
  destruct ((mx - mn <? 0) || (mx - mn >=? 2147483647)) eqn:E; [lia|].
  eexists; split; [reflexivity|]. cbn [wb_min wb_max wb_max_dif wb_min_corr wb_max_corr].
  rewrite (to_i32_id (mx - mn)) by (unfold i32; lia).
  rewrite land1_mod2.
  assert (Hq : Z.quot (1 + (mx - mn)) 2 = (1 + (mx - mn)) / 2) by (apply Z.quot_div_nonneg; lia).
  rewrite Hq. replace (1 + (mx - mn)) with (mx - mn + 1) by lia.
  repeat split; reflexivity.
Qed.

Lemma wrap_init_fails mn mx : ~ (0 <= mx - mn < 2147483647) -> wrap_init mn mx = None.
Proof. intros. unfold wrap_init. destruct ((mx - mn <? 0) || (mx - mn >=? 2147483647)) eqn:E; [reflexivity|lia]. Qed.

Lemma wrap_clamp_range b p : wb_min b <= wb_max b -> wb_min b <= wrap_clamp b p <= wb_max b.
Proof. intros. unfold wrap_clamp. destruct (p >? wb_max b) eqn:?; [lia|]. destruct (p <? wb_min b) eqn:?; lia. Qed.

Lemma wrap_clamp_id b p : wb_min b <= p <= wb_max b -> wrap_clamp b p = p.
Proof. intros. unfold wrap_clamp. destruct (p >? wb_max b) eqn:?; [lia|]. destruct (p <? wb_min b) eqn:?; lia. Qed.

Section WithBounds.
  Variables (mn mx : Z) (b : wrap_bounds).
  Hypothesis Hmn : i32 mn.
  Hypothesis Hmx : i32 mx.
  Hypothesis Hd : 0 <= mx - mn < 2147483647.
  Hypothesis Hb : wrap_init mn mx = Some b.

  Local Ltac Zify.zify_post_hook ::= Z.div_mod_to_equations.

  Lemma bounds_facts :
    wb_min b = mn /\ wb_max b = mx /\ wb_max_dif b = mx - mn + 1 /\
    wb_min_corr b = - (wb_max_dif b / 2) /\
    (wb_max_corr b = wb_max_dif b / 2 - 1 /\ wb_max_dif b = 2 * (wb_max_dif b / 2) \/
     wb_max_corr b = wb_max_dif b / 2 /\ wb_max_dif b = 2 * (wb_max_dif b / 2) + 1).
  Proof.
    destruct (wrap_init_spec mn mx Hmn Hmx Hd) as (b' & E & H1 & H2 & H3 & H4 & H5).
    rewrite Hb in E. injection E as <-.
    repeat (split; [assumption|]).
    destruct (wb_max_dif b mod 2 =? 0) eqn:P; [left|right]; split; try assumption; lia.
  Qed.

  (** The encoder side: exact value of the correction, its interval, and no signed overflow. *)
  Lemma wrap_enc_spec orig pred : mn <= orig <= mx ->
    let p := wrap_clamp b pred in
    let d := orig - p in
    let md := wb_max_dif b in
    wrap_enc_no_ub b orig pred = true /\
    wb_min_corr b <= wrap_enc b orig pred <= wb_max_corr b /\
    (wrap_enc b orig pred = d \/ wrap_enc b orig pred = d + md /\ mx < p + (d + md) \/
     wrap_enc b orig pred = d - md /\ p + (d - md) < mn).
  Proof.
    intros Ho p d md.
    destruct bounds_facts as (Hmin & Hmax & Hmd & Hminc & Hpar).
    assert (Hp : mn <= p <= mx) by (subst p; rewrite <- Hmin, <- Hmax; apply wrap_clamp_range; lia).
    unfold wrap_enc_no_ub, wrap_enc. fold p. fold d. fold md.
    unfold i32 in *.
    set (k := md / 2) in *. clearbody k.
    assert (Hdi : i32 d) by (unfold i32; lia).
    rewrite (to_i32_id d) by exact Hdi.
    destruct (d <? wb_min_corr b) eqn:E1.
    - assert (i32 (d + md)) by (unfold i32; lia).
      rewrite (to_i32_id (d + md)) by assumption.
      split; [rewrite andb_true_iff, !in_i32_true; auto|].
      split; [lia|]. right; left. lia.
    - destruct (d >? wb_max_corr b) eqn:E2.
      + assert (i32 (d - md)) by (unfold i32; lia).
        rewrite (to_i32_id (d - md)) by assumption.
        split; [rewrite andb_true_iff, !in_i32_true; auto|].
        split; [lia|]. right; right. lia.
      + split; [rewrite andb_true_iff, in_i32_true; auto|].
        split; [lia|]. left; reflexivity.
  Qed.

  Lemma wrap_roundtrip_b orig pred : mn <= orig <= mx ->
    wrap_dec b pred (wrap_enc b orig pred) = orig /\
    wb_min_corr b <= wrap_enc b orig pred <= wb_max_corr b /\
    wrap_enc_no_ub b orig pred = true.
  Proof.
    intros Ho.
    destruct (wrap_enc_spec orig pred Ho) as (Hub & Hrange & Hcases).
    split; [|split; assumption].
    destruct bounds_facts as (Hmin & Hmax & Hmd & _ & _).
    assert (Hp : mn <= wrap_clamp b pred <= mx) by (rewrite <- Hmin, <- Hmax; apply wrap_clamp_range; lia).
    unfold wrap_dec. set (p := wrap_clamp b pred) in *. set (c := wrap_enc b orig pred) in *.
    rewrite Hmin, Hmax. unfold i32 in *.
    destruct Hcases as [E | [[E Hgt] | [E Hlt]]]; rewrite E in *.
    - replace (p + (orig - p)) with orig by lia.
      destruct (orig >? mx) eqn:?; [lia|]. destruct (orig <? mn) eqn:?; [lia|].
      apply to_i32_id. unfold i32; lia.
    - destruct (p + (orig - p + wb_max_dif b) >? mx) eqn:?; [|lia].
      replace (p + (orig - p + wb_max_dif b) - wb_max_dif b) with orig by lia.
      apply to_i32_id. unfold i32; lia.
    - destruct (p + (orig - p - wb_max_dif b) >? mx) eqn:?; [lia|].
      destruct (p + (orig - p - wb_max_dif b) <? mn) eqn:?; [|lia].
      replace (p + (orig - p - wb_max_dif b) + wb_max_dif b) with orig by lia.
      apply to_i32_id. unfold i32; lia.
  Qed.
End WithBounds.

(** The property for the wrap transform, on the full stated domain. *)
Theorem wrap_roundtrip : forall mn mx orig pred,
  i32 mn -> i32 mx -> 0 <= mx - mn < 2147483647 -> mn <= orig <= mx -> i32 pred ->
  exists b, wrap_init mn mx = Some b /\ wrap_dec_init mn mx = Some b /\
    wrap_dec b pred (wrap_enc b orig pred) = orig /\
    wb_min_corr b <= wrap_enc b orig pred <= wb_max_corr b.
Proof.
  intros mn mx orig pred Hmn Hmx Hd Ho _.
  destruct (wrap_init_spec mn mx Hmn Hmx Hd) as (b & E & _).
  exists b. split; [exact E|]. split.
  - unfold wrap_dec_init. destruct (mn >? mx) eqn:?; [lia|exact E].
  - destruct (wrap_roundtrip_b mn mx b Hmn Hmx Hd E orig pred Ho) as (H1 & H2 & _). split; assumption.
Qed.

Theorem wrap_no_ub : forall mn mx b orig pred,
  i32 mn -> i32 mx -> 0 <= mx - mn < 2147483647 -> wrap_init mn mx = Some b -> mn <= orig <= mx ->
  wrap_enc_no_ub b orig pred = true.
Proof.
  intros mn mx b orig pred Hmn Hmx Hd Hb Ho.
  destruct (wrap_roundtrip_b mn mx b Hmn Hmx Hd Hb orig pred Ho) as (_ & _ & H). exact H.
Qed.

(** The decoder accepts exactly the legal ranges. *)
Theorem wrap_dec_init_iff : forall mn mx, i32 mn -> i32 mx ->
  (wrap_dec_init mn mx <> None <-> 0 <= mx - mn < 2147483647).
Proof.
  intros mn mx Hmn Hmx. unfold wrap_dec_init. split.
  - intros H. destruct (mn >? mx) eqn:?; [congruence|].
    destruct (Z_lt_ge_dec (mx - mn) 2147483647); [lia|].
    rewrite wrap_init_fails in H by lia. congruence.
  - intros Hd. destruct (mn >? mx) eqn:?; [lia|].
    destruct (wrap_init_spec mn mx Hmn Hmx Hd) as (b & E & _). congruence.
Qed.

(** The decoder is total and stays in int32 for every correction (hostile streams). *)
Lemma wrap_dec_i32 b pred corr : i32 (wrap_dec b pred corr).
Proof. unfold wrap_dec. apply to_i32_range. Qed.

(** Corrections are not only bounded, they are unique: the transform is a bijection between
    originals of the range and corrections of the announced interval, for a fixed prediction. *)
Lemma wrap_enc_injective mn mx b o1 o2 pred :
  i32 mn -> i32 mx -> 0 <= mx - mn < 2147483647 -> wrap_init mn mx = Some b ->
  mn <= o1 <= mx -> mn <= o2 <= mx -> wrap_enc b o1 pred = wrap_enc b o2 pred -> o1 = o2.
Proof.
  intros Hmn Hmx Hd Hb H1 H2 E.
  destruct (wrap_roundtrip_b mn mx b Hmn Hmx Hd Hb o1 pred H1) as (R1 & _).
  destruct (wrap_roundtrip_b mn mx b Hmn Hmx Hd Hb o2 pred H2) as (R2 & _).
  rewrite <- R1, <- R2, E. reflexivity.
Qed.
