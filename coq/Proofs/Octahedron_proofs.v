(** Proofs about Model/Octahedron.v: both octahedral prediction transforms round-trip every
    canonical original against every prediction of the square, for every centre value. *)
From Coq Require Import ZArith Lia Bool ZifyBool List.
From Draco Require Import Base.Bits Model.Wrap Model.Octahedron Proofs.Wrap_proofs.
Import ListNotations.
Local Open Scope Z_scope.

(** ** Exact (piecewise linear) form of InvertDiamond and the domains *)
Definition csq (c : Z) (p : pt) : Prop := - c <= fst p <= c /\ - c <= snd p <= c.
Definition in_square (c : Z) (p : pt) : Prop := 0 <= fst p <= 2 * c /\ 0 <= snd p <= 2 * c.

Definition inv_lin (c : Z) (p : pt) : pt :=
  let '(s, t) := p in
  if (s >=? 0) && (t >=? 0) then (c - t, c - s)
  else if (s <=? 0) && (t <=? 0) then (- c - t, - c - s)
  else if s >? 0 then (t + c, s - c)
  else (t - c, s + c).

(** canonical representative, in centred coordinates: of two identified edge points only
    one is allowed, of the four corners only (c,c). *)
Definition ccanon (c : Z) (p : pt) : Prop :=
  csq c p /\
  (snd p = - c -> - c < fst p <= 0) /\ (snd p = c -> 0 <= fst p) /\
  (fst p = - c -> - c < snd p <= 0) /\ (fst p = c -> 0 <= snd p).

(** what the property calls "canonical octahedral coordinates": a point of the square that
    CanonicalizeOctahedralCoords leaves alone *)
Definition canonical (c : Z) (p : pt) : Prop :=
  in_square c p /\ canonicalize (obox_of_center c) p = p.

Ltac pair_eq H := let H1 := fresh "H" in let H2 := fresh "H" in
  assert (H1 := f_equal fst H); assert (H2 := f_equal snd H); cbn [fst snd] in H1, H2.

Lemma psub_csq c p : in_square c p -> csq c (psub p (c, c)).
Proof. destruct p; unfold in_square, csq, psub; cbn [fst snd]. lia. Qed.

Lemma padd_psub p t : padd (psub p t) t = p.
Proof. destruct p, t; unfold padd, psub; cbn [fst snd]. f_equal; lia. Qed.

Lemma canonical_ccanon c p : 1 <= c -> canonical c p -> ccanon c (psub p (c, c)).
Proof.
  intros Hc [Hsq Hcan]. destruct p as [s t].
  unfold in_square in Hsq. cbn [fst snd] in Hsq.
  unfold canonicalize in Hcan. cbn [ob_maxv ob_center obox_of_center] in Hcan.
  unfold ccanon, csq, psub. cbn [fst snd].
  destruct ((s =? 0) && (t =? 0) || (s =? 0) && (t =? 2 * c) || (s =? 2 * c) && (t =? 0)) eqn:E1.
  { pair_eq Hcan. lia. }
  destruct ((s =? 0) && (t >? c)) eqn:E2. { pair_eq Hcan. lia. }
  destruct ((s =? 2 * c) && (t <? c)) eqn:E3. { pair_eq Hcan. lia. }
  destruct ((t =? 2 * c) && (s <? c)) eqn:E4. { pair_eq Hcan. lia. }
  destruct ((t =? 0) && (s >? c)) eqn:E5. { pair_eq Hcan. lia. }
  lia.
Qed.

(** the encoder's canonicalisation produces canonical points (hypothesis of the theorems is met
    by everything CanonicalizeOctahedralCoords emits) *)
Lemma canonicalize_canonical c p : 1 <= c -> in_square c p -> canonical c (canonicalize (obox_of_center c) p).
Proof.
  intros Hc Hsq. destruct p as [s t]. unfold in_square in Hsq. cbn [fst snd] in Hsq.
  unfold canonical.
  remember (canonicalize (obox_of_center c) (s, t)) as r eqn:Hr.
  unfold canonicalize in Hr. cbn [ob_maxv ob_center obox_of_center] in Hr.
  assert (Fin : forall x y, 0 <= x <= 2 * c -> 0 <= y <= 2 * c ->
     ((x =? 0) && (y =? 0) || (x =? 0) && (y =? 2 * c) || (x =? 2 * c) && (y =? 0)) = false ->
     ((x =? 0) && (y >? c)) = false -> ((x =? 2 * c) && (y <? c)) = false ->
     ((y =? 2 * c) && (x <? c)) = false -> ((y =? 0) && (x >? c)) = false ->
     in_square c (x, y) /\ canonicalize (obox_of_center c) (x, y) = (x, y)).
  { intros x y Hx Hy F1 F2 F3 F4 F5. split; [unfold in_square; cbn [fst snd]; lia|].
    unfold canonicalize. cbn [ob_maxv ob_center obox_of_center]. rewrite F1, F2, F3, F4, F5. reflexivity. }
  destruct ((s =? 0) && (t =? 0) || (s =? 0) && (t =? 2 * c) || (s =? 2 * c) && (t =? 0)) eqn:E1.
  { subst r. apply Fin; lia. }
  destruct ((s =? 0) && (t >? c)) eqn:E2. { subst r. apply Fin; lia. }
  destruct ((s =? 2 * c) && (t <? c)) eqn:E3. { subst r. apply Fin; lia. }
  destruct ((t =? 2 * c) && (s <? c)) eqn:E4. { subst r. apply Fin; lia. }
  destruct ((t =? 0) && (s >? c)) eqn:E5. { subst r. apply Fin; lia. }
  subst r. apply Fin; assumption || lia.
Qed.

(** ** Small lemmas the round trip is assembled from *)
Lemma inv_lin_csq c p : 0 <= c -> csq c p -> csq c (inv_lin c p).
Proof.
  intros Hc. destruct p as [s t]. unfold csq, inv_lin. cbn [fst snd]. intros H.
  destruct ((s >=? 0) && (t >=? 0)) eqn:E1; [cbn; lia|].
  destruct ((s <=? 0) && (t <=? 0)) eqn:E2; [cbn; lia|].
  destruct (s >? 0) eqn:E3; cbn; lia.
Qed.

Lemma inv_lin_involutive c p : 0 <= c -> ccanon c p -> inv_lin c (inv_lin c p) = p.
Proof.
  intros Hc. destruct p as [s t]. unfold ccanon, csq. cbn [fst snd]. intros H.
  unfold inv_lin at 2.
  destruct ((s >=? 0) && (t >=? 0)) eqn:E1;
    [| destruct ((s <=? 0) && (t <=? 0)) eqn:E2; [| destruct (s >? 0) eqn:E3]];
    unfold inv_lin;
    repeat match goal with |- context [if ?b then _ else _] => destruct b eqn:? end;
    try (f_equal; lia); lia.
Qed.

Lemma rotation_count_range p : 0 <= rotation_count p <= 3.
Proof.
  destruct p as [x y]. unfold rotation_count.
  repeat match goal with |- context [if ?b then _ else _] => destruct b end; lia.
Qed.

Lemma rot_inverse p k : 0 <= k <= 3 -> rotate_point (rotate_point p k) (Z.rem (4 - k) 4) = p.
Proof.
  intros Hk. destruct p as [x y].
  assert (K : k = 0 \/ k = 1 \/ k = 2 \/ k = 3) by lia.
  destruct K as [ -> | [ -> | [ -> | -> ]]]; cbn; f_equal; lia.
Qed.

Lemma rot_csq c p k : csq c p -> csq c (rotate_point p k).
Proof.
  destruct p as [x y]. unfold csq, rotate_point. cbn [fst snd]. intros H.
  destruct (k =? 1); [cbn; lia|]. destruct (k =? 2); [cbn; lia|]. destruct (k =? 3); cbn; lia.
Qed.

Lemma modmax_makepos c o p : 1 <= c -> - c <= o <= c -> - c <= p <= c ->
  let b := obox_of_center c in
  mod_max b (p + make_positive b (o - p)) = o /\ 0 <= make_positive b (o - p) <= 2 * c.
Proof.
  intros Hc Ho Hp b. unfold mod_max, make_positive, b. cbn [ob_center ob_mqv obox_of_center].
  destruct (o - p <? 0) eqn:E1.
  - destruct (p + (o - p + (2 * c + 1)) >? c) eqn:E2; [lia|]. lia.
  - destruct (p + (o - p) >? c) eqn:E2; [lia|].
    destruct (p + (o - p) <? - c) eqn:E3; lia.
Qed.

(** ** The round trip, proved once for any implementation of the three primitives that are
    not exact in C++ (diamond test, InvertDiamond, AddAsUnsigned): it only needs InvertDiamond
    to be the linear map on the centred square and the addition to be exact on
    [-c,c] + [0,2c].  The diamond test may return anything (both sides call it on the same
    prediction). *)
Section Generic.
  Variable c : Z.
  Variable isd : Z -> Z -> bool.
  Variable inv : pt -> pt.
  Variable addu : Z -> Z -> Z.

  Definition g_canon_enc (orig pred : pt) : pt :=
    let b := obox_of_center c in
    let t := (c, c) in
    let orig := psub orig t in
    let pred := psub pred t in
    let ind := isd (fst pred) (snd pred) in
    let orig := if ind then orig else inv orig in
    let pred := if ind then pred else inv pred in
    let bl := is_in_bottom_left pred in
    let k := rotation_count pred in
    let orig := if bl then orig else rotate_point orig k in
    let pred := if bl then pred else rotate_point pred k in
    let corr := psub orig pred in
    (make_positive b (fst corr), make_positive b (snd corr)).

  Definition g_canon_dec (pred corr : pt) : pt :=
    let b := obox_of_center c in
    let t := (c, c) in
    let pred := psub pred t in
    let ind := isd (fst pred) (snd pred) in
    let pred := if ind then pred else inv pred in
    let bl := is_in_bottom_left pred in
    let k := rotation_count pred in
    let pred := if bl then pred else rotate_point pred k in
    let orig := (mod_max b (addu (fst pred) (fst corr)),
                 mod_max b (addu (snd pred) (snd corr))) in
    let orig := if bl then orig else rotate_point orig (Z.rem (4 - k) 4) in
    let orig := if ind then orig else inv orig in
    padd orig t.

  (** plain transform: no rotation; [subu]/[addu2] are the uint32 subtraction/addition of the
      centre in the decoder *)
  Definition g_plain_enc (orig pred : pt) : pt :=
    let b := obox_of_center c in
    let t := (c, c) in
    let orig := psub orig t in
    let pred := psub pred t in
    let ind := isd (fst pred) (snd pred) in
    let orig := if ind then orig else inv orig in
    let pred := if ind then pred else inv pred in
    let corr := psub orig pred in
    (make_positive b (fst corr), make_positive b (snd corr)).

  Variable subc : Z -> Z.    (* x - c in uint32, converted back *)
  Definition g_plain_dec (pred corr : pt) : pt :=
    let b := obox_of_center c in
    let pred := (subc (fst pred), subc (snd pred)) in
    let ind := isd (fst pred) (snd pred) in
    let pred := if ind then pred else inv pred in
    let orig := (addu (fst pred) (fst corr), addu (snd pred) (snd corr)) in
    let orig := (mod_max b (fst orig), mod_max b (snd orig)) in
    let orig := if ind then orig else inv orig in
    (addu (fst orig) c, addu (snd orig) c).

  Hypothesis Hc : 1 <= c.
  Hypothesis Hinv : forall p, csq c p -> inv p = inv_lin c p.
  Hypothesis Haddu : forall x y, - c <= x <= c -> 0 <= y <= 2 * c -> addu x y = x + y.
  Hypothesis Hsubc : forall x, 0 <= x <= 2 * c -> subc x = x - c.

  Lemma inv_csq p : csq c p -> csq c (inv p).
  Proof. intros H. rewrite Hinv by exact H. apply inv_lin_csq; [lia|exact H]. Qed.

  Lemma inv_inv p : ccanon c p -> inv (inv p) = p.
  Proof.
    intros H. assert (Hs : csq c p) by apply H.
    rewrite (Hinv p Hs). rewrite Hinv by (apply inv_lin_csq; [lia|exact Hs]).
    apply inv_lin_involutive; [lia|exact H].
  Qed.

  (** the modular core shared by both transforms *)
  Lemma core_roundtrip o p : csq c o -> csq c p ->
    let b := obox_of_center c in
    let corr := psub o p in
    let cr := (make_positive b (fst corr), make_positive b (snd corr)) in
    (mod_max b (addu (fst p) (fst cr)), mod_max b (addu (snd p) (snd cr))) = o /\ in_square c cr.
  Proof.
    intros Ho Hp b corr cr. destruct o as [o1 o2], p as [p1 p2].
    unfold csq in *. cbn [fst snd] in *. unfold cr, corr, psub, in_square. cbn [fst snd].
    destruct (modmax_makepos c o1 p1 Hc) as [A1 A2]; try lia.
    destruct (modmax_makepos c o2 p2 Hc) as [B1 B2]; try lia.
    fold b in A1, A2, B1, B2.
    rewrite !Haddu by lia. rewrite A1, B1. split; [reflexivity|lia].
  Qed.

  (** rotation stage + modular core: the decoder gets back the (possibly inverted) original *)
  Lemma rot_stage o1 p1 : csq c o1 -> csq c p1 ->
    let b := obox_of_center c in
    let bl := is_in_bottom_left p1 in
    let k := rotation_count p1 in
    let o2 := if bl then o1 else rotate_point o1 k in
    let p2 := if bl then p1 else rotate_point p1 k in
    let corr := psub o2 p2 in
    let cr := (make_positive b (fst corr), make_positive b (snd corr)) in
    let orig := (mod_max b (addu (fst p2) (fst cr)), mod_max b (addu (snd p2) (snd cr))) in
    (if bl then orig else rotate_point orig (Z.rem (4 - k) 4)) = o1 /\ in_square c cr.
  Proof.
    intros Ho1 Hp1. cbv zeta.
    destruct (is_in_bottom_left p1).
    - apply (core_roundtrip o1 p1 Ho1 Hp1).
    - assert (Ho2 : csq c (rotate_point o1 (rotation_count p1))) by (apply rot_csq; exact Ho1).
      assert (Hp2 : csq c (rotate_point p1 (rotation_count p1))) by (apply rot_csq; exact Hp1).
      destruct (core_roundtrip _ _ Ho2 Hp2) as [Hcore Hrange]. cbv zeta in Hcore, Hrange.
      split; [|exact Hrange]. rewrite Hcore. apply rot_inverse. apply rotation_count_range.
  Qed.

  Theorem g_canon_roundtrip orig pred :
    canonical c orig -> in_square c pred ->
    g_canon_dec pred (g_canon_enc orig pred) = orig /\ in_square c (g_canon_enc orig pred).
  Proof.
    intros Hcan Hp.
    assert (Hcc : ccanon c (psub orig (c, c))) by (apply canonical_ccanon; assumption).
    assert (Ho0 : csq c (psub orig (c, c))) by apply Hcc.
    assert (Hp0 : csq c (psub pred (c, c))) by (apply psub_csq; exact Hp).
    unfold g_canon_dec, g_canon_enc. cbv zeta.
    destruct (isd (fst (psub pred (c, c))) (snd (psub pred (c, c)))).
    - destruct (rot_stage _ _ Ho0 Hp0) as [H1 H2]. cbv zeta in H1, H2.
      split; [|exact H2]. rewrite H1. apply padd_psub.
    - assert (Ho1 : csq c (inv (psub orig (c, c)))) by (apply inv_csq; exact Ho0).
      assert (Hp1 : csq c (inv (psub pred (c, c)))) by (apply inv_csq; exact Hp0).
      destruct (rot_stage _ _ Ho1 Hp1) as [H1 H2]. cbv zeta in H1, H2.
      split; [|exact H2]. rewrite H1. rewrite inv_inv by exact Hcc. apply padd_psub.
  Qed.

  Theorem g_plain_roundtrip orig pred :
    canonical c orig -> in_square c pred ->
    g_plain_dec pred (g_plain_enc orig pred) = orig /\ in_square c (g_plain_enc orig pred).
  Proof.
    intros Hcan Hp.
    assert (Hcc : ccanon c (psub orig (c, c))) by (apply canonical_ccanon; assumption).
    assert (Ho0 : csq c (psub orig (c, c))) by apply Hcc.
    assert (Hp0 : csq c (psub pred (c, c))) by (apply psub_csq; exact Hp).
    assert (Hfin : forall o, csq c o -> (addu (fst o) c, addu (snd o) c) = padd o (c, c)).
    { intros [a b] [Ha Hb]. cbn [fst snd] in *. unfold padd. cbn [fst snd]. rewrite !Haddu by lia. reflexivity. }
    unfold g_plain_dec, g_plain_enc. cbv zeta.
    assert (Hsub : (subc (fst pred), subc (snd pred)) = psub pred (c, c)).
    { unfold in_square in Hp. unfold psub. cbn [fst snd]. rewrite !Hsubc by lia. reflexivity. }
    rewrite Hsub.
    destruct (isd (fst (psub pred (c, c))) (snd (psub pred (c, c)))).
    - destruct (core_roundtrip _ _ Ho0 Hp0) as [H1 H2]. cbv zeta in H1, H2.
      split; [|exact H2]. cbn [fst snd] in H1 |- *. pair_eq H1. rewrite H, H0.
      rewrite Hfin by exact Ho0. apply padd_psub.
    - assert (Ho1 : csq c (inv (psub orig (c, c)))) by (apply inv_csq; exact Ho0).
      assert (Hp1 : csq c (inv (psub pred (c, c)))) by (apply inv_csq; exact Hp0).
      destruct (core_roundtrip _ _ Ho1 Hp1) as [H1 H2]. cbv zeta in H1, H2.
      split; [|exact H2]. cbn [fst snd] in H1 |- *.
      rewrite H1. rewrite inv_inv by exact Hcc. rewrite Hfin by exact Ho0. apply padd_psub.
  Qed.
End Generic.

(** ** Instance 1: exact integer arithmetic — every centre value c >= 1 (every quantization) *)
Definition x_isd (c s t : Z) : bool := Z.abs s + Z.abs t <=? c.
Definition x_canon_enc (c : Z) := g_canon_enc c (x_isd c) (inv_lin c).
Definition x_canon_dec (c : Z) := g_canon_dec c (x_isd c) (inv_lin c) Z.add.
Definition x_plain_enc (c : Z) := g_plain_enc c (x_isd c) (inv_lin c).
Definition x_plain_dec (c : Z) := g_plain_dec c (x_isd c) (inv_lin c) Z.add (fun x => x - c).

Theorem oct_canon_roundtrip_exact : forall c orig pred, 1 <= c ->
  canonical c orig -> in_square c pred ->
  x_canon_dec c pred (x_canon_enc c orig pred) = orig /\ in_square c (x_canon_enc c orig pred).
Proof.
  intros c orig pred Hc Ho Hp. unfold x_canon_dec, x_canon_enc.
  apply g_canon_roundtrip; auto.
Qed.

Theorem oct_plain_roundtrip_exact : forall c orig pred, 1 <= c ->
  canonical c orig -> in_square c pred ->
  x_plain_dec c pred (x_plain_enc c orig pred) = orig /\ in_square c (x_plain_enc c orig pred).
Proof.
  intros c orig pred Hc Ho Hp. unfold x_plain_dec, x_plain_enc.
  apply g_plain_roundtrip; auto.
Qed.

(** ** Instance 2: the machine model (uint32/int32 as in the C++), 1 <= c <= 2^29-1,
    i.e. every state SetQuantizationBits can produce (q = 2..30) and every c in between *)
Definition cmax : Z := 536870911.   (* 2^29 - 1 = center_value_ for q = 30 *)

Lemma u32_small x : 0 <= x < 4294967296 -> u32 x = x.
Proof. intros. unfold u32. apply Z.mod_small. lia. Qed.

Lemma to_i32_u32 x : i32 x -> to_i32 (u32 x) = x.
Proof.
  intros H. unfold to_i32, u32. rewrite Zplus_mod_idemp_l. fold (to_i32 x). apply to_i32_id. exact H.
Qed.

Lemma u32_add_l x y : u32 (u32 x + y) = u32 (x + y).
Proof. unfold u32. apply Zplus_mod_idemp_l. Qed.
Lemma u32_add_r x y : u32 (x + u32 y) = u32 (x + y).
Proof. unfold u32. apply Zplus_mod_idemp_r. Qed.
Lemma u32_sub_l x y : u32 (u32 x - y) = u32 (x - y).
Proof. unfold u32. apply Zminus_mod_idemp_l. Qed.
Lemma u32_sub_r x y : u32 (x - u32 y) = u32 (x - y).
Proof. unfold u32. apply Zminus_mod_idemp_r. Qed.

Ltac signs := change (1 * 1 >=? 0) with true; change (-1 * -1 >=? 0) with true;
  change (1 * -1 >=? 0) with false; change (-1 * 1 >=? 0) with false; cbv beta iota zeta.

Lemma add_as_unsigned_exact x y : i32 (x + y) -> add_as_unsigned x y = x + y.
Proof. intros H. unfold add_as_unsigned. rewrite u32_add_l, u32_add_r. apply to_i32_u32. exact H. Qed.

(** std::abs(INT_MIN) is undefined: s, t > INT_MIN *)
Lemma is_in_diamond_exact c s t : 0 <= c < 4294967296 ->
  -2147483648 < s <= 2147483647 -> -2147483648 < t <= 2147483647 ->
  is_in_diamond (obox_of_center c) s t = x_isd c s t.
Proof.
  intros Hc Hs Ht. unfold is_in_diamond, x_isd in *. cbn [ob_center obox_of_center].
  rewrite (u32_small (Z.abs s)) by lia. rewrite (u32_small (Z.abs t)) by lia.
  rewrite (u32_small (Z.abs s + Z.abs t)) by lia. rewrite (u32_small c) by lia. reflexivity.
Qed.

(** invert_uint32_eq_linear: on the centred square the uint32 code is the linear map *)
Lemma invert_diamond_lin c p : 0 <= c <= cmax -> csq c p ->
  invert_diamond (obox_of_center c) p = inv_lin c p.
Proof.
  unfold cmax. intros Hc. destruct p as [s t]. unfold csq. cbn [fst snd]. intros H.
  unfold invert_diamond, invert_signs, inv_lin. cbn [ob_center obox_of_center].
  destruct ((s >=? 0) && (t >=? 0)) eqn:E1.
  { signs. unfold to_i32, u32. f_equal; Z.to_euclidean_division_equations; lia. }
  destruct ((s <=? 0) && (t <=? 0)) eqn:E2.
  { signs. unfold to_i32, u32. f_equal; Z.to_euclidean_division_equations; lia. }
  destruct (s >? 0) eqn:E3.
  { assert (Et : (t >? 0) = false) by lia. rewrite Et.
    signs. unfold to_i32, u32. f_equal; Z.to_euclidean_division_equations; lia. }
  { assert (Et : (t >? 0) = true) by lia. rewrite Et.
    signs. unfold to_i32, u32. f_equal; Z.to_euclidean_division_equations; lia. }
Qed.

Lemma canon_enc_is_g c : oct_canon_enc (obox_of_center c) =
  g_canon_enc c (is_in_diamond (obox_of_center c)) (invert_diamond (obox_of_center c)).
Proof. reflexivity. Qed.
Lemma canon_dec_is_g c : oct_canon_dec (obox_of_center c) =
  g_canon_dec c (is_in_diamond (obox_of_center c)) (invert_diamond (obox_of_center c)) add_as_unsigned.
Proof. reflexivity. Qed.
Lemma plain_enc_is_g c : oct_enc (obox_of_center c) =
  g_plain_enc c (is_in_diamond (obox_of_center c)) (invert_diamond (obox_of_center c)).
Proof. reflexivity. Qed.
Lemma plain_dec_is_g c : oct_dec (obox_of_center c) =
  g_plain_dec c (is_in_diamond (obox_of_center c)) (invert_diamond (obox_of_center c)) add_as_unsigned
    (fun x => to_i32 (u32 (u32 x - u32 c))).
Proof. reflexivity. Qed.

Lemma machine_addu c x y : 1 <= c <= cmax -> - c <= x <= c -> 0 <= y <= 2 * c -> add_as_unsigned x y = x + y.
Proof. unfold cmax. intros. apply add_as_unsigned_exact. unfold i32. lia. Qed.

Lemma machine_subc c x : 1 <= c <= cmax -> 0 <= x <= 2 * c -> to_i32 (u32 (u32 x - u32 c)) = x - c.
Proof. unfold cmax. intros. rewrite u32_sub_l, u32_sub_r. apply to_i32_u32. unfold i32. lia. Qed.

Theorem oct_canon_roundtrip_machine : forall c orig pred, 1 <= c <= cmax ->
  canonical c orig -> in_square c pred ->
  let b := obox_of_center c in
  oct_canon_dec b pred (oct_canon_enc b orig pred) = orig /\ in_square c (oct_canon_enc b orig pred).
Proof.
  intros c orig pred Hc Ho Hp b. unfold b. rewrite canon_enc_is_g, canon_dec_is_g.
  apply g_canon_roundtrip; try assumption; try lia.
  - intros p Hpq. apply invert_diamond_lin; [lia|exact Hpq].
  - intros x y Hx Hy. apply (machine_addu c); assumption.
Qed.

Theorem oct_plain_roundtrip_machine : forall c orig pred, 1 <= c <= cmax ->
  canonical c orig -> in_square c pred ->
  let b := obox_of_center c in
  oct_dec b pred (oct_enc b orig pred) = orig /\ in_square c (oct_enc b orig pred).
Proof.
  intros c orig pred Hc Ho Hp b. unfold b. rewrite plain_enc_is_g, plain_dec_is_g.
  apply g_plain_roundtrip; try assumption; try lia.
  - intros p Hpq. apply invert_diamond_lin; [lia|exact Hpq].
  - intros x y Hx Hy. apply (machine_addu c); assumption.
  - intros x Hx. apply machine_subc; assumption.
Qed.

(** The machine model and the exact-arithmetic program agree on the whole domain (so the
    unbounded theorem is about the same function wherever the C++ types can hold c). *)
Lemma g_canon_enc_ext c isd1 isd2 inv1 inv2 orig pred :
  (forall p, csq c p -> isd1 (fst p) (snd p) = isd2 (fst p) (snd p)) ->
  (forall p, csq c p -> inv1 p = inv2 p) ->
  in_square c orig -> in_square c pred ->
  g_canon_enc c isd1 inv1 orig pred = g_canon_enc c isd2 inv2 orig pred.
Proof.
  intros Hisd Hinv Ho Hp. unfold g_canon_enc. cbv zeta.
  rewrite (Hisd _ (psub_csq c pred Hp)).
  rewrite (Hinv _ (psub_csq c pred Hp)), (Hinv _ (psub_csq c orig Ho)). reflexivity.
Qed.

Theorem oct_canon_enc_machine_eq_exact : forall c orig pred, 1 <= c <= cmax ->
  in_square c orig -> in_square c pred ->
  oct_canon_enc (obox_of_center c) orig pred = x_canon_enc c orig pred.
Proof.
  intros c orig pred Hc Ho Hp. rewrite canon_enc_is_g. unfold x_canon_enc.
  apply g_canon_enc_ext; try assumption.
  - intros [s t] [Hs Ht]. cbn [fst snd] in *. unfold cmax in Hc. apply is_in_diamond_exact; lia.
  - intros p Hq. apply invert_diamond_lin; [lia|exact Hq].
Qed.

(** SetQuantizationBits reaches exactly the states [obox_of_center (2^(q-1)-1)], q = 2..30
    (finite domain, checked by computation; the bound is in the statement). *)
Lemma set_quantization_bits_center : forall q, 2 <= q <= 30 ->
  set_quantization_bits q = Some (obox_of_center (2 ^ (q - 1) - 1)).
Proof.
  intros q Hq.
  pose (f := fun q => match set_quantization_bits (q + 2) with
                        | Some b => (ob_q b =? q + 2) && (ob_mqv b =? 2 * (2 ^ (q + 1) - 1) + 1) &&
                                    (ob_maxv b =? 2 * (2 ^ (q + 1) - 1)) && (ob_center b =? 2 ^ (q + 1) - 1) &&
                                    (ob_q (obox_of_center (2 ^ (q + 1) - 1)) =? q + 2)
                        | None => false end).
  assert (H : f (q - 2) = true).
  { apply (range_forallb f 29); [vm_compute; reflexivity | lia]. }
  unfold f in H. clear f.
  cbv beta in H. replace (q - 2 + 2) with q in H by lia. replace (q - 2 + 1) with (q - 1) in H by lia.
  destruct (set_quantization_bits q) as [[bq bm bx bc]|]; [|discriminate].
  cbn [ob_q ob_mqv ob_maxv ob_center] in H. unfold obox_of_center in *. cbn [ob_q] in H.
  f_equal. f_equal; lia.
Qed.

Lemma center_bounds q : 2 <= q <= 30 -> 1 <= 2 ^ (q - 1) - 1 <= cmax.
Proof.
  intros Hq. unfold cmax.
  assert (2 ^ 1 <= 2 ^ (q - 1)) by (apply Z.pow_le_mono_r; lia).
  assert (2 ^ (q - 1) <= 2 ^ 29) by (apply Z.pow_le_mono_r; lia).
  change (2 ^ 1) with 2 in *. change (2 ^ 29) with 536870912 in *. lia.
Qed.

(** Property statement in terms of the quantization: for every q the library accepts. *)
Theorem oct_canon_roundtrip_q : forall q b orig pred,
  set_quantization_bits q = Some b ->
  canonical (ob_center b) orig -> in_square (ob_center b) pred ->
  oct_canon_dec b pred (oct_canon_enc b orig pred) = orig /\ in_square (ob_center b) (oct_canon_enc b orig pred).
Proof.
  intros q b orig pred Hb Ho Hp.
  assert (Hq : 2 <= q <= 30).
  { unfold set_quantization_bits in Hb. destruct ((q <? 2) || (q >? 30)) eqn:E; [discriminate|lia]. }
  rewrite (set_quantization_bits_center q Hq) in Hb. injection Hb as <-.
  cbn [ob_center obox_of_center] in *.
  apply oct_canon_roundtrip_machine; try assumption. apply center_bounds; exact Hq.
Qed.

(** Why the theorems ask for a canonical original: a non-canonical edge point is decoded to its
    canonical twin (both transforms), here for q = 3 (c = 3): (5,0) comes back as (1,0). *)
Lemma oct_noncanonical_refuted :
  exists c orig pred, 1 <= c <= cmax /\ in_square c orig /\ in_square c pred /\
    ~ canonical c orig /\
    oct_canon_dec (obox_of_center c) pred (oct_canon_enc (obox_of_center c) orig pred) <> orig /\
    oct_dec (obox_of_center c) pred (oct_enc (obox_of_center c) orig pred) <> orig /\
    oct_canon_dec (obox_of_center c) pred (oct_canon_enc (obox_of_center c) orig pred)
      = canonicalize (obox_of_center c) orig.
Proof.
  exists 3, (5, 0), (0, 0). unfold cmax, in_square, canonical. cbn [fst snd].
  repeat split; try lia.
  - intros [_ H]. vm_compute in H. discriminate.
  - vm_compute. discriminate.
  - vm_compute. discriminate.
Qed.
(** ** No signed overflow in the transforms (q <= 30) *)
Lemma all_in_i32_Forall l : Forall i32 l -> all_in_i32 l = true.
Proof.
  intros H. unfold all_in_i32. apply forallb_forall. intros x Hx.
  rewrite Forall_forall in H. apply in_i32_true. apply H. exact Hx.
Qed.

Lemma machine_inv_csq c p : 1 <= c <= cmax -> csq c p -> csq c (invert_diamond (obox_of_center c) p).
Proof. intros Hc H. rewrite invert_diamond_lin by (try lia; exact H). apply inv_lin_csq; [lia|exact H]. Qed.

Lemma make_positive_range c x : 1 <= c -> - 2 * c <= x <= 2 * c ->
  0 <= make_positive (obox_of_center c) x <= 2 * c.
Proof. intros. unfold make_positive. cbn [ob_mqv obox_of_center]. destruct (x <? 0) eqn:?; lia. Qed.

Theorem oct_canon_enc_no_overflow : forall c orig pred, 1 <= c <= cmax ->
  in_square c orig -> in_square c pred ->
  oct_canon_enc_no_ub (obox_of_center c) orig pred = true.
Proof.
  intros c orig pred Hc Ho Hp.
  assert (Ho0 := psub_csq c orig Ho). assert (Hp0 := psub_csq c pred Hp).
  unfold oct_canon_enc_no_ub. apply all_in_i32_Forall.
  unfold oct_canon_enc_trace. cbn [ob_center obox_of_center]. cbv zeta.
  set (o0 := psub orig (c, c)) in *. set (p0 := psub pred (c, c)) in *.
  assert (S1 : forall o1 p1, csq c o1 -> csq c p1 ->
    Forall i32
      [fst o0; snd o0; fst p0; snd p0; - fst o1; - snd o1; - fst p1; - snd p1;
       fst (if is_in_bottom_left p1 then o1 else rotate_point o1 (rotation_count p1));
       snd (if is_in_bottom_left p1 then o1 else rotate_point o1 (rotation_count p1));
       fst (if is_in_bottom_left p1 then p1 else rotate_point p1 (rotation_count p1));
       snd (if is_in_bottom_left p1 then p1 else rotate_point p1 (rotation_count p1));
       fst (psub (if is_in_bottom_left p1 then o1 else rotate_point o1 (rotation_count p1))
                 (if is_in_bottom_left p1 then p1 else rotate_point p1 (rotation_count p1)));
       snd (psub (if is_in_bottom_left p1 then o1 else rotate_point o1 (rotation_count p1))
                 (if is_in_bottom_left p1 then p1 else rotate_point p1 (rotation_count p1)));
       make_positive (obox_of_center c)
         (fst (psub (if is_in_bottom_left p1 then o1 else rotate_point o1 (rotation_count p1))
                    (if is_in_bottom_left p1 then p1 else rotate_point p1 (rotation_count p1))));
       make_positive (obox_of_center c)
         (snd (psub (if is_in_bottom_left p1 then o1 else rotate_point o1 (rotation_count p1))
                    (if is_in_bottom_left p1 then p1 else rotate_point p1 (rotation_count p1))))]).
  { intros o1 p1 Ho1 Hp1.
    assert (Fin : forall o2 p2, csq c o2 -> csq c p2 ->
      Forall i32 [fst o0; snd o0; fst p0; snd p0; - fst o1; - snd o1; - fst p1; - snd p1;
                  fst o2; snd o2; fst p2; snd p2; fst (psub o2 p2); snd (psub o2 p2);
                  make_positive (obox_of_center c) (fst (psub o2 p2));
                  make_positive (obox_of_center c) (snd (psub o2 p2))]).
    { intros o2 p2 Ho2 Hp2. unfold psub. cbn [fst snd].
      pose proof (make_positive_range c (fst o2 - fst p2)) as M1.
      pose proof (make_positive_range c (snd o2 - snd p2)) as M2.
      unfold csq, cmax in *.
      repeat (apply Forall_cons; [unfold i32; lia|]). apply Forall_nil. }
    destruct (is_in_bottom_left p1).
    - apply Fin; assumption.
    - apply Fin; apply rot_csq; assumption. }
  destruct (is_in_diamond (obox_of_center c) (fst p0) (snd p0)).
  - apply S1; assumption.
  - apply S1; apply machine_inv_csq; assumption.
Qed.

(** The decoder never overflows either — for every prediction of the square and EVERY int32
    correction (hostile streams included). *)
Lemma mod_max_hostile c x : 1 <= c <= cmax -> i32 x ->
  let y := mod_max (obox_of_center c) x in i32 y /\ i32 (- y) /\ i32 (y + c) /\ i32 (- y + c).
Proof.
  unfold cmax. intros Hc Hx. unfold mod_max, i32 in *. cbn [ob_center ob_mqv obox_of_center].
  destruct (x >? c) eqn:?; [lia|]. destruct (x <? - c) eqn:?; lia.
Qed.

Lemma add_as_unsigned_i32 x y : i32 (add_as_unsigned x y).
Proof. unfold add_as_unsigned. apply to_i32_range. Qed.

Lemma quot2_i32 x : i32 x -> -1073741824 <= Z.quot x 2 <= 1073741823.
Proof. unfold i32. intros. Z.to_euclidean_division_equations. lia. Qed.

Lemma invert_diamond_any_range b p :
  -1073741824 <= fst (invert_diamond b p) <= 1073741823 /\ -1073741824 <= snd (invert_diamond b p) <= 1073741823.
Proof.
  destruct p as [s t]. unfold invert_diamond.
  destruct (invert_signs s t) as [ss st].
  destruct (ss * st >=? 0); cbn [fst snd]; split; apply quot2_i32; apply to_i32_range.
Qed.

Theorem oct_canon_dec_no_overflow_hostile : forall c pred corr, 1 <= c <= cmax ->
  in_square c pred -> i32 (fst corr) -> i32 (snd corr) ->
  oct_canon_dec_no_ub (obox_of_center c) pred corr = true.
Proof.
  intros c pred corr Hc Hp Hc1 Hc2.
  assert (Hp0 := psub_csq c pred Hp).
  unfold oct_canon_dec_no_ub. apply all_in_i32_Forall.
  unfold oct_canon_dec_trace. cbn [ob_center obox_of_center]. cbv zeta.
  set (p0 := psub pred (c, c)) in *.
  (* final stage, for any p1 in the centred square and either outcome of the diamond test *)
  assert (S1 : forall (ind : bool) p1, csq c p1 ->
    Forall i32
     (let bl := is_in_bottom_left p1 in
      let k := rotation_count p1 in
      let p2 := if bl then p1 else rotate_point p1 k in
      let orig0 := (mod_max (obox_of_center c) (add_as_unsigned (fst p2) (fst corr)),
                    mod_max (obox_of_center c) (add_as_unsigned (snd p2) (snd corr))) in
      let orig1 := if bl then orig0 else rotate_point orig0 (Z.rem (4 - k) 4) in
      let orig2 := if ind then orig1 else invert_diamond (obox_of_center c) orig1 in
      [fst p0; snd p0; - fst p1; - snd p1; fst p2; snd p2;
       fst orig0; snd orig0; - fst orig0; - snd orig0; fst orig1; snd orig1;
       fst (padd orig2 (c, c)); snd (padd orig2 (c, c))])).
  { intros ind p1 Hp1. cbv zeta.
    assert (Fin : forall p2 (bl : bool) r, csq c p2 ->
      let orig0 := (mod_max (obox_of_center c) (add_as_unsigned (fst p2) (fst corr)),
                    mod_max (obox_of_center c) (add_as_unsigned (snd p2) (snd corr))) in
      let orig1 := if bl then orig0 else rotate_point orig0 r in
      let orig2 := if ind then orig1 else invert_diamond (obox_of_center c) orig1 in
      Forall i32 [fst p0; snd p0; - fst p1; - snd p1; fst p2; snd p2;
       fst orig0; snd orig0; - fst orig0; - snd orig0; fst orig1; snd orig1;
       fst (padd orig2 (c, c)); snd (padd orig2 (c, c))]).
    { intros p2 bl r Hp2. cbv zeta.
      destruct (mod_max_hostile c (add_as_unsigned (fst p2) (fst corr)) Hc (add_as_unsigned_i32 _ _)) as (A1 & A2 & A3 & A4).
      destruct (mod_max_hostile c (add_as_unsigned (snd p2) (snd corr)) Hc (add_as_unsigned_i32 _ _)) as (B1 & B2 & B3 & B4).
      cbv zeta in A1, A2, A3, A4, B1, B2, B3, B4.
      generalize dependent (mod_max (obox_of_center c) (add_as_unsigned (fst p2) (fst corr))). intros m1 A1 A2 A3 A4.
      generalize dependent (mod_max (obox_of_center c) (add_as_unsigned (snd p2) (snd corr))). intros m2 B1 B2 B3 B4.
      assert (Ho1 : forall o1, o1 = (if bl then (m1, m2) else rotate_point (m1, m2) r) ->
                    i32 (fst o1) /\ i32 (snd o1) /\ i32 (fst o1 + c) /\ i32 (snd o1 + c)).
      { intros o1 ->. destruct bl; [cbn [fst snd]; auto|]. unfold rotate_point.
        destruct (r =? 1); [cbn [fst snd]; auto|].
        destruct (r =? 2); [cbn [fst snd]; auto|].
        destruct (r =? 3); cbn [fst snd]; auto. }
      specialize (Ho1 _ eq_refl).
      generalize dependent (if bl then (m1, m2) else rotate_point (m1, m2) r). intros o1 (O1 & O2 & O3 & O4).
      assert (Ho2 : forall o2, o2 = (if ind then o1 else invert_diamond (obox_of_center c) o1) ->
                    i32 (fst o2 + c) /\ i32 (snd o2 + c)).
      { intros o2 ->. destruct ind; [auto|].
        pose proof (invert_diamond_any_range (obox_of_center c) o1). unfold i32, cmax in *. lia. }
      specialize (Ho2 _ eq_refl).
      generalize dependent (if ind then o1 else invert_diamond (obox_of_center c) o1). intros o2 (Q1 & Q2).
      unfold padd. cbn [fst snd]. unfold csq, cmax in *.
      repeat (apply Forall_cons; [first [assumption | unfold i32 in *; lia]|]). apply Forall_nil. }
    destruct (is_in_bottom_left p1).
    - apply (Fin p1 true 0 Hp1).
    - apply (Fin _ false _ (rot_csq c p1 _ Hp1)). }
  destruct (is_in_diamond (obox_of_center c) (fst p0) (snd p0)).
  - apply (S1 true p0 Hp0).
  - apply (S1 false _ (machine_inv_csq c p0 Hc Hp0)).
Qed.
