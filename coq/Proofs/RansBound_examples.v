(** Concrete runs of the model behind the Examples of Properties/Properties_C08.v (compiled once here, restated there). *)
From Coq Require Import FMapPositive.
From Draco Require Import Base.Codec Model.Varint Model.RansSymbol Model.RansFloat Model.SymbolCoding Model.RansBound.
Local Open Scope Z_scope.

(** The hypotheses of C08_write_area_sufficient are satisfiable: [3;1;3;3] at 12 bits, E = 4 = ceil(cross). *)
Lemma example_write_area :
  exists probs st, create_f64 12 (dense (count_syms [3; 1; 3; 3] (PositiveMap.empty Z)) 0 4) = COk probs /\
    ebits_ok 12 probs (dense (count_syms [3; 1; 3; 3] (PositiveMap.empty Z)) 0 4) 4 /\
    rans_encode_syms 12 (arr_of_list (with_cum probs 0)) [3; 1; 3; 3] (rans_write_init 12) = Some st /\
    rans_area_used 12 st = Some 4 /\ rans_reserved 4 = 13.
Proof.
  eexists; eexists. split; [vm_compute; reflexivity|]. split; [unfold ebits_ok; vm_compute; intros H; discriminate H|].
  split; [vm_compute; reflexivity|]. apply conj; vm_compute; reflexivity.
Qed.

(** The theorem separates the two estimates of num_expected_bits_.  99900 x symbol 0 and 100 symbols occurring once,
    12 bits precision: Create gives symbol 0 the probability 3996/4096 and the others 1/4096; the cross entropy
    under that table is 4762.x bits, the encoder writes 585 + 3 bytes and EndEncoding touches 590 bytes of the
    area.  With E = 4763 (the cross entropy, what the library computes) 1203 bytes are reserved and
    [ebits_check] (the model's decision procedure for [ebits_ok]) accepts E.
    The Shannon entropy of the data itself, 99900*log2(100000/99900) + 100*log2(100000) = 1805.2 bits, is below
    2300 (the first conjunct is the 100th root of 100000^100000 <= 2^2300 * 99900^99900); an area sized from any
    E <= 2300 holds at most 587 bytes: three bytes (at E = 1806: 126 bytes) less than what is written, and
    [ebits_check] rejects every such E (it needs E >= 2965). *)
Definition C08_dominated_freqs : list Z := 99900 :: repeat 1 100.
Definition C08_dominated_syms : list Z := map Z.of_nat (seq 1 100) ++ repeat 0 (Z.to_nat 99900).
Definition C08_dominated_probs : list Z :=
  Eval vm_compute in match create_f64 12 C08_dominated_freqs with COk p => p | _ => [] end.
Definition C08_encode_state (P : Z) (probs syms : list Z) : rstate :=
  match rans_encode_syms P (arr_of_list (with_cum probs 0)) syms (rans_write_init P) with
  | Some st => st | None => (0, []) end.
Definition C08_dominated_state : rstate :=
  Eval vm_compute in C08_encode_state 12 C08_dominated_probs C08_dominated_syms.
Lemma example_shannon_estimate_overflows :
  1000 ^ 999 * 100000 <= 2 ^ 23 * 999 ^ 999 /\
  create_f64 12 C08_dominated_freqs = COk C08_dominated_probs /\ nth 0 C08_dominated_probs 0 = 3996 /\
  rans_encode_syms 12 (arr_of_list (with_cum C08_dominated_probs 0)) C08_dominated_syms (rans_write_init 12)
    = Some C08_dominated_state /\
  zlen (snd C08_dominated_state) = 585 /\ rans_area_used 12 C08_dominated_state = Some 590 /\
  rans_reserved 4763 = 1203 /\ ebits_check 12 C08_dominated_probs C08_dominated_freqs 4763 = true /\
  rans_reserved 2300 = 587 /\ rans_reserved 1806 = 464 /\
  ebits_check 12 C08_dominated_probs C08_dominated_freqs 2300 = false /\
  ebits_check 12 C08_dominated_probs C08_dominated_freqs 2964 = false.
Proof.
  split; [vm_compute; intros H; discriminate H|]. repeat (apply conj); vm_compute; reflexivity.
Qed.

(** What the premise of C08_create_succeeds_for_callers_partial excludes.  4097 distinct symbols: from the true count the
    raw scheme derives bit length 13 and 19 bits of precision and Create succeeds; from a count of 0 (the value a
    caller that skips the counting would pass) it derives bit length 1 and 12 bits, 4097 symbols do not fit 4096
    probability slots, and Create returns false (its callers would go on with an unfinished table). *)
Lemma example_create_needs_true_count :
  rans_precision_bits (raw_bit_length 4097 7) = 19 /\ create_ok 19 (repeat 1 (Z.to_nat 4097)) = true /\
  rans_precision_bits (raw_bit_length 0 7) = 12 /\ create_f64 12 (repeat 1 (Z.to_nat 4097)) = CFalse /\
  nused (repeat 1 (Z.to_nat 4097)) = 4097.
Proof. repeat (apply conj); vm_compute; reflexivity. Qed.
