(** Proofs for C09 (Model/Fans.v). *)
From Coq Require Import List ZArith Lia Bool Arith.
From Draco Require Import Model.Fans.
Import ListNotations.
Local Open Scope Z_scope.

(* ------------------------------------------------------------------------------------ *)
(** * Basics *)

Lemma oz_eqb_eq a b : oz_eqb a b = true <-> a = b.
Proof.
  destruct a, b; simpl; split; intros H; try discriminate; try reflexivity.
  - apply Z.eqb_eq in H. now subst.
  - inversion H. apply Z.eqb_refl.
Qed.

Lemma att_neq_false i c p : att_neq i c p = false <-> att i c = att i p.
Proof.
  unfold att_neq. rewrite negb_false_iff. apply oz_eqb_eq.
Qed.

Lemma att_neq_true i c p : att_neq i c p = true <-> att i c <> att i p.
Proof.
  unfold att_neq. rewrite negb_true_iff. rewrite <- not_true_iff_false, oz_eqb_eq. tauto.
Qed.

Lemma enc_att_differs_spec used : forall i c p,
  enc_att_differs i used c p = true <->
  exists j, nth_error used j = Some true /\ att_neq (i + j) c p = true.
Proof.
  induction used as [|u r IH]; intros i c p; simpl.
  - split; [discriminate|]. intros [j [H _]]. destruct j; discriminate.
  - destruct (u && att_neq i c p) eqn:E.
    + split; [|reflexivity]. intros _. apply andb_true_iff in E. destruct E as [-> E].
      exists O. rewrite Nat.add_0_r. auto.
    + rewrite IH. split.
      * intros [j [H1 H2]]. exists (S j). simpl. rewrite Nat.add_succ_r. auto.
      * intros [j [H1 H2]]. destruct j as [|j].
        -- simpl in H1. inversion H1; subst. rewrite Nat.add_0_r in H2. rewrite H2 in E. discriminate.
        -- exists j. simpl in H1. rewrite Nat.add_succ_r in H2. auto.
Qed.

Lemma dec_att_differs_spec n : forall i c p,
  dec_att_differs i n c p = true <-> exists j, (j < n)%nat /\ att_neq (i + j) c p = true.
Proof.
  induction n as [|n IH]; intros i c p; simpl.
  - split; [discriminate|]. intros [j [H _]]. lia.
  - destruct (att_neq i c p) eqn:E.
    + split; [|reflexivity]. intros _. exists O. rewrite Nat.add_0_r. split; [lia|auto].
    + rewrite IH. split.
      * intros [j [H1 H2]]. exists (S j). rewrite Nat.add_succ_r. split; [lia|auto].
      * intros [j [H1 H2]]. destruct j as [|j].
        -- rewrite Nat.add_0_r in H2. congruence.
        -- exists j. rewrite Nat.add_succ_r in H2. split; [lia|auto].
Qed.

(** number of positions of a walk at which [d corner previous] holds *)
Fixpoint count (d : corner -> corner -> bool) (prev : corner) (cs : list corner) : Z :=
  match cs with
  | [] => 0
  | c :: r => (if d c prev then 1 else 0) + count d c r
  end.

Lemma count_nonneg d : forall cs prev, 0 <= count d prev cs.
Proof. induction cs; intros; simpl; [lia|]. specialize (IHcs a). destruct (d a prev); lia. Qed.

Lemma count_ext d1 d2 : forall cs prev,
  (forall p c, In (p, c) (pairs prev cs) -> d1 c p = d2 c p) -> count d1 prev cs = count d2 prev cs.
Proof.
  induction cs as [|c r IH]; intros prev H; simpl; [reflexivity|].
  rewrite (H prev c) by (simpl; auto). rewrite (IH c); [reflexivity|].
  intros p c' Hin. apply H. simpl. auto.
Qed.

Lemma count_app d : forall l1 prev x l2,
  count d prev (l1 ++ x :: l2) = count d prev (l1 ++ [x]) + count d x l2.
Proof.
  induction l1 as [|a l1 IH]; intros; simpl.
  - lia.
  - rewrite IH. lia.
Qed.

Lemma pairs_in : forall cs prev p c, In (p, c) (pairs prev cs) -> In p (prev :: cs) /\ In c cs.
Proof.
  induction cs as [|a r IH]; intros prev p c H; simpl in *; [tauto|].
  destruct H as [H|H].
  - inversion H; subst. auto.
  - apply IH in H. destruct H as [H1 H2]. simpl in H1. tauto.
Qed.

Definition ediff (used : list bool) (c p : corner) : bool :=
  negb (c_pid c =? c_pid p) || enc_att_differs 0 used c p.

Lemma enc_walk_with_shortcut_count used : forall cs last s,
  enc_walk_with_shortcut used (c_pid last) last cs s = s + count (ediff used) last cs.
Proof.
  induction cs as [|c r IH]; intros last s; cbn [enc_walk_with_shortcut count]; [lia|].
  unfold ediff at 1. destruct (c_pid c =? c_pid last) eqn:E; cbn [negb orb].
  - apply Z.eqb_eq in E. rewrite <- E. rewrite IH.
    destruct (enc_att_differs 0 used c last); lia.
  - rewrite IH. lia.
Qed.

Lemma enc_walk_count used : forall cs last s,
  enc_walk used last cs s = s + count (enc_att_differs 0 used) last cs.
Proof.
  induction cs as [|c r IH]; intros last s; simpl; [lia|].
  rewrite IH. destruct (enc_att_differs 0 used c last); lia.
Qed.

Lemma dec_walk_count na : forall cs prev s,
  dec_walk na prev cs s = s + count (dec_att_differs 0 na) prev cs.
Proof.
  induction cs as [|c r IH]; intros prev s; simpl; [lia|].
  rewrite IH. destruct (dec_att_differs 0 na c prev); lia.
Qed.

(** all corners of a walk agree with [x] on every attribute below [na]: nothing is counted *)
Lemma count_const na x : forall cs prev,
  (forall c, In c (prev :: cs) -> forall j, (j < na)%nat -> att j c = att j x) ->
  count (dec_att_differs 0 na) prev cs = 0.
Proof.
  induction cs as [|c r IH]; intros prev H; simpl; [reflexivity|].
  rewrite IH by (intros c' Hc'; apply H; simpl in *; tauto).
  destruct (dec_att_differs 0 na c prev) eqn:E; [|reflexivity].
  apply dec_att_differs_spec in E. destruct E as [j [Hj E]]. simpl in E.
  apply att_neq_true in E. exfalso. apply E.
  rewrite (H c) by (simpl; auto || lia); try lia.
  rewrite (H prev) by (simpl; auto || lia); try lia. reflexivity.
Qed.

(** a run of corners on which attribute [i] keeps the value [v], followed by a corner where it differs *)
Lemma count_run na i v d0 : (i < na)%nat -> att i d0 <> v -> forall b prev,
  att i prev = v -> (forall c, In c b -> att i c = v) ->
  count (dec_att_differs 0 na) prev (b ++ [d0]) = count (dec_att_differs 0 na) prev b + 1.
Proof.
  intros Hi Hd. induction b as [|c r IH]; intros prev Hp Hb; simpl.
  - assert (E : dec_att_differs 0 na d0 prev = true).
    { apply dec_att_differs_spec. exists i. split; [lia|]. simpl. apply att_neq_true. congruence. }
    rewrite E. lia.
  - rewrite (IH c); [lia| |]; [apply Hb; simpl; auto | intros; apply Hb; simpl; auto].
Qed.

(* ------------------------------------------------------------------------------------ *)
(** * The decoder's choice of the first corner *)

Lemma split_at_diff_spec i v : forall cs b d a,
  split_at_diff i v cs = Some (b, d, a) ->
  cs = b ++ d :: a /\ (forall c, In c b -> att i c = v) /\ att i d <> v.
Proof.
  induction cs as [|c r IH]; intros b d a H; simpl in H; [discriminate|].
  destruct (negb (oz_eqb (att i c) v)) eqn:E.
  - inversion H; subst. split; [reflexivity|]. split; [intros ? []|].
    apply negb_true_iff in E. intros Heq. apply oz_eqb_eq in Heq. congruence.
  - destruct (split_at_diff i v r) as [[[b' d'] a']|] eqn:S; [|discriminate].
    inversion H; subst. destruct (IH _ _ _ eq_refl) as [H1 [H2 H3]]. subst r.
    split; [reflexivity|]. split; [|assumption].
    intros c' [<-|Hin]; [|auto]. apply negb_false_iff in E. now apply oz_eqb_eq in E.
Qed.

Lemma split_at_diff_none i v : forall cs,
  split_at_diff i v cs = None -> forall c, In c cs -> att i c = v.
Proof.
  induction cs as [|c r IH]; intros H c' Hin; simpl in *; [tauto|].
  destruct (negb (oz_eqb (att i c) v)) eqn:E; [discriminate|].
  destruct (split_at_diff i v r) as [[[b' d'] a']|] eqn:S; [discriminate|].
  destruct Hin as [<-|Hin]; [|auto].
  apply negb_false_iff in E. now apply oz_eqb_eq in E.
Qed.

Lemma dedup_first_spec c0 rest : forall flags i0 d others,
  dedup_first i0 flags c0 rest = (d, others) ->
  (d = c0 /\ others = rest /\
   forall j, nth_error flags j = Some true -> forall c, In c rest -> att (i0 + j) c = att (i0 + j) c0)
  \/
  (exists j b a, (j < length flags)%nat /\ rest = b ++ d :: a /\ others = a ++ c0 :: b /\
     (forall c, In c b -> att (i0 + j) c = att (i0 + j) c0) /\ att (i0 + j) d <> att (i0 + j) c0).
Proof.
  induction flags as [|fl fls IH]; intros i0 d others H; simpl in H.
  - inversion H; subst. left. split; [reflexivity|]. split; [reflexivity|].
    intros j Hj. destruct j; discriminate.
  - match goal with |- ?G =>
      assert (Hrec : dedup_first (S i0) fls c0 rest = (d, others) ->
              (fl = false \/ forall c, In c rest -> att i0 c = att i0 c0) -> G) end.
    { intros Hr Hfl. destruct (IH _ _ _ Hr) as [[H1 [H2 H3]]|[j [b [a [H1 [H2 [H3 [H4 H5]]]]]]]].
      - left. split; [assumption|]. split; [assumption|].
        intros j Hj c Hc. destruct j as [|j].
        + simpl in Hj. inversion Hj; subst. rewrite Nat.add_0_r. destruct Hfl as [?|Hfl]; [discriminate|auto].
        + rewrite Nat.add_succ_r. apply (H3 j); auto.
      - right. exists (S j), b, a. rewrite Nat.add_succ_r. simpl. repeat split; auto; lia. }
    destruct fl.
    + destruct (split_at_diff i0 (att i0 c0) rest) as [[[b d'] a]|] eqn:S.
      * inversion H; subst. apply split_at_diff_spec in S. destruct S as [S1 [S2 S3]].
        right. exists O, b, a. rewrite Nat.add_0_r. simpl. repeat split; auto; lia.
      * apply Hrec; [assumption|]. right. apply split_at_diff_none. assumption.
    + apply Hrec; [assumption|]. left. reflexivity.
Qed.

(* ------------------------------------------------------------------------------------ *)
(** * One vertex *)

(** the local facts the agreement needs about one fan *)
Record fan_ok (used : list bool) (f : vfan) : Prop := {
  fo_len   : length (v_onseam f) = length used;
  fo_flag  : v_open f = false -> forall i, nth_error (v_onseam f) i = Some false -> att_const i f;
  fo_unused: forall i, nth_error used i = Some false -> att_const i f
}.

Lemma att_const_all i f : att_const i f -> forall c, In c (all_corners f) -> att i c = att i (v_first f).
Proof.
  intros H c [<-|Hin]; [reflexivity|]. apply att_neq_false. now apply H.
Qed.

Lemma visit_in f c : In c (visit f) -> In c (all_corners f).
Proof.
  unfold visit, all_corners. destruct (v_open f); simpl; [tauto|].
  rewrite in_app_iff. simpl. tauto.
Qed.

Lemma adj_in f p c : In (p, c) (adj f) -> In p (all_corners f) /\ In c (all_corners f).
Proof.
  unfold adj. intros H. apply pairs_in in H. destruct H as [H1 H2]. split.
  - destruct H1 as [<-|H1]; [left; reflexivity|]. now apply visit_in.
  - now apply visit_in.
Qed.

(** with the tables of unused attributes constant on the fan, the encoder's attribute test is the decoder's *)
Lemma enc_dec_att_differs used f : fan_ok used f -> forall p c, In (p, c) (adj f) ->
  enc_att_differs 0 used c p = dec_att_differs 0 (length used) c p.
Proof.
  intros Hok p c Hin. apply eq_true_iff_eq.
  rewrite enc_att_differs_spec, dec_att_differs_spec. split.
  - intros [j [H1 H2]]. exists j. split; [|assumption].
    apply nth_error_Some. congruence.
  - intros [j [H1 H2]]. exists j. split; [|assumption].
    destruct (nth_error used j) as [[|]|] eqn:E.
    + reflexivity.
    + exfalso. simpl in H2. apply att_neq_true in H2. apply H2.
      destruct (adj_in _ _ _ Hin) as [Hp Hc].
      pose proof (fo_unused _ _ Hok j E) as Hconst.
      rewrite (att_const_all _ _ Hconst c Hc), (att_const_all _ _ Hconst p Hp). reflexivity.
    + apply nth_error_None in E. lia.
Qed.

Definition fan_dedup (na : nat) (f : vfan) : Prop :=
  forall p c, In (p, c) (adj f) -> c_pid c <> c_pid p -> dec_att_differs 0 na c p = true.

Lemma ediff_adiff used f : fan_ok used f -> fan_dedup (length used) f ->
  forall p c, In (p, c) (adj f) -> ediff used c p = dec_att_differs 0 (length used) c p.
Proof.
  intros Hok Hd p c Hin. unfold ediff. rewrite (enc_dec_att_differs used f Hok p c Hin).
  destruct (c_pid c =? c_pid p) eqn:E; simpl; [reflexivity|].
  apply Z.eqb_neq in E. symmetry. now apply Hd.
Qed.

(** the closed-fan core: given that the walks count the same relation [adiff] *)
Lemma closed_fan_core used f :
  fan_ok used f -> v_open f = false ->
  let na := length used in
  let S := count (dec_att_differs 0 na) (v_first f) (v_rest f ++ [v_first f]) in
  1 + (if 0 <? S then S - 1 else S) = dec_vertex na f.
Proof.
  intros Hok Hopen na S. unfold dec_vertex. rewrite Hopen.
  destruct (dedup_first 0 (v_onseam f) (v_first f) (v_rest f)) as [d others] eqn:D.
  rewrite dec_walk_count.
  destruct (dedup_first_spec _ _ _ _ _ _ D) as [[H1 [H2 H3]]|[j [b [a [H1 [H2 [H3 [H4 H5]]]]]]]].
  - (* no attribute changes its vertex on this fan *)
    subst d others.
    assert (Hall : forall c, In c (all_corners f) -> forall j, (j < na)%nat -> att j c = att j (v_first f)).
    { intros c Hc j Hj. destruct Hc as [<-|Hc]; [reflexivity|].
      destruct (nth_error (v_onseam f) j) as [[|]|] eqn:E.
      - apply (H3 j E c Hc).
      - apply att_neq_false. apply (fo_flag _ _ Hok Hopen j E c Hc).
      - apply nth_error_None in E. rewrite (fo_len _ _ Hok) in E. unfold na in Hj. lia. }
    assert (S0 : S = 0).
    { unfold S. apply (count_const na (v_first f)). intros c Hc. apply Hall.
      unfold all_corners. simpl in Hc. rewrite in_app_iff in Hc. simpl in Hc. simpl. tauto. }
    rewrite S0. simpl.
    rewrite (count_const na (v_first f)); [reflexivity|]. intros c Hc. apply Hall. exact Hc.
  - (* attribute j changes its vertex first at corner d *)
    simpl in H4, H5.
    assert (Hj : (j < na)%nat) by (unfold na; rewrite <- (fo_len _ _ Hok); exact H1).
    assert (S1 : S = count (dec_att_differs 0 na) d others + 1).
    { unfold S. rewrite H2, H3. rewrite <- app_assoc. simpl.
      rewrite (count_app _ b (v_first f) d (a ++ [v_first f])).
      rewrite (count_app _ a d (v_first f) b).
      rewrite (count_run na j (att j (v_first f)) d Hj H5 b (v_first f) eq_refl H4). lia. }
    pose proof (count_nonneg (dec_att_differs 0 na) others d) as Hnn.
    rewrite S1. destruct (0 <? count (dec_att_differs 0 na) d others + 1) eqn:E.
    + lia.
    + apply Z.ltb_ge in E. lia.
Qed.

Lemma vertex_agree_with_shortcut used f : fan_ok used f -> fan_dedup (length used) f ->
  1 + enc_vertex_with_shortcut used f = dec_vertex (length used) f.
Proof.
  intros Hok Hd. unfold enc_vertex_with_shortcut. rewrite enc_walk_with_shortcut_count. rewrite Z.add_0_l.
  rewrite (count_ext (ediff used) (dec_att_differs 0 (length used)))
    by (intros p c Hin; apply (ediff_adiff used f Hok Hd); exact Hin).
  destruct (v_open f) eqn:Hopen.
  - simpl. unfold dec_vertex, visit. rewrite Hopen. rewrite dec_walk_count. reflexivity.
  - simpl negb. rewrite andb_true_l. unfold visit. rewrite Hopen.
    apply (closed_fan_core used f Hok Hopen).
Qed.

Lemma vertex_agree used f : fan_ok used f ->
  1 + enc_vertex used f = dec_vertex (length used) f.
Proof.
  intros Hok. unfold enc_vertex. rewrite enc_walk_count. rewrite Z.add_0_l.
  rewrite (count_ext (enc_att_differs 0 used) (dec_att_differs 0 (length used)))
    by (intros p c Hin; apply (enc_dec_att_differs used f Hok); exact Hin).
  destruct (v_open f) eqn:Hopen.
  - simpl. unfold dec_vertex, visit. rewrite Hopen. rewrite dec_walk_count. reflexivity.
  - simpl negb. rewrite andb_true_l. unfold visit. rewrite Hopen.
    apply (closed_fan_core used f Hok Hopen).
Qed.

(* ------------------------------------------------------------------------------------ *)
(** * The whole mesh *)

Lemma sum_fans_cons g v vs :
  sum_fans g (v :: vs) = match v with None => 0 | Some x => g x end + sum_fans g vs.
Proof. reflexivity. Qed.

Lemma sum_fans_base g : forall vs,
  Z.of_nat (length vs) - count_isolated vs + sum_fans g vs = sum_fans (fun f => 1 + g f) vs.
Proof.
  induction vs as [|v vs IH]; [reflexivity|].
  rewrite !sum_fans_cons. unfold count_isolated in *.
  destruct v; cbn [filter is_isolated length] in *; lia.
Qed.

Lemma sum_fans_ext g h : forall vs, (forall f, In (Some f) vs -> g f = h f) -> sum_fans g vs = sum_fans h vs.
Proof.
  induction vs as [|v vs IH]; intros H; [reflexivity|].
  rewrite !sum_fans_cons. rewrite IH by (intros; apply H; simpl; auto).
  destruct v; [rewrite (H v) by (simpl; auto)|]; reflexivity.
Qed.

Lemma sum_fans_zero : forall vs, sum_fans (fun _ => 0) vs = 0.
Proof.
  induction vs as [|v vs IH]; [reflexivity|]. rewrite sum_fans_cons, IH. destruct v; reflexivity.
Qed.

Lemma base_is_sum_ones vs :
  Z.of_nat (length vs) - count_isolated vs = sum_fans (fun _ => 1) vs.
Proof.
  rewrite <- (Z.add_0_r (_ - _)). rewrite <- (sum_fans_zero vs). rewrite sum_fans_base.
  apply sum_fans_ext. intros; reflexivity.
Qed.

Lemma dec_vertex_0 f : dec_vertex 0 f = 1.
Proof.
  unfold dec_vertex.
  destruct (if v_open f then _ else _) as [d others].
  rewrite dec_walk_count. rewrite (count_const 0 d); [reflexivity|]. intros; lia.
Qed.

Lemma dec_points_sum m : dec_points m = sum_fans (dec_vertex (num_att m)) (m_verts m).
Proof.
  unfold dec_points. destruct (num_att m) eqn:E; [|reflexivity].
  rewrite base_is_sum_ones. apply sum_fans_ext. intros f _. rewrite dec_vertex_0. reflexivity.
Qed.

Lemma labels_wf_fan_ok m : labels_wf m -> forall f, In (Some f) (m_verts m) -> fan_ok (m_used m) f.
Proof.
  intros [W1 [W2 [W3 W4]]] f Hf. constructor.
  - apply W2. assumption.
  - intros Ho i Hi. apply (W3 f Hf Ho i Hi).
  - intros i Hi. apply (W4 i Hi f Hf).
Qed.

Lemma fan_count_agree_with_shortcut m : labels_wf m -> dedup_ok m -> enc_count_with_shortcut m = dec_points m.
Proof.
  intros Hwf Hd. rewrite dec_points_sum. unfold enc_count_with_shortcut.
  destruct (m_multi m) eqn:Hm.
  - rewrite sum_fans_base. apply sum_fans_ext. intros f Hf.
    apply vertex_agree_with_shortcut; [apply (labels_wf_fan_ok m Hwf f Hf)|]. intros p c. apply (Hd f Hf).
  - destruct Hwf as [W1 _]. unfold num_att. rewrite (W1 Hm). simpl length.
    rewrite base_is_sum_ones. apply sum_fans_ext. intros f _. rewrite dec_vertex_0. reflexivity.
Qed.

Lemma fan_count_agree m : labels_wf m -> enc_count m = dec_points m.
Proof.
  intros Hwf. rewrite dec_points_sum. unfold enc_count.
  destruct (m_multi m) eqn:Hm.
  - rewrite sum_fans_base. apply sum_fans_ext. intros f Hf.
    apply vertex_agree. apply (labels_wf_fan_ok m Hwf f Hf).
  - destruct Hwf as [W1 _]. unfold num_att. rewrite (W1 Hm). simpl length.
    rewrite base_is_sum_ones. apply sum_fans_ext. intros f _. rewrite dec_vertex_0. reflexivity.
Qed.

(* ------------------------------------------------------------------------------------ *)
(** * The executable checks are sound *)

Lemma on_fans_spec P vs : on_fans P vs = true -> forall f, In (Some f) vs -> P f = true.
Proof.
  unfold on_fans. rewrite forallb_forall. intros H f Hf. apply (H (Some f) Hf).
Qed.

Lemma forall_false_idx_spec P : forall l i0,
  forall_false_idx i0 l P = true -> forall j, nth_error l j = Some false -> P (i0 + j)%nat = true.
Proof.
  induction l as [|b r IH]; intros i0 H j Hj; [destruct j; discriminate|].
  simpl in H. apply andb_true_iff in H. destruct H as [H1 H2]. destruct j as [|j].
  - simpl in Hj. inversion Hj; subst. simpl in H1. now rewrite Nat.add_0_r.
  - simpl in Hj. rewrite Nat.add_succ_r. apply (IH (S i0) H2 j Hj).
Qed.

Lemma att_constb_spec i f : att_constb i f = true -> att_const i f.
Proof.
  unfold att_constb, att_const. rewrite forallb_forall. intros H c Hc.
  apply negb_true_iff. now apply H.
Qed.

Lemma labels_wfb_sound m : labels_wfb m = true -> labels_wf m.
Proof.
  unfold labels_wfb. rewrite !andb_true_iff. intros [[[H1 H2] H3] H4].
  split; [|split; [|split]].
  - intros Hm. rewrite Hm in H1. simpl in H1. destruct (m_used m); [reflexivity|discriminate].
  - intros f Hf. apply Nat.eqb_eq. apply (on_fans_spec _ _ H2 f Hf).
  - intros f Hf Ho i Hi. pose proof (on_fans_spec _ _ H3 f Hf) as H. simpl in H.
    rewrite Ho in H. simpl in H. apply att_constb_spec.
    apply (forall_false_idx_spec _ _ 0%nat H i Hi).
  - intros i Hi f Hf. apply att_constb_spec.
    pose proof (forall_false_idx_spec _ _ 0%nat H4 i Hi) as H. simpl in H.
    apply (on_fans_spec _ _ H f Hf).
Qed.

Lemma dedup_okb_sound m : dedup_okb m = true -> dedup_ok m.
Proof.
  unfold dedup_okb, dedup_ok. intros H f Hf p c Hin Hne.
  pose proof (on_fans_spec _ _ H f Hf) as H'. simpl in H'. rewrite forallb_forall in H'.
  specialize (H' (p, c) Hin). simpl in H'. apply orb_true_iff in H'. destruct H' as [H'|H']; [|exact H'].
  apply Z.eqb_eq in H'. contradiction.
Qed.

(* ------------------------------------------------------------------------------------ *)
(** * D5 (fixed by 5df4cb2): with the point-id shortcut and without [dedup_ok] the counts differ *)

(** Two triangles (v0,v1,v2), (v2,v1,v3) built with one point per corner (point ids 0..5) and
    one non-position attribute whose value is shared by all points: no attribute seam, the
    attribute corner table has one vertex per corner-table vertex. *)
Definition d5_mesh : cmesh :=
  mkMesh true [false]
    [ Some (mkFan true (mkCorner 0 [0]) [] [true]);
      Some (mkFan true (mkCorner 4 [1]) [mkCorner 1 [1]] [true]);
      Some (mkFan true (mkCorner 2 [2]) [mkCorner 3 [2]] [true]);
      Some (mkFan true (mkCorner 5 [3]) [] [true]) ].

Lemma shortcut_variant_refuted :
  exists m, labels_wf m /\ enc_count_with_shortcut m = 6 /\ dec_points m = 4 /\ enc_count m = 4.
Proof.
  exists d5_mesh. split; [apply labels_wfb_sound; vm_compute; reflexivity|].
  vm_compute. repeat split; reflexivity.
Qed.

(** [dedup_ok] is exactly what the witness lacks. *)
Lemma d5_not_dedup : dedup_okb d5_mesh = false.
Proof. vm_compute. reflexivity. Qed.

(* ------------------------------------------------------------------------------------ *)
(** * Faces, sequential coder, point clouds *)

Lemma filter_length_compl {A} (p : A -> bool) : forall l,
  (length (filter p l) + length (filter (fun x => negb (p x)) l) = length l)%nat.
Proof.
  induction l as [|a l IH]; [reflexivity|]. simpl. destruct (p a); simpl; lia.
Qed.

Lemma faces_agree fs :
  eb_reported_faces fs = Z.of_nat (length (filter (fun f => negb (degenerate f)) fs)) /\
  eb_decoded_faces (eb_written_faces fs) = eb_reported_faces fs.
Proof.
  split; [|reflexivity]. unfold eb_reported_faces, num_degenerated.
  pose proof (filter_length_compl degenerate fs). lia.
Qed.

Lemma seq_counts_agree np nf :
  seq_mesh_decoded (seq_mesh_header np nf) = seq_mesh_reported np nf /\ seq_mesh_reported np nf = (np, nf).
Proof. split; reflexivity. Qed.

Lemma pc_counts_agree np : pc_decoded (pc_header np) = pc_reported np /\ pc_reported np = (np, 0).
Proof. split; reflexivity. Qed.

Lemma api_reports_inner inner : api_reported true inner = inner.
Proof. reflexivity. Qed.

(* ------------------------------------------------------------------------------------ *)
(** * RecomputeVertices produces well-formed labels *)

Definition all_eq (x : Z) (l : list Z) : Prop := forall y, In y l -> y = x.
Definition no_seam (es : list bool) : Prop := existsb (fun e => e) es = false.
(** number of corners of the fan described by the edge flags *)
Definition ncorners (f : afan) : nat := if a_open f then S (length (a_edges f)) else length (a_edges f).
(** a closed fan has at least one corner, hence at least one edge *)
Definition afan_wf (f : afan) : Prop := a_open f = false -> a_edges f <> [].

Lemma assign_ids_no_seam : forall es cur next, no_seam es ->
  assign_ids cur next es = (repeat cur (length es), next).
Proof.
  unfold no_seam. induction es as [|e r IH]; intros cur next H; [reflexivity|].
  simpl in H. apply orb_false_iff in H. destruct H as [-> H]. simpl. rewrite (IH cur next H). reflexivity.
Qed.

Lemma assign_ids_length : forall es cur next l nx, assign_ids cur next es = (l, nx) -> length l = length es.
Proof.
  induction es as [|e r IH]; intros cur next l nx H; simpl in H.
  - inversion H. reflexivity.
  - destruct (assign_ids (if e then next else cur) (if e then next + 1 else next) r) as [l' nx'] eqn:E.
    inversion H; subst. simpl. f_equal. eapply IH. exact E.
Qed.

Lemma no_seam_removelast : forall es, no_seam es -> no_seam (removelast es).
Proof.
  unfold no_seam. induction es as [|e r IH]; intros H; [reflexivity|].
  simpl in H. apply orb_false_iff in H. destruct H as [-> H].
  destruct r as [|e' r']; [reflexivity|]. change (removelast (false :: e' :: r')) with (false :: removelast (e' :: r')).
  simpl existsb at 1. apply IH. exact H.
Qed.

Lemma no_seam_rev es : no_seam es -> no_seam (rev es).
Proof.
  unfold no_seam. intros H. apply not_true_iff_false. intros C. apply existsb_exists in C.
  destruct C as [x [Hin Hx]]. apply in_rev in Hin.
  assert (existsb (fun e => e) es = true) by (apply existsb_exists; eauto). congruence.
Qed.

Lemma swing_left_no_seam : forall r, no_seam r -> swing_left_steps r = None.
Proof.
  unfold no_seam. induction r as [|e r IH]; intros H; [reflexivity|].
  simpl in H. apply orb_false_iff in H. destruct H as [-> H]. simpl. rewrite (IH H). reflexivity.
Qed.

Lemma swing_left_some_nonempty : forall r s, swing_left_steps r = Some s -> (s < length r)%nat.
Proof.
  induction r as [|e r IH]; intros s H; simpl in H; [discriminate|].
  destruct e; [inversion H; simpl; lia|].
  destruct (swing_left_steps r) eqn:E; [|discriminate]. inversion H; subst. specialize (IH _ eq_refl). simpl. lia.
Qed.

Lemma all_eq_repeat x n : all_eq x (x :: repeat x n).
Proof. intros y [<-|H]; [reflexivity|]. eapply repeat_spec. exact H. Qed.

Lemma rotl_length {A} k (l : list A) : length (rotl k l) = length l.
Proof.
  unfold rotl. rewrite app_length, skipn_length, firstn_length. lia.
Qed.

Lemma removelast_length {A} (l : list A) : length (removelast l) = (length l - 1)%nat.
Proof.
  induction l as [|a l IH]; [reflexivity|]. destruct l as [|b l]; [reflexivity|].
  change (removelast (a :: b :: l)) with (a :: removelast (b :: l)). simpl length in *. lia.
Qed.

(** no seam edge on the fan: one attribute vertex for all its corners *)
Lemma recompute_fan_const flag f next ids nx :
  no_seam (a_edges f) -> recompute_fan flag f next = Some (ids, nx) -> all_eq next ids.
Proof.
  intros Hns H. unfold recompute_fan in H. destruct (a_open f).
  - rewrite (assign_ids_no_seam _ _ _ Hns) in H. inversion H; subst. apply all_eq_repeat.
  - destruct flag.
    + rewrite (swing_left_no_seam _ (no_seam_rev _ Hns)) in H. discriminate.
    + rewrite (assign_ids_no_seam _ _ _ (no_seam_removelast _ Hns)) in H. inversion H; subst. apply all_eq_repeat.
Qed.

(** one attribute vertex id per corner *)
Lemma recompute_fan_length flag f next ids nx :
  afan_wf f -> recompute_fan flag f next = Some (ids, nx) -> length ids = ncorners f.
Proof.
  intros Hwf H. unfold recompute_fan, ncorners in *. destruct (a_open f) eqn:Ho.
  - destruct (assign_ids next (next + 1) (a_edges f)) as [l nx'] eqn:E. inversion H; subst.
    simpl. f_equal. eapply assign_ids_length. exact E.
  - assert (Hne : (1 <= length (a_edges f))%nat).
    { destruct (a_edges f) eqn:E; [exfalso; apply (Hwf Ho); exact E | simpl; lia]. }
    destruct flag.
    + destruct (swing_left_steps (rev (a_edges f))) as [s|] eqn:S; [|discriminate].
      set (n := length (a_edges f)) in *. set (k := ((n - s) mod n)%nat) in *.
      destruct (assign_ids next (next + 1) (removelast (rotl k (a_edges f)))) as [l nx'] eqn:E.
      inversion H; subst. rewrite rotl_length. simpl. apply assign_ids_length in E.
      rewrite E, removelast_length, rotl_length. fold n. lia.
    + destruct (assign_ids next (next + 1) (removelast (a_edges f))) as [l nx'] eqn:E.
      inversion H; subst. simpl. apply assign_ids_length in E. rewrite E, removelast_length. lia.
Qed.

(** what one entry of the recomputed table satisfies *)
Definition entry_ok (v : option afan) (r : option (bool * list Z)) : Prop :=
  match v, r with
  | None, None => True
  | Some f, Some (fl, ids) =>
    fl = on_seam f /\
    (afan_wf f -> length ids = ncorners f) /\
    (no_seam (a_edges f) -> exists x, all_eq x ids)
  | _, _ => False
  end.

Lemma recompute_table_ok : forall vs next t nx,
  recompute_table vs next = Some (t, nx) -> Forall2 entry_ok vs t.
Proof.
  induction vs as [|v vs IH]; intros next t nx H; simpl in H.
  - inversion H. constructor.
  - destruct v as [f|].
    + destruct (recompute_fan (on_seam f) f next) as [[ids nx1]|] eqn:F; [|discriminate].
      destruct (recompute_table vs nx1) as [[t' nx2]|] eqn:T; [|discriminate].
      inversion H; subst. constructor; [|eapply IH; exact T].
      simpl. split; [reflexivity|]. split.
      * intros Hwf. eapply recompute_fan_length; eauto.
      * intros Hns. exists next. eapply recompute_fan_const; eauto.
    + destruct (recompute_table vs next) as [[t' nx2]|] eqn:T; [|discriminate].
      inversion H; subst. constructor; [exact I|eapply IH; exact T].
Qed.

(** an interior vertex whose attribute table has more than one vertex there is flagged on-seam *)
Lemma recompute_labels_wf vs next t nx :
  recompute_table vs next = Some (t, nx) ->
  Forall2 (fun v r => match v, r with
                      | Some f, Some (fl, ids) => a_open f = false -> fl = false -> exists x, all_eq x ids
                      | None, None => True
                      | _, _ => False
                      end) vs t.
Proof.
  intros H. apply recompute_table_ok in H. induction H as [|v r vs' t' Hvr _ IH]; constructor; [|exact IH].
  destruct v as [f|], r as [[fl ids]|]; simpl in *; try tauto.
  destruct Hvr as [Hfl [_ Hc]]. intros Ho Hf. apply Hc. subst fl. unfold on_seam in Hf.
  apply orb_false_iff in Hf. apply Hf.
Qed.

(** the labelling of attribute [i] in a [cmesh] is the one in table [t] built over the shapes [vs] *)
Definition fan_labelled (i : nat) (v : option vfan) (a : option afan) (r : option (bool * list Z)) : Prop :=
  match v, a, r with
  | None, None, None => True
  | Some f, Some af, Some (fl, ids) =>
    v_open f = a_open af /\ nth_error (v_onseam f) i = Some fl /\ map (att i) (all_corners f) = map Some ids
  | _, _, _ => False
  end.

Inductive Forall3 {A B C} (R : A -> B -> C -> Prop) : list A -> list B -> list C -> Prop :=
| Forall3_nil : Forall3 R [] [] []
| Forall3_cons a b c la lb lc : R a b c -> Forall3 R la lb lc -> Forall3 R (a :: la) (b :: lb) (c :: lc).

Lemma Forall3_In {A B C} (R : A -> B -> C -> Prop) (Q : B -> C -> Prop) la lb lc :
  Forall3 R la lb lc -> Forall2 Q lb lc -> forall a, In a la ->
  exists b c, In b lb /\ R a b c /\ Q b c.
Proof.
  induction 1 as [|a b c la lb lc Hr _ IH]; intros HQ x Hin; [destruct Hin|].
  inversion HQ; subst. destruct Hin as [<-|Hin].
  - exists b, c. simpl. auto.
  - match goal with HF : Forall2 Q lb lc |- _ => destruct (IH HF x Hin) as [b' [c' [Hb Hrest]]] end.
    exists b', c'. simpl. auto.
Qed.

Lemma labelled_const i f ids x :
  map (att i) (all_corners f) = map Some ids -> all_eq x ids -> att_const i f.
Proof.
  intros Hm He.
  assert (forall c, In c (all_corners f) -> att i c = Some x).
  { intros c Hc. apply (in_map (att i)) in Hc. rewrite Hm in Hc. apply in_map_iff in Hc.
    destruct Hc as [y [Hy Hin]]. rewrite <- Hy. f_equal. apply He. exact Hin. }
  intros c Hc. apply att_neq_false. rewrite (H c) by (right; exact Hc). rewrite (H (v_first f)) by (left; reflexivity).
  reflexivity.
Qed.

(** [labels_wf] holds of every mesh whose attribute labels are the ones RecomputeVertices
    computes (from arbitrary seam-edge flags), when "connectivity not used" is decided as the
    encoder decides it (no_interior_seams). *)
Lemma attr_table_labels_wf m :
  (m_multi m = false -> m_used m = []) ->
  (forall f, In (Some f) (m_verts m) -> length (v_onseam f) = num_att m) ->
  (forall i, (i < num_att m)%nat -> exists vs next t nx,
       recompute_table vs next = Some (t, nx) /\
       Forall3 (fan_labelled i) (m_verts m) vs t /\
       (nth_error (m_used m) i = Some false -> no_interior_seams vs = true)) ->
  labels_wf m.
Proof.
  intros H1 H2 H3. split; [exact H1|]. split; [exact H2|]. split.
  - intros f Hf Ho i Hi.
    assert (Hlt : (i < num_att m)%nat).
    { rewrite <- (H2 f Hf). apply nth_error_Some. congruence. }
    destruct (H3 i Hlt) as [vs [next [t [nx [Hr [Hl _]]]]]].
    destruct (Forall3_In _ _ _ _ _ Hl (recompute_table_ok _ _ _ _ Hr) (Some f) Hf) as [a [r [_ [Hlab Hok]]]].
    destruct a as [af|], r as [[fl ids]|]; simpl in Hlab, Hok; try tauto.
    destruct Hlab as [Hopen [Hflag Hmap]]. destruct Hok as [Hfl [_ Hc]].
    rewrite Hi in Hflag. inversion Hflag; subst fl.
    symmetry in H0. unfold on_seam in H0. apply orb_false_iff in H0. destruct H0 as [_ Hns].
    destruct (Hc Hns) as [x Hx]. eapply labelled_const; eauto.
  - intros i Hi f Hf.
    assert (Hlt : (i < num_att m)%nat) by (apply nth_error_Some; congruence).
    destruct (H3 i Hlt) as [vs [next [t [nx [Hr [Hl Hn]]]]]].
    specialize (Hn Hi).
    destruct (Forall3_In _ _ _ _ _ Hl (recompute_table_ok _ _ _ _ Hr) (Some f) Hf) as [a [r [Hin [Hlab Hok]]]].
    destruct a as [af|], r as [[fl ids]|]; simpl in Hlab, Hok; try tauto.
    destruct Hlab as [_ [_ Hmap]]. destruct Hok as [_ [_ Hc]].
    unfold no_interior_seams in Hn. rewrite forallb_forall in Hn. specialize (Hn (Some af) Hin).
    apply negb_true_iff in Hn. destruct (Hc Hn) as [x Hx]. eapply labelled_const; eauto.
Qed.
