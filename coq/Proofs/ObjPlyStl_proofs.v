(** C15 — proofs about the STL, OBJ and PLY models (Model/StlModel.v, Model/ObjModel.v, Model/PlyModel.v). *)
From Coq Require Import List ZArith Bool Arith Lia ZifyBool.
From Draco Require Import Base.Codec Model.Varint Model.Dedup Model.IoText Model.PlyModel Model.StlModel Model.ObjModel
  Proofs.Varint_proofs Proofs.Dedup_proofs Proofs.IoText_proofs.
Import ListNotations.
Local Open Scope Z_scope.

Lemma take_n_app (a r : bytes) n : n = Z.of_nat (length a) -> take_n n (a ++ r) = Some (a, r).
Proof.
  intros ->. unfold take_n. rewrite app_length, Nat2Z.id.
  replace ((0 <=? Z.of_nat (length a)) && (Z.of_nat (length a) <=? Z.of_nat (length a + length r))) with true by lia.
  rewrite firstn_app, Nat.sub_diag, firstn_all, skipn_app, Nat.sub_diag, skipn_all. cbn. rewrite app_nil_r. reflexivity.
Qed.

Lemma firstn_app_exact {A} (a b : list A) n : n = length a -> firstn n (a ++ b) = a.
Proof. intros ->. rewrite firstn_app, Nat.sub_diag, firstn_all. cbn. apply app_nil_r. Qed.
Lemma skipn_app_exact {A} (a b : list A) n : n = length a -> skipn n (a ++ b) = b.
Proof. intros ->. rewrite skipn_app, Nat.sub_diag, skipn_all. reflexivity. Qed.

Lemma skipn_plus {A} a : forall b (l : list A), skipn (a + b) l = skipn b (skipn a l).
Proof. induction a as [|a IH]; intros b l; [reflexivity|]. destruct l; cbn [plus skipn]; [destruct b; reflexivity|apply IH]. Qed.

Lemma map_nth_seq' {A} (l : list A) d : map (fun k => nth k l d) (seq 0 (length l)) = l.
Proof. apply map_seq_nth with (d := d); auto. Qed.

Lemma let3 {B} (fc : nat * nat * nat) (G : nat -> nat -> nat -> B) :
  (let '(a, b, c) := fc in G a b c) = G (fst (fst fc)) (snd (fst fc)) (snd fc).
Proof. destruct fc as [[? ?] ?]. reflexivity. Qed.

(** one 50-byte record *)
Definition stl_rec (n a b c : bytes) : bytes := n ++ a ++ b ++ c ++ [0; 0].
Lemma stl_rec_len n a b c : length n = 12%nat -> length a = 12%nat -> length b = 12%nat -> length c = 12%nat ->
  length (stl_rec n a b c) = 50%nat.
Proof. intros. unfold stl_rec. rewrite !app_length. cbn. lia. Qed.

Lemma stl_rec_split n a b c : length n = 12%nat -> length a = 12%nat -> length b = 12%nat -> length c = 12%nat ->
  let r := stl_rec n a b c in
  (firstn 12 r, firstn 12 (skipn 12 r), firstn 12 (skipn 24 r), firstn 12 (skipn 36 r)) = (n, a, b, c).
Proof.
  intros Hn Ha Hb Hc. cbn zeta. unfold stl_rec.
  set (t := [0; 0]).
  assert (S12 : skipn 12 (n ++ a ++ b ++ c ++ t) = a ++ b ++ c ++ t) by (apply skipn_app_exact; auto).
  assert (S24 : skipn 24 (n ++ a ++ b ++ c ++ t) = b ++ c ++ t).
  { change 24%nat with (12 + 12)%nat. rewrite skipn_plus, S12. apply skipn_app_exact; auto. }
  assert (S36 : skipn 36 (n ++ a ++ b ++ c ++ t) = c ++ t).
  { change 36%nat with (24 + 12)%nat. rewrite skipn_plus, S24. apply skipn_app_exact; auto. }
  rewrite S12, S24, S36. rewrite !firstn_app_exact by auto. reflexivity.
Qed.

Definition rec_ok (r : bytes * bytes * bytes * bytes) : Prop :=
  let '(n, a, b, c) := r in length n = 12%nat /\ length a = 12%nat /\ length b = 12%nat /\ length c = 12%nat.

Lemma stl_faces_parse rs : Forall rec_ok rs -> forall rest,
  stl_faces (length rs) (concat (map (fun r => let '(n, a, b, c) := r in stl_rec n a b c) rs) ++ rest) = Some rs.
Proof.
  induction 1 as [|[[[n a] b] c] rs (Hn & Ha & Hb & Hc) _ IH]; intros rest; [reflexivity|].
  cbn [length map concat stl_faces]. rewrite <- app_assoc.
  rewrite take_n_app by (rewrite stl_rec_len by auto; reflexivity).
  rewrite IH. pose proof (stl_rec_split n a b c Hn Ha Hb Hc) as S. cbn zeta in S. rewrite S. reflexivity.
Qed.

Lemma concat_len_const {A} (l : list (list A)) k : Forall (fun x => length x = k) l -> length (concat l) = (k * length l)%nat.
Proof. induction 1; cbn; [lia|]. rewrite app_length. lia. Qed.

(** value [3 * f + c] of a per-corner value list *)
Lemma nth_concat3 {A} (d : A) (F : nat -> list A) : (forall f, length (F f) = 3%nat) ->
  forall nf f c, (f < nf)%nat -> (c < 3)%nat ->
  nth (3 * f + c) (concat (map F (seq 0 nf))) d = nth c (F f) d.
Proof.
  intros HF nf. induction nf as [|nf IH]; intros f c Hf Hc; [lia|].
  rewrite seq_S, map_app, concat_app. cbn [map concat plus]. rewrite app_nil_r.
  assert (L : length (concat (map F (seq 0 nf))) = (3 * nf)%nat).
  { rewrite (concat_len_const _ 3); [rewrite map_length, seq_length; lia|].
    apply Forall_forall. intros x Hx. apply in_map_iff in Hx. destruct Hx as (k & <- & _). apply HF. }
  destruct (Nat.eq_dec f nf) as [->|Hne].
  - rewrite app_nth2 by lia. rewrite L. replace (3 * nf + c - 3 * nf)%nat with c by lia. reflexivity.
  - rewrite app_nth1 by lia. apply IH; lia.
Qed.

Definition stl_ok (nrms : list bytes) (m : stl_in) : Prop :=
  a_dtype (si_pos m) = DT_FLOAT32 /\
  length nrms = length (si_faces m) /\
  Z.of_nat (length (si_faces m)) < 2 ^ 32 /\
  Forall (fun n => length n = 12%nat) nrms /\
  Forall (fun f => let '(a, b, c) := f in
            length (att_value (si_pos m) a) = 12%nat /\ length (att_value (si_pos m) b) = 12%nat /\
            length (att_value (si_pos m) c) = 12%nat) (si_faces m).

(** the parsed records of the written file *)
Definition stl_recs (nrms : list bytes) (m : stl_in) : list (bytes * bytes * bytes * bytes) :=
  map (fun nf => let '(n, (a, b, c)) := nf in
         (n, att_value (si_pos m) a, att_value (si_pos m) b, att_value (si_pos m) c)) (combine nrms (si_faces m)).

Lemma stl_recs_ok nrms m : stl_ok nrms m -> Forall rec_ok (stl_recs nrms m).
Proof.
  intros (_ & _ & _ & HN & HF). unfold stl_recs. apply Forall_forall. intros r Hr.
  apply in_map_iff in Hr. destruct Hr as ([n [[a b] c]] & <- & Hin).
  pose proof (in_combine_l _ _ _ _ Hin) as H1. pose proof (in_combine_r _ _ _ _ Hin) as H2.
  rewrite Forall_forall in HN, HF. specialize (HN _ H1). specialize (HF _ H2). cbn in HF. cbn. tauto.
Qed.

Lemma stl_write_shape nrms m : a_dtype (si_pos m) = DT_FLOAT32 ->
  stl_write nrms m = Some (stl_header ++ enc_le 4 (Z.of_nat (length (si_faces m))) ++
     concat (map (fun r => let '(n, a, b, c) := r in stl_rec n a b c) (stl_recs nrms m))).
Proof.
  intros H. unfold stl_write. rewrite H. change (DT_FLOAT32 =? DT_FLOAT32) with true. cbn iota.
  do 3 f_equal. unfold stl_recs. rewrite map_map. f_equal. apply map_ext. intros [n [[a b] c]]. reflexivity.
Qed.

(** THEOREM stl_roundtrip_exact.  For every mesh with float32 positions (any bit patterns), for every normal
    bytes the writer's float computation may have produced, and whatever follows the file:
    the reader returns a well-formed, fully deduplicated mesh [g] with the attributes POSITION, NORMAL whose
    face [f], corner [c] carries exactly the 12 position bytes of corner [c] of input face [f] (and the normal
    bytes written for face [f]); same number of faces, same order.  The composition with the builder's
    deduplication is C14's [soup_build_preserves]. *)
Theorem stl_roundtrip nrms m : stl_ok nrms m ->
  exists bs, stl_write nrms m = Some bs /\ forall rest,
  exists g, stl_read (bs ++ rest) = Ok (Some g) /\
    geom g = map (fun f => let fc := nth f (si_faces m) (0, 0, 0)%nat in
                           let n := nth f nrms [] in
                           ([att_value (si_pos m) (fst (fst fc)); n], [att_value (si_pos m) (snd (fst fc)); n],
                            [att_value (si_pos m) (snd fc); n]))
                 (seq 0 (length (si_faces m))) /\
    wf_geo g = true /\ NoDup (keys (g_atts g) (seq 0 (g_np g))).
Proof.
  intros Hok. pose proof Hok as (Hdt & Hlen & Hnf & HN & HF).
  eexists. split; [apply stl_write_shape; auto|]. intros rest.
  set (rs := stl_recs nrms m). pose proof (stl_recs_ok nrms m Hok) as Hrs. fold rs in Hrs.
  set (nf := length (si_faces m)) in *.
  assert (Lrs : length rs = nf).
  { unfold rs, stl_recs. rewrite map_length, combine_length. lia. }
  unfold stl_read.
  rewrite <- !app_assoc.
  replace (Z.of_nat (length (stl_header ++ _)) <? 6) with false.
  2:{ rewrite app_length. change (length stl_header) with 80%nat. lia. }
  change (firstn 6 (stl_header ++ ?x)) with (firstn 6 stl_header).
  change (beq (firstn 6 stl_header) s_solid) with false. cbn iota.
  change (skipn 80 (stl_header ++ ?x)) with x.
  rewrite (le_roundtrips 4 (Z.of_nat nf) (enc_le 4 (Z.of_nat nf))) by (try reflexivity; change (256 ^ Z.of_nat 4) with (2 ^ 32); lia).
  assert (L50 : length (concat (map (fun r => let '(n, a, b, c) := r in stl_rec n a b c) rs)) = (50 * nf)%nat).
  { rewrite (concat_len_const _ 50); [rewrite map_length; lia|].
    apply Forall_forall. intros x Hx. apply in_map_iff in Hx. destruct Hx as ([[[n a] b] c] & <- & Hin).
    rewrite Forall_forall in Hrs. specialize (Hrs _ Hin). cbn in Hrs. apply stl_rec_len; tauto. }
  replace (Z.of_nat (length (_ ++ rest)) <? 50 * Z.of_nat nf) with false by (rewrite app_length, L50; lia).
  assert (E : stl_faces nf (concat (map (fun r => let '(n, a, b, c) := r in stl_rec n a b c) rs) ++ rest) = Some rs).
  { rewrite <- Lrs. apply stl_faces_parse; auto. }
  (* the builder *)
  assert (IO : inputs_ok (3 * nf) (stl_inputs rs)).
  { intros x [<- | [<- | []]]; cbn [in_vals];
      (rewrite (concat_len_const _ 3); [rewrite map_length; lia|]);
      apply Forall_forall; intros y Hy; apply in_map_iff in Hy; destruct Hy as ([[[n a] b] c] & <- & _); reflexivity. }
  destruct (soup_build_preserves nf (stl_inputs rs) IO) as (g & Hg & Hgeom & Hwf & Hnd).
  exists g. split; [rewrite Nat2Z.id, E, Hg; reflexivity|]. split; [|split; auto].
  rewrite Hgeom. apply map_ext_in. intros f Hf. apply in_seq in Hf.
  (* value 3f+c of the two input lists *)
  assert (RS : forall f, (f < nf)%nat -> nth f rs ([], [], [], []) =
     (let fc := nth f (si_faces m) (0, 0, 0)%nat in
      (nth f nrms [], att_value (si_pos m) (fst (fst fc)), att_value (si_pos m) (snd (fst fc)), att_value (si_pos m) (snd fc)))).
  { intros k Hk. unfold rs, stl_recs.
    etransitivity; [apply (nth_map_lt _ _ _ ([], (0, 0, 0)%nat)); rewrite combine_length; lia|].
    rewrite combine_nth by exact Hlen. cbn zeta.
    apply (let3 _ (fun a b c => (nth k nrms [], att_value (si_pos m) a, att_value (si_pos m) b, att_value (si_pos m) c))). }
  assert (POS : forall c, (c < 3)%nat ->
     nth (3 * f + c) (concat (map (fun r : bytes * bytes * bytes * bytes => let '(n, a, b, c0) := r in [a; b; c0]) rs)) [] =
     nth c (let '(n, a, b, c0) := nth f rs ([], [], [], []) in [a; b; c0]) []).
  { intros c Hc. rewrite <- (map_nth_seq' rs ([], [], [], [])) at 1. rewrite map_map. rewrite Lrs.
    rewrite (nth_concat3 [] (fun k => let '(n, a, b, c0) := nth k rs ([], [], [], []) in [a; b; c0])); auto; try lia.
    intros k. destruct (nth k rs ([], [], [], [])) as [[[? ?] ?] ?]. reflexivity. }
  assert (NRM : forall c, (c < 3)%nat ->
     nth (3 * f + c) (concat (map (fun r : bytes * bytes * bytes * bytes => let '(n, a, b, c0) := r in [n; n; n]) rs)) [] =
     nth c (let '(n, a, b, c0) := nth f rs ([], [], [], []) in [n; n; n]) []).
  { intros c Hc. rewrite <- (map_nth_seq' rs ([], [], [], [])) at 1. rewrite map_map. rewrite Lrs.
    rewrite (nth_concat3 [] (fun k => let '(n, a, b, c0) := nth k rs ([], [], [], []) in [n; n; n])); auto; try lia.
    intros k. destruct (nth k rs ([], [], [], [])) as [[[? ?] ?] ?]. reflexivity. }
  unfold input_tuple, stl_inputs. cbn [map in_vals].
  pose proof (POS 0%nat ltac:(lia)) as P0. pose proof (POS 1%nat ltac:(lia)) as P1. pose proof (POS 2%nat ltac:(lia)) as P2.
  pose proof (NRM 0%nat ltac:(lia)) as N0. pose proof (NRM 1%nat ltac:(lia)) as N1. pose proof (NRM 2%nat ltac:(lia)) as N2.
  replace (3 * f + 0)%nat with (3 * f)%nat in P0, N0 by lia.
  rewrite RS in P0, P1, P2, N0, N1, N2 by lia. cbn zeta in P0, P1, P2, N0, N1, N2. cbn [nth] in P0, P1, P2, N0, N1, N2.
  cbn zeta.
  match goal with |- ([?x0; ?y0], [?x1; ?y1], [?x2; ?y2]) = _ =>
    replace x0 with (att_value (si_pos m) (fst (fst (nth f (si_faces m) (0, 0, 0)%nat)))) by (symmetry; exact P0);
    replace x1 with (att_value (si_pos m) (snd (fst (nth f (si_faces m) (0, 0, 0)%nat)))) by (symmetry; exact P1);
    replace x2 with (att_value (si_pos m) (snd (nth f (si_faces m) (0, 0, 0)%nat))) by (symmetry; exact P2);
    replace y0 with (nth f nrms []) by (symmetry; exact N0);
    replace y1 with (nth f nrms []) by (symmetry; exact N1);
    replace y2 with (nth f nrms []) by (symmetry; exact N2)
  end. reflexivity.
Qed.

(* ============================================================================================ OBJ *)
(** the index triplet EncodeFaceCorner writes is read back by ParseVertexIndices, for all four formats
    "p", "p/t", "p//n", "p/t/n" and every index below 2^31 - 1; the token is consumed completely *)
Lemma stops_slash r : stops (47 :: r).
Proof. reflexivity. Qed.

Lemma dec_str_first_not_slash n rest : 0 <= n -> exists c w, dec_str n ++ rest = c :: w /\ (c =? 47) = false.
Proof.
  intros Hn. destruct (dec_str_head n Hn) as (c & w & E & Hc). exists c, (w ++ rest). rewrite E. split; [reflexivity|].
  unfold is_digit in Hc. lia.
Qed.

Definition idx_ok (v : nat) : Prop := Z.of_nat v + 1 < 2 ^ 31.
Definition opt_idx (o : option nat) : Z := match o with Some v => Z.of_nat v + 1 | None => 0 end.

Lemma parse_corner_text p t n :
  idx_ok p -> (forall v, t = Some v -> idx_ok v) -> (forall v, n = Some v -> idx_ok v) ->
  parse_corner (corner_text p t n) = Some (Z.of_nat p + 1, opt_idx t, opt_idx n, []).
Proof.
  unfold idx_ok. intros Hp Ht Hn. unfold corner_text, parse_corner.
  destruct t as [tv|], n as [nv|]; cbn [opt_idx].
  - specialize (Ht tv eq_refl). specialize (Hn nv eq_refl).
    rewrite parse_signed_int_dec_str by (try apply stops_slash; lia).
    replace (Z.of_nat p + 1 =? 0) with false by lia. cbn [app]. change (negb (47 =? 47)) with false. cbn iota.
    destruct (dec_str_first_not_slash (Z.of_nat tv + 1) (47 :: dec_str (Z.of_nat nv + 1)) ltac:(lia)) as (c & w & E & Hc).
    rewrite E. rewrite Hc. rewrite <- E.
    rewrite parse_signed_int_dec_str by (try apply stops_slash; lia).
    replace (Z.of_nat tv + 1 =? 0) with false by lia. cbn [app]. change (negb (47 =? 47)) with false. cbn iota.
    rewrite <- (app_nil_r (dec_str (Z.of_nat nv + 1))).
    rewrite parse_signed_int_dec_str by (try exact I; lia).
    replace (Z.of_nat nv + 1 =? 0) with false by lia. reflexivity.
  - specialize (Ht tv eq_refl).
    rewrite parse_signed_int_dec_str by (try apply stops_slash; lia).
    replace (Z.of_nat p + 1 =? 0) with false by lia. cbn [app]. change (negb (47 =? 47)) with false. cbn iota.
    destruct (dec_str_first_not_slash (Z.of_nat tv + 1) [] ltac:(lia)) as (c & w & E & Hc).
    rewrite app_nil_r in E. rewrite E. rewrite Hc. rewrite <- E.
    rewrite <- (app_nil_r (dec_str (Z.of_nat tv + 1))).
    rewrite parse_signed_int_dec_str by (try exact I; lia).
    replace (Z.of_nat tv + 1 =? 0) with false by lia. reflexivity.
  - specialize (Hn nv eq_refl).
    rewrite parse_signed_int_dec_str by (try apply stops_slash; lia).
    replace (Z.of_nat p + 1 =? 0) with false by lia. cbn [app]. change (negb (47 =? 47)) with false. cbn iota.
    change (47 =? 47) with true. cbn iota.
    rewrite <- (app_nil_r (dec_str (Z.of_nat nv + 1))).
    rewrite parse_signed_int_dec_str by (try exact I; lia).
    replace (Z.of_nat nv + 1 =? 0) with false by lia. reflexivity.
  - rewrite app_nil_r. rewrite <- (app_nil_r (dec_str (Z.of_nat p + 1))).
    rewrite parse_signed_int_dec_str by (try exact I; lia).
    replace (Z.of_nat p + 1 =? 0) with false by lia. reflexivity.
Qed.

(** MapPointToVertexIndices on a written (positive, 1-based) index gives back the 0-based value index *)
Lemma resolve_index_written v cur tot ok : (v < tot)%nat -> resolve_index (Z.of_nat v + 1) cur tot ok = Some v.
Proof.
  intros H. unfold resolve_index. replace (0 <? Z.of_nat v + 1) with true by lia.
  replace (Z.of_nat v + 1 =? 0) with false by lia. cbn [andb].
  replace ((0 <=? Z.of_nat v + 1 - 1) && (Z.of_nat v + 1 - 1 <? Z.of_nat tot)) with true by lia.
  f_equal. lia.
Qed.
(** an absent index (0) of an attribute that exists maps to value 0 *)
Lemma resolve_index_absent cur tot : (0 < tot)%nat -> resolve_index 0 cur tot true = Some 0%nat.
Proof. intros H. unfold resolve_index. cbn. replace (0 <? Z.of_nat tot) with true by lia. reflexivity. Qed.

(* ============================================================================================ PLY *)
(** ** the header loop: a header made of well-formed lines is folded line by line, and the reader stops exactly
    behind "end_header\n" whatever byte the binary data starts with *)
Definition goodline (ws : list bytes) : Prop :=
  Forall goodword ws /\ exists c0 c1 w r, ws = (c0 :: c1 :: w) :: r /\ (c1 =? 110) = false.

Fixpoint header_fold (es : list pelem) (ls : list (list bytes)) : option (list pelem) :=
  match ls with
  | [] => Some es
  | ws :: r => match header_step es ws with
               | HErr => None
               | HSkip => header_fold es r
               | HSet es' => header_fold es' r
               end
  end.

Lemma end_header_nodelim : nodelim s_end_header.
Proof. unfold s_end_header. repeat constructor. Qed.

Lemma join_sp_head c0 c1 w r : exists tl, join_sp ((c0 :: c1 :: w) :: r) = c0 :: c1 :: tl.
Proof. destruct r; cbn [join_sp app]; eauto. Qed.

Lemma parse_header_lines : forall ls fuel es rest,
  Forall goodline ls -> (length ls < fuel)%nat ->
  parse_header fuel es (render_lines ls ++ s_end_header ++ 10 :: rest) =
  match header_fold es ls with Some es' => Ok (es', rest) | None => Reject end.
Proof.
  induction ls as [|ws ls IH]; intros fuel es rest HG Hf; (destruct fuel as [|fuel]; [cbn in Hf; lia|]).
  - cbn [render_lines map concat app header_fold parse_header].
    assert (E1 : skip_ws (s_end_header ++ 10 :: rest) = s_end_header ++ 10 :: rest) by reflexivity.
    rewrite E1.
    replace (Z.of_nat (length (s_end_header ++ 10 :: rest)) <? 10) with false
      by (rewrite app_length; change (length s_end_header) with 10%nat; lia).
    assert (E2 : firstn 10 (s_end_header ++ 10 :: rest) = s_end_header) by reflexivity.
    rewrite E2. change (beq s_end_header s_end_header) with true. cbn iota.
    rewrite parse_line_app by apply end_header_nodelim. reflexivity.
  - inversion HG as [|? ? [GW (c0 & c1 & w & r & Ews & Hc1)] HG']; subst.
    unfold render_lines. cbn [map concat]. fold (render_lines ls).
    rewrite <- !app_assoc. cbn [app].
    set (tail := render_lines ls ++ s_end_header ++ 10 :: rest).
    destruct (join_sp_head c0 c1 w r) as (tl & Ej).
    assert (Hc0 : is_space c0 = false).
    { inversion GW as [|? ? [_ NS] _]; subst. inversion NS; auto. }
    cbn [parse_header header_fold].
    rewrite Ej. cbn [app]. rewrite (skip_ws_nonspace c0) by auto.
    replace (Z.of_nat (length (c0 :: c1 :: tl ++ 10 :: tail)) <? 10) with false.
    2:{ unfold tail. cbn [length]. rewrite !app_length. cbn [length]. rewrite !app_length.
        change (length s_end_header) with 10%nat. lia. }
    assert (E3 : beq (firstn 10 (c0 :: c1 :: tl ++ 10 :: tail)) s_end_header = false).
    { cbn [firstn]. unfold s_end_header. cbn [beq]. rewrite Hc1. cbn [andb]. apply andb_false_r. }
    rewrite E3.
    change (c0 :: c1 :: tl ++ 10 :: tail) with ((c0 :: c1 :: tl) ++ 10 :: tail). rewrite <- Ej.
    rewrite parse_line_app by (apply join_sp_nodelim; auto).
    rewrite split_words_join by auto.
    cbn in Hf.
    destruct (header_step es ((c0 :: c1 :: w) :: r)); [reflexivity | apply IH; auto; lia | apply IH; auto; lia].
Qed.

(** ** element data: an element whose properties are all scalars is read row by row, cell by cell *)
Definition scalar_cell (p : pprop) (c : bytes) : Prop :=
  pp_list p = DT_INVALID /\ dt_len (pp_dt p) = Z.of_nat (length c).

Lemma read_row_scalars ps : forall chunks rest, Forall2 scalar_cell ps chunks ->
  read_row ps (concat chunks ++ rest) = Ok (map CS chunks, rest).
Proof.
  induction ps as [|p ps IH]; intros chunks rest H; inversion H as [|? c ? cs [HL HS] H']; subst; [reflexivity|].
  cbn [concat read_row map]. rewrite <- app_assoc. unfold read_cell. rewrite HL.
  change (DT_INVALID =? DT_INVALID) with true. cbn iota.
  rewrite take_n_app by auto. cbn [rbind]. rewrite IH by auto. reflexivity.
Qed.

Lemma read_rows_scalars ps : forall rows rest, Forall (Forall2 scalar_cell ps) rows ->
  read_rows (length rows) ps (concat (map (@concat Z) rows) ++ rest) = Ok (map (map CS) rows, rest).
Proof.
  induction rows as [|row rows IH]; intros rest H; [reflexivity|]. inversion H; subst.
  cbn [length map concat read_rows]. rewrite <- app_assoc. rewrite read_row_scalars by auto. cbn [rbind].
  rewrite IH by auto. reflexivity.
Qed.

(** ** PlyPropertyReader::ReadValue(i) on a property whose entries all have the size of its type returns
    entry i — bit for bit — and never reads outside the property's data *)
Lemma skipn_concat_uniform (cells : list bytes) sz : Forall (fun c => length c = sz) cells ->
  forall i, skipn (sz * i) (concat cells) = concat (skipn i cells).
Proof.
  induction 1 as [|c cells Hc _ IH]; intros i.
  - rewrite !skipn_nil. reflexivity.
  - destruct i as [|i]; [rewrite Nat.mul_0_r; reflexivity|].
    cbn [concat skipn]. replace (sz * S i)%nat with (sz + sz * i)%nat by lia.
    rewrite skipn_plus. rewrite (skipn_app_exact c) by auto. apply IH.
Qed.

Lemma read_at_uniform (cells : list bytes) sz i : Forall (fun c => Z.of_nat (length c) = sz) cells -> 0 < sz ->
  (i < length cells)%nat -> read_at (concat cells) sz (Z.of_nat i) = Some (nth i cells []).
Proof.
  intros HU Hsz Hi. unfold read_at.
  assert (HU' : Forall (fun c => length c = Z.to_nat sz) cells) by (eapply Forall_impl; [|exact HU]; cbn; intros; lia).
  assert (L : length (concat cells) = (Z.to_nat sz * length cells)%nat) by (apply concat_len_const; auto).
  replace ((0 <=? Z.of_nat i) && (0 <? sz) && (sz * (Z.of_nat i + 1) <=? Z.of_nat (length (concat cells)))) with true by (rewrite L; nia).
  f_equal. replace (Z.to_nat (sz * Z.of_nat i)) with (Z.to_nat sz * i)%nat by nia.
  rewrite (skipn_concat_uniform cells (Z.to_nat sz)) by auto.
  rewrite (@skipn_cons_nth bytes i [] cells) by auto. cbn [concat].
  apply firstn_app_exact. rewrite Forall_forall in HU'. symmetry. apply HU'. apply nth_In. auto.
Qed.
