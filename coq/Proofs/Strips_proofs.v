(** C14 (stretch) — partial soundness of the strip output (Model/Strips.v). *)
From Coq Require Import List ZArith Bool Arith Lia ZifyNat.
From Draco Require Import Model.Dedup Model.Cleanup Model.Strips Proofs.Cleanup_proofs.
Import ListNotations.

Ltac Zify.zify_post_hook ::= Z.div_mod_to_equations.

Lemma mod3_cases c : c mod 3 = 0 \/ c mod 3 = 1 \/ c mod 3 = 2.
Proof. pose proof (Nat.mod_upper_bound c 3). lia. Qed.

Ltac corner_arith :=
  unfold c_next, c_prev;
  repeat match goal with
         | |- context [Nat.eqb ?a ?b] => destruct (Nat.eqb_spec a b); cbv iota
         end;
  try lia.

Lemma next_prev c : c_next (c_prev c) = c.
Proof. corner_arith. Qed.
Lemma prev_next c : c_prev (c_next c) = c.
Proof. corner_arith. Qed.
Lemma prev_prev c : c_prev (c_prev c) = c_next c.
Proof. corner_arith. Qed.
Lemma next_next c : c_next (c_next c) = c_prev c.
Proof. corner_arith. Qed.

Section Sound.
  Variable faces : list face.
  Variable opp : list (option nat).
  Notation p := (corner_point faces).

  (** the face of corner [c], written starting at [c] *)
  Definition tri_of_corner (c : nat) : face := (p c, p (c_next c), p (c_prev c)).

  Notation step_corner := Strips.step_corner.
  Notation walk := (Strips.walk opp).
  Notation walk_ok := (Strips.walk_ok faces opp).

  Lemma get_opposite_some c o : get_opposite faces opp c = Some o ->
    opposite opp c = Some o /\ p (c_next c) = p (c_prev o) /\ p (c_prev c) = p (c_next o).
  Proof.
    unfold get_opposite. destruct (opposite opp c) as [oc|]; [|congruence].
    destruct (Nat.eqb_spec (p (c_next c)) (p (c_prev oc))); cbn [negb]; [|congruence].
    destruct (Nat.eqb_spec (p (c_prev c)) (p (c_next oc))); cbn [negb]; [|congruence].
    intros H; inversion H; subst. auto.
  Qed.

  (** what the two previously emitted indices are, relative to the corner reached at step [i] *)
  Definition pre (i ci x y : nat) : Prop :=
    if Nat.odd i then x = p (c_prev ci) /\ y = p (c_next ci) else x = p (c_next ci) /\ y = p (c_prev ci).

  Lemma store_tail_sound n : forall i ci vis last out vis' last' cs x y,
    1 <= i -> pre i ci x y -> walk_ok n i ci = true ->
    store_strip faces opp n i ci vis last = Some (out, vis', last') -> walk n i ci = Some cs ->
    Forall2 rot_equiv (map tri_of_corner cs) (decode_strip i (x :: y :: out)).
  Proof.
    induction n as [|k IH]; intros i ci vis last out vis' last' cs x y Hi Hpre Hok Hs Hw.
    - cbn in Hs, Hw. inversion Hs; inversion Hw; subst. cbn. constructor.
    - cbn [store_strip] in Hs. cbn [walk] in Hw. cbn [walk_ok] in Hok.
      replace (Nat.eqb i 0) with false in Hs by (symmetry; apply Nat.eqb_neq; lia).
      assert (Hsc : step_corner i ci = if Nat.odd i then c_prev ci else c_next ci).
      { unfold step_corner. replace (Nat.eqb i 0) with false by (symmetry; apply Nat.eqb_neq; lia). auto. }
      assert (Hfirst : rot_equiv (tri_of_corner ci) (if Nat.odd i then (y, x, p ci) else (x, y, p ci))).
      { unfold pre in Hpre. unfold tri_of_corner, rot_equiv, rot_left. destruct (Nat.odd i); destruct Hpre as [-> ->]; auto. }
      destruct k as [|k'].
      + inversion Hs; inversion Hw; subst. cbn. constructor; auto.
      + rewrite Hsc in Hw, Hok.
        destruct (get_opposite faces opp (if Nat.odd i then c_prev ci else c_next ci)) as [o|] eqn:Eg; [|congruence].
        apply get_opposite_some in Eg. destruct Eg as (Eo & E1 & E2). rewrite Eo in Hs, Hw.
        destruct (store_strip faces opp (S k') (S i) o (upd (c_face ci) true vis) (p ci)) as [[[o2 v2] l2]|] eqn:Es; [|congruence].
        destruct (walk (S k') (S i) o) as [cs2|] eqn:Ew; [|cbn in Hw; congruence].
        cbn in Hw. inversion Hs; inversion Hw; subst. clear Hs Hw.
        change (decode_strip i (x :: y :: [p ci] ++ o2)) with
          ((if Nat.odd i then (y, x, p ci) else (x, y, p ci)) :: decode_strip (S i) (y :: p ci :: o2)).
        cbn [map]. constructor; auto.
        eapply IH; eauto; try lia.
        unfold pre in *. rewrite Nat.odd_succ. rewrite <- Nat.negb_odd.
        destruct (Nat.odd i); cbn [negb]; destruct Hpre as [-> ->].
        * rewrite next_prev, prev_prev in *. split; congruence.
        * rewrite next_next, prev_next in *. split; congruence.
  Qed.

  (** THEOREM (partial) strips_store_sound_partial: if every edge crossed by StoreStrip's walk passes the seam
      test, the strip it emits decodes (alternating winding) to exactly the faces it visits, in order, each up
      to a rotation of its corners — orientation preserved. *)
  Lemma store_strip_sound n ci vis last out vis' last' cs :
    walk_ok n 0 ci = true ->
    store_strip faces opp n 0 ci vis last = Some (out, vis', last') -> walk n 0 ci = Some cs ->
    Forall2 rot_equiv (map tri_of_corner cs) (decode_strip 0 out) /\ length cs = n.
  Proof.
    intros Hok Hs Hw. destruct n as [|k]. { cbn in *. inversion Hs; inversion Hw; subst. cbn. split; constructor. }
    assert (Hlen : forall n i c l, walk n i c = Some l -> length l = n).
    { clear. induction n as [|k IH]; intros i c l H; cbn in H. { inversion H; auto. }
      destruct k. { inversion H; auto. }
      destruct (opposite opp (step_corner i c)); [|congruence].
      destruct (walk (S k) (S i) n) eqn:E; cbn in H; [|congruence]. inversion H; subst. cbn. f_equal. eapply IH; eauto. }
    split; [|eapply Hlen; eauto].
    cbn [store_strip] in Hs. cbn [walk] in Hw. cbn [walk_ok] in Hok. cbn [Nat.eqb] in Hs.
    unfold step_corner in *. cbn [Nat.eqb] in *.
    destruct k as [|k'].
    - inversion Hs; inversion Hw; subst. cbn. constructor; [left; reflexivity | constructor].
    - destruct (get_opposite faces opp ci) as [o|] eqn:Eg; [|congruence].
      apply get_opposite_some in Eg. destruct Eg as (Eo & E1 & E2). rewrite Eo in Hs, Hw.
      destruct (store_strip faces opp (S k') 1 o (upd (c_face ci) true vis) (p (c_prev ci))) as [[[o2 v2] l2]|] eqn:Es; [|congruence].
      destruct (walk (S k') 1 o) as [cs2|] eqn:Ew; [|cbn in Hw; congruence].
      cbn in Hw. inversion Hs; inversion Hw; subst. clear Hs Hw.
      change (decode_strip 0 ([p ci; p (c_next ci); p (c_prev ci)] ++ o2)) with
        ((p ci, p (c_next ci), p (c_prev ci)) :: decode_strip 1 (p (c_next ci) :: p (c_prev ci) :: o2)).
      cbn [map]. constructor; [left; reflexivity|].
      eapply store_tail_sound; eauto. unfold pre. cbn. split; congruence.
  Qed.
End Sound.
