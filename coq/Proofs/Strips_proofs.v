(** C14 — the strip clause: the index streams of both MeshStripifier modes decode to the mesh's faces
    (Model/Strips.v).  First part: one stored strip (local soundness).  Second part: retracing, coverage,
    separators, the two theorems. *)
From Coq Require Import List ZArith Bool Arith Lia ZifyNat Permutation.
From Draco Require Import Model.Dedup Model.Cleanup Model.Strips Proofs.Dedup_proofs Proofs.Cleanup_proofs.
Import ListNotations.

Ltac Zify.zify_post_hook ::= Z.div_mod_to_equations.

Lemma mod3_cases c : c mod 3 = 0 \/ c mod 3 = 1 \/ c mod 3 = 2.
Proof. pose proof (Nat.mod_upper_bound c 3). lia. Qed.

Ltac corner_arith :=
  unfold c_next, c_prev;
  repeat match goal with
         | |- context [Nat.eqb ?a ?b] => destruct (Nat.eqb_spec a b); cbv iota
         end;
  try lia.

Lemma next_prev c : c_next (c_prev c) = c.
Proof. corner_arith. Qed.
Lemma prev_next c : c_prev (c_next c) = c.
Proof. corner_arith. Qed.
Lemma prev_prev c : c_prev (c_prev c) = c_next c.
Proof. corner_arith. Qed.
Lemma next_next c : c_next (c_next c) = c_prev c.
Proof. corner_arith. Qed.

Section Sound.
  Variable faces : list face.
  Variable opp : list (option nat).
  Notation p := (corner_point faces).

  (** the face of corner [c], written starting at [c] *)
  Definition tri_of_corner (c : nat) : face := (p c, p (c_next c), p (c_prev c)).

  Notation step_corner := Strips.step_corner.
  Notation walk := (Strips.walk opp).
  Notation walk_ok := (Strips.walk_ok faces opp).

  Lemma get_opposite_some c o : get_opposite faces opp c = Some o ->
    opposite opp c = Some o /\ p (c_next c) = p (c_prev o) /\ p (c_prev c) = p (c_next o).
  Proof.
    unfold get_opposite. destruct (opposite opp c) as [oc|]; [|congruence].
    destruct (Nat.eqb_spec (p (c_next c)) (p (c_prev oc))); cbn [negb]; [|congruence].
    destruct (Nat.eqb_spec (p (c_prev c)) (p (c_next oc))); cbn [negb]; [|congruence].
    intros H; inversion H; subst. auto.
  Qed.

  (** what the two previously emitted indices are, relative to the corner reached at step [i] *)
  Definition pre (i ci x y : nat) : Prop :=
    if Nat.odd i then x = p (c_prev ci) /\ y = p (c_next ci) else x = p (c_next ci) /\ y = p (c_prev ci).

  Lemma store_tail_sound n : forall i ci vis last out vis' last' cs x y,
    1 <= i -> pre i ci x y -> walk_ok n i ci = true ->
    store_strip faces opp n i ci vis last = Some (out, vis', last') -> walk n i ci = Some cs ->
    Forall2 rot_equiv (map tri_of_corner cs) (decode_strip i (x :: y :: out)).
  Proof.
    induction n as [|k IH]; intros i ci vis last out vis' last' cs x y Hi Hpre Hok Hs Hw.
    - cbn in Hs, Hw. inversion Hs; inversion Hw; subst. cbn. constructor.
    - cbn [store_strip] in Hs. cbn [walk] in Hw. cbn [walk_ok] in Hok.
      replace (Nat.eqb i 0) with false in Hs by (symmetry; apply Nat.eqb_neq; lia).
      assert (Hsc : step_corner i ci = if Nat.odd i then c_prev ci else c_next ci).
      { unfold step_corner. replace (Nat.eqb i 0) with false by (symmetry; apply Nat.eqb_neq; lia). auto. }
      assert (Hfirst : rot_equiv (tri_of_corner ci) (if Nat.odd i then (y, x, p ci) else (x, y, p ci))).
      { unfold pre in Hpre. unfold tri_of_corner, rot_equiv, rot_left. destruct (Nat.odd i); destruct Hpre as [-> ->]; auto. }
      destruct k as [|k'].
      + inversion Hs; inversion Hw; subst. cbn. constructor; auto.
      + rewrite Hsc in Hw, Hok.
        destruct (get_opposite faces opp (if Nat.odd i then c_prev ci else c_next ci)) as [o|] eqn:Eg; [|congruence].
        apply get_opposite_some in Eg. destruct Eg as (Eo & E1 & E2). rewrite Eo in Hs, Hw.
        destruct (store_strip faces opp (S k') (S i) o (upd (c_face ci) true vis) (p ci)) as [[[o2 v2] l2]|] eqn:Es; [|congruence].
        destruct (walk (S k') (S i) o) as [cs2|] eqn:Ew; [|cbn in Hw; congruence].
        cbn in Hw. inversion Hs; inversion Hw; subst. clear Hs Hw.
        change (decode_strip i (x :: y :: [p ci] ++ o2)) with
          ((if Nat.odd i then (y, x, p ci) else (x, y, p ci)) :: decode_strip (S i) (y :: p ci :: o2)).
        cbn [map]. constructor; auto.
        eapply IH; eauto; try lia.
        unfold pre in *. rewrite Nat.odd_succ. rewrite <- Nat.negb_odd.
        destruct (Nat.odd i); cbn [negb]; destruct Hpre as [-> ->].
        * rewrite next_prev, prev_prev in *. split; congruence.
        * rewrite next_next, prev_next in *. split; congruence.
  Qed.

  (** one stored strip: if every edge crossed by StoreStrip's walk passes the seam
      test, the strip it emits decodes (alternating winding) to exactly the faces it visits, in order, each up
      to a rotation of its corners — orientation preserved. *)
  Lemma store_strip_sound n ci vis last out vis' last' cs :
    walk_ok n 0 ci = true ->
    store_strip faces opp n 0 ci vis last = Some (out, vis', last') -> walk n 0 ci = Some cs ->
    Forall2 rot_equiv (map tri_of_corner cs) (decode_strip 0 out) /\ length cs = n.
  Proof.
    intros Hok Hs Hw. destruct n as [|k]. { cbn in *. inversion Hs; inversion Hw; subst. cbn. split; constructor. }
    assert (Hlen : forall n i c l, walk n i c = Some l -> length l = n).
    { clear. induction n as [|k IH]; intros i c l H; cbn in H. { inversion H; auto. }
      destruct k. { inversion H; auto. }
      destruct (opposite opp (step_corner i c)); [|congruence].
      destruct (walk (S k) (S i) n) eqn:E; cbn in H; [|congruence]. inversion H; subst. cbn. f_equal. eapply IH; eauto. }
    split; [|eapply Hlen; eauto].
    cbn [store_strip] in Hs. cbn [walk] in Hw. cbn [walk_ok] in Hok. cbn [Nat.eqb] in Hs.
    unfold step_corner in *. cbn [Nat.eqb] in *.
    destruct k as [|k'].
    - inversion Hs; inversion Hw; subst. cbn. constructor; [left; reflexivity | constructor].
    - destruct (get_opposite faces opp ci) as [o|] eqn:Eg; [|congruence].
      apply get_opposite_some in Eg. destruct Eg as (Eo & E1 & E2). rewrite Eo in Hs, Hw.
      destruct (store_strip faces opp (S k') 1 o (upd (c_face ci) true vis) (p (c_prev ci))) as [[[o2 v2] l2]|] eqn:Es; [|congruence].
      destruct (walk (S k') 1 o) as [cs2|] eqn:Ew; [|cbn in Hw; congruence].
      cbn in Hw. inversion Hs; inversion Hw; subst. clear Hs Hw.
      change (decode_strip 0 ([p ci; p (c_next ci); p (c_prev ci)] ++ o2)) with
        ((p ci, p (c_next ci), p (c_prev ci)) :: decode_strip 1 (p (c_next ci) :: p (c_prev ci) :: o2)).
      cbn [map]. constructor; [left; reflexivity|].
      eapply store_tail_sound; eauto. unfold pre. cbn. split; congruence.
  Qed.
End Sound.

(* ====================================================================== the full strip clause *)
(* ------------------------------------------------------------------ corner arithmetic *)
Lemma face_next c : c_face (c_next c) = c_face c.
Proof. unfold c_face. corner_arith. Qed.
Lemma face_prev c : c_face (c_prev c) = c_face c.
Proof. unfold c_face. corner_arith. Qed.

Lemma step_corner_pos i c : 1 <= i -> step_corner i c = if Nat.odd i then c_prev c else c_next c.
Proof. intros H. unfold step_corner. destruct (Nat.eqb_spec i 0); [lia|reflexivity]. Qed.
Lemma face_step i c : c_face (step_corner i c) = c_face c.
Proof. unfold step_corner. destruct (Nat.eqb i 0); auto. destruct (Nat.odd i); [apply face_prev|apply face_next]. Qed.
Lemma step_corner_parity i j c : 1 <= i -> 1 <= j -> Nat.odd i = Nat.odd j -> step_corner i c = step_corner j c.
Proof. intros. rewrite !step_corner_pos by auto. rewrite H1. reflexivity. Qed.

(* ------------------------------------------------------------------ visited flags *)
Fixpoint mark (fs : list nat) (vis : list bool) : list bool :=
  match fs with [] => vis | f :: r => mark r (upd f true vis) end.
Definition unvis (vis : list bool) (f : nat) : Prop := nth f vis true = false.
Definition count_unvis (vis : list bool) : nat := length (filter negb vis).

Lemma unvis_lt vis f : unvis vis f -> f < length vis.
Proof. unfold unvis. intros H. destruct (Nat.lt_ge_cases f (length vis)); auto. rewrite nth_overflow in H by lia. discriminate. Qed.
Lemma count_unvis_upd vis f : unvis vis f -> S (count_unvis (upd f true vis)) = count_unvis vis.
Proof.
  unfold unvis, count_unvis. revert f. induction vis as [|b r IH]; intros f H; [destruct f; discriminate|].
  destruct f; cbn in *. { subst b. cbn. reflexivity. }
  destruct b; cbn; rewrite <- (IH f H); reflexivity.
Qed.
Lemma count_unvis_le vis : count_unvis vis <= length vis.
Proof. unfold count_unvis. induction vis as [|b r IH]; cbn; [lia|]. destruct b; cbn; lia. Qed.
Lemma mark_length l : forall vis, length (mark l vis) = length vis.
Proof. induction l; intros; cbn; auto. rewrite IHl, upd_length. reflexivity. Qed.
Lemma nth_upd_true vis f g : nth g (upd f true vis) true = (Nat.eqb g f || nth g vis true).
Proof.
  destruct (Nat.eqb_spec g f); cbn [orb].
  - subst. destruct (Nat.lt_ge_cases f (length vis)); [apply nth_upd_same; auto|].
    apply nth_overflow. rewrite upd_length. lia.
  - apply nth_upd_other; auto.
Qed.
Lemma nth_mark l : forall vis g, nth g (mark l vis) true = (existsb (Nat.eqb g) l || nth g vis true).
Proof.
  induction l as [|f r IH]; intros; cbn [mark existsb]; auto.
  rewrite IH, nth_upd_true. destruct (Nat.eqb g f), (existsb (Nat.eqb g) r); reflexivity.
Qed.
Lemma existsb_eqb_In g l : existsb (Nat.eqb g) l = true <-> In g l.
Proof. rewrite existsb_exists. split. { intros (x & H & E). apply Nat.eqb_eq in E. subst; auto. } intros; exists g; split; auto. apply Nat.eqb_refl. Qed.
Lemma unvis_mark l vis g : unvis (mark l vis) g <-> unvis vis g /\ ~ In g l.
Proof.
  unfold unvis. rewrite nth_mark, orb_false_iff. rewrite <- existsb_eqb_In.
  destruct (existsb (Nat.eqb g) l); intuition congruence.
Qed.

Lemma exists_last_or_nil {A} (l : list A) : l = [] \/ exists l' a, l = l' ++ [a].
Proof. destruct l as [|x r]; [left; auto|right]. destruct (@exists_last _ (x :: r)) as (l' & a & E); [discriminate|eauto]. Qed.

(* ------------------------------------------------------------------ decoding lemmas *)
Lemma decode_parity s : forall i j, Nat.odd i = Nat.odd j -> decode_strip i s = decode_strip j s.
Proof.
  induction s as [|a r IH]; intros i j H; [reflexivity|]. cbn [decode_strip].
  destruct r as [|b [|c r']]; try reflexivity. rewrite H. f_equal. apply IH.
  rewrite !Nat.odd_succ, <- !Nat.negb_odd. congruence.
Qed.

Lemma decode_app A : forall j x y B,
  decode_strip j (A ++ x :: y :: B) = decode_strip j (A ++ [x; y]) ++ decode_strip (j + length A) (x :: y :: B).
Proof.
  induction A as [|a A' IH]; intros j x y B.
  - cbn [app length]. rewrite Nat.add_0_r. reflexivity.
  - cbn [length]. replace (j + S (length A')) with (S j + length A') by lia.
    specialize (IH (S j) x y B).
    destruct A' as [|b [|c A'']]; cbn [app] in *; cbn [decode_strip] in *; rewrite ?IH; reflexivity.
Qed.

Lemma nondeg_sep2 j x L S T :
  filter tri_nondeg (decode_strip j (x :: L :: L :: S :: S :: T)) = filter tri_nondeg (decode_strip (4 + j) (S :: T)).
Proof.
  destruct T as [|n T]; cbn [decode_strip Nat.add];
    repeat match goal with |- context [if Nat.odd ?k then _ else _] => destruct (Nat.odd k) end;
    cbn [filter tri_nondeg]; rewrite ?Nat.eqb_refl; cbn [negb andb]; rewrite ?andb_false_r; reflexivity.
Qed.
Lemma nondeg_sep3 j x L S T :
  filter tri_nondeg (decode_strip j (x :: L :: L :: S :: S :: S :: T)) = filter tri_nondeg (decode_strip (5 + j) (S :: T)).
Proof.
  destruct T as [|n T]; cbn [decode_strip Nat.add];
    repeat match goal with |- context [if Nat.odd ?k then _ else _] => destruct (Nat.odd k) end;
    cbn [filter tri_nondeg]; rewrite ?Nat.eqb_refl; cbn [negb andb]; rewrite ?andb_false_r; reflexivity.
Qed.

Lemma rot_equiv_trans f g h : rot_equiv f g -> rot_equiv g h -> rot_equiv f h.
Proof. destruct f as [[a b] c]. unfold rot_equiv, rot_left. intros [-> | [-> | ->]] [-> | [-> | ->]]; auto. Qed.
Lemma nondeg_rot f g : rot_equiv f g -> tri_nondeg f = tri_nondeg g.
Proof.
  destruct f as [[a b] c]. unfold rot_equiv, rot_left. intros [-> | [-> | ->]]; cbn [tri_nondeg]; auto;
    destruct (Nat.eqb_spec a b), (Nat.eqb_spec a c), (Nat.eqb_spec b c), (Nat.eqb_spec b a), (Nat.eqb_spec c a), (Nat.eqb_spec c b);
    cbn; try reflexivity; congruence.
Qed.

Lemma Forall2_filter {A} (R : A -> A -> Prop) f : (forall a b, R a b -> f a = f b) ->
  forall l1 l2, Forall2 R l1 l2 -> Forall2 R (filter f l1) (filter f l2).
Proof.
  intros Hf l1 l2 H. induction H as [|a b l1 l2 Hab H IH]; cbn [filter]; [constructor|].
  rewrite (Hf a b Hab). destruct (f b); auto.
Qed.
Lemma Forall2_trans {A} (R : A -> A -> Prop) : (forall a b c, R a b -> R b c -> R a c) ->
  forall l1 l2 l3, Forall2 R l1 l2 -> Forall2 R l2 l3 -> Forall2 R l1 l3.
Proof.
  intros Ht l1 l2 l3 H. revert l3. induction H; intros l3 H3; inversion H3; subst; constructor; eauto.
Qed.
Lemma Forall2_map_pointwise {A B} (R : B -> B -> Prop) (g h : A -> B) l : (forall a, R (g a) (h a)) -> Forall2 R (map g l) (map h l).
Proof. intros H. induction l; cbn; constructor; auto. Qed.

Lemma split_two_last {A} (l : list A) n : length l = S (S n) -> exists B x y, l = B ++ [x; y] /\ length B = n.
Proof.
  intros H. destruct (exists_last_or_nil l) as [-> | (l1 & y & ->)]; [discriminate|].
  rewrite app_length in H. cbn in H.
  destruct (exists_last_or_nil l1) as [-> | (l2 & x & ->)]; [cbn in H; lia|].
  rewrite app_length in H. cbn in H. exists l2, x, y. rewrite <- app_assoc. split; [reflexivity|lia].
Qed.

Lemma nth_repeat_false n f : nth f (repeat false n) true = negb (Nat.ltb f n).
Proof.
  revert f. induction n as [|n IH]; intros f; cbn [repeat]. { destruct f; reflexivity. }
  destruct f as [|f]; [reflexivity|]. cbn [nth]. rewrite IH. reflexivity.
Qed.

Lemma perm_strip {X} (A FF : list X) y c : Permutation (y :: rev A ++ [c] ++ FF) ((c :: FF) ++ A ++ [y]).
Proof.
  apply Permutation_sym. eapply Permutation_trans; [apply Permutation_app_comm|].
  change (y :: rev A ++ [c] ++ FF) with ((y :: rev A) ++ (c :: FF)). apply Permutation_app_tail.
  eapply Permutation_trans; [apply Permutation_app_comm|]. cbn [app]. apply perm_skip. apply Permutation_rev.
Qed.

Lemma NoDup_app_l {A} (l1 l2 : list A) : NoDup (l1 ++ l2) -> NoDup l1.
Proof. induction l1 as [|a r IH]; cbn; intros H; [constructor|]. inversion H; subst. constructor; auto. rewrite in_app_iff in *. tauto. Qed.

Section Full.
  Variable faces : list face.
  Variable opp : list (option nat).
  Notation p := (corner_point faces).
  Notation nf := (length faces).

  (** well-formedness of the opposite-corner table: a symmetric pairing of existing corners.  This is clause 1a of
      C13 ([C13_opp_symmetric]). *)
  Definition opp_wf : Prop := forall a b, opposite opp a = Some b -> opposite opp b = Some a /\ b < 3 * nf.

  Definition link (e a : nat) : Prop := get_opposite faces opp e = Some a.

  Lemma link_opp e a : link e a -> opposite opp e = Some a.
  Proof. intros H. apply get_opposite_some in H. tauto. Qed.

  Lemma link_sym : opp_wf -> forall e a, link e a -> link a e.
  Proof.
    intros WF e a H. apply get_opposite_some in H. destruct H as (Ho & E1 & E2).
    apply WF in Ho. destruct Ho as [Ho _]. unfold link, get_opposite. rewrite Ho.
    rewrite <- E2, <- E1, !Nat.eqb_refl. reflexivity.
  Qed.

  (** [W i e cs]: a walker standing in the face at strip position [i], about to cross the edge opposite to corner
      [e], reaches the corners [cs] one after the other (strip positions i+1, i+2, ...), every crossed edge passing
      the seam test, the exit corner of each face being StoreStrip's / GenerateStripsFromCorner's. *)
  Fixpoint W (i e : nat) (cs : list nat) : Prop :=
    match cs with
    | [] => True
    | c :: r => link e c /\ W (S i) (step_corner (S i) c) r
    end.

  Lemma W_parity cs : forall i j e, Nat.odd i = Nat.odd j -> W i e cs -> W j e cs.
  Proof.
    induction cs as [|c r IH]; intros i j e Hp H; cbn [W] in *; auto.
    destruct H as [H1 H2]. split; auto.
    rewrite (step_corner_parity (S j) (S i)) by (try lia; rewrite !Nat.odd_succ, <- !Nat.negb_odd; congruence).
    eapply IH; [|exact H2]. rewrite !Nat.odd_succ, <- !Nat.negb_odd; congruence.
  Qed.
  Lemma W_app_l cs1 : forall cs2 i e, W i e (cs1 ++ cs2) -> W i e cs1.
  Proof. induction cs1 as [|c r IH]; intros; cbn [W app] in *; auto. destruct H; split; eauto. Qed.

  (* ---------------------------------------------------------------- the growing loop *)
  Lemma grow_step k b vis ci fi na start acc :
    grow faces opp (S k) b vis ci fi na start acc =
    if nth fi vis true then Some (vis, acc, start, na)
    else match get_opposite faces opp (step_corner na ci) with
         | None => Some (upd fi true vis, acc ++ [fi], (if b && Nat.odd na then ci else start), S na)
         | Some ci2 => grow faces opp k b (upd fi true vis) ci2 (c_face ci2) (S na) (if b && Nat.odd na then ci else start) (acc ++ [fi])
         end.
  Proof.
    cbn [grow]. destruct (nth fi vis true); auto.
    destruct na as [|na].
    - cbn. rewrite andb_false_r. reflexivity.
    - replace (Nat.ltb 1 (S (S na))) with true by (symmetry; apply Nat.ltb_lt; lia).
      unfold step_corner. cbn [Nat.eqb].
      rewrite (Nat.odd_succ (S na)), <- Nat.negb_odd.
      destruct (Nat.odd (S na)); cbn [negb]; destruct b; cbn [andb]; reflexivity.
  Qed.

  (** the start corner after a backward pass: the corner at which the last even face was reached *)
  Fixpoint bstart (n start : nat) (cs : list nat) : nat :=
    match cs with [] => start | c :: r => bstart (S n) (if Nat.odd n then c else start) r end.

  Lemma grow_spec : forall fuel b vis ci na start acc, count_unvis vis < fuel ->
    exists cs,
      grow faces opp fuel b vis ci (c_face ci) na start acc =
        Some (mark (map c_face cs) vis, acc ++ map c_face cs, (if b then bstart na start cs else start), na + length cs) /\
      NoDup (map c_face cs) /\ Forall (unvis vis) (map c_face cs) /\
      (cs = [] /\ nth (c_face ci) vis true = true \/ exists r, cs = ci :: r /\ W na (step_corner na ci) r).
  Proof.
    induction fuel as [|k IH]; intros b vis ci na start acc Hf; [lia|].
    rewrite grow_step. destruct (nth (c_face ci) vis true) eqn:Ev.
    - exists []. cbn. rewrite app_nil_r, Nat.add_0_r. split; [destruct b; reflexivity|]. repeat split; auto; constructor.
    - assert (Hc := count_unvis_upd vis (c_face ci) Ev).
      destruct (get_opposite faces opp (step_corner na ci)) as [c2|] eqn:Eg.
      + destruct (IH b (upd (c_face ci) true vis) c2 (S na) (if b && Nat.odd na then ci else start) (acc ++ [c_face ci])) as (cs & E & ND & FA & Hw); [lia|].
        exists (ci :: cs). cbn [map mark length]. rewrite E. rewrite <- app_assoc. cbn [app].
        replace (S na + length cs) with (na + S (length cs)) by lia.
        split. { f_equal. f_equal. destruct b; cbn [andb bstart]; reflexivity. }
        assert (Hnot : ~ In (c_face ci) (map c_face cs)).
        { intros Hin. rewrite Forall_forall in FA. apply FA in Hin. unfold unvis in Hin.
          rewrite nth_upd_true, Nat.eqb_refl in Hin. discriminate. }
        split. { constructor; auto. }
        split. { constructor; [exact Ev|]. eapply Forall_impl; [|exact FA]. intros f Hu. unfold unvis in *.
                 rewrite nth_upd_true in Hu. apply orb_false_iff in Hu. tauto. }
        right. exists cs. split; auto. destruct Hw as [[-> _] | (r & -> & Hw)]; cbn [W]; auto.
      + exists [ci]. cbn [map mark length]. replace (na + 1) with (S na) by lia.
        split. { f_equal. f_equal. destruct b; cbn [andb bstart]; reflexivity. }
        split. { constructor; auto. constructor. }
        split. { constructor; auto. }
        right. exists []. split; auto. exact I.
  Qed.
  (* ---------------------------------------------------------------- retracing: the backward pass, reversed *)
  Lemma last_cons {A} (a d : A) l : last (a :: l) d = last l a.
  Proof. revert a d. induction l as [|b l IH]; intros; [reflexivity|]. change (last (a :: b :: l) d) with (last (b :: l) d). rewrite !IH. reflexivity. Qed.

  Lemma step_step n c : step_corner (S (S (S n))) (step_corner n c) = if Nat.eqb n 0 then c_prev c else c.
  Proof.
    destruct n as [|n]. { reflexivity. }
    rewrite (step_corner_pos (S (S (S (S n))))) by lia. rewrite (step_corner_pos (S n)) by lia.
    cbn [Nat.eqb]. rewrite (Nat.odd_succ (S (S (S n)))), (Nat.even_succ (S (S n))), (Nat.odd_succ (S n)), <- (Nat.negb_odd (S n)).
    destruct (Nat.odd (S n)); cbn [negb]; [apply next_prev | apply prev_next].
  Qed.

  Lemma back_rev F : opp_wf -> forall P' n c rs,
    W (S n) (if Nat.eqb n 0 then c_prev c else c) (rs ++ F) ->
    W n (step_corner n c) P' ->
    exists rs', W (S (n + length P')) (if Nat.eqb (n + length P') 0 then c_prev (last P' c) else last P' c) (rs' ++ F) /\
                map c_face rs' = rev (map c_face (removelast (c :: P'))) ++ map c_face rs.
  Proof.
    intros WF. induction P' as [|c' P'' IH]; intros n c rs HI HW.
    - exists rs. cbn [length last removelast map rev app]. rewrite Nat.add_0_r. auto.
    - cbn [W] in HW. destruct HW as [HL HW].
      destruct (IH (S n) c' (step_corner n c :: rs)) as (rs' & H1 & H2); auto.
      { cbn [Nat.eqb app W]. split; [apply link_sym; auto|].
        rewrite step_step. eapply W_parity; [|exact HI]. reflexivity. }
      exists rs'. cbn [length]. replace (n + S (length P'')) with (S n + length P'') by lia. rewrite last_cons.
      split; [exact H1|]. rewrite H2. change (removelast (c :: c' :: P'')) with (c :: removelast (c' :: P'')).
      cbn [map rev]. rewrite face_step, <- app_assoc. reflexivity.
  Qed.

  Lemma bstart_snoc cs : forall n start c, bstart n start (cs ++ [c]) = if Nat.odd (n + length cs) then c else bstart n start cs.
  Proof.
    induction cs as [|a r IH]; intros; cbn [app bstart length].
    - rewrite Nat.add_0_r. reflexivity.
    - rewrite IH. replace (S n + length r) with (n + S (length r)) by lia. reflexivity.
  Qed.

  Lemma NoDup_app_intro {A} (l1 l2 : list A) : NoDup l1 -> NoDup l2 -> (forall x, In x l1 -> ~ In x l2) -> NoDup (l1 ++ l2).
  Proof.
    induction l1 as [|a r IH]; intros H1 H2 H; cbn; auto. inversion H1; subst.
    constructor. { rewrite in_app_iff. intros [X|X]; [auto|]. eapply H; [left; reflexivity|exact X]. }
    apply IH; auto. intros x Hx. apply H. right; auto.
  Qed.

  (** what GenerateStripsFromCorner delivers: a start corner from which StoreStrip's walk, crossing only edges that
      pass the seam test, visits exactly the faces of strip_faces_ (in another order), all of them unvisited and
      pairwise different, the seed face among them *)
  Definition strip_ok (vis : list bool) (fi : nat) (sf : list nat) (start : nat) : Prop :=
    exists cs, W 0 start cs /\ Permutation (map c_face (start :: cs)) sf /\ NoDup sf /\ Forall (unvis vis) sf /\ In fi sf.

  Lemma strip_from_corner_spec : opp_wf -> forall vis ci, length vis = nf -> unvis vis (c_face ci) ->
    exists sf start, strip_from_corner faces opp vis ci = Some (sf, start) /\ strip_ok vis (c_face ci) sf start.
  Proof.
    intros WF vis ci Hlen Hun. unfold strip_from_corner.
    destruct (grow_spec (S nf) false vis ci 0 ci []) as (cs1 & E1 & ND1 & FA1 & Hw1).
    { pose proof (count_unvis_le vis). lia. }
    rewrite E1. destruct Hw1 as [[_ Hv] | (F & -> & HF)]; [unfold unvis in Hun; congruence|].
    change (step_corner 0 ci) with ci in HF. cbn [app]. set (acc1 := map c_face (ci :: F)) in *.
    assert (Hfwd : strip_ok vis (c_face ci) acc1 ci).
    { exists F. repeat split; auto. left; reflexivity. }
    destruct (get_opposite faces opp (c_prev ci)) as [o|] eqn:Eo. 2:{ eauto. }
    rewrite next_next. rewrite (link_opp _ _ Eo).
    destruct (grow_spec (S nf) true (mark acc1 vis) (c_next o) 0 ci acc1) as (cs2 & E2 & ND2 & FA2 & Hw2).
    { pose proof (count_unvis_le (mark acc1 vis)). rewrite mark_length in *. lia. }
    rewrite E2. cbn [Nat.add].
    (* both outcomes are an even-length prefix of the backward pass *)
    assert (Hpre : forall P T, cs2 = P ++ T -> Nat.odd (length P) = false ->
                               strip_ok vis (c_face ci) (acc1 ++ map c_face P) (bstart 0 ci P)).
    { intros P T EP Hev.
      destruct (exists_last_or_nil P) as [-> | (P0 & y & ->)].
      { cbn. rewrite app_nil_r. exact Hfwd. }
      rewrite app_length in Hev. cbn [length] in Hev.
      rewrite bstart_snoc. cbn [Nat.add].
      assert (Hodd : Nat.odd (length P0) = true).
      { replace (length P0 + 1) with (S (length P0)) in Hev by lia. rewrite Nat.odd_succ, <- Nat.negb_odd in Hev.
        destruct (Nat.odd (length P0)); auto. }
      rewrite Hodd.
      destruct Hw2 as [[-> _] | (r & Ecs & Hr)]; [destruct P0; discriminate|].
      change (step_corner 0 (c_next o)) with (c_next o) in Hr.
      destruct P0 as [|c0 P']; [discriminate|].
      assert (c0 = c_next o /\ r = (P' ++ [y]) ++ T) as [-> ->].
      { rewrite Ecs in EP. cbn in EP. inversion EP; auto. }
      apply W_app_l in Hr.
      destruct (back_rev F WF (P' ++ [y]) 0 (c_next o) [c_prev ci]) as (rs' & H1 & H2).
      { cbn [Nat.eqb app W]. rewrite prev_next. split; [apply link_sym; auto|].
        change (step_corner 2 (c_prev ci)) with (c_next (c_prev ci)). rewrite next_prev.
        eapply W_parity; [|exact HF]. reflexivity. }
      { exact Hr. }
      rewrite app_length in H1. cbn [length Nat.add] in H1.
      replace (length P' + 1) with (S (length P')) in H1 by lia. cbn [Nat.eqb] in H1.
      rewrite last_last in H1.
      exists (rs' ++ F). split.
      { eapply W_parity; [|exact H1]. cbn [length] in Hodd. rewrite Nat.odd_succ, <- Nat.negb_odd in Hodd.
        change (Nat.odd (S (S (length P')))) with (Nat.odd (length P')).
        destruct (Nat.odd (length P')); [discriminate|reflexivity]. }
      assert (Hrl : removelast (c_next o :: P' ++ [y]) = c_next o :: P').
      { change (c_next o :: P' ++ [y]) with ((c_next o :: P') ++ [y]). apply removelast_last. }
      rewrite Hrl in H2.
      split.
      { change (c_next o :: P' ++ [y]) with ((c_next o :: P') ++ [y]).
        cbn [map]. rewrite !map_app, H2. cbn [map]. rewrite face_prev. unfold acc1. cbn [map].
        rewrite <- app_assoc. apply perm_strip. }
      assert (HP : incl (map c_face ((c_next o :: P') ++ [y])) (map c_face cs2)).
      { rewrite EP. change (c_next o :: P' ++ [y]) with ((c_next o :: P') ++ [y]). rewrite (map_app c_face (_ ++ _) T). apply incl_appl, incl_refl. }
      rewrite Forall_forall in FA2.
      split.
      { apply NoDup_app_intro; auto.
        - rewrite EP in ND2. rewrite map_app in ND2. apply NoDup_app_l in ND2. exact ND2.
        - intros x Hx Hx2. apply HP in Hx2. apply FA2 in Hx2. apply unvis_mark in Hx2. tauto. }
      split.
      { apply Forall_app. split; auto. apply Forall_forall. intros x Hx. apply HP in Hx. apply FA2 in Hx. apply unvis_mark in Hx. tauto. }
      apply in_or_app. left. left. reflexivity. }
    destruct (Nat.odd (length cs2)) eqn:Eodd.
    - destruct (exists_last_or_nil cs2) as [-> | (P & x & EP)]; [discriminate|].
      exists (acc1 ++ map c_face P), (bstart 0 ci P). rewrite EP in *.
      rewrite app_length in Eodd. cbn [length] in Eodd. replace (length P + 1) with (S (length P)) in Eodd by lia.
      rewrite Nat.odd_succ, <- Nat.negb_odd in Eodd.
      assert (Hev : Nat.odd (length P) = false) by (destruct (Nat.odd (length P)); auto; discriminate).
      split; [|eapply Hpre; eauto].
      rewrite bstart_snoc, Nat.add_0_l, Hev. rewrite map_app, app_assoc. cbn [map]. rewrite removelast_last. reflexivity.
    - exists (acc1 ++ map c_face cs2), (bstart 0 ci cs2). split; auto. apply (Hpre cs2 []); auto. symmetry; apply app_nil_r.
  Qed.
  Lemma find_longest_spec : opp_wf -> forall vis fi, length vis = nf -> unvis vis fi ->
    exists sf start, find_longest faces opp vis fi = Some (sf, start) /\ strip_ok vis fi sf start.
  Proof.
    intros WF vis fi Hlen Hun. unfold find_longest.
    assert (F0 : c_face (3 * fi) = fi) by (unfold c_face; lia).
    assert (F1 : c_face (3 * fi + 1) = fi) by (unfold c_face; lia).
    assert (F2 : c_face (3 * fi + 2) = fi) by (unfold c_face; lia).
    destruct (strip_from_corner_spec WF vis (3 * fi) Hlen) as (sf0 & st0 & E0 & K0); [rewrite F0; auto|].
    destruct (strip_from_corner_spec WF vis (3 * fi + 1) Hlen) as (sf1 & st1 & E1 & K1); [rewrite F1; auto|].
    destruct (strip_from_corner_spec WF vis (3 * fi + 2) Hlen) as (sf2 & st2 & E2 & K2); [rewrite F2; auto|].
    rewrite E0, E1, E2. rewrite F0 in K0. rewrite F1 in K1. rewrite F2 in K2. cbn [fst].
    assert (L0 : Nat.ltb 0 (length sf0) = true).
    { apply Nat.ltb_lt. destruct K0 as (cs & _ & _ & _ & _ & Hin). destruct sf0; [destruct Hin|cbn; lia]. }
    rewrite L0. cbn [fst].
    destruct (Nat.ltb (length sf0) (length sf1)); cbn [fst];
      match goal with |- context [Nat.ltb ?a ?b] => destruct (Nat.ltb a b) end; eauto.
  Qed.

  (* ---------------------------------------------------------------- StoreStrip as a function of its walk *)
  Fixpoint emit_cs (i : nat) (cs : list nat) : list nat :=
    match cs with
    | [] => []
    | c :: r => (if Nat.eqb i 0 then [p c; p (c_next c); p (c_prev c)] else [p c]) ++ emit_cs (S i) r
    end.

  Lemma store_strip_eq n : forall i ci vis lst,
    store_strip faces opp n i ci vis lst =
    match walk opp n i ci with
    | None => None
    | Some cs => Some (emit_cs i cs, mark (map c_face cs) vis, last (emit_cs i cs) lst)
    end.
  Proof.
    induction n as [|k IH]; intros; [reflexivity|].
    cbn [store_strip walk]. destruct k as [|k'].
    - destruct (Nat.eqb i 0) eqn:Ei; cbn [emit_cs map mark app]; rewrite Ei; reflexivity.
    - assert (Es : step_corner i ci = if Nat.eqb i 0 then ci else if Nat.odd i then c_prev ci else c_next ci) by reflexivity.
      rewrite Es.
      destruct (Nat.eqb i 0) eqn:Ei.
      + destruct (opposite opp ci) as [c2|]; [|reflexivity]. rewrite IH.
        destruct (walk opp (S k') (S i) c2) as [cs|]; [|reflexivity]. cbn [option_map emit_cs map mark]. rewrite Ei.
        f_equal. f_equal. cbn [app].
        destruct (emit_cs (S i) cs) eqn:Ee; [reflexivity|]. rewrite !last_cons. reflexivity.
      + destruct (opposite opp (if Nat.odd i then c_prev ci else c_next ci)) as [c2|]; [|reflexivity]. rewrite IH.
        destruct (walk opp (S k') (S i) c2) as [cs|]; [|reflexivity]. cbn [option_map emit_cs map mark]. rewrite Ei.
        f_equal. f_equal. cbn [app].
        destruct (emit_cs (S i) cs) eqn:Ee; [reflexivity|]. rewrite !last_cons. reflexivity.
  Qed.
  Lemma W_walk cs : forall i c, W i (step_corner i c) cs ->
    walk opp (S (length cs)) i c = Some (c :: cs) /\ walk_ok faces opp (S (length cs)) i c = true.
  Proof.
    induction cs as [|c' r IH]; intros i c H; cbn [length walk walk_ok W] in *; [auto|].
    destruct H as [HL HW]. rewrite (link_opp _ _ HL). unfold link in HL. rewrite HL.
    destruct (IH (S i) c' HW) as [A B]. rewrite A. cbn [option_map]. auto.
  Qed.

  (** a stored strip: the corners StoreStrip reaches, the first one being the start corner *)
  Definition good (cs : list nat) : Prop := match cs with [] => False | c :: r => W 0 c r end.

  Lemma good_walk cs : good cs -> walk opp (length cs) 0 (hd 0 cs) = Some cs /\ walk_ok faces opp (length cs) 0 (hd 0 cs) = true.
  Proof. destruct cs as [|c r]; [intros []|]. intros H. apply (W_walk r 0 c). exact H. Qed.

  Lemma strip_decode cs : good cs -> Forall2 rot_equiv (map (tri_of_corner faces) cs) (decode_strip 0 (emit_cs 0 cs)).
  Proof.
    intros G. destruct (good_walk cs G) as [A B].
    pose proof (store_strip_eq (length cs) 0 (hd 0 cs) [] 0) as E. rewrite A in E.
    exact (proj1 (store_strip_sound faces opp _ _ _ _ _ _ _ _ B E A)).
  Qed.

  Lemma tri_of_corner_face c : rot_equiv (nth (c_face c) faces (0, 0, 0)) (tri_of_corner faces c).
  Proof.
    unfold tri_of_corner, corner_point.
    pose proof (face_next c) as Fn. pose proof (face_prev c) as Fp. unfold c_face in *. rewrite Fn, Fp.
    destruct (nth (c / 3) faces (0, 0, 0)) as [[x y] z].
    unfold rot_equiv, rot_left.
    destruct (mod3_cases c) as [H | [H | H]].
    - assert (c_next c mod 3 = 1) as -> by (clear Fn Fp; corner_arith).
      assert (c_prev c mod 3 = 2) as -> by (clear Fn Fp; corner_arith). rewrite H. cbn. auto.
    - assert (c_next c mod 3 = 2) as -> by (clear Fn Fp; corner_arith).
      assert (c_prev c mod 3 = 0) as -> by (clear Fn Fp; corner_arith). rewrite H. cbn. auto.
    - assert (c_next c mod 3 = 0) as -> by (clear Fn Fp; corner_arith).
      assert (c_prev c mod 3 = 1) as -> by (clear Fn Fp; corner_arith). rewrite H. cbn. auto.
  Qed.

  (* ---------------------------------------------------------------- coverage: the main loop *)
  Definition plan_of (css : list (list nat)) : list (nat * nat) := map (fun cs => (length cs, hd 0 cs)) css.

  Lemma gen_plan_spec : opp_wf -> forall todo fi vis done,
    todo + fi = nf -> length vis = nf ->
    (forall f, unvis vis f <-> f < nf /\ ~ In f done) -> NoDup done -> (forall f, In f done -> f < nf) ->
    (forall f, f < fi -> In f done) ->
    exists css, gen_plan faces opp todo fi vis = Some (plan_of css) /\ Forall good css /\
                Permutation (done ++ flat_map (map c_face) css) (seq 0 nf).
  Proof.
    intros WF. induction todo as [|t IH]; intros fi vis done Hn Hlen Hvis Hnd Hlt Hall.
    - exists []. cbn [gen_plan plan_of map flat_map]. rewrite app_nil_r. repeat split; auto.
      apply NoDup_Permutation; auto using seq_NoDup. intros x. rewrite in_seq. split; intros H.
      + split; [lia|]. cbn. apply Hlt. exact H.
      + apply Hall. lia.
    - cbn [gen_plan]. destruct (nth fi vis true) eqn:Ev.
      + apply IH; auto; try lia. intros f Hf. destruct (Nat.eq_dec f fi) as [->|Hne]; [|apply Hall; lia].
        destruct (in_dec Nat.eq_dec fi done) as [|Hnin]; auto. exfalso.
        assert (U : unvis vis fi) by (apply Hvis; split; [lia|auto]). unfold unvis in U. congruence.
      + destruct (find_longest_spec WF vis fi Hlen Ev) as (sf & start & E & cs & HW & HP & ND & FA & Hin).
        rewrite E. assert (Hl : length sf = S (length cs)).
        { apply Permutation_length in HP. cbn [map length] in HP. rewrite map_length in HP. lia. }
        rewrite Hl. rewrite store_strip_eq. destruct (W_walk cs 0 start HW) as [Hwalk _]. rewrite Hwalk.
        set (wk := map c_face (start :: cs)) in *.
        rewrite Forall_forall in FA.
        assert (Hsub : forall x, In x wk -> In x sf) by (intros x Hx; eapply Permutation_in; eauto).
        destruct (IH (S fi) (mark wk vis) (done ++ wk)) as (css & Eg & Gc & Pm); try lia.
        * rewrite mark_length. auto.
        * intros f. rewrite unvis_mark, Hvis, in_app_iff. tauto.
        * apply NoDup_app_intro; auto. { eapply Permutation_NoDup; [apply Permutation_sym; exact HP|exact ND]. }
          intros x Hx Hx2. apply Hsub, FA, Hvis in Hx2. tauto.
        * intros f Hf. apply in_app_or in Hf. destruct Hf as [Hf|Hf]; auto. apply Hsub, FA, unvis_lt in Hf. lia.
        * intros f Hf. apply in_or_app. destruct (Nat.eq_dec f fi) as [->|Hne]; [|left; apply Hall; lia].
          right. eapply Permutation_in; [apply Permutation_sym; exact HP|exact Hin].
        * rewrite Eg. exists ((start :: cs) :: css). cbn [plan_of map length hd flat_map]. split; [reflexivity|].
          split; [constructor; auto|]. rewrite app_assoc. exact Pm.
  Qed.
  (* ---------------------------------------------------------------- the two output streams as functions of the plan *)
  Fixpoint render_r (first : bool) (css : list (list nat)) : list (option nat) :=
    match css with
    | [] => []
    | cs :: r => (if first then [] else [None]) ++ map Some (emit_cs 0 cs) ++ render_r false r
    end.

  Fixpoint render_d (first : bool) (nenc lst : nat) (css : list (list nat)) : list nat :=
    match css with
    | [] => []
    | cs :: r =>
      let sp := p (hd 0 cs) in
      let sep := if first then [] else if Nat.odd (nenc + 2) then [lst; sp; sp] else [lst; sp] in
      let nenc1 := if first then nenc else if Nat.odd (nenc + 2) then nenc + 3 else nenc + 2 in
      sep ++ emit_cs 0 cs ++ render_d false (nenc1 + length cs) (last (emit_cs 0 cs) lst) r
    end.

  Lemma plan_of_cons_inv css n s pl : plan_of css = (n, s) :: pl ->
    exists cs css', css = cs :: css' /\ length cs = n /\ hd 0 cs = s /\ plan_of css' = pl.
  Proof. destruct css as [|cs css']; cbn; intros H; inversion H. eauto 6. Qed.

  Lemma restart_of_plan : forall todo fi vis ns css,
    gen_plan faces opp todo fi vis = Some (plan_of css) -> Forall good css ->
    gen_restart faces opp todo fi vis ns = Some (render_r (Nat.eqb ns 0) css).
  Proof.
    induction todo as [|t IH]; intros fi vis ns css H G.
    - cbn in H. inversion H as [H1]. destruct css; [reflexivity|discriminate].
    - cbn [gen_plan gen_restart] in *. destruct (nth fi vis true). { apply IH; auto. }
      destruct (find_longest faces opp vis fi) as [[sf start]|]; [|discriminate].
      destruct (store_strip faces opp (length sf) 0 start vis 0) as [[[out vis'] l']|] eqn:Es; [|discriminate].
      destruct (gen_plan faces opp t (S fi) vis') as [pl|] eqn:Eg; [|discriminate].
      inversion H as [H1]. symmetry in H1. apply plan_of_cons_inv in H1. destruct H1 as (cs & css' & -> & El & Eh & <-).
      inversion G as [|? ? Gc Gr]; subst.
      rewrite store_strip_eq in Es. destruct (good_walk cs Gc) as [Hw _]. rewrite <- El, Hw in Es. inversion Es; subst.
      rewrite (IH _ _ (S ns) css' Eg Gr). cbn [render_r Nat.eqb]. destruct ns; reflexivity.
  Qed.

  Lemma degenerate_of_plan : forall todo fi vis ns nenc lst css,
    gen_plan faces opp todo fi vis = Some (plan_of css) -> Forall good css ->
    gen_degenerate faces opp todo fi vis ns nenc lst = Some (render_d (Nat.eqb ns 0) nenc lst css).
  Proof.
    induction todo as [|t IH]; intros fi vis ns nenc lst css H G.
    - cbn in H. inversion H as [H1]. destruct css; [reflexivity|discriminate].
    - cbn [gen_plan gen_degenerate] in *. destruct (nth fi vis true). { apply IH; auto. }
      destruct (find_longest faces opp vis fi) as [[sf start]|]; [|discriminate].
      rewrite store_strip_eq in H. rewrite store_strip_eq.
      destruct (walk opp (length sf) 0 start) as [wcs|] eqn:Ew; [|discriminate].
      destruct (gen_plan faces opp t (S fi) (mark (map c_face wcs) vis)) as [pl|] eqn:Eg; [|discriminate].
      inversion H as [H1]. symmetry in H1. apply plan_of_cons_inv in H1. destruct H1 as (cs & css' & -> & El & Eh & <-).
      inversion G as [|? ? Gc Gr]; subst.
      destruct (good_walk cs Gc) as [Hw _]. rewrite <- El, Hw in Ew. inversion Ew; subst wcs.
      cbn [render_d]. destruct ns as [|ns]; cbn [Nat.ltb Nat.leb Nat.eqb].
      + rewrite (IH _ _ 1 _ _ css' Eg Gr). cbn [Nat.eqb app]. rewrite El. reflexivity.
      + destruct (Nat.odd (nenc + 2)); rewrite (IH _ _ (S (S ns)) _ _ css' Eg Gr); cbn [Nat.eqb]; rewrite El; reflexivity.
  Qed.

  (* ---------------------------------------------------------------- decoding the restart stream *)
  Lemma split_render_false css : split_restart (render_r false css) = ([], map (emit_cs 0) css).
  Proof.
    induction css as [|cs r IH]; [reflexivity|]. cbn [render_r app split_restart map].
    assert (E : forall out rest c rs, split_restart rest = (c, rs) -> split_restart (map Some out ++ rest) = (out ++ c, rs)).
    { induction out as [|a o IHo]; intros rest c rs H; cbn [map app split_restart]; auto. rewrite (IHo _ _ _ H). reflexivity. }
    rewrite (E _ _ _ _ IH). rewrite app_nil_r. reflexivity.
  Qed.
  Lemma decode_render_r css : decode_restart (render_r true css) = flat_map (fun cs => decode_strip 0 (emit_cs 0 cs)) css.
  Proof.
    destruct css as [|cs r]; [reflexivity|]. unfold decode_restart, restart_runs. cbn [render_r app].
    assert (E : forall out rest c rs, split_restart rest = (c, rs) -> split_restart (map Some out ++ rest) = (out ++ c, rs)).
    { induction out as [|a o IHo]; intros rest c rs H; cbn [map app split_restart]; auto. rewrite (IHo _ _ _ H). reflexivity. }
    rewrite (E _ _ _ _ (split_render_false r)). rewrite app_nil_r. cbn [flat_map]. f_equal.
    rewrite flat_map_concat_map, map_map, <- flat_map_concat_map. reflexivity.
  Qed.
  Lemma decode_strips_sound css : Forall good css ->
    Forall2 rot_equiv (map (tri_of_corner faces) (concat css)) (flat_map (fun cs => decode_strip 0 (emit_cs 0 cs)) css).
  Proof.
    induction 1 as [|cs r G _ IH]; cbn [concat flat_map map]; [constructor|].
    rewrite map_app. apply Forall2_app; auto. apply strip_decode; auto.
  Qed.

  (* ---------------------------------------------------------------- decoding the degenerate-triangle stream *)
  Lemma emit_length cs : forall i, length (emit_cs (S i) cs) = length cs.
  Proof. induction cs as [|c r IH]; intros; cbn [emit_cs length Nat.eqb app]; auto. Qed.
  Lemma emit_shape cs d : good cs -> exists A x E,
    emit_cs 0 cs = A ++ [x; last (emit_cs 0 cs) d] /\ length A = length cs /\ emit_cs 0 cs = p (hd 0 cs) :: E.
  Proof.
    destruct cs as [|c r]; [intros []|]. intros _.
    assert (L : length (emit_cs 0 (c :: r)) = S (S (length (c :: r)))).
    { cbn [emit_cs Nat.eqb app length]. rewrite emit_length. reflexivity. }
    destruct (split_two_last _ _ L) as (A & x & y & E & HA).
    exists A, x, (p (c_next c) :: p (c_prev c) :: emit_cs 1 r). split; [|split; [exact HA|reflexivity]].
    rewrite E at 2. replace (A ++ [x; y]) with ((A ++ [x]) ++ [y]) by (rewrite <- app_assoc; reflexivity).
    rewrite last_last. exact E.
  Qed.

  Notation tgt css := (filter tri_nondeg (map (tri_of_corner faces) (concat css))).

  Lemma decode_render_d css : Forall good css -> forall nenc lst,
    (Nat.odd nenc = false ->
       Forall2 rot_equiv (tgt css) (filter tri_nondeg (decode_strip 0 (render_d true nenc lst css)))) /\
    (forall x, Forall2 rot_equiv (tgt css) (filter tri_nondeg (decode_strip nenc (x :: lst :: render_d false nenc lst css)))).
  Proof.
    induction 1 as [|cs r G Gr IH]; intros nenc lst.
    - cbn. split; intros; constructor.
    - assert (Core : forall nenc1, Nat.odd nenc1 = false ->
        Forall2 rot_equiv (tgt (cs :: r))
          (filter tri_nondeg (decode_strip 0 (emit_cs 0 cs ++ render_d false (nenc1 + length cs) (last (emit_cs 0 cs) lst) r)))).
      { intros nenc1 Hev. destruct (emit_shape cs lst G) as (A & x' & E' & Esh & HA & _).
        set (L' := last (emit_cs 0 cs) lst) in *. rewrite Esh at 1. rewrite <- app_assoc. cbn [app].
        rewrite decode_app, <- Esh, filter_app. cbn [concat]. rewrite map_app, filter_app.
        apply Forall2_app.
        - apply Forall2_filter; [apply nondeg_rot|]. apply strip_decode; auto.
        - rewrite (decode_parity _ (0 + length A) (nenc1 + length cs)).
          + apply (proj2 (IH (nenc1 + length cs) L')).
          + rewrite HA, Nat.add_0_l, Nat.odd_add, Hev. destruct (Nat.odd (length cs)); reflexivity. }
      split.
      + intros Hev. cbn [render_d app]. apply Core; auto.
      + intros x. cbn [render_d]. destruct (emit_shape cs lst G) as (_ & _ & E' & _ & _ & Ehd).
        destruct (Nat.odd (nenc + 2)) eqn:Eo.
        * rewrite Ehd at 1. cbn [app]. rewrite nondeg_sep3, app_comm_cons, <- Ehd.
          rewrite (decode_parity _ (5 + nenc) 0).
          -- apply Core. rewrite Nat.odd_add in *. destruct (Nat.odd nenc); cbn in *; congruence.
          -- rewrite Nat.odd_add in *. destruct (Nat.odd nenc); cbn in *; congruence.
        * rewrite Ehd at 1. cbn [app]. rewrite nondeg_sep2, app_comm_cons, <- Ehd.
          rewrite (decode_parity _ (4 + nenc) 0).
          -- apply Core. rewrite Nat.odd_add in *. destruct (Nat.odd nenc); cbn in *; congruence.
          -- rewrite Nat.odd_add in *. destruct (Nat.odd nenc); cbn in *; congruence.
  Qed.
  (* ---------------------------------------------------------------- the strip clause of C14 *)
  Lemma plan_exists : opp_wf ->
    exists css, gen_plan faces opp nf 0 (repeat false nf) = Some (plan_of css) /\ Forall good css /\
                Permutation (map c_face (concat css)) (seq 0 nf).
  Proof.
    intros WF. destruct (gen_plan_spec WF nf 0 (repeat false nf) []) as (css & E & G & P); auto; try lia.
    - apply repeat_length.
    - intros f. unfold unvis. rewrite nth_repeat_false. destruct (Nat.ltb_spec f nf); cbn; intuition (try lia; try congruence).
    - constructor.
    - intros f [].
    - exists css. cbn [app] in P. rewrite flat_map_concat_map, <- concat_map in P. auto.
  Qed.

  Lemma faces_vs_corners cs : Forall2 rot_equiv (map (fun f => nth f faces (0, 0, 0)) (map c_face cs)) (map (tri_of_corner faces) cs).
  Proof. rewrite map_map. apply Forall2_map_pointwise. intros c. apply tri_of_corner_face. Qed.

  (** THEOREM: the primitive-restart stream decodes to a permutation of the mesh's faces, each up to a rotation *)
  Theorem strips_restart_preserve : opp_wf ->
    exists s l, strips_restart faces opp = Some s /\ Permutation l (seq 0 nf) /\
                Forall2 rot_equiv (map (fun f => nth f faces (0, 0, 0)) l) (decode_restart s).
  Proof.
    intros WF. destruct (plan_exists WF) as (css & E & G & P).
    exists (render_r true css), (map c_face (concat css)). split; [|split; auto].
    - unfold strips_restart. apply (restart_of_plan _ _ _ 0 css E G).
    - rewrite decode_render_r. eapply Forall2_trans; [apply rot_equiv_trans|apply faces_vs_corners|].
      apply decode_strips_sound; auto.
  Qed.

  (** THEOREM: the degenerate-triangle stream, decoded as ONE strip and with the triangles that have two equal
      indices dropped, is a permutation of the mesh's faces that have three different point ids, each up to rotation *)
  Theorem strips_degenerate_preserve : opp_wf ->
    exists s l, strips_degenerate faces opp = Some s /\ Permutation l (seq 0 nf) /\
                Forall2 rot_equiv (filter tri_nondeg (map (fun f => nth f faces (0, 0, 0)) l)) (decode_degenerate s).
  Proof.
    intros WF. destruct (plan_exists WF) as (css & E & G & P).
    exists (render_d true 0 0 css), (map c_face (concat css)). split; [|split; auto].
    - unfold strips_degenerate. apply (degenerate_of_plan _ _ _ 0 0 0 css E G).
    - unfold decode_degenerate. eapply Forall2_trans; [apply rot_equiv_trans| |].
      + apply Forall2_filter; [apply nondeg_rot|]. apply faces_vs_corners.
      + apply (proj1 (decode_render_d css G 0 0)). reflexivity.
  Qed.
End Full.

(** per-corner attribute values: a rotation of point ids is a rotation of the corner tuples of value bytes *)
Definition rot3 {A} (x y : A * A * A) : Prop := let '(a, b, c) := x in y = (a, b, c) \/ y = (b, c, a) \/ y = (c, a, b).
Lemma face_geom_rot atts f g : rot_equiv f g -> rot3 (face_geom atts f) (face_geom atts g).
Proof. destruct f as [[a b] c]. unfold rot_equiv, rot_left. intros [-> | [-> | ->]]; cbn; auto. Qed.
Lemma Forall2_map_rel {A B} (R : A -> A -> Prop) (R' : B -> B -> Prop) (f : A -> B) :
  (forall a b, R a b -> R' (f a) (f b)) -> forall l1 l2, Forall2 R l1 l2 -> Forall2 R' (map f l1) (map f l2).
Proof. intros H l1 l2 H2. induction H2; cbn; constructor; auto. Qed.

Theorem strips_restart_preserve_values faces opp atts : opp_wf faces opp ->
  exists s l, strips_restart faces opp = Some s /\ Permutation l (seq 0 (length faces)) /\
    Forall2 rot3 (map (fun f => face_geom atts (nth f faces (0, 0, 0))) l) (map (face_geom atts) (decode_restart s)).
Proof.
  intros WF. destruct (strips_restart_preserve faces opp WF) as (s & l & E & P & F). exists s, l. repeat split; auto.
  rewrite <- (map_map (fun f => nth f faces (0, 0, 0)) (face_geom atts)).
  eapply Forall2_map_rel; [|exact F]. apply face_geom_rot.
Qed.
Theorem strips_degenerate_preserve_values faces opp atts : opp_wf faces opp ->
  exists s l, strips_degenerate faces opp = Some s /\ Permutation l (seq 0 (length faces)) /\
    Forall2 rot3 (map (face_geom atts) (filter tri_nondeg (map (fun f => nth f faces (0, 0, 0)) l)))
                 (map (face_geom atts) (decode_degenerate s)).
Proof.
  intros WF. destruct (strips_degenerate_preserve faces opp WF) as (s & l & E & P & F). exists s, l. repeat split; auto.
  eapply Forall2_map_rel; [|exact F]. apply face_geom_rot.
Qed.

(** the hypothesis as a computable test (the driver evaluates it on the library's table in every generated case) *)
Lemma opp_wf_b_sound faces opp : opp_wf_b faces opp = true -> opp_wf faces opp.
Proof.
  intros H a b Hab. unfold opposite in *. unfold opp_wf_b in H. rewrite forallb_forall in H.
  assert (Ha : a < length opp).
  { destruct (Nat.lt_ge_cases a (length opp)); auto. rewrite nth_overflow in Hab by lia. discriminate. }
  specialize (H a). rewrite Hab in H. rewrite in_seq in H. specialize (H ltac:(lia)).
  apply andb_true_iff in H. destruct H as [H1 H2]. apply Nat.ltb_lt in H1.
  destruct (nth b opp None) as [a'|]; [|discriminate]. apply Nat.eqb_eq in H2. subst. auto.
Qed.
