(** Invariants of ONE run of the encoder, proved ALONG ITS TRACE from the small-step relation [SSTEP]
    (EbTraceStep_proofs): at configuration i (i symbols emitted)
      [J1]  last_encoded_symbol_id_ = i - 1, i symbols;
      [J2]  visited_faces_ = the initially visited faces + the faces of the corners processed so far;
      [J3]  face_to_split_symbol_map_ = { face of the corner of symbol m |-> m : m < i an S symbol };
      [J4]  the corner stack below its top = the LEFT corners of S symbols m (tags, strictly decreasing);
      [J5]  the recorded split events = { (m, sigma, edge) : m < i an E / L / R symbol whose right (edge 1) / left (edge 0)
            neighbour lies in the face of the S symbol sigma < m }. *)
From Coq Require Import List Arith Bool PeanoNat ZArith Lia Sorting.Sorted.
Import ListNotations.
From Draco Require Import Model.CornerTable Model.EbEncoder Model.EbTrace Proofs.CornerTable_proofs Proofs.EbTrace_proofs Proofs.EbTraceStep_proofs.

Section Inv.
Variable opp : list (option nat).
Variable tr : list cfg.   (* encoding order *)
Let N := length tr.
Let cfg0 := mk_cfg 0 (mk_est [] [] [] 0%Z 0 [] [] [] [] []).
Definition cfN (i : nat) : cfg := nth i tr cfg0.
Definition ci (i : nat) : nat := cf_corner (cfN i).
Definition sti (i : nat) : est := cf_st (cfN i).
Variables (yL : Z) (sL : est).   (* the last symbol and the state after it *)
Definition ysym (i : nat) : Z := if S i <? N then hd 0%Z (syms (sti (S i))) else yL.
(** the state after symbol i, before the pops *)
Definition aft (i : nat) (s1 : est) : Prop :=
  SPEC opp (sti i) (ci i) (ysym i) s1 /\ (S i < N -> sti (S i) = with_stack s1 (stack (sti (S i)))) /\ (S i = N -> s1 = sL).

Hypothesis Steps : forall i, S i < N -> SSTEP opp (cfN i) (cfN (S i)).
Hypothesis Last : 0 < N -> SPEC opp (sti (N - 1)) (ci (N - 1)) yL sL.
Hypothesis First : 0 < N -> syms (sti 0) = [] /\ evs (sti 0) = [] /\ f2s (sti 0) = [] /\ last_id (sti 0) = (-1)%Z /\ stack (sti 0) = [Some (ci 0)].
Hypothesis FND : forall m m', m < N -> m' < N -> ci m / 3 = ci m' / 3 -> m = m'.

Lemma aft_ex i : i < N -> exists s1, aft i s1.
Proof.
  intros Hi. unfold aft, ysym. destruct (Nat.eq_dec (S i) N) as [E|E].
  - replace (S i <? N) with false by (symmetry; apply Nat.ltb_ge; lia). exists sL. replace i with (N - 1) by lia. split; [apply Last; lia|]. split; [lia|auto].
  - assert (L : S i < N) by lia. replace (S i <? N) with true by (symmetry; apply Nat.ltb_lt; lia).
    destruct (Steps i L) as (y & s1 & Sp & Cs). fold (sti i) (ci i) in Sp. exists s1.
    assert (Ey : hd 0%Z (syms (sti (S i))) = y /\ sti (S i) = with_stack s1 (stack (sti (S i)))).
    { destruct Sp as (Sy & _). unfold sti. destruct Cs as [(_ & E1 & _)|[(_ & E1 & _)|(_ & dead & rest & _ & E1 & _)]].
      - rewrite E1, Sy. split; [reflexivity|]. symmetry. apply with_stack_id.
      - rewrite E1, Sy. split; [reflexivity|]. symmetry. apply with_stack_id.
      - rewrite E1. cbn [with_stack syms stack]. rewrite Sy. split; reflexivity. }
    destruct Ey as (Ey & Es). rewrite Ey. split; [exact Sp|]. split; [intros _; exact Es|lia].
Qed.

(** a generic induction principle along the run: [P i s] for the state at configuration i, and for the final state *)
Lemma along (P : nat -> est -> Prop) :
  (0 < N -> P 0 (sti 0)) ->
  (forall i s1, i < N -> P i (sti i) -> aft i s1 -> P (S i) s1) ->
  (forall i s st, P i s -> P i (with_stack s st)) ->
  (forall i, i < N -> P i (sti i)) /\ (0 < N -> P N sL).
Proof.
  intros P0 Ps Pw.
  assert (A : forall i, i < N -> P i (sti i)).
  { induction i as [|i IH]; intros Hi; [apply P0; lia|].
    destruct (aft_ex i ltac:(lia)) as (s1 & Af). pose proof (Ps i s1 ltac:(lia) (IH ltac:(lia)) Af) as X.
    destruct Af as (_ & E & _). rewrite (E Hi). apply Pw. exact X. }
  split; auto. intros HN. destruct (aft_ex (N - 1) ltac:(lia)) as (s1 & Af).
  pose proof (Ps (N - 1) s1 ltac:(lia) (A (N - 1) ltac:(lia)) Af) as X. destruct Af as (_ & _ & E).
  replace (S (N - 1)) with N in * by lia. rewrite <- (E eq_refl). exact X.
Qed.

(** ** J1 *)
Definition J1 (i : nat) (s : est) : Prop := last_id s = (Z.of_nat i - 1)%Z /\ length (syms s) = i.
Lemma J1_all : (forall i, i < N -> J1 i (sti i)) /\ (0 < N -> J1 N sL).
Proof.
  apply along.
  - intros H. destruct (First H) as (A & _ & _ & B & _). split; [rewrite B; reflexivity|rewrite A; reflexivity].
  - intros i s1 Hi (A & B) ((Sy & _ & _ & _ & Li & _) & _). split; [rewrite Li, A; lia|rewrite Sy; cbn [length]; lia].
  - intros i s st H. exact H.
Qed.

(** ** J2 *)
Definition J2 (i : nat) (s : est) : Prop := length (vf s) = length (vf (sti 0)) /\
  forall f, nth f (vf s) false = true <-> (nth f (vf (sti 0)) false = true \/ exists m, m < i /\ ci m / 3 = f).
Lemma J2_all : (forall i, i < N -> J2 i (sti i)) /\ (0 < N -> J2 N sL).
Proof.
  apply along.
  - intros H. split; auto. intros f. split; [auto|]. intros [X|(m & Hm & _)]; [auto|lia].
  - intros i s1 Hi (L & A) ((_ & _ & Vf & Lv & _) & _). split; [rewrite Vf, upd_length; exact L|].
    intros f. rewrite Vf, nth_upd. destruct ((f =? ci i / 3) && (ci i / 3 <? length (vf (sti i)))) eqn:E.
    + apply andb_prop in E. destruct E as [E _]. apply Nat.eqb_eq in E. split; auto. intros _. right. exists i. split; [lia|auto].
    + rewrite A. split.
      * intros [X|(m & Hm & Em)]; [auto|right; exists m; split; [lia|auto]].
      * intros [X|(m & Hm & Em)]; [auto|]. destruct (Nat.eq_dec m i) as [->|Nm]; [|right; exists m; split; [lia|auto]].
        exfalso. apply andb_false_iff in E. destruct E as [E|E]; [apply Nat.eqb_neq in E; congruence|apply Nat.ltb_ge in E; lia].
  - intros i s st H. exact H.
Qed.

(** ** J3 *)
Definition J3 (i : nat) (s : est) : Prop :=
  forall f id, split_symbol_on_face (f2s s) f = Some id <-> exists m, m < i /\ id = Z.of_nat m /\ ysym m = 1%Z /\ ci m / 3 = f.
Lemma J3_all : (forall i, i < N -> J3 i (sti i)) /\ (0 < N -> J3 N sL).
Proof.
  destruct J1_all as (J1a & _).
  apply along.
  - intros H f id. destruct (First H) as (_ & _ & B & _). rewrite B. cbn. split; [discriminate|]. intros (m & Hm & _). lia.
  - intros i s1 Hi A ((_ & _ & _ & _ & Li & Cs) & _). cbv zeta in Cs. destruct (J1a i Hi) as (Lid & _).
    assert (Same : f2s s1 = f2s (sti i) -> ysym i <> 1%Z -> J3 (S i) s1).
    { intros E Ny f id. rewrite E, (A f id). split; intros (m & Hm & X); exists m; (split; [|exact X]); try lia.
      destruct (Nat.eq_dec m i) as [->|]; [|lia]. destruct X as (_ & X & _). congruence. }
    destruct Cs as [(Y & _ & _ & F)|[(Y & _ & _ & _ & _ & F)|[(Y & _ & _ & _ & _ & F)|[(Y & _ & _ & _ & _ & _ & F)|(Y & _ & _ & _ & _ & _ & F)]]]];
      try (apply Same; [exact F|rewrite Y; discriminate]).
    intros f id. rewrite F. cbn [split_symbol_on_face]. destruct (ci i / 3 =? f) eqn:E.
    + apply Nat.eqb_eq in E. split.
      * intros X. inversion X. exists i. split; [lia|]. split; [lia|]. split; auto.
      * intros (m & Hm & Ei & Ym & Fm). assert (m = i) by (apply FND; try lia; congruence). subst m. f_equal. lia.
    + apply Nat.eqb_neq in E. rewrite (A f id). split; intros (m & Hm & X); exists m; (split; [|exact X]); try lia.
      destruct (Nat.eq_dec m i) as [->|]; [|lia]. destruct X as (_ & _ & X). congruence.
  - intros i s st H. exact H.
Qed.

(** ** J5: the events *)
Definition EVAT (m : nat) (spl ed : Z) : Prop :=
  exists x sg, spl = Z.of_nat sg /\ sg < m /\ ysym sg = 1%Z /\ ci sg / 3 = x / 3 /\
    ((ed = 1%Z /\ (ysym m = 5%Z \/ ysym m = 7%Z) /\ oat opp (next_c (ci m)) = Some x) \/
     (ed = 0%Z /\ (ysym m = 3%Z \/ ysym m = 7%Z) /\ oat opp (prev_c (ci m)) = Some x)).
Definition J5 (i : nat) (s : est) : Prop :=
  forall src spl ed, In (src, spl, ed) (evs s) <-> exists m, m < i /\ src = Z.of_nat m /\ EVAT m spl ed.

Lemma chk_ev_in m id ev o edge e : In e (chk_ev m id ev o edge) <->
  (In e ev \/ exists x sp, o = Some x /\ split_symbol_on_face m (x / 3) = Some sp /\ e = (id, sp, edge)).
Proof.
  unfold chk_ev. destruct o as [x|].
  - destruct (split_symbol_on_face m (x / 3)) as [sp|] eqn:E; cbn [In].
    + split; [intros [<-|H]; [right; exists x, sp; auto|auto]|intros [H|(x' & sp' & A & B & C)]; [auto|]].
      inversion A; subst x'. rewrite E in B. inversion B; subst. auto.
    + split; [auto|]. intros [H|(x' & sp' & A & B & C)]; [auto|]. inversion A; subst x'. congruence.
  - split; [auto|]. intros [H|(x' & sp' & A & _)]; [auto|discriminate].
Qed.

Lemma J5_all : (forall i, i < N -> J5 i (sti i)) /\ (0 < N -> J5 N sL).
Proof.
  destruct J1_all as (J1a & _). destruct J3_all as (J3a & _).
  apply along.
  - intros H src spl ed. destruct (First H) as (_ & B & _). rewrite B. cbn. split; [tauto|]. intros (m & Hm & _). lia.
  - intros i s1 Hi A ((_ & _ & _ & _ & Li & Cs) & _). cbv zeta in Cs. destruct (J1a i Hi) as (Lid & _).
    assert (Lid1 : last_id s1 = Z.of_nat i) by lia.
    assert (Old : forall src spl ed, (exists m, m < i /\ src = Z.of_nat m /\ EVAT m spl ed) ->
              exists m, m < S i /\ src = Z.of_nat m /\ EVAT m spl ed).
    { intros src spl ed (m & Hm & X). exists m. split; [lia|exact X]. }
    assert (New : forall src spl ed, (exists m, m < S i /\ src = Z.of_nat m /\ EVAT m spl ed) ->
              (exists m, m < i /\ src = Z.of_nat m /\ EVAT m spl ed) \/ (src = Z.of_nat i /\ EVAT i spl ed)).
    { intros src spl ed (m & Hm & X & Y). destruct (Nat.eq_dec m i) as [->|]; [right; auto|left; exists m; split; [lia|auto]]. }
    assert (F2 : forall x sp, split_symbol_on_face (f2s (sti i)) (x / 3) = Some sp <->
              exists sg, sp = Z.of_nat sg /\ sg < i /\ ysym sg = 1%Z /\ ci sg / 3 = x / 3).
    { intros x sp. pose proof (J3a i Hi (x / 3) sp) as X. split.
      - intros H. apply X in H. destruct H as (m & A1 & A2 & A3 & A4). exists m. auto.
      - intros (sg & A1 & A2 & A3 & A4). apply X. exists sg. auto. }
    assert (NoNew : evs s1 = evs (sti i) -> (forall spl ed, ~ EVAT i spl ed) -> J5 (S i) s1).
    { intros E Nn src spl ed. rewrite E, (A src spl ed). split; [apply Old|]. intros X. destruct (New _ _ _ X) as [Y|(_ & Y)]; [exact Y|destruct (Nn _ _ Y)]. }
    destruct Cs as [(Y & _ & Ev & _)|[(Y & _ & _ & _ & Ev & _)|[(Y & _ & _ & _ & Ev & _)|[(Y & _ & _ & _ & _ & Ev & _)|(Y & _ & _ & _ & _ & Ev & _)]]]].
    + apply NoNew; auto. intros spl ed (x & sg & _ & _ & _ & _ & [(_ & [Z|Z] & _)|(_ & [Z|Z] & _)]); congruence.
    + (* R *)
      intros src spl ed. rewrite Ev, chk_ev_in, (A src spl ed), Lid1. split.
      * intros [X|(x & sp & Eo & Es & Ee)]; [apply Old; exact X|]. inversion Ee; subst src spl ed.
        apply F2 in Es. destruct Es as (sg & -> & Hs & Ys & Fs). exists i. split; [lia|]. split; [reflexivity|].
        exists x, sg. split; [reflexivity|]. split; [exact Hs|]. split; [exact Ys|]. split; [exact Fs|].
        left. split; [reflexivity|]. split; [left; exact Y|exact Eo].
      * intros X. destruct (New _ _ _ X) as [Z|(-> & x & sg & -> & Hs & Ys & Fs & [(-> & _ & Eo)|(_ & [Z|Z] & _)])]; [left; exact Z| |congruence|congruence].
        right. exists x, (Z.of_nat sg). split; auto. split; [|reflexivity]. apply F2. exists sg. auto.
    + (* L *)
      intros src spl ed. rewrite Ev, chk_ev_in, (A src spl ed), Lid1. split.
      * intros [X|(x & sp & Eo & Es & Ee)]; [apply Old; exact X|]. inversion Ee; subst src spl ed.
        apply F2 in Es. destruct Es as (sg & -> & Hs & Ys & Fs). exists i. split; [lia|]. split; [reflexivity|].
        exists x, sg. split; [reflexivity|]. split; [exact Hs|]. split; [exact Ys|]. split; [exact Fs|].
        right. split; [reflexivity|]. split; [left; exact Y|exact Eo].
      * intros X. destruct (New _ _ _ X) as [Z|(-> & x & sg & -> & Hs & Ys & Fs & [(_ & [Z|Z] & _)|(-> & _ & Eo)])]; [left; exact Z|congruence|congruence|].
        right. exists x, (Z.of_nat sg). split; auto. split; [|reflexivity]. apply F2. exists sg. auto.
    + (* E *)
      intros src spl ed. rewrite Ev, !chk_ev_in, (A src spl ed), Lid1. split.
      * intros [[X|(x & sp & Eo & Es & Ee)]|(x & sp & Eo & Es & Ee)]; [apply Old; exact X| |]; inversion Ee; subst src spl ed;
          apply F2 in Es; destruct Es as (sg & -> & Hs & Ys & Fs); exists i; (split; [lia|]); (split; [reflexivity|]);
          exists x, sg; (split; [reflexivity|]); (split; [exact Hs|]); (split; [exact Ys|]); (split; [exact Fs|]);
          [left|right]; (split; [reflexivity|]); (split; [right; exact Y|exact Eo]).
      * intros X. destruct (New _ _ _ X) as [Z|(-> & x & sg & -> & Hs & Ys & Fs & [(-> & _ & Eo)|(-> & _ & Eo)])]; [left; left; exact Z| |].
        -- left. right. exists x, (Z.of_nat sg). split; auto. split; [|reflexivity]. apply F2. exists sg. auto.
        -- right. exists x, (Z.of_nat sg). split; auto. split; [|reflexivity]. apply F2. exists sg. auto.
    + apply NoNew; auto. intros spl ed (x & sg & _ & _ & _ & _ & [(_ & [Z|Z] & _)|(_ & [Z|Z] & _)]); congruence.
  - intros i s st H. exact H.
Qed.

(** ** J6: no event is recorded twice *)
Lemma chk_ev_nodup m id ev o edge : NoDup ev -> (forall spl, ~ In (id, spl, edge) ev) -> NoDup (chk_ev m id ev o edge).
Proof.
  intros ND Ni. unfold chk_ev. destruct o as [x|]; auto. destruct (split_symbol_on_face m (x / 3)) as [sp|]; auto.
  constructor; auto.
Qed.

Definition J6 (i : nat) (s : est) : Prop := NoDup (evs s).
Lemma J6_all : (forall i, i < N -> J6 i (sti i)) /\ (0 < N -> J6 N sL).
Proof.
  destruct J1_all as (J1a & _). destruct J5_all as (J5a & _).
  apply along.
  - intros H. destruct (First H) as (_ & B & _). unfold J6. rewrite B. constructor.
  - intros i s1 Hi A ((_ & _ & _ & _ & Li & Cs) & _). cbv zeta in Cs. destruct (J1a i Hi) as (Lid & _).
    assert (Lid1 : last_id s1 = Z.of_nat i) by lia. unfold J6 in *.
    assert (Fresh : forall spl ed, ~ In (Z.of_nat i, spl, ed) (evs (sti i))).
    { intros spl ed Hin. apply (J5a i Hi) in Hin. destruct Hin as (m & Hm & Em & _). lia. }
    destruct Cs as [(Y & _ & Ev & _)|[(Y & _ & _ & _ & Ev & _)|[(Y & _ & _ & _ & Ev & _)|[(Y & _ & _ & _ & _ & Ev & _)|(Y & _ & _ & _ & _ & Ev & _)]]]].
    + rewrite Ev. exact A.
    + rewrite Ev, Lid1. apply chk_ev_nodup; auto.
    + rewrite Ev, Lid1. apply chk_ev_nodup; auto.
    + rewrite Ev, Lid1. apply chk_ev_nodup; [apply chk_ev_nodup; auto|].
      intros spl Hin. apply chk_ev_in in Hin. destruct Hin as [Hin|(x & sp & _ & _ & Ee)]; [exact (Fresh _ _ Hin)|]. inversion Ee.
    + rewrite Ev. exact A.
  - intros i s st H. exact H.
Qed.

(** ** the stacks *)
Hypothesis OPPINV : forall a b, oat opp a = Some b -> oat opp b = Some a.

Lemma next_ne_prev c : next_c c <> prev_c c.
Proof.
  intro X. destruct (corner_cases c) as [E|[E|E]]; rewrite E in X; rewrite ?next_0, ?next_1, ?next_2, ?prev_0, ?prev_1, ?prev_2 in X; lia.
Qed.

(** what the step from configuration i to i+1 does to the stack *)
Lemma step_stack i : S i < N ->
  ((ysym i = 0%Z \/ ysym i = 3%Z) /\ stack (sti (S i)) = stack (sti i) /\ oat opp (next_c (ci i)) = Some (ci (S i)))
  \/ (ysym i = 5%Z /\ stack (sti (S i)) = stack (sti i) /\ oat opp (prev_c (ci i)) = Some (ci (S i)))
  \/ (ysym i = 7%Z /\ stack (sti i) <> [] /\ exists dead rest, tl (stack (sti i)) = dead ++ Some (ci (S i)) :: rest /\
        stack (sti (S i)) = Some (ci (S i)) :: rest /\ Forall (dead_at (vf (sti (S i)))) dead /\
        nth (ci (S i) / 3) (vf (sti (S i))) false = false)
  \/ (ysym i = 1%Z /\ stack (sti i) <> [] /\ oat opp (next_c (ci i)) = Some (ci (S i)) /\
        exists l, oat opp (prev_c (ci i)) = Some l /\ nth (l / 3) (vf (sti (S i))) false = false /\
          stack (sti (S i)) = Some (ci (S i)) :: Some l :: tl (stack (sti i))).
Proof.
  intros L. destruct (Steps i L) as (y & s1 & Sp & Cs). fold (sti i) (ci i) in Sp. fold (ci i) (ci (S i)) in Cs.
  assert (Ey : ysym i = y /\ vf (sti (S i)) = vf s1).
  { unfold ysym. replace (S i <? N) with true by (symmetry; apply Nat.ltb_lt; lia).
    destruct Sp as (Sy & _). unfold sti. destruct Cs as [(_ & E1 & _)|[(_ & E1 & _)|(_ & dead & rest & _ & E1 & _)]]; rewrite E1; cbn [with_stack syms vf]; rewrite ?Sy; auto. }
  destruct Ey as (Ey & Ev). rewrite Ey, Ev.
  destruct Sp as (Sy & Pc & Vf & Lv & Li & D). cbv zeta in D.
  destruct Cs as [([Y0|Y0] & E1 & En)|[(Y0 & E1 & En)|([Y0|Y0] & dead & rest & St1 & E1 & Un & Dd)]];
    destruct D as [(Y & D)|[(Y & D)|[(Y & D)|[(Y & D)|(Y & D)]]]]; try congruence.
  - left. destruct D as (D1 & _). split; auto. unfold sti at 1. rewrite E1. auto.
  - left. destruct D as (_ & _ & D1 & _). split; auto. unfold sti at 1. rewrite E1. auto.
  - right. left. destruct D as (_ & _ & D1 & _). split; auto. unfold sti at 1. rewrite E1. auto.
  - right. right. left. destruct D as (_ & _ & Dn & D1 & _). split; auto. split; auto. exists dead, rest.
    rewrite <- D1. split; auto. unfold sti at 1. rewrite E1. cbn [with_stack stack]. auto.
  - right. right. right. destruct D as ((r & Er & Ur) & (l & El & Ul) & Dn & D1 & _). split; auto. split; auto.
    rewrite D1, Er, El in St1.
    destruct dead as [|e d'].
    + cbn [app] in St1. inversion St1 as [[Q1 Q2]]. subst r rest. split; auto. exists l. split; auto. split; auto.
      unfold sti at 1. rewrite E1. cbn [with_stack stack]. reflexivity.
    + exfalso. cbn [app] in St1. inversion St1 as [[Q1 Q2]]. subst e. inversion Dd as [|? ? Dr _]; subst. cbn [dead_at] in Dr. congruence.
Qed.

Lemma NoDup_app_r {A} (l l' : list A) : NoDup (l ++ l') -> NoDup l'.
Proof. induction l as [|a l IH]; cbn [app]; auto. intros H. inversion H; auto. Qed.

Definition lcm (m : nat) : option nat := oat opp (prev_c (ci m)).

Lemma lcm_inj m m' l : m < N -> m' < N -> lcm m = Some l -> lcm m' = Some l -> m = m'.
Proof.
  intros Hm Hm' A B. apply OPPINV in A, B. rewrite A in B. inversion B as [X]. apply FND; auto.
  rewrite <- (prev_face (ci m)), <- (prev_face (ci m')), X. reflexivity.
Qed.

(** every entry below the top is the left corner pushed by an earlier S; no entry occurs twice *)
Definition J4 (i : nat) : Prop :=
  NoDup (tl (stack (sti i))) /\
  forall e, In e (tl (stack (sti i))) -> exists m l, m < i /\ ysym m = 1%Z /\ e = Some l /\ lcm m = Some l.
Lemma J4_all : forall i, i < N -> J4 i.
Proof.
  induction i as [|i IH]; intros Hi.
  - destruct (First Hi) as (_ & _ & _ & _ & St). unfold J4. rewrite St. cbn [tl]. split; [constructor|intros e []].
  - destruct (IH ltac:(lia)) as (ND & Pv). unfold J4.
    assert (Pv' : forall e, In e (tl (stack (sti i))) -> exists m l, m < S i /\ ysym m = 1%Z /\ e = Some l /\ lcm m = Some l).
    { intros e He. destruct (Pv e He) as (m & l & A & B). exists m, l. split; [lia|exact B]. }
    destruct (step_stack i Hi) as [(_ & E & _)|[(_ & E & _)|[(_ & _ & dead & rest & E0 & E & _)|(Y & _ & _ & l & El & Ul & E)]]].
    + rewrite E. auto.
    + rewrite E. auto.
    + rewrite E. cbn [tl]. rewrite E0 in ND, Pv'. split.
      * apply NoDup_app_r in ND. inversion ND; auto.
      * intros e He. apply Pv'. apply in_or_app. right. right. exact He.
    + rewrite E. cbn [tl]. split.
      * constructor; auto. intros Hin. destruct (Pv _ Hin) as (m & l' & A & _ & B & C). inversion B; subst l'.
        assert (m = i) by (apply (lcm_inj m i l); auto; lia). lia.
      * intros e [<-|He]; [exists i, l; split; [lia|]; split; auto|apply Pv'; exact He].
Qed.

(** the entries below the top at a later time were there before, or were pushed in between *)
Lemma stack_future j0 : forall j, j0 <= j -> j < N -> forall e, In e (tl (stack (sti j))) ->
  In e (tl (stack (sti j0))) \/ exists m, j0 <= m /\ m < j /\ e = lcm m.
Proof.
  induction j as [|j IH]; intros L Hj e He.
  - assert (j0 = 0) by lia. subst j0. auto.
  - destruct (Nat.eq_dec j0 (S j)) as [->|Nj]; [auto|].
    assert (IH' : forall e, In e (tl (stack (sti j))) -> In e (tl (stack (sti j0))) \/ exists m, j0 <= m /\ m < S j /\ e = lcm m).
    { intros e0 H0. destruct (IH ltac:(lia) ltac:(lia) e0 H0) as [X|(m & A & B & C)]; [auto|right; exists m; split; [lia|split; [lia|auto]]]. }
    destruct (step_stack j Hj) as [(_ & E & _)|[(_ & E & _)|[(_ & _ & dead & rest & E0 & E & _)|(Y & _ & _ & l & El & Ul & E)]]].
    + rewrite E in He. auto.
    + rewrite E in He. auto.
    + rewrite E in He. cbn [tl] in He. apply IH'. rewrite E0. apply in_or_app. right. right. exact He.
    + rewrite E in He. cbn [tl] in He. destruct He as [<-|He]; [|auto]. right. exists j. split; [lia|]. split; [lia|]. unfold lcm. auto.
Qed.

(** visited_faces_ after symbol i *)
Definition VA (i : nat) : list bool := if S i <? N then vf (sti (S i)) else vf sL.
Lemma VA_spec i : i < N -> forall f, nth f (VA i) false = true <-> (nth f (vf (sti 0)) false = true \/ exists m, m < S i /\ ci m / 3 = f).
Proof.
  intros Hi f. destruct J2_all as (A & B). unfold VA. destruct (S i <? N) eqn:E.
  - apply Nat.ltb_lt in E. apply (A (S i) E).
  - apply Nat.ltb_ge in E. assert (S i = N) by lia. rewrite H. apply (B ltac:(lia)).
Qed.

(** an entry below the top whose face is visited after symbol i is NOT a corner at which its face is processed *)
Lemma dead_not_alive i l : i < N -> In (Some l) (tl (stack (sti i))) -> nth (l / 3) (VA i) false = true ->
  forall m2, m2 < N -> ci m2 <> l.
Proof.
  intros Hi Hin Vis m2 Hm2 Ec.
  destruct (J4_all i Hi) as (_ & Pv). destruct (Pv _ Hin) as (m & l' & Hm & Ym & El & Lm). inversion El; subst l'. clear El.
  (* at the S symbol m the face of l was not visited *)
  assert (HSm : S m < N) by lia.
  assert (Unv : nth (l / 3) (vf (sti (S m))) false = false).
  { destruct (step_stack m HSm) as [([Y|Y] & _)|[(Y & _)|[(Y & _)|(_ & _ & _ & l0 & El0 & Ul & _)]]]; try congruence.
    unfold lcm in Lm. rewrite El0 in Lm. inversion Lm; subst l0. exact Ul. }
  destruct J2_all as (J2a & _). destruct (J2a (S m) HSm) as (_ & J2m).
  assert (Nm : ~ (nth (l / 3) (vf (sti 0)) false = true \/ exists m', m' < S m /\ ci m' / 3 = l / 3)).
  { intro X. apply J2m in X. congruence. }
  assert (L1 : S m <= m2).
  { destruct (le_lt_dec (S m) m2); auto. exfalso. apply Nm. right. exists m2. split; [lia|rewrite Ec; reflexivity]. }
  assert (L2 : m2 <= i).
  { apply (VA_spec i Hi) in Vis. destruct Vis as [X|(m' & Hm' & Em')]; [exfalso; apply Nm; auto|].
    assert (m' = m2) by (apply FND; try lia; rewrite Ec; exact Em'). lia. }
  (* how the corner l = ci m2 was reached *)
  destruct m2 as [|p]; [lia|].
  assert (Side : forall sd, oat opp sd = Some (ci (S p)) -> sd / 3 = ci p / 3 -> p = m /\ sd = prev_c (ci m)).
  { intros sd Es Fs. rewrite Ec in Es. apply OPPINV in Es. unfold lcm in Lm. apply OPPINV in Lm. rewrite Lm in Es. inversion Es as [X].
    split; auto. apply FND; try lia. rewrite <- Fs, <- X. apply prev_face. }
  destruct (step_stack p Hm2) as [([Y|Y] & _ & En)|[(Y & _ & En)|[(Y & _ & dead & rest & E0 & E & _)|(Y & _ & En & _)]]].
  - destruct (Side _ En (next_face _)) as (-> & _). congruence.
  - destruct (Side _ En (next_face _)) as (-> & _). congruence.
  - destruct (Side _ En (prev_face _)) as (-> & _). congruence.
  - (* popped alive at p: the entry cannot be on the stack later *)
    destruct (J4_all p ltac:(lia)) as (NDp & _). rewrite E0 in NDp. rewrite Ec in *.
    assert (Nr : ~ In (Some l) rest).
    { apply NoDup_app_r in NDp. inversion NDp; auto. }
    destruct (stack_future (S p) i L2 Hi _ Hin) as [X|(m'' & A & B & C)].
    + rewrite E in X. cbn [tl] in X. exact (Nr X).
    + assert (m = m'') by (apply (lcm_inj m m'' l); auto; lia). lia.
  - destruct (Side _ En (next_face _)) as (-> & X). exact (next_ne_prev _ X).
Qed.
End Inv.
