(** EBSIM with TOPOLOGY SPLIT EVENTS, the DECODER half.

    A script now also carries the events, in decoder indices and grouped by their source symbol: [EVseg k] lists the
    events (dp, right) whose source is the decoder symbol [k] (an E / L / R); dp > k is the decoder index of the split
    symbol S, [right] the edge (RIGHT_FACE_EDGE / LEFT_FACE_EDGE).  The raw triple the decoder reads is
    (ns-1-k, ns-1-dp, edge) - encoder symbol ids.
      [split_loop_run]   the `while (IsTopologySplit(...))` loop after symbol k registers exactly the events of [EVseg k]:
                         topology_split_active_corners[dp] = Next / Previous of the new face's tip corner;
      [sym_loop_simE]    the symbol loop along a script with events: SIM, the stack [topsE] (an S with a registered split
                         corner pops ONE entry: its left edge is glued to that corner), the pending events, the registered
                         corners;
      [dec_roundtrip_events]  eb_core accepts and rebuilds the table described by the script.
    The S step with a registered corner uses the generalized lemmas of EbSimS_proofs ([dec_step_S_full_g], [SIM_S_g],
    [S_sep_g]: the left edge is glued to ANY corner (ja, ra) of an earlier face). *)
From Coq Require Import ZArith List Bool Lia ZifyBool Arith PeanoNat.
From Draco Require Import Model.CornerTable Model.EbEncoder Proofs.CornerTable_proofs Proofs.EbEncoder_proofs.
From Draco Require Model.Edgebreaker Proofs.Edgebreaker_proofs Proofs.Edgebreaker_fan_proofs Proofs.Edgebreaker_oob_proofs Proofs.Edgebreaker_compact_proofs.
From Draco Require Import Proofs.EbSimDec_proofs Proofs.EbSimS_proofs Proofs.EbSimLoop_proofs.
Import ListNotations.

(** the raw event triple and the registered corner, from decoder indices *)
Definition raw_ev (ns k : nat) (e : nat * bool) : Z * Z * Z :=
  (Z.of_nat (ns - 1 - k), Z.of_nat (ns - 1 - fst e), if snd e then 1%Z else 0%Z).
Definition ra_of (e : nat * bool) : nat := if snd e then 1 else 2.
Definition reg_of (k : nat) (e : nat * bool) : Z * Z := (Z.of_nat (fst e), dco k (ra_of e)).

Section DecEv.
Local Open Scope Z_scope.
Variables NC maxv : Z.
Variable rm : bool.

Lemma step_E_unfold s sid ns : D.step NC maxv rm ns s sid 7 =
  D.bind (D.step_E NC maxv (D.with_nfaces s (D.nfaces s + 1)) (D.nfaces s)) (fun s1 => D.split_loop (D.events s1) s1 ns (ns - sid - 1)).
Proof.
  unfold D.step. change (7 =? D.TOPOLOGY_C) with false. change (7 =? D.TOPOLOGY_R) with false. change (7 =? D.TOPOLOGY_L) with false.
  change (7 =? D.TOPOLOGY_S) with false. change (7 =? D.TOPOLOGY_E) with true. cbn [orb]. reflexivity.
Qed.
Lemma step_RL_unfold (is_r : bool) s sid ns : D.step NC maxv rm ns s sid (if is_r then 5 else 3) =
  D.bind (D.step_RL NC maxv is_r (D.with_nfaces s (D.nfaces s + 1)) (D.nfaces s)) (fun s1 => D.split_loop (D.events s1) s1 ns (ns - sid - 1)).
Proof.
  unfold D.step. destruct is_r.
  - change (5 =? D.TOPOLOGY_C) with false. change (5 =? D.TOPOLOGY_R) with true. cbn [orb]. reflexivity.
  - change (3 =? D.TOPOLOGY_C) with false. change (3 =? D.TOPOLOGY_R) with false. change (3 =? D.TOPOLOGY_L) with true. cbn [orb]. reflexivity.
Qed.

(** the IsTopologySplit loop after symbol [k] (its new face has the tip corner 3k on top of the stack) *)
Lemma split_loop_run (ns k : nat) : (k < ns)%nat -> Z.of_nat ns < 2147483648 ->
  forall seg rest s stk, (forall e, In e seg -> (fst e < ns)%nat) ->
  match rest with [] => True | (src, _, _) :: _ => 0 <= src < Z.of_nat ns - Z.of_nat k - 1 end ->
  D.stack s = 3 * Z.of_nat k :: stk ->
  exists s', D.split_loop (map (raw_ev ns k) seg ++ rest) s (Z.of_nat ns) (Z.of_nat ns - Z.of_nat k - 1) = D.Ok s' /\
    D.events s' = rest /\ D.splits s' = rev (map (reg_of k) seg) ++ D.splits s /\
    D.copp s' = D.copp s /\ D.c2v s' = D.c2v s /\ D.vc s' = D.vc s /\ D.nv s' = D.nv s /\ D.stack s' = D.stack s /\
    D.invalid s' = D.invalid s /\ D.nfaces s' = D.nfaces s.
Proof.
  intros Hk Hns. induction seg as [|e seg IH]; intros rest s stk Hseg Hrest Est.
  - cbn [map app]. destruct rest as [|[[src spl] ed] r].
    + cbn [D.split_loop]. eexists. split; [reflexivity|]. cbn. repeat split; reflexivity.
    + cbn [D.split_loop]. rewrite Z.mod_small by lia.
      replace (src >? Z.of_nat ns - Z.of_nat k - 1) with false by lia.
      replace (src =? Z.of_nat ns - Z.of_nat k - 1) with false by lia. cbn [negb].
      eexists. split; [reflexivity|]. cbn. repeat split; reflexivity.
  - cbn [map app]. unfold raw_ev at 1. cbn [D.split_loop].
    assert (He : (fst e < ns)%nat) by (apply Hseg; left; auto).
    rewrite Z.mod_small by lia.
    replace (Z.of_nat (ns - 1 - k) >? Z.of_nat ns - Z.of_nat k - 1) with false by lia.
    replace (Z.of_nat (ns - 1 - k) =? Z.of_nat ns - Z.of_nat k - 1) with true by lia. cbn [negb].
    rewrite (to_i32_small (Z.of_nat (ns - 1 - fst e))) by lia.
    replace (Z.of_nat (ns - 1 - fst e) <? 0) with false by lia.
    rewrite Est.
    set (ncz := if (if snd e then 1 else 0) mod 2 =? 1 then D.next_c (3 * Z.of_nat k) else D.prev_c (3 * Z.of_nat k)).
    assert (Enc : ncz = dco k (ra_of e)).
    { unfold ncz, ra_of, dco, D.next_c, D.prev_c. destruct (snd e); cbn [Z.modulo Z.eqb Z.div_eucl Z.pos_div_eucl Pos.eqb];
      repeat match goal with |- context[Z.eqb ?a ?b] => destruct (Z.eqb_spec a b) end; lia. }
    replace (Z.of_nat ns - Z.of_nat (ns - 1 - fst e) - 1) with (Z.of_nat (fst e)) by lia.
    destruct (IH rest (D.with_splits s ((Z.of_nat (fst e), ncz) :: D.splits s)) stk) as (s' & E & A1 & A2 & A3 & A4 & A5 & A6 & A7 & A8 & A9); auto.
    { intros e0 H0. apply Hseg. right. auto. }
    exists s'. split; [exact E|]. split; [exact A1|]. split.
    { rewrite A2. cbn [D.splits D.with_splits map rev]. rewrite Enc, <- app_assoc. reflexivity. }
    split; [exact A3|]. split; [exact A4|]. split; [exact A5|]. split; [exact A6|]. split; [rewrite <- Est; exact A7|]. split; [exact A8|exact A9].
Qed.
End DecEv.

Section LoopE.
Variables (c2v : list nat) (opp : list (option nat)) (nf : nat).
Hypothesis Hlen : length c2v = 3 * nf.
Hypothesis OK : opp_ok c2v opp.
Variable Q : list nat.
Hypothesis Qrng : forall j, j < length Q -> nth j Q 0 < 3 * nf /\ is_degenerated c2v (nth j Q 0 / 3) = false.
Hypothesis Qnd : NoDup (map (fun c => c / 3) Q).
Local Open Scope Z_scope.
Ltac Zify.zify_post_hook ::= Z.div_mod_to_equations.
Variables NC maxv : Z.

Local Notation eco := (eco Q).
Local Notation SIM := (SIM c2v opp Q).
Local Notation ncr := (ncr opp Q).
Local Notation Cint := (Cint c2v opp nf Q).
Let opp_facts := opp_facts c2v opp nf Hlen OK.
Let s_opp := s_opp c2v opp Q.
Let s_vtx := s_vtx c2v opp Q.
Let s_nf := s_nf c2v opp Q.
Let eco_face := eco_face Q.
Let eco_next := eco_next Q.
Let Q_face_inj := Q_face_inj Q Qnd.
Let dco_next := dco_next c2v opp nf Hlen OK Q Qrng.
Let dco_prev := dco_prev c2v opp nf Hlen OK Q Qrng.
Let FI_LAB := FI_LAB c2v opp nf Hlen OK Q Qrng.
Let SIM_E := SIM_E c2v opp nf Hlen OK Q Qrng Qnd NC maxv.
Let SIM_RL := SIM_RL c2v opp nf Hlen OK Q Qrng Qnd NC maxv.
Let SIM_C := SIM_C c2v opp nf Hlen OK Q Qrng Qnd NC maxv.
Let fan_lmc := fan_lmc c2v opp nf Hlen OK Q Qrng Qnd NC maxv.
Let sim_iso_lab := sim_iso_lab c2v opp nf Hlen OK Q Qrng Qnd.

Variable rm : bool.
Variable Y : list Z.     (* the symbols in DECODER order *)
Hypothesis HNC : NC = 3 * Z.of_nat (length Q).
Hypothesis HYQ : (length Y <= length Q)%nat.
Hypothesis Hmaxv : cntv Y <= maxv.
Hypothesis FAN : one_fan c2v opp.
Variable EVseg : nat -> list (nat * bool).   (* the events whose source is the decoder symbol k: (decoder index of the S, RIGHT edge?) *)
Hypothesis Hns : Z.of_nat (length Y) < 2147483648.

Let ns := length Y.
Definition rawseg (k : nat) : list (Z * Z * Z) := map (raw_ev ns k) (EVseg k).
(** the events still to be read when the decoder is at symbol k *)
Definition REM (k : nat) : list (Z * Z * Z) := concat (map rawseg (seq k (ns - k))).
(** topology_split_active_corners after k symbols (newest first) *)
Fixpoint SPL (k : nat) : list (Z * Z) :=
  match k with O => [] | S k' => rev (map (reg_of k') (EVseg k')) ++ SPL k' end.
(** an event with split symbol k was registered before symbol k *)
Definition hasev (k : nat) : bool := existsb (fun j => existsb (fun e => Nat.eqb (fst e) k) (EVseg j)) (seq 0 k).

Lemma REM_S k : (k < ns)%nat -> REM k = rawseg k ++ REM (S k).
Proof. intros H. unfold REM. replace (ns - k)%nat with (S (ns - S k)) by lia. cbn [seq map concat]. reflexivity. Qed.

Lemma REM_head : forall n k, (k + n <= ns)%nat ->
  match concat (map rawseg (seq k n)) with [] => True | (src, _, _) :: _ => 0 <= src <= Z.of_nat ns - 1 - Z.of_nat k end.
Proof.
  induction n as [|n IH]; intros k H; cbn [seq map concat]; auto.
  unfold rawseg at 1. destruct (EVseg k) as [|e l]; cbn [map app].
  - specialize (IH (S k) ltac:(lia)). destruct (concat (map rawseg (seq (S k) n))) as [|[[src spl] ed] r]; auto. lia.
  - unfold raw_ev. lia.
Qed.

Lemma hasev_false k : hasev k = false -> forall j e, (j < k)%nat -> In e (EVseg j) -> fst e <> k.
Proof.
  intros H j e Hj He X. unfold hasev in H. assert (T : existsb (fun j => existsb (fun e => Nat.eqb (fst e) k) (EVseg j)) (seq 0 k) = true); [|congruence].
  apply existsb_exists. exists j. split; [apply in_seq; lia|]. apply existsb_exists. exists e. split; auto. apply Nat.eqb_eq. auto.
Qed.
Lemma hasev_true k j e : (j < k)%nat -> In e (EVseg j) -> fst e = k -> hasev k = true.
Proof.
  intros Hj He X. unfold hasev. apply existsb_exists. exists j. split; [apply in_seq; lia|]. apply existsb_exists. exists e. split; auto. apply Nat.eqb_eq. auto.
Qed.

(** the decoder's stack with events: an S whose split corner was registered pops one entry only *)
Fixpoint topsE (k : nat) : list nat :=
  match k with
  | O => []
  | S k' => match nth_error Y k' with
            | Some y => if y =? 7 then k' :: topsE k'
                        else if y =? 1 then (if hasev k' then k' :: tl (topsE k') else k' :: tl (tl (topsE k')))
                        else k' :: tl (topsE k')
            | None => topsE k'
            end
  end.
Lemma topsE_head k : (1 <= k <= length Y)%nat -> exists T, topsE k = (k - 1)%nat :: T.
Proof.
  intros Hk. destruct k as [|k']; [lia|]. cbn [topsE]. destruct (nth_error Y k') as [y|] eqn:E.
  - replace (S k' - 1)%nat with k' by lia. destruct (y =? 7); [eauto|]. destruct (y =? 1); [destruct (hasev k')|]; eauto.
  - apply nth_error_None in E. lia.
Qed.
Lemma topsE_lt k : forall j, In j (topsE k) -> (j < k)%nat.
Proof.
  induction k as [|k IH]; cbn [topsE]; intros j Hj; [contradiction|].
  assert (T1 : forall l : list nat, In j (tl l) -> In j l) by (intros [|x l]; cbn; auto).
  destruct (nth_error Y k) as [y|]; [|apply IH in Hj; lia].
  destruct (y =? 7); [|destruct (y =? 1); [destruct (hasev k)|]]; destruct Hj as [<-|Hj]; try lia.
  - apply IH in Hj. lia.
  - apply T1, IH in Hj. lia.
  - apply T1, T1, IH in Hj. lia.
  - apply T1, IH in Hj. lia.
Qed.

(** lookups in the registered corners *)
Lemma find_split_app key m1 m2 : D.find_split key (m1 ++ m2) =
  match D.find_split key m1 with Some c => Some c | None => D.find_split key m2 end.
Proof. induction m1 as [|[k' c] m1 IH]; cbn [app D.find_split]; auto. destruct (k' =? key); auto. Qed.

Lemma find_map j dp : forall l, match D.find_split (Z.of_nat dp) (map (reg_of j) l) with
  | Some c => exists e, In e l /\ fst e = dp /\ c = dco j (ra_of e)
  | None => forall e, In e l -> fst e <> dp end.
Proof.
  induction l as [|e l IH]; cbn [map D.find_split]; [intros e []|].
  unfold reg_of at 1. destruct (Z.of_nat (fst e) =? Z.of_nat dp) eqn:E.
  - exists e. split; [left; auto|]. split; [lia|reflexivity].
  - destruct (D.find_split (Z.of_nat dp) (map (reg_of j) l)) as [c|].
    + destruct IH as (e' & A & B & C). exists e'. split; [right; auto|auto].
    + intros e' [<-|H]; [lia|apply IH; auto].
Qed.

Lemma find_none k dp : (forall j e, (j < k)%nat -> In e (EVseg j) -> fst e <> dp) -> D.find_split (Z.of_nat dp) (SPL k) = None.
Proof.
  induction k as [|k IH]; intros H; cbn [SPL D.find_split]; auto.
  rewrite find_split_app. rewrite <- map_rev.
  pose proof (find_map k dp (rev (EVseg k))) as F. destruct (D.find_split (Z.of_nat dp) (map (reg_of k) (rev (EVseg k)))) as [c|].
  - destruct F as (e & A & B & _). exfalso. apply (H k e); auto. apply in_rev. auto.
  - apply IH. intros j e Hj. apply H. lia.
Qed.

Lemma find_some k dp c : (exists j e, (j < k)%nat /\ In e (EVseg j) /\ fst e = dp) ->
  (forall j e, (j < k)%nat -> In e (EVseg j) -> fst e = dp -> dco j (ra_of e) = c) -> D.find_split (Z.of_nat dp) (SPL k) = Some c.
Proof.
  induction k as [|k IH]; intros (j & e & Hj & He & Ee) H; [lia|]. cbn [SPL].
  rewrite find_split_app. rewrite <- map_rev.
  pose proof (find_map k dp (rev (EVseg k))) as F. destruct (D.find_split (Z.of_nat dp) (map (reg_of k) (rev (EVseg k)))) as [c'|].
  - destruct F as (e' & A & B & C). rewrite C. f_equal. apply H; auto. apply in_rev. auto.
  - apply IH.
    + destruct (Nat.eq_dec j k) as [->|Nj]; [exfalso; apply (F e); [apply -> in_rev; auto|auto]|]. exists j, e. split; [lia|auto].
    + intros j' e' Hj'. apply H. lia.
Qed.

(** what the encoder has to guarantee about its [k]-th last symbol, with events *)
Definition script_atE (k : nat) : Prop :=
  (forall e, In e (EVseg k) -> (fst e < ns)%nat) /\
  match nth_error Y k with
  | Some y =>
    (y = 7 /\ ncr k (eco k 0) /\ ncr k (eco k 1) /\ ncr k (eco k 2)) \/
    (y = 5 /\ (1 <= k)%nat /\ opp_at opp (eco k 2) = Some (eco (k - 1) 0) /\ ncr k (eco k 0) /\ ncr k (eco k 1)) \/
    (y = 3 /\ (1 <= k)%nat /\ opp_at opp (eco k 1) = Some (eco (k - 1) 0) /\ ncr k (eco k 0) /\ ncr k (eco k 2)) \/
    (y = 0 /\ (1 <= k)%nat /\ opp_at opp (eco k 1) = Some (eco (k - 1) 0) /\ ncr k (eco k 0) /\ Cint k /\ EVseg k = []) \/
    (y = 1 /\ (1 <= k)%nat /\ opp_at opp (eco k 1) = Some (eco (k - 1) 0) /\ ncr k (eco k 0) /\ EVseg k = [] /\ Sbreak c2v opp nf Q k /\
       ((hasev k = false /\ exists ja T, topsE k = (k - 1)%nat :: ja :: T /\ opp_at opp (eco k 2) = Some (eco ja 0)) \/
        (exists j e, (j < k)%nat /\ In e (EVseg j) /\ fst e = k /\ opp_at opp (eco k 2) = Some (eco j (ra_of e)) /\
           forall j' e', (j' < k)%nat -> In e' (EVseg j') -> fst e' = k -> j' = j /\ ra_of e' = ra_of e)))
  | None => False
  end.

Lemma sym_loop_simE : forall k, (k <= length Y)%nat -> (forall j, (j < k)%nat -> script_atE j) ->
  exists d, D.sym_loop NC maxv rm (Z.of_nat (length Y)) (firstn k Y) 0 (D.init_st (rev (REM 0))) = D.Ok d /\
    SIM k d /\ DP.W NC maxv (Z.of_nat k) d /\ DF.FI (Z.of_nat k) d /\ D.nv d = cntv (firstn k Y) /\ D.events d = REM k /\
    D.splits d = SPL k /\ D.stack d = map (fun j => dco j 0) (topsE k) /\
    (length (D.invalid d) <= count_occ Z.eq_dec (firstn k Y) 1%Z)%nat.
Proof.
  pose proof (cntv_nonneg Y) as Hc0.
  induction k as [|k IH]; intros Hk Sc.
  - exists (D.init_st (rev (REM 0))). cbn [firstn D.sym_loop]. split; [reflexivity|]. split.
    { constructor; cbn; intros; lia. }
    split; [apply DP.W_init; lia|]. split; [apply DF.FI_init|]. cbn [D.nv D.init_st cntv firstn D.events D.splits D.stack SPL topsE map].
    split; auto. split; [apply rev_involutive|]. split; auto.
  - destruct (IH ltac:(lia) ltac:(intros; apply Sc; lia)) as (d & E & HS & HW & HF & Hnv & Hev & Hsp & Hst0 & Hiv).
    assert (Hkn : (k < ns)%nat) by (unfold ns; lia).
    assert (Hst : forall k', k = S k' -> exists rest, D.stack d = dco k' 0 :: rest /\ rest = map (fun j => dco j 0) (tl (topsE k))).
    { intros k' Ek. destruct (topsE_head k ltac:(lia)) as (T & ET). rewrite Hst0, ET. cbn [map tl]. replace (k - 1)%nat with k' by lia. eauto. }
    specialize (Sc k ltac:(lia)). unfold script_atE in Sc. destruct Sc as (Hseg & Sc). destruct (nth_error Y k) as [y|] eqn:Ey; [|contradiction].
    rewrite (firstn_S_nth _ _ _ Ey), sym_loop_app, E. cbn [D.bind D.sym_loop]. rewrite firstn_length_le by lia.
    pose proof (s_nf _ _ HS) as Hnf.
    assert (HW' : DP.W NC maxv (D.nfaces d) d) by (rewrite Hnf; auto).
    assert (HF' : DF.FI (D.nfaces d) d) by (rewrite Hnf; auto).
    assert (HN : 3 * D.nfaces d + 3 <= NC) by lia.
    assert (Hkq : (k < length Q)%nat) by lia.
    pose proof (cntv_firstn Y (S k)) as Hc1. rewrite (firstn_S_nth _ _ _ Ey), cntv_app in Hc1. cbn [cntv] in Hc1.
    assert (Fin : forall d', D.step NC maxv rm (Z.of_nat (length Y)) d (0 + Z.of_nat k) y = D.Ok d' ->
              SIM (S k) d' -> D.nv d' = D.nv d + cntv1 y -> D.events d' = REM (S k) -> D.splits d' = SPL (S k) ->
              (length (D.invalid d') <= length (D.invalid d) + (if (y =? 1)%Z then 1 else 0))%nat ->
              D.stack d' = map (fun j => dco j 0) (topsE (S k)) ->
              exists d0, D.bind (D.step NC maxv rm (Z.of_nat (length Y)) d (0 + Z.of_nat k) y) (fun s => D.Ok s) = D.Ok d0 /\
                SIM (S k) d0 /\ DP.W NC maxv (Z.of_nat (S k)) d0 /\ DF.FI (Z.of_nat (S k)) d0 /\
                D.nv d0 = cntv (firstn k Y ++ [y]) /\ D.events d0 = REM (S k) /\ D.splits d0 = SPL (S k) /\
                D.stack d0 = map (fun j => dco j 0) (topsE (S k)) /\
                (length (D.invalid d0) <= count_occ Z.eq_dec (firstn k Y ++ [y]) 1%Z)%nat).
    { intros d' Es S' Nv' Ev' Sp' Iv' St'. exists d'. rewrite Es. cbn [D.bind]. split; [reflexivity|]. split; [auto|].
      destruct (DP.step_W _ _ _ _ _ _ _ _ HW' HN Es) as (W' & Nf' & _).
      pose proof (DF.step_FI _ _ _ _ _ _ _ _ HW' HF' HN Es) as F'.
      assert (Enf : D.nfaces d' = Z.of_nat (S k)) by lia. rewrite Enf in W', F'.
      split; [auto|]. split; [auto|]. split; [rewrite cntv_app; cbn [cntv]; lia|]. split; [auto|]. split; [auto|]. split; [auto|].
      rewrite count_occ_app. cbn [count_occ]. destruct (Z.eq_dec y 1) as [->|Ny]; [cbn in Iv'; lia|].
      replace (y =? 1)%Z with false in Iv' by (symmetry; apply Z.eqb_neq; exact Ny). lia. }
    (* the events read after an E / L / R *)
    assert (Split : forall s1 stk, D.stack s1 = 3 * Z.of_nat k :: stk -> D.events s1 = REM k ->
              exists d', D.split_loop (D.events s1) s1 (Z.of_nat (length Y)) (Z.of_nat (length Y) - (0 + Z.of_nat k) - 1) = D.Ok d' /\
                D.events d' = REM (S k) /\ D.splits d' = rev (map (reg_of k) (EVseg k)) ++ D.splits s1 /\
                D.copp d' = D.copp s1 /\ D.c2v d' = D.c2v s1 /\ D.nv d' = D.nv s1 /\ D.stack d' = D.stack s1 /\ D.nfaces d' = D.nfaces s1 /\
                D.invalid d' = D.invalid s1).
    { intros s1 stk Est1 Eev1. rewrite Eev1, (REM_S k Hkn). unfold rawseg.
      replace (Z.of_nat (length Y) - (0 + Z.of_nat k) - 1) with (Z.of_nat ns - Z.of_nat k - 1) by (unfold ns; lia).
      destruct (split_loop_run ns k Hkn Hns (EVseg k) (REM (S k)) s1 stk Hseg) as (d' & E2 & B1 & B2 & B3 & B4 & B5 & B6 & B7 & B8 & B9); auto.
      { pose proof (REM_head (ns - S k) (S k) ltac:(lia)) as X. unfold REM.
        destruct (concat (map rawseg (seq (S k) (ns - S k)))) as [|[[src spl] ed] r]; auto. lia. }
      exists d'. split; [exact E2|]. auto 10. }
    destruct Sc as [(-> & N0 & N1 & N2)|[(-> & K1 & Eo & N0 & N1)|[(-> & K1 & Eo & N0 & N2)|[(-> & K1 & Eo & N0 & CI & Eseg)|(-> & K1 & Eo & N0 & Eseg & SB & Scase)]]]].
    + (* E *)
      destruct (dec_step_E NC maxv (D.with_nfaces d (D.nfaces d + 1)) (D.nfaces d)) as (s1 & E1 & X1 & X2 & X3 & X4 & X5 & X6 & X7 & X8 & _); dproj; auto.
      { apply DP.W_with_nfaces. auto. } { unfold cntv1 in Hc1; cbn in Hc1; lia. }
      destruct (Split s1 (D.stack d)) as (d' & E2 & B1 & B2 & B3 & B4 & B5 & B6 & B7 & B8).
      { rewrite X4, Hnf. reflexivity. } { rewrite X5. exact Hev. }
      assert (Es : D.step NC maxv rm (Z.of_nat (length Y)) d (0 + Z.of_nat k) 7 = D.Ok d').
      { rewrite step_E_unfold, E1. cbn [D.bind]. exact E2. }
      assert (A1 : D.copp d' = D.copp d) by congruence.
      assert (A2 : D.c2v d' = D.upd (D.upd (D.upd (D.c2v d) (3 * D.nfaces d) (D.nv d)) (3 * D.nfaces d + 1) (D.nv d + 1)) (3 * D.nfaces d + 2) (D.nv d + 2)) by congruence.
      assert (A3 : D.nv d' = D.nv d + 3) by congruence.
      assert (A4 : D.stack d' = 3 * D.nfaces d :: D.stack d) by congruence.
      apply (Fin d' Es); [ | rewrite A3; reflexivity | exact B1 | rewrite B2, X6, Hsp; reflexivity | rewrite B8, X7; cbn; lia | ].
      * apply (SIM_E k d d'); auto; try (rewrite ?A2, ?Hnf; auto; lia).
        intros r Hr. destruct r as [|[|[|r]]]; auto; lia.
      * rewrite A4, Hst0. cbn [topsE]. rewrite Ey. cbn [Z.eqb Pos.eqb map]. f_equal. unfold dco. rewrite Hnf. lia.
    + (* R *)
      destruct (Hst (k - 1)%nat ltac:(lia)) as (rest & Est & Erest).
      assert (Fa : D.copp d (dco (k - 1) 0) = -1).
      { pose proof (s_opp _ _ HS (k - 1)%nat 0%nat ltac:(lia) ltac:(lia)) as X. unfold s_opp_at in X.
        destruct (opp_facts _ _ Eo) as (Eo' & _). rewrite Eo' in X. destruct X as [_ X]. apply X.
        intros j' Hj' F. rewrite eco_face in F. apply Q_face_inj in F; lia. }
      destruct (dec_step_RL NC maxv true (D.with_nfaces d (D.nfaces d + 1)) (D.nfaces d) (dco (k - 1) 0) rest) as (s1 & E1 & X1 & X2 & X3 & X4 & X5 & X6 & X7 & X8 & _); dproj; auto.
      { apply DP.W_with_nfaces. auto. } { unfold cntv1 in Hc1; cbn in Hc1; lia. }
      destruct (Split s1 rest) as (d' & E2 & B1 & B2 & B3 & B4 & B5 & B6 & B7 & B8).
      { rewrite X4, Hnf. reflexivity. } { rewrite X5. exact Hev. }
      assert (Es : D.step NC maxv rm (Z.of_nat (length Y)) d (0 + Z.of_nat k) 5 = D.Ok d').
      { rewrite (step_RL_unfold NC maxv rm true), E1. cbn [D.bind]. exact E2. }
      rewrite <- B3 in X1. rewrite <- B4 in X2. rewrite <- B5 in X3. rewrite <- B6 in X4.
      apply (Fin d' Es); [ | rewrite X3; reflexivity | exact B1 | rewrite B2, X6, Hsp; reflexivity | rewrite B8, X7; cbn; lia | ].
      * apply (SIM_RL k d d' 2%nat); auto; try lia.
        -- rewrite X1, Hnf. replace (dco k 2) with (3 * Z.of_nat k + 2) by (unfold dco; lia). reflexivity.
        -- rewrite X2, Hnf. cbn [Nat.modulo Nat.divmod Nat.add fst snd Nat.sub].
           replace (dco k 2) with (3 * Z.of_nat k + 2) by (unfold dco; lia).
           replace (dco k 1) with (3 * Z.of_nat k + 1) by (unfold dco; lia).
           replace (dco k 0) with (3 * Z.of_nat k) by (unfold dco; lia). reflexivity.
      * rewrite X4, Erest. cbn [topsE]. rewrite Ey. cbn [Z.eqb Pos.eqb map]. f_equal. unfold dco. rewrite Hnf. lia.
    + (* L *)
      destruct (Hst (k - 1)%nat ltac:(lia)) as (rest & Est & Erest).
      assert (Fa : D.copp d (dco (k - 1) 0) = -1).
      { pose proof (s_opp _ _ HS (k - 1)%nat 0%nat ltac:(lia) ltac:(lia)) as X. unfold s_opp_at in X.
        destruct (opp_facts _ _ Eo) as (Eo' & _). rewrite Eo' in X. destruct X as [_ X]. apply X.
        intros j' Hj' F. rewrite eco_face in F. apply Q_face_inj in F; lia. }
      destruct (dec_step_RL NC maxv false (D.with_nfaces d (D.nfaces d + 1)) (D.nfaces d) (dco (k - 1) 0) rest) as (s1 & E1 & X1 & X2 & X3 & X4 & X5 & X6 & X7 & X8 & _); dproj; auto.
      { apply DP.W_with_nfaces. auto. } { unfold cntv1 in Hc1; cbn in Hc1; lia. }
      destruct (Split s1 rest) as (d' & E2 & B1 & B2 & B3 & B4 & B5 & B6 & B7 & B8).
      { rewrite X4, Hnf. reflexivity. } { rewrite X5. exact Hev. }
      assert (Es : D.step NC maxv rm (Z.of_nat (length Y)) d (0 + Z.of_nat k) 3 = D.Ok d').
      { rewrite (step_RL_unfold NC maxv rm false), E1. cbn [D.bind]. exact E2. }
      rewrite <- B3 in X1. rewrite <- B4 in X2. rewrite <- B5 in X3. rewrite <- B6 in X4.
      apply (Fin d' Es); [ | rewrite X3; reflexivity | exact B1 | rewrite B2, X6, Hsp; reflexivity | rewrite B8, X7; cbn; lia | ].
      * apply (SIM_RL k d d' 1%nat); auto; try lia.
        -- rewrite X1, Hnf. replace (dco k 1) with (3 * Z.of_nat k + 1) by (unfold dco; lia). reflexivity.
        -- rewrite X2, Hnf. cbn [Nat.modulo Nat.divmod Nat.add fst snd Nat.sub].
           replace (dco k 2) with (3 * Z.of_nat k + 2) by (unfold dco; lia).
           replace (dco k 1) with (3 * Z.of_nat k + 1) by (unfold dco; lia).
           replace (dco k 0) with (3 * Z.of_nat k) by (unfold dco; lia). reflexivity.
      * rewrite X4, Erest. cbn [topsE]. rewrite Ey. cbn [Z.eqb Pos.eqb map]. f_equal. unfold dco. rewrite Hnf. lia.
    + (* C *)
      assert (ERem : REM (S k) = REM k) by (rewrite (REM_S k Hkn); unfold rawseg; rewrite Eseg; reflexivity).
      assert (ESpl : SPL (S k) = SPL k) by (cbn [SPL]; rewrite Eseg; reflexivity).
      destruct (Hst (k - 1)%nat ltac:(lia)) as (rest & Est & Erest).
      destruct (fan_lmc k d K1 Hkq HS HW HF Eo CI) as (jb & rb & Hjb & Hrb & El & Evc).
      set (rl := ((rb + 1) mod 3)%nat) in *.
      assert (Hrl : (rl < 3)%nat) by (apply Nat.mod_upper_bound; lia).
      assert (Fa : D.copp d (dco (k - 1) 0) = -1).
      { pose proof (s_opp _ _ HS (k - 1)%nat 0%nat ltac:(lia) ltac:(lia)) as X. unfold s_opp_at in X.
        destruct (opp_facts _ _ Eo) as (Eo' & _). rewrite Eo' in X. destruct X as [_ X]. apply X.
        intros j' Hj' F. rewrite eco_face in F. apply Q_face_inj in F; lia. }
      assert (Fb : D.copp d (dco jb rl) = -1).
      { pose proof (s_opp _ _ HS jb rl Hjb Hrl) as X. unfold s_opp_at in X.
        destruct (opp_facts _ _ El) as (El' & _). rewrite El' in X. destruct X as [_ X]. apply X.
        intros j' Hj' F. rewrite eco_face in F. apply Q_face_inj in F; lia. }
      assert (Ena : D.next_c (dco (k - 1) 0) = dco (k - 1) 1) by (rewrite dco_next by lia; reflexivity).
      assert (Epa : D.prev_c (dco (k - 1) 0) = dco (k - 1) 2) by (rewrite dco_prev by lia; reflexivity).
      assert (Eb : D.next_c (dco jb rb) = dco jb rl) by (rewrite dco_next by lia; reflexivity).
      destruct (opp_facts _ _ Eo) as (_ & _ & _ & _ & _ & _ & Vr1 & Vr2).
      destruct (opp_facts _ _ El) as (_ & _ & _ & _ & _ & _ & Vl1 & Vl2).
      assert (E1 : eco k 1 = next_c (eco k 0)) by reflexivity. assert (E2 : eco k 2 = prev_c (eco k 0)) by reflexivity.
      rewrite E1 in Vr1, Vr2. rewrite E2 in Vl1, Vl2. rewrite next_next in Vr1. rewrite prev_next in Vr2. rewrite next_prev in Vl1. rewrite prev_prev in Vl2.
      destruct (Qrng k Hkq) as [_ Dk]. destruct (nondeg_corner c2v _ Dk) as (Nk1 & Nk2 & Nk3).
      destruct (Qrng (k - 1)%nat ltac:(lia)) as [_ Dk1]. destruct (nondeg_corner c2v _ Dk1) as (Nr1 & Nr2 & Nr3).
      destruct (dec_step_C_full NC maxv rm d (0 + Z.of_nat k) (Z.of_nat (length Y)) (dco (k - 1) 0) rest HW' HN Est)
        as (d' & Es & A1 & A2 & A3 & A4 & A5 & A6 & A7 & A8).
      * rewrite Ena, Evc, Hnf. unfold dco. lia.
      * rewrite Ena, Evc, Eb. unfold dco. intro X.
        assert (Y0 : (eco (k - 1) 0 / 3)%nat <> (eco jb rl / 3)%nat).
        { apply (nbr_next_distinct c2v opp nf Hlen OK (next_c (eco k 0))); [exact Eo|rewrite next_next; exact El]. }
        apply Y0. rewrite !eco_face. f_equal. f_equal. lia.
      * exact Fa.
      * rewrite Ena, Evc, Eb. exact Fb.
      * rewrite Ena, Epa. intro X. apply (s_vtx _ _ HS) in X; try lia. apply Nr3. exact X.
      * rewrite Ena, Evc, Eb, dco_next by auto. intro X. apply (s_vtx _ _ HS) in X; try lia.
        rewrite eco_next in X by auto. change (eco (k - 1) 1) with (next_c (eco (k - 1) 0)) in X.
        apply Nk1. change (nth k Q 0%nat) with (eco k 0). congruence.
      * rewrite Ena, Evc, Eb in A1, A2.
        apply (Fin d' Es); [ | rewrite A3; unfold cntv1; cbn; lia | rewrite ERem; congruence | rewrite ESpl; congruence | rewrite A7; destruct rm; cbn; lia | ].
        -- apply (SIM_C k d d' jb rb); auto; try lia.
           ++ rewrite A1, Hnf. fold rl.
              replace (dco k 1) with (3 * Z.of_nat k + 1) by (unfold dco; lia).
              replace (dco k 2) with (3 * Z.of_nat k + 2) by (unfold dco; lia). reflexivity.
           ++ rewrite A2, Hnf. fold rl. rewrite Ena, Epa.
              replace (dco k 1) with (3 * Z.of_nat k + 1) by (unfold dco; lia).
              replace (dco k 2) with (3 * Z.of_nat k + 2) by (unfold dco; lia).
              replace (dco k 0) with (3 * Z.of_nat k) by (unfold dco; lia). reflexivity.
        -- rewrite A4, Erest. cbn [topsE]. rewrite Ey. cbn [Z.eqb Pos.eqb map]. f_equal. unfold dco. rewrite Hnf. lia.
    + (* S *)
      assert (ERem : REM (S k) = REM k) by (rewrite (REM_S k Hkn); unfold rawseg; rewrite Eseg; reflexivity).
      assert (ESpl : SPL (S k) = SPL k) by (cbn [SPL]; rewrite Eseg; reflexivity).
      assert (Fb : D.copp d (dco (k - 1) 0) = -1).
      { pose proof (s_opp _ _ HS (k - 1)%nat 0%nat ltac:(lia) ltac:(lia)) as X. unfold s_opp_at in X.
        destruct (opp_facts _ _ Eo) as (Eo' & _). rewrite Eo' in X. destruct X as [_ X]. apply X.
        intros j' Hj' F. rewrite eco_face in F. apply Q_face_inj in F; lia. }
      assert (Enb : D.next_c (dco (k - 1) 0) = dco (k - 1) 1) by (rewrite dco_next by lia; reflexivity).
      assert (Epb : D.prev_c (dco (k - 1) 0) = dco (k - 1) 2) by (rewrite dco_prev by lia; reflexivity).
      destruct (Qrng (k - 1)%nat ltac:(lia)) as [_ Dk1]. destruct (nondeg_corner c2v _ Dk1) as (Nr1 & Nr2 & Nr3).
      (* the corner glued to the left edge: (ja, ra), and what is left of the stack *)
      assert (Gen : exists ja ra rest0 rest, (ja < k)%nat /\ (ra < 3)%nat /\ opp_at opp (eco k 2) = Some (eco ja ra) /\
                D.stack d = dco (k - 1) 0 :: rest0 /\ stack1_of d (0 + Z.of_nat k) rest0 = dco ja ra :: rest /\
                map (fun j => dco j 0) (topsE (S k)) = 3 * D.nfaces d :: rest).
      { destruct Scase as [(Hev0 & ja & T & ET & El)|(j & e & Hj & He & Ee & El & Un)].
        - exists ja, 0%nat, (dco ja 0 :: map (fun j => dco j 0) T), (map (fun j => dco j 0) T).
          split; [apply (topsE_lt k); rewrite ET; right; left; auto|]. split; [lia|]. split; [exact El|].
          split; [rewrite Hst0, ET; reflexivity|]. split.
          + unfold stack1_of. replace (0 + Z.of_nat k) with (Z.of_nat k) by lia. rewrite Hsp, (find_none k k); auto.
            apply hasev_false. exact Hev0.
          + cbn [topsE]. rewrite Ey, Hev0, ET. cbn [Z.eqb Pos.eqb map tl]. f_equal. unfold dco. rewrite Hnf. lia.
        - destruct (topsE_head k ltac:(lia)) as (T & ET).
          exists j, (ra_of e), (map (fun j => dco j 0) T), (map (fun j => dco j 0) T).
          split; [exact Hj|]. split; [unfold ra_of; destruct (snd e); lia|]. split; [exact El|].
          split; [rewrite Hst0, ET; reflexivity|]. split.
          + unfold stack1_of. replace (0 + Z.of_nat k) with (Z.of_nat k) by lia. rewrite Hsp, (find_some k k (dco j (ra_of e))); auto.
            * exists j, e. auto.
            * intros j' e' Hj' He' Ee'. destruct (Un j' e' Hj' He' Ee') as (-> & ->). reflexivity.
          + cbn [topsE]. rewrite Ey, (hasev_true k j e Hj He Ee), ET. cbn [Z.eqb Pos.eqb map tl]. f_equal. unfold dco. rewrite Hnf. lia. }
      destruct Gen as (ja & ra & rest0 & rest & Hja & Hra & El & Est & Es1 & Etop).
      assert (Nf : ja <> (k - 1)%nat).
      { intro X. assert (Y0 : (eco (k - 1) 0 / 3)%nat <> (eco ja ra / 3)%nat).
        { apply (nbr_next_distinct c2v opp nf Hlen OK (next_c (eco k 0))); [exact Eo|rewrite next_next; exact El]. }
        apply Y0. rewrite !eco_face, X. reflexivity. }
      assert (Fa : D.copp d (dco ja ra) = -1).
      { pose proof (s_opp _ _ HS ja ra Hja Hra) as X. unfold s_opp_at in X.
        destruct (opp_facts _ _ El) as (El' & _). rewrite El' in X. destruct X as [_ X]. apply X.
        intros j' Hj' F. rewrite eco_face in F. apply Q_face_inj in F; lia. }
      assert (Nab : dco ja ra <> dco (k - 1) 0) by (unfold dco; lia).
      assert (Epa : D.prev_c (dco ja ra) = dco ja ((ra + 2) mod 3)) by (rewrite dco_prev by lia; reflexivity).
      destruct (dec_step_S_full_g NC maxv rm d (0 + Z.of_nat k) (Z.of_nat (length Y)) (dco ja ra) (dco (k - 1) 0) rest0 rest HW' HF' HN Est Es1)
        as (d' & Es & A1 & A2 & A3 & A4 & A5 & A6 & A7 & A8); auto.
      * rewrite Hnf. unfold dco. lia.
      * rewrite Epa, Enb. apply (S_sep_g c2v opp nf Hlen OK Q Qrng Qnd k d ja ra); auto.
      * rewrite Epb, Enb. intro X. apply (s_vtx _ _ HS) in X; try lia. apply Nr3. symmetry. exact X.
      * rewrite Hnf in A1, A2.
        apply (Fin d' Es); [ | rewrite A3; unfold cntv1; cbn; lia | rewrite ERem; congruence | rewrite ESpl; congruence | rewrite A7; destruct rm; cbn; lia | ].
        -- apply (SIM_S_g c2v opp nf Hlen OK Q Qrng Qnd NC maxv k d d' ja ra); auto. rewrite A8, Hnf. lia.
        -- rewrite A4, Etop. reflexivity.
Qed.

(** ** the decoder on a script WITH split events: every remove_invalid_vertices, interior start faces allowed.
    The events are passed as DecodeConnectivity reads them: [rev (REM 0)] is the order of the stream (the decoder
    reverses the list once, [init_st]). *)
Theorem dec_roundtrip_events B :
  (forall f, (f < nf)%nat -> is_degenerated c2v f = false -> In f (map (fun c => (c / 3)%nat) Q)) ->
  (forall j, (j < length Y)%nat -> script_atE j) -> start_ok_g c2v opp nf Q Y (topsE (length Y)) B ->
  exists n s, D.eb_core NC maxv (Z.of_nat (length Q)) rm Y (rev (REM 0)) (D.bits_of_list B) = D.Ok (n, s) /\
              eb_iso c2v opp Q (D.c2v s) (D.copp s).
Proof.
  intros Complete Sc SO. destruct (sym_loop_simE (length Y) (le_n _) Sc) as (d & E & HS & HW & HF & Hnv & Hev & Hsp & Hst & _).
  rewrite firstn_all in E. unfold D.eb_core. rewrite E. cbn [D.bind].
  pose proof (DP.w_nv _ _ _ _ HW) as Hn. replace (D.nv d >? maxv) with false by lia.
  destruct (start_loop_sim_g c2v opp nf Hlen OK Q Qrng Qnd NC maxv Y HYQ FAN (topsE (length Y)) B (topsE_lt (length Y)) SO HNC (topsE (length Y)) 0%nat d eq_refl)
    as (s' & E' & A1 & A2 & A3 & HW2 & HJ2); auto.
  { cbn [firstn]. unfold cnt_true. cbn. rewrite Nat.add_0_r. auto. }
  { cbn [firstn]. unfold cnt_true. cbn. rewrite Nat.add_0_r. auto. }
  { cbn [firstn]. unfold cnt_true. cbn. rewrite Nat.add_0_r. apply DC.FI_FJ. auto. }
  { cbn [firstn]. unfold cnt_true. cbn. rewrite Nat.add_0_r. apply FI_LAB. auto. }
  rewrite Hst, E'. cbn [D.bind]. rewrite (s_nf _ _ A1), Z.eqb_refl. cbn [negb].
  pose proof (s_nf _ _ HS) as Hnf.
  assert (HWn : DP.W NC maxv (D.nfaces d) d) by (rewrite Hnf; exact HW).
  assert (Hstk : Forall (fun c => 0 <= c < 3 * D.nfaces d) (D.stack d)) by apply (DP.w_stack _ _ _ _ HWn).
  rewrite <- Hst in E'.
  destruct (DP.start_loop_W NC maxv _ _ _ _ _ _ HNC HWn Hstk E') as (_ & _ & Env & _).
  destruct (DO.start_loop_tail NC maxv _ (D.bits_of_list B) (D.stack d) O d HNC HWn) as (_ & T2).
  { rewrite Hnf. apply DO.FI_NI. exact HF. }
  { exact Hstk. }
  destruct (T2 s' E') as (_ & Evc).
  pose proof (DP.w_nv _ _ _ _ HW2) as Hn2.
  destruct (CP.compact_full NC maxv (rev (D.invalid s')) (Z.to_nat (D.nv s')) s' (Z.of_nat (length Q)) HW2 HJ2)
    as (k' & s3 & Ec & Eo & Enf & EQ).
  - intros c Hc Nc.
    pose proof (Z.div_mod c 3 ltac:(lia)) as DM. pose proof (Z.mod_pos_bound c 3 ltac:(lia)) as MB.
    assert (c / 3 < Z.of_nat (length Q)) by (apply Z.div_lt_upper_bound; lia).
    assert (0 <= c / 3) by (apply Z.div_pos; lia).
    assert (Ec : c = dco (Z.to_nat (c / 3)) (Z.to_nat (c mod 3))) by (unfold dco; lia).
    rewrite Ec in Nc |- *. apply A2; [lia|lia|exact Nc].
  - intros c Hc. pose proof (DP.w_vr _ _ _ _ HW2 c Hc). lia.
  - rewrite A3, Evc, Env. apply Forall_rev. destruct (DF.f_iso _ _ HF) as (Ai & _). pose proof (DP.w_invalid _ _ _ _ HW) as Bv.
    rewrite Forall_forall in *. intros v Hv. split; [apply Bv; exact Hv|apply Ai; exact Hv].
  - rewrite A3. apply NoDup_rev. apply (DF.f_iso _ _ HF).
  - lia.
  - destruct (DF.f_inv _ _ HF) as [Q0|Q0]; [left; rewrite A3, Q0; reflexivity|right; lia].
  - rewrite Ec. cbn [D.bind fst snd]. eexists _, s3. split; [reflexivity|].
    assert (Esl : forall c, DP.slf s3 c = DP.slf s' c) by (intros; unfold DP.slf, DP.oppf; rewrite Eo; reflexivity).
    assert (Rd : forall j r, (j < length Q)%nat -> (r < 3)%nat -> 0 <= dco j r < 3 * Z.of_nat (length Q)) by (intros; unfold dco; lia).
    apply sim_iso_lab; auto.
    + constructor.
      * rewrite Enf. exact (s_nf _ _ A1).
      * intros j r Hj Hr. pose proof (s_opp _ _ A1 j r Hj Hr) as X. unfold s_opp_at in *. rewrite Eo. exact X.
      * intros j r j' r' Hj Hr Hj' Hr' Ev. apply (s_vtx _ _ A1 j r j' r'); auto. apply EQ; auto.
    + intros j r Hj Hr N. rewrite Esl in *.
      destruct (DF.slf_created NC maxv s' _ _ HW2 (Rd j r Hj Hr)) as [Z0|Z0]; [congruence|].
      apply EQ; auto.
Qed.

(** the state BEFORE the vertex compaction, with events (for counting the decoder's vertices; as [EbSimLoop_proofs.dec_precompact]) *)
Theorem dec_precompact_events B :
  (forall f, (f < nf)%nat -> is_degenerated c2v f = false -> In f (map (fun c => (c / 3)%nat) Q)) ->
  (forall j, (j < length Y)%nat -> script_atE j) -> start_ok_g c2v opp nf Q Y (topsE (length Y)) B ->
  exists d s', D.sym_loop NC maxv rm (Z.of_nat (length Y)) Y 0 (D.init_st (rev (REM 0))) = D.Ok d /\
    D.start_loop NC maxv (Z.of_nat (length Q)) (D.bits_of_list B) 0 (D.stack d) d = D.Ok s' /\
    D.nv s' = cntv Y /\ D.vc s' = D.vc d /\ D.invalid s' = D.invalid d /\
    (length (D.invalid d) <= count_occ Z.eq_dec Y 1%Z)%nat /\
    DP.W NC maxv (Z.of_nat (length Y)) d /\ DF.FI (Z.of_nat (length Y)) d /\ D.nfaces d = Z.of_nat (length Y) /\
    DP.W NC maxv (Z.of_nat (length Q)) s' /\ DC.FJ (Z.of_nat (length Q)) s' /\
    eb_iso c2v opp Q (D.c2v s') (D.copp s').
Proof.
  intros Complete Sc SO. destruct (sym_loop_simE (length Y) (le_n _) Sc) as (d & E & HS & HW & HF & Hnv & Hev & Hsp & Hst & Hiv).
  rewrite firstn_all in E, Hnv, Hiv.
  destruct (start_loop_sim_g c2v opp nf Hlen OK Q Qrng Qnd NC maxv Y HYQ FAN (topsE (length Y)) B (topsE_lt (length Y)) SO HNC (topsE (length Y)) 0%nat d eq_refl)
    as (s' & E' & A1 & A2 & A3 & HW2 & HJ2); auto.
  { cbn [firstn]. unfold cnt_true. cbn. rewrite Nat.add_0_r. auto. }
  { cbn [firstn]. unfold cnt_true. cbn. rewrite Nat.add_0_r. auto. }
  { cbn [firstn]. unfold cnt_true. cbn. rewrite Nat.add_0_r. apply DC.FI_FJ. auto. }
  { cbn [firstn]. unfold cnt_true. cbn. rewrite Nat.add_0_r. apply FI_LAB. auto. }
  pose proof (s_nf _ _ HS) as Hnf.
  assert (HWn : DP.W NC maxv (D.nfaces d) d) by (rewrite Hnf; exact HW).
  assert (Hstk : Forall (fun c => 0 <= c < 3 * D.nfaces d) (D.stack d)) by apply (DP.w_stack _ _ _ _ HWn).
  rewrite <- Hst in E'.
  destruct (DP.start_loop_W NC maxv _ _ _ _ _ _ HNC HWn Hstk E') as (_ & _ & Env & _).
  destruct (DO.start_loop_tail NC maxv _ (D.bits_of_list B) (D.stack d) O d HNC HWn) as (_ & T2).
  { rewrite Hnf. apply DO.FI_NI. exact HF. }
  { exact Hstk. }
  destruct (T2 s' E') as (_ & Evc).
  exists d, s'. split; [exact E|]. split; [exact E'|]. split; [congruence|]. split; [exact Evc|]. split; [exact A3|].
  split; [exact Hiv|]. split; [exact HW|]. split; [exact HF|]. split; [exact Hnf|]. split; [exact HW2|]. split; [exact HJ2|].
  apply sim_iso_lab; auto.
Qed.
End LoopE.
