(** The FAN INVARIANT of the Edgebreaker symbol loop (Model/Edgebreaker.v), on top of the weak invariant [W] of
    Edgebreaker_proofs.v:
      f_lab    SwingLeft keeps the vertex:  slf c <> -1 -> Vertex(slf c) = Vertex(c)
      f_reach  every corner c of a created face maps to a NON-ISOLATED vertex v and reaches LeftMostCorner(v) by
               iterating SwingLeft (so the corners of v form one chain ending in - or, for a closed fan, passing
               through - vertex_corners_[v])
      f_vc     vertex_corners_[v] <> -1 -> Vertex(vertex_corners_[v]) = v
    It is preserved by every symbol (C, R, L, E, S with its relabelling loop, topology-split bookkeeping) for ALL inputs.
    The S case shows: the relabelling loop visits EXACTLY the corners labelled n (= Vertex(Next(corner_b))) in the table
    after the new face was glued in ([sc_walk], [sc_relabel]); vertex_p = vertex_n makes the walk periodic, i.e. an
    accepted S has p <> n ([sc_p_ne_n]). *)
From Coq Require Import ZArith List Bool Lia ZifyBool.
From Draco Require Import Model.Edgebreaker Proofs.Edgebreaker_proofs.
Import ListNotations.
Local Open Scope Z_scope.

(** * The fan invariant *)
Definition reach (s : st) (x y : Z) : Prop := exists k : nat, Nat.iter k (slf s) x = y.

Record FI (f : Z) (s : st) : Prop := {
  f_lab : forall c, 0 <= c < 3 * f -> slf s c <> -1 -> c2v s (slf s c) = c2v s c;
  f_reach : forall c, 0 <= c < 3 * f -> vc s (c2v s c) <> -1 /\ reach s c (vc s (c2v s c));
  f_vc : forall v, 0 <= v < nv s -> vc s v <> -1 -> c2v s (vc s v) = v;
  f_inv : invalid s = [] \/ 0 < f;
  f_iso : Forall (fun v => vc s v = -1) (invalid s) /\ NoDup (invalid s)
}.

Lemma iter_succ_r : forall (g : Z -> Z) k x, Nat.iter (S k) g x = Nat.iter k g (g x).
Proof.
  induction k; intros; [reflexivity|].
  change (g (Nat.iter (S k) g x) = g (Nat.iter k g (g x))). rewrite IHk. reflexivity.
Qed.

Lemma iter_S : forall (g : Z -> Z) k x, Nat.iter (S k) g x = g (Nat.iter k g x).
Proof. reflexivity. Qed.

Lemma iter_add : forall (g : Z -> Z) j k x, Nat.iter (j + k) g x = Nat.iter j g (Nat.iter k g x).
Proof. induction j; intros; [reflexivity|]. change (g (Nat.iter (j + k) g x) = g (Nat.iter j g (Nat.iter k g x))). rewrite IHj. reflexivity. Qed.

Lemma slf_at : forall s c, 0 <= c -> slf s c = next_c (copp s (next_c c)).
Proof.
  intros s c H. unfold slf, oppf. destruct (next_c_spec c H) as (A & _).
  destruct (next_c c =? -1) eqn:E; [lia|reflexivity].
Qed.
Lemma slf_m1 : forall s, slf s (-1) = -1.
Proof. reflexivity. Qed.
Lemma iter_dead : forall s k, Nat.iter k (slf s) (-1) = -1.
Proof. induction k; [reflexivity|]. rewrite iter_S, IHk. reflexivity. Qed.

Lemma reach_refl : forall s x, reach s x x.
Proof. intros. exists O. reflexivity. Qed.
Lemma reach_step : forall s x y, reach s (slf s x) y -> reach s x y.
Proof. intros s x y (k & H). exists (S k). rewrite iter_succ_r. exact H. Qed.
Lemma reach_trans : forall s x y z, reach s x y -> reach s y z -> reach s x z.
Proof.
  intros s x y z (k & H) (j & J). exists (j + k)%nat. rewrite iter_add. rewrite H. exact J.
Qed.

Section Fan.
Variables NC maxv : Z.

Lemma slf_created : forall s f c, W NC maxv f s -> 0 <= c < 3 * f -> slf s c = -1 \/ 0 <= slf s c < 3 * f.
Proof. intros s f c HW Hc. exact (proj2 (swing_left_created NC maxv s f c HW Hc)). Qed.

Lemma dead_end_lmc : forall s f c, W NC maxv f s -> FI f s -> 0 <= c < 3 * f -> slf s c = -1 -> vc s (c2v s c) = c.
Proof.
  intros s f c HW HF Hc D. destruct (f_reach _ _ HF c Hc) as (N & (k & R)).
  destruct k; [cbn in R; congruence|]. rewrite iter_succ_r, D, iter_dead in R. congruence.
Qed.

(** paths of [s] that do not end in -1 survive in any [s'] that only changes SwingLeft at dead ends *)
Lemma lift : forall s s' f, W NC maxv f s ->
  (forall c, 0 <= c < 3 * f -> slf s c <> -1 -> slf s' c = slf s c) ->
  forall k c y, 0 <= c < 3 * f -> Nat.iter k (slf s) c = y -> y <> -1 -> Nat.iter k (slf s') c = y.
Proof.
  intros s s' f HW A. induction k; intros c y Hc R Ny; [exact R|].
  rewrite iter_succ_r in *. destruct (slf_created s f c HW Hc) as [D|D].
  - rewrite D, iter_dead in R. congruence.
  - rewrite (A c Hc) by lia. apply IHk; assumption.
Qed.
Lemma lift_reach : forall s s' f, W NC maxv f s ->
  (forall c, 0 <= c < 3 * f -> slf s c <> -1 -> slf s' c = slf s c) ->
  forall c y, 0 <= c < 3 * f -> reach s c y -> y <> -1 -> reach s' c y.
Proof. intros s s' f HW A c y Hc (k & R) Ny. exists k. eapply lift; eassumption. Qed.

(** along a path that does not die the vertex label is constant *)
Lemma path_label : forall s f, W NC maxv f s -> FI f s ->
  forall k c, 0 <= c < 3 * f -> Nat.iter k (slf s) c <> -1 ->
  c2v s (Nat.iter k (slf s) c) = c2v s c /\ 0 <= Nat.iter k (slf s) c < 3 * f.
Proof.
  intros s f HW HF. induction k; intros c Hc N; [split; [reflexivity|exact Hc]|].
  rewrite iter_succ_r in *. destruct (slf_created s f c HW Hc) as [D|D].
  - rewrite D, iter_dead in N. congruence.
  - destruct (IHk _ D N) as (A & B). split; [|exact B]. rewrite A. apply (f_lab _ _ HF c Hc). lia.
Qed.

Lemma iter_inj : forall s f, W NC maxv f s -> forall k x y, 0 <= x < 3 * f -> 0 <= y < 3 * f ->
  Nat.iter k (slf s) x = Nat.iter k (slf s) y -> Nat.iter k (slf s) x <> -1 -> x = y.
Proof.
  intros s f HW. induction k; intros x y Hx Hy E N; [exact E|].
  rewrite !iter_succ_r in *.
  destruct (slf_created s f x HW Hx) as [D|D]; [rewrite D, iter_dead in N; congruence|].
  destruct (slf_created s f y HW Hy) as [D'|D']; [rewrite D', iter_dead in E; congruence|].
  pose proof (IHk _ _ D D' E N) as Q. eapply (slf_inj NC maxv); try eassumption. lia.
Qed.

(** a corner without SwingLeft-predecessor: its whole vertex is an open fan ending in a dead end, and every corner of
    that vertex lies on its forward orbit *)
Definition no_pred (s : st) (f x : Z) : Prop := forall d, 0 <= d < 3 * f -> slf s d <> x.

Lemma no_pred_lmc_dead : forall s f x, W NC maxv f s -> FI f s -> 0 <= x < 3 * f -> no_pred s f x ->
  slf s (vc s (c2v s x)) = -1.
Proof.
  intros s f x HW HF Hx NP. destruct (f_reach _ _ HF x Hx) as (N & (k & R)).
  set (l := vc s (c2v s x)) in *.
  destruct (path_label s f HW HF k x Hx) as (Lab & Hl); [rewrite R; exact N|]. rewrite R in Lab, Hl.
  destruct (slf_created s f l HW Hl) as [D|D]; [exact D|exfalso].
  (* slf l =: d is a corner of the same vertex, so it reaches l again: l is periodic *)
  assert (Ld : c2v s (slf s l) = c2v s x) by (rewrite <- Lab; apply (f_lab _ _ HF l Hl); lia).
  destruct (f_reach _ _ HF _ D) as (_ & (j & R')). rewrite Ld in R'. fold l in R'.
  (* iter (j+1) l = l ; iter k x = l  =>  iter k (iter (j+1) x) = iter k x  => iter (j+1) x = x *)
  assert (P : Nat.iter (S j) (slf s) l = l) by (rewrite iter_succ_r; exact R').
  assert (Q : Nat.iter k (slf s) (Nat.iter (S j) (slf s) x) = Nat.iter k (slf s) x).
  { rewrite <- iter_add. rewrite Nat.add_comm. rewrite iter_add. rewrite R. exact P. }
  assert (Hjx : Nat.iter (S j) (slf s) x <> -1).
  { intro Z. rewrite Z, iter_dead in Q. rewrite R in Q. lia. }
  destruct (path_label s f HW HF (S j) x Hx Hjx) as (_ & Hr).
  apply (iter_inj s f HW) in Q; try assumption; [|rewrite Q, R; lia].
  rewrite iter_S in Q. destruct (path_label s f HW HF j x Hx) as (_ & Hr').
  { intro Z. rewrite iter_S in Hjx. rewrite Z in Hjx. apply Hjx. reflexivity. }
  exact (NP _ Hr' Q).
Qed.

Lemma iter_created : forall s f, W NC maxv f s -> forall k c, 0 <= c < 3 * f -> Nat.iter k (slf s) c <> -1 ->
  0 <= Nat.iter k (slf s) c < 3 * f.
Proof.
  intros s f HW. induction k; intros c Hc H; [exact Hc|]. rewrite iter_succ_r in *.
  destruct (slf_created s f c HW Hc) as [D|D]; [rewrite D, iter_dead in H; congruence|]. apply IHk; assumption.
Qed.

Lemma merge : forall s f x, W NC maxv f s -> 0 <= x < 3 * f -> no_pred s f x ->
  forall kc kb c l, 0 <= c < 3 * f -> Nat.iter kc (slf s) c = l -> Nat.iter kb (slf s) x = l -> l <> -1 ->
  exists i : nat, (i <= kb)%nat /\ Nat.iter i (slf s) x = c.
Proof.
  intros s f x HW Hx NP. induction kc; intros kb c l Hc Rc Rb N.
  - cbn in Rc. exists kb. split; [lia|congruence].
  - rewrite iter_S in Rc.
    assert (Hkc : 0 <= Nat.iter kc (slf s) c < 3 * f).
    { apply (iter_created s f HW); [exact Hc|]. intro Z. rewrite Z in Rc. cbn in Rc. congruence. }
    destruct kb.
    + cbn in Rb. exfalso. apply (NP _ Hkc). congruence.
    + rewrite iter_S in Rb.
      assert (Hkb : 0 <= Nat.iter kb (slf s) x < 3 * f).
      { apply (iter_created s f HW); [exact Hx|]. intro Z. rewrite Z in Rb. cbn in Rb. congruence. }
      assert (E : Nat.iter kb (slf s) x = Nat.iter kc (slf s) c).
      { apply (slf_inj NC maxv s f); try assumption; congruence. }
      destruct (IHkc kb c (Nat.iter kc (slf s) c) Hc eq_refl E) as (i & Li & Hi); [lia|].
      exists i. split; [lia|exact Hi].
Qed.

Lemma on_orbit : forall s f x c, W NC maxv f s -> FI f s -> 0 <= x < 3 * f -> no_pred s f x ->
  0 <= c < 3 * f -> c2v s c = c2v s x ->
  exists kb : nat, Nat.iter kb (slf s) x = vc s (c2v s x) /\ exists i : nat, (i <= kb)%nat /\ Nat.iter i (slf s) x = c.
Proof.
  intros s f x c HW HF Hx NP Hc Lc.
  destruct (f_reach _ _ HF x Hx) as (N & (kb & Rb)). destruct (f_reach _ _ HF c Hc) as (_ & (kc & Rc)).
  rewrite Lc in Rc. exists kb. split; [exact Rb|]. eapply merge; eassumption.
Qed.
End Fan.

Section FanSteps.
Variables NC maxv : Z.


(** gluing one new face onto boundary edges: generic re-establishment of the fan invariant *)
Lemma glue : forall s s' f, W NC maxv f s -> FI f s -> W NC maxv (f + 1) s' ->
  (forall c, 0 <= c < 3 * f -> c2v s' c = c2v s c) ->
  (forall c, 0 <= c < 3 * f -> slf s c <> -1 -> slf s' c = slf s c) ->
  (* new or changed links keep the label *)
  (forall c, 0 <= c < 3 * f + 3 -> (3 * f <= c \/ slf s c = -1) -> slf s' c <> -1 -> c2v s' (slf s' c) = c2v s' c) ->
  (* the old left-most corner of a vertex reaches the new one *)
  (forall c, 0 <= c < 3 * f -> let v := c2v s c in vc s' v <> -1 /\ reach s' (vc s v) (vc s' v)) ->
  (* a new corner is the left-most corner of its vertex or steps to an old corner of its vertex *)
  (forall c, 3 * f <= c < 3 * f + 3 ->
     (vc s' (c2v s' c) = c) \/ (0 <= slf s' c < 3 * f /\ c2v s' (slf s' c) = c2v s' c)) ->
  (forall v, 0 <= v < nv s' -> vc s' v <> -1 -> c2v s' (vc s' v) = v) ->
  invalid s' = invalid s ->
  (forall v, 0 <= v < nv s -> vc s v = -1 -> vc s' v = -1) ->
  FI (f + 1) s'.
Proof.
  intros s s' f HW HF HW' Gc Gs Hlab Hold Hnew Hvc Hinv Hiso.
  assert (OldReach : forall c, 0 <= c < 3 * f -> vc s' (c2v s' c) <> -1 /\ reach s' c (vc s' (c2v s' c))).
  { intros c Hc. rewrite (Gc c Hc). destruct (Hold c Hc) as (A & B). split; [exact A|].
    destruct (f_reach _ _ HF c Hc) as (N & R).
    eapply reach_trans; [|exact B]. exact (lift_reach NC maxv s s' f HW Gs c _ Hc R N). }
  constructor.
  - intros c Hc N. destruct (Z_lt_dec c (3 * f)) as [Lo|Hi].
    + destruct (Z.eq_dec (slf s c) (-1)) as [D|D].
      * apply Hlab; [lia|right; exact D|exact N].
      * rewrite (Gs c ltac:(lia) D). destruct (slf_created NC maxv s f c HW ltac:(lia)) as [Q|Q]; [congruence|].
        rewrite (Gc _ Q), (Gc c) by lia. apply (f_lab _ _ HF); [lia|exact D].
    + apply Hlab; [lia|left; lia|exact N].
  - intros c Hc. destruct (Z_lt_dec c (3 * f)) as [Lo|Hi]; [apply OldReach; lia|].
    destruct (Hnew c ltac:(lia)) as [Q|(Q1 & Q2)].
    + rewrite Q. split; [lia|apply reach_refl].
    + destruct (OldReach _ Q1) as (A & B). rewrite Q2 in A, B. split; [exact A|]. apply reach_step. exact B.
  - exact Hvc.
  - rewrite Hinv. destruct (f_inv _ _ HF) as [Q|Q]; [left; exact Q|right; lia].
  - rewrite Hinv. destruct (f_iso _ _ HF) as (A & B). split; [|exact B].
    pose proof (w_invalid _ _ _ _ HW) as R. rewrite Forall_forall in *. intros v Hv. apply Hiso; [apply R; exact Hv|apply A; exact Hv].
Qed.

(** ** TOPOLOGY_C *)
Lemma step_C_shape : forall s f s', W NC maxv f s -> 3 * f + 3 <= NC -> step_C NC maxv s f = Ok s' ->
  exists a rest, stack s = a :: rest /\
    let x := c2v s (next_c a) in let b := next_c (vc s x) in
    0 <= a < 3 * f /\ 0 <= vc s x < 3 * f /\ a <> b /\ copp s a = -1 /\ copp s b = -1 /\
    copp s' = upd (upd (upd (upd (copp s) a (3 * f + 1)) (3 * f + 1) a) b (3 * f + 2)) (3 * f + 2) b /\
    c2v s' = upd (upd (upd (c2v s) (3 * f) x) (3 * f + 1) (c2v s (next_c b))) (3 * f + 2) (c2v s (prev_c a)) /\
    vc s' = upd (vc s) (c2v s (prev_c a)) (3 * f + 2) /\ nv s' = nv s /\ invalid s' = invalid s.
Proof.
  intros s f s' HW HN H. unfold step_C in H.
  destruct (stack s) as [|a rest] eqn:Est; [discriminate|]. exists a, rest. split; [reflexivity|].
  pose proof (w_stack _ _ _ _ HW) as Hst. rewrite Est in Hst. inversion Hst as [|? ? Ha Hrest]; subst.
  pose proof (w_nf _ _ _ _ HW) as Hnf.
  pose proof (next_c_rng a f Ha) as Hna. pose proof (prev_c_rng a f Ha) as Hpa.
  mstep H. rename a0 into x. mstep H. rename a0 into l. mstep H. mstep H. mstep H.
  destruct a0; [|discriminate].
  vtx_created. subst x. prim. subst l.
  pose proof (w_vr _ _ _ _ HW _ Hna) as Hx.
  assert (Hl : 0 <= vc s (c2v s (next_c a)) < 3 * f).
  { destruct (w_lr _ _ _ _ HW _ Hx) as [Q|Q]; [|exact Q].
    rewrite Q in *. rewrite next_c_inv in *. mstep H. }
  cbv zeta. set (b := next_c (vc s (c2v s (next_c a)))) in *.
  assert (Hb : 0 <= b < 3 * f) by (apply next_c_rng; lia).
  pose proof (next_c_rng b f Hb) as Hnb.
  match goal with Q : all_free _ _ _ = Ok true |- _ => apply all_free_cons in Q; destruct Q as (Fa & Q); apply all_free_cons in Q; destruct Q as (Fb & _) end.
  destruct Fa as [Fa|(_ & Fa)]; [lia|]. destruct Fb as [Fb|(_ & Fb)]; [lia|].
  mstep H. mstep H. prim. subst. mstep H. mstep H. vtx_created. subst.
  mstep H. mstep H. mstep H. mstep H. mstep H. mstep H. prim. subst. sproj.
  pose proof (w_vr _ _ _ _ HW _ Hpa) as Hvap.
  match goal with Q : set_lmc _ _ _ = Ok _ |- _ => apply set_lmc_ok in Q; sproj; destruct Q as [(A & _)|(_ & ->)]; [exfalso; lia|] end.
  apply Ok_inj in H. subst s'. sproj.
  repeat split; try lia; try assumption; try reflexivity.
Qed.

Lemma next_eq_prev : forall c a, 0 <= c -> 0 <= a -> next_c c = a -> c = prev_c a.
Proof. intros c a Hc Ha E. subst a. symmetry. apply next_c_spec. exact Hc. Qed.

Lemma step_C_FI : forall s f s', W NC maxv f s -> FI f s -> 3 * f + 3 <= NC -> step_C NC maxv s f = Ok s' -> FI (f + 1) s'.
Proof.
  intros s f s' HW HF HN H.
  pose proof (step_C_W NC maxv s f s' HW HN H) as (HW' & _).
  destruct (step_C_shape s f s' HW HN H) as (a & rest & Est & Sh). cbv zeta in Sh.
  destruct Sh as (Ha & Hl & Hab & Fa & Fb & Ec & Ev & El & En & Ei).
  set (x := c2v s (next_c a)) in *. set (b := next_c (vc s x)) in *.
  pose proof (w_nf _ _ _ _ HW) as Hnf.
  assert (Hb : 0 <= b < 3 * f) by (apply next_c_rng; exact Hl).
  pose proof (next_c_rng a f Ha) as Hna. pose proof (prev_c_rng a f Ha) as Hpa.
  pose proof (next_c_rng b f Hb) as Hnb. pose proof (prev_c_rng b f Hb) as Hpb.
  destruct (new_face_corners f ltac:(lia)) as (N0 & N1 & N2 & P0 & P1 & P2).
  pose proof (w_vr _ _ _ _ HW _ Hna) as Hx. fold x in Hx.
  assert (Hpb_eq : prev_c b = vc s x) by (unfold b; apply next_c_spec; lia).
  assert (Lpb : c2v s (prev_c b) = x).
  { rewrite Hpb_eq. apply (f_vc _ _ HF); [exact Hx|lia]. }
  assert (Dpa : slf s (prev_c a) = -1).
  { rewrite slf_at by lia. rewrite (proj2 (proj2 (proj2 (prev_c_spec a ltac:(lia))))). rewrite Fa. reflexivity. }
  assert (Dpb : slf s (prev_c b) = -1).
  { rewrite slf_at by lia. rewrite (proj2 (proj2 (proj2 (prev_c_spec b ltac:(lia))))). rewrite Fb. reflexivity. }
  assert (Gs : forall c, 0 <= c < 3 * f -> slf s c <> -1 -> slf s' c = slf s c).
  { intros c Hc D. rewrite !slf_at in * by lia. rewrite Ec. pose proof (next_c_rng c f Hc).
    assert (next_c c <> a) by (intro Q; rewrite Q, Fa in D; apply D; reflexivity).
    assert (next_c c <> b) by (intro Q; rewrite Q, Fb in D; apply D; reflexivity).
    rewrite !upd_other by lia. reflexivity. }
  assert (Spa : slf s' (prev_c a) = 3 * f + 2).
  { rewrite slf_at by lia. rewrite (proj2 (proj2 (proj2 (prev_c_spec a ltac:(lia))))). rewrite Ec.
    rewrite !upd_other by lia. rewrite upd_same. exact N1. }
  assert (Spb : slf s' (prev_c b) = 3 * f).
  { rewrite slf_at by lia. rewrite (proj2 (proj2 (proj2 (prev_c_spec b ltac:(lia))))). rewrite Ec.
    rewrite !upd_other by lia. rewrite upd_same. exact N2. }
  assert (S0 : slf s' (3 * f) = next_c a).
  { rewrite slf_at by lia. rewrite N0, Ec. rewrite !upd_other by lia. rewrite upd_same. reflexivity. }
  assert (S1 : slf s' (3 * f + 1) = next_c b).
  { rewrite slf_at by lia. rewrite N1, Ec. rewrite upd_same. reflexivity. }
  assert (S2 : slf s' (3 * f + 2) = -1).
  { rewrite slf_at by lia. rewrite N2, Ec. rewrite !upd_other by lia. rewrite (w_free _ _ _ _ HW) by lia. reflexivity. }
  assert (Gc : forall c, 0 <= c < 3 * f -> c2v s' c = c2v s c).
  { intros c Hc. rewrite Ev. rewrite !upd_other by lia. reflexivity. }
  assert (V0 : c2v s' (3 * f) = x) by (rewrite Ev; rewrite !upd_other by lia; apply upd_same).
  assert (V1 : c2v s' (3 * f + 1) = c2v s (next_c b)) by (rewrite Ev; rewrite !upd_other by lia; apply upd_same).
  assert (V2 : c2v s' (3 * f + 2) = c2v s (prev_c a)) by (rewrite Ev; apply upd_same).
  apply (glue s s' f HW HF HW' Gc Gs).
  - intros c Hc Hcase N.
    destruct (Z_lt_dec c (3 * f)) as [Lo|Hi].
    + destruct Hcase as [?|D]; [lia|].
      assert (Hcc : 0 <= c < 3 * f) by lia. pose proof (next_c_rng c f Hcc).
      destruct (Z.eq_dec (next_c c) a) as [Qa|Qa].
      { apply next_eq_prev in Qa; try lia. subst c. rewrite Spa, V2. symmetry. apply Gc. lia. }
      destruct (Z.eq_dec (next_c c) b) as [Qb|Qb].
      { apply next_eq_prev in Qb; try lia. subst c. rewrite Spb, V0, Gc by lia. symmetry. exact Lpb. }
      exfalso. apply N. rewrite slf_at in * by lia. rewrite Ec. rewrite !upd_other by lia. exact D.
    + assert (c = 3 * f \/ c = 3 * f + 1 \/ c = 3 * f + 2) as [-> | [-> | ->]] by lia.
      * rewrite S0, V0, Gc by lia. reflexivity.
      * rewrite S1, V1, Gc by lia. reflexivity.
      * congruence.
  - intros c Hc. cbv zeta. rewrite El. destruct (f_reach _ _ HF c Hc) as (Nn & _).
    destruct (Z.eq_dec (c2v s c) (c2v s (prev_c a))) as [Q|Q].
    + rewrite Q, upd_same. split; [lia|].
      rewrite (dead_end_lmc NC maxv s f (prev_c a) HW HF Hpa Dpa).
      apply reach_step. rewrite Spa. apply reach_refl.
    + rewrite upd_other by exact Q. split; [exact Nn|apply reach_refl].
  - intros c Hc. assert (c = 3 * f \/ c = 3 * f + 1 \/ c = 3 * f + 2) as [-> | [-> | ->]] by lia.
    + right. rewrite S0, V0, Gc by lia. split; [lia|reflexivity].
    + right. rewrite S1, V1, Gc by lia. split; [lia|reflexivity].
    + left. rewrite V2, El. apply upd_same.
  - intros v Hv N. rewrite El in *. rewrite En in Hv. unfold upd in *.
    destruct (v =? c2v s (prev_c a)) eqn:Q; [rewrite V2; lia|].
    destruct (w_lr _ _ _ _ HW v Hv) as [Z|Z]; [congruence|]. rewrite Gc by exact Z. apply (f_vc _ _ HF); assumption.
  - exact Ei.
  - intros v Hv Iv. rewrite El. rewrite upd_other; [exact Iv|]. intro Q. subst v.
    destruct (f_reach _ _ HF _ Hpa) as (Nn & _). congruence.
Qed.

(** ** TOPOLOGY_R / TOPOLOGY_L *)
Lemma step_RL_shape : forall is_r s f s', W NC maxv f s -> 3 * f + 3 <= NC -> step_RL NC maxv is_r s f = Ok s' ->
  exists a rest oc cl cr, stack s = a :: rest /\
    (oc, cl, cr) = (if is_r then (3 * f + 2, 3 * f + 1, 3 * f) else (3 * f + 1, 3 * f, 3 * f + 2)) /\
    0 <= a < 3 * f /\ copp s a = -1 /\
    copp s' = upd (upd (copp s) oc a) a oc /\
    c2v s' = upd (upd (upd (c2v s) oc (nv s)) cr (c2v s (prev_c a))) cl (c2v s (next_c a)) /\
    vc s' = upd (upd (upd (vc s) (nv s) (-1)) (nv s) oc) (c2v s (prev_c a)) cr /\ nv s' = nv s + 1 /\ invalid s' = invalid s.
Proof.
  intros is_r s f s' HW HN H. unfold step_RL in H.
  destruct (stack s) as [|a rest] eqn:Est; [discriminate|].
  pose proof (w_stack _ _ _ _ HW) as Hst. rewrite Est in Hst. inversion Hst as [|? ? Ha Hrest]; subst.
  pose proof (w_nf _ _ _ _ HW) as Hnf. pose proof (w_nv _ _ _ _ HW) as Hnv.
  pose proof (next_c_rng a f Ha) as Hna. pose proof (prev_c_rng a f Ha) as Hpa.
  pose proof (w_vr _ _ _ _ HW _ Hpa) as Hvr. pose proof (w_vr _ _ _ _ HW _ Hna) as Hvl.
  mstep H. mstep H. destruct a0; [|discriminate].
  match goal with Q : all_free _ _ _ = Ok true |- _ => apply all_free_cons in Q; destruct Q as (Fa & _) end.
  destruct Fa as [Fa|(_ & Fa)]; [lia|].
  destruct is_r.
  - exists a, rest, (3 * f + 2), (3 * f + 1), (3 * f). split; [reflexivity|]. split; [reflexivity|].
    mstep H. prim. subst. mstep H. apply add_vertex_eq in E. destruct E as (-> & ->). sproj.
    mstep H. mstep H. prim. subst.
    mstep H. match goal with Q : set_lmc _ _ _ = Ok _ |- _ => apply set_lmc_ok in Q; sproj; destruct Q as [(A & _)|(_ & ->)]; [exfalso; lia|] end.
    mstep H. vtx_created. subst. simp_upd. mstep H. prim. subst. sproj.
    mstep H. match goal with Q : set_lmc _ _ _ = Ok _ |- _ => apply set_lmc_ok in Q; sproj; destruct Q as [(A & _)|(_ & ->)]; [exfalso; lia|] end.
    mstep H. vtx_created. subst. simp_upd. mstep H. prim. subst. sproj.
    apply Ok_inj in H. subst s'. sproj. repeat split; try lia; try assumption; reflexivity.
  - exists a, rest, (3 * f + 1), (3 * f), (3 * f + 2). split; [reflexivity|]. split; [reflexivity|].
    mstep H. prim. subst. mstep H. apply add_vertex_eq in E. destruct E as (-> & ->). sproj.
    mstep H. mstep H. prim. subst.
    mstep H. match goal with Q : set_lmc _ _ _ = Ok _ |- _ => apply set_lmc_ok in Q; sproj; destruct Q as [(A & _)|(_ & ->)]; [exfalso; lia|] end.
    mstep H. vtx_created. subst. simp_upd. mstep H. prim. subst. sproj.
    mstep H. match goal with Q : set_lmc _ _ _ = Ok _ |- _ => apply set_lmc_ok in Q; sproj; destruct Q as [(A & _)|(_ & ->)]; [exfalso; lia|] end.
    mstep H. vtx_created. subst. simp_upd. mstep H. prim. subst. sproj.
    apply Ok_inj in H. subst s'. sproj. repeat split; try lia; try assumption; reflexivity.
Qed.

Lemma step_RL_FI : forall is_r s f s', W NC maxv f s -> FI f s -> 3 * f + 3 <= NC ->
  step_RL NC maxv is_r s f = Ok s' -> FI (f + 1) s'.
Proof.
  intros is_r s f s' HW HF HN H.
  pose proof (step_RL_W NC maxv is_r s f s' HW HN H) as (HW' & _).
  destruct (step_RL_shape is_r s f s' HW HN H) as (a & rest & oc & cl & cr & Est & Eo & Ha & Fa & Ec & Ev & El & En & Ei).
  pose proof (w_nf _ _ _ _ HW) as Hnf. pose proof (w_nv _ _ _ _ HW) as Hnv.
  pose proof (next_c_rng a f Ha) as Hna. pose proof (prev_c_rng a f Ha) as Hpa.
  destruct (new_face_corners f ltac:(lia)) as (N0 & N1 & N2 & P0 & P1 & P2).
  pose proof (w_vr _ _ _ _ HW _ Hpa) as Hvr. pose proof (w_vr _ _ _ _ HW _ Hna) as Hvl.
  assert (Cyc : next_c cr = cl /\ next_c cl = oc /\ next_c oc = cr /\ 3 * f <= oc < 3 * f + 3 /\ 3 * f <= cl < 3 * f + 3 /\
                3 * f <= cr < 3 * f + 3 /\ oc <> cl /\ oc <> cr /\ cl <> cr).
  { destruct is_r; apply pair_equal_spec in Eo; destruct Eo as (Eo & ->); apply pair_equal_spec in Eo; destruct Eo as (-> & ->);
      repeat split; try lia; assumption. }
  destruct Cyc as (Ncr & Ncl & Noc & Roc & Rcl & Rcr & D1 & D2 & D3). clear Eo N0 N1 N2 P0 P1 P2.
  assert (Dpa : slf s (prev_c a) = -1).
  { rewrite slf_at by lia. rewrite (proj2 (proj2 (proj2 (prev_c_spec a ltac:(lia))))). rewrite Fa. reflexivity. }
  assert (Gs : forall c, 0 <= c < 3 * f -> slf s c <> -1 -> slf s' c = slf s c).
  { intros c Hc D. rewrite !slf_at in * by lia. rewrite Ec. pose proof (next_c_rng c f Hc).
    assert (next_c c <> a) by (intro Q; rewrite Q, Fa in D; apply D; reflexivity).
    rewrite !upd_other by lia. reflexivity. }
  assert (Spa : slf s' (prev_c a) = cr).
  { rewrite slf_at by lia. rewrite (proj2 (proj2 (proj2 (prev_c_spec a ltac:(lia))))). rewrite Ec. rewrite upd_same. exact Noc. }
  assert (Scr : slf s' cr = -1).
  { rewrite slf_at by lia. rewrite Ncr, Ec. rewrite !upd_other by lia. rewrite (w_free _ _ _ _ HW) by lia. reflexivity. }
  assert (Scl : slf s' cl = next_c a).
  { rewrite slf_at by lia. rewrite Ncl, Ec. rewrite upd_other by lia. rewrite upd_same. reflexivity. }
  assert (Soc : slf s' oc = -1).
  { rewrite slf_at by lia. rewrite Noc, Ec. rewrite !upd_other by lia. rewrite (w_free _ _ _ _ HW) by lia. reflexivity. }
  assert (Gc : forall c, 0 <= c < 3 * f -> c2v s' c = c2v s c).
  { intros c Hc. rewrite Ev. rewrite !upd_other by lia. reflexivity. }
  assert (Vcl : c2v s' cl = c2v s (next_c a)) by (rewrite Ev; apply upd_same).
  assert (Vcr : c2v s' cr = c2v s (prev_c a)) by (rewrite Ev; rewrite upd_other by lia; apply upd_same).
  assert (Voc : c2v s' oc = nv s) by (rewrite Ev; rewrite !upd_other by lia; apply upd_same).
  apply (glue s s' f HW HF HW' Gc Gs).
  - intros c Hc Hcase N.
    destruct (Z_lt_dec c (3 * f)) as [Lo|Hi].
    + destruct Hcase as [?|D]; [lia|].
      assert (Hcc : 0 <= c < 3 * f) by lia. pose proof (next_c_rng c f Hcc).
      destruct (Z.eq_dec (next_c c) a) as [Qa|Qa].
      { apply next_eq_prev in Qa; try lia. subst c. rewrite Spa, Vcr. symmetry. apply Gc. lia. }
      exfalso. apply N. rewrite slf_at in * by lia. rewrite Ec. rewrite !upd_other by lia. exact D.
    + assert (c = oc \/ c = cl \/ c = cr) as [-> | [-> | ->]] by lia; try congruence.
      rewrite Scl, Vcl, Gc by lia. reflexivity.
  - intros c Hc. cbv zeta. rewrite El. destruct (f_reach _ _ HF c Hc) as (Nn & _).
    pose proof (w_vr _ _ _ _ HW c Hc) as Hv.
    destruct (Z.eq_dec (c2v s c) (c2v s (prev_c a))) as [Q|Q].
    + rewrite Q, upd_same. split; [lia|].
      rewrite (dead_end_lmc NC maxv s f (prev_c a) HW HF Hpa Dpa).
      apply reach_step. rewrite Spa. apply reach_refl.
    + rewrite !upd_other by lia. split; [exact Nn|apply reach_refl].
  - intros c Hc. assert (c = oc \/ c = cl \/ c = cr) as [-> | [-> | ->]] by lia.
    + left. rewrite Voc, El. rewrite upd_other by lia. apply upd_same.
    + right. rewrite Scl, Vcl, Gc by lia. split; [lia|reflexivity].
    + left. rewrite Vcr, El. apply upd_same.
  - intros v Hv N. rewrite El in *. rewrite En in Hv. unfold upd in *.
    destruct (v =? c2v s (prev_c a)) eqn:Q; [rewrite Vcr; lia|].
    destruct (v =? nv s) eqn:Q2; [rewrite Voc; lia|].
    destruct (w_lr _ _ _ _ HW v ltac:(lia)) as [Z|Z]; [congruence|]. rewrite Gc by exact Z. apply (f_vc _ _ HF); [lia|assumption].
  - exact Ei.
  - intros v Hv Iv. rewrite El. rewrite !upd_other; [exact Iv|lia|lia|]. intro Q. subst v.
    destruct (f_reach _ _ HF _ Hpa) as (Nn & _). congruence.
Qed.

(** ** TOPOLOGY_E *)
Lemma step_E_shape : forall s f s', W NC maxv f s -> 3 * f + 3 <= NC -> step_E NC maxv s f = Ok s' ->
  copp s' = copp s /\
  c2v s' = upd (upd (upd (c2v s) (3 * f) (nv s)) (3 * f + 1) (nv s + 1)) (3 * f + 2) (nv s + 1 + 1) /\
  vc s' = upd (upd (upd (upd (upd (upd (vc s) (nv s) (-1)) (nv s + 1) (-1)) (nv s + 1 + 1) (-1)) (nv s) (3 * f))
            (nv s + 1) (3 * f + 1)) (nv s + 2) (3 * f + 2) /\
  nv s' = nv s + 1 + 1 + 1 /\ invalid s' = invalid s.
Proof.
  intros s f s' HW HN H. unfold step_E in H.
  pose proof (w_nf _ _ _ _ HW) as Hnf. pose proof (w_nv _ _ _ _ HW) as Hnv.
  mstep H. apply add_vertex_eq in E. destruct E as (-> & ->). sproj. mstep H. prim. subst. sproj.
  mstep H. apply add_vertex_eq in E. destruct E as (-> & ->). sproj. mstep H. prim. subst. sproj.
  mstep H. apply add_vertex_eq in E. destruct E as (-> & ->). sproj. mstep H. prim. subst. sproj.
  mstep H.
  mstep H. match goal with Q : set_lmc _ _ _ = Ok _ |- _ => apply set_lmc_ok in Q; sproj; destruct Q as [(A & _)|(_ & ->)]; [exfalso; lia|] end.
  mstep H. match goal with Q : set_lmc _ _ _ = Ok _ |- _ => apply set_lmc_ok in Q; sproj; destruct Q as [(A & _)|(_ & ->)]; [exfalso; lia|] end.
  mstep H. match goal with Q : set_lmc _ _ _ = Ok _ |- _ => apply set_lmc_ok in Q; sproj; destruct Q as [(A & _)|(_ & ->)]; [exfalso; lia|] end.
  apply Ok_inj in H. subst s'. sproj. repeat split; reflexivity.
Qed.

Lemma step_E_FI : forall s f s', W NC maxv f s -> FI f s -> 3 * f + 3 <= NC -> step_E NC maxv s f = Ok s' -> FI (f + 1) s'.
Proof.
  intros s f s' HW HF HN H.
  pose proof (step_E_W NC maxv s f s' HW HN H) as (HW' & _).
  destruct (step_E_shape s f s' HW HN H) as (Ec & Ev & El & En & Ei).
  pose proof (w_nf _ _ _ _ HW) as Hnf. pose proof (w_nv _ _ _ _ HW) as Hnv.
  destruct (new_face_corners f ltac:(lia)) as (N0 & N1 & N2 & P0 & P1 & P2).
  assert (Gs : forall c, 0 <= c -> slf s' c = slf s c).
  { intros c Hc. rewrite !slf_at by lia. rewrite Ec. reflexivity. }
  assert (Gc : forall c, 0 <= c < 3 * f -> c2v s' c = c2v s c).
  { intros c Hc. rewrite Ev. rewrite !upd_other by lia. reflexivity. }
  assert (Snew : forall c, 3 * f <= c < 3 * f + 3 -> slf s' c = -1).
  { intros c Hc. rewrite slf_at by lia. rewrite Ec.
    assert (3 * f <= next_c c) by (assert (c = 3 * f \/ c = 3 * f + 1 \/ c = 3 * f + 2) as [-> | [-> | ->]] by lia; lia).
    rewrite (w_free _ _ _ _ HW) by lia. reflexivity. }
  apply (glue s s' f HW HF HW' Gc).
  - intros c Hc D. apply Gs. lia.
  - intros c Hc Hcase N. exfalso. apply N. destruct (Z_lt_dec c (3 * f)).
    + destruct Hcase as [?|D]; [lia|]. rewrite Gs by lia. exact D.
    + apply Snew. lia.
  - intros c Hc. cbv zeta. pose proof (w_vr _ _ _ _ HW c Hc). rewrite El. rewrite !upd_other by lia.
    split; [apply (f_reach _ _ HF c Hc)|apply reach_refl].
  - intros c Hc. left.
    assert (c = 3 * f \/ c = 3 * f + 1 \/ c = 3 * f + 2) as [-> | [-> | ->]] by lia.
    + assert (V : c2v s' (3 * f) = nv s) by (rewrite Ev; rewrite !upd_other by lia; apply upd_same).
      rewrite V, El. case_upds; lia.
    + assert (V : c2v s' (3 * f + 1) = nv s + 1) by (rewrite Ev; rewrite !upd_other by lia; apply upd_same).
      rewrite V, El. case_upds; lia.
    + assert (V : c2v s' (3 * f + 2) = nv s + 1 + 1) by (rewrite Ev; apply upd_same).
      rewrite V, El. case_upds; lia.
  - intros v Hv N. rewrite El, Ev in *. rewrite En in Hv. unfold upd in *.
    destruct (v =? nv s + 2) eqn:Q2; [rewrite Z.eqb_refl; lia|].
    destruct (v =? nv s + 1) eqn:Q1.
    { destruct (3 * f + 1 =? 3 * f + 2) eqn:?; [lia|]. rewrite Z.eqb_refl. lia. }
    destruct (v =? nv s) eqn:Q0.
    { destruct (3 * f =? 3 * f + 2) eqn:?; [lia|]. destruct (3 * f =? 3 * f + 1) eqn:?; [lia|]. rewrite Z.eqb_refl. lia. }
    destruct (v =? nv s + 1 + 1) eqn:Q3; [lia|].
    destruct (w_lr _ _ _ _ HW v ltac:(lia)) as [Z|Z]; [congruence|].
    destruct (vc s v =? 3 * f + 2) eqn:?; [lia|]. destruct (vc s v =? 3 * f + 1) eqn:?; [lia|]. destruct (vc s v =? 3 * f) eqn:?; [lia|].
    apply (f_vc _ _ HF); [lia|assumption].
  - exact Ei.
  - intros v Hv Iv. rewrite El. rewrite !upd_other by lia. exact Iv.
Qed.
End FanSteps.

Section FanS.
Variables NC maxv : Z.

(** what the S-case relabelling loop does *)
Lemma s_loop_spec : forall fuel s1 f cn first p s2, W NC maxv f s1 -> 0 <= cn < 3 * f -> 0 <= p < nv s1 ->
  s_loop NC fuel s1 cn first p = Ok s2 ->
  exists m : nat,
    (forall i : nat, (i <= m)%nat -> Nat.iter i (slf s1) cn <> -1) /\ Nat.iter (S m) (slf s1) cn = -1 /\
    (forall i : nat, (i <= m)%nat -> c2v s2 (Nat.iter i (slf s1) cn) = p) /\
    (forall c, c2v s2 c = c2v s1 c \/ exists i : nat, (i <= m)%nat /\ c = Nat.iter i (slf s1) cn).
Proof.
  induction fuel as [|fuel IH]; intros s1 f cn first p s2 HW Hcn Hp H; cbn [s_loop] in H; [discriminate|].
  destruct (cn =? -1) eqn:E; [lia|].
  mstep H. prim. subst. mstep H.
  pose proof (W_map_cv NC maxv f s1 cn p HW Hp) as HW1.
  destruct (swing_left_created NC maxv _ f cn HW1 Hcn) as (Q & R). rewrite Q in E0. apply Ok_inj in E0. subst a.
  change (slf (with_c2v s1 (upd (c2v s1) cn p)) cn) with (slf s1 cn) in *.
  mstep H. destruct R as [R|R].
  - (* the walk ends here *)
    rewrite R in H. destruct fuel; [discriminate|]. cbn [s_loop] in H. cbn in H. apply Ok_inj in H. subst s2.
    exists O. repeat split.
    + intros i Hi. assert (i = O) by lia. subst i. cbn. lia.
    + rewrite iter_S. cbn [Nat.iter]. exact R.
    + intros i Hi. assert (i = O) by lia. subst i. cbn [Nat.iter c2v with_c2v]. apply upd_same.
    + intros c. cbn [c2v with_c2v]. unfold upd. destruct (c =? cn) eqn:Q1; [right; exists O; split; [lia|cbn; lia]|left; reflexivity].
  - apply IH with (f := f) in H; [|exact HW1|exact R|cbn [nv with_c2v]; exact Hp].
    change (slf (with_c2v s1 (upd (c2v s1) cn p))) with (slf s1) in H.
    destruct H as (m & A & B & C & D). exists (S m). repeat split.
    + intros i Hi. destruct i; [cbn; lia|]. rewrite iter_succ_r. apply A. lia.
    + rewrite iter_succ_r. exact B.
    + intros i Hi. destruct i.
      * change (Nat.iter 0 (slf s1) cn) with cn. destruct (D cn) as [D1|(i & Li & Ei)].
        { rewrite D1. cbn [c2v with_c2v]. apply upd_same. }
        { rewrite Ei. apply C. exact Li. }
      * rewrite iter_succ_r. apply C. lia.
    + intros c. destruct (D c) as [D1|(i & Li & Ei)].
      * cbn [c2v with_c2v] in D1. unfold upd in D1. destruct (c =? cn) eqn:Q1.
        { right. exists O. split; [lia|cbn; lia]. }
        { left. exact D1. }
      * right. exists (S i). split; [lia|]. rewrite iter_succ_r. exact Ei.
Qed.


Lemma step_S_shape : forall rm s f sid s', W NC maxv f s -> 3 * f + 3 <= NC -> step_S NC rm s f sid = Ok s' ->
  exists a b s1 s2, 0 <= a < 3 * f /\ 0 <= b < 3 * f /\ a <> b /\ copp s a = -1 /\ copp s b = -1 /\
   let p := c2v s (prev_c a) in let q := c2v s (next_c a) in let r := c2v s (prev_c b) in let n := c2v s (next_c b) in
   copp s1 = upd (upd (upd (upd (copp s) a (3 * f + 2)) (3 * f + 2) a) b (3 * f + 1)) (3 * f + 1) b /\
   c2v s1 = upd (upd (upd (c2v s) (3 * f) p) (3 * f + 1) q) (3 * f + 2) r /\
   vc s1 = upd (upd (vc s) r (3 * f + 2)) p (upd (vc s) r (3 * f + 2) n) /\ nv s1 = nv s /\
   W NC maxv (f + 1) s1 /\
   s_loop NC (loop_fuel NC) s1 (next_c b) (next_c b) p = Ok s2 /\
   copp s' = copp s2 /\ c2v s' = c2v s2 /\ vc s' = upd (vc s2) n (-1) /\ nv s' = nv s2 /\
   invalid s' = (if rm then n :: invalid s else invalid s).
Proof.
  intros rm s f sid s' HW HN H. unfold step_S in H.
  destruct (stack s) as [|b rest0] eqn:Est; [discriminate|].
  pose proof (w_stack _ _ _ _ HW) as Hst. rewrite Est in Hst. inversion Hst as [|? ? Hb Hrest0]; subst.
  pose proof (w_nf _ _ _ _ HW) as Hnf. pose proof (w_nv _ _ _ _ HW) as Hnv.
  pose proof (w_free _ _ _ _ HW) as HF.
  assert (Hst1 : Forall (fun c => 0 <= c < 3 * f)
            match find_split sid (splits s) with Some c => c :: rest0 | None => rest0 end).
  { destruct (find_split sid (splits s)) as [c|] eqn:Ef; [|exact Hrest0]. constructor; [|exact Hrest0].
    pose proof (w_splits _ _ _ _ HW) as Hsp. clear - Ef Hsp. induction (splits s) as [|(k, c0) r IH]; [discriminate|].
    cbn [find_split] in Ef. inversion Hsp; subst. destruct (k =? sid); [inversion Ef; subst; assumption|apply IH; assumption]. }
  destruct (match find_split sid (splits s) with Some c => c :: rest0 | None => rest0 end) as [|a rest] eqn:Est1; [discriminate|].
  inversion Hst1 as [|? ? Ha Hrest]; subst. clear Est1 Hst1.
  pose proof (next_c_rng a f Ha) as Hna. pose proof (prev_c_rng a f Ha) as Hpa.
  pose proof (next_c_rng b f Hb) as Hnb. pose proof (prev_c_rng b f Hb) as Hpb.
  pose proof (w_vr _ _ _ _ HW _ Hpa) as Hp. pose proof (w_vr _ _ _ _ HW _ Hna) as Hq.
  pose proof (w_vr _ _ _ _ HW _ Hpb) as Hr. pose proof (w_vr _ _ _ _ HW _ Hnb) as Hn.
  pose proof (div3_lt a f Ha) as Hda. pose proof (div3_lt b f Hb) as Hdb.
  mstep H. mstep H. mstep H. destruct a0; [|discriminate].
  match goal with Q : all_free _ _ _ = Ok true |- _ => apply all_free_cons in Q; destruct Q as (Fa & Q); apply all_free_cons in Q; destruct Q as (Fb & _) end.
  destruct Fa as [Fa|(_ & Fa)]; [lia|]. destruct Fb as [Fb|(_ & Fb)]; [lia|].
  mstep H. mstep H. prim. subst. sproj.
  mstep H. vtx_created. subst. mstep H. prim. subst. sproj.
  mstep H. vtx_created. subst. simp_upd. mstep H. prim. subst. sproj.
  mstep H. vtx_created. subst. simp_upd. mstep H. prim. subst. sproj.
  mstep H. match goal with Q : set_lmc _ _ _ = Ok _ |- _ => apply set_lmc_ok in Q; sproj; destruct Q as [(A & _)|(_ & ->)]; [exfalso; lia|] end.
  mstep H. vtx_created. subst. simp_upd. mstep H. prim. subst. sproj.
  mstep H. match goal with Q : set_lmc _ _ _ = Ok _ |- _ => apply set_lmc_ok in Q; sproj; destruct Q as [(A & _)|(_ & ->)]; [exfalso; lia|] end.
  mstep H.
  match goal with Q : s_loop _ _ ?s0 _ _ _ = Ok ?s2 |- _ => exists a, b, s0, s2; assert (HW1 : W NC maxv (f + 1) s0) end.
  { replace (3 * (f + 1)) with (3 * f + 3) by lia.
    constructor; sproj.
    - lia.
    - replace (3 * (f + 1)) with (3 * f + 3) by lia.
      apply PI_link; [apply PI_link; [eapply PI_extend; [apply (w_pi _ _ _ _ HW) | exact HF | lia] | lia | lia | exact Fa | apply HF; lia |]
                     | lia | lia | rewrite !upd_other by lia; exact Fb | rewrite !upd_other by lia; apply HF; lia |].
      + rewrite (div3_new f 2) by lia. lia.
      + rewrite (div3_new f 1) by lia. lia.
    - replace (3 * (f + 1)) with (3 * f + 3) by lia. intros c Hc. rewrite !upd_other by lia. apply HF. lia.
    - replace (3 * (f + 1)) with (3 * f + 3) by lia. intros c Hc. case_upds; try lia. pose proof (w_vr _ _ _ _ HW c). lia.
    - apply LR_upd.
      + apply LR_upd; [|right; lia]. eapply LR_mono; [apply (w_lr _ _ _ _ HW)|lia].
      + unfold upd. destruct (c2v s (next_c b) =? c2v s (prev_c b)); [right; lia|].
        destruct (w_lr _ _ _ _ HW _ Hn) as [Q|Q]; [left; exact Q|right; lia].
    - lia.
    - rewrite Est. eapply Forall_mono3; [|exact Hst]. lia.
    - eapply Forall_mono3s; [|apply (w_splits _ _ _ _ HW)]. lia.
    - apply (w_invalid _ _ _ _ HW). }
  pose proof E0 as Eloop.
  apply s_loop_W with (maxv := maxv) (f := f + 1) in E0; [|exact HW1|right; lia|sproj; lia].
  destruct E0 as (_ & SB). unfold same_but_c2v in SB. sproj. destruct SB as (S1 & S2 & S3 & S4 & S5 & S6 & S7 & S8 & S9 & S10).
  mstep H. prim. subst. apply Ok_inj in H. subst s'.
  cbv zeta. sproj.
  split; [exact Ha|]. split; [exact Hb|]. split; [lia|]. split; [exact Fa|]. split; [exact Fb|].
  split; [reflexivity|]. split; [reflexivity|]. split; [reflexivity|]. split; [reflexivity|]. split; [exact HW1|].
  split; [exact Eloop|].
  destruct rm; sproj; repeat split; try reflexivity; congruence.
Qed.

Lemma periodic_alive : forall (g : Z -> Z) P x, g (-1) = -1 -> (0 < P)%nat -> Nat.iter P g x = x -> x <> -1 ->
  forall j, Nat.iter j g x <> -1.
Proof.
  intros g P x G HP Per Nx j Hj.
  assert (M : forall t, Nat.iter (t * P) g x = x).
  { induction t; [reflexivity|]. cbn [Nat.mul]. rewrite Nat.add_comm, iter_add, Per. exact IHt. }
  assert (Dd : forall t, Nat.iter t g (-1) = -1) by (induction t; [reflexivity|rewrite iter_S, IHt; exact G]).
  specialize (M j). assert (j * P = (j * P - j) + j)%nat by nia. rewrite H, iter_add, Hj, Dd in M. congruence.
Qed.
End FanS.

Section SCase.
Variables NC maxv : Z.
Variables (s s1 s2 : st) (f a b : Z).
Hypothesis HW : W NC maxv f s.
Hypothesis HF : FI f s.
Hypothesis Ha : 0 <= a < 3 * f.
Hypothesis Hb : 0 <= b < 3 * f.
Hypothesis Hab : a <> b.
Hypothesis Fa : copp s a = -1.
Hypothesis Fb : copp s b = -1.
Let p := c2v s (prev_c a).
Let q := c2v s (next_c a).
Let r := c2v s (prev_c b).
Let n := c2v s (next_c b).
Let nb := next_c b.
Hypothesis Ec1 : copp s1 = upd (upd (upd (upd (copp s) a (3 * f + 2)) (3 * f + 2) a) b (3 * f + 1)) (3 * f + 1) b.
Hypothesis Ev1 : c2v s1 = upd (upd (upd (c2v s) (3 * f) p) (3 * f + 1) q) (3 * f + 2) r.
Hypothesis HW1 : W NC maxv (f + 1) s1.
Hypothesis Eloop : s_loop NC (loop_fuel NC) s1 nb nb p = Ok s2.

Local Notation g := (slf s).
Local Notation g1 := (slf s1).

Lemma sc_rng : 0 <= f /\ 0 <= next_c a < 3 * f /\ 0 <= prev_c a < 3 * f /\ 0 <= nb < 3 * f /\ 0 <= prev_c b < 3 * f.
Proof.
  pose proof (w_nf _ _ _ _ HW). pose proof (next_c_rng a f Ha). pose proof (prev_c_rng a f Ha).
  pose proof (next_c_rng b f Hb). pose proof (prev_c_rng b f Hb). unfold nb. lia.
Qed.

Lemma sc_dead_pa : g (prev_c a) = -1.
Proof. destruct sc_rng as (? & ? & ? & ? & ?). rewrite slf_at by lia. rewrite (proj2 (proj2 (proj2 (prev_c_spec a ltac:(lia))))), Fa. reflexivity. Qed.
Lemma sc_dead_pb : g (prev_c b) = -1.
Proof. destruct sc_rng as (? & ? & ? & ? & ?). rewrite slf_at by lia. rewrite (proj2 (proj2 (proj2 (prev_c_spec b ltac:(lia))))), Fb. reflexivity. Qed.

Lemma sc_no_pred : forall e, 0 <= e < 3 * f -> copp s e = -1 -> no_pred s f (next_c e).
Proof.
  intros e He Fe d Hd E. rewrite slf_at in E by lia.
  pose proof (next_c_rng d f Hd) as Hnd. pose proof (next_c_rng e f He) as Hne.
  destruct (w_pi _ _ _ _ HW _ Hnd) as [Q|(Q1 & Q2 & _)].
  - rewrite Q in E. cbn in E. lia.
  - apply next_c_inj in E; try lia. rewrite E in Q2. lia.
Qed.

Lemma sc_agree : forall c, 0 <= c < 3 * f -> g c <> -1 -> g1 c = g c.
Proof.
  intros c Hc D. rewrite !slf_at in * by lia. rewrite Ec1. pose proof (next_c_rng c f Hc).
  assert (next_c c <> a) by (intro Q; rewrite Q, Fa in D; apply D; reflexivity).
  assert (next_c c <> b) by (intro Q; rewrite Q, Fb in D; apply D; reflexivity).
  rewrite !upd_other by lia. reflexivity.
Qed.

Lemma sc_links : g1 (prev_c a) = 3 * f /\ g1 (prev_c b) = 3 * f + 2 /\ g1 (3 * f) = nb /\ g1 (3 * f + 1) = next_c a /\ g1 (3 * f + 2) = -1.
Proof.
  destruct sc_rng as (? & ? & ? & ? & ?).
  destruct (new_face_corners f ltac:(lia)) as (N0 & N1 & N2 & P0 & P1 & P2).
  repeat split.
  - rewrite slf_at by lia. rewrite (proj2 (proj2 (proj2 (prev_c_spec a ltac:(lia))))), Ec1.
    rewrite !upd_other by lia. rewrite upd_same. exact N2.
  - rewrite slf_at by lia. rewrite (proj2 (proj2 (proj2 (prev_c_spec b ltac:(lia))))), Ec1.
    rewrite !upd_other by lia. rewrite upd_same. exact N1.
  - rewrite slf_at by lia. rewrite N0, Ec1. rewrite upd_same. reflexivity.
  - rewrite slf_at by lia. rewrite N1, Ec1. rewrite !upd_other by lia. rewrite upd_same. reflexivity.
  - rewrite slf_at by lia. rewrite N2, Ec1. rewrite !upd_other by lia. rewrite (w_free _ _ _ _ HW) by lia. reflexivity.
Qed.

Lemma sc_labels : (forall c, 0 <= c < 3 * f -> c2v s1 c = c2v s c) /\ c2v s1 (3 * f) = p /\ c2v s1 (3 * f + 1) = q /\ c2v s1 (3 * f + 2) = r.
Proof.
  rewrite Ev1. repeat split.
  - intros c Hc. rewrite !upd_other by lia. reflexivity.
  - rewrite !upd_other by lia. apply upd_same.
  - rewrite upd_other by lia. apply upd_same.
  - apply upd_same.
Qed.

(** the old orbit of nb *)
Lemma sc_orbit : exists kb : nat, Nat.iter kb g nb = vc s n /\ vc s n <> -1 /\ g (vc s n) = -1 /\
  (forall i : nat, (i <= kb)%nat -> Nat.iter i g nb <> -1 /\ 0 <= Nat.iter i g nb < 3 * f /\ c2v s (Nat.iter i g nb) = n /\
                                  Nat.iter i g1 nb = Nat.iter i g nb) /\
  (forall c, 0 <= c < 3 * f -> c2v s c = n -> exists i : nat, (i <= kb)%nat /\ Nat.iter i g nb = c).
Proof.
  destruct sc_rng as (? & ? & ? & Hnb & ?).
  destruct (f_reach _ _ HF nb Hnb) as (N & (kb & Rb)). fold n in N, Rb.
  pose proof (sc_no_pred b Hb Fb) as NP. fold nb in NP.
  exists kb. split; [exact Rb|]. split; [exact N|].
  split; [exact (no_pred_lmc_dead NC maxv s f nb HW HF Hnb NP)|]. split.
  - intros i Hi.
    assert (Al : Nat.iter i g nb <> -1).
    { intro Z. replace kb with ((kb - i) + i)%nat in Rb by lia. rewrite iter_add, Z, iter_dead in Rb. congruence. }
    destruct (path_label NC maxv s f HW HF i nb Hnb Al) as (L & R).
    split; [exact Al|]. split; [exact R|]. split; [exact L|].
    exact (lift NC maxv s s1 f HW sc_agree i nb _ Hnb eq_refl Al).
  - intros c Hc Lc. destruct (f_reach _ _ HF c Hc) as (_ & (kc & Rc)). rewrite Lc in Rc.
    exact (merge NC maxv s f nb HW Hnb NP kc kb c (vc s n) Hc Rc Rb N).
Qed.

Lemma sc_loop : exists m : nat,
    (forall i : nat, (i <= m)%nat -> Nat.iter i g1 nb <> -1) /\ Nat.iter (S m) g1 nb = -1 /\
    (forall i : nat, (i <= m)%nat -> c2v s2 (Nat.iter i g1 nb) = p) /\
    (forall c, c2v s2 c = c2v s1 c \/ exists i : nat, (i <= m)%nat /\ c = Nat.iter i g1 nb).
Proof.
  destruct sc_rng as (? & ? & Hpa & Hnb & ?).
  apply (s_loop_spec NC maxv (loop_fuel NC) s1 (f + 1) nb nb p s2 HW1); [lia| |exact Eloop].
  pose proof (w_vr _ _ _ _ HW _ Hpa) as Q. fold p in Q.
  assert (nv s1 = nv s \/ True) by (right; exact I).
  (* nv s1 >= the bound of p: c2v s1 (3f) = p and W (f+1) s1 *)
  destruct sc_labels as (_ & V0 & _). rewrite <- V0. apply (w_vr _ _ _ _ HW1). lia.
Qed.

Lemma sc_p_ne_n : p <> n.
Proof.
  intro E. destruct sc_rng as (? & ? & Hpa & Hnb & ?).
  destruct sc_orbit as (kb & Rb & N & Dl & Orb & _). destruct sc_loop as (m & A & B & _).
  assert (L : vc s n = prev_c a).
  { rewrite <- E. unfold p. apply (dead_end_lmc NC maxv s f _ HW HF Hpa sc_dead_pa). }
  destruct sc_links as (L1 & _ & L3 & _).
  assert (Per : Nat.iter (S (S kb)) g1 nb = nb).
  { rewrite !iter_S. rewrite (proj2 (proj2 (proj2 (Orb kb ltac:(lia))))), Rb, L, L1. exact L3. }
  apply (periodic_alive g1 (S (S kb)) nb (slf_m1 s1) ltac:(lia) Per ltac:(lia) (S m)). exact B.
Qed.

Lemma sc_r_ne_p : r <> p.
Proof.
  intro E. destruct sc_rng as (? & ? & Hpa & Hnb & Hpb).
  pose proof (dead_end_lmc NC maxv s f _ HW HF Hpa sc_dead_pa) as L1.
  pose proof (dead_end_lmc NC maxv s f _ HW HF Hpb sc_dead_pb) as L2.
  fold p in L1. fold r in L2. rewrite E in L2. rewrite L1 in L2. apply prev_c_inj in L2; lia.
Qed.

Lemma sc_q_ne_n : q <> n.
Proof.
  intro E. destruct sc_rng as (? & Hna & Hpa & Hnb & Hpb).
  destruct sc_orbit as (kb & Rb & N & Dl & Orb & All).
  destruct (All (next_c a) Hna E) as (i & Li & Ei).
  destruct i.
  - cbn in Ei. unfold nb in Ei. apply next_c_inj in Ei; lia.
  - rewrite iter_S in Ei. destruct (Orb i ltac:(lia)) as (_ & R & _).
    exact (sc_no_pred a Ha Fa _ R Ei).
Qed.

Let ln1 := upd (vc s) r (3 * f + 2) n.

(** the walk in s1: exactly the corners labelled n in s1 *)
Lemma sc_walk : exists M : nat,
  (forall i : nat, (i <= M)%nat -> Nat.iter i g1 nb <> -1 /\ 0 <= Nat.iter i g1 nb < 3 * f + 3 /\ c2v s1 (Nat.iter i g1 nb) = n) /\
  Nat.iter (S M) g1 nb = -1 /\ Nat.iter M g1 nb = ln1 /\
  (forall c, 0 <= c < 3 * f + 3 -> c2v s1 c = n -> exists i : nat, (i <= M)%nat /\ Nat.iter i g1 nb = c).
Proof.
  destruct sc_rng as (? & Hna & Hpa & Hnb & Hpb).
  destruct sc_orbit as (kb & Rb & N & Dl & Orb & All).
  destruct sc_links as (L1 & L2 & L3 & L4 & L5). destruct sc_labels as (Gc & V0 & V1 & V2).
  pose proof sc_p_ne_n as Pn. pose proof sc_q_ne_n as Qn.
  destruct (Z.eq_dec r n) as [Ern|Ern].
  - (* prev b is the old left-most corner of n; the walk continues to the new corner 3f+2 *)
    assert (L : vc s n = prev_c b).
    { rewrite <- Ern. unfold r. apply (dead_end_lmc NC maxv s f _ HW HF Hpb sc_dead_pb). }
    assert (K1 : Nat.iter (S kb) g1 nb = 3 * f + 2).
    { rewrite iter_S, (proj2 (proj2 (proj2 (Orb kb ltac:(lia))))), Rb, L. exact L2. }
    exists (S kb). repeat split.
    + destruct (Nat.eq_dec i (S kb)) as [->|Ne]; [rewrite K1; lia|].
      destruct (Orb i ltac:(lia)) as (X1 & X2 & X3 & X4). rewrite X4. exact X1.
    + destruct (Nat.eq_dec i (S kb)) as [->|Ne]; [rewrite K1; lia|].
      destruct (Orb i ltac:(lia)) as (X1 & X2 & X3 & X4). rewrite X4. lia.
    + destruct (Nat.eq_dec i (S kb)) as [->|Ne]; [rewrite K1; lia|].
      destruct (Orb i ltac:(lia)) as (X1 & X2 & X3 & X4). rewrite X4. lia.
    + destruct (Nat.eq_dec i (S kb)) as [->|Ne]; [rewrite K1, V2; exact Ern|].
      destruct (Orb i ltac:(lia)) as (X1 & X2 & X3 & X4). rewrite X4, Gc by lia. exact X3.
    + rewrite iter_S, K1. exact L5.
    + rewrite K1. unfold ln1. rewrite Ern. symmetry. apply upd_same.
    + intros c Hc Lc. destruct (Z_lt_dec c (3 * f)) as [Lo|Hi].
      * rewrite Gc in Lc by lia. destruct (All c ltac:(lia) Lc) as (i & Li & Ei). exists i. split; [lia|].
        rewrite (proj2 (proj2 (proj2 (Orb i Li)))). exact Ei.
      * assert (c = 3 * f \/ c = 3 * f + 1 \/ c = 3 * f + 2) as [-> | [-> | ->]] by lia; try congruence.
        exists (S kb). split; [lia|exact K1].
  - assert (Lne : ln1 = vc s n) by (unfold ln1; apply upd_other; congruence).
    assert (Hl : 0 <= vc s n < 3 * f) by (rewrite <- Rb; apply (Orb kb); lia).
    assert (Ll : c2v s (vc s n) = n) by (rewrite <- Rb; apply (Orb kb); lia).
    assert (D1 : g1 (vc s n) = -1).
    { rewrite slf_at in * by lia. rewrite Ec1. pose proof (next_c_rng _ f Hl).
      assert (next_c (vc s n) <> a).
      { intro Q. apply next_eq_prev in Q; try lia. rewrite Q in Ll. fold p in Ll. congruence. }
      assert (next_c (vc s n) <> b).
      { intro Q. apply next_eq_prev in Q; try lia. rewrite Q in Ll. fold r in Ll. congruence. }
      rewrite !upd_other by lia. exact Dl. }
    exists kb. repeat split.
    + destruct (Orb i ltac:(lia)) as (X1 & X2 & X3 & X4). rewrite X4. exact X1.
    + destruct (Orb i ltac:(lia)) as (X1 & X2 & X3 & X4). rewrite X4. lia.
    + destruct (Orb i ltac:(lia)) as (X1 & X2 & X3 & X4). rewrite X4. lia.
    + destruct (Orb i ltac:(lia)) as (X1 & X2 & X3 & X4). rewrite X4, Gc by lia. exact X3.
    + rewrite iter_S, (proj2 (proj2 (proj2 (Orb kb ltac:(lia))))), Rb. exact D1.
    + rewrite (proj2 (proj2 (proj2 (Orb kb ltac:(lia))))), Rb. symmetry. exact Lne.
    + intros c Hc Lc. destruct (Z_lt_dec c (3 * f)) as [Lo|Hi].
      * rewrite Gc in Lc by lia. destruct (All c ltac:(lia) Lc) as (i & Li & Ei). exists i. split; [lia|].
        rewrite (proj2 (proj2 (proj2 (Orb i Li)))). exact Ei.
      * assert (c = 3 * f \/ c = 3 * f + 1 \/ c = 3 * f + 2) as [-> | [-> | ->]] by lia; congruence.
Qed.

Definition sigma (v : Z) : Z := if v =? n then p else v.

Lemma sc_relabel : forall c, 0 <= c < 3 * f + 3 -> c2v s2 c = sigma (c2v s1 c).
Proof.
  intros c Hc. destruct sc_walk as (M & WA & WB & _ & WD). destruct sc_loop as (m & A & B & C & D).
  assert (m = M).
  { destruct (Nat.lt_trichotomy m M) as [Q|[Q|Q]]; [|exact Q|].
    - exfalso. apply (proj1 (WA (S m) ltac:(lia))). exact B.
    - exfalso. apply (A (S M) ltac:(lia)). exact WB. }
  subst m. unfold sigma. destruct (c2v s1 c =? n) eqn:E.
  - destruct (WD c Hc ltac:(lia)) as (i & Li & Ei). rewrite <- Ei. apply C. exact Li.
  - destruct (D c) as [Q|(i & Li & Ei)]; [exact Q|]. exfalso. subst c.
    destruct (WA i Li) as (_ & _ & X). lia.
Qed.

Variable s' : st.
Hypothesis Ec' : copp s' = copp s1.
Hypothesis Ev' : c2v s' = c2v s2.
Hypothesis El' : vc s' = upd (upd (upd (vc s) r (3 * f + 2)) p ln1) n (-1).
Hypothesis En' : nv s' = nv s.
Hypothesis HW' : W NC maxv (f + 1) s'.
Variable rm : bool.
Hypothesis Ei' : invalid s' = (if rm then n :: invalid s else invalid s).

Lemma sc_slf' : forall c, slf s' c = g1 c.
Proof. intros c. unfold slf, oppf. rewrite Ec'. reflexivity. Qed.
Lemma sc_reach' : forall x y, reach s1 x y -> reach s' x y.
Proof.
  intros x y (k & R). exists k. rewrite <- R. clear R. induction k; [reflexivity|]. rewrite !iter_S, IHk. apply sc_slf'.
Qed.

Lemma sc_vc' : vc s' n = -1 /\ vc s' p = ln1 /\ (r <> n -> vc s' r = 3 * f + 2) /\
  (forall v, v <> n -> v <> p -> v <> r -> vc s' v = vc s v).
Proof.
  pose proof sc_p_ne_n. pose proof sc_r_ne_p. rewrite El'. repeat split.
  - apply upd_same.
  - rewrite upd_other by lia. apply upd_same.
  - intros. rewrite !upd_other by lia. apply upd_same.
  - intros. rewrite !upd_other by lia. reflexivity.
Qed.

Lemma sc_ln1 : ln1 <> -1 /\ 0 <= ln1 < 3 * f + 3 /\ c2v s1 ln1 = n /\ g1 ln1 = -1.
Proof.
  destruct sc_walk as (M & WA & WB & WC & _). destruct (WA M ltac:(lia)) as (X1 & X2 & X3).
  rewrite WC in *. repeat split; try lia; try assumption. rewrite <- WC. rewrite <- iter_S. exact WB.
Qed.

(** every old corner of vertex n reaches the new left-most corner of the merged vertex *)
Lemma sc_Rn : forall c, 0 <= c < 3 * f -> c2v s c = n -> reach s1 c ln1.
Proof.
  intros c Hc Lc. destruct sc_rng as (? & Hna & Hpa & Hnb & Hpb).
  destruct (f_reach _ _ HF c Hc) as (N & R). rewrite Lc in N, R.
  pose proof (lift_reach NC maxv s s1 f HW sc_agree c _ Hc R N) as R1.
  destruct (Z.eq_dec r n) as [Ern|Ern].
  - assert (L : vc s n = prev_c b).
    { rewrite <- Ern. unfold r. apply (dead_end_lmc NC maxv s f _ HW HF Hpb sc_dead_pb). }
    eapply reach_trans; [exact R1|]. rewrite L. apply reach_step. rewrite (proj1 (proj2 sc_links)).
    unfold ln1. rewrite Ern, upd_same. apply reach_refl.
  - unfold ln1. rewrite upd_other by congruence. exact R1.
Qed.

Lemma sc_old : forall c, 0 <= c < 3 * f ->
  vc s' (sigma (c2v s c)) <> -1 /\ reach s1 c (vc s' (sigma (c2v s c))).
Proof.
  intros c Hc. destruct sc_rng as (? & Hna & Hpa & Hnb & Hpb).
  destruct sc_vc' as (Vn & Vp & Vr & Vo). destruct sc_ln1 as (Nl & _).
  pose proof sc_p_ne_n as Pn. pose proof sc_r_ne_p as Rp.
  destruct sc_links as (L1 & L2 & L3 & L4 & L5).
  destruct (f_reach _ _ HF c Hc) as (N & R).
  pose proof (lift_reach NC maxv s s1 f HW sc_agree c _ Hc R N) as R1.
  unfold sigma. destruct (c2v s c =? n) eqn:E1.
  - rewrite Vp. split; [exact Nl|]. apply sc_Rn; [exact Hc|lia].
  - destruct (Z.eq_dec (c2v s c) p) as [E2|E2].
    + rewrite E2, Vp. split; [exact Nl|].
      eapply reach_trans; [exact R1|]. rewrite E2. unfold p.
      rewrite (dead_end_lmc NC maxv s f _ HW HF Hpa sc_dead_pa).
      apply reach_step. rewrite L1. apply reach_step. rewrite L3. apply sc_Rn; [exact Hnb|reflexivity].
    + destruct (Z.eq_dec (c2v s c) r) as [E3|E3].
      * rewrite E3, Vr by lia. split; [lia|].
        eapply reach_trans; [exact R1|]. rewrite E3. unfold r.
        rewrite (dead_end_lmc NC maxv s f _ HW HF Hpb sc_dead_pb).
        apply reach_step. rewrite L2. apply reach_refl.
      * rewrite Vo by lia. split; [exact N|exact R1].
Qed.

Lemma sc_FI : FI (f + 1) s'.
Proof.
  destruct sc_rng as (Hf & Hna & Hpa & Hnb & Hpb).
  destruct sc_vc' as (Vn & Vp & Vr & Vo). destruct sc_ln1 as (Nl & Rl & Ll & Dl).
  pose proof sc_p_ne_n as Pn. pose proof sc_r_ne_p as Rp. pose proof sc_q_ne_n as Qn.
  destruct sc_links as (L1 & L2 & L3 & L4 & L5). destruct sc_labels as (Gc & V0 & V1 & V2).
  assert (Lab' : forall c, 0 <= c < 3 * f + 3 -> c2v s' c = sigma (c2v s1 c)) by (intros; rewrite Ev'; apply sc_relabel; assumption).
  assert (Sp : sigma p = p) by (unfold sigma; destruct (p =? n) eqn:?; [lia|reflexivity]).
  assert (Sn : sigma n = p) by (unfold sigma; rewrite Z.eqb_refl; reflexivity).
  assert (Sq : sigma q = q) by (unfold sigma; destruct (q =? n) eqn:?; [lia|reflexivity]).
  assert (Sr : r <> n -> sigma r = r) by (intros; unfold sigma; destruct (r =? n) eqn:?; [lia|reflexivity]).
  constructor.
  - (* labels along SwingLeft *)
    intros c Hc N. rewrite sc_slf' in *.
    replace (3 * (f + 1)) with (3 * f + 3) in Hc by lia.
    destruct (slf_created NC maxv s1 (f + 1) c HW1 ltac:(lia)) as [Q|Q]; [congruence|].
    rewrite !Lab' by lia.
    destruct (Z_lt_dec c (3 * f)) as [Lo|Hi].
    + f_equal. destruct (Z.eq_dec (g c) (-1)) as [D|D].
      * assert (Hcc : 0 <= c < 3 * f) by lia. pose proof (next_c_rng c f Hcc).
        destruct (Z.eq_dec (next_c c) a) as [Qa|Qa].
        { apply next_eq_prev in Qa; try lia. subst c. rewrite L1, V0, Gc by lia. reflexivity. }
        destruct (Z.eq_dec (next_c c) b) as [Qb|Qb].
        { apply next_eq_prev in Qb; try lia. subst c. rewrite L2, V2, Gc by lia. reflexivity. }
        exfalso. apply N. rewrite slf_at in * by lia. rewrite Ec1. rewrite !upd_other by lia. exact D.
      * rewrite (sc_agree c ltac:(lia) D). destruct (slf_created NC maxv s f c HW ltac:(lia)) as [Z|Z]; [congruence|].
        rewrite !Gc by lia. apply (f_lab _ _ HF); [lia|exact D].
    + assert (c = 3 * f \/ c = 3 * f + 1 \/ c = 3 * f + 2) as [-> | [-> | ->]] by lia.
      * rewrite L3, V0, Gc by lia. change (c2v s nb) with n. rewrite Sn, Sp. reflexivity.
      * rewrite L4, V1, Gc by lia. reflexivity.
      * congruence.
  - intros c Hc. replace (3 * (f + 1)) with (3 * f + 3) in Hc by lia. rewrite Lab' by lia.
    destruct (Z_lt_dec c (3 * f)) as [Lo|Hi].
    + rewrite Gc by lia. destruct (sc_old c ltac:(lia)) as (A & B). split; [exact A|apply sc_reach'; exact B].
    + assert (c = 3 * f \/ c = 3 * f + 1 \/ c = 3 * f + 2) as [-> | [-> | ->]] by lia.
      * rewrite V0, Sp, Vp. split; [exact Nl|]. apply sc_reach'. apply reach_step. rewrite L3. apply sc_Rn; [exact Hnb|reflexivity].
      * rewrite V1. destruct (sc_old (next_c a) Hna) as (A & B). fold q in A, B. split; [exact A|].
        apply sc_reach'. apply reach_step. rewrite L4. exact B.
      * rewrite V2. destruct (Z.eq_dec r n) as [Ern|Ern].
        { rewrite Ern, Sn, Vp. split; [exact Nl|]. unfold ln1. rewrite Ern, upd_same. apply reach_refl. }
        { rewrite Sr, Vr by exact Ern. split; [lia|apply reach_refl]. }
  - intros v Hv N. rewrite En' in Hv.
    destruct (Z.eq_dec v n) as [->|E1]; [congruence|].
    destruct (Z.eq_dec v p) as [->|E2].
    { rewrite Vp, Lab', Ll by exact Rl. exact Sn. }
    destruct (Z.eq_dec v r) as [->|E3].
    { rewrite Vr, Lab', V2 by lia. apply Sr. exact E1. }
    rewrite Vo in * by assumption.
    destruct (w_lr _ _ _ _ HW v Hv) as [Z|Z]; [congruence|].
    rewrite Lab', Gc by lia. rewrite (f_vc _ _ HF v Hv N). unfold sigma. destruct (v =? n) eqn:?; [lia|reflexivity].
  - right. lia.
  - destruct (f_iso _ _ HF) as (A & B).
    destruct (f_reach _ _ HF _ Hpa) as (Np & _). destruct (f_reach _ _ HF _ Hpb) as (Nr & _). destruct (f_reach _ _ HF _ Hnb) as (Nn & _).
    fold p in Np. fold r in Nr. change (c2v s nb) with n in Nn.
    assert (Old : Forall (fun v => vc s' v = -1) (invalid s)).
    { rewrite Forall_forall in *. intros v Hv. pose proof (A v Hv) as Iv.
      destruct (Z.eq_dec v n) as [->|E1]; [exact Vn|]. rewrite Vo; [exact Iv|exact E1|congruence|congruence]. }
    rewrite Ei'. destruct rm; [|split; assumption].
    split; [constructor; assumption|]. constructor; [|exact B].
    intro Q. rewrite Forall_forall in A. apply A in Q. congruence.
Qed.
End SCase.


Section FanLoop.
Variables NC maxv : Z.

Lemma step_S_FI : forall rm s f sid s', W NC maxv f s -> FI f s -> 3 * f + 3 <= NC ->
  step_S NC rm s f sid = Ok s' -> FI (f + 1) s'.
Proof.
  intros rm s f sid s' HW HF HN H.
  pose proof (step_S_W NC maxv rm s f sid s' HW HN H) as (HW' & _).
  destruct (step_S_shape NC maxv rm s f sid s' HW HN H) as (a & b & s1 & s2 & Ha & Hb & Hab & Fa & Fb & Sh).
  cbv zeta in Sh. destruct Sh as (Ec1 & Ev1 & El1 & En1 & HW1 & Eloop & Ec' & Ev' & El' & En' & Ei').
  pose proof Eloop as SB. apply s_loop_W with (maxv := maxv) (f := f + 1) in SB; [|exact HW1|right; pose proof (next_c_rng b f Hb); lia|].
  2:{ rewrite En1. apply (w_vr _ _ _ _ HW). apply prev_c_rng. exact Ha. }
  destruct SB as (_ & SB). unfold same_but_c2v in SB. destruct SB as (S1 & S2 & S3 & _).
  apply (sc_FI NC maxv s s1 s2 f a b HW HF Ha Hb Hab Fa Fb Ec1 Ev1 HW1 Eloop s') with (rm := rm).
  - rewrite Ec'. exact S1.
  - exact Ev'.
  - rewrite El', S2, El1. reflexivity.
  - rewrite En', S3. exact En1.
  - exact Ei'.
Qed.

Lemma split_loop_same : forall evs s ns enc s', split_loop evs s ns enc = Ok s' ->
  c2v s' = c2v s /\ copp s' = copp s /\ vc s' = vc s /\ nv s' = nv s /\ invalid s' = invalid s /\ hole s' = hole s.
Proof.
  induction evs as [|((src, spl), edge) r IH]; intros s ns enc s' H; cbn [split_loop] in H.
  - apply Ok_inj in H. subst. repeat split.
  - mstep H. mstep H.
    + apply Ok_inj in H. subst. repeat split.
    + mstep H. destruct (stack s) as [|top rest] eqn:Est; [discriminate|]. apply IH in H. exact H.
Qed.

Lemma FI_same : forall f s s', FI f s -> c2v s' = c2v s -> copp s' = copp s -> vc s' = vc s -> nv s' = nv s ->
  invalid s' = invalid s -> FI f s'.
Proof.
  intros f s s' HF E1 E2 E3 E4 E5.
  assert (G : forall c, slf s' c = slf s c) by (intros; unfold slf, oppf; rewrite E2; reflexivity).
  assert (R : forall x y, reach s x y -> reach s' x y).
  { intros x y (k & Q). exists k. rewrite <- Q. clear Q. induction k; [reflexivity|]. rewrite !iter_S, IHk. apply G. }
  constructor.
  - intros c Hc N. rewrite G in *. rewrite E1. apply (f_lab _ _ HF); assumption.
  - intros c Hc. rewrite E1, E3. destruct (f_reach _ _ HF c Hc) as (A & B). split; [exact A|apply R; exact B].
  - intros v Hv N. rewrite E1, E3 in *. rewrite E4 in Hv. apply (f_vc _ _ HF); assumption.
  - rewrite E5. apply (f_inv _ _ HF).
  - rewrite E5, E3. apply (f_iso _ _ HF).
Qed.

Lemma step_FI : forall rm ns s sid sym s', W NC maxv (nfaces s) s -> FI (nfaces s) s -> 3 * nfaces s + 3 <= NC ->
  step NC maxv rm ns s sid sym = Ok s' -> FI (nfaces s') s'.
Proof.
  intros rm ns s sid sym s' HW HF HN H.
  pose proof (step_W NC maxv rm ns s sid sym s' HW HN H) as (_ & Enf & _). rewrite Enf.
  unfold step in H.
  pose proof (W_with_nfaces NC maxv _ _ (nfaces s + 1) HW) as HW0.
  assert (HF0 : FI (nfaces s) (with_nfaces s (nfaces s + 1))) by (apply (FI_same _ s); try reflexivity; exact HF).
  destruct (sym =? TOPOLOGY_C); [eapply step_C_FI; eassumption|].
  destruct ((sym =? TOPOLOGY_R) || (sym =? TOPOLOGY_L)).
  { mstep H. apply split_loop_same in H. destruct H as (A & B & C & D & E1 & _).
    eapply FI_same; try eassumption. eapply step_RL_FI; eassumption. }
  destruct (sym =? TOPOLOGY_S); [eapply step_S_FI; eassumption|].
  destruct (sym =? TOPOLOGY_E); [|discriminate].
  mstep H. apply split_loop_same in H. destruct H as (A & B & C & D & E1 & _).
  eapply FI_same; try eassumption. eapply step_E_FI; eassumption.
Qed.

Lemma FI_init : forall evs, FI 0 (init_st evs).
Proof.
  intros. constructor; cbn [c2v vc nv invalid init_st]; try (intros; lia).
  - left. reflexivity.
  - split; constructor.
Qed.

Lemma sym_loop_FI : forall rm ns syms sid s s', W NC maxv (nfaces s) s -> FI (nfaces s) s ->
  3 * (nfaces s + Z.of_nat (length syms)) <= NC ->
  sym_loop NC maxv rm ns syms sid s = Ok s' -> FI (nfaces s') s'.
Proof.
  induction syms as [|sym r IH]; intros sid s s' HW HF HN H; cbn [sym_loop] in H.
  - apply Ok_inj in H. subst. exact HF.
  - cbn [length] in HN. rewrite Nat2Z.inj_succ in HN. mstep H.
    pose proof (step_W NC maxv _ _ _ _ _ _ HW ltac:(lia) E) as (A & B & _).
    pose proof (step_FI _ _ _ _ _ _ HW HF ltac:(lia) E) as C.
    apply IH in H; [exact H|exact A|exact C|lia].
Qed.
End FanLoop.
