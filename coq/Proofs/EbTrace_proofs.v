(** The trace presentation of the encoder (Model/EbTrace.v) refines the big-step encoder (Model/EbEncoder.v), and the
    configurations of the trace are coherent: configuration i holds the first i symbols / processed corners. *)
From Coq Require Import List Arith Bool PeanoNat ZArith Lia.
Import ListNotations.
From Draco Require Import Model.CornerTable Model.EbEncoder Model.EbTrace.

Ltac ebstep :=
  match goal with
  | |- emap _ (ebind ?e _) = ebind ?e _ => destruct e; cbn [ebind emap]; try reflexivity
  | |- emap _ (if ?b then _ else _) = (if ?b then _ else _) => destruct b
  | |- emap _ (match ?l with [] => _ | _ :: _ => _ end) = _ => destruct l; cbn [emap fst]; try reflexivity
  end.

Section Erase.
Variables (c2v : list nat) (opp : list (option nat)) (hid : list (option nat)).

Lemma inner_tr_erase : forall k s c tr, emap fst (inner_tr c2v opp hid k s c tr) = inner c2v opp hid k s c.
Proof.
  induction k as [|k IH]; intros s c tr; cbn [inner inner_tr]; [reflexivity|].
  destruct c as [c|]; [|reflexivity]. cbv zeta.
  repeat first [ apply IH | reflexivity | ebstep ].
Qed.

Lemma outer_tr_erase : forall fuel s tr, emap fst (outer_tr c2v opp hid fuel s tr) = outer c2v opp hid fuel s.
Proof.
  induction fuel as [|k IH]; intros s tr; cbn [outer outer_tr]; [reflexivity|].
  destruct (stack s) as [|[c|] r]; [reflexivity| |apply IH].
  destruct (eget (vf s) (c / 3)) as [b| | |]; cbn [ebind emap]; try reflexivity.
  destruct b; [apply IH|].
  rewrite <- (inner_tr_erase (NF c2v) s (Some c) tr).
  destruct (inner_tr c2v opp hid (NF c2v) s (Some c) tr) as [[s1 tr1]| | |]; cbn [ebind emap fst snd]; try reflexivity. apply IH.
Qed.

Lemma from_corner_tr_erase s c tr : emap fst (from_corner_tr c2v opp hid s c tr) = from_corner c2v opp hid s c.
Proof. apply outer_tr_erase. Qed.

Definition drop_tr (x : est * list bool * list nat * list cfg) : est * list bool * list nat :=
  let '(s, bits, inits, _) := x in (s, bits, inits).

Lemma ec_corner_tr_erase st c_id :
  emap drop_tr (ec_corner_tr c2v opp hid st c_id) = ec_corner c2v opp hid (emap drop_tr st) c_id.
Proof.
  unfold ec_corner_tr, ec_corner. destruct st as [[[[s bits] inits] tr]| | |]; cbn [ebind emap drop_tr]; try reflexivity.
  destruct (eget (vf s) (c_id / 3)) as [b| | |]; cbn [ebind emap]; try reflexivity.
  destruct b; [reflexivity|]. destruct (is_degenerated c2v (c_id / 3)); [reflexivity|].
  destruct (find_init c2v opp hid (c_id / 3)) as [[start interior]| | |]; cbn [ebind emap]; try reflexivity.
  destruct interior.
  - repeat match goal with |- emap _ (ebind ?e _) = ebind ?e _ => destruct e; cbn [ebind emap]; try reflexivity end.
    match goal with |- emap _ (match ?o with Some _ => _ | None => _ end) = _ => destruct o as [oc|]; [|reflexivity] end.
    match goal with |- emap _ (ebind ?e _) = ebind ?e _ => destruct e as [b| | |]; cbn [ebind emap]; try reflexivity end.
    destruct b; [reflexivity|].
    match goal with |- emap _ (ebind (from_corner_tr _ _ _ ?s1 ?c1 ?t1) _) = _ => rewrite <- (from_corner_tr_erase s1 c1 t1);
      destruct (from_corner_tr c2v opp hid s1 c1 t1) as [[s2 tr2]| | |]; cbn [ebind emap fst snd drop_tr]; reflexivity end.
  - match goal with |- emap _ (ebind ?e _) = ebind ?e _ => destruct e as [s1| | |]; cbn [ebind emap]; try reflexivity end.
    rewrite <- (from_corner_tr_erase s1 (Some start) tr).
    destruct (from_corner_tr c2v opp hid s1 (Some start) tr) as [[s2 tr2]| | |]; cbn [ebind emap fst snd drop_tr]; reflexivity.
Qed.

Lemma ec_fold_tr_erase l : forall st,
  emap drop_tr (fold_left (ec_corner_tr c2v opp hid) l st) = fold_left (ec_corner c2v opp hid) l (emap drop_tr st).
Proof. induction l as [|a l IH]; intros st; cbn [fold_left]; auto. rewrite IH, ec_corner_tr_erase. reflexivity. Qed.
End Erase.

(** erasing the trace gives the big-step encoder *)
Theorem trace_refines_big_step c2v opp nv niso ndeg :
  emap fst (eb_encode_tr c2v opp nv niso ndeg) = eb_encode c2v opp nv niso ndeg.
Proof.
  unfold eb_encode_tr, eb_encode. destruct (NF c2v =? ndeg); [reflexivity|].
  destruct (find_holes c2v opp nv) as [[hid vh]| | |]; cbn [ebind emap]; try reflexivity.
  pose proof (ec_fold_tr_erase c2v opp hid (seq 0 (NC c2v)) (EOk (init_est (NF c2v) nv vh, [], [], []))) as H.
  cbn [emap drop_tr] in H. rewrite <- H.
  destruct (fold_left (ec_corner_tr c2v opp hid) (seq 0 (NC c2v)) (EOk (init_est (NF c2v) nv vh, [], [], []))) as [[[[s bits] inits] tr]| | |];
    cbn [ebind emap drop_tr fst]; reflexivity.
Qed.

Corollary trace_refines_big_step_ok c2v opp nv niso ndeg o tr :
  eb_encode_tr c2v opp nv niso ndeg = EOk (o, tr) -> eb_encode c2v opp nv niso ndeg = EOk o.
Proof. intros H. rewrite <- trace_refines_big_step, H. reflexivity. Qed.

Corollary big_step_has_trace c2v opp nv niso ndeg o :
  eb_encode c2v opp nv niso ndeg = EOk o -> exists tr, eb_encode_tr c2v opp nv niso ndeg = EOk (o, tr).
Proof.
  intros H. rewrite <- trace_refines_big_step in H. destruct (eb_encode_tr c2v opp nv niso ndeg) as [[o' tr]| | |]; try discriminate.
  cbn in H. inversion H; subst. eauto.
Qed.

(** * Coherence of the configurations: configuration j (newest first) holds the processed corners and symbols older than it *)
Definition coh (tr : list cfg) (s : est) : Prop :=
  map cf_corner tr = pcc s /\ length (syms s) = length (pcc s) /\
  forall j cf, nth_error tr j = Some cf -> pcc (cf_st cf) = skipn (S j) (pcc s) /\ syms (cf_st cf) = skipn (S j) (syms s).

Lemma coh_step tr s c s3 y : coh tr s -> pcc s3 = c :: pcc s -> syms s3 = y :: syms s -> coh (mk_cfg c s :: tr) s3.
Proof.
  intros (A & B & C) P Y. split; [|split].
  - cbn. rewrite A, P. auto.
  - rewrite P, Y. cbn. lia.
  - intros [|j] cf E; cbn in E.
    + inversion E; subst. cbn. rewrite P, Y. auto.
    + rewrite P, Y. cbn [skipn]. apply C; auto.
Qed.
Lemma coh_same tr s s' : coh tr s -> pcc s' = pcc s -> syms s' = syms s -> coh tr s'.
Proof. intros (A & B & C) P Y. unfold coh. rewrite P, Y. auto. Qed.

Lemma check_split_hist s e o : pcc (check_split s e o) = pcc s /\ syms (check_split s e o) = syms s.
Proof. unfold check_split. destruct o; auto. destruct (split_symbol_on_face _ _); auto. Qed.

Lemma encode_hole_hist c2v opp hid s c first s' : encode_hole c2v opp hid s c first = EOk s' -> pcc s' = pcc s /\ syms s' = syms s.
Proof.
  unfold encode_hole. intros H.
  repeat match type of H with
  | ebind ?e _ = EOk _ => destruct e; cbn [ebind] in H; try discriminate
  | match ?h with Some _ => _ | None => _ end = EOk _ => destruct h; try discriminate
  end.
  inversion H; subst. auto.
Qed.

Lemma mark_hist (b : bool) sa v s1 :
  (if b then EOk sa else vvl <-- eset (vv sa) v true ;; EOk (with_vv sa vvl)) = EOk s1 -> pcc s1 = pcc sa /\ syms s1 = syms sa.
Proof.
  destruct b; intros X. inversion X; subst; auto.
  destruct (eset (vv sa) v true); cbn [ebind] in X; try discriminate. inversion X; subst; auto.
Qed.

Section Coh.
Variables (c2v : list nat) (opp : list (option nat)) (hid : list (option nat)).

Ltac cohs y :=
  apply (coh_step _ _ _ _ y);
  [ assumption
  | cbn; rewrite ?(proj1 (check_split_hist _ _ _)); congruence
  | cbn; rewrite ?(proj2 (check_split_hist _ _ _)); congruence ].

Ltac hstep H :=
  match type of H with
  | ebind ?e _ = EOk _ => let E := fresh "E" in destruct e eqn:E; cbn [ebind] in H; try discriminate
  | (if ?b then _ else _) = EOk _ => destruct b
  | match ?l with [] => _ | _ :: _ => _ end = EOk _ => destruct l; try discriminate
  end.

Lemma inner_tr_coh : forall k s c tr s' tr', inner_tr c2v opp hid k s c tr = EOk (s', tr') -> coh tr s -> coh tr' s'.
Proof.
  induction k as [|k IH]; intros s c tr s' tr' H Co; cbn [inner_tr] in H.
  - inversion H; subst. auto.
  - destruct c as [c|]; [|discriminate]. cbv zeta in H.
    hstep H. hstep H. hstep H. hstep H. hstep H.
    match goal with X : (if _ then EOk _ else _) = EOk _ |- _ => apply mark_hist in X; cbn in X; destruct X as [P1 Y1] end.
    hstep H.
    + hstep H. eapply IH; [exact H|]. cohs TOPOLOGY_C.
    + hstep H. hstep H. hstep H. hstep H.
      * hstep H. hstep H.
        -- hstep H. inversion H; subst.
           match goal with |- coh _ (with_stack ?s3 _) => apply (coh_same _ s3); [cohs TOPOLOGY_E | reflexivity | reflexivity] end.
        -- eapply IH; [exact H|]. cohs TOPOLOGY_R.
      * hstep H. hstep H.
        -- eapply IH; [exact H|]. cohs TOPOLOGY_L.
        -- hstep H.
           match goal with X : match ?h with Some _ => _ | None => _ end = EOk ?sx |- _ =>
             assert (P6 : pcc sx = c :: pcc s /\ syms sx = TOPOLOGY_S :: syms s);
             [ destruct h as [hole|];
               [ hstep X; hstep X;
                 [ inversion X; subst; cbn; split; congruence
                 | apply encode_hole_hist in X; cbn in X; destruct X as [-> ->]; split; congruence ]
               | inversion X; subst; cbn; split; congruence ] | ] end.
           destruct P6 as [P6 Y6]. hstep H. inversion H; subst.
           match goal with |- coh _ (with_stack ?s3 _) => apply (coh_same _ s3); [|reflexivity|reflexivity] end.
           apply (coh_step _ _ _ _ TOPOLOGY_S); auto.
Qed.

Lemma outer_tr_coh : forall fuel s tr s' tr', outer_tr c2v opp hid fuel s tr = EOk (s', tr') -> coh tr s -> coh tr' s'.
Proof.
  induction fuel as [|k IH]; intros s tr s' tr' H Co; cbn [outer_tr] in H; [discriminate|].
  destruct (stack s) as [|[c|] r].
  - inversion H; subst. auto.
  - hstep H. hstep H.
    + eapply IH; [exact H|]. eapply coh_same; eauto.
    + hstep H. match goal with X : inner_tr _ _ _ _ _ _ _ = EOk ?p |- _ => destruct p as [s1 tr1] end.
      cbn [fst snd] in H. eapply IH; [exact H|]. eapply inner_tr_coh; eauto.
  - eapply IH; [exact H|]. eapply coh_same; eauto.
Qed.

Lemma from_corner_tr_coh s c tr s' tr' : from_corner_tr c2v opp hid s c tr = EOk (s', tr') -> coh tr s -> coh tr' s'.
Proof. intros H Co. eapply outer_tr_coh; [exact H|]. eapply coh_same; eauto. Qed.

Definition coh4 (st : eres (est * list bool * list nat * list cfg)) : Prop :=
  forall s bits inits tr, st = EOk (s, bits, inits, tr) -> coh tr s.

Lemma ec_corner_tr_coh st c_id : coh4 st -> coh4 (ec_corner_tr c2v opp hid st c_id).
Proof.
  intros Co s' bits' inits' tr' H. unfold ec_corner_tr in H.
  destruct st as [[[[s bits] inits] tr]| | |]; cbn [ebind] in H; try discriminate. specialize (Co s bits inits tr eq_refl).
  hstep H. hstep H. { inversion H; subst; auto. }
  destruct (is_degenerated c2v (c_id / 3)). { inversion H; subst; auto. }
  hstep H. match goal with X : find_init _ _ _ _ = EOk ?p |- _ => destruct p as [start interior] end. destruct interior.
  - repeat hstep H.
    match type of H with match ?o with Some _ => _ | None => _ end = _ => destruct o as [oc|] end.
    + hstep H. hstep H. { inversion H; subst. eapply coh_same; eauto. }
      hstep H. match goal with X : from_corner_tr _ _ _ _ _ _ = EOk ?p |- _ => destruct p as [s1 tr1]; cbn [fst snd] in H; inversion H; subst;
        eapply from_corner_tr_coh; [exact X|]; eapply coh_same; eauto end.
    + inversion H; subst. eapply coh_same; eauto.
  - hstep H. hstep H.
    match goal with X : from_corner_tr _ _ _ _ _ _ = EOk ?p, X2 : encode_hole _ _ _ _ _ _ = EOk _ |- _ =>
      destruct p as [s1 tr1]; cbn [fst snd] in H; inversion H; subst;
      eapply from_corner_tr_coh; [exact X|]; apply encode_hole_hist in X2; destruct X2; eapply coh_same; eauto end.
Qed.

Lemma ec_fold_tr_coh l : forall st, coh4 st -> coh4 (fold_left (ec_corner_tr c2v opp hid) l st).
Proof. induction l as [|a l IH]; intros st Co; cbn [fold_left]; auto. apply IH. apply ec_corner_tr_coh. auto. Qed.
End Coh.

Lemma skipn_rev_firstn {A} (l : list A) i : i <= length l -> skipn (length l - i) l = rev (firstn i (rev l)).
Proof.
  intros H. set (n := length l - i). rewrite <- (firstn_skipn n l) at 2. rewrite rev_app_distr.
  assert (L : length (rev (skipn n l)) = i) by (rewrite rev_length, skipn_length; unfold n; lia).
  rewrite firstn_app, L, Nat.sub_diag. cbn [firstn]. rewrite app_nil_r, <- L, firstn_all, rev_involutive. reflexivity.
Qed.

(** configuration i of the trace: the encoder has emitted the first i symbols and processed the first i corners (the
    corners of [o_pcc] the decoder creates LAST), and is about to process corner number i *)
Theorem trace_coherent c2v opp nv niso ndeg o tr : eb_encode_tr c2v opp nv niso ndeg = EOk (o, tr) ->
  let ns := length (o_syms o) in
  length tr = ns /\
  forall i cf, nth_error tr i = Some cf ->
    syms (cf_st cf) = rev (firstn i (o_syms o)) /\
    cf_corner cf :: pcc (cf_st cf) = skipn (ns - 1 - i) (firstn ns (o_pcc o)).
Proof.
  unfold eb_encode_tr. intros H. destruct (NF c2v =? ndeg); [discriminate|].
  destruct (find_holes c2v opp nv) as [[hid vh]| | |]; cbn [ebind] in H; try discriminate.
  destruct (fold_left (ec_corner_tr c2v opp hid) (seq 0 (NC c2v)) (EOk (init_est (NF c2v) nv vh, [], [], []))) as [[[[s bits] inits] tr0]| | |] eqn:Ef;
    cbn [ebind] in H; try discriminate.
  inversion H; subst o tr. clear H. cbn [o_syms o_pcc].
  assert (Co : coh tr0 s).
  { apply (ec_fold_tr_coh c2v opp hid (seq 0 (NC c2v)) (EOk (init_est (NF c2v) nv vh, [], [], []))) with (bits := bits) (inits := inits); auto.
    intros s0 b0 i0 t0 X. inversion X; subst. cbn. split; auto. split; auto. intros [|j] cf E; discriminate. }
  destruct Co as (A & B & C).
  assert (Lt : length tr0 = length (pcc s)) by (rewrite <- A, map_length; auto).
  rewrite !rev_length. split; [lia|].
  intros i cf E.
  assert (Hi : i < length tr0). { rewrite <- rev_length. apply nth_error_Some. congruence. }
  rewrite nth_error_nth' with (d := mk_cfg 0 s) in E by (rewrite rev_length; auto).
  rewrite rev_nth in E by auto. inversion E as [E']. clear E.
  set (j := length tr0 - S i) in *.
  assert (Ej : nth_error tr0 j = Some (nth j tr0 (mk_cfg 0 s))) by (apply nth_error_nth'; unfold j; lia).
  destruct (C j _ Ej) as [C1 C2]. rewrite C1, C2. split.
  - replace (S j) with (length (syms s) - i) by (unfold j; lia). rewrite skipn_rev_firstn by lia. reflexivity.
  - rewrite firstn_app. replace (length (syms s) - length (pcc s)) with 0 by lia. cbn [firstn]. rewrite app_nil_r.
    rewrite firstn_all2 by lia.
    replace (length (syms s) - 1 - i) with j by (unfold j; lia).
    assert (Ec : cf_corner (nth j tr0 (mk_cfg 0 s)) = nth j (pcc s) 0).
    { rewrite <- A. change 0 with (cf_corner (mk_cfg 0 s)) at 2. rewrite map_nth. reflexivity. }
    rewrite Ec. clear -Lt Hi. assert (Hj : j < length (pcc s)) by (unfold j; lia). clearbody j. clear Hi Lt.
    revert j Hj. induction (pcc s) as [|a l IH]; intros [|j] Hj; cbn in *; try lia; auto. apply IH. lia.
Qed.

(** * Small-step facts: how consecutive configurations of the trace are related.
    [dead] = the entries popped between two symbols (kInvalidCornerIndex or corners of already visited faces). *)
Definition oat (opp : list (option nat)) (c : nat) : option nat := nth c opp None.

Definition pushed (opp : list (option nat)) (y : Z) (c : nat) (st : list (option nat)) : list (option nat) :=
  if (y =? 7)%Z then tl st else if (y =? 1)%Z then oat opp (next_c c) :: oat opp (prev_c c) :: tl st else st.

(** [link opp cf y st]: symbol [y] was emitted at configuration [cf]; afterwards (and after popping the entries [dead]) the stack is [st] *)
Definition link (opp : list (option nat)) (cf : cfg) (sy : list Z) (st : list (option nat)) : Prop :=
  exists y dead, sy = y :: syms (cf_st cf) /\ pushed opp y (cf_corner cf) (stack (cf_st cf)) = dead ++ st /\
    (y = 1%Z -> oat opp (next_c (cf_corner cf)) <> None /\ oat opp (prev_c (cf_corner cf)) <> None).

Definition tstep (opp : list (option nat)) (cf cf' : cfg) : Prop :=
  (link opp cf (syms (cf_st cf')) (stack (cf_st cf')) \/
   (* a new run *) (exists y, syms (cf_st cf') = y :: syms (cf_st cf) /\ stack (cf_st cf') = [Some (cf_corner cf')])) /\
  (hd 0%Z (syms (cf_st cf')) = 7%Z \/ hd 0%Z (syms (cf_st cf')) = 1%Z -> hd None (stack (cf_st cf')) = Some (cf_corner cf')).

Fixpoint adj (opp : list (option nat)) (tr : list cfg) : Prop :=   (* newest first *)
  match tr with
  | cf' :: ((cf :: _) as r) => tstep opp cf cf' /\ adj opp r
  | _ => True
  end.

Lemma eget_oat opp c o : eget opp c = EOk o -> oat opp c = o.
Proof. unfold eget, oat. destruct (nth_error opp c) eqn:E; intros H; inversion H; subst. apply nth_error_nth. auto. Qed.

Ltac hstep H :=
  match type of H with
  | ebind ?e _ = EOk _ => let E := fresh "E" in destruct e eqn:E; cbn [ebind] in H; try discriminate
  | (if ?b then _ else _) = EOk _ => let E := fresh "Eb" in destruct b eqn:E
  | match ?l with [] => _ | _ :: _ => _ end = EOk _ => let E := fresh "Est" in destruct l eqn:E; try discriminate
  end.

Lemma mark_stack (b : bool) sa v s1 :
  (if b then EOk sa else vvl <-- eset (vv sa) v true ;; EOk (with_vv sa vvl)) = EOk s1 ->
  pcc s1 = pcc sa /\ syms s1 = syms sa /\ stack s1 = stack sa /\ vf s1 = vf sa.
Proof.
  destruct b; intros X. inversion X; subst; auto.
  destruct (eset (vv sa) v true); cbn [ebind] in X; try discriminate. inversion X; subst; auto.
Qed.
Lemma check_split_stack' s e o : stack (check_split s e o) = stack s /\ syms (check_split s e o) = syms s /\ vf (check_split s e o) = vf s.
Proof. unfold check_split. destruct o; auto. destruct (split_symbol_on_face _ _); auto. Qed.
Lemma encode_hole_stack' c2v opp hid s c first s' : encode_hole c2v opp hid s c first = EOk s' -> stack s' = stack s /\ syms s' = syms s.
Proof.
  unfold encode_hole. intros H.
  repeat match type of H with
  | ebind ?e _ = EOk _ => destruct e; cbn [ebind] in H; try discriminate
  | match ?h with Some _ => _ | None => _ end = EOk _ => destruct h; try discriminate
  end.
  inversion H; subst. auto.
Qed.

Section Adj.
Variables (c2v : list nat) (opp : list (option nat)) (hid : list (option nat)).

Definition pre_inner (tr : list cfg) (c : nat) (s : est) : Prop :=
  match tr with [] => True | cf :: _ => tstep opp cf (mk_cfg c s) end.
Definition post_link (tr : list cfg) (s : est) : Prop :=
  match tr with [] => False | cf :: _ => link opp cf (syms s) (stack s) end.

Lemma inner_tr_adj : forall k s c tr s' tr', inner_tr c2v opp hid k s (Some c) tr = EOk (s', tr') ->
  adj opp tr -> pre_inner tr c s ->
  adj opp tr' /\ ((tr' = tr /\ s' = s) \/ post_link tr' s').
Proof.
  induction k as [|k IH]; intros s c tr s' tr' H A P; cbn [inner_tr] in H.
  - inversion H; subst. auto.
  - cbv zeta in H.
    assert (A1 : adj opp (mk_cfg c s :: tr)).
    { destruct tr as [|cf r]; cbn [adj]; auto. }
    assert (Step : forall s3 o y0, inner_tr c2v opp hid k s3 o (mk_cfg c s :: tr) = EOk (s', tr') -> syms s3 = y0 :: syms s ->
              stack s3 = stack s -> (y0 = 0 \/ y0 = 3 \/ y0 = 5)%Z ->
              adj opp tr' /\ ((tr' = tr /\ s' = s) \/ post_link tr' s')).
    { intros s3 o y0 E3 Y3 St3 Hy.
      assert (L3 : link opp (mk_cfg c s) (syms s3) (stack s3)).
      { exists y0, []. cbn [cf_st cf_corner app]. split; auto. split.
        - unfold pushed. destruct Hy as [->|[->| ->]]; cbn; auto.
        - intros X. destruct Hy as [Y|[Y|Y]]; rewrite Y in X; discriminate. }
      destruct o as [nx|].
      - destruct (IH s3 nx _ _ _ E3 A1) as (B1 & B2).
        { cbn [pre_inner]. split; [left; exact L3|]. cbn [cf_st]. rewrite Y3. cbn [hd]. intros [X|X]; destruct Hy as [Y|[Y|Y]]; rewrite Y in X; discriminate. }
        split; auto. right. destruct B2 as [(-> & ->)|B2]; auto.
      - destruct k; cbn in E3; [|discriminate]. inversion E3; subst. split; auto. }
    hstep H. hstep H. hstep H. hstep H. hstep H.
    match goal with X : (if _ then EOk _ else _) = EOk _ |- _ => apply mark_stack in X; cbn in X; destruct X as (P1 & Y1 & St1 & Vf1) end.
    hstep H.
    + hstep H. apply (Step _ _ 0%Z H); unfold TOPOLOGY_C; cbn; auto; try congruence.
    + hstep H. hstep H. hstep H. hstep H.
      * hstep H. hstep H.
        -- hstep H. inversion H; subst. split; auto. right. cbn [post_link]. exists 7%Z, []. cbn [cf_st cf_corner app emit with_syms with_stack syms stack].
           destruct (check_split_stack' (check_split a3 RIGHT_FACE_EDGE a4) LEFT_FACE_EDGE a5) as (C1 & C2 & _).
           destruct (check_split_stack' a3 RIGHT_FACE_EDGE a4) as (C3 & C4 & _).
           split; [rewrite C2, C4, Y1; reflexivity|]. split; [|discriminate].
           unfold pushed. cbn. cbn in Est. rewrite C1, C3, St1 in Est. rewrite Est. reflexivity.
        -- apply (Step _ _ 5%Z H); unfold TOPOLOGY_R; cbn; rewrite ?(proj1 (check_split_stack' _ _ _)), ?(proj1 (proj2 (check_split_stack' _ _ _))); auto; try congruence.
      * hstep H. hstep H.
        -- apply (Step _ _ 3%Z H); unfold TOPOLOGY_L; cbn; rewrite ?(proj1 (check_split_stack' _ _ _)), ?(proj1 (proj2 (check_split_stack' _ _ _))); auto; try congruence.
        -- hstep H.
           match goal with X : match ?h with Some _ => _ | None => _ end = EOk ?sx |- _ =>
             assert (P6 : stack sx = stack s /\ syms sx = TOPOLOGY_S :: syms s);
             [ destruct h as [hole|];
               [ hstep X; hstep X;
                 [ inversion X; subst; cbn; split; congruence
                 | apply encode_hole_stack' in X; cbn in X; destruct X as [-> ->]; split; congruence ]
               | inversion X; subst; cbn; split; congruence ] | ] end.
           destruct P6 as [P6 Y6]. hstep H. inversion H; subst. split; auto. right. cbn [post_link].
           exists 1%Z, []. cbn [cf_st cf_corner app with_f2s with_stack syms stack]. split; [rewrite Y6; reflexivity|].
           match goal with X : right_corner opp c = EOk ?r, X2 : left_corner opp c = EOk ?l,
                           X3 : face_visited_opt _ ?r = EOk false, X4 : face_visited_opt _ ?l = EOk false |- _ =>
             assert (Er : oat opp (next_c c) = r) by (apply eget_oat; exact X);
             assert (El : oat opp (prev_c c) = l) by (apply eget_oat; exact X2);
             assert (Nr : r <> None) by (intro Q; rewrite Q in X3; cbn in X3; discriminate);
             assert (Nl : l <> None) by (intro Q; rewrite Q in X4; cbn in X4; discriminate) end.
           cbn in Est. rewrite P6 in Est.
           split; [unfold pushed; cbn; rewrite Er, El, Est; reflexivity|].
           intros _. rewrite Er, El. auto.
Qed.
(** between two strips: the head configuration emitted its symbol, some entries were popped *)
Definition pre_outer (tr : list cfg) (s : est) : Prop :=
  match tr with
  | [] => True
  | cf :: _ => link opp cf (syms s) (stack s) \/
               (exists y, syms s = y :: syms (cf_st cf) /\ (stack s = [] \/ exists c, stack s = [Some c]))
  end.

Lemma link_pop cf sy x r : link opp cf sy (x :: r) -> link opp cf sy r.
Proof. intros (y & dead & A & B & C). exists y, (dead ++ [x]). rewrite <- app_assoc. auto. Qed.

Lemma outer_tr_adj : forall fuel s tr s' tr', outer_tr c2v opp hid fuel s tr = EOk (s', tr') ->
  adj opp tr -> pre_outer tr s -> adj opp tr' /\ pre_outer tr' s' /\ stack s' = [].
Proof.
  induction fuel as [|k IH]; intros s tr s' tr' H A P; cbn [outer_tr] in H; [discriminate|].
  destruct (stack s) as [|top r] eqn:St.
  - inversion H; subst. auto.
  - assert (Pop : pre_outer tr (with_stack s r)).
    { destruct tr as [|cf t]; cbn [pre_outer] in *; auto. cbn [with_stack syms stack]. destruct P as [L|(y & Y & [X|(c0 & X)])].
      - left. rewrite St in L. eapply link_pop; eauto.
      - congruence.
      - right. exists y. split; auto. left. rewrite St in X. inversion X; auto. }
    destruct top as [c|]; [|apply (IH _ _ _ _ H); auto].
    hstep H. hstep H; [apply (IH _ _ _ _ H); auto|].
    hstep H. match goal with X : inner_tr _ _ _ _ _ _ _ = EOk ?p |- _ => destruct p as [s1 tr1]; rename X into E1 end. cbn [fst snd] in H.
    destruct (inner_tr_adj _ _ _ _ _ _ E1 A) as (A1 & B1).
    { destruct tr as [|cf t]; cbn [pre_inner pre_outer] in *; auto. split.
      - destruct P as [L|(y & Y & [X|(c0 & X)])]; [left; exact L|congruence|].
        right. exists y. cbn [cf_st cf_corner]. rewrite St in X. inversion X; subst. rewrite St. auto.
      - intros _. cbn [cf_st cf_corner]. rewrite St. reflexivity. }
    apply (IH _ _ _ _ H); auto.
    destruct B1 as [(-> & ->)|B1]; auto. destruct tr1 as [|cf1 t1]; cbn [post_link pre_outer] in *; [contradiction|auto].
Qed.
Definition run_inv (tr : list cfg) (s : est) : Prop :=
  adj opp tr /\ match tr with [] => True | cf :: _ => exists y, syms s = y :: syms (cf_st cf) end.

Lemma from_corner_tr_adj s c tr s' tr' : from_corner_tr c2v opp hid s (Some c) tr = EOk (s', tr') -> run_inv tr s -> run_inv tr' s'.
Proof.
  intros H [A R]. unfold from_corner_tr in H. destruct (outer_tr_adj _ _ _ _ _ H A) as (A' & P' & _).
  - destruct tr as [|cf t]; cbn [pre_outer]; auto. right. destruct R as (y & Y). exists y. cbn [with_stack syms stack]. eauto.
  - split; auto. destruct tr' as [|cf t]; auto. cbn [pre_outer] in P'. destruct P' as [(y & dead & Y & _)|(y & Y & _)]; eauto.
Qed.

Definition run_inv4 (st : eres (est * list bool * list nat * list cfg)) : Prop :=
  forall s bits inits tr, st = EOk (s, bits, inits, tr) -> run_inv tr s.

Lemma run_inv_same tr s s' : run_inv tr s -> syms s' = syms s -> run_inv tr s'.
Proof. intros [A R] E. split; auto. destruct tr; auto. rewrite E. auto. Qed.

Lemma ec_corner_tr_adj st c_id : run_inv4 st -> run_inv4 (ec_corner_tr c2v opp hid st c_id).
Proof.
  intros Co s' bits' inits' tr' H. unfold ec_corner_tr in H.
  destruct st as [[[[s bits] inits] tr]| | |]; cbn [ebind] in H; try discriminate. specialize (Co s bits inits tr eq_refl).
  hstep H. hstep H. { inversion H; subst; auto. }
  destruct (is_degenerated c2v (c_id / 3)). { inversion H; subst; auto. }
  hstep H. match goal with X : find_init _ _ _ _ = EOk ?p |- _ => destruct p as [start interior] end. destruct interior.
  - repeat hstep H.
    match type of H with match ?o with Some _ => _ | None => _ end = _ => destruct o as [oc|] end.
    + hstep H. hstep H. { inversion H; subst. eapply run_inv_same; eauto. }
      hstep H. match goal with X : from_corner_tr _ _ _ _ _ _ = EOk ?p |- _ => destruct p as [s1 tr1]; cbn [fst snd] in H; inversion H; subst;
        eapply from_corner_tr_adj; [exact X|]; eapply run_inv_same; eauto end.
    + inversion H; subst. eapply run_inv_same; eauto.
  - hstep H. hstep H.
    match goal with X : from_corner_tr _ _ _ _ _ _ = EOk ?p, X2 : encode_hole _ _ _ _ _ _ = EOk _ |- _ =>
      destruct p as [s1 tr1]; cbn [fst snd] in H; inversion H; subst;
      eapply from_corner_tr_adj; [exact X|]; apply encode_hole_stack' in X2; destruct X2; eapply run_inv_same; eauto end.
Qed.

Lemma ec_fold_tr_adj l : forall st, run_inv4 st -> run_inv4 (fold_left (ec_corner_tr c2v opp hid) l st).
Proof. induction l as [|a l IH]; intros st Co; cbn [fold_left]; auto. apply IH. apply ec_corner_tr_adj. auto. Qed.
End Adj.

Lemma adj_tl opp a tr : adj opp (a :: tr) -> adj opp tr.
Proof. destruct tr as [|b t]; cbn [adj]; [auto|intros [_ X]; exact X]. Qed.

Lemma adj_rev_nth opp tr : adj opp tr -> forall i cf cf', nth_error (rev tr) i = Some cf -> nth_error (rev tr) (S i) = Some cf' -> tstep opp cf cf'.
Proof.
  induction tr as [|a tr IH]; intros A i cf cf' E1 E2; [destruct i; discriminate|].
  cbn [rev] in E1, E2.
  assert (Li : S i < length (rev tr ++ [a])) by (apply nth_error_Some; congruence). rewrite app_length, rev_length in Li. cbn in Li.
  destruct (Nat.eq_dec (S i) (length tr)) as [Ei|Ni].
  - rewrite nth_error_app2 in E2 by (rewrite rev_length; lia). rewrite rev_length, Ei, Nat.sub_diag in E2. cbn in E2. inversion E2; subst cf'.
    rewrite nth_error_app1 in E1 by (rewrite rev_length; lia).
    destruct tr as [|b tr]; [cbn in Ei; lia|]. cbn [adj] in A. destruct A as [T _].
    cbn [rev] in E1. cbn [length] in Ei. rewrite nth_error_app2 in E1 by (rewrite rev_length; lia).
    rewrite rev_length in E1. replace (i - length tr) with 0 in E1 by lia. cbn in E1. inversion E1; subst. auto.
  - rewrite nth_error_app1 in E1, E2 by (rewrite rev_length; lia).
    apply (IH (adj_tl _ _ _ A) i); auto.
Qed.

(** consecutive configurations of the encoder's trace *)
Theorem trace_steps c2v opp nv niso ndeg o tr : eb_encode_tr c2v opp nv niso ndeg = EOk (o, tr) ->
  forall i cf cf', nth_error tr i = Some cf -> nth_error tr (S i) = Some cf' -> tstep opp cf cf'.
Proof.
  unfold eb_encode_tr. intros H. destruct (NF c2v =? ndeg); [discriminate|].
  destruct (find_holes c2v opp nv) as [[hid vh]| | |]; cbn [ebind] in H; try discriminate.
  destruct (fold_left (ec_corner_tr c2v opp hid) (seq 0 (NC c2v)) (EOk (init_est (NF c2v) nv vh, [], [], []))) as [[[[s bits] inits] tr0]| | |] eqn:Ef;
    cbn [ebind] in H; try discriminate.
  inversion H; subst o tr. clear H.
  assert (R : run_inv opp tr0 s).
  { apply (ec_fold_tr_adj c2v opp hid (seq 0 (NC c2v)) (EOk (init_est (NF c2v) nv vh, [], [], []))) with (bits := bits) (inits := inits); auto.
    intros s0 b0 i0 t0 X. inversion X; subst. split; cbn; auto. }
  apply adj_rev_nth. apply R.
Qed.

(** * ONE run (one EncodeConnectivityFromCorner): every step is a [link], E / S find a non-empty stack, the first
    configuration has the stack [start corner], and at the end of the run everything left on the stack was popped.
    With the count of the symbols this gives the stack discipline without dead pops ([ladj_strict]): the slack
    1 + #S - #E - |stack| never decreases, is 0 at the start, and is 0 at the end iff #E = #S + 1. *)
Fixpoint gadj (R : cfg -> cfg -> Prop) (tr : list cfg) : Prop :=   (* newest first *)
  match tr with
  | cf' :: ((cf :: _) as r) => R cf cf' /\ gadj R r
  | _ => True
  end.
Lemma gadj_tl R a tr : gadj R (a :: tr) -> gadj R tr.
Proof. destruct tr as [|b t]; cbn [gadj]; [auto|intros [_ X]; exact X]. Qed.
Lemma gadj_rev_nth R tr : gadj R tr -> forall i cf cf', nth_error (rev tr) i = Some cf -> nth_error (rev tr) (S i) = Some cf' -> R cf cf'.
Proof.
  induction tr as [|a tr IH]; intros A i cf cf' E1 E2; [destruct i; discriminate|].
  cbn [rev] in E1, E2.
  assert (Li : S i < length (rev tr ++ [a])) by (apply nth_error_Some; congruence). rewrite app_length, rev_length in Li. cbn in Li.
  destruct (Nat.eq_dec (S i) (length tr)) as [Ei|Ni].
  - rewrite nth_error_app2 in E2 by (rewrite rev_length; lia). rewrite rev_length, Ei, Nat.sub_diag in E2. cbn in E2. inversion E2; subst cf'.
    rewrite nth_error_app1 in E1 by (rewrite rev_length; lia).
    destruct tr as [|b tr]; [cbn in Ei; lia|]. cbn [gadj] in A. destruct A as [T _].
    cbn [rev] in E1. cbn [length] in Ei. rewrite nth_error_app2 in E1 by (rewrite rev_length; lia).
    rewrite rev_length in E1. replace (i - length tr) with 0 in E1 by lia. cbn in E1. inversion E1; subst. auto.
  - rewrite nth_error_app1 in E1, E2 by (rewrite rev_length; lia).
    apply (IH (gadj_tl _ _ _ A) i); auto.
Qed.

Definition slink (opp : list (option nat)) (cf : cfg) (sy : list Z) (st : list (option nat)) : Prop :=
  exists y dead, sy = y :: syms (cf_st cf) /\ pushed opp y (cf_corner cf) (stack (cf_st cf)) = dead ++ st /\
    (y = 7%Z \/ y = 1%Z -> stack (cf_st cf) <> []).
Definition lstep (opp : list (option nat)) (cf cf' : cfg) : Prop := slink opp cf (syms (cf_st cf')) (stack (cf_st cf')).
Definition ladj (opp : list (option nat)) := gadj (lstep opp).
(** strict: nothing is popped between two symbols *)
Definition sstep (opp : list (option nat)) (cf cf' : cfg) : Prop :=
  stack (cf_st cf') = pushed opp (hd 0%Z (syms (cf_st cf'))) (cf_corner cf) (stack (cf_st cf)).

Section LAdj.
Variables (c2v : list nat) (opp : list (option nat)) (hid : list (option nat)).

Definition lpre (tr : list cfg) (s : est) : Prop :=
  match tr with [] => True | cf :: _ => slink opp cf (syms s) (stack s) end.
Definition lpost (tr : list cfg) (s : est) : Prop :=
  match tr with [] => False | cf :: _ => slink opp cf (syms s) (stack s) end.

Lemma inner_tr_ladj : forall k s c tr s' tr', inner_tr c2v opp hid k s (Some c) tr = EOk (s', tr') ->
  ladj opp tr -> lpre tr s ->
  ladj opp tr' /\ ((tr' = tr /\ s' = s) \/ lpost tr' s') /\
  exists pre, tr' = pre ++ tr /\ (k <> 0 -> exists pre', pre = pre' ++ [mk_cfg c s]).
Proof.
  induction k as [|k IH]; intros s c tr s' tr' H A P; cbn [inner_tr] in H.
  - inversion H; subst. split; auto. split; auto. exists []. split; auto. intros X. congruence.
  - cbv zeta in H.
    assert (A1 : ladj opp (mk_cfg c s :: tr)).
    { destruct tr as [|cf r]; cbn [ladj gadj]; auto. }
    assert (Fin : forall pre', tr' = pre' ++ mk_cfg c s :: tr ->
              exists pre, tr' = pre ++ tr /\ (S k <> 0 -> exists pre'', pre = pre'' ++ [mk_cfg c s])).
    { intros pre' ->. exists (pre' ++ [mk_cfg c s]). rewrite <- app_assoc. split; auto. intros _. eauto. }
    assert (Step : forall s3 o y0, inner_tr c2v opp hid k s3 o (mk_cfg c s :: tr) = EOk (s', tr') -> syms s3 = y0 :: syms s ->
              stack s3 = stack s -> (y0 = 0 \/ y0 = 3 \/ y0 = 5)%Z ->
              ladj opp tr' /\ ((tr' = tr /\ s' = s) \/ lpost tr' s') /\
              exists pre, tr' = pre ++ tr /\ (S k <> 0 -> exists pre', pre = pre' ++ [mk_cfg c s])).
    { intros s3 o y0 E3 Y3 St3 Hy.
      assert (L3 : slink opp (mk_cfg c s) (syms s3) (stack s3)).
      { exists y0, []. cbn [cf_st cf_corner app]. split; auto. split.
        - unfold pushed. destruct Hy as [->|[->| ->]]; cbn; auto.
        - intros [X|X]; destruct Hy as [Y|[Y|Y]]; rewrite Y in X; discriminate. }
      destruct o as [nx|].
      - destruct (IH s3 nx _ _ _ E3 A1 L3) as (B1 & B2 & pre & B3 & _).
        split; auto. split; [|apply (Fin pre); auto]. right. destruct B2 as [(-> & ->)|B2]; auto.
      - destruct k; cbn in E3; [|discriminate]. inversion E3; subst. split; auto. split; [right; exact L3|]. apply (Fin []). reflexivity. }
    hstep H. hstep H. hstep H. hstep H. hstep H.
    match goal with X : (if _ then EOk _ else _) = EOk _ |- _ => apply mark_stack in X; cbn in X; destruct X as (P1 & Y1 & St1 & Vf1) end.
    hstep H.
    + hstep H. apply (Step _ _ 0%Z H); unfold TOPOLOGY_C; cbn; auto; try congruence.
    + hstep H. hstep H. hstep H. hstep H.
      * hstep H. hstep H.
        -- hstep H. inversion H; subst. split; auto. split; [|apply (Fin []); reflexivity]. right. cbn [lpost].
           exists 7%Z, []. cbn [cf_st cf_corner app emit with_syms with_stack syms stack].
           destruct (check_split_stack' (check_split a3 RIGHT_FACE_EDGE a4) LEFT_FACE_EDGE a5) as (C1 & C2 & _).
           destruct (check_split_stack' a3 RIGHT_FACE_EDGE a4) as (C3 & C4 & _).
           cbn in Est. rewrite C1, C3, St1 in Est.
           split; [rewrite C2, C4, Y1; reflexivity|]. split; [|intros _; rewrite Est; discriminate].
           unfold pushed. cbn. rewrite Est. reflexivity.
        -- apply (Step _ _ 5%Z H); unfold TOPOLOGY_R; cbn; rewrite ?(proj1 (check_split_stack' _ _ _)), ?(proj1 (proj2 (check_split_stack' _ _ _))); auto; try congruence.
      * hstep H. hstep H.
        -- apply (Step _ _ 3%Z H); unfold TOPOLOGY_L; cbn; rewrite ?(proj1 (check_split_stack' _ _ _)), ?(proj1 (proj2 (check_split_stack' _ _ _))); auto; try congruence.
        -- hstep H.
           match goal with X : match ?h with Some _ => _ | None => _ end = EOk ?sx |- _ =>
             assert (P6 : stack sx = stack s /\ syms sx = TOPOLOGY_S :: syms s);
             [ destruct h as [hole|];
               [ hstep X; hstep X;
                 [ inversion X; subst; cbn; split; congruence
                 | apply encode_hole_stack' in X; cbn in X; destruct X as [-> ->]; split; congruence ]
               | inversion X; subst; cbn; split; congruence ] | ] end.
           destruct P6 as [P6 Y6]. hstep H. inversion H; subst. split; auto. split; [|apply (Fin []); reflexivity]. right. cbn [lpost].
           exists 1%Z, []. cbn [cf_st cf_corner app with_f2s with_stack syms stack]. split; [rewrite Y6; reflexivity|].
           match goal with X : right_corner opp c = EOk ?r, X2 : left_corner opp c = EOk ?l |- _ =>
             assert (Er : oat opp (next_c c) = r) by (apply eget_oat; exact X);
             assert (El : oat opp (prev_c c) = l) by (apply eget_oat; exact X2) end.
           cbn in Est. rewrite P6 in Est.
           split; [unfold pushed; cbn; rewrite Er, El, Est; reflexivity|].
           intros _. rewrite Est. discriminate.
Qed.

Lemma slink_pop cf sy x r : slink opp cf sy (x :: r) -> slink opp cf sy r.
Proof. intros (y & dead & A & B & C). exists y, (dead ++ [x]). rewrite <- app_assoc. auto. Qed.

(** the oldest configuration recorded by a run that starts with the empty trace *)
Definition first_cfg (tr' : list cfg) (st0 : list (option nat)) (sy0 : list Z) : Prop :=
  tr' = [] \/ exists pre cf d, tr' = pre ++ [cf] /\ st0 = d ++ stack (cf_st cf) /\ hd None (stack (cf_st cf)) = Some (cf_corner cf) /\
                              syms (cf_st cf) = sy0.

Lemma outer_tr_ladj : forall fuel s tr s' tr', outer_tr c2v opp hid fuel s tr = EOk (s', tr') ->
  ladj opp tr -> lpre tr s ->
  ladj opp tr' /\ lpre tr' s' /\ stack s' = [] /\ (tr = [] -> first_cfg tr' (stack s) (syms s)) /\ (tr' = tr -> syms s' = syms s).
Proof.
  induction fuel as [|k IH]; intros s tr s' tr' H A P; cbn [outer_tr] in H; [discriminate|].
  destruct (stack s) as [|top r] eqn:St.
  - inversion H; subst. split; auto. split; auto. split; auto. split; auto. intros ->. left. reflexivity.
  - assert (Pop : lpre tr (with_stack s r)).
    { destruct tr as [|cf t]; cbn [lpre] in *; auto. cbn [with_stack syms stack]. rewrite St in P. eapply slink_pop; eauto. }
    assert (Dead : outer_tr c2v opp hid k (with_stack s r) tr = EOk (s', tr') ->
              ladj opp tr' /\ lpre tr' s' /\ stack s' = [] /\ (tr = [] -> first_cfg tr' (top :: r) (syms s)) /\ (tr' = tr -> syms s' = syms s)).
    { intros H'. destruct (IH _ _ _ _ H' A Pop) as (B1 & B2 & B3 & B4 & B4'). split; auto. split; auto. split; auto. split; [|exact B4'].
      intros E. destruct (B4 E) as [X|(pre & cf & d & X1 & X2 & X3 & X4)]; [left; exact X|right].
      cbn [with_stack stack syms] in X2, X4. exists pre, cf, (top :: d). rewrite X2. auto. }
    destruct top as [c|]; [|apply Dead; exact H].
    hstep H. hstep H; [apply Dead; exact H|].
    hstep H. match goal with X : inner_tr _ _ _ _ _ _ _ = EOk ?p |- _ => destruct p as [s1 tr1]; rename X into E1 end. cbn [fst snd] in H.
    destruct (inner_tr_ladj _ _ _ _ _ _ E1 A) as (A1 & B1 & pre1 & C1 & C2).
    { destruct tr as [|cf t]; cbn [lpre] in *; auto. }
    assert (P1 : lpre tr1 s1).
    { destruct B1 as [(-> & ->)|B1]; auto. destruct tr1 as [|cf1 t1]; cbn [lpost lpre] in *; [contradiction|auto]. }
    assert (Ext : forall fuel0 s0 t0 s0' t0', outer_tr c2v opp hid fuel0 s0 t0 = EOk (s0', t0') -> exists p, t0' = p ++ t0).
    { clear. induction fuel0 as [|f IHf]; intros s0 t0 s0' t0' H0; cbn [outer_tr] in H0; [discriminate|].
      destruct (stack s0) as [|[c0|] r0]; [inversion H0; subst; exists []; reflexivity| |apply (IHf _ _ _ _ H0)].
      hstep H0. hstep H0; [apply (IHf _ _ _ _ H0)|]. hstep H0.
      match goal with X : inner_tr _ _ _ _ _ _ _ = EOk ?p |- _ => destruct p as [s1 tr1]; rename X into E1 end. cbn [fst snd] in H0.
      destruct (IHf _ _ _ _ H0) as (p & ->).
      assert (Ei : forall k s c tr s' tr', inner_tr c2v opp hid k s c tr = EOk (s', tr') -> exists p, tr' = p ++ tr).
      { clear. induction k as [|k IHk]; intros s c tr s' tr' H; cbn [inner_tr] in H; [inversion H; subst; exists []; reflexivity|].
        destruct c as [c|]; [|discriminate]. cbv zeta in H.
        assert (Stp : forall s3 o, inner_tr c2v opp hid k s3 o (mk_cfg c s :: tr) = EOk (s', tr') -> exists p, tr' = p ++ tr).
        { intros s3 o E. destruct (IHk _ _ _ _ _ E) as (p & ->). exists (p ++ [mk_cfg c s]). rewrite <- app_assoc. reflexivity. }
        repeat (hstep H; try (apply (Stp _ _ H)); try (inversion H; subst; exists [mk_cfg c s]; reflexivity)). }
      destruct (Ei _ _ _ _ _ _ E1) as (p1 & ->). exists (p ++ p1). rewrite app_assoc. reflexivity. }
    destruct (IH _ _ _ _ H A1 P1) as (B2 & B3 & B4 & B5 & B6). split; auto. split; auto. split; auto.
    destruct (Ext _ _ _ _ _ H) as (p & Ep).
    destruct (Nat.eq_dec (NF c2v) 0) as [Z0|NZ].
    + rewrite Z0 in E1. cbn [inner_tr] in E1. inversion E1; subst s1 tr1. split; [|exact B6].
      intros Et. rewrite <- St. apply B5. exact Et.
    + destruct (C2 NZ) as (pre' & Ep1). split.
      * intros ->. rewrite app_nil_r in C1. right. exists (p ++ pre'), (mk_cfg c s), []. rewrite Ep, C1, Ep1, <- app_assoc.
        cbn [cf_st cf_corner app]. rewrite St. auto.
      * intros Q. exfalso. rewrite Ep, C1, Ep1 in Q. apply (f_equal (@length _)) in Q. rewrite !app_length in Q. cbn in Q. lia.
Qed.

Lemma from_corner_tr_ladj s c s' tr' : from_corner_tr c2v opp hid s (Some c) [] = EOk (s', tr') ->
  ladj opp tr' /\ lpre tr' s' /\ stack s' = [] /\
  (tr' = [] \/ exists pre cf, tr' = pre ++ [cf] /\ stack (cf_st cf) = [Some (cf_corner cf)] /\ syms (cf_st cf) = syms s) /\
  (tr' = [] -> syms s' = syms s).
Proof.
  intros H. unfold from_corner_tr in H. destruct (outer_tr_ladj _ _ _ _ _ H) as (A & B & C & D & D'); cbn [ladj gadj lpre]; auto.
  split; auto. split; auto. split; auto. split; [|exact D'].
  destruct (D eq_refl) as [X|(pre & cf & d & X1 & X2 & X3 & X4)]; [left; exact X|right]. exists pre, cf. split; auto.
  cbn [with_stack syms] in X4. split; [|exact X4].
  cbn [with_stack stack] in X2. destruct d as [|d0 d]; cbn [app] in X2.
  - rewrite <- X2 in X3 |- *. cbn in X3. inversion X3; subst. reflexivity.
  - inversion X2 as [[Q1 Q2]]. destruct d; cbn in Q2; [|discriminate]. rewrite <- Q2 in X3. cbn in X3. discriminate.
Qed.

(** the whole encoding, when it has exactly one start-face bit *)
Definition run1 (tr : list cfg) (s : est) : Prop :=
  tr = [] \/ (ladj opp tr /\ lpost tr (with_stack s []) /\ exists pre cf, tr = pre ++ [cf] /\ stack (cf_st cf) = [Some (cf_corner cf)]).
Definition run1_4 (st : eres (est * list bool * list nat * list cfg)) : Prop :=
  forall s bits inits tr, st = EOk (s, bits, inits, tr) ->
    (bits = [] /\ tr = []) \/ (length bits = 1 /\ run1 tr s) \/ 2 <= length bits.

Lemma run1_same tr s s' : run1 tr s -> syms s' = syms s -> run1 tr s'.
Proof. intros [X|(A & B & C)] E; [left; exact X|right]. split; auto. split; auto. destruct tr; auto. cbn [lpost with_stack syms stack] in *. rewrite E. auto. Qed.

Lemma from_corner_run1 s c s' tr' : from_corner_tr c2v opp hid s (Some c) [] = EOk (s', tr') -> run1 tr' s'.
Proof.
  intros H. destruct (from_corner_tr_ladj _ _ _ _ H) as (A & B & C & [D|D] & _); [left; exact D|right].
  split; auto. split; [|destruct D as (pre & cf & X1 & X2 & _); eauto].
  destruct tr' as [|cf t]; [destruct D as (pre & cf & X & _); destruct pre; discriminate|].
  cbn [lpost lpre with_stack syms stack] in *. rewrite C in B. exact B.
Qed.

Lemma ec_corner_tr_run1 st c_id : run1_4 st -> run1_4 (ec_corner_tr c2v opp hid st c_id).
Proof.
  intros Co s' bits' inits' tr' H. unfold ec_corner_tr in H.
  destruct st as [[[[s bits] inits] tr]| | |]; cbn [ebind] in H; try discriminate. specialize (Co s bits inits tr eq_refl).
  hstep H. hstep H. { inversion H; subst; auto. }
  destruct (is_degenerated c2v (c_id / 3)). { inversion H; subst; auto. }
  hstep H. match goal with X : find_init _ _ _ _ = EOk ?p |- _ => destruct p as [start interior] end.
  destruct Co as [(-> & ->)|[(L1 & _)|L2]].
  2: { right. right. destruct interior; repeat hstep H;
       repeat match type of H with match ?o with Some _ => _ | None => _ end = _ => destruct o end; repeat hstep H;
       inversion H; subst; cbn [length]; lia. }
  2: { right. right. destruct interior; repeat hstep H;
       repeat match type of H with match ?o with Some _ => _ | None => _ end = _ => destruct o end; repeat hstep H;
       inversion H; subst; cbn [length]; lia. }
  right. left. destruct interior.
  - repeat hstep H.
    match type of H with match ?o with Some _ => _ | None => _ end = _ => destruct o as [oc|] end.
    + hstep H. hstep H. { inversion H; subst. split; [reflexivity|left; reflexivity]. }
      hstep H. match goal with X : from_corner_tr _ _ _ _ _ _ = EOk ?p |- _ => destruct p as [s1 tr1]; cbn [fst snd] in H; inversion H; subst;
        split; [reflexivity|]; eapply from_corner_run1; exact X end.
    + inversion H; subst. split; [reflexivity|left; reflexivity].
  - hstep H. hstep H.
    match goal with X : from_corner_tr _ _ _ _ _ _ = EOk ?p |- _ =>
      destruct p as [s1 tr1]; cbn [fst snd] in H; inversion H; subst; split; [reflexivity|]; eapply from_corner_run1; exact X end.
Qed.

Lemma ec_fold_tr_run1 l : forall st, run1_4 st -> run1_4 (fold_left (ec_corner_tr c2v opp hid) l st).
Proof. induction l as [|a l IH]; intros st Co; cbn [fold_left]; auto. apply IH. apply ec_corner_tr_run1. auto. Qed.
End LAdj.

(** the trace of an encoding with ONE start-face bit (newest first: [t], [tr = rev t]) *)
Theorem trace_one_run c2v opp nv niso ndeg o tr : eb_encode_tr c2v opp nv niso ndeg = EOk (o, tr) -> length (o_bits o) = 1 ->
  exists t, tr = rev t /\
   (t = [] \/ (ladj opp t /\ (exists cf r, t = cf :: r /\ slink opp cf (rev (o_syms o)) []) /\
               exists pre cf, t = pre ++ [cf] /\ stack (cf_st cf) = [Some (cf_corner cf)])).
Proof.
  unfold eb_encode_tr. intros H Lb. destruct (NF c2v =? ndeg); [discriminate|].
  destruct (find_holes c2v opp nv) as [[hid vh]| | |]; cbn [ebind] in H; try discriminate.
  destruct (fold_left (ec_corner_tr c2v opp hid) (seq 0 (NC c2v)) (EOk (init_est (NF c2v) nv vh, [], [], []))) as [[[[s bits] inits] tr0]| | |] eqn:Ef;
    cbn [ebind] in H; try discriminate.
  inversion H; subst o tr. clear H. cbn [o_bits o_syms] in *. rewrite rev_length in Lb. exists tr0. split; auto.
  assert (R : run1_4 opp (EOk (s, bits, inits, tr0))).
  { rewrite <- Ef. apply ec_fold_tr_run1. intros s0 b0 i0 t0 X. inversion X; subst. left. auto. }
  destruct (R s bits inits tr0 eq_refl) as [(-> & _)|[(_ & [X|(A & B & C)])|L2]]; [cbn in Lb; lia|left; exact X| |lia].
  right. split; auto. split; auto. destruct tr0 as [|cf r]; cbn [lpost] in B; [contradiction|].
  exists cf, r. split; auto. cbn [with_stack syms stack] in B. rewrite rev_involutive. exact B.
Qed.

(** ** accounting *)
Local Open Scope Z_scope.
Definition delta (y : Z) : Z := if y =? 1 then 1 else if y =? 7 then -1 else 0.
Fixpoint ideal (sy : list Z) : Z := match sy with [] => 1 | y :: r => ideal r + delta y end.
Definition slack (cf : cfg) : Z := ideal (syms (cf_st cf)) - Z.of_nat (length (stack (cf_st cf))).

Lemma slink_slack opp cf sy st : slink opp cf sy st ->
  slack cf <= ideal sy - Z.of_nat (length st) /\
  (ideal sy - Z.of_nat (length st) <= slack cf -> st = pushed opp (hd 0 sy) (cf_corner cf) (stack (cf_st cf))).
Proof.
  intros (y & dead & -> & B & C). cbn [ideal hd]. unfold slack.
  assert (L : Z.of_nat (length (pushed opp y (cf_corner cf) (stack (cf_st cf)))) = Z.of_nat (length (stack (cf_st cf))) + delta y).
  { unfold pushed, delta. destruct (y =? 7) eqn:E7.
    - assert (y = 7) by lia. subst y. cbn [Z.eqb Pos.eqb]. destruct (stack (cf_st cf)); [exfalso; apply C; auto|]. cbn [tl length]. lia.
    - destruct (y =? 1) eqn:E1; [|lia]. assert (y = 1) by lia. subst y.
      destruct (stack (cf_st cf)); [exfalso; apply C; auto|]. cbn [tl length]. lia. }
  rewrite B in L. rewrite app_length in L. split; [lia|]. intros Le.
  assert (length dead = 0%nat) by lia. destruct dead; [|discriminate]. rewrite B. reflexivity.
Qed.

Lemma last_cons_default {A} (l : list A) : forall a d d', last (a :: l) d = last (a :: l) d'.
Proof. induction l as [|b l IH]; intros a d d'; [reflexivity|]. change (last (b :: l) d = last (b :: l) d'). apply IH. Qed.

Lemma ladj_strict opp : forall t, ladj opp t -> forall cfN r, t = cfN :: r -> slack cfN <= 0 -> 0 <= slack (last t cfN) ->
  gadj (sstep opp) t /\ slack cfN = 0.
Proof.
  induction t as [|a t IH]; intros A cfN r E Hn Ho; [discriminate|]. inversion E; subst a t. clear E.
  destruct r as [|cf r'].
  - cbn [gadj last] in *. split; auto. lia.
  - cbn [ladj gadj] in A. destruct A as [S1 A']. destruct (slink_slack _ _ _ _ S1) as (M1 & M2). fold (slack cfN) in M1, M2.
    change (last (cfN :: cf :: r') cfN) with (last (cf :: r') cfN) in Ho.
    assert (El : last (cf :: r') cfN = last (cf :: r') cf) by apply last_cons_default.
    rewrite El in Ho.
    destruct (IH A' cf r' eq_refl ltac:(lia) Ho) as (G & Z0).
    split; [|lia]. cbn [gadj]. split; [|exact G]. unfold sstep. apply M2. lia.
Qed.
Local Close Scope Z_scope.

(** * SEVERAL runs.  The trace is only accumulated (writer): a run started on a non-empty trace is the run started on the
    empty trace, appended.  [madj t R]: the trace [t] (newest first) consists of R runs; inside a run every step is a link,
    between two runs everything left on the stack was popped and the new run starts with the stack [start corner]. *)
Section Writer.
Variables (c2v : list nat) (opp : list (option nat)) (hid : list (option nat)).
Definition app_tr (t : list cfg) (x : est * list cfg) : est * list cfg := (fst x, snd x ++ t).

Ltac wstep :=
  match goal with
  | |- ebind ?e _ = emap _ (ebind ?e _) => destruct e; cbn [ebind emap]; try reflexivity
  | |- (if ?b then _ else _) = emap _ (if ?b then _ else _) => destruct b
  | |- match ?l with [] => _ | _ :: _ => _ end = emap _ (match ?l with [] => _ | _ :: _ => _ end) =>
      destruct l; cbn [emap app_tr fst snd]; try reflexivity
  end.

Lemma inner_tr_app : forall k s c t1 t2,
  inner_tr c2v opp hid k s c (t1 ++ t2) = emap (app_tr t2) (inner_tr c2v opp hid k s c t1).
Proof.
  induction k as [|k IH]; intros s c t1 t2; cbn [inner_tr]; [reflexivity|].
  destruct c as [c|]; [|reflexivity]. cbv zeta.
  repeat first [ apply (IH _ _ (mk_cfg c s :: t1) t2) | reflexivity | wstep ].
Qed.

Lemma outer_tr_app : forall fuel s t1 t2,
  outer_tr c2v opp hid fuel s (t1 ++ t2) = emap (app_tr t2) (outer_tr c2v opp hid fuel s t1).
Proof.
  induction fuel as [|k IH]; intros s t1 t2; cbn [outer_tr]; [reflexivity|].
  destruct (stack s) as [|[c|] r]; [reflexivity| |apply IH].
  destruct (eget (vf s) (c / 3)) as [b| | |]; cbn [ebind emap]; try reflexivity.
  destruct b; [apply IH|].
  rewrite inner_tr_app.
  destruct (inner_tr c2v opp hid (NF c2v) s (Some c) t1) as [[s1 tr1]| | |]; cbn [ebind emap app_tr fst snd]; try reflexivity. apply IH.
Qed.

Lemma from_corner_tr_app s c t s' t' : from_corner_tr c2v opp hid s c t = EOk (s', t') ->
  exists p, from_corner_tr c2v opp hid s c [] = EOk (s', p) /\ t' = p ++ t.
Proof.
  unfold from_corner_tr. intros H. change t with ([] ++ t) in H. rewrite outer_tr_app in H.
  destruct (outer_tr c2v opp hid (outer_fuel c2v) (with_stack s [c]) []) as [[s1 p]| | |]; cbn [emap app_tr fst snd] in H; try discriminate.
  inversion H; subst. exists p. auto.
Qed.
End Writer.

Inductive madj (opp : list (option nat)) : list cfg -> nat -> Prop :=
| madj_one cf0 : stack (cf_st cf0) = [Some (cf_corner cf0)] -> madj opp [cf0] 1
| madj_link cf' cf r R : lstep opp cf cf' -> madj opp (cf :: r) R -> madj opp (cf' :: cf :: r) R
| madj_new cf' cf r R : slink opp cf (syms (cf_st cf')) [] -> stack (cf_st cf') = [Some (cf_corner cf')] ->
    madj opp (cf :: r) R -> madj opp (cf' :: cf :: r) (S R).

Lemma ladj_madj1 opp : forall pre cf0, ladj opp (pre ++ [cf0]) -> stack (cf_st cf0) = [Some (cf_corner cf0)] -> madj opp (pre ++ [cf0]) 1.
Proof.
  induction pre as [|a pre IH]; intros cf0 A S0; cbn [app] in *; [constructor; auto|].
  destruct (pre ++ [cf0]) as [|b l] eqn:E; [destruct pre; discriminate|].
  cbn [ladj gadj] in A. destruct A as [A1 A2]. apply madj_link; auto. rewrite <- E. apply IH; auto. rewrite E. exact A2.
Qed.

Lemma madj_app opp : forall pre cf0 cfN r R, ladj opp (pre ++ [cf0]) -> stack (cf_st cf0) = [Some (cf_corner cf0)] ->
  madj opp (cfN :: r) R -> slink opp cfN (syms (cf_st cf0)) [] -> madj opp ((pre ++ [cf0]) ++ cfN :: r) (S R).
Proof.
  induction pre as [|a pre IH]; intros cf0 cfN r R A S0 M L; cbn [app] in *; [apply madj_new; auto|].
  destruct (pre ++ [cf0]) as [|b l] eqn:E; [destruct pre; discriminate|].
  cbn [ladj gadj] in A. destruct A as [A1 A2]. cbn [app]. apply madj_link; auto.
  change (b :: l ++ cfN :: r) with ((b :: l) ++ cfN :: r). rewrite <- E. apply IH; auto. rewrite E. exact A2.
Qed.

Section RunsM.
Variables (c2v : list nat) (opp : list (option nat)) (hid : list (option nat)).

Definition runm (tr : list cfg) (s : est) (bits : list bool) : Prop :=
  tr = [] \/ exists R, madj opp tr R /\ R <= length bits /\ lpost opp tr (with_stack s []).
Definition runm_4 (st : eres (est * list bool * list nat * list cfg)) : Prop :=
  forall s bits inits tr, st = EOk (s, bits, inits, tr) -> runm tr s bits.

Lemma runm_same tr s s' bits b : runm tr s bits -> syms s' = syms s -> runm tr s' (b :: bits).
Proof.
  intros [X|(R & A & B & C)] E; [left; exact X|right]. exists R. split; auto. split; [cbn [length]; lia|].
  destruct tr; auto. cbn [lpost with_stack syms stack] in *. rewrite E. auto.
Qed.

Lemma from_corner_runm s c s' tr tr' bits b : from_corner_tr c2v opp hid s (Some c) tr = EOk (s', tr') ->
  runm tr s bits -> runm tr' s' (b :: bits).
Proof.
  intros H Rm. destruct (from_corner_tr_app _ _ _ _ _ _ _ _ H) as (p & Hp & ->).
  destruct (from_corner_tr_ladj _ _ _ _ _ _ _ Hp) as (A & B & C & D & D').
  destruct D as [->|(pre & cf0 & -> & S0 & Y0)].
  - cbn [app]. apply (runm_same tr s); auto.
  - assert (Lp : lpost opp ((pre ++ [cf0]) ++ tr) (with_stack s' [])).
    { destruct (pre ++ [cf0]) as [|cf t] eqn:E; [destruct pre; discriminate|]. cbn [app lpost lpre with_stack syms stack] in *. rewrite C in B. exact B. }
    right. destruct Rm as [->|(R & M & LR & LP)].
    + exists 1. rewrite app_nil_r in *. split; [apply ladj_madj1; auto|]. split; [cbn [length]; lia|exact Lp].
    + exists (S R). destruct tr as [|cfN r]; [inversion M|]. split; [|split; [cbn [length]; lia|exact Lp]].
      apply madj_app; auto. cbn [lpost with_stack syms stack] in LP. rewrite Y0. exact LP.
Qed.

Lemma ec_corner_tr_runm st c_id : runm_4 st -> runm_4 (ec_corner_tr c2v opp hid st c_id).
Proof.
  intros Co s' bits' inits' tr' H. unfold ec_corner_tr in H.
  destruct st as [[[[s bits] inits] tr]| | |]; cbn [ebind] in H; try discriminate. specialize (Co s bits inits tr eq_refl).
  hstep H. hstep H. { inversion H; subst; auto. }
  destruct (is_degenerated c2v (c_id / 3)). { inversion H; subst; auto. }
  hstep H. match goal with X : find_init _ _ _ _ = EOk ?p |- _ => destruct p as [start interior] end. destruct interior.
  - repeat hstep H.
    match type of H with match ?o with Some _ => _ | None => _ end = _ => destruct o as [oc|] end.
    + hstep H. hstep H. { inversion H; subst. eapply runm_same; eauto. }
      hstep H. match goal with X : from_corner_tr _ _ _ _ _ _ = EOk ?p |- _ => destruct p as [s1 tr1]; cbn [fst snd] in H; inversion H; subst;
        eapply from_corner_runm; [exact X|]; destruct Co as [Q|(R & Q1 & Q2 & Q3)]; [left; exact Q|right; exists R; split; auto; split; auto;
        destruct tr; auto] end.
    + inversion H; subst. eapply runm_same; eauto.
  - hstep H. hstep H.
    match goal with X : from_corner_tr _ _ _ _ _ _ = EOk ?p, X2 : encode_hole _ _ _ _ _ _ = EOk _ |- _ =>
      destruct p as [s1 tr1]; cbn [fst snd] in H; inversion H; subst;
      eapply from_corner_runm; [exact X|]; apply encode_hole_stack' in X2; destruct X2 as [_ X2];
      destruct Co as [Q|(R & Q1 & Q2 & Q3)]; [left; exact Q|right; exists R; split; auto; split; auto;
      destruct tr; auto; cbn [lpost with_stack syms stack] in *; rewrite X2; auto] end.
Qed.

Lemma ec_fold_tr_runm l : forall st, runm_4 st -> runm_4 (fold_left (ec_corner_tr c2v opp hid) l st).
Proof. induction l as [|a l IH]; intros st Co; cbn [fold_left]; auto. apply IH. apply ec_corner_tr_runm. auto. Qed.
End RunsM.

(** the trace of any encoding as a sequence of at most |start-face bits| runs (newest first: [t], [tr = rev t]) *)
Theorem trace_runs c2v opp nv niso ndeg o tr : eb_encode_tr c2v opp nv niso ndeg = EOk (o, tr) ->
  exists t, tr = rev t /\
   (t = [] \/ exists R, madj opp t R /\ R <= length (o_bits o) /\ exists cf r, t = cf :: r /\ slink opp cf (rev (o_syms o)) []).
Proof.
  unfold eb_encode_tr. intros H. destruct (NF c2v =? ndeg); [discriminate|].
  destruct (find_holes c2v opp nv) as [[hid vh]| | |]; cbn [ebind] in H; try discriminate.
  destruct (fold_left (ec_corner_tr c2v opp hid) (seq 0 (NC c2v)) (EOk (init_est (NF c2v) nv vh, [], [], []))) as [[[[s bits] inits] tr0]| | |] eqn:Ef;
    cbn [ebind] in H; try discriminate.
  inversion H; subst o tr. clear H. cbn [o_bits o_syms] in *. exists tr0. split; auto.
  assert (R : runm_4 opp (EOk (s, bits, inits, tr0))).
  { rewrite <- Ef. apply ec_fold_tr_runm. intros s0 b0 i0 t0 X. inversion X; subst. left. auto. }
  destruct (R s bits inits tr0 eq_refl) as [X|(Rn & A & B & C)]; [left; exact X|right].
  exists Rn. split; auto. split; [rewrite rev_length; auto|]. destruct tr0 as [|cf r]; cbn [lpost] in C; [contradiction|].
  exists cf, r. split; auto. cbn [with_stack syms stack] in C. rewrite rev_involutive. exact C.
Qed.

(** ** accounting over several runs: the potential  ideal - |stack| + (#runs - 1)  never decreases, starts at 0, and ends at
    <= 0 when  ideal (all symbols) = 1 - #bits;  then nothing was ever popped dead *)
Definition mstep (opp : list (option nat)) (cf cf' : cfg) : Prop :=
  sstep opp cf cf' \/
  (pushed opp (hd 0%Z (syms (cf_st cf'))) (cf_corner cf) (stack (cf_st cf)) = [] /\ stack (cf_st cf') = [Some (cf_corner cf')]).

Local Open Scope Z_scope.
Lemma madj_strict opp : forall t R, madj opp t R -> forall cfN r, t = cfN :: r ->
  slack cfN + Z.of_nat R - 1 <= 0 -> syms (cf_st (last t cfN)) = [] ->
  gadj (mstep opp) t /\ slack cfN + Z.of_nat R - 1 = 0.
Proof.
  induction 1 as [cf0 S0|cf' cf r R L M IH|cf' cf r R L S0 M IH]; intros cfN r0 E Hn Ho; inversion E; subst cfN r0; clear E.
  - cbn [last] in Ho. unfold slack in *. rewrite Ho, S0 in *. cbn [ideal length gadj] in *. split; auto.
  - destruct (slink_slack _ _ _ _ L) as (M1 & M2). fold (slack cf') in M1, M2.
    change (last (cf' :: cf :: r) cf') with (last (cf :: r) cf') in Ho. rewrite (last_cons_default r cf cf' cf) in Ho.
    destruct (IH cf r eq_refl ltac:(lia) Ho) as (G & Z0).
    split; [|lia]. cbn [gadj]. split; [|exact G]. left. unfold sstep. apply M2. lia.
  - destruct (slink_slack _ _ _ _ L) as (M1 & M2). cbn [length] in M1, M2.
    assert (S1 : slack cf' = ideal (syms (cf_st cf')) - 1) by (unfold slack; rewrite S0; reflexivity).
    change (last (cf' :: cf :: r) cf') with (last (cf :: r) cf') in Ho. rewrite (last_cons_default r cf cf' cf) in Ho.
    destruct (IH cf r eq_refl ltac:(lia) Ho) as (G & Z0).
    split; [|lia]. cbn [gadj]. split; [|exact G]. right. split; [symmetry; apply M2; lia|exact S0].
Qed.
Local Close Scope Z_scope.
