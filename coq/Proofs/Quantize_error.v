(** The float32 error bound of C04: decode(encode x) in bit-exact binary32 is within half a step plus
    14 ulp of x, inside the magnitude window 2^-20 <= range <= 2^30, |min| <= 2^30.
    Chain: Flocq's B*_correct lemmas tie each executable operation of Model/Quantize.v to a rounding of
    the exact real result; the standard model rnd(y) = y(1+e) (+eta for the one product that may
    underflow) reduces the claim to two real-arithmetic lemmas (quant_core, requant_core).
    ComputeParameters is shown to put every value into the float-level box the bound needs. *)
From Coq Require Import ZArith Reals Lra Lia Psatz Bool.
From Coq Require Import ZArith Reals Lra Lia Psatz Bool.
From Flocq Require Import Core BinarySingleNaN Binary Bits Relative Plus_error.
From Draco Require Import Base.Codec Base.Float32 Model.Quantize Proofs.Quantize_ideal Proofs.Quantize_proofs.
Local Open Scope R_scope.

(** * Bridge between the executable binary32 operations and real-number rounding *)

Notation fexp32 := (FLT_exp (-149) 24).
Definition rnd (x : R) : R := round radix2 fexp32 ZnearestE x.
Notation R_of := (B2R 24 128).
Notation fin x := (is_finite 24 128 x = true).
Definition BIG : R := bpow radix2 100.

Global Instance fexp32_valid : Valid_exp fexp32.
Proof. apply FLT_exp_valid. unfold Prec_gt_0. lia. Qed.

Lemma BIG_format : generic_format radix2 fexp32 BIG.
Proof. apply generic_format_bpow. unfold FLT_exp. lia. Qed.

Lemma rnd_abs_le_BIG y : Rabs y <= BIG -> Rabs (rnd y) <= BIG.
Proof. intros H. apply abs_round_le_generic; [apply fexp32_valid | apply valid_rnd_N | apply BIG_format | exact H]. Qed.

Lemma no_overflow y : Rabs y <= BIG ->
  Rlt_bool (Rabs (round radix2 (SpecFloat.fexp 24 128) (round_mode mode_NE) y)) (bpow radix2 128) = true.
Proof.
  intros H. apply Rlt_bool_true. change (SpecFloat.fexp 24 128) with fexp32. cbn [round_mode].
  apply Rle_lt_trans with BIG; [apply (rnd_abs_le_BIG y H)|]. unfold BIG. apply bpow_lt. lia.
Qed.

Lemma fadd_ok a b : fin a -> fin b -> Rabs (R_of a + R_of b) <= BIG ->
  fin (fadd a b) /\ R_of (fadd a b) = rnd (R_of a + R_of b).
Proof.
  intros Ha Hb H. pose proof (Bplus_correct 24 128 eq_refl eq_refl binop_nan_pl32 mode_NE a b Ha Hb) as C.
  rewrite (no_overflow _ H) in C. destruct C as (C1 & C2 & _). split; [exact C2 | exact C1].
Qed.

Lemma fsub_ok a b : fin a -> fin b -> Rabs (R_of a - R_of b) <= BIG ->
  fin (fsub a b) /\ R_of (fsub a b) = rnd (R_of a - R_of b).
Proof.
  intros Ha Hb H. pose proof (Bminus_correct 24 128 eq_refl eq_refl binop_nan_pl32 mode_NE a b Ha Hb) as C.
  rewrite (no_overflow _ H) in C. destruct C as (C1 & C2 & _). split; [exact C2 | exact C1].
Qed.

Lemma fmul_ok a b : fin a -> fin b -> Rabs (R_of a * R_of b) <= BIG ->
  fin (fmul a b) /\ R_of (fmul a b) = rnd (R_of a * R_of b).
Proof.
  intros Ha Hb H. pose proof (Bmult_correct 24 128 eq_refl eq_refl binop_nan_pl32 mode_NE a b) as C.
  rewrite (no_overflow _ H) in C. destruct C as (C1 & C2 & _). split; [|exact C1].
  unfold fmul, b32_mult. rewrite C2, Ha, Hb. reflexivity.
Qed.

Lemma fdiv_ok a b : fin a -> R_of b <> 0 -> Rabs (R_of a / R_of b) <= BIG ->
  fin (fdiv a b) /\ R_of (fdiv a b) = rnd (R_of a / R_of b).
Proof.
  intros Ha Hb H. pose proof (Bdiv_correct 24 128 eq_refl eq_refl binop_nan_pl32 mode_NE a b Hb) as C.
  rewrite (no_overflow _ H) in C. destruct C as (C1 & C2 & _). split; [|exact C1].
  unfold fdiv, b32_div. rewrite C2. exact Ha.
Qed.

Lemma f32_of_Z_ok k : Rabs (IZR k) <= BIG -> fin (f32_of_Z k) /\ R_of (f32_of_Z k) = rnd (IZR k).
Proof.
  intros H. pose proof (binary_normalize_correct 24 128 eq_refl eq_refl mode_NE k 0 false) as C.
  assert (E : F2R (Float radix2 k 0) = IZR k) by (unfold F2R; simpl; ring).
  rewrite E in C. rewrite (no_overflow _ H) in C. destruct C as (C1 & C2 & _). split; [exact C2 | exact C1].
Qed.

Lemma f_half_ok : fin f_half /\ R_of f_half = / 2.
Proof. split; [reflexivity|]. unfold f_half. vm_compute. lra. Qed.

Lemma floorZ_ok x : fin x -> floorZ x = Some (Zfloor (R_of x)).
Proof.
  destruct x as [s|s|s pl H|s m e H]; intros F; try discriminate.
  - cbn. change 0 with (IZR 0). rewrite Zfloor_IZR. reflexivity.
  - unfold floorZ, B2R. f_equal.
    set (v := if s then Z.neg m else Z.pos m).
    assert (Ev : cond_Zopp s (Z.pos m) = v) by (destruct s; reflexivity). rewrite Ev.
    destruct (0 <=? e)%Z eqn:Ee.
    + apply Z.leb_le in Ee. unfold F2R. cbn [Fnum Fexp].
      rewrite <- IZR_Zpower by exact Ee. rewrite <- mult_IZR. rewrite Zfloor_IZR. reflexivity.
    + apply Z.leb_gt in Ee. unfold F2R. cbn [Fnum Fexp].
      replace e with (- (- e))%Z by lia. rewrite bpow_opp. rewrite <- IZR_Zpower by lia.
      change (radix_val radix2) with 2%Z.
      replace (- - - e)%Z with (- e)%Z by lia.
      change (IZR v * / IZR (2 ^ (- e))) with (IZR v / IZR (2 ^ (- e))).
      rewrite Zfloor_div; [reflexivity|]. apply Z.pow_nonzero; lia.
Qed.

(** * Rounding-error facts for binary32 (round to nearest even, gradual underflow) *)
Definition u32r : R := / 16777216.          (* 2^-24 *)
Definition eta32 : R := / 2 * bpow radix2 (-149).

Lemma u32r_eq : / 2 * bpow radix2 (-24 + 1) = u32r.
Proof. unfold u32r. change (bpow radix2 (-24 + 1)) with (/ 8388608). lra. Qed.

Lemma format_B2R (x : f32) : generic_format radix2 fexp32 (R_of x).
Proof. exact (generic_format_B2R 24 128 x). Qed.

(** any real: relative error u plus absolute error eta (one of them is zero) *)
Lemma rnd_gen y : exists e eta, Rabs e <= u32r /\ Rabs eta <= eta32 /\ rnd y = y * (1 + e) + eta.
Proof.
  destruct (error_N_FLT radix2 (-149) 24 ltac:(lia) (fun x => negb (Z.even x)) y) as (e & eta & He & Heta & _ & H).
  exists e, eta. split; [rewrite <- u32r_eq; exact He|]. split; [exact Heta | exact H].
Qed.

(** normal range: relative error only *)
Lemma rnd_rel y : bpow radix2 (-126) <= Rabs y -> exists e, Rabs e <= u32r /\ rnd y = y * (1 + e).
Proof.
  intros H. destruct (relative_error_N_FLT_ex radix2 (-149) 24 ltac:(lia) (fun x => negb (Z.even x)) y H) as (e & He & E).
  exists e. split; [rewrite <- u32r_eq; exact He | exact E].
Qed.

(** sum of two floats: relative error only (a subnormal sum is exact) *)
Lemma rnd_sum a b : generic_format radix2 fexp32 a -> generic_format radix2 fexp32 b ->
  exists e, Rabs e <= u32r /\ rnd (a + b) = (a + b) * (1 + e).
Proof.
  intros Fa Fb. destruct (Rle_or_lt (Rabs (a + b)) (bpow radix2 (24 + -149))) as [Hs|Hl].
  - exists 0. split; [rewrite Rabs_R0; unfold u32r; lra|].
    unfold rnd. rewrite round_generic; [ring | apply valid_rnd_N | apply FLT_format_plus_small; first [assumption | unfold Prec_gt_0; lia | exact Hs]].
  - apply rnd_rel. left. eapply Rle_lt_trans; [|exact Hl]. apply bpow_le. lia.
Qed.

Lemma rnd_0 : rnd 0 = 0.
Proof. unfold rnd. apply round_0. apply valid_rnd_N. Qed.

(** an integer, or zero *)
Lemma rnd_int k : exists e, Rabs e <= u32r /\ rnd (IZR k) = IZR k * (1 + e).
Proof.
  destruct (Z.eq_dec k 0) as [->|Hk].
  - exists 0. rewrite rnd_0. split; [rewrite Rabs_R0; unfold u32r; lra | ring].
  - apply rnd_rel. apply Rle_trans with 1.
    + change 1 with (bpow radix2 0). apply bpow_le. lia.
    + rewrite <- abs_IZR. apply IZR_le. lia.
Qed.

(** * Real-number core of the error analysis *)

Definition tiny : R := / 10000000000000000000000000000000000000000.   (* 1e-40 *)

Lemma eta32_tiny : 0 < eta32 <= tiny.
Proof.
  unfold eta32, tiny. change (bpow radix2 (-149)) with (/ 713623846352979940529142984724747568191373312). lra.
Qed.

Lemma u32r_pos : 0 < u32r. Proof. unfold u32r. lra. Qed.

Lemma Rabs_1pe e : Rabs e <= u32r -> / 2 <= 1 + e <= 2.
Proof. intros H. apply Rabs_le_inv in H. unfold u32r in H. lra. Qed.

(** products of (1+e) factors *)
Lemma step_bound a e al ep :
  Rabs (a - 1) <= al -> Rabs e <= ep -> Rabs (a * (1 + e) - 1) <= al * (1 + ep) + ep.
Proof.
  intros Ha He. replace (a * (1 + e) - 1) with ((a - 1) * (1 + e) + e) by ring.
  eapply Rle_trans; [apply Rabs_triang|]. apply Rplus_le_compat; [|exact He].
  rewrite Rabs_mult. apply Rmult_le_compat; try apply Rabs_pos; [exact Ha|].
  eapply Rle_trans; [apply Rabs_triang|]. rewrite Rabs_R1. lra.
Qed.

Lemma inv_1pe e : Rabs e <= u32r -> exists e', / (1 + e) = 1 + e' /\ Rabs e' <= 1.0000001 * u32r.
Proof.
  intros H. pose proof (Rabs_1pe e H) as P. apply Rabs_le_inv in H. unfold u32r in *.
  exists (- e / (1 + e)). split; [field; lra|].
  apply Rabs_le. split.
  - apply Rmult_le_reg_r with (1 + e); [lra|]. unfold Rdiv. rewrite Rmult_assoc, Rinv_l, Rmult_1_r by lra. lra.
  - apply Rmult_le_reg_r with (1 + e); [lra|]. unfold Rdiv. rewrite Rmult_assoc, Rinv_l, Rmult_1_r by lra. lra.
Qed.

Lemma prod5_bound e1 e2 e3 e4 e5 :
  Rabs e1 <= u32r -> Rabs e2 <= u32r -> Rabs e3 <= u32r -> Rabs e4 <= u32r -> Rabs e5 <= u32r ->
  Rabs ((1 + e1) * (1 + e2) * (1 + e3) * (1 + e4) * (1 + e5) - 1) <= 5.00001 * u32r.
Proof.
  intros H1 H2 H3 H4 H5.
  assert (B1 : Rabs ((1 + e1) - 1) <= u32r) by (replace (1 + e1 - 1) with e1 by ring; exact H1).
  pose proof (step_bound _ e2 _ _ B1 H2) as B2.
  pose proof (step_bound _ e3 _ _ B2 H3) as B3.
  pose proof (step_bound _ e4 _ _ B3 H4) as B4.
  pose proof (step_bound _ e5 _ _ B4 H5) as B5.
  eapply Rle_trans; [exact B5|]. unfold u32r. lra.
Qed.

Lemma prod3_div_bound e1 e2 e3 eM :
  Rabs e1 <= u32r -> Rabs e2 <= u32r -> Rabs e3 <= u32r -> Rabs eM <= u32r ->
  Rabs ((1 + e1) * (1 + e2) * (1 + e3) / (1 + eM) - 1) <= 4.00001 * u32r.
Proof.
  intros H1 H2 H3 HM. destruct (inv_1pe eM HM) as (e' & E & He').
  unfold Rdiv. rewrite E.
  assert (B1 : Rabs ((1 + e1) - 1) <= u32r) by (replace (1 + e1 - 1) with e1 by ring; exact H1).
  pose proof (step_bound _ e2 _ _ B1 H2) as B2.
  pose proof (step_bound _ e3 _ _ B2 H3) as B3.
  pose proof (step_bound _ e' _ _ B3 He') as B4.
  eapply Rle_trans; [exact B4|]. unfold u32r. lra.
Qed.

(** Encoder side.  t = x - min in [0, rg]; the five roundings (x-min, int->float, max_q/range,
    the product, +0.5) with relative errors e1 eM e3 e4 e5 and one underflow term eta (product). *)
Lemma quant_core t M rg e1 eM e3 e4 e5 eta :
  0 <= t -> 0 < rg -> 1 <= M ->
  Rabs e1 <= u32r -> Rabs eM <= u32r -> Rabs e3 <= u32r -> Rabs e4 <= u32r -> Rabs e5 <= u32r ->
  Rabs eta <= eta32 ->
  let s := t * M / rg in
  let v3 := ((t * (1 + e1)) * (M * (1 + eM) / rg * (1 + e3)) * (1 + e4) + eta + / 2) * (1 + e5) in
  0 < v3 /\ Rabs (v3 - (s + / 2)) <= 5.00001 * u32r * s + u32r / 2 + 2 * tiny.
Proof.
  intros Ht Hrg HM H1 HMe H3 H4 H5 Heta s v3.
  pose proof eta32_tiny as [Et0 Et1].
  assert (Hs : 0 <= s).
  { unfold s. apply Rmult_le_pos; [apply Rmult_le_pos; lra | left; apply Rinv_0_lt_compat; lra]. }
  set (P4 := (1 + e1) * (1 + eM) * (1 + e3) * (1 + e4)).
  set (P5 := P4 * (1 + e5)).
  assert (E : v3 = s * P5 + (eta + / 2) * (1 + e5)) by (unfold v3, s, P5, P4; field; lra).
  pose proof (Rabs_1pe e1 H1) as Q1. pose proof (Rabs_1pe eM HMe) as Q2. pose proof (Rabs_1pe e3 H3) as Q3.
  pose proof (Rabs_1pe e4 H4) as Q4. pose proof (Rabs_1pe e5 H5) as He5.
  assert (HP4 : 0 < P4) by (unfold P4; repeat apply Rmult_lt_0_compat; lra).
  assert (HP5 : Rabs (P5 - 1) <= 5.00001 * / 16777216) by (unfold P5, P4; exact (prod5_bound e1 eM e3 e4 e5 H1 HMe H3 H4 H5)).
  unfold u32r in *.
  assert (Heta' : - tiny <= eta <= tiny) by (apply Rabs_le_inv in Heta; lra).
  split.
  - unfold v3. apply Rmult_lt_0_compat; [|lra].
    assert (0 <= t * (1 + e1) * (M * (1 + eM) / rg * (1 + e3)) * (1 + e4)).
    { replace (t * (1 + e1) * (M * (1 + eM) / rg * (1 + e3)) * (1 + e4)) with (s * P4) by (unfold s, P4; field; lra).
      apply Rmult_le_pos; lra. }
    unfold tiny in *. lra.
  - rewrite E. replace (s * P5 + (eta + / 2) * (1 + e5) - (s + / 2)) with (s * (P5 - 1) + (eta * (1 + e5) + e5 / 2)) by field.
    eapply Rle_trans; [apply Rabs_triang|].
    rewrite Rabs_mult, (Rabs_pos_eq s Hs).
    assert (Rabs (eta * (1 + e5) + e5 / 2) <= 2 * tiny + / 16777216 / 2).
    { eapply Rle_trans; [apply Rabs_triang|]. apply Rplus_le_compat.
      - rewrite Rabs_mult, (Rmult_comm 2 tiny). apply Rmult_le_compat; try apply Rabs_pos.
        + apply Rabs_le; lra.
        + rewrite Rabs_pos_eq; lra.
      - unfold Rdiv. rewrite Rabs_mult, (Rabs_pos_eq (/ 2)) by lra. apply Rmult_le_compat_r; lra. }
    assert (s * Rabs (P5 - 1) <= s * (5.00001 * / 16777216)) by (apply Rmult_le_compat_l; assumption).
    lra.
Qed.

(** Decoder side and combination.  k (the stored integer, as a real) is within 1/2 + c of the ideal
    s = t*M/rg; the decoder's five roundings (int->float of max_q: eM again, range/max_q, int->float
    of k, the product, + min). *)
Lemma requant_core x mn t M rg k A eM e6 e8 e9 e10 :
  t = x - mn -> 0 <= t <= rg * (1 + 1.0001 * u32r) -> 0 < rg -> 1 <= M -> 0 <= k ->
  Rabs x <= A -> rg <= A ->
  Rabs eM <= u32r -> Rabs e6 <= u32r -> Rabs e8 <= u32r -> Rabs e9 <= u32r -> Rabs e10 <= u32r ->
  Rabs (k - t * M / rg) <= / 2 + (5.00001 * u32r * (t * M / rg) + u32r / 2 + 2 * tiny) ->
  let d1 := k * (1 + e8) * (rg / (M * (1 + eM)) * (1 + e6)) * (1 + e9) in
  let d2 := (d1 + mn) * (1 + e10) in
  Rabs (d2 - x) <= rg / (2 * M) + 14 * (A * u32r) /\
  (forall sl, 0 <= sl -> k <= M + sl -> sl * (rg / M) <= 8.00002 * u32r * rg ->
     mn - 14 * (A * u32r) <= d2 <= mn + rg + 14 * (A * u32r)).
Proof.
  intros Et Ht Hrg HM Hk HxA HrA HMe H6 H8 H9 H10 Hks d1 d2.
  set (s := t * M / rg) in *. set (step := rg / M).
  assert (Hstep : 0 < step <= rg).
  { unfold step. split; [apply Rdiv_lt_0_compat; lra|].
    apply Rmult_le_reg_r with M; [lra|]. unfold Rdiv. rewrite Rmult_assoc, Rinv_l, Rmult_1_r by lra.
    rewrite <- (Rmult_1_r rg) at 1. apply Rmult_le_compat_l; lra. }
  assert (Hs : 0 <= s).
  { unfold s. apply Rmult_le_pos; [apply Rmult_le_pos; lra | left; apply Rinv_0_lt_compat; lra]. }
  assert (Ess : s * step = t) by (unfold s, step; field; lra).
  set (KS := k * step).
  assert (HKS : 0 <= KS) by (unfold KS; apply Rmult_le_pos; lra).
  assert (HQ : Rabs ((1 + e8) * (1 + e6) * (1 + e9) / (1 + eM) - 1) <= 4.00001 * / 16777216)
    by exact (prod3_div_bound e8 e6 e9 eM H8 H6 H9 HMe).
  unfold u32r in *.
  (* (k - s) * step = KS - t *)
  assert (H1 : Rabs (KS - t) <= step / 2 + 5.00001 * / 16777216 * t + / 16777216 / 2 * step + 2 * tiny * step).
  { replace (KS - t) with ((k - s) * step) by (unfold KS; rewrite <- Ess; ring).
    rewrite Rabs_mult, (Rabs_pos_eq step) by lra.
    eapply Rle_trans; [apply Rmult_le_compat_r; [lra | exact Hks]|].
    rewrite <- Ess. right. field. }
  set (Q := (1 + e8) * (1 + e6) * (1 + e9) / (1 + eM)).
  fold Q in HQ.
  assert (Ed1 : d1 = KS * Q).
  { unfold d1, KS, Q, step. field. split; [|lra]. apply Rabs_le_inv in HMe. lra. }
  assert (H2 : Rabs (d1 - KS) <= 4.00001 * / 16777216 * KS).
  { rewrite Ed1. replace (KS * Q - KS) with (KS * (Q - 1)) by ring.
    rewrite Rabs_mult, (Rabs_pos_eq KS HKS). rewrite (Rmult_comm _ KS). apply Rmult_le_compat_l; assumption. }
  apply Rabs_le_inv in H1. apply Rabs_le_inv in H2. apply Rabs_le_inv in HxA.
  assert (Ht' : tiny = / 10000000000000000000000000000000000000000) by reflexivity.
  assert (B3 : Rabs (d1 + mn) <= A + 4.00001 * / 16777216 * KS
               + (step / 2 + 5.00001 * / 16777216 * t + / 16777216 / 2 * step + 2 * tiny * step)).
  { apply Rabs_le. rewrite Ht' in *. lra. }
  assert (H3 : Rabs (d2 - (d1 + mn)) <= / 16777216 * Rabs (d1 + mn)).
  { unfold d2. replace ((d1 + mn) * (1 + e10) - (d1 + mn)) with ((d1 + mn) * e10) by ring.
    rewrite Rabs_mult, Rmult_comm. apply Rmult_le_compat_r; [apply Rabs_pos | exact H10]. }
  assert (H3' : Rabs (d2 - (d1 + mn)) <= / 16777216 * (A + 4.00001 * / 16777216 * KS
               + (step / 2 + 5.00001 * / 16777216 * t + / 16777216 / 2 * step + 2 * tiny * step))).
  { eapply Rle_trans; [exact H3|]. apply Rmult_le_compat_l; [lra | exact B3]. }
  apply Rabs_le_inv in H3'.
  replace (rg / (2 * M)) with (step / 2) by (unfold step; field; lra).
  split.
  - apply Rabs_le. rewrite Ht' in *. clearbody KS step s d1 d2. clear Ed1 B3 H3 Ess Hks HQ.
    lra.
  - intros sl Hsl Hksl Hslstep. fold step in Hslstep.
    assert (HKSu : KS <= rg + sl * step).
    { unfold KS. replace (rg + sl * step) with ((M + sl) * step) by (unfold step; field; lra).
      apply Rmult_le_compat_r; lra. }
    rewrite Ht' in *. clearbody KS step s d1 d2. clear Ed1 B3 H3 Ess Hks HQ.
    split; lra.
Qed.

(** * The float32 statement *)

Lemma BIG_val : BIG = 1267650600228229401496703205376.
Proof. unfold BIG. change (bpow radix2 100) with (IZR (Z.pow_pos 2 100)). f_equal. Qed.

Lemma IZR_maxq b : quantization_valid b = true -> 1 <= IZR (2 ^ b - 1) <= 1073741823.
Proof.
  intros V. destruct (valid_max_q b V) as (_ & _ & H).
  assert (2 ^ b <= 2 ^ 30)%Z.
  { apply Z.pow_le_mono_r; [lia|]. unfold quantization_valid in V. apply andb_true_iff in V. destruct V as [_ V]. apply Z.leb_le in V. lia. }
  change (2 ^ 30)%Z with 1073741824%Z in *.
  split; apply IZR_le; lia.
Qed.

Lemma mul_bounds a b la ha lb hb :
  0 <= la -> la <= a <= ha -> 0 <= lb -> lb <= b <= hb -> la * lb <= a * b <= ha * hb.
Proof. intros. split; apply Rmult_le_compat; lra. Qed.

Definition quant_slack (b : Z) : Z := 2 ^ (b - 21).   (* 0 for b <= 20 *)

Theorem requant_error_f32 (o r x : f32) (b : Z) :
  quantization_valid b = true ->
  fin o -> fin r -> fin x ->
  / 1048576 <= R_of r <= 1073741824 ->           (* 2^-20 <= range <= 2^30 *)
  Rabs (R_of o) <= 1073741824 ->
  R_of o <= R_of x -> R_of x - R_of o <= R_of r * (1 + 1.0001 * u32r) ->
  exists k d,
    quant_f o r b x = Ok k /\ requant_f o r b x = Ok d /\ fin d /\
    (0 <= k < 2 ^ 31)%Z /\
    Rabs (IZR k - (R_of x - R_of o) * IZR (2 ^ b - 1) / R_of r)
      <= / 2 + (5.00001 * u32r * ((R_of x - R_of o) * IZR (2 ^ b - 1) / R_of r) + u32r / 2 + 2 * tiny) /\
    (k <= 2 ^ b - 1 + quant_slack b)%Z /\
    Rabs (R_of d - R_of x) <= R_of r / (2 * IZR (2 ^ b - 1))
       + 14 * ulp radix2 fexp32 (Rmax (Rabs (R_of x)) (Rmax (Rabs (R_of o)) (R_of r))) /\
    R_of o - 14 * ulp radix2 fexp32 (Rmax (Rabs (R_of x)) (Rmax (Rabs (R_of o)) (R_of r)))
      <= R_of d <=
    R_of o + R_of r + 14 * ulp radix2 fexp32 (Rmax (Rabs (R_of x)) (Rmax (Rabs (R_of o)) (R_of r))).
Proof.
  intros V Fo Fr Fx Hr Ho Hx1 Hx2.
  destruct (valid_max_q b V) as (G & I & HmZ).
  pose proof (IZR_maxq b V) as HM.
  set (Mz := (2 ^ b - 1)%Z) in *. set (M := IZR Mz) in *.
  set (Rx := R_of x) in *. set (Ro := R_of o) in *. set (Rr := R_of r) in *.
  set (t := Rx - Ro).
  assert (Ht : 0 <= t <= Rr * (1 + 1.0001 * u32r)) by (unfold t; lra).
  assert (Ht' : 0 <= t <= 1073741889) by (unfold u32r in Ht; lra).
  pose proof BIG_val as BV.
  (* 1. x - o *)
  assert (B1 : Rabs (Rx - Ro) <= BIG) by (rewrite BV; fold t; apply Rabs_le; lra).
  destruct (fsub_ok x o Fx Fo B1) as [F1 E1]. fold Rx Ro in E1.
  destruct (rnd_sum Rx (- Ro) (format_B2R x) (generic_format_opp _ _ _ (format_B2R o))) as (e1 & He1 & Ee1).
  change (Rx + - Ro) with t in Ee1. fold t in E1. rewrite Ee1 in E1.
  pose proof (Rabs_1pe e1 He1) as Pe1.
  (* 2. float(max_q) *)
  assert (B2 : Rabs (IZR Mz) <= BIG) by (rewrite BV; fold M; apply Rabs_le; lra).
  destruct (f32_of_Z_ok Mz B2) as [F2 E2]. destruct (rnd_int Mz) as (eM & HeM & EeM). fold M in EeM, E2. rewrite EeM in E2.
  pose proof (Rabs_1pe eM HeM) as PeM.
  set (fM := f32_of_Z Mz) in *.
  (* 3. inverse_delta = float(max_q) / range *)
  assert (Rr0 : Rr <> 0) by lra.
  assert (HfM : / 2 <= M * (1 + eM) <= 2147483646).
  { pose proof (mul_bounds M (1 + eM) 1 1073741823 (/ 2) 2 ltac:(lra) HM ltac:(lra) PeM). lra. }
  assert (Q3 : / 4294967296 <= R_of fM / Rr <= 2251799813685248).
  { rewrite E2. split.
    - apply Rmult_le_reg_r with Rr; [lra|]. unfold Rdiv. rewrite Rmult_assoc, Rinv_l, Rmult_1_r by lra. lra.
    - apply Rmult_le_reg_r with Rr; [lra|]. unfold Rdiv. rewrite Rmult_assoc, Rinv_l, Rmult_1_r by lra. lra. }
  assert (B3 : Rabs (R_of fM / Rr) <= BIG) by (rewrite BV; apply Rabs_le; lra).
  destruct (fdiv_ok fM r F2 Rr0 B3) as [F3 E3]. fold Rr in E3.
  destruct (rnd_rel (R_of fM / Rr)) as (e3 & He3 & Ee3).
  { rewrite Rabs_pos_eq by lra. apply Rle_trans with (/ 4294967296); [|lra].
    change (bpow radix2 (-126)) with (/ IZR (Z.pow_pos 2 126)). apply Rinv_le; [lra|]. apply IZR_le. vm_compute. discriminate. }
  rewrite Ee3 in E3. pose proof (Rabs_1pe e3 He3) as Pe3.
  set (inv := fdiv fM r) in *.
  (* 4. the product *)
  set (v1 := fsub x o) in *.
  assert (Q4 : 0 <= R_of v1 * R_of inv <= 19342813113834066795298816).
  { rewrite E1, E3.
    pose proof (mul_bounds t (1 + e1) 0 1073741889 (/ 2) 2 ltac:(lra) Ht' ltac:(lra) Pe1) as W1.
    pose proof (mul_bounds (R_of fM / Rr) (1 + e3) 0 2251799813685248 (/ 2) 2 ltac:(lra) ltac:(lra) ltac:(lra) Pe3) as W2.
    pose proof (mul_bounds (t * (1 + e1)) (R_of fM / Rr * (1 + e3)) 0 (1073741889 * 2) 0 (2251799813685248 * 2)
                  ltac:(lra) ltac:(lra) ltac:(lra) ltac:(lra)) as W3.
    lra. }
  assert (B4 : Rabs (R_of v1 * R_of inv) <= BIG) by (rewrite BV; apply Rabs_le; lra).
  destruct (fmul_ok v1 inv F1 F3 B4) as [F4 E4].
  destruct (rnd_gen (R_of v1 * R_of inv)) as (e4 & eta & He4 & Heta & Ee4). rewrite Ee4 in E4.
  pose proof (Rabs_1pe e4 He4) as Pe4.
  set (v2 := fmul v1 inv) in *.
  (* 5. + 0.5 *)
  destruct f_half_ok as [Fh Eh].
  pose proof eta32_tiny as [Et0 Et1].
  assert (Q5 : - 1 <= R_of v2 + R_of f_half <= 1237940039285380274899124224).
  { rewrite E4, Eh. apply Rabs_le_inv in Heta. unfold tiny in Et1.
    pose proof (mul_bounds (R_of v1 * R_of inv) (1 + e4) 0 19342813113834066795298816 (/ 2) 2 ltac:(lra) Q4 ltac:(lra) Pe4).
    lra. }
  assert (B5 : Rabs (R_of v2 + R_of f_half) <= BIG) by (rewrite BV; apply Rabs_le; lra).
  destruct (fadd_ok v2 f_half F4 Fh B5) as [F5 E5].
  destruct (rnd_sum (R_of v2) (R_of f_half) (format_B2R v2) (format_B2R f_half)) as (e5 & He5 & Ee5).
  rewrite Ee5 in E5. rewrite E4, E1, E3, E2, Eh in E5.
  set (v3 := fadd v2 f_half) in *.
  (* the encoder-side analysis *)
  destruct (quant_core t M Rr e1 eM e3 e4 e5 eta (proj1 Ht) ltac:(lra) ltac:(lra) He1 HeM He3 He4 He5 Heta) as [V3pos V3err].
  rewrite <- E5 in V3pos, V3err.
  set (s := t * M / Rr) in *.
  assert (Hs : 0 <= s <= M * (1 + 1.0001 * u32r)).
  { unfold s. split.
    - apply Rmult_le_pos; [apply Rmult_le_pos; lra | left; apply Rinv_0_lt_compat; lra].
    - apply Rmult_le_reg_r with Rr; [lra|]. unfold Rdiv. rewrite Rmult_assoc, Rinv_l, Rmult_1_r by lra.
      replace (M * (1 + 1.0001 * u32r) * Rr) with (Rr * (1 + 1.0001 * u32r) * M) by ring.
      apply Rmult_le_compat_r; lra. }
  unfold u32r in Hs.
  set (k := Zfloor (R_of v3)).
  assert (Hk1 : IZR k <= R_of v3) by apply Zfloor_lb.
  assert (Hk2 : R_of v3 < IZR k + 1) by apply Zfloor_ub.
  apply Rabs_le_inv in V3err. unfold u32r, tiny in V3err.
  assert (Hk0 : (0 <= k)%Z).
  { apply le_IZR. assert (-1 < IZR k) by lra. apply lt_IZR in H. apply IZR_le. lia. }
  assert (Hk31 : (k < 2 ^ 31)%Z).
  { apply lt_IZR. change (2 ^ 31)%Z with 2147483648%Z. lra. }
  assert (Hki : in_i32 k = true).
  { unfold in_i32. apply andb_true_iff. split; [apply Z.leb_le | apply Z.ltb_lt]; change (2 ^ 31)%Z with 2147483648%Z in *; lia. }
  assert (Qf : quant_f o r b x = Ok k).
  { unfold quant_f. rewrite G. cbn [rbind]. unfold quantize_float, quantizer_init.
    fold Mz fM inv v1 v2 v3. rewrite (floorZ_ok v3 F5). fold k. rewrite Hki. reflexivity. }
  assert (Hkerr : Rabs (IZR k - s) <= / 2 + (5.00001 * u32r * s + u32r / 2 + 2 * tiny)).
  { unfold u32r, tiny. apply Rabs_le. lra. }
  (* decoder *)
  (* 8. delta = range / float(max_q) *)
  assert (fM0 : R_of fM <> 0) by (rewrite E2; apply Rgt_not_eq; lra).
  assert (Q8 : / 4503599627370496 <= Rr / R_of fM <= 4294967296).
  { rewrite E2. assert (0 < M * (1 + eM)) by lra. split.
    - apply Rmult_le_reg_r with (M * (1 + eM)); [lra|]. unfold Rdiv. rewrite Rmult_assoc, Rinv_l, Rmult_1_r by lra. lra.
    - apply Rmult_le_reg_r with (M * (1 + eM)); [lra|]. unfold Rdiv. rewrite Rmult_assoc, Rinv_l, Rmult_1_r by lra. lra. }
  assert (B8 : Rabs (Rr / R_of fM) <= BIG) by (rewrite BV; apply Rabs_le; lra).
  destruct (fdiv_ok r fM Fr fM0 B8) as [F8 E8]. fold Rr in E8.
  destruct (rnd_rel (Rr / R_of fM)) as (e6 & He6 & Ee6).
  { rewrite Rabs_pos_eq by lra. apply Rle_trans with (/ 4503599627370496); [|lra].
    change (bpow radix2 (-126)) with (/ IZR (Z.pow_pos 2 126)). apply Rinv_le; [lra|]. apply IZR_le. vm_compute. discriminate. }
  rewrite Ee6 in E8. pose proof (Rabs_1pe e6 He6) as Pe6.
  set (delta := fdiv r fM) in *.
  (* 9. float(k) *)
  assert (HkR : 0 <= IZR k <= 2147483648) by (split; [apply IZR_le; lia | lra]).
  assert (B9 : Rabs (IZR k) <= BIG) by (rewrite BV; apply Rabs_le; lra).
  destruct (f32_of_Z_ok k B9) as [F9 E9]. destruct (rnd_int k) as (e8 & He8 & Ee8). rewrite Ee8 in E9.
  pose proof (Rabs_1pe e8 He8) as Pe8.
  set (fk := f32_of_Z k) in *.
  (* 10. float(k) * delta *)
  assert (Q10 : 0 <= R_of fk * R_of delta <= 73786976294838206464).
  { rewrite E9, E8. split.
    - apply Rmult_le_pos; [apply Rmult_le_pos; lra | apply Rmult_le_pos; lra].
    - apply Rle_trans with ((2147483648 * 2) * (4294967296 * 2)); [|lra].
      apply Rmult_le_compat; try lra.
      + apply Rmult_le_pos; lra.
      + apply Rmult_le_pos; lra.
      + apply Rmult_le_compat; lra.
      + apply Rmult_le_compat; lra. }
  assert (B10 : Rabs (R_of fk * R_of delta) <= BIG) by (rewrite BV; apply Rabs_le; lra).
  destruct (fmul_ok fk delta F9 F8 B10) as [F10 E10].
  assert (X10 : exists e9, Rabs e9 <= u32r /\ rnd (R_of fk * R_of delta) = R_of fk * R_of delta * (1 + e9)).
  { destruct (Z.eq_dec k 0) as [K0|K0].
    - exists 0. rewrite E9, K0. rewrite !Rmult_0_l, rnd_0. split; [rewrite Rabs_R0; unfold u32r; lra | ring].
    - apply rnd_rel. rewrite Rabs_pos_eq by lra.
      assert (1 <= IZR k) by (apply IZR_le; lia).
      apply Rle_trans with (/ 2 * (/ 4503599627370496 * / 2)).
      + change (bpow radix2 (-126)) with (/ IZR (Z.pow_pos 2 126)).
        replace (/ 2 * (/ 4503599627370496 * / 2)) with (/ 18014398509481984) by field.
        apply Rinv_le; [lra|]. apply IZR_le. vm_compute. discriminate.
      + rewrite E9, E8.
        assert (/ 2 <= IZR k * (1 + e8)) by (apply Rle_trans with (1 * / 2); [lra | apply Rmult_le_compat; lra]).
        assert (/ 4503599627370496 * / 2 <= Rr / R_of fM * (1 + e6)) by (apply Rmult_le_compat; lra).
        apply Rmult_le_compat; lra. }
  destruct X10 as (e9 & He9 & Ee9). rewrite Ee9 in E10. pose proof (Rabs_1pe e9 He9) as Pe9.
  set (d1 := fmul fk delta) in *.
  (* 11. + origin *)
  assert (Q11 : Rabs (R_of d1 + Ro) <= 295147905179352825856 + 1073741824).
  { rewrite E10. eapply Rle_trans; [apply Rabs_triang|]. apply Rplus_le_compat; [|exact Ho].
    rewrite Rabs_pos_eq by (apply Rmult_le_pos; lra).
    pose proof (mul_bounds (R_of fk * R_of delta) (1 + e9) 0 73786976294838206464 (/ 2) 2 ltac:(lra) Q10 ltac:(lra) Pe9). lra. }
  assert (B11 : Rabs (R_of d1 + Ro) <= BIG) by (rewrite BV; lra).
  destruct (fadd_ok d1 o F10 Fo B11) as [F11 E11]. fold Ro in E11.
  destruct (rnd_sum (R_of d1) Ro (format_B2R d1) (format_B2R o)) as (e10 & He10 & Ee10).
  rewrite Ee10 in E11. rewrite E10, E9, E8, E2 in E11.
  set (d := fadd d1 o) in *.
  assert (Rq : requant_f o r b x = Ok d).
  { unfold requant_f. rewrite Qf. cbn [rbind]. rewrite (seq_read_u32 k Hki).
    unfold deq_f. rewrite I. cbn [rbind]. unfold dequantizer_init.
    replace (Mz <=? 0)%Z with false by (symmetry; apply Z.leb_gt; lia). cbn [rbind].
    unfold dequantize_float. reflexivity. }
  exists k, d. split; [exact Qf|]. split; [exact Rq|]. split; [exact F11|]. split; [split; assumption|].
  split; [exact Hkerr|].
  (* the integer bound with slack, and slack * step in ulps *)
  assert (Hb : (1 <= b <= 30)%Z).
  { unfold quantization_valid in V. apply andb_true_iff in V. destruct V as [V1 V2]. apply Z.leb_le in V1, V2. lia. }
  assert (Hslack : (k <= Mz + quant_slack b)%Z /\ IZR (quant_slack b) * (Rr / M) <= 8.00002 * u32r * Rr /\ 0 <= IZR (quant_slack b)).
  { unfold quant_slack. destruct (Z_le_gt_dec b 20) as [Hb20|Hb21].
    - rewrite Z.pow_neg_r by lia. rewrite Rmult_0_l. split; [|split; [unfold u32r; lra | lra]].
      assert (HM20 : M <= 1048575).
      { unfold M, Mz. apply IZR_le. assert (2 ^ b <= 2 ^ 20)%Z by (apply Z.pow_le_mono_r; lia). change (2 ^ 20)%Z with 1048576%Z in *. lia. }
      assert (IZR k < M + 1) by lra. unfold M in H. rewrite <- plus_IZR in H. apply lt_IZR in H. lia.
    - set (X := (2 ^ (b - 21))%Z).
      assert (HX : (1 <= X)%Z) by (unfold X; assert (2 ^ 0 <= 2 ^ (b - 21))%Z by (apply Z.pow_le_mono_r; lia); simpl in *; lia).
      assert (EM : (Mz = 2097152 * X - 1)%Z).
      { unfold Mz, X. replace b with (21 + (b - 21))%Z at 1 by lia. rewrite Z.pow_add_r by lia. reflexivity. }
      assert (EMr : M = 2097152 * IZR X - 1) by (unfold M; rewrite EM, minus_IZR, mult_IZR; reflexivity).
      assert (HXr : 1 <= IZR X) by (apply IZR_le; exact HX).
      split; [|split; [|lra]].
      + assert (IZR k < M + IZR X + 1) by lra.
        unfold M in H. rewrite <- !plus_IZR in H. apply lt_IZR in H. lia.
      + unfold u32r. unfold Rdiv. rewrite <- Rmult_assoc, (Rmult_comm (IZR X) Rr), Rmult_assoc, (Rmult_comm _ Rr).
        apply Rmult_le_compat_l; [lra|].
        apply Rmult_le_reg_r with M; [lra|]. rewrite Rmult_assoc, Rinv_l, Rmult_1_r by lra. lra. }
  destruct Hslack as (Hsl1 & Hsl2 & Hsl3).
  split; [exact Hsl1|].
  set (A := Rmax (Rabs Rx) (Rmax (Rabs Ro) Rr)).
  assert (HxA : Rabs Rx <= A) by apply Rmax_l.
  assert (HrA : Rr <= A) by (unfold A; eapply Rle_trans; [apply Rmax_r | apply Rmax_r]).
  pose proof (requant_core Rx Ro t M Rr (IZR k) A eM e6 e8 e9 e10 eq_refl Ht ltac:(lra) ltac:(lra) ltac:(lra)
                HxA HrA HeM He6 He8 He9 He10 Hkerr) as Hfin.
  cbv zeta in Hfin. rewrite <- E11 in Hfin. destruct Hfin as [Hfin Hbox].
  assert (HuA : A * u32r < ulp radix2 fexp32 A).
  { replace u32r with (bpow radix2 (-24)) by (unfold u32r; change (bpow radix2 (-24)) with (/ 16777216); reflexivity).
    rewrite <- (Rabs_pos_eq A) at 1 by (apply Rle_trans with Rr; lra).
    exact (@ulp_FLT_gt radix2 (-149) 24 ltac:(unfold Prec_gt_0; lia) A). }
  split.
  - eapply Rle_trans; [exact Hfin|]. apply Rplus_le_compat_l. lra.
  - assert (HkM : IZR k <= M + IZR (quant_slack b)) by (unfold M; rewrite <- plus_IZR; apply IZR_le; exact Hsl1).
    pose proof (Hbox (IZR (quant_slack b)) Hsl3 HkM Hsl2) as [Hb1 Hb2]. lra.
Qed.

(** * ComputeParameters puts every value in the (float-level) box *)

Lemma compare_fin a b : fin a -> fin b -> b32_compare a b = Some (Rcompare (R_of a) (R_of b)).
Proof. intros Ha Hb. exact (Bcompare_correct 24 128 a b Ha Hb). Qed.

Lemma f_gt_true a b : fin a -> fin b -> f_gt a b = true -> R_of b < R_of a.
Proof.
  intros Ha Hb. unfold f_gt. rewrite (compare_fin a b Ha Hb).
  destruct (Rcompare_spec (R_of a) (R_of b)); try discriminate. intros _. assumption.
Qed.
Lemma f_gt_false a b : fin a -> fin b -> f_gt a b = false -> R_of a <= R_of b.
Proof.
  intros Ha Hb. unfold f_gt. rewrite (compare_fin a b Ha Hb).
  destruct (Rcompare_spec (R_of a) (R_of b)); try discriminate; intros _; lra.
Qed.
Lemma f_lt_true a b : fin a -> fin b -> f_lt a b = true -> R_of a < R_of b.
Proof.
  intros Ha Hb. unfold f_lt. rewrite (compare_fin a b Ha Hb).
  destruct (Rcompare_spec (R_of a) (R_of b)); try discriminate. intros _. assumption.
Qed.
Lemma f_lt_false a b : fin a -> fin b -> f_lt a b = false -> R_of b <= R_of a.
Proof.
  intros Ha Hb. unfold f_lt. rewrite (compare_fin a b Ha Hb).
  destruct (Rcompare_spec (R_of a) (R_of b)); try discriminate; intros _; lra.
Qed.
Lemma fin_not_nan a : fin a -> f_isnan a = false.
Proof. destruct a; try discriminate; reflexivity. Qed.
Lemma fin_not_inf a : fin a -> f_isinf a = false.
Proof. destruct a; try discriminate; reflexivity. Qed.

Definition okv (v : f32) : Prop := fin v /\ Rabs (R_of v) <= bpow radix2 99.

(** componentwise: mins <= row <= maxs *)
Fixpoint in_box (mins maxs row : list f32) : Prop :=
  match mins, maxs, row with
  | mn :: mins', mx :: maxs', v :: row' => (R_of mn <= R_of v <= R_of mx) /\ in_box mins' maxs' row'
  | [], [], [] => True
  | _, _, _ => False
  end.
(** componentwise: (mins', maxs') is at least as wide as (mins, maxs) *)
Fixpoint wider (mins maxs mins' maxs' : list f32) : Prop :=
  match mins, maxs, mins', maxs' with
  | a :: m1, b :: m2, a' :: m3, b' :: m4 => (R_of a' <= R_of a /\ R_of b <= R_of b') /\ wider m1 m2 m3 m4
  | [], [], [], [] => True
  | _, _, _, _ => False
  end.

Lemma in_box_wider mins maxs mins' maxs' row :
  wider mins maxs mins' maxs' -> in_box mins maxs row -> in_box mins' maxs' row.
Proof.
  revert maxs mins' maxs' row. induction mins as [|a m1 IH]; intros [|b m2] [|a' m3] [|b' m4] [|v row]; cbn; try tauto.
  intros [[H1 H2] W] [[H3 H4] B]. split; [lra|]. eapply IH; eassumption.
Qed.

Lemma wider_trans m1 x1 m2 x2 m3 x3 : wider m1 x1 m2 x2 -> wider m2 x2 m3 x3 -> wider m1 x1 m3 x3.
Proof.
  revert x1 m2 x2 m3 x3. induction m1 as [|a m1 IH]; intros [|b x1] [|a2 m2] [|b2 x2] [|a3 m3] [|b3 x3]; cbn; try tauto.
  intros [[H1 H2] W] [[H3 H4] W']. split; [lra|]. eapply IH; eassumption.
Qed.

Lemma scan_row_spec mins maxs row :
  Forall okv mins -> Forall okv maxs -> Forall okv row ->
  length mins = length row -> length maxs = length row ->
  exists mins' maxs', scan_row mins maxs row = Ok (mins', maxs') /\
    Forall okv mins' /\ Forall okv maxs' /\ length mins' = length row /\ length maxs' = length row /\
    in_box mins' maxs' row /\ wider mins maxs mins' maxs'.
Proof.
  revert maxs row. induction mins as [|mn mins IH]; intros [|mx maxs] [|v row] Fm Fx Fr L1 L2; try discriminate.
  - exists [], []. cbn. repeat split; constructor.
  - inversion Fm as [|? ? [Fmn Bmn] Fm']; inversion Fx as [|? ? [Fmx Bmx] Fx']; inversion Fr as [|? ? [Fv Bv] Fr']; subst.
    cbn in L1, L2. destruct (IH maxs row Fm' Fx' Fr' ltac:(lia) ltac:(lia)) as (a & b & E & Fa & Fb & La & Lb & Bx & W).
    cbn [scan_row]. rewrite (fin_not_nan v Fv), E. cbn [rbind].
    eexists _, _. split; [reflexivity|].
    assert (Omn : okv (if f_gt mn v then v else mn)) by (destruct (f_gt mn v); split; assumption).
    assert (Omx : okv (if f_lt mx v then v else mx)) by (destruct (f_lt mx v); split; assumption).
    split; [constructor; assumption|]. split; [constructor; assumption|].
    split; [cbn; lia|]. split; [cbn; lia|].
    assert (R_of (if f_gt mn v then v else mn) <= R_of v /\ R_of (if f_gt mn v then v else mn) <= R_of mn).
    { destruct (f_gt mn v) eqn:G; [apply f_gt_true in G | apply f_gt_false in G]; try assumption; lra. }
    assert (R_of v <= R_of (if f_lt mx v then v else mx) /\ R_of mx <= R_of (if f_lt mx v then v else mx)).
    { destruct (f_lt mx v) eqn:G; [apply f_lt_true in G | apply f_lt_false in G]; try assumption; lra. }
    set (mn1 := if f_gt mn v then v else mn) in *. set (mx1 := if f_lt mx v then v else mx) in *.
    destruct H as [Ha1 Ha2]. destruct H0 as [Hb1 Hb2].
    split; cbn [in_box wider]; (split; [split; assumption | assumption]).
Qed.

Lemma scan_rows_spec mins maxs rows :
  Forall okv mins -> Forall okv maxs -> length maxs = length mins ->
  Forall (fun row => Forall okv row /\ length row = length mins) rows ->
  exists mins' maxs', scan_rows mins maxs rows = Ok (mins', maxs') /\
    Forall okv mins' /\ Forall okv maxs' /\ length mins' = length mins /\ length maxs' = length mins /\
    wider mins maxs mins' maxs' /\ Forall (in_box mins' maxs') rows.
Proof.
  revert mins maxs. induction rows as [|row rows IH]; intros mins maxs Fm Fx L FR.
  - exists mins, maxs. cbn. repeat split; try assumption; try constructor.
    clear -L. revert maxs L. induction mins as [|a m IH]; intros [|b x] L; try discriminate; cbn; [trivial|].
    split; [lra|]. apply IH. cbn in L. lia.
  - inversion FR as [|? ? [Fr Lr] FR']; subst.
    destruct (scan_row_spec mins maxs row Fm Fx Fr ltac:(lia) ltac:(lia)) as (a & b & E & Fa & Fb & La & Lb & Bx & W).
    assert (FR'' : Forall (fun row0 => Forall okv row0 /\ length row0 = length a) rows).
    { eapply Forall_impl; [|exact FR']. cbn. intros r0 [H1 H2]. split; [assumption|lia]. }
    destruct (IH a b Fa Fb ltac:(lia) FR'') as (a' & b' & E' & Fa' & Fb' & La' & Lb' & W' & Bs).
    exists a', b'. cbn [scan_rows]. rewrite E. cbn [rbind]. split; [exact E'|].
    repeat split; try assumption; try lia.
    + eapply wider_trans; eassumption.
    + constructor; [|assumption]. eapply in_box_wider; eassumption.
Qed.

Lemma fsub_okv a b : okv a -> okv b -> fin (fsub a b) /\ R_of (fsub a b) = rnd (R_of a - R_of b).
Proof.
  intros [Fa Ba] [Fb Bb]. apply fsub_ok; try assumption.
  unfold BIG. replace (bpow radix2 100) with (bpow radix2 99 + bpow radix2 99).
  - unfold Rminus. eapply Rle_trans; [apply Rabs_triang|]. rewrite Rabs_Ropp. lra.
  - change 100%Z with (99 + 1)%Z. rewrite bpow_plus. change (bpow radix2 1) with 2. lra.
Qed.

Lemma rnd_le a b : a <= b -> rnd a <= rnd b.
Proof. intros H. unfold rnd. apply round_le; [apply fexp32_valid | apply valid_rnd_N | exact H]. Qed.

Lemma f_eq_true a b : fin a -> fin b -> f_eq a b = true -> R_of a = R_of b.
Proof.
  intros Ha Hb. unfold f_eq. rewrite (compare_fin a b Ha Hb).
  destruct (Rcompare_spec (R_of a) (R_of b)); try discriminate. intros _. assumption.
Qed.
Lemma f_eq_false a b : fin a -> fin b -> f_eq a b = false -> R_of a <> R_of b.
Proof.
  intros Ha Hb. unfold f_eq. rewrite (compare_fin a b Ha Hb).
  destruct (Rcompare_spec (R_of a) (R_of b)); try discriminate; intros _; lra.
Qed.

Lemma range_of_spec rg mins maxs :
  fin rg -> Forall okv mins -> Forall okv maxs -> length maxs = length mins ->
  exists rg', range_of rg mins maxs = Ok rg' /\ fin rg' /\ R_of rg <= R_of rg' /\
    forall c mn mx, nth_error mins c = Some mn -> nth_error maxs c = Some mx -> R_of (fsub mx mn) <= R_of rg'.
Proof.
  revert rg maxs. induction mins as [|mn mins IH]; intros rg [|mx maxs] Frg Fm Fx L; try discriminate.
  - exists rg. cbn. repeat split; try assumption; try lra. intros [|c] ? ? H; discriminate.
  - inversion Fm as [|? ? Omn Fm']; inversion Fx as [|? ? Omx Fx']; subst.
    cbn [range_of]. rewrite (fin_not_nan mn (proj1 Omn)), (fin_not_inf mn (proj1 Omn)),
      (fin_not_nan mx (proj1 Omx)), (fin_not_inf mx (proj1 Omx)). cbn [orb].
    destruct (fsub_okv mx mn Omx Omn) as [Fd Ed].
    set (dif := fsub mx mn) in *.
    set (rg1 := if f_gt dif rg then dif else rg).
    assert (Frg1 : fin rg1) by (unfold rg1; destruct (f_gt dif rg); assumption).
    assert (Hrg1 : R_of rg <= R_of rg1 /\ R_of dif <= R_of rg1).
    { unfold rg1. destruct (f_gt dif rg) eqn:G; [apply f_gt_true in G | apply f_gt_false in G]; try assumption; lra. }
    cbn in L. destruct (IH rg1 maxs Frg1 Fm' Fx' ltac:(lia)) as (rg' & E & Frg' & Hle & Hall).
    exists rg'. split; [exact E|]. split; [exact Frg'|]. split; [lra|].
    intros [|c] mn0 mx0 H1 H2; cbn [nth_error] in *.
    + inversion H1; inversion H2; subst. fold dif. lra.
    + eapply Hall; eassumption.
Qed.

Lemma in_box_nth mins maxs row c x :
  in_box mins maxs row -> nth_error row c = Some x ->
  exists o mx, nth_error mins c = Some o /\ nth_error maxs c = Some mx /\ R_of o <= R_of x <= R_of mx.
Proof.
  revert maxs row c. induction mins as [|mn mins IH]; intros [|mx maxs] [|v row] c; cbn [in_box]; try tauto.
  - intros _ H. destruct c; discriminate.
  - intros [B1 B2] H. destruct c as [|c]; cbn [nth_error] in *.
    + inversion H; subst. exists mn, mx. auto.
    + eapply IH; eassumption.
Qed.

Lemma in_box_refl row : in_box row row row.
Proof. induction row as [|v row IH]; cbn; [trivial|]. split; [lra | exact IH]. Qed.

Theorem compute_parameters_box rows q p :
  Forall (Forall okv) rows ->
  (exists nc, Forall (fun row => length row = nc) rows) ->
  compute_parameters rows q = Ok p ->
  quantization_valid (qp_bits p) = true /\ qp_bits p = q /\
  fin (qp_range p) /\ 0 < R_of (qp_range p) /\
  forall row, In row rows -> forall c x, nth_error row c = Some x ->
    exists o, nth_error (qp_min p) c = Some o /\ okv o /\
              R_of o <= R_of x /\ R_of (fsub x o) <= R_of (qp_range p).
Proof.
  intros FO [nc FL] H. unfold compute_parameters in H.
  destruct (quantization_valid q) eqn:V; [|discriminate].
  destruct rows as [|r0 rest]; [discriminate|].
  inversion FO as [|? ? F0 FO']; inversion FL as [|? ? L0 FL']; subst.
  assert (FR : Forall (fun row => Forall okv row /\ length row = length r0) rest).
  { apply Forall_forall. intros row Hin. rewrite Forall_forall in FO', FL'. split; [apply FO'; exact Hin | apply FL'; exact Hin]. }
  destruct (scan_rows_spec r0 r0 rest F0 F0 eq_refl FR) as (mins & maxs & E & Fm & Fx & Lm & Lx & W & Bs).
  rewrite E in H. cbn [rbind] in H.
  assert (Fz : fin f_zero) by reflexivity.
  destruct (range_of_spec f_zero mins maxs Fz Fm Fx ltac:(lia)) as (rg & Er & Frg & Hrg0 & Hall).
  rewrite Er in H. cbn [rbind] in H. inversion H; subst p; clear H. cbn [qp_bits qp_min qp_range].
  assert (Rz : R_of f_zero = 0) by reflexivity. rewrite Rz in Hrg0.
  assert (F1 : fin f_one) by reflexivity.
  assert (R1 : R_of f_one = 1) by (unfold f_one; vm_compute; lra).
  set (rgf := if f_eq rg f_zero then f_one else rg).
  assert (Hrgf : fin rgf /\ 0 < R_of rgf /\ R_of rg <= R_of rgf).
  { unfold rgf. destruct (f_eq rg f_zero) eqn:Eq.
    - apply f_eq_true in Eq; try assumption. rewrite Rz in Eq. rewrite R1. repeat split; try assumption; lra.
    - apply f_eq_false in Eq; try assumption. rewrite Rz in Eq. repeat split; try assumption; lra. }
  destruct Hrgf as (Frgf & Prgf & Lrgf).
  split; [exact V|]. split; [reflexivity|]. split; [exact Frgf|]. split; [exact Prgf|].
  intros row Hin c x Hx.
  assert (Bx : in_box mins maxs row).
  { destruct Hin as [<-|Hin].
    - eapply in_box_wider; [exact W | apply in_box_refl].
    - rewrite Forall_forall in Bs. apply Bs. exact Hin. }
  destruct (in_box_nth mins maxs row c x Bx Hx) as (o & mx & Ho & Hmx & Hb).
  exists o. split; [exact Ho|].
  assert (Oo : okv o) by (rewrite Forall_forall in Fm; apply Fm; eapply nth_error_In; exact Ho).
  assert (Omx : okv mx) by (rewrite Forall_forall in Fx; apply Fx; eapply nth_error_In; exact Hmx).
  assert (Ox : okv x).
  { assert (Forall okv row).
    { destruct Hin as [<-|Hin]; [exact F0|]. rewrite Forall_forall in FO'. apply FO'. exact Hin. }
    rewrite Forall_forall in H. apply H. eapply nth_error_In. exact Hx. }
  split; [exact Oo|]. split; [lra|].
  destruct (fsub_okv x o Ox Oo) as [_ E1]. destruct (fsub_okv mx o Omx Oo) as [_ E2].
  pose proof (Hall c o mx Ho Hmx) as H3. rewrite E2 in H3. rewrite E1.
  eapply Rle_trans; [apply rnd_le with (b := R_of mx - R_of o); lra|]. lra.
Qed.

(** float-level box => the real-number hypothesis of [requant_error_f32] *)
Lemma fsub_le_range x o r :
  okv x -> okv o -> R_of o <= R_of x -> 0 < R_of r -> R_of (fsub x o) <= R_of r ->
  R_of x - R_of o <= R_of r * (1 + 1.0001 * u32r).
Proof.
  intros Ox Oo Hle Hr H. destruct (fsub_okv x o Ox Oo) as [_ E]. rewrite E in H.
  destruct (rnd_sum (R_of x) (- R_of o) (format_B2R x) (generic_format_opp _ _ _ (format_B2R o))) as (e & He & Ee).
  change (R_of x + - R_of o) with (R_of x - R_of o) in Ee. rewrite Ee in H.
  set (t := R_of x - R_of o) in *. assert (0 <= t) by (unfold t; lra).
  apply Rabs_le_inv in He. unfold u32r in *.
  assert (t * (1 - / 16777216) <= t * (1 + e)) by (apply Rmult_le_compat_l; lra).
  lra.
Qed.

(** * The statements restated by Properties_C04.v *)

Definition ulp32 (y : R) : R := ulp radix2 fexp32 y.
Definition mag3 (x o r : f32) : R := Rmax (Rabs (R_of x)) (Rmax (Rabs (R_of o)) (R_of r)).
(** magnitude window of the property: 2^-20 (9.5e-7) <= range <= 2^30 (1.07e9), |origin| <= 2^30 *)
Definition in_window (o r : f32) : Prop :=
  fin o /\ fin r /\ / 1048576 <= R_of r <= 1073741824 /\ Rabs (R_of o) <= 1073741824.
Definition half_step (r : f32) (b : Z) : R := R_of r / (2 * IZR (2 ^ b - 1)).
Definition ideal_index (o r x : f32) (b : Z) : R := (R_of x - R_of o) * IZR (2 ^ b - 1) / R_of r.

Theorem quant_error_f32_floatbox o r x b :
  quantization_valid b = true -> in_window o r -> fin x ->
  R_of o <= R_of x -> R_of x - R_of o <= R_of r * (1 + 1.0001 * u32r) ->
  exists d, requant_f o r b x = Ok d /\ fin d /\
    Rabs (R_of d - R_of x) <= half_step r b + 14 * ulp32 (mag3 x o r) /\
    R_of o - 14 * ulp32 (mag3 x o r) <= R_of d <= R_of o + R_of r + 14 * ulp32 (mag3 x o r).
Proof.
  intros V (Fo & Fr & Hr & Ho) Fx H1 H2.
  destruct (requant_error_f32 o r x b V Fo Fr Fx Hr Ho H1 H2) as (k & d & _ & Rq & Fd & _ & _ & _ & Herr & Hbox).
  exists d. repeat split; try assumption; apply Hbox.
Qed.

Lemma simple_box o r x : 0 <= R_of r -> R_of x <= R_of o + R_of r -> R_of x - R_of o <= R_of r * (1 + 1.0001 * u32r).
Proof. intros. unfold u32r. lra. Qed.

Theorem quant_error_f32 o r x b :
  quantization_valid b = true -> in_window o r -> fin x ->
  R_of o <= R_of x <= R_of o + R_of r ->
  exists d, requant_f o r b x = Ok d /\ fin d /\
    Rabs (R_of d - R_of x) <= half_step r b + 14 * ulp32 (mag3 x o r).
Proof.
  intros V W Fx [H1 H2]. assert (0 <= R_of r) by (destruct W as (_ & _ & ? & _); lra).
  destruct (quant_error_f32_floatbox o r x b V W Fx H1 (simple_box o r x H H2)) as (d & Rq & Fd & He & _).
  exists d. auto.
Qed.

Theorem decoded_in_box o r x b :
  quantization_valid b = true -> in_window o r -> fin x ->
  R_of o <= R_of x <= R_of o + R_of r ->
  exists d, requant_f o r b x = Ok d /\
    R_of o - 14 * ulp32 (mag3 x o r) <= R_of d <= R_of o + R_of r + 14 * ulp32 (mag3 x o r).
Proof.
  intros V W Fx [H1 H2]. assert (0 <= R_of r) by (destruct W as (_ & _ & ? & _); lra).
  destruct (quant_error_f32_floatbox o r x b V W Fx H1 (simple_box o r x H H2)) as (d & Rq & Fd & _ & Hb).
  exists d. auto.
Qed.

(** the stored integer: no undefined conversion, inside 0..2^b-1 (+ slack 2^(b-21), i.e. 0 for b <= 20),
    within 1/2 + (5.00001 s + 1/2) 2^-24 + 2e-40 of the ideal real index s *)
Theorem quant_in_range o r x b :
  quantization_valid b = true -> in_window o r -> fin x ->
  R_of o <= R_of x <= R_of o + R_of r ->
  exists k, quant_f o r b x = Ok k /\ (0 <= k <= 2 ^ b - 1 + quant_slack b)%Z /\
    Rabs (IZR k - ideal_index o r x b) <= / 2 + (5.00001 * u32r * ideal_index o r x b + u32r / 2 + 2 * tiny).
Proof.
  intros V (Fo & Fr & Hr & Ho) Fx [H1 H2].
  destruct (requant_error_f32 o r x b V Fo Fr Fx Hr Ho H1 (simple_box o r x ltac:(lra) H2))
    as (k & d & Qf & _ & _ & [Hk0 _] & Hid & Hsl & _).
  exists k. repeat split; assumption.
Qed.

(** Automatic range: every value of the attribute ComputeParameters was run on meets the bound. *)
Theorem quant_error_auto rows q p :
  Forall (Forall okv) rows -> (exists nc, Forall (fun row => length row = nc) rows) ->
  compute_parameters rows q = Ok p ->
  / 1048576 <= R_of (qp_range p) <= 1073741824 ->
  Forall (fun o => Rabs (R_of o) <= 1073741824) (qp_min p) ->
  forall row, In row rows -> forall c x, nth_error row c = Some x ->
  exists o d, nth_error (qp_min p) c = Some o /\
    requant_f o (qp_range p) (qp_bits p) x = Ok d /\ fin d /\
    Rabs (R_of d - R_of x) <= half_step (qp_range p) (qp_bits p) + 14 * ulp32 (mag3 x o (qp_range p)) /\
    R_of o - 14 * ulp32 (mag3 x o (qp_range p)) <= R_of d
      <= R_of o + R_of (qp_range p) + 14 * ulp32 (mag3 x o (qp_range p)).
Proof.
  intros FO FL CP Hr Hm row Hin c x Hx.
  destruct (compute_parameters_box rows q p FO FL CP) as (V & _ & Fr & Pr & Hall).
  destruct (Hall row Hin c x Hx) as (o & Ho & Oo & Hle & Hfs).
  assert (Ox : okv x).
  { rewrite Forall_forall in FO. specialize (FO row Hin). rewrite Forall_forall in FO. apply FO. eapply nth_error_In; exact Hx. }
  assert (Hob : Rabs (R_of o) <= 1073741824) by (rewrite Forall_forall in Hm; apply Hm; eapply nth_error_In; exact Ho).
  pose proof (fsub_le_range x o (qp_range p) Ox Oo Hle Pr Hfs) as Hbox.
  destruct (quant_error_f32_floatbox o (qp_range p) x (qp_bits p) V
              (conj (proj1 Oo) (conj Fr (conj Hr Hob))) (proj1 Ox) Hle Hbox) as (d & Rq & Fd & He & Hb).
  exists o, d. repeat split; try assumption; apply Hb.
Qed.

(** C12 on_grid with the bounds on the index: inside the window and the box, the decoded value is
    fl( fl( fl(k) * fl(r / fl(2^b-1)) ) + o ) for the stored integer k, and 0 <= k <= 2^b-1+slack. *)
Theorem on_grid o r x b :
  quantization_valid b = true -> in_window o r -> fin x ->
  R_of o <= R_of x <= R_of o + R_of r ->
  exists k d, requant_f o r b x = Ok d /\ quant_f o r b x = Ok k /\
    (0 <= k <= 2 ^ b - 1 + quant_slack b)%Z /\
    d = fadd (fmul (f32_of_Z k) (fdiv r (f32_of_Z (2 ^ b - 1)))) o.
Proof.
  intros V (Fo & Fr & Hr & Ho) Fx [H1 H2].
  destruct (requant_error_f32 o r x b V Fo Fr Fx Hr Ho H1 (simple_box o r x ltac:(lra) H2))
    as (k & d & Qf & Rq & _ & [Hk0 _] & _ & Hsl & _).
  destruct (on_grid_struct o r b x d V Rq) as (k' & Qf' & _ & Ed).
  rewrite Qf in Qf'. inversion Qf'; subst k'.
  exists k, d. repeat split; assumption.
Qed.
