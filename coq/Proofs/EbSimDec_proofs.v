(** EBSIM, decoder side: the Edgebreaker connectivity DECODER (Model/Edgebreaker.v) run on a SCRIPT - a list of corners
    [Q] of an encoder-side corner table (c2v, opp) in DECODER order, the symbols [Y] in decoder order - reproduces the table
    up to [eb_iso].

    Part 2  decoder step lemmas in FORWARD form ([dec_step_E], [dec_step_RL], and the whole loop iteration
            [dec_step_E_full], [dec_step_RL_full]): under the stated preconditions the step is [Ok] of an explicitly given
            state (faces created, Opposite, vertices, active stack).  (The lemmas of Edgebreaker_*_proofs.v are backward:
            "if the step is Ok then ...".)
    Part 3  the simulation relation [SIM k d] between the script and the decoder state after [k] symbols
            (decoder face j = face of corner Q[j], decoder corner 3j+r = Next^r(Q[j])):
              s_nf   k faces created
              s_opp  Opposite of a created corner = the image of the encoder's Opposite if that face is created, else -1
              s_vtx  the decoder never identifies two different encoder vertices
            and two generic preservation lemmas [opp_step] (a new face glued along some of its edges) and [vtx_step]
            (each new corner copies the decoder vertex of an old corner with the same encoder vertex, or is fresh), from
            which [SIM_E], [SIM_RL] follow.  The converse vertex clause (same encoder vertex => same decoder vertex, at the
            end) is NOT carried: it follows from the decoder's own fan invariant [FI] (SwingLeft keeps the vertex) and
            s_opp ([sr_step], [sr_reach]) with the one-fan property of the encoder's table.
            [sym_loop_sim]: the symbol loop along a script of E/R/L symbols; [sim_iso]: SIM at the end gives [eb_iso];
            [dec_roundtrip_noS_boundary]: eb_core accepts and returns an isomorphic table (no S, no split events, every
            start configuration on a boundary). *)
From Coq Require Import ZArith List Bool Lia ZifyBool Arith PeanoNat.
From Draco Require Import Model.CornerTable Model.EbEncoder Proofs.CornerTable_proofs Proofs.EbEncoder_proofs.
From Draco Require Model.Edgebreaker Proofs.Edgebreaker_proofs Proofs.Edgebreaker_fan_proofs Proofs.Edgebreaker_oob_proofs Proofs.Edgebreaker_compact_proofs.
Import ListNotations.
Module D := Draco.Model.Edgebreaker.
Module DP := Draco.Proofs.Edgebreaker_proofs.
Module DF := Draco.Proofs.Edgebreaker_fan_proofs.
Module DC := Draco.Proofs.Edgebreaker_compact_proofs.

Local Open Scope Z_scope.
Ltac dproj := cbn [D.c2v D.copp D.vc D.nv D.hole D.stack D.splits D.events D.invalid D.nfaces D.inits D.with_c2v D.with_opp D.with_vc
                   D.with_vc_nv D.with_hole D.with_stack D.with_splits D.with_events D.with_invalid D.with_nfaces D.with_inits fst snd] in *.

Ltac rng_true :=
  match goal with
  | |- context[D.in_rng ?x ?n] =>
    let H := fresh "R" in assert (H : D.in_rng x n = true) by (apply DP.in_rng_true; dproj; lia); rewrite H; clear H
  end.

Ltac neq_m1 :=
  match goal with
  | |- context[?x =? -1] => let H := fresh "R" in assert (H : (x =? -1) = false) by (dproj; lia); rewrite H; clear H
  end.
Ltac gt_false :=
  match goal with
  | |- context[?x >? ?y] => let H := fresh "R" in assert (H : (x >? y) = false) by (dproj; lia); rewrite H; clear H
  end.
Ltac fwd := repeat first [ progress cbn [D.bind] | progress dproj | rng_true | neq_m1 | gt_false ].

Local Close Scope Z_scope.

(** * Part 2: decoder step lemmas, forward form *)
Section DecSteps.
Local Open Scope Z_scope.
Variables NC maxv : Z.

Lemma dec_step_E : forall s f, DP.W NC maxv f s -> 3 * f + 3 <= NC -> D.nv s + 3 <= maxv ->
  exists s', D.step_E NC maxv s f = D.Ok s' /\
    D.copp s' = D.copp s /\
    D.c2v s' = D.upd (D.upd (D.upd (D.c2v s) (3 * f) (D.nv s)) (3 * f + 1) (D.nv s + 1)) (3 * f + 2) (D.nv s + 2) /\
    D.nv s' = D.nv s + 3 /\ D.stack s' = 3 * f :: D.stack s /\
    D.events s' = D.events s /\ D.splits s' = D.splits s /\ D.invalid s' = D.invalid s /\ D.nfaces s' = D.nfaces s /\
    D.inits s' = D.inits s /\ D.hole s' = D.hole s.
Proof.
  intros s f HW HN HM. pose proof (DP.w_nf _ _ _ _ HW) as Hnf. pose proof (DP.w_nv _ _ _ _ HW) as Hnv.
  unfold D.step_E, D.add_vertex, D.map_cv, D.set_lmc. dproj. cbn [D.bind].
  fwd.
  eexists. split; [reflexivity|]. dproj. repeat split; try reflexivity.
  - f_equal. lia.
  - lia.
Qed.

Lemma dec_step_RL : forall (is_r : bool) s f a rest, DP.W NC maxv f s -> 3 * f + 3 <= NC -> D.nv s + 1 <= maxv ->
  D.stack s = a :: rest -> D.copp s a = -1 ->
  let oc := if is_r then 3 * f + 2 else 3 * f + 1 in
  let cl := if is_r then 3 * f + 1 else 3 * f in
  let cr := if is_r then 3 * f else 3 * f + 2 in
  exists s', D.step_RL NC maxv is_r s f = D.Ok s' /\
    D.copp s' = D.upd (D.upd (D.copp s) oc a) a oc /\
    D.c2v s' = D.upd (D.upd (D.upd (D.c2v s) oc (D.nv s)) cr (D.c2v s (D.prev_c a))) cl (D.c2v s (D.next_c a)) /\
    D.nv s' = D.nv s + 1 /\ D.stack s' = 3 * f :: rest /\
    D.events s' = D.events s /\ D.splits s' = D.splits s /\ D.invalid s' = D.invalid s /\ D.nfaces s' = D.nfaces s /\
    D.inits s' = D.inits s /\ D.hole s' = D.hole s.
Proof.
  intros is_r s f a rest HW HN HM Est Hfree oc cl cr.
  pose proof (DP.w_nf _ _ _ _ HW) as Hnf. pose proof (DP.w_nv _ _ _ _ HW) as Hnv.
  pose proof (DP.w_stack _ _ _ _ HW) as Hst. rewrite Est in Hst. inversion Hst as [|? ? Ha Hrest]; subst.
  pose proof (DP.next_c_rng a f Ha) as Hna. pose proof (DP.prev_c_rng a f Ha) as Hpa.
  pose proof (DP.w_vr _ _ _ _ HW _ Hpa) as Hvr. pose proof (DP.w_vr _ _ _ _ HW _ Hna) as Hvl.
  unfold D.step_RL. rewrite Est. unfold D.all_free, D.opposite. fwd. rewrite Hfree. cbn [Z.eqb negb].
  subst oc cl cr. destruct is_r.
  - unfold D.set_opps, D.set_opp, D.add_vertex, D.map_cv, D.set_lmc, D.vertex. fwd.
    rewrite !(DP.upd_other _ _ _ _ (D.prev_c a)) by lia. fwd.
    rewrite !(DP.upd_other _ _ _ _ (D.next_c a)) by lia. fwd.
    eexists. split; [reflexivity|]. dproj. repeat split; reflexivity.
  - unfold D.set_opps, D.set_opp, D.add_vertex, D.map_cv, D.set_lmc, D.vertex. fwd.
    rewrite !(DP.upd_other _ _ _ _ (D.prev_c a)) by lia. fwd.
    rewrite !(DP.upd_other _ _ _ _ (D.next_c a)) by lia. fwd.
    eexists. split; [reflexivity|]. dproj. repeat split; reflexivity.
Qed.

Variable rm : bool.

(** one whole iteration of the symbol loop (no pending split events) *)
Lemma dec_step_E_full : forall s sid ns, DP.W NC maxv (D.nfaces s) s -> 3 * D.nfaces s + 3 <= NC -> D.nv s + 3 <= maxv ->
  D.events s = [] ->
  let f := D.nfaces s in
  exists s', D.step NC maxv rm ns s sid 7 = D.Ok s' /\
    D.copp s' = D.copp s /\
    D.c2v s' = D.upd (D.upd (D.upd (D.c2v s) (3 * f) (D.nv s)) (3 * f + 1) (D.nv s + 1)) (3 * f + 2) (D.nv s + 2) /\
    D.nv s' = D.nv s + 3 /\ D.stack s' = 3 * f :: D.stack s /\
    D.events s' = [] /\ D.splits s' = D.splits s /\ D.invalid s' = D.invalid s /\ D.nfaces s' = f + 1.
Proof.
  intros s sid ns HW HN HM Ev f.
  destruct (dec_step_E (D.with_nfaces s (f + 1)) f) as (s1 & E1 & A1 & A2 & A3 & A4 & A5 & A6 & A7 & A8 & _); dproj; auto.
  { apply DP.W_with_nfaces. auto. }
  unfold D.step. change (7 =? D.TOPOLOGY_C) with false. change (7 =? D.TOPOLOGY_R) with false. change (7 =? D.TOPOLOGY_L) with false.
  change (7 =? D.TOPOLOGY_S) with false. change (7 =? D.TOPOLOGY_E) with true. cbn [orb]. fold f. rewrite E1. cbn [D.bind].
  rewrite A5, Ev. cbn [D.split_loop]. eexists. split; [reflexivity|]. dproj. repeat split; auto.
Qed.

Lemma dec_step_RL_full : forall (is_r : bool) s sid ns a rest, DP.W NC maxv (D.nfaces s) s -> 3 * D.nfaces s + 3 <= NC -> D.nv s + 1 <= maxv ->
  D.events s = [] -> D.stack s = a :: rest -> D.copp s a = -1 ->
  let f := D.nfaces s in
  let oc := if is_r then 3 * f + 2 else 3 * f + 1 in
  let cl := if is_r then 3 * f + 1 else 3 * f in
  let cr := if is_r then 3 * f else 3 * f + 2 in
  exists s', D.step NC maxv rm ns s sid (if is_r then 5 else 3) = D.Ok s' /\
    D.copp s' = D.upd (D.upd (D.copp s) oc a) a oc /\
    D.c2v s' = D.upd (D.upd (D.upd (D.c2v s) oc (D.nv s)) cr (D.c2v s (D.prev_c a))) cl (D.c2v s (D.next_c a)) /\
    D.nv s' = D.nv s + 1 /\ D.stack s' = 3 * f :: rest /\
    D.events s' = [] /\ D.splits s' = D.splits s /\ D.invalid s' = D.invalid s /\ D.nfaces s' = f + 1.
Proof.
  intros is_r s sid ns a rest HW HN HM Ev Est Fa f oc cl cr.
  destruct (dec_step_RL is_r (D.with_nfaces s (f + 1)) f a rest) as (s1 & E1 & A1 & A2 & A3 & A4 & A5 & A6 & A7 & A8 & _); dproj; auto.
  { apply DP.W_with_nfaces. auto. }
  unfold D.step. fold f.
  assert (X : D.step_RL NC maxv ((if is_r then 5 else 3) =? D.TOPOLOGY_R) (D.with_nfaces s (f + 1)) f = D.Ok s1).
  { destruct is_r; exact E1. }
  destruct is_r.
  - change (5 =? D.TOPOLOGY_C) with false. change (5 =? D.TOPOLOGY_R) with true. cbn [orb].
    change (5 =? D.TOPOLOGY_R) with true in X. rewrite X. cbn [D.bind].
    rewrite A5, Ev. cbn [D.split_loop]. eexists. split; [reflexivity|]. dproj. repeat split; auto.
  - change (3 =? D.TOPOLOGY_C) with false. change (3 =? D.TOPOLOGY_R) with false. change (3 =? D.TOPOLOGY_L) with true. cbn [orb].
    change (3 =? D.TOPOLOGY_R) with false in X. rewrite X. cbn [D.bind].
    rewrite A5, Ev. cbn [D.split_loop]. eexists. split; [reflexivity|]. dproj. repeat split; auto.
Qed.

Lemma dec_step_C : forall s f a rest, DP.W NC maxv f s -> 3 * f + 3 <= NC -> D.stack s = a :: rest ->
  let x := D.c2v s (D.next_c a) in let l := D.vc s x in let b := D.next_c l in
  0 <= l < 3 * f -> a <> b -> D.copp s a = -1 -> D.copp s b = -1 ->
  x <> D.c2v s (D.prev_c a) -> x <> D.c2v s (D.next_c b) ->
  exists s', D.step_C NC maxv s f = D.Ok s' /\
    D.copp s' = D.upd (D.upd (D.upd (D.upd (D.copp s) a (3 * f + 1)) (3 * f + 1) a) b (3 * f + 2)) (3 * f + 2) b /\
    D.c2v s' = D.upd (D.upd (D.upd (D.c2v s) (3 * f) x) (3 * f + 1) (D.c2v s (D.next_c b))) (3 * f + 2) (D.c2v s (D.prev_c a)) /\
    D.nv s' = D.nv s /\ D.stack s' = 3 * f :: rest /\
    D.events s' = D.events s /\ D.splits s' = D.splits s /\ D.invalid s' = D.invalid s /\ D.nfaces s' = D.nfaces s /\
    D.inits s' = D.inits s.
Proof.
  intros s f a rest HW HN Est x l b Hl Nab Fa Fb Nx1 Nx2.
  pose proof (DP.w_nf _ _ _ _ HW) as Hnf. pose proof (DP.w_nv _ _ _ _ HW) as Hnv.
  pose proof (DP.w_stack _ _ _ _ HW) as Hst. rewrite Est in Hst. inversion Hst as [|? ? Ha Hrest]; subst.
  pose proof (DP.next_c_rng a f Ha) as Hna. pose proof (DP.prev_c_rng a f Ha) as Hpa.
  assert (Hb : 0 <= b < 3 * f) by (apply DP.next_c_rng; auto).
  pose proof (DP.next_c_rng b f Hb) as Hnb.
  pose proof (DP.w_vr _ _ _ _ HW _ Hna) as Hx. fold x in Hx.
  pose proof (DP.w_vr _ _ _ _ HW _ Hpa) as Hvap. pose proof (DP.w_vr _ _ _ _ HW _ Hnb) as Hvbn.
  unfold D.step_C. rewrite Est. unfold D.vertex, D.lmc. fwd. fold x. fwd. fold l. fold b.
  replace (a =? b) with false by lia.
  unfold D.all_free, D.opposite. fwd. rewrite Fa. cbn [Z.eqb D.bind]. fwd. rewrite Fb. cbn [Z.eqb D.bind negb].
  unfold D.set_opps, D.set_opp. fwd.
  replace ((x =? D.c2v s (D.prev_c a)) || (x =? D.c2v s (D.next_c b))) with false by lia.
  unfold D.map_cv, D.set_lmc, D.set_hole. fwd.
  eexists. split; [reflexivity|]. dproj. repeat split; reflexivity.
Qed.

Lemma dec_step_C_full : forall s sid ns a rest, DP.W NC maxv (D.nfaces s) s -> 3 * D.nfaces s + 3 <= NC -> D.stack s = a :: rest ->
  let f := D.nfaces s in
  let x := D.c2v s (D.next_c a) in let l := D.vc s x in let b := D.next_c l in
  0 <= l < 3 * f -> a <> b -> D.copp s a = -1 -> D.copp s b = -1 ->
  x <> D.c2v s (D.prev_c a) -> x <> D.c2v s (D.next_c b) ->
  exists s', D.step NC maxv rm ns s sid 0 = D.Ok s' /\
    D.copp s' = D.upd (D.upd (D.upd (D.upd (D.copp s) a (3 * f + 1)) (3 * f + 1) a) b (3 * f + 2)) (3 * f + 2) b /\
    D.c2v s' = D.upd (D.upd (D.upd (D.c2v s) (3 * f) x) (3 * f + 1) (D.c2v s (D.next_c b))) (3 * f + 2) (D.c2v s (D.prev_c a)) /\
    D.nv s' = D.nv s /\ D.stack s' = 3 * f :: rest /\
    D.events s' = D.events s /\ D.splits s' = D.splits s /\ D.invalid s' = D.invalid s /\ D.nfaces s' = f + 1.
Proof.
  intros s sid ns a rest HW HN Est f x l b Hl Nab Fa Fb Nx1 Nx2.
  destruct (dec_step_C (D.with_nfaces s (f + 1)) f a rest) as (s1 & E1 & A1 & A2 & A3 & A4 & A5 & A6 & A7 & A8 & _); dproj; auto.
  { apply DP.W_with_nfaces. auto. }
  unfold D.step. change (0 =? D.TOPOLOGY_C) with true. cbv iota. fold f. rewrite E1.
  eexists. split; [reflexivity|]. repeat split; auto.
Qed.

Lemma dec_start_face : forall nfz s a, DP.W NC maxv (D.nfaces s) s -> NC = 3 * nfz -> D.nfaces s < nfz ->
  0 <= a < 3 * D.nfaces s ->
  let f := D.nfaces s in
  let vn := D.c2v s (D.next_c a) in let ln := D.vc s vn in let b := D.next_c ln in
  let vx := D.c2v s (D.next_c b) in let lx := D.vc s vx in let c := D.next_c lx in
  0 <= ln < 3 * f -> 0 <= lx < 3 * f -> a <> b -> a <> c -> b <> c ->
  D.copp s a = -1 -> D.copp s b = -1 -> D.copp s c = -1 ->
  D.c2v s (D.prev_c a) = D.c2v s (D.next_c c) ->
  exists s', D.start_face NC maxv nfz s a = D.Ok s' /\
    D.copp s' = D.upd (D.upd (D.upd (D.upd (D.upd (D.upd (D.copp s) (3 * f) a) a (3 * f)) (3 * f + 1) b) b (3 * f + 1)) (3 * f + 2) c) c (3 * f + 2) /\
    D.c2v s' = D.upd (D.upd (D.upd (D.c2v s) (3 * f) vx) (3 * f + 1) (D.c2v s (D.next_c c))) (3 * f + 2) vn /\
    D.nv s' = D.nv s /\ D.stack s' = D.stack s /\ D.vc s' = D.vc s /\
    D.events s' = D.events s /\ D.splits s' = D.splits s /\ D.invalid s' = D.invalid s /\ D.nfaces s' = f + 1.
Proof.
  intros nfz s a HW HNC Hlt Ha f vn ln b vx lx c Hln Hlx Nab Nac Nbc Fa Fb Fc Hvw.
  pose proof (DP.w_nf _ _ _ _ HW) as Hnf. pose proof (DP.w_nv _ _ _ _ HW) as Hnv. fold f in Hnf, Ha.
  pose proof (DP.next_c_rng a f Ha) as Hna.
  assert (Hb : 0 <= b < 3 * f) by (apply DP.next_c_rng; auto).
  assert (Hc : 0 <= c < 3 * f) by (apply DP.next_c_rng; auto).
  pose proof (DP.next_c_rng b f Hb) as Hnb. pose proof (DP.next_c_rng c f Hc) as Hnc.
  pose proof (DP.w_vr _ _ _ _ HW _ Hna) as Hvn. fold vn in Hvn.
  pose proof (DP.w_vr _ _ _ _ HW _ Hnb) as Hvx. fold vx in Hvx.
  pose proof (DP.w_vr _ _ _ _ HW _ Hnc) as Hvp.
  pose proof (DP.prev_c_rng a f Ha) as Hpa.
  unfold D.start_face. fold f. replace (f >=? nfz) with false by lia.
  unfold D.vertex, D.lmc. fwd. fold vn. fwd. fold ln. fold b. fwd. fold vx. fwd. fold lx. fold c.
  replace ((a =? b) || (a =? c) || (b =? c)) with false by lia.
  unfold D.all_free, D.opposite. fwd. rewrite Fa. cbn [Z.eqb D.bind]. fwd. rewrite Fb. cbn [Z.eqb D.bind]. fwd. rewrite Fc. cbn [Z.eqb D.bind negb].
  fwd. rewrite Hvw, Z.eqb_refl. cbn [negb].
  unfold D.set_opps, D.set_opp, D.map_cv. fwd.
  rewrite !(DP.upd_other _ _ _ _ (3 * f)) by lia. rewrite DP.upd_same.
  unfold D.set_hole. fwd.
  rewrite !(DP.upd_other _ _ _ _ (3 * f + 1)) by lia. rewrite DP.upd_same. fwd.
  rewrite DP.upd_same. fwd.
  eexists. split; [reflexivity|]. dproj. repeat split; reflexivity.
Qed.

End DecSteps.

Lemma rot_face r q : rot r q / 3 = q / 3.
Proof. destruct r as [|[|r]]; cbn [rot]; auto using next_face, prev_face. Qed.
Lemma next_ne_prev c : next_c c <> prev_c c.
Proof. intro H. apply (f_equal next_c) in H. rewrite next_next, next_prev in H. exact (prev_neq _ H). Qed.
Lemma rot_inj q r r' : r < 3 -> r' < 3 -> rot r q = rot r' q -> r = r'.
Proof.
  intros H H' E. pose proof (next_neq q). pose proof (prev_neq q). pose proof (next_ne_prev q).
  destruct r as [|[|[|r]]]; destruct r' as [|[|[|r']]]; cbn [rot] in E; try lia; congruence.
Qed.
Lemma face_rot x q : x / 3 = q / 3 -> exists r, r < 3 /\ x = rot r q.
Proof.
  intros F. destruct (face_corners _ _ F) as [X|[X|X]]; [exists 0|exists 1|exists 2]; cbn [rot]; split; auto.
Qed.
Lemma rot_next r q : r < 3 -> rot ((r + 1) mod 3) q = next_c (rot r q).
Proof. intros H. destruct r as [|[|[|r]]]; try lia; cbn; auto using next_next. symmetry. apply next_prev. Qed.
Lemma rot_prev r q : r < 3 -> rot ((r + 2) mod 3) q = prev_c (rot r q).
Proof. intros H. destruct r as [|[|[|r]]]; try lia; cbn; auto using prev_next. symmetry. apply prev_prev. Qed.



(** the symbol loop on [l1 ++ l2] *)
Lemma sym_loop_app NC maxv rm ns l1 : forall l2 sid s,
  D.sym_loop NC maxv rm ns (l1 ++ l2) sid s =
  D.bind (D.sym_loop NC maxv rm ns l1 sid s) (fun s1 => D.sym_loop NC maxv rm ns l2 (sid + Z.of_nat (length l1))%Z s1).
Proof.
  induction l1 as [|y l1 IH]; intros l2 sid s.
  - cbn [app D.sym_loop D.bind length Z.of_nat]. f_equal. lia.
  - cbn [app D.sym_loop length]. destruct (D.step NC maxv rm ns s sid y); cbn [D.bind]; auto.
    rewrite IH. replace (sid + Z.of_nat (S (length l1)))%Z with (sid + 1 + Z.of_nat (length l1))%Z by lia. reflexivity.
Qed.

Lemma skipn_cons_tail {A} (l : list A) : forall i x R, x :: R = skipn i l -> R = skipn (S i) l.
Proof.
  induction l as [|a l IH]; intros [|i] x R E; cbn in E; try discriminate.
  - inversion E; subst. reflexivity.
  - apply IH in E. exact E.
Qed.

Lemma firstn_S_nth {A} (l : list A) k y : nth_error l k = Some y -> firstn (S k) l = firstn k l ++ [y].
Proof.
  revert k. induction l as [|a l IH]; intros [|k] H; cbn in *; try discriminate.
  - inversion H. auto.
  - f_equal. auto.
Qed.

(** vertices the decoder creates for a symbol *)
Definition cntv1 (y : Z) : Z := if (y =? 7)%Z then 3%Z else if ((y =? 5) || (y =? 3))%Z then 1%Z else 0%Z.
Fixpoint cntv (l : list Z) : Z := match l with [] => 0%Z | y :: r => (cntv1 y + cntv r)%Z end.
Lemma cntv_app l1 l2 : cntv (l1 ++ l2) = (cntv l1 + cntv l2)%Z.
Proof. induction l1; cbn [app cntv]; lia. Qed.
Lemma cntv_nonneg l : (0 <= cntv l)%Z.
Proof. induction l; cbn [cntv]; unfold cntv1 in *; try lia. destruct (a =? 7)%Z; [lia|]. destruct ((a =? 5) || (a =? 3))%Z; lia. Qed.
Lemma cntv_firstn l k : (cntv (firstn k l) <= cntv l)%Z.
Proof. rewrite <- (firstn_skipn k l) at 2. rewrite cntv_app. pose proof (cntv_nonneg (skipn k l)). lia. Qed.


(** the first return of an orbit *)
Lemma first_return (f : nat -> option nat) a : forall p, 1 <= p -> oiter f p (Some a) = Some a ->
  exists p0, 1 <= p0 /\ oiter f p0 (Some a) = Some a /\ forall q, 1 <= q < p0 -> oiter f q (Some a) <> Some a.
Proof.
  assert (G : forall p, (exists q, 1 <= q <= p /\ oiter f q (Some a) = Some a /\ forall q', 1 <= q' < q -> oiter f q' (Some a) <> Some a) \/
                        (forall q, 1 <= q <= p -> oiter f q (Some a) <> Some a)).
  { induction p as [|p IH]. right; intros; lia.
    destruct IH as [(q & A & B & C)|N]. left; exists q; repeat split; auto; lia.
    assert (Dc : {oiter f (S p) (Some a) = Some a} + {oiter f (S p) (Some a) <> Some a}).
    { destruct (oiter f (S p) (Some a)) as [y|]; [|right; discriminate]. destruct (Nat.eq_dec y a); [left; congruence|right; congruence]. }
    destruct Dc as [Y|Nn].
    - left. exists (S p). repeat split; auto; try lia. intros q' Hq'. apply N. lia.
    - right. intros q Hq. destruct (Nat.eq_dec q (S p)); [subst; auto|apply N; lia]. }
  intros p Hp E. destruct (G p) as [(q & A & B & C)|N].
  - exists q. repeat split; auto; lia.
  - exfalso. apply (N p); auto.
Qed.

(** * Part 3: the simulation relation (decoder order) *)
Section Sim.
Variables (c2v : list nat) (opp : list (option nat)) (nf : nat).
Hypothesis Hlen : length c2v = 3 * nf.
Hypothesis OK : opp_ok c2v opp.
Variable Q : list nat.
Hypothesis Qrng : forall j, j < length Q -> nth j Q 0 < 3 * nf /\ is_degenerated c2v (nth j Q 0 / 3) = false.
Hypothesis Qnd : NoDup (map (fun c => c / 3) Q).

Let opp_facts := opp_facts c2v opp nf Hlen OK.

(** encoder corner / decoder corner number [r] of decoder face [j] *)
Definition eco (j r : nat) : nat := rot r (nth j Q 0).
Definition dco (j r : nat) : Z := (3 * Z.of_nat j + Z.of_nat r)%Z.

Lemma eco_face j r : eco j r / 3 = nth j Q 0 / 3.
Proof. apply rot_face. Qed.
Lemma Q_face_inj j j' : j < length Q -> j' < length Q -> nth j Q 0 / 3 = nth j' Q 0 / 3 -> j = j'.
Proof.
  intros H H' E. apply (proj1 (NoDup_nth (map (fun c => c / 3) Q) 0) Qnd); rewrite ?map_length; auto.
  assert (M : forall i, nth i (map (fun c => c / 3) Q) 0 = nth i Q 0 / 3) by (intros i; exact (map_nth (fun c => c / 3) Q 0 i)).
  rewrite !M. auto.
Qed.
Lemma eco_inj j r j' r' : j < length Q -> j' < length Q -> r < 3 -> r' < 3 -> eco j r = eco j' r' -> j = j' /\ r = r'.
Proof.
  intros H H' R R' E. assert (j = j').
  { apply Q_face_inj; auto. rewrite <- (eco_face j r), <- (eco_face j' r'). congruence. }
  subst j'. split; auto. eapply rot_inj; eauto.
Qed.
Lemma eco_rng j r : j < length Q -> eco j r < 3 * nf.
Proof.
  intros H. destruct (Qrng j H) as [A _]. unfold eco. destruct r as [|[|r]]; cbn [rot]; auto using next_lt, prev_lt.
Qed.
Lemma eco_next j r : r < 3 -> eco j ((r + 1) mod 3) = next_c (eco j r).
Proof. apply rot_next. Qed.
Lemma eco_prev j r : r < 3 -> eco j ((r + 2) mod 3) = prev_c (eco j r).
Proof. apply rot_prev. Qed.

(** the face across the edge opposite to encoder corner [e] is not among the first [k] faces of [Q] *)
Definition ncr (k e : nat) : Prop :=
  match opp_at opp e with None => True | Some o => forall j', j' < k -> nth j' Q 0 / 3 <> o / 3 end.

Definition s_opp_at (k : nat) (d : D.st) (j r : nat) : Prop :=
  match opp_at opp (eco j r) with
  | None => D.copp d (dco j r) = (-1)%Z
  | Some o => (forall j' r', j' < k -> r' < 3 -> eco j' r' = o -> D.copp d (dco j r) = dco j' r') /\
              ((forall j', j' < k -> nth j' Q 0 / 3 <> o / 3) -> D.copp d (dco j r) = (-1)%Z)
  end.

Record SIM (k : nat) (d : D.st) : Prop := {
  s_nf : D.nfaces d = Z.of_nat k;
  s_opp : forall j r, j < k -> r < 3 -> s_opp_at k d j r;
  s_vtx : forall j r j' r', j < k -> r < 3 -> j' < k -> r' < 3 ->
     D.c2v d (dco j r) = D.c2v d (dco j' r') -> vtx c2v (eco j r) = vtx c2v (eco j' r')
}.

(** generic preservation of the Opposite clause: face [k] is created, its corner [rn] glued to the old corner [glue rn] *)
Lemma opp_step k d d' (glue : nat -> option (nat * nat)) : k < length Q ->
  (forall j r, j < k -> r < 3 -> s_opp_at k d j r) ->
  (forall rn jo ro, rn < 3 -> glue rn = Some (jo, ro) -> jo < k /\ ro < 3 /\ opp_at opp (eco k rn) = Some (eco jo ro) /\
     D.copp d' (dco k rn) = dco jo ro /\ D.copp d' (dco jo ro) = dco k rn) ->
  (forall r, r < 3 -> glue r = None -> D.copp d' (dco k r) = (-1)%Z /\ ncr k (eco k r)) ->
  (forall j r, j < k -> r < 3 -> (forall rn, rn < 3 -> glue rn <> Some (j, r)) -> D.copp d' (dco j r) = D.copp d (dco j r)) ->
  forall j r, j < S k -> r < 3 -> s_opp_at (S k) d' j r.
Proof.
  intros Hk Old G N U j r Hj Hr. unfold s_opp_at.
  assert (Dec : forall j r, (exists rn, rn < 3 /\ glue rn = Some (j, r)) \/ (forall rn, rn < 3 -> glue rn <> Some (j, r))).
  { intros j0 r0.
    assert (E : forall x, {glue x = Some (j0, r0)} + {glue x <> Some (j0, r0)}).
    { intros x. destruct (glue x) as [[a b]|]; [|right; discriminate].
      destruct (Nat.eq_dec a j0); [|right; congruence]. destruct (Nat.eq_dec b r0); [left; congruence|right; congruence]. }
    destruct (E 0); [left; exists 0; split; auto; lia|]. destruct (E 1); [left; exists 1; split; auto; lia|].
    destruct (E 2); [left; exists 2; split; auto; lia|]. right. intros rn Hrn. destruct rn as [|[|[|rn]]]; auto; lia. }
  destruct (Nat.eq_dec j k) as [->|Njk].
  - (* a corner of the new face *)
    destruct (glue r) as [[jo ro]|] eqn:Eg.
    + destruct (G r jo ro Hr Eg) as (Hjo & Hro & Eo & C1 & C2). rewrite Eo. split.
      * intros j' r' Hj' Hr' E. apply eco_inj in E; try lia. destruct E as [-> ->]. auto.
      * intros X. exfalso. apply (X jo); [lia|]. rewrite eco_face. auto.
    + destruct (N r Hr Eg) as (C1 & Nc). unfold ncr in Nc. destruct (opp_at opp (eco k r)) as [o|] eqn:Eo; auto.
      split; auto. intros j' r' Hj' Hr' E. exfalso. destruct (Nat.eq_dec j' k) as [->|Nj'].
      * destruct (opp_facts _ _ Eo) as (_ & _ & _ & _ & _ & Nf & _). apply Nf. rewrite <- E, !eco_face. auto.
      * apply (Nc j'); [lia|]. rewrite <- E, eco_face. auto.
  - assert (Hjk : j < k) by lia. destruct (Dec j r) as [(rn & Hrn & Eg)|Ng].
    + destruct (G rn j r Hrn Eg) as (_ & _ & Eo & C1 & C2). destruct (opp_facts _ _ Eo) as (Eo' & _). rewrite Eo'. split.
      * intros j' r' Hj' Hr' E. apply eco_inj in E; try lia. destruct E as [-> ->]. auto.
      * intros X. exfalso. apply (X k); [lia|]. rewrite eco_face. auto.
    + rewrite (U j r Hjk Hr Ng). specialize (Old j r Hjk Hr). unfold s_opp_at in Old.
      destruct (opp_at opp (eco j r)) as [o|] eqn:Eo; auto. destruct Old as [O1 O2]. split.
      * intros j' r' Hj' Hr' E. destruct (Nat.eq_dec j' k) as [->|Nj']; [|apply O1; auto; lia]. exfalso.
        destruct (opp_facts _ _ Eo) as (Eo' & _). rewrite <- E in Eo'.
        destruct (glue r') as [[jo ro]|] eqn:Eg.
        -- destruct (G r' jo ro Hr' Eg) as (Hjo & Hro & Eo2 & _). rewrite Eo2 in Eo'. inversion Eo' as [E2].
           apply eco_inj in E2; try lia. destruct E2 as [-> ->]. apply (Ng r'); auto.
        -- destruct (N r' Hr' Eg) as (_ & Nc). unfold ncr in Nc. rewrite Eo' in Nc. apply (Nc j Hjk). rewrite eco_face. auto.
      * intros X. apply O2. intros j' Hj'. apply X. lia.
Qed.

(** generic preservation of the vertex clause: every corner of the new face either copies the decoder vertex of an old corner
    with the same encoder vertex, or gets a fresh decoder vertex *)
Lemma vtx_step k d d' : k < length Q ->
  (forall j r j' r', j < k -> r < 3 -> j' < k -> r' < 3 ->
     D.c2v d (dco j r) = D.c2v d (dco j' r') -> vtx c2v (eco j r) = vtx c2v (eco j' r')) ->
  (forall j r, j < k -> r < 3 -> (D.c2v d (dco j r) < D.nv d)%Z) ->
  (forall j r, j < k -> r < 3 -> D.c2v d' (dco j r) = D.c2v d (dco j r)) ->
  (forall r, r < 3 ->
     (exists j0 r0, j0 < k /\ r0 < 3 /\ D.c2v d' (dco k r) = D.c2v d (dco j0 r0) /\ vtx c2v (eco k r) = vtx c2v (eco j0 r0)) \/
     ((D.nv d <= D.c2v d' (dco k r))%Z /\ forall r', r' < 3 -> r' <> r -> D.c2v d' (dco k r') <> D.c2v d' (dco k r))) ->
  forall j r j' r', j < S k -> r < 3 -> j' < S k -> r' < 3 ->
     D.c2v d' (dco j r) = D.c2v d' (dco j' r') -> vtx c2v (eco j r) = vtx c2v (eco j' r').
Proof.
  intros Hk Old VR Same New.
  assert (Rep : forall j r, j < S k -> r < 3 ->
     (exists j0 r0, j0 < k /\ r0 < 3 /\ D.c2v d' (dco j r) = D.c2v d (dco j0 r0) /\ vtx c2v (eco j r) = vtx c2v (eco j0 r0)) \/
     (j = k /\ (D.nv d <= D.c2v d' (dco k r))%Z /\ forall r', r' < 3 -> r' <> r -> D.c2v d' (dco k r') <> D.c2v d' (dco k r))).
  { intros j r Hj Hr. destruct (Nat.eq_dec j k) as [->|N].
    - destruct (New r Hr) as [X|X]; [left; auto|right; auto].
    - left. exists j, r. repeat split; auto; try lia. apply Same; auto. lia. }
  intros j r j' r' Hj Hr Hj' Hr' E.
  destruct (Rep j r Hj Hr) as [(j0 & r0 & A1 & A2 & A3 & A4)|(-> & A1 & A2)];
  destruct (Rep j' r' Hj' Hr') as [(j1 & r1 & B1 & B2 & B3 & B4)|(-> & B1 & B2)].
  - rewrite A4, B4. apply Old; auto. congruence.
  - exfalso. pose proof (VR j0 r0 A1 A2). rewrite <- A3, E in H. lia.
  - exfalso. pose proof (VR j1 r1 B1 B2). rewrite <- B3, <- E in H. lia.
  - destruct (Nat.eq_dec r r') as [->|N]; auto. exfalso. apply (B2 r Hr N). auto.
Qed.


Local Open Scope Z_scope.
Ltac Zify.zify_post_hook ::= Z.div_mod_to_equations.

Lemma dco_next j r : (r < 3)%nat -> D.next_c (dco j r) = dco j ((r + 1) mod 3).
Proof.
  intros H. unfold D.next_c, dco. destruct r as [|[|[|r]]]; try lia; cbn [Nat.modulo Nat.divmod Nat.add fst snd Nat.sub];
  repeat match goal with |- context[Z.eqb ?a ?b] => destruct (Z.eqb_spec a b) end; lia.
Qed.
Lemma dco_prev j r : (r < 3)%nat -> D.prev_c (dco j r) = dco j ((r + 2) mod 3).
Proof.
  intros H. unfold D.prev_c, dco. destruct r as [|[|[|r]]]; try lia; cbn [Nat.modulo Nat.divmod Nat.add fst snd Nat.sub];
  repeat match goal with |- context[Z.eqb ?a ?b] => destruct (Z.eqb_spec a b) end; lia.
Qed.

Ltac upd_eval :=
  unfold D.upd; repeat match goal with |- context[Z.eqb ?a ?b] => destruct (Z.eqb_spec a b); try lia end.

Variables NC maxv : Z.

Lemma SIM_E k d d' : (k < length Q)%nat -> SIM k d -> DP.W NC maxv (Z.of_nat k) d ->
  D.copp d' = D.copp d ->
  D.c2v d' = D.upd (D.upd (D.upd (D.c2v d) (3 * Z.of_nat k) (D.nv d)) (3 * Z.of_nat k + 1) (D.nv d + 1)) (3 * Z.of_nat k + 2) (D.nv d + 2) ->
  D.nfaces d' = Z.of_nat (S k) ->
  (forall r, (r < 3)%nat -> ncr k (eco k r)) ->
  SIM (S k) d'.
Proof.
  intros Hk [S1 S2 S3] HW Eo Ev En Nc. constructor; auto.
  - apply (opp_step k d d' (fun _ => None)); auto.
    + intros; discriminate.
    + intros r Hr _. split; auto. rewrite Eo. apply (DP.w_free _ _ _ _ HW). unfold dco. lia.
    + intros j r Hj Hr _. rewrite Eo. auto.
  - apply (vtx_step k d d'); auto.
    + intros j r Hj Hr. apply (DP.w_vr _ _ _ _ HW). unfold dco. lia.
    + intros j r Hj Hr. rewrite Ev. unfold dco. upd_eval; auto.
    + intros r Hr. right. rewrite Ev. unfold dco.
      destruct r as [|[|[|r]]]; try lia; (split; [upd_eval|intros r' Hr' Nr; destruct r' as [|[|[|r']]]; try lia; upd_eval]).
Qed.

Lemma SIM_RL k d d' (ro : nat) : (k < length Q)%nat -> (1 <= k)%nat -> (ro = 1 \/ ro = 2)%nat -> SIM k d -> DP.W NC maxv (Z.of_nat k) d ->
  D.copp d (dco (k - 1) 0) = -1 ->
  D.copp d' = D.upd (D.upd (D.copp d) (dco k ro) (dco (k - 1) 0)) (dco (k - 1) 0) (dco k ro) ->
  D.c2v d' = D.upd (D.upd (D.upd (D.c2v d) (dco k ro) (D.nv d)) (dco k ((ro + 1) mod 3)) (D.c2v d (D.prev_c (dco (k - 1) 0))))
                   (dco k ((ro + 2) mod 3)) (D.c2v d (D.next_c (dco (k - 1) 0))) ->
  D.nfaces d' = Z.of_nat (S k) ->
  opp_at opp (eco k ro) = Some (eco (k - 1) 0) ->
  ncr k (eco k ((ro + 1) mod 3)) -> ncr k (eco k ((ro + 2) mod 3)) ->
  SIM (S k) d'.
Proof.
  intros Hk H1 Hro [S1 S2 S3] HW Fa Eo Ev En Eopp N1 N2.
  assert (Hro3 : (ro < 3)%nat) by lia.
  destruct (opp_facts _ _ Eopp) as (_ & _ & _ & _ & _ & _ & V1 & V2).
  constructor; auto.
  - apply (opp_step k d d' (fun r => if Nat.eqb r ro then Some ((k - 1)%nat, 0%nat) else None)); auto.
    + intros rn jo r0 Hrn Eg. destruct (Nat.eqb_spec rn ro) as [->|]; [|discriminate]. inversion Eg; subst jo r0.
      split; [lia|]. split; [lia|]. split; auto. rewrite Eo. unfold dco. split; upd_eval.
    + intros r Hr Eg. destruct (Nat.eqb_spec r ro) as [|Nr]; [discriminate|]. split.
      * rewrite Eo. unfold dco. upd_eval. apply (DP.w_free _ _ _ _ HW). lia.
      * destruct Hro as [-> | ->]; destruct r as [|[|[|r]]]; try lia; auto.
    + intros j r Hj Hr Ng. rewrite Eo. unfold dco. upd_eval. exfalso. apply (Ng ro Hro3). rewrite Nat.eqb_refl. f_equal. f_equal; lia.
  - apply (vtx_step k d d'); auto.
    + intros j r Hj Hr. apply (DP.w_vr _ _ _ _ HW). unfold dco. lia.
    + intros j r Hj Hr. rewrite Ev. unfold dco. destruct Hro as [-> | ->]; cbn [Nat.modulo Nat.divmod Nat.add fst snd Nat.sub]; upd_eval; auto.
    + intros r Hr. rewrite Ev. rewrite (dco_prev (k - 1) 0), (dco_next (k - 1) 0) by lia.
      cbn [Nat.modulo Nat.divmod Nat.add fst snd Nat.sub].
      destruct (Nat.eq_dec r ro) as [->|Nr].
      * right. unfold dco. destruct Hro as [-> | ->]; cbn [Nat.modulo Nat.divmod Nat.add fst snd Nat.sub];
        (split; [upd_eval|intros r' Hr' Nr'; destruct r' as [|[|[|r']]]; try lia; upd_eval;
           match goal with |- ?x <> _ => assert (x < D.nv d) by (apply (DP.w_vr _ _ _ _ HW); lia); lia end]).
      * left. destruct (Nat.eq_dec r ((ro + 1) mod 3)) as [->|Nr1].
        -- exists (k - 1)%nat, 2%nat. split; [lia|]. split; [lia|]. split.
           ++ unfold dco. destruct Hro as [-> | ->]; cbn [Nat.modulo Nat.divmod Nat.add fst snd Nat.sub]; upd_eval; auto.
           ++ rewrite eco_next by auto. rewrite V1. reflexivity.
        -- assert (r = (ro + 2) mod 3)%nat as -> by (destruct Hro as [-> | ->]; cbn in *; lia).
           exists (k - 1)%nat, 1%nat. split; [lia|]. split; [lia|]. split.
           ++ unfold dco. destruct Hro as [-> | ->]; cbn [Nat.modulo Nat.divmod Nat.add fst snd Nat.sub]; upd_eval; auto.
           ++ rewrite eco_prev by auto. rewrite V2. reflexivity.
Qed.


(** ** symbol C.  SwingRight in the encoder's table between created corners = the decoder's SwingLeft backwards *)
Lemma sr_step_k k d j r j' r' : (k <= length Q)%nat -> SIM k d -> DF.FI (Z.of_nat k) d ->
  (j < k)%nat -> (r < 3)%nat -> (j' < k)%nat -> (r' < 3)%nat -> swing_right opp (eco j r) = Some (eco j' r') ->
  D.c2v d (dco j r) = D.c2v d (dco j' r').
Proof.
  intros Hk HS HF Hj Hr Hj' Hr' E. unfold swing_right in E. destruct (opp_at opp (prev_c (eco j r))) as [o|] eqn:Eo; [|discriminate].
  inversion E as [E1]. clear E.
  assert (Eoo : o = eco j' ((r' + 1) mod 3)) by (rewrite eco_next by auto; rewrite <- E1; symmetry; apply next_prev).
  subst o. destruct (opp_facts _ _ Eo) as (Eo' & _).
  assert (Hm2 : ((r + 2) mod 3 < 3)%nat) by (apply Nat.mod_upper_bound; lia).
  assert (Hn2 : ((r' + 1) mod 3 < 3)%nat) by (apply Nat.mod_upper_bound; lia).
  pose proof (s_opp _ _ HS j' ((r' + 1) mod 3)%nat Hj' Hn2) as X. unfold s_opp_at in X. rewrite Eo' in X. destruct X as [X _].
  rewrite <- (eco_prev j r Hr) in X. specialize (X j ((r + 2) mod 3)%nat Hj Hm2 eq_refl).
  set (c := dco j' r').
  assert (Hc : 0 <= c < 3 * Z.of_nat k) by (unfold c, dco; lia).
  assert (Esl : DP.slf d c = dco j r).
  { rewrite DF.slf_at by lia. unfold c. rewrite dco_next by auto. rewrite X. rewrite dco_next by auto.
    replace (((r + 2) mod 3 + 1) mod 3)%nat with r by (destruct r as [|[|[|r]]]; cbn; lia). reflexivity. }
  pose proof (DF.f_lab _ _ HF c Hc) as L. rewrite Esl in L. apply L. unfold dco. lia.
Qed.

(** the tip vertex of the C face Q[k] is interior and every other corner at it is created *)
Definition Cint (k : nat) : Prop :=
  forall x, (x < 3 * nf)%nat -> is_degenerated c2v (x / 3) = false -> vtx c2v x = vtx c2v (eco k 0) ->
    opp_at opp (next_c x) <> None /\ opp_at opp (prev_c x) <> None /\
    (x <> eco k 0 -> exists j' r', (j' < k)%nat /\ (r' < 3)%nat /\ x = eco j' r').

(** LeftMostCorner of the decoder vertex of Next(active corner) is the corner Previous(left corner) of the encoder *)
Lemma fan_lmc k d : (1 <= k)%nat -> (k < length Q)%nat -> SIM k d -> DP.W NC maxv (Z.of_nat k) d -> DF.FI (Z.of_nat k) d ->
  opp_at opp (eco k 1) = Some (eco (k - 1) 0) -> Cint k ->
  exists jb rb, (jb < k)%nat /\ (rb < 3)%nat /\ opp_at opp (eco k 2) = Some (eco jb ((rb + 1) mod 3)) /\
                D.vc d (D.c2v d (dco (k - 1) 1)) = dco jb rb.
Proof.
  intros K1 Hk HS HW HF Er CI.
  set (c := eco k 0) in *. set (v := vtx c2v c).
  destruct (Qrng k Hk) as [Hc Dc]. fold (eco k 0) in Hc. fold c in Hc. rewrite <- (eco_face k 0) in Dc. fold c in Dc.
  destruct (CI c Hc Dc eq_refl) as (Rn & Ln & _).
  assert (E1 : eco k 1 = next_c c) by reflexivity. assert (E2 : eco k 2 = prev_c c) by reflexivity. rewrite E1 in Er. rewrite E2.
  destruct (opp_at opp (prev_c c)) as [lc|] eqn:El; [|congruence].
  destruct (opp_facts _ _ El) as (El' & _ & Hlc & _ & Dlc & Nfl & Vl1 & Vl2). rewrite next_prev in Vl1. rewrite prev_face in Nfl.
  destruct (opp_facts _ _ Er) as (Er' & _ & Hrc & _ & Drc & Nfr & Vr1 & Vr2). rewrite prev_next in Vr2.
  set (P := fun x => (x < 3 * nf)%nat /\ is_degenerated c2v (x / 3) = false /\ vtx c2v x = v).
  assert (Pc : P c) by (repeat split; auto).
  assert (Pf : forall a, P a -> exists b, swing_right opp a = Some b /\ P b).
  { intros a (A1 & A2 & A3). destruct (CI a A1 A2 A3) as (_ & L0 & _). unfold swing_right.
    destruct (opp_at opp (prev_c a)) as [o|] eqn:Eo; [|congruence]. exists (prev_c o). split; auto.
    destruct (opp_facts _ _ Eo) as (_ & _ & Ho & _ & Do & _ & V1 & _). rewrite next_prev in V1.
    split; [apply prev_lt; auto|]. split; [rewrite prev_face; auto|]. congruence. }
  assert (Pg : forall a, P a -> exists b, swing_left opp a = Some b /\ P b).
  { intros a (A1 & A2 & A3). destruct (CI a A1 A2 A3) as (R0 & _ & _). unfold swing_left.
    destruct (opp_at opp (next_c a)) as [o|] eqn:Eo; [|congruence]. exists (next_c o). split; auto.
    destruct (opp_facts _ _ Eo) as (_ & _ & Ho & _ & Do & _ & _ & V2). rewrite prev_next in V2.
    split; [apply next_lt; auto|]. split; [rewrite next_face; auto|]. congruence. }
  destruct (cyc_period (swing_right opp) (swing_left opp) (3 * nf) P (sr_sl c2v opp nf Hlen OK) (sl_sr c2v opp nf Hlen OK)) with (a := c)
    as (p & Hp & Ep); auto.
  { intros a b E. unfold swing_right in E. destruct (opp_at opp (prev_c a)) as [o|] eqn:Eo; [|discriminate]. inversion E; subst b.
    destruct (opp_facts _ _ Eo) as (_ & _ & Ho & _). apply prev_lt; auto. }
  { intros a (A & _). auto. }
  destruct (first_return _ c p Hp Ep) as (p0 & Hp0 & Ep0 & Min).
  (* the first step *)
  assert (S1 : swing_right opp c = Some (prev_c lc)) by (unfold swing_right; rewrite El; auto).
  assert (Ne0 : prev_c lc <> c). { intro X. apply Nfl. rewrite <- X, prev_face. auto. }
  assert (Pe0 : P (prev_c lc)).
  { split; [apply prev_lt; auto|]. split; [rewrite prev_face; auto|]. unfold v. congruence. }
  destruct Pe0 as (B1 & B2 & B3). destruct (CI _ B1 B2 B3) as (_ & _ & Cr). destruct (Cr Ne0) as (jb & rb & Hjb & Hrb & Eb).
  (* all corners of the walk before the return are created and have the decoder vertex of the first one *)
  assert (Walk : forall q, (1 <= q < p0)%nat -> exists j r, (j < k)%nat /\ (r < 3)%nat /\
             oiter (swing_right opp) q (Some c) = Some (eco j r) /\ D.c2v d (dco j r) = D.c2v d (dco jb rb)).
  { induction q as [|q IHq]; intros Hq; [lia|]. destruct (Nat.eq_dec q 0) as [->|Nq].
    - exists jb, rb. repeat split; auto. cbn [oiter]. rewrite S1, Eb. auto.
    - destruct (IHq ltac:(lia)) as (j & r & Hj & Hr & Eq & Vq).
      destruct (cyc_all (swing_right opp) P Pf c (S q) Pc) as (y & Ey & (Y1 & Y2 & Y3)).
      assert (Ny : y <> c). { intro X. subst y. apply (Min (S q)); auto. }
      destruct (CI y Y1 Y2 Y3) as (_ & _ & Cy). destruct (Cy Ny) as (j2 & r2 & Hj2 & Hr2 & ->).
      exists j2, r2. repeat split; auto. rewrite <- Vq. symmetry.
      apply (sr_step_k k d j r j2 r2); auto; try lia. cbn [oiter] in Ey. rewrite Eq in Ey. auto. }
  (* the last corner before the return is Next(right corner) *)
  assert (Hp2 : (2 <= p0)%nat).
  { destruct (Nat.eq_dec p0 1) as [->|]; [|lia]. exfalso. cbn [oiter] in Ep0. rewrite S1 in Ep0. inversion Ep0. auto. }
  destruct (Walk (p0 - 1)%nat ltac:(lia)) as (j & r & Hj & Hr & Eq & Vq).
  assert (Ely : swing_right opp (eco j r) = Some c).
  { replace p0 with (S (p0 - 1)) in Ep0 by lia. cbn [oiter] in Ep0. rewrite Eq in Ep0. auto. }
  apply (sr_sl c2v opp nf Hlen OK) in Ely. unfold swing_left in Ely. rewrite Er in Ely. inversion Ely as [Ey].
  assert (Ey' : eco (k - 1) 1 = eco j r) by (rewrite <- Ey; reflexivity).
  apply eco_inj in Ey'; try lia. destruct Ey' as [<- <-].
  exists jb, rb. split; auto. split; auto. split.
  - f_equal. rewrite eco_next by auto. rewrite <- Eb. symmetry. apply next_prev.
  - rewrite Vq. apply (DF.dead_end_lmc NC maxv d (Z.of_nat k)); auto. unfold dco; lia.
    rewrite DF.slf_at by (unfold dco; lia). rewrite dco_next by auto.
    assert (Hm : ((rb + 1) mod 3 < 3)%nat) by (apply Nat.mod_upper_bound; lia).
    pose proof (s_opp _ _ HS jb ((rb + 1) mod 3)%nat Hjb Hm) as X. unfold s_opp_at in X.
    rewrite eco_next, <- Eb, next_prev, El' in X by auto. destruct X as [_ X]. rewrite X. reflexivity.
    intros j' Hj' F. rewrite prev_face in F. unfold c in F. rewrite eco_face in F. apply Q_face_inj in F; lia.
Qed.

Lemma SIM_C k d d' jb rb : (k < length Q)%nat -> (1 <= k)%nat -> (jb < k)%nat -> (rb < 3)%nat -> SIM k d -> DP.W NC maxv (Z.of_nat k) d ->
  let a := dco (k - 1) 0 in let b := dco jb ((rb + 1) mod 3) in
  D.copp d' = D.upd (D.upd (D.upd (D.upd (D.copp d) a (dco k 1)) (dco k 1) a) b (dco k 2)) (dco k 2) b ->
  D.c2v d' = D.upd (D.upd (D.upd (D.c2v d) (dco k 0) (D.c2v d (D.next_c a))) (dco k 1) (D.c2v d (D.next_c b))) (dco k 2) (D.c2v d (D.prev_c a)) ->
  D.nfaces d' = Z.of_nat (S k) ->
  opp_at opp (eco k 1) = Some (eco (k - 1) 0) -> opp_at opp (eco k 2) = Some (eco jb ((rb + 1) mod 3)) ->
  ncr k (eco k 0) ->
  SIM (S k) d'.
Proof.
  intros Hk H1 Hjb Hrb [S1 S2 S3] HW a b Eo Ev En Er El N0.
  set (rl := ((rb + 1) mod 3)%nat) in *.
  assert (Hrl : (rl < 3)%nat) by (apply Nat.mod_upper_bound; lia).
  destruct (opp_facts _ _ Er) as (_ & _ & _ & _ & _ & _ & Vr1 & Vr2).
  destruct (opp_facts _ _ El) as (_ & _ & _ & _ & _ & _ & Vl1 & Vl2).
  assert (E1 : eco k 1 = next_c (eco k 0)) by reflexivity. assert (E2 : eco k 2 = prev_c (eco k 0)) by reflexivity.
  rewrite E1 in Vr1, Vr2. rewrite E2 in Vl1, Vl2. rewrite next_next in Vr1. rewrite prev_next in Vr2. rewrite next_prev in Vl1. rewrite prev_prev in Vl2.
  assert (Nab : (k - 1, 0)%nat <> (jb, rl)).
  { intro X. inversion X as [[X1 X2]].
    assert (Y : (eco (k - 1) 0 / 3)%nat <> (eco jb rl / 3)%nat).
    { apply (nbr_next_distinct c2v opp nf Hlen OK (next_c (eco k 0))); [exact Er|rewrite next_next; exact El]. }
    apply Y. rewrite !eco_face. congruence. }
  assert (Nabz : a <> b). { unfold a, b, dco. intro X. apply Nab. f_equal; lia. }
  constructor; auto.
  - apply (opp_step k d d' (fun r => match r with 1%nat => Some ((k - 1)%nat, 0%nat) | 2%nat => Some (jb, rl) | _ => None end)); auto.
    + intros rn jo r0 Hrn Eg. destruct rn as [|[|[|rn]]]; try discriminate; inversion Eg; subst jo r0.
      * split; [lia|]. split; [lia|]. split; auto. rewrite Eo. unfold a, b, dco in *. split; upd_eval.
      * split; [lia|]. split; [lia|]. split; auto. rewrite Eo. unfold a, b, dco in *. split; upd_eval.
    + intros r Hr Eg. destruct r as [|[|[|r]]]; try discriminate; try lia. split; auto.
      rewrite Eo. unfold a, b, dco in *. upd_eval. apply (DP.w_free _ _ _ _ HW). lia.
    + intros j r Hj Hr Ng. rewrite Eo. unfold a, b, dco in *. upd_eval.
      * exfalso. apply (Ng 2%nat); [lia|]. f_equal. f_equal; lia.
      * exfalso. apply (Ng 1%nat); [lia|]. f_equal. f_equal; lia.
  - apply (vtx_step k d d'); auto.
    + intros j r Hj Hr. apply (DP.w_vr _ _ _ _ HW). unfold dco. lia.
    + intros j r Hj Hr. rewrite Ev. unfold dco. upd_eval; auto.
    + intros r Hr. left. rewrite Ev. unfold a, b. rewrite (dco_prev (k - 1) 0), (dco_next (k - 1) 0), (dco_next jb rl) by lia.
      cbn [Nat.modulo Nat.divmod Nat.add fst snd Nat.sub].
      destruct r as [|[|[|r]]]; try lia.
      * exists (k - 1)%nat, 1%nat. split; [lia|]. split; [lia|]. split; [unfold dco; upd_eval; auto|].
        change (eco (k - 1) 1) with (next_c (eco (k - 1) 0)). congruence.
      * exists jb, ((rl + 1) mod 3)%nat. split; [lia|]. split; [apply Nat.mod_upper_bound; lia|]. split; [unfold dco; upd_eval; auto|].
        rewrite eco_next by auto. rewrite E1. congruence.
      * exists (k - 1)%nat, 2%nat. split; [lia|]. split; [lia|]. split; [unfold dco; upd_eval; auto|].
        change (eco (k - 1) 2) with (prev_c (eco (k - 1) 0)). rewrite E2. congruence.
Qed.


(** ** interior start faces.  [LAB]: the decoder's SwingLeft keeps the vertex (clause f_lab of the decoder's fan invariant FI;
    it is carried separately because FI is not established for the start-face phase on arbitrary input) *)
Definition LAB (k : nat) (d : D.st) : Prop :=
  forall j r, (j < k)%nat -> (r < 3)%nat -> DP.slf d (dco j r) <> -1 -> D.c2v d (DP.slf d (dco j r)) = D.c2v d (dco j r).

Lemma FI_LAB k d : DF.FI (Z.of_nat k) d -> LAB k d.
Proof. intros HF j r Hj Hr. apply (DF.f_lab _ _ HF). unfold dco. lia. Qed.

Lemma slf_dco d j r : (r < 3)%nat -> DP.slf d (dco j r) = D.next_c (D.copp d (dco j ((r + 1) mod 3))).
Proof. intros Hr. rewrite DF.slf_at by (unfold dco; lia). rewrite dco_next by auto. reflexivity. Qed.

Lemma sr_step_lab k d j r j' r' : (k <= length Q)%nat -> SIM k d -> LAB k d ->
  (j < k)%nat -> (r < 3)%nat -> (j' < k)%nat -> (r' < 3)%nat -> swing_right opp (eco j r) = Some (eco j' r') ->
  D.c2v d (dco j r) = D.c2v d (dco j' r').
Proof.
  intros Hk HS HL Hj Hr Hj' Hr' E. unfold swing_right in E. destruct (opp_at opp (prev_c (eco j r))) as [o|] eqn:Eo; [|discriminate].
  inversion E as [E1]. clear E.
  assert (Eoo : o = eco j' ((r' + 1) mod 3)) by (rewrite eco_next by auto; rewrite <- E1; symmetry; apply next_prev).
  subst o. destruct (opp_facts _ _ Eo) as (Eo' & _).
  assert (Hm2 : ((r + 2) mod 3 < 3)%nat) by (apply Nat.mod_upper_bound; lia).
  assert (Hn2 : ((r' + 1) mod 3 < 3)%nat) by (apply Nat.mod_upper_bound; lia).
  pose proof (s_opp _ _ HS j' ((r' + 1) mod 3)%nat Hj' Hn2) as X. unfold s_opp_at in X. rewrite Eo' in X. destruct X as [X _].
  rewrite <- (eco_prev j r Hr) in X. specialize (X j ((r + 2) mod 3)%nat Hj Hm2 eq_refl).
  assert (Esl : DP.slf d (dco j' r') = dco j r).
  { rewrite slf_dco by auto. rewrite X. rewrite dco_next by auto.
    replace (((r + 2) mod 3 + 1) mod 3)%nat with r by (destruct r as [|[|[|r]]]; cbn; lia). reflexivity. }
  pose proof (HL j' r' Hj' Hr') as L. rewrite Esl in L. apply L. unfold dco. lia.
Qed.

(** corner [t] (of a face not among the first k): its vertex is interior and every other corner at it is created *)
Definition Cint_t (k t : nat) : Prop :=
  forall x, (x < 3 * nf)%nat -> is_degenerated c2v (x / 3) = false -> vtx c2v x = vtx c2v t ->
    opp_at opp (next_c x) <> None /\ opp_at opp (prev_c x) <> None /\
    (x <> t -> exists j' r', (j' < k)%nat /\ (r' < 3)%nat /\ x = eco j' r').

(** the two neighbours of [t] around its vertex have the same decoder vertex: the created faces around the vertex form one fan *)
Lemma fan_walk k d t : (k <= length Q)%nat -> SIM k d -> LAB k d ->
  (t < 3 * nf)%nat -> is_degenerated c2v (t / 3) = false -> Cint_t k t ->
  exists j1 r1 j2 r2, (j1 < k)%nat /\ (r1 < 3)%nat /\ (j2 < k)%nat /\ (r2 < 3)%nat /\
    swing_right opp t = Some (eco j1 r1) /\ swing_left opp t = Some (eco j2 r2) /\ D.c2v d (dco j1 r1) = D.c2v d (dco j2 r2).
Proof.
  intros Hk HS HL Ht Dt CI.
  set (v := vtx c2v t).
  set (P := fun x => (x < 3 * nf)%nat /\ is_degenerated c2v (x / 3) = false /\ vtx c2v x = v).
  assert (Pc : P t) by (repeat split; auto).
  assert (Pf : forall a, P a -> exists b, swing_right opp a = Some b /\ P b).
  { intros a (A1 & A2 & A3). destruct (CI a A1 A2 A3) as (_ & L0 & _). unfold swing_right.
    destruct (opp_at opp (prev_c a)) as [o|] eqn:Eo; [|congruence]. exists (prev_c o). split; auto.
    destruct (opp_facts _ _ Eo) as (_ & _ & Ho & _ & Do & _ & V1 & _). rewrite next_prev in V1.
    split; [apply prev_lt; auto|]. split; [rewrite prev_face; auto|]. congruence. }
  assert (Pg : forall a, P a -> exists b, swing_left opp a = Some b /\ P b).
  { intros a (A1 & A2 & A3). destruct (CI a A1 A2 A3) as (R0 & _ & _). unfold swing_left.
    destruct (opp_at opp (next_c a)) as [o|] eqn:Eo; [|congruence]. exists (next_c o). split; auto.
    destruct (opp_facts _ _ Eo) as (_ & _ & Ho & _ & Do & _ & _ & V2). rewrite prev_next in V2.
    split; [apply next_lt; auto|]. split; [rewrite next_face; auto|]. congruence. }
  destruct (cyc_period (swing_right opp) (swing_left opp) (3 * nf) P (sr_sl c2v opp nf Hlen OK) (sl_sr c2v opp nf Hlen OK)) with (a := t)
    as (p & Hp & Ep); auto.
  { intros a b E. unfold swing_right in E. destruct (opp_at opp (prev_c a)) as [o|] eqn:Eo; [|discriminate]. inversion E; subst b.
    destruct (opp_facts _ _ Eo) as (_ & _ & Ho & _). apply prev_lt; auto. }
  { intros a (A & _). auto. }
  destruct (first_return _ t p Hp Ep) as (p0 & Hp0 & Ep0 & Min).
  destruct (Pf t Pc) as (e1 & S1 & (B1 & B2 & B3)).
  assert (Ne0 : e1 <> t).
  { intro X. subst e1. unfold swing_right in S1. destruct (opp_at opp (prev_c t)) as [o|] eqn:Eo; [|discriminate]. inversion S1 as [S2].
    destruct (opp_facts _ _ Eo) as (_ & _ & _ & _ & _ & Nf & _). apply Nf. rewrite prev_face, <- S2, prev_face. auto. }
  destruct (CI _ B1 B2 B3) as (_ & _ & Cr). destruct (Cr Ne0) as (jb & rb & Hjb & Hrb & Eb).
  assert (Walk : forall q, (1 <= q < p0)%nat -> exists j r, (j < k)%nat /\ (r < 3)%nat /\
             oiter (swing_right opp) q (Some t) = Some (eco j r) /\ D.c2v d (dco j r) = D.c2v d (dco jb rb)).
  { induction q as [|q IHq]; intros Hq; [lia|]. destruct (Nat.eq_dec q 0) as [->|Nq].
    - exists jb, rb. repeat split; auto. cbn [oiter]. rewrite S1, Eb. auto.
    - destruct (IHq ltac:(lia)) as (j & r & Hj & Hr & Eq & Vq).
      destruct (cyc_all (swing_right opp) P Pf t (S q) Pc) as (y & Ey & (Y1 & Y2 & Y3)).
      assert (Ny : y <> t). { intro X. subst y. apply (Min (S q)); auto. }
      destruct (CI y Y1 Y2 Y3) as (_ & _ & Cy). destruct (Cy Ny) as (j2 & r2 & Hj2 & Hr2 & ->).
      exists j2, r2. repeat split; auto. rewrite <- Vq. symmetry.
      apply (sr_step_lab k d j r j2 r2); auto. cbn [oiter] in Ey. rewrite Eq in Ey. auto. }
  assert (Hp2 : (2 <= p0)%nat).
  { destruct (Nat.eq_dec p0 1) as [->|]; [|lia]. exfalso. cbn [oiter] in Ep0. rewrite S1 in Ep0. inversion Ep0. auto. }
  destruct (Walk (p0 - 1)%nat ltac:(lia)) as (j & r & Hj & Hr & Eq & Vq).
  assert (Ely : swing_right opp (eco j r) = Some t).
  { replace p0 with (S (p0 - 1)) in Ep0 by lia. cbn [oiter] in Ep0. rewrite Eq in Ep0. auto. }
  apply (sr_sl c2v opp nf Hlen OK) in Ely.
  exists jb, rb, j, r. repeat split; auto. congruence.
Qed.

Lemma dead_end_FJ d f c : DC.FJ f d -> 0 <= c < 3 * f -> DP.slf d c = -1 -> D.vc d (D.c2v d c) = c.
Proof.
  intros HJ Hc Dd. destruct (DC.j_reach _ _ HJ c Hc) as (N & (k & R)).
  destruct k; [cbn in R; congruence|]. rewrite DF.iter_succ_r, Dd, DF.iter_dead in R. congruence.
Qed.

(** the lookup of the decoder's start-face phase: tip [t] (a corner of the start face Q[k]) with the glued corner
    (ja, ra) = Opposite(Next(t)): LeftMostCorner(Vertex(Next(glued corner))) is Previous(Opposite(Previous(t))) *)
Lemma fan_lmc_t k d t ja ra : (k < length Q)%nat -> SIM k d -> LAB k d -> DC.FJ (Z.of_nat k) d ->
  (t / 3 = nth k Q 0%nat / 3)%nat -> (t < 3 * nf)%nat -> Cint_t k t ->
  (ja < k)%nat -> (ra < 3)%nat -> opp_at opp (next_c t) = Some (eco ja ra) ->
  exists jb rb, (jb < k)%nat /\ (rb < 3)%nat /\ opp_at opp (prev_c t) = Some (eco jb ((rb + 1) mod 3)) /\
                D.vc d (D.c2v d (dco ja ((ra + 1) mod 3))) = dco jb rb.
Proof.
  intros Hk HS HL HJ Ft Ht CI Hja Hra Er.
  assert (Dt : is_degenerated c2v (t / 3) = false) by (rewrite Ft; apply (Qrng k Hk)).
  destruct (fan_walk k d t ltac:(lia) HS HL Ht Dt CI) as (j1 & r1 & j2 & r2 & H1 & H2 & H3 & H4 & Esr & Esl & Ev).
  unfold swing_left in Esl. rewrite Er in Esl. inversion Esl as [E2]. rewrite <- eco_next in E2 by auto.
  apply eco_inj in E2; try lia. destruct E2 as [<- <-].
  unfold swing_right in Esr. destruct (opp_at opp (prev_c t)) as [lc|] eqn:El; [|discriminate]. inversion Esr as [E1].
  destruct (opp_facts _ _ El) as (El' & _).
  exists j1, r1. split; auto. split; auto. split.
  - f_equal. rewrite eco_next by auto. rewrite <- E1. symmetry. apply next_prev.
  - rewrite <- Ev. apply (dead_end_FJ d (Z.of_nat k)); auto. unfold dco; lia.
    rewrite slf_dco by auto.
    assert (Hm : ((r1 + 1) mod 3 < 3)%nat) by (apply Nat.mod_upper_bound; lia).
    pose proof (s_opp _ _ HS j1 ((r1 + 1) mod 3)%nat H1 Hm) as X. unfold s_opp_at in X.
    rewrite eco_next, <- E1, next_prev, El' in X by auto. destruct X as [_ X]. rewrite X. reflexivity.
    intros j' Hj' F. rewrite prev_face, Ft in F. apply Q_face_inj in F; lia.
Qed.

(** the start face Q[k] glued to the three created corners a = (ja,0), b = (jb,rb), c = (jc,rc) *)
Lemma SIM_start k d d' ja jb rb jc rc : (k < length Q)%nat -> (ja < k)%nat -> (jb < k)%nat -> (rb < 3)%nat -> (jc < k)%nat -> (rc < 3)%nat ->
  SIM k d -> DP.W NC maxv (Z.of_nat k) d ->
  let a := dco ja 0 in let b := dco jb rb in let c := dco jc rc in
  D.copp d' = D.upd (D.upd (D.upd (D.upd (D.upd (D.upd (D.copp d) (dco k 0) a) a (dco k 0)) (dco k 1) b) b (dco k 1)) (dco k 2) c) c (dco k 2) ->
  D.c2v d' = D.upd (D.upd (D.upd (D.c2v d) (dco k 0) (D.c2v d (D.next_c b))) (dco k 1) (D.c2v d (D.next_c c))) (dco k 2) (D.c2v d (D.next_c a)) ->
  D.nfaces d' = Z.of_nat (S k) ->
  opp_at opp (eco k 0) = Some (eco ja 0) -> opp_at opp (eco k 1) = Some (eco jb rb) -> opp_at opp (eco k 2) = Some (eco jc rc) ->
  SIM (S k) d'.
Proof.
  intros Hk Hja Hjb Hrb Hjc Hrc [S1 S2 S3] HW a b c Eo Ev En E0 E1 E2.
  destruct (opp_facts _ _ E0) as (_ & _ & _ & _ & _ & _ & _ & V0).
  destruct (opp_facts _ _ E1) as (_ & _ & _ & _ & _ & _ & _ & V1).
  destruct (opp_facts _ _ E2) as (_ & _ & _ & _ & _ & _ & _ & V2).
  assert (X1 : eco k 1 = next_c (eco k 0)) by reflexivity. assert (X2 : eco k 2 = prev_c (eco k 0)) by reflexivity.
  rewrite X1 in V1. rewrite X2 in V2. rewrite prev_next in V1. rewrite prev_prev in V2.
  assert (F01 : (eco ja 0 / 3)%nat <> (eco jb rb / 3)%nat) by (apply (nbr_next_distinct c2v opp nf Hlen OK (eco k 0)); auto).
  assert (F12 : (eco jb rb / 3)%nat <> (eco jc rc / 3)%nat).
  { apply (nbr_next_distinct c2v opp nf Hlen OK (next_c (eco k 0))); auto. rewrite next_next. auto. }
  assert (F20 : (eco jc rc / 3)%nat <> (eco ja 0 / 3)%nat).
  { apply (nbr_next_distinct c2v opp nf Hlen OK (prev_c (eco k 0))); auto. rewrite next_prev. auto. }
  rewrite !eco_face in F01, F12, F20.
  assert (Nj1 : ja <> jb) by congruence. assert (Nj2 : jb <> jc) by congruence. assert (Nj3 : jc <> ja) by congruence.
  constructor; auto.
  - apply (opp_step k d d' (fun r => match r with 0%nat => Some (ja, 0%nat) | 1%nat => Some (jb, rb) | 2%nat => Some (jc, rc) | _ => None end)); auto.
    + intros rn jo r0 Hrn Eg. destruct rn as [|[|[|rn]]]; try discriminate; inversion Eg; subst jo r0.
      * split; [lia|]. split; [lia|]. split; auto. rewrite Eo. unfold a, b, c, dco in *. split; upd_eval.
      * split; [lia|]. split; [lia|]. split; auto. rewrite Eo. unfold a, b, c, dco in *. split; upd_eval.
      * split; [lia|]. split; [lia|]. split; auto. rewrite Eo. unfold a, b, c, dco in *. split; upd_eval.
    + intros r Hr Eg. destruct r as [|[|[|r]]]; try discriminate; lia.
    + intros j r Hj Hr Ng. rewrite Eo. unfold a, b, c, dco in *. upd_eval.
      * exfalso. apply (Ng 2%nat); [lia|]. f_equal. f_equal; lia.
      * exfalso. apply (Ng 1%nat); [lia|]. f_equal. f_equal; lia.
      * exfalso. apply (Ng 0%nat); [lia|]. f_equal. f_equal; lia.
  - apply (vtx_step k d d'); auto.
    + intros j r Hj Hr. apply (DP.w_vr _ _ _ _ HW). unfold dco. lia.
    + intros j r Hj Hr. rewrite Ev. unfold dco. upd_eval; auto.
    + intros r Hr. left. rewrite Ev. unfold a, b, c. rewrite (dco_next ja 0), (dco_next jb rb), (dco_next jc rc) by lia.
      cbn [Nat.modulo Nat.divmod Nat.add fst snd Nat.sub].
      destruct r as [|[|[|r]]]; try lia.
      * exists jb, ((rb + 1) mod 3)%nat. split; [lia|]. split; [apply Nat.mod_upper_bound; lia|]. split; [unfold dco; upd_eval; auto|].
        rewrite eco_next by auto. congruence.
      * exists jc, ((rc + 1) mod 3)%nat. split; [lia|]. split; [apply Nat.mod_upper_bound; lia|]. split; [unfold dco; upd_eval; auto|].
        rewrite eco_next by auto. rewrite X1. congruence.
      * exists ja, 1%nat. split; [lia|]. split; [lia|]. split; [unfold dco; upd_eval; auto|].
        change (eco ja 1) with (next_c (eco ja 0)). rewrite X2. congruence.
Qed.


Lemma prev_next_dco j r : D.prev_c (D.next_c (dco j r)) = dco j r.
Proof. apply (DP.next_c_spec (dco j r)). unfold dco; lia. Qed.

Lemma LAB_start k d d' ja jb rb jc rc : (k < length Q)%nat -> (ja < k)%nat -> (jb < k)%nat -> (rb < 3)%nat -> (jc < k)%nat -> (rc < 3)%nat ->
  DP.W NC maxv (Z.of_nat k) d -> LAB k d ->
  let a := dco ja 0 in let b := dco jb rb in let c := dco jc rc in
  D.copp d' = D.upd (D.upd (D.upd (D.upd (D.upd (D.upd (D.copp d) (dco k 0) a) a (dco k 0)) (dco k 1) b) b (dco k 1)) (dco k 2) c) c (dco k 2) ->
  D.c2v d' = D.upd (D.upd (D.upd (D.c2v d) (dco k 0) (D.c2v d (D.next_c b))) (dco k 1) (D.c2v d (D.next_c c))) (dco k 2) (D.c2v d (D.next_c a)) ->
  ja <> jb -> jb <> jc -> jc <> ja ->
  D.c2v d (D.prev_c a) = D.c2v d (D.next_c c) -> D.c2v d (D.prev_c b) = D.c2v d (D.next_c a) -> D.c2v d (D.prev_c c) = D.c2v d (D.next_c b) ->
  LAB (S k) d'.
Proof.
  intros Hk Hja Hjb Hrb Hjc Hrc HW HL a b c Eo Ev N1 N2 N3 E1 E2 E3 j r Hj Hr.
  assert (Old : forall x, 0 <= x < 3 * Z.of_nat k -> D.c2v d' x = D.c2v d x) by (intros x Hx; rewrite Ev; unfold dco; upd_eval; auto).
  assert (Hm : ((r + 1) mod 3 < 3)%nat) by (apply Nat.mod_upper_bound; lia).
  rewrite slf_dco by auto.
  assert (Hna : 0 <= D.next_c a < 3 * Z.of_nat k) by (apply DP.next_c_rng; unfold a, dco; lia).
  assert (Hnb : 0 <= D.next_c b < 3 * Z.of_nat k) by (apply DP.next_c_rng; unfold b, dco; lia).
  assert (Hnc : 0 <= D.next_c c < 3 * Z.of_nat k) by (apply DP.next_c_rng; unfold c, dco; lia).
  destruct (Nat.eq_dec j k) as [->|Nj].
  - (* a corner of the new face *)
    destruct r as [|[|[|r]]]; try lia; cbn [Nat.modulo Nat.divmod Nat.add fst snd Nat.sub]; intros _.
    + replace (D.copp d' (dco k 1)) with b by (rewrite Eo; unfold a, b, c, dco; upd_eval). rewrite (Old _ Hnb).
      rewrite Ev. unfold dco. upd_eval; auto.
    + replace (D.copp d' (dco k 2)) with c by (rewrite Eo; unfold a, b, c, dco; upd_eval). rewrite (Old _ Hnc).
      rewrite Ev. unfold dco. upd_eval; auto.
    + replace (D.copp d' (dco k 0)) with a by (rewrite Eo; unfold a, b, c, dco; upd_eval). rewrite (Old _ Hna).
      rewrite Ev. unfold dco. upd_eval; auto.
  - assert (Hjk : (j < k)%nat) by lia.
    assert (Hx : 0 <= dco j r < 3 * Z.of_nat k) by (unfold dco; lia).
    rewrite (Old _ Hx).
    destruct (Z.eq_dec (dco j ((r + 1) mod 3)) a) as [Xa|Na]; [|destruct (Z.eq_dec (dco j ((r + 1) mod 3)) b) as [Xb|Nb];
      [|destruct (Z.eq_dec (dco j ((r + 1) mod 3)) c) as [Xc|Nc]]].
    + intros _. rewrite Xa. replace (D.copp d' a) with (dco k 0) by (rewrite Eo; unfold a, b, c, dco in *; upd_eval).
      rewrite (dco_next k 0) by lia. cbn [Nat.modulo Nat.divmod Nat.add fst snd Nat.sub].
      replace (D.c2v d' (dco k 1)) with (D.c2v d (D.next_c c)) by (rewrite Ev; unfold dco; upd_eval; auto).
      rewrite <- E1. rewrite <- Xa. rewrite <- (dco_next j r) by auto. rewrite prev_next_dco. reflexivity.
    + intros _. rewrite Xb. replace (D.copp d' b) with (dco k 1) by (rewrite Eo; unfold a, b, c, dco in *; upd_eval).
      rewrite (dco_next k 1) by lia. cbn [Nat.modulo Nat.divmod Nat.add fst snd Nat.sub].
      replace (D.c2v d' (dco k 2)) with (D.c2v d (D.next_c a)) by (rewrite Ev; unfold dco; upd_eval; auto).
      rewrite <- E2. rewrite <- Xb. rewrite <- (dco_next j r) by auto. rewrite prev_next_dco. reflexivity.
    + intros _. rewrite Xc. replace (D.copp d' c) with (dco k 2) by (rewrite Eo; unfold a, b, c, dco in *; upd_eval).
      rewrite (dco_next k 2) by lia. cbn [Nat.modulo Nat.divmod Nat.add fst snd Nat.sub].
      replace (D.c2v d' (dco k 0)) with (D.c2v d (D.next_c b)) by (rewrite Ev; unfold dco; upd_eval; auto).
      rewrite <- E3. rewrite <- Xc. rewrite <- (dco_next j r) by auto. rewrite prev_next_dco. reflexivity.
    + replace (D.copp d' (dco j ((r + 1) mod 3))) with (D.copp d (dco j ((r + 1) mod 3))) by (rewrite Eo; unfold a, b, c, dco in *; upd_eval; auto).
      rewrite <- slf_dco by auto. intros Hs.
      destruct (DF.slf_created NC maxv d (Z.of_nat k) (dco j r) HW Hx) as [X|X]; [congruence|].
      rewrite (Old _ X). apply HL; auto.
Qed.

(** ** the end: [SIM] for all faces gives [eb_iso] *)
Section SimEnd.
Hypothesis Complete : forall f, (f < nf)%nat -> is_degenerated c2v f = false -> In f (map (fun c => (c / 3)%nat) Q).
Hypothesis FAN : one_fan c2v opp.

Lemma created_all o : (o < 3 * nf)%nat -> is_degenerated c2v (o / 3) = false ->
  exists j r, (j < length Q)%nat /\ (r < 3)%nat /\ o = eco j r.
Proof.
  intros Ho Dg. assert (Hf : (o / 3 < nf)%nat) by (apply Nat.div_lt_upper_bound; lia).
  destruct (In_nth _ _ 0%nat (Complete _ Hf Dg)) as (j & Hj & Ej). rewrite map_length in Hj.
  assert (M : (nth j (map (fun c => c / 3) Q) 0 = nth j Q 0 / 3)%nat) by (exact (map_nth (fun c => (c / 3)%nat) Q 0%nat j)).
  rewrite M in Ej. symmetry in Ej. destruct (face_rot _ _ Ej) as (r & Hr & Er). exists j, r. auto.
Qed.

(** SwingRight in the encoder's table = the decoder's SwingLeft backwards: the decoder vertex is the same *)
Lemma sr_step d j r b : SIM (length Q) d -> LAB (length Q) d ->
  (j < length Q)%nat -> (r < 3)%nat -> swing_right opp (eco j r) = Some b ->
  exists j' r', (j' < length Q)%nat /\ (r' < 3)%nat /\ b = eco j' r' /\ D.c2v d (dco j r) = D.c2v d (dco j' r').
Proof.
  intros HS HF Hj Hr E. unfold swing_right in E. destruct (opp_at opp (prev_c (eco j r))) as [o|] eqn:Eo; [|discriminate].
  inversion E; subst b. clear E.
  destruct (opp_facts _ _ Eo) as (Eo' & _ & Ho & _ & Dg & _).
  destruct (created_all o Ho Dg) as (j' & r2 & Hj' & Hr2 & ->).
  assert (Hm2 : ((r + 2) mod 3 < 3)%nat) by (apply Nat.mod_upper_bound; lia).
  assert (Hn2 : ((r2 + 2) mod 3 < 3)%nat) by (apply Nat.mod_upper_bound; lia).
  exists j', ((r2 + 2) mod 3)%nat. split; auto. split; auto. split; [symmetry; apply eco_prev; auto|].
  (* Opposite in the decoder *)
  pose proof (s_opp _ _ HS j' r2 Hj' Hr2) as X. unfold s_opp_at in X. rewrite Eo' in X. destruct X as [X _].
  rewrite <- (eco_prev j r Hr) in X. specialize (X j ((r + 2) mod 3)%nat Hj Hm2 eq_refl).
  set (c := dco j' ((r2 + 2) mod 3)).
  assert (Hc : 0 <= c < 3 * Z.of_nat (length Q)) by (unfold c, dco; lia).
  assert (Esl : DP.slf d c = dco j r).
  { rewrite DF.slf_at by lia. unfold c. rewrite dco_next by auto.
    replace (((r2 + 2) mod 3 + 1) mod 3)%nat with r2 by (destruct r2 as [|[|[|r2]]]; cbn; lia).
    rewrite X. rewrite dco_next by auto.
    replace (((r + 2) mod 3 + 1) mod 3)%nat with r by (destruct r as [|[|[|r]]]; cbn; lia). reflexivity. }
  pose proof (HF j' ((r2 + 2) mod 3)%nat Hj' Hn2) as L. fold c in L. rewrite Esl in L. apply L. unfold dco. lia.
Qed.

Lemma sr_reach d : SIM (length Q) d -> LAB (length Q) d -> forall n j r b,
  (j < length Q)%nat -> (r < 3)%nat -> oiter (swing_right opp) n (Some (eco j r)) = Some b ->
  exists j' r', (j' < length Q)%nat /\ (r' < 3)%nat /\ b = eco j' r' /\ D.c2v d (dco j r) = D.c2v d (dco j' r').
Proof.
  intros HS HF. induction n as [|n IH]; intros j r b Hj Hr E; cbn [oiter] in E.
  - inversion E; subst b. exists j, r. auto.
  - destruct (oiter (swing_right opp) n (Some (eco j r))) as [y|] eqn:Ey; [|discriminate].
    destruct (IH j r y Hj Hr Ey) as (j1 & r1 & Hj1 & Hr1 & -> & V1).
    destruct (sr_step d j1 r1 b HS HF Hj1 Hr1 E) as (j2 & r2 & Hj2 & Hr2 & -> & V2).
    exists j2, r2. repeat split; auto. congruence.
Qed.

(** the final table is the encoder's table up to [eb_iso] *)
Lemma sim_iso_lab d : SIM (length Q) d -> LAB (length Q) d -> eb_iso c2v opp Q (D.c2v d) (D.copp d).
Proof.
  intros HS HF. unfold eb_iso.
  assert (Dec : forall dd, (dd < 3 * length Q)%nat ->
            (dd / 3 < length Q)%nat /\ (dd mod 3 < 3)%nat /\ cmap Q dd = eco (dd / 3) (dd mod 3) /\ Z.of_nat dd = dco (dd / 3) (dd mod 3)).
  { intros dd H. split; [apply Nat.div_lt_upper_bound; lia|]. split; [apply Nat.mod_upper_bound; lia|]. split; [reflexivity|].
    unfold dco. pose proof (Nat.div_mod dd 3). lia. }
  split; [|split; [|split; [|split]]].
  - intros k Hk. destruct (Qrng k Hk). split; auto. lia.
  - exact Qnd.
  - intros f Hf. apply Complete. rewrite Hlen in Hf. rewrite Nat.mul_comm, Nat.div_mul in Hf; auto.
  - intros dd Hdd. destruct (Dec dd Hdd) as (A1 & A2 & A3 & A4). rewrite A3, A4.
    pose proof (s_opp _ _ HS _ _ A1 A2) as X. unfold s_opp_at in X.
    destruct (opp_at opp (eco (dd / 3) (dd mod 3))) as [o|] eqn:Eo; auto.
    destruct (opp_facts _ _ Eo) as (_ & _ & Ho & _ & Dg & _).
    destruct (created_all o Ho Dg) as (j' & r' & Hj' & Hr' & ->).
    destruct X as [X _]. exists (3 * j' + r')%nat. split; [lia|]. split.
    + rewrite (X j' r' Hj' Hr' eq_refl). unfold dco. lia.
    + unfold cmap. replace ((3 * j' + r') mod 3)%nat with r' by (rewrite Nat.mul_comm, Nat.add_comm, Nat.mod_add, Nat.mod_small; lia).
      replace ((3 * j' + r') / 3)%nat with j' by (rewrite Nat.mul_comm, Nat.add_comm, Nat.div_add, Nat.div_small; lia). reflexivity.
  - intros d1 d2 H1 H2. destruct (Dec d1 H1) as (A1 & A2 & A3 & A4). destruct (Dec d2 H2) as (B1 & B2 & B3 & B4).
    rewrite A3, A4, B3, B4. split.
    + apply (s_vtx _ _ HS); auto.
    + intros Ev.
      destruct (Qrng _ A1) as [Q1 Q2]. destruct (Qrng _ B1) as [Q3 Q4].
      destruct (FAN (eco (d1 / 3) (d1 mod 3)) (eco (d2 / 3) (d2 mod 3))) as [[n R]|[n R]]; auto;
        try (rewrite Hlen; apply eco_rng; auto); try (rewrite eco_face; auto).
      * destruct (sr_reach d HS HF n _ _ _ A1 A2 R) as (j' & r' & Hj' & Hr' & E & V).
        apply eco_inj in E; auto. destruct E as [<- <-]. auto.
      * destruct (sr_reach d HS HF n _ _ _ B1 B2 R) as (j' & r' & Hj' & Hr' & E & V).
        apply eco_inj in E; auto. destruct E as [<- <-]. auto.
Qed.

Lemma sim_iso d : SIM (length Q) d -> DF.FI (Z.of_nat (length Q)) d -> eb_iso c2v opp Q (D.c2v d) (D.copp d).
Proof. intros HS HF. apply sim_iso_lab; auto. apply FI_LAB; auto. Qed.

End SimEnd.

End Sim.
