(** EBSIM, symbol S (decoder side): forward step lemma of TOPOLOGY_S without topology split event (two active boundaries
    are merged, the vertex n = Vertex(Next(corner_b)) is relabelled to p = Vertex(Previous(corner_a)) by the SwingLeft loop),
    and the preservation of the simulation relation. *)
From Coq Require Import ZArith List Bool Lia ZifyBool Arith PeanoNat.
From Draco Require Import Model.CornerTable Model.EbEncoder Proofs.CornerTable_proofs Proofs.EbEncoder_proofs.
From Draco Require Model.Edgebreaker Proofs.Edgebreaker_proofs Proofs.Edgebreaker_fan_proofs Proofs.Edgebreaker_oob_proofs Proofs.Edgebreaker_compact_proofs.
From Draco Require Import Proofs.EbSimDec_proofs.
Import ListNotations.
Local Open Scope Z_scope.
Ltac Zify.zify_post_hook ::= Z.div_mod_to_equations.

Section DecS.
Variables NC maxv : Z.

(** the state after the new face was glued in and labelled, before the relabelling loop *)
Definition s_glued (s : D.st) (f a b : Z) : D.st :=
  let p := D.c2v s (D.prev_c a) in let q := D.c2v s (D.next_c a) in let r := D.c2v s (D.prev_c b) in let n := D.c2v s (D.next_c b) in
  let vc1 := D.upd (D.vc s) r (3 * f + 2) in
  D.mkst (D.upd (D.upd (D.upd (D.c2v s) (3 * f) p) (3 * f + 1) q) (3 * f + 2) r)
         (D.upd (D.upd (D.upd (D.upd (D.copp s) a (3 * f + 2)) (3 * f + 2) a) b (3 * f + 1)) (3 * f + 1) b)
         (D.upd vc1 p (vc1 n)) (D.nv s) (D.hole s) (D.stack s) (D.splits s) (D.events s) (D.invalid s) (D.nfaces s) (D.inits s).

(** the corner glued to the left edge of an S face: the entry below the top of the stack, or - when a topology split event
    registered one for this symbol - the corner from topology_split_active_corners (then the stack keeps that entry) *)
Definition stack1_of (s : D.st) (sid : Z) (rest0 : list Z) : list Z :=
  match D.find_split sid (D.splits s) with Some c => c :: rest0 | None => rest0 end.

Lemma step_S_unfold_g : forall rm s f sid a b rest0 rest, DP.W NC maxv f s -> 3 * f + 3 <= NC -> D.stack s = b :: rest0 ->
  stack1_of s sid rest0 = a :: rest -> 0 <= a < 3 * f -> a <> b -> D.copp s a = -1 -> D.copp s b = -1 ->
  D.step_S NC rm s f sid =
    D.bind (D.s_loop NC (D.loop_fuel NC) (s_glued s f a b) (D.next_c b) (D.next_c b) (D.c2v s (D.prev_c a)))
      (fun s2 => let n := D.c2v s (D.next_c b) in
                 D.bind (D.make_isolated s2 n)
                   (fun s3 => D.Ok (D.with_stack (if rm then D.with_invalid s3 (n :: D.invalid s3) else s3) (3 * f :: rest)))).
Proof.
  intros rm s f sid a b rest0 rest HW HN Est Es1 Ha Nab Fa Fb.
  pose proof (DP.w_nf _ _ _ _ HW) as Hnf. pose proof (DP.w_nv _ _ _ _ HW) as Hnv.
  pose proof (DP.w_stack _ _ _ _ HW) as Hst. rewrite Est in Hst. inversion Hst as [|? ? Hb Hrest0]; subst.
  pose proof (DP.next_c_rng a f Ha) as Hna. pose proof (DP.prev_c_rng a f Ha) as Hpa.
  pose proof (DP.next_c_rng b f Hb) as Hnb. pose proof (DP.prev_c_rng b f Hb) as Hpb.
  pose proof (DP.w_vr _ _ _ _ HW _ Hpa) as Vp. pose proof (DP.w_vr _ _ _ _ HW _ Hna) as Vq.
  pose proof (DP.w_vr _ _ _ _ HW _ Hpb) as Vr. pose proof (DP.w_vr _ _ _ _ HW _ Hnb) as Vn.
  unfold D.step_S. rewrite Est. unfold stack1_of in Es1. rewrite Es1. replace (a =? b) with false by lia.
  unfold D.all_free, D.opposite. fwd. rewrite Fa. cbn [Z.eqb Pos.eqb D.bind]. fwd. rewrite Fb. cbn [Z.eqb Pos.eqb D.bind negb].
  unfold D.set_opps, D.set_opp, D.vertex, D.map_cv, D.set_lmc, D.lmc.
  repeat first [ progress fwd | rewrite DP.upd_other by lia ].
  reflexivity.
Qed.
Lemma W_glued_g : forall s f a b rest0, DP.W NC maxv f s -> 3 * f + 3 <= NC -> D.stack s = b :: rest0 -> 0 <= a < 3 * f ->
  a <> b -> D.copp s a = -1 -> D.copp s b = -1 -> DP.W NC maxv (f + 1) (s_glued s f a b).
Proof.
  intros s f a b rest0 HW HN Est Ha Nab Fa Fb.
  pose proof (DP.w_nf _ _ _ _ HW) as Hnf. pose proof (DP.w_nv _ _ _ _ HW) as Hnv. pose proof (DP.w_free _ _ _ _ HW) as HF.
  pose proof (DP.w_stack _ _ _ _ HW) as Hst. rewrite Est in Hst. inversion Hst as [|? ? Hb Hrest0]; subst.
  pose proof (DP.next_c_rng a f Ha) as Hna. pose proof (DP.prev_c_rng a f Ha) as Hpa.
  pose proof (DP.next_c_rng b f Hb) as Hnb. pose proof (DP.prev_c_rng b f Hb) as Hpb.
  pose proof (DP.w_vr _ _ _ _ HW _ Hpa) as Vp. pose proof (DP.w_vr _ _ _ _ HW _ Hna) as Vq.
  pose proof (DP.w_vr _ _ _ _ HW _ Hpb) as Vr. pose proof (DP.w_vr _ _ _ _ HW _ Hnb) as Vn.
  pose proof (DP.div3_lt a f Ha). pose proof (DP.div3_lt b f Hb).
  unfold s_glued. constructor; dproj.
  - lia.
  - replace (3 * (f + 1)) with (3 * f + 3) by lia.
    apply DP.PI_link; [apply DP.PI_link; [eapply DP.PI_extend; [apply (DP.w_pi _ _ _ _ HW) | exact HF | lia] | lia | lia | exact Fa | apply HF; lia |]
                   | lia | lia | rewrite !DP.upd_other by lia; exact Fb | rewrite !DP.upd_other by lia; apply HF; lia |].
    + rewrite (DP.div3_new f 2) by lia. lia.
    + rewrite (DP.div3_new f 1) by lia. lia.
  - intros c Hc. rewrite !DP.upd_other by lia. apply HF. lia.
  - replace (3 * (f + 1)) with (3 * f + 3) by lia. intros c Hc. unfold D.upd.
    destruct (c =? 3 * f + 2) eqn:Q2; [lia|]. destruct (c =? 3 * f + 1) eqn:Q1; [lia|]. destruct (c =? 3 * f) eqn:Q0; [lia|].
    apply (DP.w_vr _ _ _ _ HW). lia.
  - apply DP.LR_upd.
    + apply DP.LR_upd; [|right; lia]. eapply DP.LR_mono; [apply (DP.w_lr _ _ _ _ HW)|lia].
    + unfold D.upd. destruct (D.c2v s (D.next_c b) =? D.c2v s (D.prev_c b)); [right; lia|].
      destruct (DP.w_lr _ _ _ _ HW _ Vn) as [Q|Q]; [left; auto|right; lia].
  - exact Hnv.
  - rewrite Est. constructor; [lia|]. eapply DP.Forall_mono3; [|exact Hrest0]. lia.
  - eapply DP.Forall_mono3s; [|apply (DP.w_splits _ _ _ _ HW)]. lia.
  - apply (DP.w_invalid _ _ _ _ HW).
Qed.

(** the relabelling loop along a chain of SwingLeft that ends without coming back to its first corner *)
Lemma s_loop_chain : forall (g : Z -> Z) first p (m : nat), g (-1) = -1 ->
  forall fuel i s cn, (i <= m)%nat -> cn = Nat.iter i g first ->
  (forall c, DP.slf s c = g c) ->
  (forall j, (j <= m)%nat -> 0 <= Nat.iter j g first < NC /\ 0 <= D.next_c (Nat.iter j g first) < NC) ->
  Nat.iter (S m) g first = -1 ->
  (forall j, (1 <= j <= m)%nat -> Nat.iter j g first <> first) -> first <> -1 ->
  D.s_loop NC fuel s cn first p <> D.Reject /\ D.s_loop NC fuel s cn first p <> D.OOB.
Proof.
  intros g first p m G1. induction fuel as [|fuel IH]; intros i s cn Hi Ecn Hg Hr Hend Hnr Hf; cbn [D.s_loop]; [split; discriminate|].
  destruct (Hr i Hi) as (R1 & R2). rewrite <- Ecn in R1, R2.
  replace (cn =? -1) with false by lia.
  unfold D.map_cv. rng_true. cbn [D.bind].
  set (s1 := D.with_c2v s (D.upd (D.c2v s) cn p)).
  assert (Hg1 : forall c, DP.slf s1 c = g c) by (intros c; rewrite <- Hg; reflexivity).
  unfold D.swing_left, D.opposite. replace (D.next_c cn =? -1) with false by lia. rng_true. cbn [D.bind].
  assert (Es : D.next_c (D.copp s1 (D.next_c cn)) = g cn).
  { rewrite <- Hg1. rewrite DF.slf_at by lia. reflexivity. }
  rewrite Es.
  destruct (Nat.eq_dec i m) as [->|Ni].
  - assert (Eg : g cn = -1) by (rewrite Ecn; exact Hend). rewrite Eg.
    replace (-1 =? first) with false by lia.
    destruct fuel; cbn [D.s_loop]; [split; discriminate|]. cbn. split; discriminate.
  - assert (Eg : g cn = Nat.iter (S i) g first) by (rewrite Ecn; reflexivity).
    assert (Ng : g cn <> first) by (rewrite Eg; apply Hnr; lia).
    replace (g cn =? first) with false by lia.
    apply (IH (S i) s1 (g cn)); auto. lia.
Qed.

Lemma dec_step_S_g : forall rm s f sid a b rest0 rest, DP.W NC maxv f s -> DF.FI f s -> 3 * f + 3 <= NC -> D.stack s = b :: rest0 ->
  stack1_of s sid rest0 = a :: rest -> 0 <= a < 3 * f -> a <> b -> D.copp s a = -1 -> D.copp s b = -1 ->
  let p := D.c2v s (D.prev_c a) in let r := D.c2v s (D.prev_c b) in let n := D.c2v s (D.next_c b) in
  p <> n -> r <> n ->
  exists s', D.step_S NC rm s f sid = D.Ok s' /\
    D.copp s' = D.copp (s_glued s f a b) /\
    (forall c, 0 <= c < 3 * f + 3 -> D.c2v s' c = if D.c2v (s_glued s f a b) c =? n then p else D.c2v (s_glued s f a b) c) /\
    D.nv s' = D.nv s /\ D.stack s' = 3 * f :: rest /\
    D.events s' = D.events s /\ D.splits s' = D.splits s /\
    D.invalid s' = (if rm then n :: D.invalid s else D.invalid s) /\ D.nfaces s' = D.nfaces s.
Proof.
  intros rm s f sid a b rest0 rest HW HF HN Est Es1 Ha Nab Fa Fb p r n Npn Nrn.
  pose proof (DP.w_nf _ _ _ _ HW) as Hnf. pose proof (DP.w_nv _ _ _ _ HW) as Hnv.
  pose proof (DP.w_stack _ _ _ _ HW) as Hst. rewrite Est in Hst. inversion Hst as [|? ? Hb Hrest0]; subst.
  pose proof (DP.next_c_rng a f Ha) as Hna. pose proof (DP.prev_c_rng a f Ha) as Hpa.
  pose proof (DP.next_c_rng b f Hb) as Hnb. pose proof (DP.prev_c_rng b f Hb) as Hpb.
  pose proof (DP.w_vr _ _ _ _ HW _ Hpa) as Vp. pose proof (DP.w_vr _ _ _ _ HW _ Hnb) as Vn. fold p in Vp. fold n in Vn.
  rewrite (step_S_unfold_g rm s f sid a b rest0 rest) by auto.
  set (s1 := s_glued s f a b). fold p. fold n.
  pose proof (W_glued_g s f a b rest0 HW HN Est Ha Nab Fa Fb) as HW1. fold s1 in HW1.
  assert (Ec1 : D.copp s1 = D.upd (D.upd (D.upd (D.upd (D.copp s) a (3 * f + 2)) (3 * f + 2) a) b (3 * f + 1)) (3 * f + 1) b) by reflexivity.
  assert (Ev1 : D.c2v s1 = D.upd (D.upd (D.upd (D.c2v s) (3 * f) p) (3 * f + 1) (D.c2v s (D.next_c a))) (3 * f + 2) r) by reflexivity.
  destruct (DF.sc_orbit NC maxv s s1 f a b HW HF Ha Hb Nab Fa Fb Ec1) as (kb & K1 & K2 & K3 & K4 & K5).
  fold n in K1, K2, K3, K4, K5.
  (* the loop neither rejects nor leaves the arrays *)
  assert (Hend : DP.slf s1 (D.vc s n) = -1).
  { assert (Hvc : 0 <= D.vc s n < 3 * f).
    { destruct (K4 kb (le_n _)) as (_ & R & _). rewrite K1 in R. exact R. }
    assert (Lb : D.c2v s (D.vc s n) = n). { apply (DF.f_vc _ _ HF); auto. }
    rewrite DF.slf_at in K3 |- * by lia. rewrite Ec1.
    assert (N1 : D.next_c (D.vc s n) <> a).
    { intro X. apply Npn. unfold p. rewrite <- X. rewrite (proj2 (proj2 (proj2 (DP.next_c_spec (D.vc s n) ltac:(lia))))). auto. }
    assert (N2 : D.next_c (D.vc s n) <> b).
    { intro X. apply Nrn. unfold r. rewrite <- X. rewrite (proj2 (proj2 (proj2 (DP.next_c_spec (D.vc s n) ltac:(lia))))). auto. }
    pose proof (DP.next_c_rng _ f Hvc). rewrite !DP.upd_other by lia. exact K3. }
  destruct (s_loop_chain (DP.slf s1) (D.next_c b) p kb (DF.slf_m1 s1) (D.loop_fuel NC) 0%nat s1 (D.next_c b)) as (NR & NO); auto; try lia.
  { intros j Hj. destruct (K4 j Hj) as (_ & R & _ & E). rewrite E. split; [lia|]. pose proof (DP.next_c_rng _ f R). lia. }
  { rewrite DF.iter_S. destruct (K4 kb (le_n _)) as (_ & _ & _ & E). rewrite E, K1. exact Hend. }
  { intros j Hj. destruct (K4 j ltac:(lia)) as (_ & _ & _ & E). rewrite E.
    destruct j as [|j]; [lia|]. rewrite DF.iter_S. destruct (K4 j ltac:(lia)) as (_ & R & _).
    apply (DF.sc_no_pred NC maxv s f a b HW b Hb Fb). exact R. }
  assert (Hp1 : 0 <= p < D.nv s1) by (unfold s1, s_glued; cbn [D.nv]; lia).
  assert (Hcn : D.next_c b = -1 \/ 0 <= D.next_c b < 3 * (f + 1)) by (right; lia).
  pose proof (DP.s_loop_nofuel NC maxv s1 (f + 1) (D.next_c b) p HW1 Hcn Hp1) as NF.
  destruct (D.s_loop NC (D.loop_fuel NC) s1 (D.next_c b) (D.next_c b) p) as [s2| | |] eqn:Eloop; try congruence.
  cbn [D.bind].
  destruct (DP.s_loop_W NC maxv _ _ _ _ _ _ _ HW1 Hcn Hp1 Eloop) as (HW2 & SB).
  destruct SB as (B1 & B2 & B3 & B4 & B5 & B6 & B7 & B8 & B9 & B10).
  unfold D.make_isolated. rewrite B3. cbn [s1 s_glued D.nv]. rng_true. cbn [D.bind].
  eexists. split; [reflexivity|].
  pose proof (DF.sc_relabel NC maxv s s1 s2 f a b HW HF Ha Hb Nab Fa Fb Ec1 Ev1 HW1 Eloop) as RL.
  destruct rm; dproj; (split; [exact B1|]); (split; [intros c Hc; rewrite (RL c Hc); reflexivity|]); rewrite ?B3, ?B7, ?B6, ?B8, ?B9; cbn [s1 s_glued D.nv D.events D.splits D.invalid D.nfaces];
    repeat split; reflexivity.
Qed.

(** one whole iteration of the symbol loop for S (no pending split event, no split corner registered for this symbol) *)
Lemma dec_step_S_full_g : forall rm s sid ns a b rest0 rest, DP.W NC maxv (D.nfaces s) s -> DF.FI (D.nfaces s) s -> 3 * D.nfaces s + 3 <= NC ->
  D.stack s = b :: rest0 -> stack1_of s sid rest0 = a :: rest -> 0 <= a < 3 * D.nfaces s -> a <> b -> D.copp s a = -1 -> D.copp s b = -1 ->
  let f := D.nfaces s in
  let p := D.c2v s (D.prev_c a) in let r := D.c2v s (D.prev_c b) in let n := D.c2v s (D.next_c b) in
  p <> n -> r <> n ->
  exists s', D.step NC maxv rm ns s sid 1 = D.Ok s' /\
    D.copp s' = D.copp (s_glued s f a b) /\
    (forall c, 0 <= c < 3 * f + 3 -> D.c2v s' c = if D.c2v (s_glued s f a b) c =? n then p else D.c2v (s_glued s f a b) c) /\
    D.nv s' = D.nv s /\ D.stack s' = 3 * f :: rest /\
    D.events s' = D.events s /\ D.splits s' = D.splits s /\
    D.invalid s' = (if rm then n :: D.invalid s else D.invalid s) /\ D.nfaces s' = f + 1.
Proof.
  intros rm s sid ns a b rest0 rest HW HF HN Est Es1 Ha Nab Fa Fb f p r n Npn Nrn.
  pose proof (DP.W_with_nfaces NC maxv _ _ (f + 1) HW) as HW0.
  assert (HF0 : DF.FI f (D.with_nfaces s (f + 1))) by (apply (DF.FI_same _ s); try reflexivity; exact HF).
  destruct (dec_step_S_g rm (D.with_nfaces s (f + 1)) f sid a b rest0 rest HW0 HF0 HN Est Es1 Ha Nab Fa Fb Npn Nrn)
    as (s' & E & A1 & A2 & A3 & A4 & A5 & A6 & A7 & A8).
  unfold D.step. change (1 =? D.TOPOLOGY_C) with false. change (1 =? D.TOPOLOGY_R) with false. change (1 =? D.TOPOLOGY_L) with false.
  change (1 =? D.TOPOLOGY_S) with true. cbn [orb]. fold f. rewrite E. exists s'. split; [reflexivity|].
  split; [exact A1|]. split; [exact A2|]. repeat split; auto.
Qed.

(** the case without a registered split corner (the statements used for the classes without split events) *)
Lemma stack1_none s sid a rest : D.find_split sid (D.splits s) = None -> stack1_of s sid (a :: rest) = a :: rest.
Proof. intros E. unfold stack1_of. rewrite E. reflexivity. Qed.

Lemma dec_step_S : forall rm s f sid a b rest, DP.W NC maxv f s -> DF.FI f s -> 3 * f + 3 <= NC -> D.stack s = b :: a :: rest ->
  D.find_split sid (D.splits s) = None -> a <> b -> D.copp s a = -1 -> D.copp s b = -1 ->
  let p := D.c2v s (D.prev_c a) in let r := D.c2v s (D.prev_c b) in let n := D.c2v s (D.next_c b) in
  p <> n -> r <> n ->
  exists s', D.step_S NC rm s f sid = D.Ok s' /\
    D.copp s' = D.copp (s_glued s f a b) /\
    (forall c, 0 <= c < 3 * f + 3 -> D.c2v s' c = if D.c2v (s_glued s f a b) c =? n then p else D.c2v (s_glued s f a b) c) /\
    D.nv s' = D.nv s /\ D.stack s' = 3 * f :: rest /\
    D.events s' = D.events s /\ D.splits s' = D.splits s /\
    D.invalid s' = (if rm then n :: D.invalid s else D.invalid s) /\ D.nfaces s' = D.nfaces s.
Proof.
  intros rm s f sid a b rest HW HF HN Est Efs Nab Fa Fb.
  assert (Ha : 0 <= a < 3 * f).
  { pose proof (DP.w_stack _ _ _ _ HW) as Hst. rewrite Est in Hst. inversion Hst as [|? ? _ Hst2]. inversion Hst2; auto. }
  apply (dec_step_S_g rm s f sid a b (a :: rest) rest); auto. apply stack1_none; auto.
Qed.

Lemma dec_step_S_full : forall rm s sid ns a b rest, DP.W NC maxv (D.nfaces s) s -> DF.FI (D.nfaces s) s -> 3 * D.nfaces s + 3 <= NC ->
  D.stack s = b :: a :: rest -> D.find_split sid (D.splits s) = None -> a <> b -> D.copp s a = -1 -> D.copp s b = -1 ->
  let f := D.nfaces s in
  let p := D.c2v s (D.prev_c a) in let r := D.c2v s (D.prev_c b) in let n := D.c2v s (D.next_c b) in
  p <> n -> r <> n ->
  exists s', D.step NC maxv rm ns s sid 1 = D.Ok s' /\
    D.copp s' = D.copp (s_glued s f a b) /\
    (forall c, 0 <= c < 3 * f + 3 -> D.c2v s' c = if D.c2v (s_glued s f a b) c =? n then p else D.c2v (s_glued s f a b) c) /\
    D.nv s' = D.nv s /\ D.stack s' = 3 * f :: rest /\
    D.events s' = D.events s /\ D.splits s' = D.splits s /\
    D.invalid s' = (if rm then n :: D.invalid s else D.invalid s) /\ D.nfaces s' = f + 1.
Proof.
  intros rm s sid ns a b rest HW HF HN Est Efs Nab Fa Fb.
  assert (Ha : 0 <= a < 3 * D.nfaces s).
  { pose proof (DP.w_stack _ _ _ _ HW) as Hst. rewrite Est in Hst. inversion Hst as [|? ? _ Hst2]. inversion Hst2; auto. }
  apply (dec_step_S_full_g rm s sid ns a b (a :: rest) rest); auto. apply stack1_none; auto.
Qed.

End DecS.

(** * the simulation relation through an S step *)
Section SimS.
Variables (c2v : list nat) (opp : list (option nat)) (nf : nat).
Hypothesis Hlen : length c2v = (3 * nf)%nat.
Hypothesis OK : opp_ok c2v opp.
Variable Q : list nat.
Hypothesis Qrng : forall j, (j < length Q)%nat -> (nth j Q 0%nat < 3 * nf)%nat /\ is_degenerated c2v (nth j Q 0%nat / 3) = false.
Hypothesis Qnd : NoDup (map (fun c => (c / 3)%nat) Q).
Variables NC maxv : Z.

Local Notation eco := (eco Q).
Local Notation SIM := (SIM c2v opp Q).
Local Notation ncr := (ncr opp Q).
Let opp_facts := opp_facts c2v opp nf Hlen OK.
Let eco_inj := eco_inj Q Qnd.
Let eco_face := eco_face Q.
Let Q_face_inj := Q_face_inj Q Qnd.
Let dco_next := dco_next c2v opp nf Hlen OK Q Qrng.
Let dco_prev := dco_prev c2v opp nf Hlen OK Q Qrng.

Ltac upd_eval :=
  unfold D.upd; repeat match goal with |- context[Z.eqb ?a ?b] => destruct (Z.eqb_spec a b); try lia end.

(** the vertex clause when old decoder vertices are relabelled n -> p, n and p standing for the same encoder vertex *)
Lemma vtx_step_relabel k d d' n p jn rn jp rp : (k < length Q)%nat ->
  (forall j r j' r', (j < k)%nat -> (r < 3)%nat -> (j' < k)%nat -> (r' < 3)%nat ->
     D.c2v d (dco j r) = D.c2v d (dco j' r') -> vtx c2v (eco j r) = vtx c2v (eco j' r')) ->
  (jn < k)%nat -> (rn < 3)%nat -> (jp < k)%nat -> (rp < 3)%nat ->
  n = D.c2v d (dco jn rn) -> p = D.c2v d (dco jp rp) -> vtx c2v (eco jn rn) = vtx c2v (eco jp rp) ->
  (forall j r, (j < S k)%nat -> (r < 3)%nat ->
     exists j0 r0, (j0 < k)%nat /\ (r0 < 3)%nat /\
       D.c2v d' (dco j r) = (if D.c2v d (dco j0 r0) =? n then p else D.c2v d (dco j0 r0)) /\ vtx c2v (eco j r) = vtx c2v (eco j0 r0)) ->
  forall j r j' r', (j < S k)%nat -> (r < 3)%nat -> (j' < S k)%nat -> (r' < 3)%nat ->
     D.c2v d' (dco j r) = D.c2v d' (dco j' r') -> vtx c2v (eco j r) = vtx c2v (eco j' r').
Proof.
  intros Hk Old Hjn Hrn Hjp Hrp En Ep Evnp Rep j r j' r' Hj Hr Hj' Hr' E.
  destruct (Rep j r Hj Hr) as (j0 & r0 & A1 & A2 & A3 & A4).
  destruct (Rep j' r' Hj' Hr') as (j1 & r1 & B1 & B2 & B3 & B4).
  rewrite A4, B4. rewrite A3, B3 in E.
  assert (Vn : forall jj rr, (jj < k)%nat -> (rr < 3)%nat -> D.c2v d (dco jj rr) = n -> vtx c2v (eco jj rr) = vtx c2v (eco jn rn)).
  { intros jj rr H1 H2 X. apply Old; auto. congruence. }
  assert (Vp : forall jj rr, (jj < k)%nat -> (rr < 3)%nat -> D.c2v d (dco jj rr) = p -> vtx c2v (eco jj rr) = vtx c2v (eco jp rp)).
  { intros jj rr H1 H2 X. apply Old; auto. congruence. }
  destruct (Z.eqb_spec (D.c2v d (dco j0 r0)) n) as [X0|X0]; destruct (Z.eqb_spec (D.c2v d (dco j1 r1)) n) as [X1|X1].
  - rewrite (Vn _ _ A1 A2 X0), (Vn _ _ B1 B2 X1). reflexivity.
  - rewrite (Vn _ _ A1 A2 X0), (Vp _ _ B1 B2 (eq_sym E)). auto.
  - rewrite (Vp _ _ A1 A2 E), (Vn _ _ B1 B2 X1). auto.
  - apply Old; auto.
Qed.

(** the S face Q[k]: its corner 1 glued to b = (k-1, 0) (the right corner), its corner 2 to a = (ja, 0) (the left corner);
    the decoder vertex n = Vertex(Next(b)) is relabelled to p = Vertex(Previous(a)) *)
Lemma SIM_S k d d' ja : (k < length Q)%nat -> (1 <= k)%nat -> (ja < k)%nat -> SIM k d -> DP.W NC maxv (Z.of_nat k) d ->
  let a := dco ja 0 in let b := dco (k - 1) 0 in
  D.copp d' = D.copp (s_glued d (Z.of_nat k) a b) ->
  (forall c, 0 <= c < 3 * Z.of_nat k + 3 ->
     D.c2v d' c = if D.c2v (s_glued d (Z.of_nat k) a b) c =? D.c2v d (D.next_c b) then D.c2v d (D.prev_c a) else D.c2v (s_glued d (Z.of_nat k) a b) c) ->
  D.nfaces d' = Z.of_nat (S k) ->
  opp_at opp (eco k 1) = Some (eco (k - 1) 0) -> opp_at opp (eco k 2) = Some (eco ja 0) ->
  ncr k (eco k 0) ->
  SIM (S k) d'.
Proof.
  intros Hk H1 Hja [S1 S2 S3] HW a b Eo Ev En Er El N0.
  destruct (opp_facts _ _ Er) as (_ & _ & _ & _ & _ & _ & Vr1 & Vr2).
  destruct (opp_facts _ _ El) as (_ & _ & _ & _ & _ & _ & Vl1 & Vl2).
  assert (E1 : eco k 1 = next_c (eco k 0)) by reflexivity. assert (E2 : eco k 2 = prev_c (eco k 0)) by reflexivity.
  rewrite E1 in Vr1, Vr2. rewrite E2 in Vl1, Vl2. rewrite next_next in Vr1. rewrite prev_next in Vr2. rewrite next_prev in Vl1. rewrite prev_prev in Vl2.
  assert (Nab : ((k - 1)%nat, 0%nat) <> (ja, 0%nat)).
  { intro X. inversion X as [X1].
    assert (Y : (eco (k - 1) 0 / 3)%nat <> (eco ja 0 / 3)%nat).
    { apply (nbr_next_distinct c2v opp nf Hlen OK (next_c (eco k 0))); [exact Er|rewrite next_next; exact El]. }
    apply Y. rewrite X1. reflexivity. }
  assert (Nabz : a <> b). { unfold a, b, dco. intro X. apply Nab. f_equal; lia. }
  assert (Ena : D.next_c a = dco ja 1) by (unfold a; rewrite dco_next by lia; reflexivity).
  assert (Epa : D.prev_c a = dco ja 2) by (unfold a; rewrite dco_prev by lia; reflexivity).
  assert (Enb : D.next_c b = dco (k - 1) 1) by (unfold b; rewrite dco_next by lia; reflexivity).
  assert (Epb : D.prev_c b = dco (k - 1) 2) by (unfold b; rewrite dco_prev by lia; reflexivity).
  constructor; auto.
  - apply (opp_step c2v opp nf Hlen OK Q Qrng Qnd k d d' (fun r => match r with 1%nat => Some ((k - 1)%nat, 0%nat) | 2%nat => Some (ja, 0%nat) | _ => None end)); auto.
    + intros rn jo r0 Hrn Eg. destruct rn as [|[|[|rn]]]; try discriminate; inversion Eg; subst jo r0.
      * split; [lia|]. split; [lia|]. split; auto. rewrite Eo. unfold s_glued. cbn [D.copp]. unfold a, b, dco in *. split; upd_eval.
      * split; [lia|]. split; [lia|]. split; auto. rewrite Eo. unfold s_glued. cbn [D.copp]. unfold a, b, dco in *. split; upd_eval.
    + intros r Hr Eg. destruct r as [|[|[|r]]]; try discriminate; try lia. split; auto.
      rewrite Eo. unfold s_glued. cbn [D.copp]. unfold a, b, dco in *. upd_eval. apply (DP.w_free _ _ _ _ HW). lia.
    + intros j r Hj Hr Ng. rewrite Eo. unfold s_glued. cbn [D.copp]. unfold a, b, dco in *. upd_eval.
      * exfalso. apply (Ng 1%nat); [lia|]. f_equal. f_equal; lia.
      * exfalso. apply (Ng 2%nat); [lia|]. f_equal. f_equal; lia.
  - apply (vtx_step_relabel k d d' (D.c2v d (D.next_c b)) (D.c2v d (D.prev_c a)) (k - 1)%nat 1%nat ja 2%nat); auto; try lia.
    + rewrite Enb. reflexivity.
    + rewrite Epa. reflexivity.
    + unfold EbSimDec_proofs.eco in *. cbn [rot] in *. congruence.
    + intros j r Hj Hr. rewrite Ev by (unfold dco; lia). unfold s_glued. cbn [D.c2v]. rewrite Epa, Ena, Epb.
      destruct (Nat.eq_dec j k) as [->|Nj].
      * destruct r as [|[|[|r]]]; try lia.
        -- exists ja, 2%nat. split; [lia|]. split; [lia|]. split.
           { replace (dco k 0) with (3 * Z.of_nat k) by (unfold dco; lia). rewrite !DP.upd_other by lia. rewrite DP.upd_same. reflexivity. }
           unfold EbSimDec_proofs.eco in *. cbn [rot] in *. congruence.
        -- exists ja, 1%nat. split; [lia|]. split; [lia|]. split.
           { replace (dco k 1) with (3 * Z.of_nat k + 1) by (unfold dco; lia). rewrite !DP.upd_other by lia. rewrite DP.upd_same. reflexivity. }
           unfold EbSimDec_proofs.eco in *. cbn [rot] in *. congruence.
        -- exists (k - 1)%nat, 2%nat. split; [lia|]. split; [lia|]. split.
           { replace (dco k 2) with (3 * Z.of_nat k + 2) by (unfold dco; lia). rewrite DP.upd_same. reflexivity. }
           unfold EbSimDec_proofs.eco in *. cbn [rot] in *. congruence.
      * exists j, r. split; [lia|]. split; [auto|]. split; [|auto].
        rewrite !DP.upd_other by (unfold dco; lia). reflexivity.
Qed.

Lemma SIM_S_g k d d' ja ra : (k < length Q)%nat -> (1 <= k)%nat -> (ja < k)%nat -> (ra < 3)%nat -> SIM k d -> DP.W NC maxv (Z.of_nat k) d ->
  let a := dco ja ra in let b := dco (k - 1) 0 in
  D.copp d' = D.copp (s_glued d (Z.of_nat k) a b) ->
  (forall c, 0 <= c < 3 * Z.of_nat k + 3 ->
     D.c2v d' c = if D.c2v (s_glued d (Z.of_nat k) a b) c =? D.c2v d (D.next_c b) then D.c2v d (D.prev_c a) else D.c2v (s_glued d (Z.of_nat k) a b) c) ->
  D.nfaces d' = Z.of_nat (S k) ->
  opp_at opp (eco k 1) = Some (eco (k - 1) 0) -> opp_at opp (eco k 2) = Some (eco ja ra) ->
  ncr k (eco k 0) ->
  SIM (S k) d'.
Proof.
  intros Hk H1 Hja Hra [S1 S2 S3] HW a b Eo Ev En Er El N0.
  set (rp := ((ra + 2) mod 3)%nat) in *. set (rq := ((ra + 1) mod 3)%nat) in *.
  assert (Hrp : (rp < 3)%nat) by (apply Nat.mod_upper_bound; lia).
  assert (Hrq : (rq < 3)%nat) by (apply Nat.mod_upper_bound; lia).
  pose proof (EbSimDec_proofs.eco_prev Q ja ra Hra) as Eprev. fold rp in Eprev.
  pose proof (EbSimDec_proofs.eco_next Q ja ra Hra) as Enext. fold rq in Enext.
  destruct (opp_facts _ _ Er) as (_ & _ & _ & _ & _ & _ & Vr1 & Vr2).
  destruct (opp_facts _ _ El) as (_ & _ & _ & _ & _ & _ & Vl1 & Vl2).
  assert (E1 : eco k 1 = next_c (eco k 0)) by reflexivity. assert (E2 : eco k 2 = prev_c (eco k 0)) by reflexivity.
  rewrite E1 in Vr1, Vr2. rewrite E2 in Vl1, Vl2. rewrite next_next in Vr1. rewrite prev_next in Vr2. rewrite next_prev in Vl1. rewrite prev_prev in Vl2.
  assert (Nf : ja <> (k - 1)%nat).
  { intro X.
    assert (Y : (eco (k - 1) 0 / 3)%nat <> (eco ja ra / 3)%nat).
    { apply (nbr_next_distinct c2v opp nf Hlen OK (next_c (eco k 0))); [exact Er|rewrite next_next; exact El]. }
    apply Y. rewrite !eco_face, X. reflexivity. }
  assert (Nab : ((k - 1)%nat, 0%nat) <> (ja, ra)) by (intro X; inversion X; lia).
  assert (Nabz : a <> b). { unfold a, b, dco. lia. }
  assert (Ena : D.next_c a = dco ja rq) by (unfold a; rewrite dco_next by lia; reflexivity).
  assert (Epa : D.prev_c a = dco ja rp) by (unfold a; rewrite dco_prev by lia; reflexivity).
  assert (Enb : D.next_c b = dco (k - 1) 1) by (unfold b; rewrite dco_next by lia; reflexivity).
  assert (Epb : D.prev_c b = dco (k - 1) 2) by (unfold b; rewrite dco_prev by lia; reflexivity).
  constructor; auto.
  - apply (opp_step c2v opp nf Hlen OK Q Qrng Qnd k d d' (fun r => match r with 1%nat => Some ((k - 1)%nat, 0%nat) | 2%nat => Some (ja, ra) | _ => None end)); auto.
    + intros rn jo r0 Hrn Eg. destruct rn as [|[|[|rn]]]; try discriminate; inversion Eg; subst jo r0.
      * split; [lia|]. split; [lia|]. split; auto. rewrite Eo. unfold s_glued. cbn [D.copp]. unfold a, b, dco in *. split; upd_eval.
      * split; [lia|]. split; [lia|]. split; auto. rewrite Eo. unfold s_glued. cbn [D.copp]. unfold a, b, dco in *. split; upd_eval.
    + intros r Hr Eg. destruct r as [|[|[|r]]]; try discriminate; try lia. split; auto.
      rewrite Eo. unfold s_glued. cbn [D.copp]. unfold a, b, dco in *. upd_eval. apply (DP.w_free _ _ _ _ HW). lia.
    + intros j r Hj Hr Ng. rewrite Eo. unfold s_glued. cbn [D.copp]. unfold a, b, dco in *. upd_eval.
      * exfalso. apply (Ng 1%nat); [lia|]. f_equal. f_equal; lia.
      * exfalso. apply (Ng 2%nat); [lia|]. f_equal. f_equal; lia.
  - apply (vtx_step_relabel k d d' (D.c2v d (D.next_c b)) (D.c2v d (D.prev_c a)) (k - 1)%nat 1%nat ja rp); auto; try lia.
    + rewrite Enb. reflexivity.
    + rewrite Epa. reflexivity.
    + rewrite Eprev. change (eco (k - 1) 1) with (next_c (eco (k - 1) 0)). congruence.
    + intros j r Hj Hr. rewrite Ev by (unfold dco; lia). unfold s_glued. cbn [D.c2v]. rewrite Epa, Ena, Epb.
      destruct (Nat.eq_dec j k) as [->|Nj].
      * destruct r as [|[|[|r]]]; try lia.
        -- exists ja, rp. split; [lia|]. split; [lia|]. split.
           { replace (dco k 0) with (3 * Z.of_nat k) by (unfold dco; lia). rewrite !DP.upd_other by lia. rewrite DP.upd_same. reflexivity. }
           rewrite Eprev. change (eco k 0) with (nth k Q 0%nat) in *. congruence.
        -- exists ja, rq. split; [lia|]. split; [lia|]. split.
           { replace (dco k 1) with (3 * Z.of_nat k + 1) by (unfold dco; lia). rewrite !DP.upd_other by lia. rewrite DP.upd_same. reflexivity. }
           rewrite Enext. change (eco k 1) with (next_c (eco k 0)). congruence.
        -- exists (k - 1)%nat, 2%nat. split; [lia|]. split; [lia|]. split.
           { replace (dco k 2) with (3 * Z.of_nat k + 2) by (unfold dco; lia). rewrite DP.upd_same. reflexivity. }
           change (eco k 2) with (prev_c (eco k 0)). change (eco (k - 1) 2) with (prev_c (eco (k - 1) 0)). congruence.
      * exists j, r. split; [lia|]. split; [auto|]. split; [|auto].
        rewrite !DP.upd_other by (unfold dco; lia). reflexivity.
Qed.


(** ** p <> n: the two boundaries merged by S carry DIFFERENT decoder vertices at the tip.  [Sbreak]: what the encoder saw - the
    tip vertex was visited or lies on a mesh boundary: some OTHER corner at it is in a face processed before (not created)
    or has a boundary edge at the vertex *)
Definition Sbreak (k : nat) : Prop :=
  exists x, (x < 3 * nf)%nat /\ is_degenerated c2v (x / 3) = false /\ vtx c2v x = vtx c2v (eco k 0) /\ x <> eco k 0 /\
    ((forall j', (j' < k)%nat -> (nth j' Q 0%nat / 3 <> x / 3)%nat) \/ opp_at opp (next_c x) = None \/ opp_at opp (prev_c x) = None).

Lemma created_dec k o : (exists j', (j' < k)%nat /\ (nth j' Q 0%nat / 3 = o / 3)%nat) \/ (forall j', (j' < k)%nat -> (nth j' Q 0%nat / 3 <> o / 3)%nat).
Proof.
  induction k as [|k IH]; [right; intros; lia|]. destruct IH as [(j' & A & B)|N]; [left; exists j'; split; auto; lia|].
  destruct (Nat.eq_dec (nth k Q 0%nat / 3) (o / 3)) as [E|Ne]; [left; exists k; split; auto|].
  right. intros j' Hj'. destruct (Nat.eq_dec j' k); [subst; auto|apply N; lia].
Qed.

(** a SwingLeft path of the decoder through created corners is a SwingLeft path of the encoder's table *)
Lemma slf_enc k d : (k <= length Q)%nat -> SIM k d -> forall m j r, (j < k)%nat -> (r < 3)%nat ->
  Nat.iter m (DP.slf d) (dco j r) <> -1 ->
  exists j' r', (j' < k)%nat /\ (r' < 3)%nat /\ Nat.iter m (DP.slf d) (dco j r) = dco j' r' /\
                oiter (swing_left opp) m (Some (eco j r)) = Some (eco j' r').
Proof.
  intros Hk HS. induction m as [|m IH]; intros j r Hj Hr Al.
  - exists j, r. repeat split; auto.
  - rewrite DF.iter_S in Al |- *.
    assert (Al0 : Nat.iter m (DP.slf d) (dco j r) <> -1).
    { intro X. rewrite X in Al. apply Al. reflexivity. }
    destruct (IH j r Hj Hr Al0) as (j1 & r1 & Hj1 & Hr1 & E1 & O1). rewrite E1 in Al |- *.
    assert (Hm : ((r1 + 1) mod 3 < 3)%nat) by (apply Nat.mod_upper_bound; lia).
    rewrite (slf_dco c2v opp nf Hlen OK Q Qrng) in Al |- * by auto.
    pose proof (s_opp c2v opp Q _ _ HS j1 ((r1 + 1) mod 3)%nat Hj1 Hm) as X. unfold s_opp_at in X.
    destruct (opp_at opp (eco j1 ((r1 + 1) mod 3))) as [o|] eqn:Eo.
    2:{ rewrite X in Al. exfalso. apply Al. reflexivity. }
    destruct X as [X1 X2]. destruct (created_dec k o) as [(j2 & Hj2 & F2)|N].
    2:{ rewrite (X2 N) in Al. exfalso. apply Al. reflexivity. }
    symmetry in F2. destruct (face_rot _ _ F2) as (r2 & Hr2 & Er2). fold (eco j2 r2) in Er2. subst o.
    rewrite (X1 j2 r2 Hj2 Hr2 eq_refl). rewrite dco_next by auto.
    exists j2, ((r2 + 1) mod 3)%nat. split; auto. split; [apply Nat.mod_upper_bound; lia|]. split; auto.
    cbn [oiter]. rewrite O1. unfold swing_left. rewrite <- (eco_next Q) by auto. rewrite Eo. rewrite (eco_next Q) by auto. reflexivity.
Qed.

Lemma sr_rev' : forall t a b, oiter (swing_right opp) t (Some a) = Some b -> oiter (swing_left opp) t (Some b) = Some a.
Proof.
  induction t as [|t IH]; intros a b H.
  - cbn [oiter] in *. congruence.
  - cbn [oiter] in H. destruct (oiter (swing_right opp) t (Some a)) as [y|] eqn:E; [|discriminate].
    pose proof (sr_sl c2v opp nf Hlen OK _ _ H) as S1. rewrite oiter_shift, S1. apply IH. auto.
Qed.

Lemma S_sep k d ja : (k < length Q)%nat -> (1 <= k)%nat -> (ja < k)%nat -> SIM k d -> DF.FI (Z.of_nat k) d -> one_fan c2v opp ->
  opp_at opp (eco k 1) = Some (eco (k - 1) 0) -> opp_at opp (eco k 2) = Some (eco ja 0) -> Sbreak k ->
  D.c2v d (dco ja 2) <> D.c2v d (dco (k - 1) 1).
Proof.
  intros Hk H1 Hja HS HF FAN Er El (x & Hx & Nx & Vx & Nxc & Brk) Eq.
  set (c := eco k 0) in *.
  assert (E1 : eco k 1 = next_c c) by reflexivity. assert (E2 : eco k 2 = prev_c c) by reflexivity. rewrite E1 in Er. rewrite E2 in El.
  destruct (opp_facts _ _ Er) as (Er' & _). destruct (opp_facts _ _ El) as (El' & _).
  (* Previous(left corner) is a dead end of SwingLeft *)
  assert (Dead : DP.slf d (dco ja 2) = -1).
  { rewrite (slf_dco c2v opp nf Hlen OK Q Qrng) by lia. cbn [Nat.modulo Nat.divmod Nat.add fst snd Nat.sub].
    pose proof (s_opp c2v opp Q _ _ HS ja 0%nat Hja ltac:(lia)) as X. unfold s_opp_at in X. rewrite El' in X. destruct X as [_ X].
    rewrite X. reflexivity. intros j' Hj' F. rewrite prev_face in F. unfold c in F. rewrite eco_face in F. apply Q_face_inj in F; lia. }
  (* hence it is LeftMostCorner of its vertex, and Next(right corner) reaches it *)
  destruct (DF.f_reach _ _ HF (dco ja 2) ltac:(unfold dco; lia)) as (Np & (m1 & R1)).
  assert (Tp : D.vc d (D.c2v d (dco ja 2)) = dco ja 2).
  { destruct m1; [cbn in R1; congruence|]. rewrite DF.iter_succ_r, Dead, DF.iter_dead in R1. congruence. }
  destruct (DF.f_reach _ _ HF (dco (k - 1) 1) ltac:(unfold dco; lia)) as (_ & (m & R)). rewrite <- Eq, Tp in R.
  destruct (slf_enc k d ltac:(lia) HS m (k - 1)%nat 1%nat ltac:(lia) ltac:(lia)) as (j' & r' & Hj' & Hr' & Ed & Ech).
  { rewrite R. unfold dco. lia. }
  rewrite R in Ed. assert (X : j' = ja /\ r' = 2%nat) by (unfold dco in Ed; lia). destruct X as [-> ->].
  change (eco (k - 1) 1) with (next_c (eco (k - 1) 0)) in Ech. change (eco ja 2) with (prev_c (eco ja 0)) in Ech.
  set (rc := eco (k - 1) 0) in *. set (lc := eco ja 0) in *.
  (* the corners of the walk, with c, are closed under SwingLeft and SwingRight *)
  set (InC := fun y => y = c \/ exists i, (i <= m)%nat /\ oiter (swing_left opp) i (Some (next_c rc)) = Some y).
  assert (Csl : forall y y', InC y -> swing_left opp y = Some y' -> InC y').
  { intros y y' [->|(i & Hi & Ei)] Sy.
    - right. exists 0%nat. split; [lia|]. unfold swing_left in Sy. rewrite Er in Sy. cbn [oiter]. congruence.
    - destruct (Nat.eq_dec i m) as [->|Ni].
      + left. rewrite Ech in Ei. inversion Ei; subst y. unfold swing_left in Sy. rewrite next_prev, El', next_prev in Sy. congruence.
      + right. exists (S i). split; [lia|]. cbn [oiter]. rewrite Ei. auto. }
  assert (Csr : forall y y', InC y -> swing_right opp y = Some y' -> InC y').
  { intros y y' [->|(i & Hi & Ei)] Sy.
    - right. exists m. split; [lia|]. unfold swing_right in Sy. rewrite El in Sy. rewrite Ech. congruence.
    - destruct i as [|i].
      + left. cbn [oiter] in Ei. inversion Ei; subst y. unfold swing_right in Sy. rewrite prev_next, Er', prev_next in Sy. congruence.
      + right. exists i. split; [lia|]. cbn [oiter] in Ei. destruct (oiter (swing_left opp) i (Some (next_c rc))) as [z|] eqn:Ez; [|discriminate].
        apply (sl_sr c2v opp nf Hlen OK) in Ei. rewrite Ei in Sy. congruence. }
  assert (Isl : forall t y y', InC y -> oiter (swing_left opp) t (Some y) = Some y' -> InC y').
  { induction t as [|t IHt]; intros y y' Iy E; cbn [oiter] in E; [inversion E; subst; auto|].
    destruct (oiter (swing_left opp) t (Some y)) as [z|] eqn:Ez; [|discriminate]. eapply Csl; [eapply IHt; eauto|eauto]. }
  assert (Isr : forall t y y', InC y -> oiter (swing_right opp) t (Some y) = Some y' -> InC y').
  { induction t as [|t IHt]; intros y y' Iy E; cbn [oiter] in E; [inversion E; subst; auto|].
    destruct (oiter (swing_right opp) t (Some y)) as [z|] eqn:Ez; [|discriminate]. eapply Csr; [eapply IHt; eauto|eauto]. }
  assert (Ic : InC c) by (left; auto).
  destruct (Qrng k Hk) as [Hc Dc]. fold (eco k 0) in Hc. fold c in Hc. rewrite <- (eco_face k 0) in Dc. fold c in Dc.
  assert (Ix : InC x).
  { assert (Hc' : (c < length c2v)%nat) by (rewrite Hlen; exact Hc).
    assert (Hx' : (x < length c2v)%nat) by (rewrite Hlen; exact Hx).
    destruct (FAN c x Hc' Hx' Dc Nx (eq_sym Vx)) as [[t R0]|[t R0]].
    - eapply Isr; eauto.
    - apply sr_rev' in R0. eapply Isl; eauto. }
  destruct Ix as [X|(i & Hi & Ei)]; [congruence|].
  (* x is on the walk: it is created and has both neighbours around the vertex *)
  destruct (slf_enc k d ltac:(lia) HS i (k - 1)%nat 1%nat ltac:(lia) ltac:(lia)) as (j2 & r2 & Hj2 & Hr2 & _ & Ech2).
  { intro X. assert (Y : Nat.iter m (DP.slf d) (dco (k - 1) 1) = -1).
    { replace m with ((m - i) + i)%nat by lia. rewrite DF.iter_add, X, DF.iter_dead. reflexivity. }
    rewrite R in Y. unfold dco in Y. lia. }
  change (eco (k - 1) 1) with (next_c rc) in Ech2. rewrite Ei in Ech2. inversion Ech2 as [Ex].
  destruct Brk as [B1|[B2|B3]].
  - apply (B1 j2 Hj2). rewrite Ex, eco_face. reflexivity.
  - destruct (Nat.eq_dec i m) as [->|Ni].
    + rewrite Ech in Ei. inversion Ei as [H0]. rewrite <- H0 in B2. rewrite next_prev, El' in B2. discriminate.
    + assert (Y : exists y, oiter (swing_left opp) (S i) (Some (next_c rc)) = Some y).
      { destruct (slf_enc k d ltac:(lia) HS (S i) (k - 1)%nat 1%nat ltac:(lia) ltac:(lia)) as (j3 & r3 & _ & _ & _ & E3); eauto.
        intro X. assert (Y : Nat.iter m (DP.slf d) (dco (k - 1) 1) = -1).
        { replace m with ((m - S i) + S i)%nat by lia. rewrite DF.iter_add, X, DF.iter_dead. reflexivity. }
        rewrite R in Y. unfold dco in Y. lia. }
      destruct Y as (y & Ey). cbn [oiter] in Ey. rewrite Ei in Ey. unfold swing_left in Ey. rewrite B2 in Ey. discriminate.
  - destruct i as [|i].
    + cbn [oiter] in Ei. inversion Ei as [H0]. rewrite <- H0 in B3. rewrite prev_next, Er' in B3. discriminate.
    + cbn [oiter] in Ei. destruct (oiter (swing_left opp) i (Some (next_c rc))) as [z|] eqn:Ez; [|discriminate].
      apply (sl_sr c2v opp nf Hlen OK) in Ei. unfold swing_right in Ei. rewrite B3 in Ei. discriminate.
Qed.

Lemma S_sep_g k d ja ra : (k < length Q)%nat -> (1 <= k)%nat -> (ja < k)%nat -> (ra < 3)%nat -> SIM k d -> DF.FI (Z.of_nat k) d -> one_fan c2v opp ->
  opp_at opp (eco k 1) = Some (eco (k - 1) 0) -> opp_at opp (eco k 2) = Some (eco ja ra) -> Sbreak k ->
  D.c2v d (dco ja ((ra + 2) mod 3)) <> D.c2v d (dco (k - 1) 1).
Proof.
  intros Hk H1 Hja Hra HS HF FAN Er El (x & Hx & Nx & Vx & Nxc & Brk) Eq.
  set (rp := ((ra + 2) mod 3)%nat) in *.
  assert (Hrp : (rp < 3)%nat) by (apply Nat.mod_upper_bound; lia).
  assert (Erp : ((rp + 1) mod 3 = ra)%nat) by (unfold rp; destruct ra as [|[|[|ra]]]; try lia; reflexivity).
  set (c := eco k 0) in *.
  assert (E1 : eco k 1 = next_c c) by reflexivity. assert (E2 : eco k 2 = prev_c c) by reflexivity. rewrite E1 in Er. rewrite E2 in El.
  destruct (opp_facts _ _ Er) as (Er' & _). destruct (opp_facts _ _ El) as (El' & _).
  (* Previous(left corner) is a dead end of SwingLeft *)
  assert (Dead : DP.slf d (dco ja rp) = -1).
  { rewrite (slf_dco c2v opp nf Hlen OK Q Qrng) by lia. rewrite Erp.
    pose proof (s_opp c2v opp Q _ _ HS ja ra Hja Hra) as X. unfold s_opp_at in X. rewrite El' in X. destruct X as [_ X].
    rewrite X. reflexivity. intros j' Hj' F. rewrite prev_face in F. unfold c in F. rewrite eco_face in F. apply Q_face_inj in F; lia. }
  (* hence it is LeftMostCorner of its vertex, and Next(right corner) reaches it *)
  destruct (DF.f_reach _ _ HF (dco ja rp) ltac:(unfold dco; lia)) as (Np & (m1 & R1)).
  assert (Tp : D.vc d (D.c2v d (dco ja rp)) = dco ja rp).
  { destruct m1; [symmetry; exact R1|]. rewrite DF.iter_succ_r, Dead, DF.iter_dead in R1. congruence. }
  destruct (DF.f_reach _ _ HF (dco (k - 1) 1) ltac:(unfold dco; lia)) as (_ & (m & R)). rewrite <- Eq, Tp in R.
  destruct (slf_enc k d ltac:(lia) HS m (k - 1)%nat 1%nat ltac:(lia) ltac:(lia)) as (j' & r' & Hj' & Hr' & Ed & Ech).
  { rewrite R. unfold dco. lia. }
  rewrite R in Ed. assert (X : j' = ja /\ r' = rp) by (unfold dco in Ed; lia). destruct X as [Xj Xr]. subst j' r'.
  change (eco (k - 1) 1) with (next_c (eco (k - 1) 0)) in Ech. unfold rp in Ech. rewrite (EbSimDec_proofs.eco_prev Q ja ra Hra) in Ech. fold rp in Ech.
  set (rc := eco (k - 1) 0) in *. set (lc := eco ja ra) in *.
  clearbody rp.
  (* the corners of the walk, with c, are closed under SwingLeft and SwingRight *)
  set (InC := fun y => y = c \/ exists i, (i <= m)%nat /\ oiter (swing_left opp) i (Some (next_c rc)) = Some y).
  assert (Csl : forall y y', InC y -> swing_left opp y = Some y' -> InC y').
  { intros y y' [->|(i & Hi & Ei)] Sy.
    - right. exists 0%nat. split; [lia|]. unfold swing_left in Sy. rewrite Er in Sy. cbn [oiter]. congruence.
    - destruct (Nat.eq_dec i m) as [->|Ni].
      + left. rewrite Ech in Ei. inversion Ei; subst y. unfold swing_left in Sy. rewrite next_prev, El', next_prev in Sy. congruence.
      + right. exists (S i). split; [lia|]. cbn [oiter]. rewrite Ei. auto. }
  assert (Csr : forall y y', InC y -> swing_right opp y = Some y' -> InC y').
  { intros y y' [->|(i & Hi & Ei)] Sy.
    - right. exists m. split; [lia|]. unfold swing_right in Sy. rewrite El in Sy. rewrite Ech. congruence.
    - destruct i as [|i].
      + left. cbn [oiter] in Ei. inversion Ei; subst y. unfold swing_right in Sy. rewrite prev_next, Er', prev_next in Sy. congruence.
      + right. exists i. split; [lia|]. cbn [oiter] in Ei. destruct (oiter (swing_left opp) i (Some (next_c rc))) as [z|] eqn:Ez; [|discriminate].
        apply (sl_sr c2v opp nf Hlen OK) in Ei. rewrite Ei in Sy. congruence. }
  assert (Isl : forall t y y', InC y -> oiter (swing_left opp) t (Some y) = Some y' -> InC y').
  { induction t as [|t IHt]; intros y y' Iy E; cbn [oiter] in E; [inversion E; subst; auto|].
    destruct (oiter (swing_left opp) t (Some y)) as [z|] eqn:Ez; [|discriminate]. eapply Csl; [eapply IHt; eauto|eauto]. }
  assert (Isr : forall t y y', InC y -> oiter (swing_right opp) t (Some y) = Some y' -> InC y').
  { induction t as [|t IHt]; intros y y' Iy E; cbn [oiter] in E; [inversion E; subst; auto|].
    destruct (oiter (swing_right opp) t (Some y)) as [z|] eqn:Ez; [|discriminate]. eapply Csr; [eapply IHt; eauto|eauto]. }
  assert (Ic : InC c) by (left; auto).
  destruct (Qrng k Hk) as [Hc Dc]. fold (eco k 0) in Hc. fold c in Hc. rewrite <- (eco_face k 0) in Dc. fold c in Dc.
  assert (Ix : InC x).
  { assert (Hc' : (c < length c2v)%nat) by (rewrite Hlen; exact Hc).
    assert (Hx' : (x < length c2v)%nat) by (rewrite Hlen; exact Hx).
    destruct (FAN c x Hc' Hx' Dc Nx (eq_sym Vx)) as [[t R0]|[t R0]].
    - eapply Isr; eauto.
    - apply sr_rev' in R0. eapply Isl; eauto. }
  destruct Ix as [X|(i & Hi & Ei)]; [congruence|].
  (* x is on the walk: it is created and has both neighbours around the vertex *)
  destruct (slf_enc k d ltac:(lia) HS i (k - 1)%nat 1%nat ltac:(lia) ltac:(lia)) as (j2 & r2 & Hj2 & Hr2 & _ & Ech2).
  { intro X. assert (Y : Nat.iter m (DP.slf d) (dco (k - 1) 1) = -1).
    { replace m with ((m - i) + i)%nat by lia. rewrite DF.iter_add, X, DF.iter_dead. reflexivity. }
    rewrite R in Y. unfold dco in Y. lia. }
  change (eco (k - 1) 1) with (next_c rc) in Ech2. rewrite Ei in Ech2. inversion Ech2 as [Ex].
  destruct Brk as [B1|[B2|B3]].
  - apply (B1 j2 Hj2). rewrite Ex, eco_face. reflexivity.
  - destruct (Nat.eq_dec i m) as [->|Ni].
    + rewrite Ech in Ei. inversion Ei as [H0]. rewrite <- H0 in B2. rewrite next_prev, El' in B2. discriminate.
    + assert (Y : exists y, oiter (swing_left opp) (S i) (Some (next_c rc)) = Some y).
      { destruct (slf_enc k d ltac:(lia) HS (S i) (k - 1)%nat 1%nat ltac:(lia) ltac:(lia)) as (j3 & r3 & _ & _ & _ & E3); eauto.
        intro X. assert (Y : Nat.iter m (DP.slf d) (dco (k - 1) 1) = -1).
        { replace m with ((m - S i) + S i)%nat by lia. rewrite DF.iter_add, X, DF.iter_dead. reflexivity. }
        rewrite R in Y. unfold dco in Y. lia. }
      destruct Y as (y & Ey). cbn [oiter] in Ey. rewrite Ei in Ey. unfold swing_left in Ey. rewrite B2 in Ey. discriminate.
  - destruct i as [|i].
    + cbn [oiter] in Ei. inversion Ei as [H0]. rewrite <- H0 in B3. rewrite prev_next, Er' in B3. discriminate.
    + cbn [oiter] in Ei. destruct (oiter (swing_left opp) i (Some (next_c rc))) as [z|] eqn:Ez; [|discriminate].
      apply (sl_sr c2v opp nf Hlen OK) in Ei. unfold swing_right in Ei. rewrite B3 in Ei. discriminate.
Qed.


End SimS.
